(* C02 composition, part 1: the abstract name index of Model/Attr.v (sorted list of (hash, heap id), first match
   by hash, capacity) is simulated by the record list of the detailed B-tree v2 model (Model/BT2.v) under the
   abstraction function [abs_idx].  For every operation the answer classes agree and [abs_idx] commutes. *)
From HV Require Import Base.Prelude Model.Attr Model.AttrCompose.
From HV Require Model.BT2 Proofs.BT2.

(* ------------------------------------------------------------------ heap ids: 8 bytes <-> uint64 <-> 7 bytes *)

Lemma le_lt256 k : forall v, Forall (fun b => b < 256) (le k v).
Proof. induction k as [|k IH]; intro v; cbn [le]; constructor; [lia | apply IH]. Qed.

Lemma le_unle : forall l, Forall (fun b => b < 256) l -> le (List.length l) (unle l) = l.
Proof.
  induction l as [|b r IH]; intro F; [reflexivity|]. inversion F as [|? ? Hb Fr]; subst.
  cbn [List.length le unle].
  replace ((b + 256 * unle r) mod 256) with b by lia.
  replace ((b + 256 * unle r) / 256) with (unle r) by lia.
  rewrite IH by assumption. reflexivity.
Qed.

Lemma id8_lt256 id : Forall (fun b => b < 256) (id8 id).
Proof.
  unfold id8, FHeap.mkid. constructor; [lia|]. apply Forall_app. split; [apply le_lt256|].
  apply Forall_app. split; [apply le_lt256|]. repeat constructor; lia.
Qed.

(* binary.LittleEndian.Uint64 of the 8 id bytes, then the 7 low bytes the record keeps *)
Lemma to7_id8 id : BT2.to7 (unle (id8 id)) = id7 id.
Proof.
  unfold BT2.to7. change 8%nat with (List.length (id8 id)). rewrite le_unle by apply id8_lt256. reflexivity.
Qed.

(* SearchRecord: copy of the 7 bytes into an 8-byte slice *)
Lemma id7_to_8 id : firstn 8 (id7 id ++ repeat 0 8) = id8 id.
Proof. reflexivity. Qed.

Lemma abs_id7 id : id_ok id -> abs_id (id7 id) = id.
Proof.
  intros [H1 H2]. destruct id as [a b]. cbn [fst snd] in *. unfold abs_id, id7. cbn [fst snd le app skipn firstn unle].
  f_equal; lia.
Qed.

Lemma abs_conc rc : id_ok (snd rc) -> abs_rec (conc_rec rc) = rc.
Proof. intro H. destruct rc as [h id]. unfold abs_rec, conc_rec. cbn [fst snd] in *. rewrite abs_id7 by assumption. reflexivity. Qed.

(* ------------------------------------------------------------------ the simulation relation *)

Definition ids_ok (ix : idx) : Prop := Forall (fun rc : N * hid => id_ok (snd rc)) ix.

(* the records are the canonical images of the abstract records *)
Definition ISim (s : BT2.bt2) (ix : idx) : Prop := BT2.recs s = map conc_rec ix /\ ids_ok ix.

Lemma ISim_abs s ix : ISim s ix -> abs_idx s = ix.
Proof.
  intros [E F]. unfold abs_idx. rewrite E. clear E. induction F as [|rc ix H F IH]; [reflexivity|].
  cbn [map]. rewrite abs_conc by assumption. rewrite IH. reflexivity.
Qed.

Lemma ISim_length s ix : ISim s ix -> List.length (BT2.recs s) = List.length ix.
Proof. intros [E _]. rewrite E. apply map_length. Qed.

(* ------------------------------------------------------------------ search *)

Lemma lookup_conc h ix : BT2.lookup_rec h (map conc_rec ix) = option_map id7 (idx_search h ix).
Proof.
  induction ix as [|[h' id] ix IH]; [reflexivity|]. cbn [map conc_rec BT2.lookup_rec idx_search fst snd].
  destruct (h' =? h); [reflexivity | exact IH].
Qed.

Lemma find_index_conc h ix :
  match BT2.find_index (map conc_rec ix) h 0 with
  | Some i => exists id, idx_search h ix = Some id /\ snd (nth i (map conc_rec ix) (0, [])) = id7 id
  | None => idx_search h ix = None
  end.
Proof.
  pose proof (BT2.find_index_lookup (map conc_rec ix) h) as L. rewrite lookup_conc in L.
  destruct (BT2.find_index (map conc_rec ix) h 0) as [i|]; destruct (idx_search h ix) as [id|]; cbn [option_map] in L;
    try discriminate; [|reflexivity].
  exists id. split; [reflexivity|]. congruence.
Qed.

(* SearchRecord: found / not found agree, and the 8 bytes handed back are the id the abstract index holds *)
Lemma search_sim s ix n : ISim s ix ->
  BT2.search_record s n = option_map id8 (idx_search (BT2.jenkins n) ix).
Proof.
  intros [E _]. unfold BT2.search_record. rewrite E.
  pose proof (find_index_conc (BT2.jenkins n) ix) as F.
  destruct (BT2.find_index (map conc_rec ix) (BT2.jenkins n) 0) as [i|].
  - destruct F as (id & -> & ->). cbn [option_map]. rewrite id7_to_8. reflexivity.
  - rewrite F. reflexivity.
Qed.

(* ------------------------------------------------------------------ insert *)

Lemma insert_sorted_conc rc : forall ix,
  BT2.insert_sorted (map conc_rec ix) (conc_rec rc) = map conc_rec (idx_insert_sorted rc ix).
Proof.
  induction ix as [|x ix IH]; [reflexivity|].
  rewrite BT2.insert_sorted_rec. cbn [map idx_insert_sorted].
  change (fst (conc_rec rc)) with (fst rc). change (fst (conc_rec x)) with (fst x).
  destruct (fst rc <=? fst x); [reflexivity|]. cbn [map]. rewrite IH. reflexivity.
Qed.

Lemma ids_ok_insert rc : forall ix, id_ok (snd rc) -> ids_ok ix -> ids_ok (idx_insert_sorted rc ix).
Proof.
  unfold ids_ok. induction ix as [|x ix IH]; intros H F; cbn [idx_insert_sorted].
  - constructor; [assumption | constructor].
  - inversion F; subst. destruct (fst rc <=? fst x); constructor; auto.
Qed.

(* InsertRecord: refused exactly when the abstract index refuses (hash present, or capacity reached);
   otherwise the record is inserted at the same position *)
Lemma insert_sim P s ix n id : ISim s ix -> id_ok id -> p_idxcap P = BT2.max_records (BT2.node_size s) ->
  match idx_insert P (BT2.jenkins n, id) ix with
  | Some ix' => exists s', BT2.insert_record s n (unle (id8 id)) = (s', true) /\ ISim s' ix' /\
                           BT2.recs s' = BT2.insert_sorted (BT2.recs s) (BT2.jenkins n, id7 id)
  | None => BT2.insert_record s n (unle (id8 id)) = (s, false)
  end.
Proof.
  intros [E F] Hid Hcap. unfold idx_insert, BT2.insert_record. cbn [fst]. rewrite to7_id8, E, map_length.
  pose proof (find_index_conc (BT2.jenkins n) ix) as Fi.
  destruct (BT2.find_index (map conc_rec ix) (BT2.jenkins n) 0) as [i|].
  - destruct Fi as (id0 & -> & _). reflexivity.
  - rewrite Fi, Hcap. destruct (BT2.max_records (BT2.node_size s) <=? N.of_nat (List.length ix)); [reflexivity|].
    eexists. split; [reflexivity|]. split; [|reflexivity]. split.
    + cbn [BT2.with_recs BT2.recs]. apply (insert_sorted_conc (BT2.jenkins n, id)).
    + apply ids_ok_insert; assumption.
Qed.

(* ------------------------------------------------------------------ update *)

Lemma update_list h id' : forall ix,
  match BT2.find_index (map conc_rec ix) h 0 with
  | Some i => exists ix', idx_update h id' ix = Some ix' /\
                let rs := map conc_rec ix in
                firstn i rs ++ (fst (nth i rs (0, [])), id7 id') :: skipn (S i) rs = map conc_rec ix'
  | None => idx_update h id' ix = None
  end.
Proof.
  induction ix as [|[h' id] ix IH]; [reflexivity|].
  cbn [map conc_rec BT2.find_index idx_update fst snd].
  destruct (h' =? h) eqn:Eh.
  - eexists. split; [reflexivity|]. reflexivity.
  - rewrite BT2.find_index_shift. destruct (BT2.find_index (map conc_rec ix) h 0) as [j|].
    + destruct IH as (ix' & -> & Hl). eexists. split; [reflexivity|].
      cbn [Nat.add firstn nth skipn app map conc_rec fst snd] in *. rewrite Hl. reflexivity.
    + rewrite IH. reflexivity.
Qed.

Lemma ids_ok_update h id' : forall ix ix', id_ok id' -> ids_ok ix -> idx_update h id' ix = Some ix' -> ids_ok ix'.
Proof.
  unfold ids_ok. induction ix as [|[h' id] ix IH]; intros ix' H F; cbn [idx_update]; [discriminate|].
  inversion F; subst. destruct (h' =? h).
  - intro E. inversion E; subst. constructor; assumption.
  - destruct (idx_update h id' ix) as [r|] eqn:U; [|discriminate]. intro E. inversion E; subst.
    constructor; [assumption | eapply IH; eauto].
Qed.

(* UpdateRecord: first record with the hash gets the new id; error exactly when the abstract update fails *)
Lemma update_sim s ix n id : ISim s ix -> id_ok id ->
  match idx_update (BT2.jenkins n) id ix with
  | Some ix' => exists s', BT2.update_record s n (unle (id8 id)) = (s', true) /\ ISim s' ix' /\
                           List.length (BT2.recs s') = List.length (BT2.recs s)
  | None => BT2.update_record s n (unle (id8 id)) = (s, false)
  end.
Proof.
  intros [E F] Hid. unfold BT2.update_record. rewrite to7_id8, E.
  pose proof (update_list (BT2.jenkins n) id ix) as U.
  destruct (BT2.find_index (map conc_rec ix) (BT2.jenkins n) 0) as [i|].
  - destruct U as (ix' & Hu & Hl). rewrite Hu. eexists. split; [reflexivity|]. split; [split|].
    + cbn [BT2.with_recs BT2.recs]. exact Hl.
    + eapply ids_ok_update; eauto.
    + cbn [BT2.with_recs BT2.recs]. cbv zeta in Hl. rewrite Hl, !map_length.
      clear -Hu. revert ix' Hu. induction ix as [|[h' id0] ix IH]; intros ix'; cbn [idx_update]; [discriminate|].
      destruct (h' =? BT2.jenkins n); [intro E; inversion E; reflexivity|].
      destruct (idx_update (BT2.jenkins n) id ix) as [r|]; [|discriminate]. intro E. inversion E; subst.
      cbn [List.length]. f_equal. apply IH. reflexivity.
  - rewrite U. reflexivity.
Qed.

(* ------------------------------------------------------------------ delete *)

Lemma delete_list h : forall ix,
  match BT2.find_index (map conc_rec ix) h 0 with
  | Some i => exists ix', idx_delete h ix = Some ix' /\
                let rs := map conc_rec ix in firstn i rs ++ skipn (S i) rs = map conc_rec ix'
  | None => idx_delete h ix = None
  end.
Proof.
  induction ix as [|[h' id] ix IH]; [reflexivity|].
  cbn [map conc_rec BT2.find_index idx_delete fst snd].
  destruct (h' =? h) eqn:Eh.
  - eexists. split; reflexivity.
  - rewrite BT2.find_index_shift. destruct (BT2.find_index (map conc_rec ix) h 0) as [j|].
    + destruct IH as (ix' & -> & Hl). eexists. split; [reflexivity|].
      cbn [Nat.add firstn skipn app map conc_rec fst snd] in *. rewrite Hl. reflexivity.
    + rewrite IH. reflexivity.
Qed.

Lemma ids_ok_delete h : forall ix ix', ids_ok ix -> idx_delete h ix = Some ix' -> ids_ok ix'.
Proof.
  unfold ids_ok. induction ix as [|[h' id] ix IH]; intros ix' F; cbn [idx_delete]; [discriminate|].
  inversion F; subst. destruct (h' =? h).
  - intro E. inversion E; subst. assumption.
  - destruct (idx_delete h ix) as [r|] eqn:U; [|discriminate]. intro E. inversion E; subst.
    constructor; [assumption | eapply IH; eauto].
Qed.

(* DeleteRecord = DeleteRecordWithRebalancing (single leaf): the first record with the hash is removed *)
Lemma delete_sim s ix n : ISim s ix ->
  match idx_delete (BT2.jenkins n) ix with
  | Some ix' => exists s', BT2.delete_with_rebalancing s n = (s', true) /\ ISim s' ix'
  | None => BT2.delete_with_rebalancing s n = (s, false)
  end.
Proof.
  intros [E F]. unfold BT2.delete_with_rebalancing, BT2.remove_record, BT2.handle_root_depth_decrease. rewrite E.
  pose proof (delete_list (BT2.jenkins n) ix) as U.
  destruct (BT2.find_index (map conc_rec ix) (BT2.jenkins n) 0) as [i|].
  - destruct U as (ix' & Hu & Hl). rewrite Hu. eexists. split.
    + match goal with |- (if ?c then _ else _) = _ => destruct c end; reflexivity.
    + split; [cbn [BT2.with_recs BT2.recs]; exact Hl | eapply ids_ok_delete; eauto].
  - rewrite U. reflexivity.
Qed.

Lemma delete_record_same s n : BT2.delete_record s n = BT2.delete_with_rebalancing s n.
Proof. reflexivity. Qed.

(* the empty index *)
Lemma ISim_new ns : ISim (BT2.new_bt ns) [].
Proof. split; [reflexivity | constructor]. Qed.

(* capacity: 4096-byte nodes hold 371 records *)
Lemma node_capacity : BT2.max_records NODE = 371.
Proof. reflexivity. Qed.
