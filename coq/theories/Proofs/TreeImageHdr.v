(* C03 end to end, reader stages with symbolic addresses, part 1: superblock of any closed file, object headers placed anywhere
   (with_header), the header of a symbol-table group, the group B-tree node placed anywhere. *)
From HV Require Import Base.Prelude Base.Outcome Base.Bytes Model.IOProg Proofs.IOProg Model.IOProgReader Model.IOProgOpen.
From HV Require Import Model.CodecSuper Model.CodecOhdr Model.CodecMsg Model.CodecType Model.CodecLink Model.GroupWire Model.RobustGroup Model.RobustAlloc.
From HV Require Import Proofs.CodecSuper Proofs.CodecOhdr Proofs.CodecLink Proofs.GroupWireHeap Proofs.GroupWireSnod Proofs.GroupWireBTree.
From HV Require Import Model.FileImage Model.TreeImage Proofs.FileImage Proofs.FileImageOhdr Proofs.FileImageData Proofs.FileImageGroup.
From HV Require Import Proofs.TreeImageRead.

Local Open Scope N_scope.

(* ------------------------------------------------------------------ superblock *)
Lemma wf_sb_eof e : e < 18446744073709551616 -> wf_superblock (sb_eof e) = true.
Proof.
  intros H. unfold wf_superblock, sb_eof, encok_superblock.
  cbn [sp_version sp_offsize sp_lensize sp_base sp_root sp_superext sp_rootbtree sp_rootheap sp_eof].
  replace (CodecSuper.u64 e) with true; [reflexivity|]. unfold CodecSuper.u64. symmetry. now apply N.ltb_lt.
Qed.
Lemma blen_sb_eof e : blen (enc_superblock (sb_eof e)) = 48.
Proof. unfold enc_superblock, sb_eof. cbn [sp_version]. change (2 =? 0) with false. cbv iota.
  cbn [sp_offsize sp_lensize sp_base sp_root sp_superext sp_eof]. rewrite !blen_app, !blen_le. reflexivity. Qed.

Theorem superblock_any e (R : list N) : e < 18446744073709551616 -> 80 <= blen R ->
  run0 (enc_superblock (sb_eof e) ++ R) p_superblock = Ok SB'.
Proof.
  intros He HR. set (f := enc_superblock (sb_eof e) ++ R).
  unfold p_superblock. rewrite run0_short.
  assert (Hrd : rd f 0 128 = enc_superblock (sb_eof e) ++ firstn 80 R).
  { subst f. unfold rd. change (N.to_nat 0) with 0%nat. change (N.to_nat 128) with 128%nat. cbn [skipn].
    rewrite firstn_app. pose proof (blen_sb_eof e) as L48. unfold blen in L48.
    rewrite firstn_all2 by blia. f_equal. }
  assert (Hav : avail f 0 128 = 128).
  { unfold avail. rewrite Hrd, blen_app, blen_sb_eof. unfold blen. rewrite firstn_length. unfold blen in HR. blia. }
  unfold IOProg.padded. rewrite Hav, Hrd. change (N.to_nat (128 - 128)) with 0%nat. cbn [zeros repeat]. rewrite app_nil_r.
  rewrite dec_sb_buf_v2; [reflexivity | now apply wf_sb_eof | reflexivity |].
  unfold blen. rewrite firstn_length. unfold blen in HR. blia.
Qed.

Lemma sig_any e (R : list N) A (k : bytes -> prog A) :
  run0 (enc_superblock (sb_eof e) ++ R) (ReadAt 0 8 k) = run0 (enc_superblock (sb_eof e) ++ R) (k signature).
Proof.
  apply run0_read_exact; [|reflexivity].
  unfold enc_superblock. cbn [sp_version sb_eof]. change (2 =? 0) with false. cbv iota.
  rewrite <- !app_assoc. exists [], ([2; sp_offsize (sb_eof e); sp_lensize (sb_eof e); 0] ++
       le 8 (sp_base (sb_eof e)) ++ le 8 (if sp_superext (sb_eof e) =? 0 then UNDEF else sp_superext (sb_eof e)) ++
       le 8 (sp_eof (sb_eof e)) ++ le 8 (sp_root (sb_eof e)) ++
       le 4 (crc32_ieee (signature ++ [2; sp_offsize (sb_eof e); sp_lensize (sb_eof e); 0] ++ le 8 (sp_base (sb_eof e)) ++
             le 8 (if sp_superext (sb_eof e) =? 0 then UNDEF else sp_superext (sb_eof e)) ++ le 8 (sp_eof (sb_eof e)) ++ le 8 (sp_root (sb_eof e)))) ++ R).
  split; [|reflexivity]. cbn [app]. reflexivity.
Qed.

(* ------------------------------------------------------------------ object headers placed anywhere *)
Definition no_attr (ms : list hmsg) : bool := forallb (fun m => negb (hm_type m =? 12) && negb (hm_type m =? 21)) ms.
(* determineObjectType depends on the message types only *)
Definition kind_of (ms : list hmsg) : N := det_type (msgs_at_v2 ms 0).

Lemma compact_attrs_none ms : forall c, no_attr ms = true -> compact_attrs SB' (msgs_at_v2 ms c) = Ret [].
Proof.
  induction ms as [|m r IH]; intros c H; [reflexivity|]. cbn [no_attr forallb] in H. apply andb_true_iff in H as [H1 H2].
  apply andb_true_iff in H1 as [H1 _]. cbn [msgs_at_v2 compact_attrs hmp_type].
  destruct (hm_type m =? 12); [discriminate|]. now apply IH.
Qed.
Lemma first_ainfo_none ms : forall c, no_attr ms = true -> first_ainfo SB' (msgs_at_v2 ms c) = None.
Proof.
  induction ms as [|m r IH]; intros c H; [reflexivity|]. cbn [no_attr forallb] in H. apply andb_true_iff in H as [H1 H2].
  apply andb_true_iff in H1 as [_ H1]. cbn [msgs_at_v2 first_ainfo hmp_type].
  destruct (hm_type m =? 21); [discriminate|]. now apply IH.
Qed.
Lemma p_attrs_none ms c : no_attr ms = true -> p_attrs SB' (msgs_at_v2 ms c) = Ret [].
Proof. intros H. unfold p_attrs. rewrite compact_attrs_none, first_ainfo_none by exact H. reflexivity. Qed.

Lemma det_type1_at ms : forall c, det_type1 (msgs_at_v2 ms c) = det_type1 (msgs_at_v2 ms 0).
Proof.
  induction ms as [|m r IH]; intros c; [reflexivity|]. cbn [msgs_at_v2 det_type1 hmp_type].
  rewrite (IH (c + 4 + blen (hm_data m))), (IH (0 + 4 + blen (hm_data m))). reflexivity.
Qed.
Lemma exists_type_at t ms : forall c,
  existsb (fun m => hmp_type m =? t) (msgs_at_v2 ms c) = existsb (fun m => hm_type m =? t) ms.
Proof. induction ms as [|m r IH]; intros c; [reflexivity|]. cbn [msgs_at_v2 existsb hmp_type]. now rewrite IH. Qed.
Lemma det_type_at ms c : det_type (msgs_at_v2 ms c) = kind_of ms.
Proof. unfold kind_of, det_type. rewrite (det_type1_at ms c), !exists_type_at. reflexivity. Qed.

Section Hdr.
Variable f : bytes.
Variable hfuel : nat.

Definition HdrAt (a : N) (x : ohdr) : Prop :=
  ohdr_ok x /\ (exists tail, placed f a (enc_ohdr_v2 x ++ tail) /\ 2 <= blen tail) /\
  (length (oh_msgs x) < hfuel)%nat /\ a + 600 < B63.

Lemma HdrAt_sig a x : HdrAt a x -> placed f a [79; 72; 68; 82].
Proof.
  intros (_ & (tail & HP & _) & _). unfold enc_ohdr_v2 in HP. rewrite <- !app_assoc in HP. now apply placed_head in HP.
Qed.

Lemma sig_placed A a (k : bytes -> prog A) : placed f a [79; 72; 68; 82] ->
  run0 f (p_sig true a k) = run0 f (k [79; 72; 68; 82]).
Proof. intros H. unfold p_sig. now rewrite (run0_read_exact _ f a [79; 72; 68; 82] 4 _ H eq_refl). Qed.

Lemma with_header_placed A a x (k : ohdr' -> prog A) : HdrAt a x -> no_attr (oh_msgs x) = true ->
  run0 f (with_header SB' hfuel a k) = run0 f (k (proj_ohdr_v2 false x a)).
Proof.
  intros (Hok & (tail & HP & Ht) & Hf & Hb) Hna. unfold with_header.
  rewrite run0_bind, (p_ohdr_placed SB' hfuel f a x tail Hok HP Ht Hf Hb).
  rewrite run0_swallow. cbn [SB' spp_bigendian]. unfold proj_ohdr_v2 at 1. cbn [ohp_msgs].
  rewrite p_attrs_none by exact Hna. cbn [bind]. rewrite run0_ret. reflexivity.
Qed.
End Hdr.

(* ------------------------------------------------------------------ the header of a symbol-table group *)
Lemma group_ohdr_ok bt hp : ohdr_ok (group_ohdr bt hp).
Proof.
  unfold ohdr_ok, group_ohdr. cbn [oh_version oh_flags oh_msgs]. split; [reflexivity|]. split; [reflexivity|].
  assert (L : blen (enc_symtab 8 {| st_btree := bt; st_heap := hp |}) = 16) by apply symtab_blen.
  split; [cbn [chunk_size_v2 fold_right hm_data]; rewrite L; blia|]. split; [discriminate|].
  constructor; [|constructor]. unfold msg_ok. cbn [hm_type hm_data]. rewrite L. unfold MSG_CONT. repeat split; try blia.
Qed.
Lemma group_ohdr_facts bt hp a : bt < 18446744073709551616 -> hp < 18446744073709551616 ->
  let h := proj_ohdr_v2 false (group_ohdr bt hp) a in
  no_attr (oh_msgs (group_ohdr bt hp)) = true /\ det_type (ohp_msgs h) = 0 /\
  existsb (fun m => hmp_type m =? 6) (ohp_msgs h) = false /\ last_symtab SB' (ohp_msgs h) = Some (bt, hp) /\ ohp_name h = [].
Proof.
  intros Hb Hh. cbn zeta. unfold proj_ohdr_v2, group_ohdr. cbn [oh_msgs msgs_at_v2 ohp_msgs ohp_name hm_type hm_data].
  repeat split; try reflexivity.
  unfold last_symtab. cbn [rev app first_symtab hmp_type hmp_data]. change (17 =? 17) with true.
  rewrite symtab_blen. change (16 <=? 16) with true. cbn [andb SB' spp_bigendian].
  rewrite symtab_roundtrip; [reflexivity|].
  unfold wf_symtab. cbn [st_btree st_heap]. apply N.ltb_lt in Hb, Hh. now rewrite Hb, Hh.
Qed.

(* ------------------------------------------------------------------ the group B-tree node *)
Lemma bt_block_bytes' sa : sa < 18446744073709551616 ->
  bt_block sa = ([84; 82; 69; 69; 0; 0; 1; 0] ++ le 8 UNDEF ++ le 8 UNDEF) ++ (le 8 0 ++ le 8 sa ++ le 8 0) ++ zeros 496.
Proof.
  intros H. unfold bt_block.
  change (add_key (new_btnode 0 GROUP_K) 0 sa) with
    (@Ok btnode {| btn_type := 0; btn_level := 0; btn_used := 1; btn_left := MaxUint64; btn_right := MaxUint64;
           btn_keys := [0]; btn_children := [sa]; btn_cap := 33 |}).
  cbv beta iota. change GROUP_K with (N.of_nat 16).
  rewrite (bt_write_at_closed _ [(0, sa)] 16); [|split; reflexivity | cbn [length]; lia].
  unfold bt_bytes, bt_header. cbn [btn_type btn_level btn_used btn_left btn_right flat_map enc_pair fst snd length].
  rewrite <- !app_assoc. cbn [sigTREE app]. do 8 f_equal.
Qed.

Theorem group_btree_placed f ba sa s :
  placed f ba (bt_block sa) -> sa < 9223372036854775808 -> sa <> 0 ->
  placed f sa (snod_bytes s 32) -> snode_ok s = true -> (length (stn_entries s) <= 32)%nat ->
  Forall (fun e => sy_cache e = 0) (stn_entries s) ->
  run0 f (p_group_btree SB' ba) = Ok (map stentry_of (stn_entries s)).
Proof.
  intros HP Hsa Hsa0 HPs Hok Hm Hc. rewrite bt_block_bytes' in HP by blia.
  unfold p_group_btree. cbn [SB' spp_offsize spp_lensize spp_bigendian]. change (8 + 2 * 8) with 24.
  assert (HP1 : placed f ba ([84; 82; 69; 69; 0; 0; 1; 0] ++ le 8 UNDEF ++ le 8 UNDEF)) by (apply (placed_head _ _ _ _ HP)).
  rewrite (run0_read_exact _ f ba _ 24 _ HP1 eq_refl).
  change (run0 f (ReadAt (ba + 24) 24 (fun d => bind (lift (btree_children SB' 1 d 0)) (p_snods SB'))) = Ok (map stentry_of (stn_entries s))).
  assert (HP2 : placed f (ba + 24) (le 8 0 ++ le 8 sa ++ le 8 0)).
  { apply (placed_sub f ba ([84; 82; 69; 69; 0; 0; 1; 0] ++ le 8 UNDEF ++ le 8 UNDEF) _ (zeros 496)). exact HP. }
  rewrite (run0_read_exact _ f (ba + 24) _ 24 _ HP2 eq_refl).
  cbn [btree_children SB' spp_offsize]. change (0 + 8) with 8.
  rewrite (slice_from_app (le 8 0) (le 8 sa ++ le 8 0)) by reflexivity. cbn [obind].
  rewrite read_addr_end_le8 by blia. cbn [obind].
  replace (sa =? 0) with false by (symmetry; now apply N.eqb_neq).
  replace (sa =? UNDEF) with false by (symmetry; apply N.eqb_neq; unfold UNDEF; blia).
  cbn [negb andb lift bind p_snods].
  rewrite run0_bind, (snod_placed f sa s HPs Hok Hm Hc). cbn [bind]. rewrite run0_ret, app_nil_r. reflexivity.
Qed.
