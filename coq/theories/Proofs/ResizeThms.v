(* C13, object-header level: the statements Props/C13Header.v exports, and examples showing that their
   hypotheses are satisfiable (rank 3, an unlimited maximum, attribute and layout messages around the dataspace). *)
From HV Require Import Base.Prelude Base.Outcome Base.Bytes Model.CodecMsg Model.CodecOhdr Model.Resize.
From HV Require Import Proofs.CodecMsg Proofs.CodecOhdr Proofs.ResizeBase Proofs.Resize.

(* (1) accepted iff within the declared maximum *)
Lemma resize_accepts_iff be h file addr flags before after pre suf new :
  stored file addr flags before after (rh_dims h) (rh_maxdims h) pre suf ->
  handle_ok h = true -> u64_ok new = true ->
  (snd (resize be h file addr new) = ROk <-> resize_ok (rh_dims h) (rh_maxdims h) new = true).
Proof.
  intros S Hh Hu. split.
  - destruct (resize be h file addr new) as [[h' file'] r] eqn:E. cbn [snd]. intros ->.
    apply (resize_accept_sound be h file addr new h' file' E).
  - intros Hok.
    destruct (resize_accepted be h file addr flags before after _ _ pre suf new S Hh eq_refl eq_refl Hu Hok) as (c & E).
    rewrite E. reflexivity.
Qed.

(* (2) same length, and only the extents of the dataspace message change *)
Lemma resize_same_length be h file addr flags before after pre suf new h' file' :
  stored file addr flags before after (rh_dims h) (rh_maxdims h) pre suf ->
  handle_ok h = true -> u64_ok new = true ->
  resize be h file addr new = (h', file', ROk) ->
  exists A B,
    file = A ++ enc_dims8 (rh_dims h) ++ B /\ file' = A ++ enc_dims8 new ++ B /\
    blen A = addr + 19 + chunk_size_v2 before /\
    length (enc_dims8 new) = length (enc_dims8 (rh_dims h)) /\
    length file' = length file /\
    forall i, (i < length A \/ length A + length (enc_dims8 new) <= i)%nat -> nth_error file' i = nth_error file i.
Proof.
  intros S Hh Hu E.
  destruct (resize_accept_sound be h file addr new h' file' E) as (Hok & _ & _).
  destruct (resize_accepted be h file addr flags before after _ _ pre suf new S Hh eq_refl eq_refl Hu Hok) as (c & E').
  rewrite E in E'.
  assert (Ef : file' = pre ++ enc_ohdr_v2 (hdr_of flags before new (rh_maxdims h) after) ++ suf) by congruence.
  subst file'. clear E'.
  apply resize_ok_inv in Hok as (Hln & _ & _).
  destruct S as [Hfile Haddr Hwf Hds Hno Hsuf Hsmall].
  assert (Hb : blen new = blen (rh_dims h)) by (unfold blen; rewrite Hln; reflexivity).
  assert (HL : length (enc_dims8 new) = length (enc_dims8 (rh_dims h))).
  { apply blen_eq_length. rewrite !blen_enc_dims8, Hb. reflexivity. }
  exists (pre ++ frame_front flags before (blen (rh_dims h)) (rh_maxdims h) after),
         (frame_back (rh_maxdims h) after ++ suf).
  split; [|split; [|split; [|split; [|split]]]].
  - rewrite Hfile, hdr_frame, <- !app_assoc. reflexivity.
  - rewrite hdr_frame, Hb, <- !app_assoc. reflexivity.
  - rewrite blen_app, blen_frame_front, Haddr. blia.
  - exact HL.
  - rewrite Hfile, !hdr_frame, Hb, !app_length, HL. reflexivity.
  - intros i Hi. rewrite Hfile, !hdr_frame, Hb, <- !app_assoc.
    rewrite (app_assoc pre). rewrite (app_assoc pre (frame_front _ _ _ _ _) (enc_dims8 (rh_dims h) ++ _)).
    apply nth_error_frame; [exact HL|exact Hi].
Qed.

(* (3) the rewritten header decodes to the same message list with the new dataspace message *)
Lemma resize_decodes be h file addr flags before after pre suf new h' file' :
  stored file addr flags before after (rh_dims h) (rh_maxdims h) pre suf ->
  handle_ok h = true -> u64_ok new = true ->
  resize be h file addr new = (h', file', ROk) ->
  dec_ohdr be file addr = Ok (proj_ohdr_v2 be (hdr_of flags before (rh_dims h) (rh_maxdims h) after) addr) /\
  dec_ohdr be file' addr = Ok (proj_ohdr_v2 be (hdr_of flags before new (rh_maxdims h) after) addr) /\
  stored_shape be file' addr = Ok (new, Some (rh_maxdims h)) /\
  rh_dims h' = new /\ rh_maxdims h' = rh_maxdims h /\
  stored file' addr flags before after (rh_dims h') (rh_maxdims h') pre suf /\ handle_ok h' = true.
Proof.
  intros S Hh Hu E.
  destruct (resize_accept_sound be h file addr new h' file' E) as (Hok & Hd' & Hm').
  destruct (resize_accepted be h file addr flags before after _ _ pre suf new S Hh eq_refl eq_refl Hu Hok) as (c & E').
  rewrite E in E'.
  assert (Ef : file' = pre ++ enc_ohdr_v2 (hdr_of flags before new (rh_maxdims h) after) ++ suf) by congruence.
  assert (Eh : h' = resized_handle h new c) by congruence.
  subst file'.
  pose proof (resize_ok_inv _ _ _ Hok) as (Hln & _ & _).
  pose proof (stored_same _ _ _ _ _ _ _ _ _ new S Hln Hu) as S'.
  assert (Hne : rh_maxdims h <> []).
  { apply handle_ok_inv in Hh as (_ & Hnz & Hlm & _). destruct (rh_maxdims h); [cbn [length] in Hlm; lia|discriminate]. }
  split; [exact (stored_dec be _ _ _ _ _ _ _ _ _ S)|].
  split; [exact (stored_dec be _ _ _ _ _ _ _ _ _ S')|].
  split; [exact (stored_shape_of be _ _ _ _ _ _ _ _ _ S' Hne)|].
  split; [exact Hd'|]. split; [exact Hm'|].
  split; [rewrite Hd', Hm'; exact S'|].
  subst h'. apply handle_ok_resized; auto.
Qed.

(* (5) any list of requests through one handle: the results are those of the specification, the file keeps its
   length, and a reader finds the last accepted shape with the maxima unchanged *)
Lemma last_accepted_length maxd news : forall dims, length (last_accepted dims maxd news) = length dims.
Proof.
  induction news as [|new r IH]; intros dims; [reflexivity|].
  rewrite last_accepted_cons. destruct (resize_ok dims maxd new) eqn:E; [|apply IH].
  rewrite IH. apply resize_ok_inv in E as (E & _). exact E.
Qed.

Lemma resizes_last_accepted be h file addr flags before after pre suf news :
  stored file addr flags before after (rh_dims h) (rh_maxdims h) pre suf ->
  handle_ok h = true -> Forall (fun new => u64_ok new = true) news ->
  exists h' file',
    resizes be h file addr news = (h', file', expected_results (rh_dims h) (rh_maxdims h) news) /\
    rh_dims h' = last_accepted (rh_dims h) (rh_maxdims h) news /\ rh_maxdims h' = rh_maxdims h /\
    stored_shape be file' addr = Ok (last_accepted (rh_dims h) (rh_maxdims h) news, Some (rh_maxdims h)) /\
    length file' = length file /\
    stored file' addr flags before after (rh_dims h') (rh_maxdims h') pre suf /\ handle_ok h' = true.
Proof.
  intros S Hh Hu.
  destruct (resizes_spec be news h file addr flags before after _ _ pre suf S Hh eq_refl eq_refl Hu)
    as (h' & file' & E & S' & Hh' & Hd' & Hm').
  exists h', file'.
  assert (Hne : rh_maxdims h <> []).
  { apply handle_ok_inv in Hh as (_ & Hnz & Hlm & _). destruct (rh_maxdims h); [cbn [length] in Hlm; lia|discriminate]. }
  split; [exact E|]. split; [exact Hd'|]. split; [exact Hm'|].
  split; [exact (stored_shape_of be _ _ _ _ _ _ _ _ _ S' Hne)|].
  split; [|split; [rewrite Hd', Hm'; exact S'|exact Hh']].
  destruct S as [Hfile _ _ _ _ _ _]. destruct S' as [Hfile' _ _ _ _ _ _].
  rewrite Hfile, Hfile', !app_length. f_equal. f_equal.
  apply blen_eq_length. rewrite !ohdr_v2_blen. apply size_same. apply last_accepted_length.
Qed.

(* ---------------------------------------------------------------- examples *)

(* a rank 3 dataset, first dimension unlimited, as the library wrote it (superblock version 2, int32 elements, chunks
   2x3x2, one compact int32 attribute "a"): the messages below are those of the header image ex_go_image, which is
   the output of the c13unit harness for CreateDataset + WriteAttribute.  The header is the END of the file (suf = []):
   nothing has been allocated after it yet. *)
Definition ex_before : list hmsg := [ {| hm_type := 3; hm_data := unhex "100800000400000000200000" |} ].
Definition ex_after : list hmsg :=
  [ {| hm_type := 8; hm_data := unhex "0302030000000000000000020000000300000002000000" |};
    {| hm_type := 12; hm_data := unhex "030002000c0010000061001008000004000000002000000101000000000000010000000000000007000000" |} ].
Definition ex_dims : list N := [4; 6; 2].
Definition ex_maxd : list N := [UNLIMITED; 6; 10].
Definition ex_pre : bytes := zeros 48.
Definition ex_suf : bytes := [].
Definition ex_go_image : bytes := unhex
  "4f484452020096030c0000100800000400000000200000013800000103010000000000040000000000000006000000000000000200000000000000ffffffffffffffff06000000000000000a000000000000000817000003020300000000000000000200000003000000020000000c2b0000030002000c0010000061001008000004000000002000000101000000000000010000000000000007000000".
Definition ex_file : bytes := ex_pre ++ enc_ohdr_v2 (hdr_of 0 ex_before ex_dims ex_maxd ex_after) ++ ex_suf.
Definition ex_handle : rhandle := new_handle ex_dims ex_maxd [2; 3; 2] 4.

Example ex_image_is_go's : enc_ohdr_v2 (hdr_of 0 ex_before ex_dims ex_maxd ex_after) = ex_go_image.
Proof. vm_compute. reflexivity. Qed.

Example ex_stored : stored ex_file 48 0 ex_before ex_after (rh_dims ex_handle) (rh_maxdims ex_handle) ex_pre ex_suf.
Proof. constructor; try reflexivity; vm_compute; congruence. Qed.

Example ex_handle_ok : handle_ok ex_handle = true.
Proof. reflexivity. Qed.

(* grow the unlimited dimension far beyond anything, refuse 7 > 6, shrink to the minimum with the third extent at its
   maximum, refuse a zero extent, refuse another rank, accept max + 0, refuse max + 1 *)
Definition ex_requests : list (list N) :=
  [ [18446744073709551615; 6; 2]; [8; 7; 2]; [1; 1; 10]; [0; 1; 1]; [1; 1]; [5; 6; 10]; [5; 6; 11] ].

Example ex_run :
  let '(h', file', rs) := resizes false ex_handle ex_file 48 ex_requests in
  rs = [ROk; RErr; ROk; RErr; RErr; ROk; RErr] /\ rh_dims h' = [5; 6; 10] /\
  stored_shape false file' 48 = Ok ([5; 6; 10], Some ex_maxd) /\ length file' = length ex_file.
Proof. vm_compute. repeat split; reflexivity. Qed.

Example ex_expected : expected_results ex_dims ex_maxd ex_requests = [ROk; RErr; ROk; RErr; RErr; ROk; RErr]
                      /\ last_accepted ex_dims ex_maxd ex_requests = [5; 6; 10].
Proof. vm_compute. split; reflexivity. Qed.

(* a handle obtained from OpenDataset (isChunked false) cannot resize: nothing is read or written *)
Definition ex_reopened : rhandle :=
  {| rh_chunked := false; rh_dims := ex_dims; rh_maxdims := []; rh_chunkdims := [];
     rh_esize := 4; rh_datasize := 192; rh_numchunks := []; rh_cache := None |}.
Example ex_reopened_handle_refuses : forall file addr new,
  resize false ex_reopened file addr new = (ex_reopened, file, RErr).
Proof. intros. reflexivity. Qed.
