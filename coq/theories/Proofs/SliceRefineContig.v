(* C09 at file level, contiguous layout: the three read paths of readHyperslabContiguous as I/O programs
   (Model/IOProgSlice.v p_slice_contig) on a file in which the dataset's data block is placed, against the element-level
   paths of Model/Hyperslab.v.  Part 1: the I/O of each path, generic in the numbers. *)
From HV Require Import Base.Prelude Base.Outcome Base.Bytes Model.IOProg Proofs.IOProg Model.IOProgReader Model.IOProgSlice.
From HV Require Import Model.SliceRefine Proofs.FileImage Proofs.FileImageOhdr Proofs.SliceRefineBytes.
From HV Require Proofs.HyperslabBase Proofs.HyperslabRaw Proofs.HyperslabContig.
Module HR := HV.Proofs.HyperslabRaw.
Module HC := HV.Proofs.HyperslabContig.

Section Placed.
Variable f : bytes.
Variables addr es : N.
Variable data : bytes.
Hypothesis Hpl : placed f addr data.
Hypothesis Hes : 0 < es.
Hypothesis Hmax : addr + blen data <= MAXI64.

Lemma w64 x : x <= addr + blen data -> wrap64 x = x.
Proof. intros H. apply wrap64_small. unfold MAXI64 in Hmax. blia. Qed.

(* one ReadBytesAt of n elements from element off on *)
Lemma run_read_elems off n : 0 < n -> (off + n) * es <= blen data ->
  run0 f (p_read_bytes_at (wrap64 (addr + wrap64 (off * es))) (wrap64 (n * es))) = Ok (rd data (off * es) (n * es)).
Proof.
  intros Hn Hb. rewrite (w64 (off * es)) by nia. rewrite (w64 (addr + off * es)) by nia. rewrite (w64 (n * es)) by nia.
  apply run0_read_bytes_at.
  - apply placed_slice; [exact Hpl|nia].
  - symmetry. apply blen_rd. nia.
  - nia.
  - nia.
Qed.

(* the single-run path: readContiguousOptimized *)
Lemma path_run off n : 0 < n -> (off + n) * es <= blen data ->
  run0 f (bind (p_read_bytes_at (wrap64 (addr + wrap64 (off * es))) (wrap64 (n * es)))
               (fun b => if blen b <? n * es then Fail else Ret (SlRun b)))
  = Ok (SlRun (rd data (off * es) (n * es))).
Proof.
  intros Hn Hb. rewrite run0_bind, run_read_elems by assumption. rewrite blen_rd by nia.
  now rewrite N.ltb_irrefl.
Qed.
Lemma value_run dims ax off n : Hs.out_elems ax = n -> (off + n) * es <= blen data ->
  slice_value es dims [] ax (SlRun (rd data (off * es) (n * es))) = Hs.read_at (evals es data) off n.
Proof.
  intros Hn Hb. cbn [slice_value]. rewrite Hn. rewrite <- evals_rd_read_at by assumption.
  apply firstn_all2. rewrite evals_length_rd by assumption. blia.
Qed.

(* the selection-run path: the read of readContiguousRowByRow for rank <> 2 *)
Lemma path_span off n : 0 < n -> (off + n) * es <= blen data ->
  run0 f (bind (p_read_bytes_at (wrap64 (addr + wrap64 (off * es))) (wrap64 (n * es))) (fun b => Ret (SlSpan b)))
  = Ok (SlSpan (rd data (off * es) (n * es))).
Proof. intros Hn Hb. now rewrite run0_bind, run_read_elems by assumption. Qed.
Lemma value_span dims ax off n : (off + n) * es <= blen data ->
  slice_value es dims [] ax (SlSpan (rd data (off * es) (n * es)))
  = fst (Hs.ext_rec (Hs.read_at (evals es data) off n) dims (Hs.zero_start ax) dims [] (Hs.zeros (Hs.out_elems ax), 0)).
Proof. intros Hb. cbn [slice_value]. now rewrite evals_rd_read_at by assumption. Qed.

(* the element-wise path: readContiguous2DOptimized, one strict ReadAt per element *)
Lemma run_p_elems (idx : list N) : (forall i, In i idx -> (i + 1) * es <= blen data) ->
  run0 f (p_elems (map (fun i => wrap64 (addr + wrap64 (i * es))) idx) es) = Ok (map (elem es data) idx).
Proof.
  induction idx as [|i r IH]; intros Hb; [reflexivity|].
  cbn [map p_elems].
  assert (Hi : (i + 1) * es <= blen data) by (apply Hb; now left).
  rewrite (w64 (i * es)) by nia. rewrite (w64 (addr + i * es)) by nia.
  rewrite (run0_read_placed _ f addr data (i * es) es) by (auto; nia).
  rewrite run0_bind, IH by (intros j Hj; apply Hb; now right). reflexivity.
Qed.
End Placed.
