(* C11 / C03: the group B-tree node (version 1 B-tree, node type 0) at byte level (Model/GroupWire.v).
     1. closed form and size of what BTreeNodeV1.WriteAt emits for a node of n <= 2k (key, child) pairs:
        24 + (2k+1)*8 + 2k*8 bytes;
     2. round trip: the child-pointer pass of ReadGroupBTreeEntries (Model/RobustGroup.v gnode_read) on ANY file holding the
        bytes returns the children that are neither 0 nor the undefined address, in order;
     3. ReadGroupBTreeEntries on a file that holds the node the writer emits (one child) AND a symbol table node at that
        child address returns the node's entries (the entry budget of 336a458 never fires on what the writer wrote). *)
From HV Require Import Base.Prelude Base.Outcome Base.Bytes Model.RobustAlloc Model.RobustGroup Model.GroupWire
  Proofs.GroupWireHeap Proofs.GroupWireSnod.

Local Open Scope N_scope.

(* ------------------------------------------------------------------ 1. closed form *)
Definition enc_pair (kc : N * N) : bytes := le 8 (fst kc) ++ le 8 (snd kc).
Definition bt_header (b : btnode) : bytes :=
  sigTREE ++ [btn_type b; btn_level b] ++ le 2 (btn_used b) ++ le 8 (btn_left b) ++ le 8 (btn_right b).
(* [kcs]: the (key, child) pairs; [k2] = 2k *)
Definition bt_bytes (b : btnode) (kcs : list (N * N)) (k2 : nat) : bytes :=
  bt_header b ++ flat_map enc_pair kcs ++ zeros (16 * (k2 - length kcs)) ++ zeros 8.

Definition pairs_of (b : btnode) (kcs : list (N * N)) : Prop :=
  btn_keys b = map fst kcs /\ btn_children b = map snd kcs.

Lemma length_enc_pair kc : length (enc_pair kc) = 16%nat.
Proof. unfold enc_pair. now rewrite app_length, !length_le. Qed.
Lemma length_flat_pairs kcs : length (flat_map enc_pair kcs) = (16 * length kcs)%nat.
Proof. induction kcs as [|x r IH]; cbn [flat_map length]; [reflexivity|]. rewrite app_length, length_enc_pair, IH. lia. Qed.

Lemma bt_slots_split b mc : forall a c i,
  bt_slots (a + c) i b 8 mc = bt_slots a i b 8 mc ++ bt_slots c (i + N.of_nat a) b 8 mc.
Proof.
  induction a as [|a IH]; intros c i.
  - cbn [Nat.add bt_slots app]. now replace (i + N.of_nat 0) with i by lia.
  - cbn [Nat.add bt_slots]. rewrite IH. replace (i + 1 + N.of_nat a) with (i + N.of_nat (S a)) by lia.
    now rewrite <- !app_assoc.
Qed.

Lemma bt_slots_used b mc : forall n p1 p2,
  pairs_of b (p1 ++ p2) -> (n <= length p2)%nat -> N.of_nat (length p1 + n) <= mc ->
  bt_slots n (N.of_nat (length p1)) b 8 mc = flat_map enc_pair (firstn n p2).
Proof.
  induction n as [|n IH]; intros p1 p2 [Hk Hc] Hn Hm; [reflexivity|].
  destruct p2 as [|[key ch] p2]; [cbn [length] in Hn; lia|].
  cbn [bt_slots firstn flat_map]. rewrite Nat2N.id, Hk, Hc, !map_app.
  rewrite !app_nth2 by (rewrite map_length; lia). rewrite !map_length, Nat.sub_diag. cbn [map nth fst snd].
  replace (N.of_nat (length p1) <? mc) with true by (symmetry; apply N.ltb_lt; lia).
  unfold write_address, enc_pair. change (N.to_nat 8) with 8%nat. cbn [fst snd]. rewrite <- !app_assoc. do 2 f_equal.
  replace (N.of_nat (length p1) + 1) with (N.of_nat (length (p1 ++ [(key, ch)]))) by (rewrite app_length; cbn [length]; lia).
  apply IH.
  - split; rewrite <- app_assoc; assumption.
  - cbn [length] in Hn. lia.
  - rewrite app_length. cbn [length]. lia.
Qed.

Lemma le8_0 : le 8 0 = zeros 8. Proof. reflexivity. Qed.

(* slots beyond the pairs: key 0, child 0 while i < 2k *)
Lemma bt_slots_unused b mc : forall n i,
  N.of_nat (length (btn_keys b)) <= i -> N.of_nat (length (btn_children b)) <= i -> i + N.of_nat n <= mc ->
  bt_slots n i b 8 mc = zeros (16 * n).
Proof.
  induction n as [|n IH]; intros i Hk Hc Hm; [reflexivity|].
  cbn [bt_slots]. rewrite !nth_overflow by lia.
  replace (i <? mc) with true by (symmetry; apply N.ltb_lt; lia).
  unfold write_address. change (N.to_nat 8) with 8%nat. rewrite le8_0, IH by lia.
  rewrite <- !zeros_add. f_equal. lia.
Qed.

(* the last key slot (i = 2k): a key, no child *)
Lemma bt_slots_last b mc i :
  N.of_nat (length (btn_keys b)) <= i -> mc <= i -> bt_slots 1 i b 8 mc = zeros 8.
Proof.
  intros Hk Hm. cbn [bt_slots]. rewrite nth_overflow by lia.
  replace (i <? mc) with false by (symmetry; apply N.ltb_ge; lia).
  unfold write_address. change (N.to_nat 8) with 8%nat. now rewrite le8_0, !app_nil_r.
Qed.

(* WriteAt emits the closed form for every node of at most 2k pairs *)
Lemma bt_write_at_closed b kcs k :
  pairs_of b kcs -> (length kcs <= 2 * k)%nat ->
  bt_write_at b 8 (N.of_nat k) = bt_bytes b kcs (2 * k).
Proof.
  intros Hp Hn. unfold bt_write_at, bt_bytes, bt_header, write_address. change (N.to_nat 8) with 8%nat.
  rewrite <- !app_assoc. do 5 f_equal.
  set (n := length kcs).
  replace (N.to_nat (2 * N.of_nat k + 1)) with (n + ((2 * k - n) + 1))%nat by lia.
  replace (2 * N.of_nat k) with (N.of_nat (2 * k)) by lia.
  rewrite !bt_slots_split.
  rewrite (bt_slots_used b _ n [] kcs) by (auto; cbn [length]; fold n; lia).
  rewrite firstn_all2 by (fold n; lia). f_equal.
  destruct Hp as [Hk Hc].
  assert (Lk : length (btn_keys b) = n) by (rewrite Hk; apply map_length).
  assert (Lc : length (btn_children b) = n) by (rewrite Hc; apply map_length).
  cbn [length N.of_nat N.add]. f_equal.
  - apply bt_slots_unused; lia.
  - apply bt_slots_last; lia.
Qed.

Lemma bt_bytes_size b kcs k2 : (length kcs <= k2)%nat -> blen (bt_bytes b kcs k2) = 24 + (N.of_nat k2 + 1) * 8 + N.of_nat k2 * 8.
Proof.
  intros H. unfold bt_bytes, bt_header, blen. rewrite !app_length, !length_le, length_flat_pairs, !length_zeros.
  cbn [length sigTREE]. lia.
Qed.

(* length (enc x) = 24 + (2K+1)*8 + 2K*8 (= 544 for K = 16, the btree_size of Model/Store.v) *)
Lemma bt_write_at_size b kcs k :
  pairs_of b kcs -> (length kcs <= 2 * k)%nat ->
  blen (bt_write_at b 8 (N.of_nat k)) = 24 + (2 * N.of_nat k + 1) * 8 + 2 * N.of_nat k * 8.
Proof. intros Hp Hn. rewrite (bt_write_at_closed b kcs k Hp Hn), bt_bytes_size by exact Hn. lia. Qed.

(* ------------------------------------------------------------------ 2. the child-pointer pass *)
Definition live (a : N) : bool := negb ((a =? 0) || (a =? MaxUint64)).

Lemma gnode_children_enc kcs : forall (p r : list N),
  Forall (fun kc => snd kc < 18446744073709551616) kcs ->
  gnode_children (length kcs) (p ++ flat_map enc_pair kcs ++ r) (blen p) 8 = Ok (filter live (map snd kcs)).
Proof.
  induction kcs as [|[key ch] kcs IH]; intros p r H; [reflexivity|].
  apply Forall_cons_iff in H as [Hc Hr]. cbn [snd] in Hc.
  cbn [length gnode_children flat_map map filter]. change (enc_pair (key, ch)) with (le 8 key ++ le 8 ch). cbn [fst snd]. rewrite <- !app_assoc.
  replace (p ++ le 8 key ++ le 8 ch ++ flat_map enc_pair kcs ++ r) with ((p ++ le 8 key) ++ le 8 ch ++ flat_map enc_pair kcs ++ r)
    by (now rewrite <- app_assoc).
  rewrite slice_from_app by (rewrite blen_app, blen_le; blia). cbn [obind].
  rewrite read_address_le8 by exact Hc. cbn [obind].
  replace ((p ++ le 8 key) ++ le 8 ch ++ flat_map enc_pair kcs ++ r) with ((p ++ le 8 key ++ le 8 ch) ++ flat_map enc_pair kcs ++ r)
    by (now rewrite <- !app_assoc).
  replace (blen p + 8 + 8) with (blen (p ++ le 8 key ++ le 8 ch)) by (rewrite !blen_app, !blen_le; blia).
  rewrite IH by exact Hr. cbn [obind]. change (live ch) with (negb ((ch =? 0) || (ch =? MaxUint64))). destruct ((ch =? 0) || (ch =? MaxUint64)); reflexivity.
Qed.

Definition bt_group_ok (b : btnode) (kcs : list (N * N)) : Prop :=
  pairs_of b kcs /\ btn_type b = 0 /\ btn_level b = 0 /\ btn_used b = N.of_nat (length kcs) /\
  btn_left b < 18446744073709551616 /\ btn_right b < 18446744073709551616 /\
  Forall (fun kc => snd kc < 18446744073709551616) kcs.

Theorem gnode_read_bytes b kcs k2 (pre suf : list N) :
  bt_group_ok b kcs -> (length kcs <= k2)%nat -> N.of_nat k2 < 32768 -> blen pre + blen (bt_bytes b kcs k2) <= MaxInt64 ->
  fst (gnode_read (pre ++ bt_bytes b kcs k2 ++ suf) (blen pre) 8) = Ok (filter live (map snd kcs)).
Proof.
  intros (Hp & Ht & Hl & Hu & Hlt & Hrt & Hcs) Hn Hk Hb. rewrite bt_bytes_size in Hb by exact Hn. rewrite MaxInt64_val in Hb.
  unfold gnode_read. change (8 + 2 * 8) with 24.
  unfold bt_bytes. rewrite <- !app_assoc.
  assert (Lh : blen (bt_header b) = 24) by (unfold bt_header; rewrite !blen_app, !blen_le; reflexivity).
  rewrite read_at_app with (mid := bt_header b); [|reflexivity | now rewrite Lh | rewrite MaxInt64_val; blia].
  assert (S4 : bytes_eqb (firstn 4 (bt_header b)) sigTREE = true) by reflexivity.
  assert (I4 : index (bt_header b) 4 = Ok 0) by (unfold bt_header; rewrite Ht; reflexivity).
  assert (I5 : index (bt_header b) 5 = Ok 0) by (unfold bt_header; rewrite Hl; reflexivity).
  assert (R6 : rd_le (bt_header b) 6 2 = Ok (btn_used b)).
  { unfold bt_header.
    change (sigTREE ++ [btn_type b; btn_level b] ++ le 2 (btn_used b) ++ le 8 (btn_left b) ++ le 8 (btn_right b))
      with ((sigTREE ++ [btn_type b; btn_level b]) ++ le 2 (btn_used b) ++ (le 8 (btn_left b) ++ le 8 (btn_right b))).
    apply rd_le_at; [reflexivity | reflexivity | rewrite Hu; change (256 ^ 2) with 65536; lia]. }
  cbn [obind]. rewrite S4, I4, I5, R6. cbn [negb]. change (negb (0 =? 0)) with false. cbv iota. rewrite Hu.
  destruct (N.of_nat (length kcs) =? 0) eqn:E0.
  - apply N.eqb_eq in E0. destruct kcs; [reflexivity | cbn [length] in E0; lia].
  - set (tail := zeros (16 * (k2 - length kcs)) ++ zeros 8).
    assert (Ht8 : (8 <= length tail)%nat) by (unfold tail; rewrite app_length, !length_zeros; lia).
    assert (Hs : tail = firstn 8 tail ++ skipn 8 tail) by (symmetry; apply firstn_skipn).
    assert (L8 : length (firstn 8 tail) = 8%nat) by (rewrite firstn_length; lia).
    replace (pre ++ bt_header b ++ flat_map enc_pair kcs ++ zeros (16 * (k2 - length kcs)) ++ zeros 8 ++ suf)
      with ((pre ++ bt_header b) ++ (flat_map enc_pair kcs ++ firstn 8 tail) ++ (skipn 8 tail ++ suf)).
    2:{ rewrite <- !app_assoc. do 3 f_equal. rewrite (app_assoc (firstn 8 tail)), <- Hs. unfold tail. now rewrite <- app_assoc. }
    rewrite read_at_app with (mid := flat_map enc_pair kcs ++ firstn 8 tail).
    + pose proof (gnode_children_enc kcs [] (firstn 8 tail) Hcs) as G. cbn [app] in G. change (blen []) with 0 in G.
      rewrite Nat2N.id, G. reflexivity.
    + rewrite blen_app, Lh. reflexivity.
    + unfold blen. rewrite app_length, length_flat_pairs, L8. lia.
    + rewrite MaxInt64_val. unfold blen in *. lia.
Qed.

(* ------------------------------------------------------------------ 3. ReadGroupBTreeEntries on what the writer wrote *)
(* the node createGroupStructures writes: NewBTreeNodeV1(0, 16); AddKey(0, stNodeAddr) *)
Lemma writer_node a : a < 18446744073709551616 ->
  exists b, add_key (new_btnode 0 GROUP_K) 0 a = Ok b /\ bt_group_ok b [(0, a)] /\
            bt_write_at b 8 GROUP_K = bt_bytes b [(0, a)] 32.
Proof.
  intros Ha. eexists. split; [reflexivity|]. split.
  - repeat split; cbn; auto; try lia.
  - change GROUP_K with (N.of_nat 16). apply (bt_write_at_closed _ [(0, a)] 16); [split; reflexivity | cbn [length]; lia].
Qed.

(* for every file that holds the writer's B-tree node (child [snAddr], neither 0 nor undefined) at [btAddr] and a well-formed
   symbol table node of at most m entries at [snAddr]: the reader returns that node's entries *)
Theorem read_group_btree_written f b s m (pre1 suf1 pre2 suf2 : list N) :
  bt_group_ok b [(0, blen pre2)] -> live (blen pre2) = true ->
  f = pre1 ++ bt_bytes b [(0, blen pre2)] 32 ++ suf1 -> blen pre1 + 544 <= MaxInt64 ->
  f = pre2 ++ snod_bytes s m ++ suf2 -> snode_ok s = true -> (length (stn_entries s) <= m)%nat ->
  blen pre2 + 8 + 40 * N.of_nat m <= MaxInt64 ->
  read_group_btree_entries f (blen pre1) 8 = Ok (map bentry_of (stn_entries s)).
Proof.
  intros Hb Hlive Hf1 Hb1 Hf2 Hs Hm Hb2. unfold read_group_btree_entries.
  rewrite Hf1 at 1. rewrite gnode_read_bytes; [|exact Hb | cbn [length]; lia | lia | ].
  2:{ rewrite bt_bytes_size by (cbn [length]; lia). rewrite MaxInt64_val in *. lia. }
  cbn [map snd filter obind]. rewrite Hlive. cbn [gwalk_entries].
  rewrite Hf2, parse_snod_bytes by assumption. cbn [obind].
  change (2 * 8 + 24) with 40. cbn [llen length N.of_nat N.add]. rewrite N.max_0_l.
  assert (W : wrap64 (blen pre2 + 8 + llen (stn_entries s) * 40) = blen pre2 + 8 + llen (stn_entries s) * 40).
  { unfold wrap64. apply N.mod_small. rewrite MaxInt64_val in Hb2. unfold llen. lia. }
  rewrite W. replace (blen pre2 + 8 + llen (stn_entries s) * 40 <? (0 + llen (stn_entries s)) * 40) with false
    by (symmetry; apply N.ltb_ge; lia).
  reflexivity.
Qed.

(* ------------------------------------------------------------------ example *)
Example ex_group_file : bytes :=
  zeros 64 ++ snod_bytes ex_snode 32 ++ bt_write_at (match add_key (new_btnode 0 16) 0 64 with Ok b => b | _ => new_btnode 0 16 end) 8 16.
Example ex_group_read :
  blen ex_group_file = 64 + 1288 + 544 /\
  read_group_btree_entries ex_group_file (64 + 1288) 8 = Ok (map bentry_of (stn_entries ex_snode)).
Proof. vm_compute. split; reflexivity. Qed.
