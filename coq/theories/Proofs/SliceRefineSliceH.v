(* C09 at file level, ReadSlice: element-level facts (Model/Hyperslab.v side): a request inside the dataset with positive
   counts is a valid hyperslab with unit stride and block; a zero count selects nothing; an accepted selection has at most
   MaxHyperslabElements blocks. *)
From HV Require Import Base.Prelude Model.Hyperslab Proofs.HyperslabBase Proofs.HyperslabValidate Proofs.HyperslabRaw.

Lemma che_loop_some : forall count total r, che_loop total count = Some r -> r = total * prodN count.
Proof.
  induction count as [|c cs IH]; intros total r H; cbn [che_loop prodN] in *.
  - injection H as <-. lia.
  - destruct (c =? 0); [discriminate|]. destruct (safe_multiply total c) as [t|] eqn:E; [|discriminate].
    apply safe_multiply_some in E. destruct E as [-> _]. rewrite (IH _ _ H). lia.
Qed.

Lemma validate_count_bound h dims : validate h dims = Ok -> prodN (h_count h) <= max_hyperslab_elements.
Proof.
  unfold validate, validate_gen. intros H.
  destruct (validate_selection_dimensions h (length dims)); [|discriminate].
  destruct (validate_hyperslab_bounds true _ _ _ dims); [|discriminate].
  unfold calculate_hyperslab_elements in H. destruct (h_count h) as [|c0 cs] eqn:Ec; [discriminate|].
  destruct (che_loop 1 (c0 :: cs)) as [t|] eqn:E; [|discriminate].
  apply che_loop_some in E. destruct (N.eqb_spec t 0); cbn [orb] in H; [discriminate|].
  destruct (N.ltb_spec max_hyperslab_elements t); [discriminate|]. lia.
Qed.

Lemma sel_coords_zero_count s : Exists (fun a => a_count a = 0) s -> sel_coords s = [].
Proof.
  induction s as [|a r IH]; intros H; inversion H; subst; cbn [sel_coords].
  - unfold axis_idx. rewrite H1. reflexivity.
  - rewrite (IH H1). induction (axis_idx a) as [|i l IHl]; [reflexivity|]. cbn [flat_map map app]. exact IHl.
Qed.
Lemma select_zero_count full dims s : Exists (fun a => a_count a = 0) s -> select full dims s = [].
Proof. intros H. unfold select. now rewrite sel_coords_zero_count. Qed.

Lemma zero_or_pos (cn : list N) : Exists (eq 0) cn \/ Forall (fun c => 0 < c) cn.
Proof.
  induction cn as [|c r [IH|IH]]; [right; constructor|left; now constructor 2|].
  destruct (N.eq_dec c 0) as [->|]; [left; now constructor|right; constructor; [lia|assumption]].
Qed.

Lemma zip4_zero_count : forall st cn o1 o2, length cn = length st -> length o1 = length st -> length o2 = length st ->
  Exists (eq 0) cn -> Exists (fun a => a_count a = 0) (zip4 st cn o1 o2).
Proof.
  induction st as [|s st IH]; intros [|c cn] [|a o1] [|b o2] L1 L2 L3 H; cbn [length] in *; try discriminate; inversion H; subst.
  - cbn [zip4]. now constructor.
  - cbn [zip4]. constructor 2. apply IH; try lia. assumption.
Qed.
Lemma ones_length' n : length (ones n) = n.
Proof. apply repeat_length. Qed.
Lemma slice_axes_zero_count st cn : length cn = length st -> Exists (eq 0) cn ->
  Exists (fun a => a_count a = 0) (slice_axes st cn).
Proof. intros L H. unfold slice_axes. apply zip4_zero_count; rewrite ?ones_length'; auto. Qed.

Lemma axes_of_slice st cn n : length st = n -> axes_of (mkSel st cn None None) n = slice_axes st cn.
Proof. intros <-. reflexivity. Qed.

Lemma zip4_ones_valid : forall st cn dims o1 o2, length st = length dims -> length cn = length dims ->
  length o1 = length dims -> length o2 = length dims -> Forall (eq 1) o1 -> Forall (eq 1) o2 ->
  Forall2 (fun sc d => fst sc + snd sc <= d) (combine st cn) dims -> Forall (fun c => 0 < c) cn ->
  axes_valid (zip4 st cn o1 o2) dims.
Proof.
  induction st as [|s st IH]; intros [|c cn] [|d dims] [|a o1] [|b o2] L1 L2 L3 L4 F1 F2 V P;
    cbn [length] in *; try discriminate; cbn [zip4 combine] in *; [constructor|].
  inversion V; inversion F1; inversion F2; inversion P; subst. cbn [fst snd] in *.
  constructor; [|apply IH; try assumption; lia].
  unfold axis_valid. cbn [a_start a_count a_stride a_block]. nia.
Qed.
Lemma ones_all' n : Forall (eq 1) (ones n).
Proof. unfold ones. induction n; cbn [repeat]; constructor; auto. Qed.

Lemma slice_valid_valid st cn dims : slice_valid st cn dims -> Forall (fun c => 0 < c) cn ->
  valid (mkSel st cn None None) dims.
Proof.
  intros (L1 & L2 & V) P. split.
  - unfold lens_ok. cbn [h_start h_count stride_of block_of h_stride h_block]. rewrite !ones_length'. auto.
  - unfold axes_of. cbn [h_start h_count stride_of block_of h_stride h_block].
    apply zip4_ones_valid; rewrite ?ones_length'; auto using ones_all'.
Qed.

Lemma u64_sel_slice st cn n : Forall u64 st -> Forall u64 cn -> u64_sel (mkSel st cn None None) n.
Proof.
  intros U1 U2. unfold u64_sel. cbn [h_start h_count stride_of block_of h_stride h_block].
  assert (O : Forall u64 (ones n)).
  { unfold ones. induction n; cbn [repeat]; constructor; [unfold u64, u64max; lia|assumption]. }
  auto.
Qed.

Lemma prod_pos_counts (cn : list N) : 0 < prodN cn -> Forall (fun c => 0 < c) cn.
Proof. induction cn as [|c r IH]; intros H; cbn [prodN] in H; constructor; [nia|apply IH; nia]. Qed.

(* the model's ReadSlice refuses a request inside the dataset with more than MaxHyperslabElements elements *)
From HV Require Proofs.SliceRefineFit.
Lemma read_slice_too_large lay full dims st cn : Forall u64 dims -> slice_valid st cn dims ->
  max_hyperslab_elements < prodN cn -> read_slice lay full dims st cn = None.
Proof.
  intros Ud SV Hbig. unfold read_slice. rewrite (proj2 (slice_validate_ok st cn dims Ud) SV). cbv zeta.
  assert (P : Forall (fun c => 0 < c) cn) by (apply prod_pos_counts; unfold max_hyperslab_elements in Hbig; lia).
  pose proof (slice_valid_valid st cn dims SV P) as (_ & AV). destruct SV as (L1 & L2 & _).
  rewrite (axes_of_slice st cn _ L1) in AV.
  assert (Sne : slice_axes st cn <> []).
  { unfold slice_axes. destruct cn as [|c cr]; [cbn [prodN] in Hbig; unfold max_hyperslab_elements in Hbig; lia|].
    destruct st as [|s0 sr]; [rewrite <- L2 in L1; discriminate|]. cbn [length ones repeat zip4]. discriminate. }
  pose proof (SliceRefineFit.out_elems_pos _ _ AV Sne) as Hn.
  replace (out_elems (slice_axes st cn) =? 0) with false by (symmetry; apply N.eqb_neq; lia).
  destruct (validate _ dims) eqn:E; [|reflexivity].
  apply validate_count_bound in E. cbn [h_count] in E. lia.
Qed.
