(* Lemmas for C11, group 6 (link-info, attribute-info, symbol-table message; link message facts). *)
From HV Require Import Base.Prelude Base.Outcome Base.Bytes Model.CodecMsg Model.CodecLink Proofs.CodecMsg.

(* reading back one variable-width field that sits after a prefix *)
Lemma uint_after (pre : list N) v s b (suf : list N) off :
  off = blen pre -> size1248 s -> v < 256 ^ s ->
  (d <- slice_from (pre ++ write_uint v s b ++ suf) off;; read_uint d s b) = Ok v.
Proof.
  intros -> Hs Hv. rewrite slice_from_app by reflexivity. cbn [obind]. now apply read_write_uint.
Qed.

(* ------------------------------------------------------------------ symbol table message *)

Lemma symtab_roundtrip x : wf_symtab x = true ->
  dec_symtab false (enc_symtab 8 x) = Ok x.
Proof.
  unfold wf_symtab. intros H. apply andb_true_iff in H as [Hb Hh]. apply N.ltb_lt in Hb, Hh.
  destruct x as [b h]; cbn [st_btree st_heap] in *.
  unfold enc_symtab, dec_symtab, write_uint. cbn [st_btree st_heap N.eqb Pos.eqb orb].
  change (N.to_nat 8) with 8%nat.
  rewrite blen_app, !blen_le. change (N.of_nat 8 + N.of_nat 8 <? 16) with false. cbv iota.
  rewrite (rd_le_head 8 8) by (auto; exact Hb). cbn [obind].
  rewrite <- (app_nil_r (le 8 h)).
  rewrite (rd_le_at (le 8 b) 8 8 h []) by (auto; rewrite ?blen_le; auto; exact Hh). reflexivity.
Qed.

Lemma symtab_blen x : blen (enc_symtab 8 x) = 16.
Proof. unfold enc_symtab, write_uint. cbn [N.eqb Pos.eqb orb]. rewrite blen_app, !blen_le. reflexivity. Qed.

(* ------------------------------------------------------------------ link info *)

Ltac tb a b v := change (N.testbit a b) with v in *; change (N.testbit a b) with v.

Lemma flags_lt4 f : f < 4 -> f = 0 \/ f = 1 \/ f = 2 \/ f = 3.
Proof. lia. Qed.

Lemma wf_linkinfo_inv sb x : wf_linkinfo sb x = true ->
  size1248 (sb_offsize sb) /\ li_version x = 0 /\ li_flags x < 4 /\
  li_maxcorder x < 9223372036854775808 /\ (N.testbit (li_flags x) 0 = false -> li_maxcorder x = 0) /\
  li_heap x < 256 ^ sb_offsize sb /\ li_btname x < 256 ^ sb_offsize sb /\
  li_btorder x < 256 ^ sb_offsize sb /\ (N.testbit (li_flags x) 1 = false -> li_btorder x = 0).
Proof.
  unfold wf_linkinfo, sb_ok, encok_linkinfo. intros H.
  apply andb_true_iff in H as [H H9]. apply andb_true_iff in H as [H H8].
  apply andb_true_iff in H as [H H7]. apply andb_true_iff in H as [H H6].
  apply andb_true_iff in H as [H H5]. apply andb_true_iff in H as [H H4].
  apply andb_true_iff in H as [H H3]. apply andb_true_iff in H as [Hsb H2].
  apply andb_true_iff in Hsb as [Hsb _]. apply andb_true_iff in Hsb as [Ho _].
  apply size1248_of_bool in Ho. apply N.eqb_eq in H2.
  apply N.ltb_lt in H3, H4, H6, H7, H8.
  repeat (split; auto).
  - intros E. rewrite E in H5. cbn [orb] in H5. apply N.eqb_eq in H5. exact H5.
  - intros E. rewrite E in H9. cbn [orb] in H9. apply N.eqb_eq in H9. exact H9.
Qed.

Lemma linkinfo_blen sb x : wf_linkinfo sb x = true -> blen (enc_linkinfo sb x) = size_linkinfo sb x.
Proof.
  intros H. apply wf_linkinfo_inv in H as (Ho & _ & _ & _ & _ & _ & _ & _ & _).
  unfold enc_linkinfo, size_linkinfo.
  destruct (N.testbit (li_flags x) 0), (N.testbit (li_flags x) 1);
    rewrite !blen_app, ?blen_le, !blen_write_uint by auto; unfold blen; cbn [length]; blia.
Qed.

Lemma linkinfo_roundtrip sb x : wf_linkinfo sb x = true ->
  dec_linkinfo sb (enc_linkinfo sb x) = Ok x.
Proof.
  intros Hwf. pose proof (linkinfo_blen sb x Hwf) as Hlen.
  apply wf_linkinfo_inv in Hwf as (Ho & Hv & Hf & Hm & Hm0 & Hh & Hn & Hb & Hb0).
  destruct x as [ver f mco h n bo]; cbn [li_version li_flags li_maxcorder li_heap li_btname li_btorder] in *.
  subst ver.
  assert (Ho1 : 1 <= sb_offsize sb) by (destruct Ho as [-> | [-> | [-> | ->]]]; blia).
  assert (Hm' : mco < 256 ^ 8) by (change (256 ^ 8) with 18446744073709551616; blia).
  unfold dec_linkinfo. rewrite Hlen. unfold size_linkinfo, enc_linkinfo.
  cbn [li_version li_flags li_maxcorder li_heap li_btname li_btorder].
  set (os := sb_offsize sb) in *. set (be := sb_bigendian sb).
  destruct (flags_lt4 f Hf) as [-> | [-> | [-> | ->]]];
    tb 0 0 false; tb 0 1 false; tb 1 0 true; tb 1 1 false; tb 2 0 false; tb 2 1 true; tb 3 0 true; tb 3 1 true;
    cbv iota.
  - (* no optional field *)
    rewrite (Hm0 eq_refl), (Hb0 eq_refl).
    cbn [app]. rewrite index0, index1. cbn [obind].
    tb 0 0 false; tb 0 1 false; tb 1 0 true; tb 1 1 false; tb 2 0 false; tb 2 1 true; tb 3 0 true; tb 3 1 true; cbv iota.
    replace (2 + 0 + 2 * os + 0 <? 2) with false by (symmetry; apply N.ltb_ge; blia).
    change (negb (0 =? 0)) with false. change (negb (N.land 0 252 =? 0)) with false. cbv iota. cbn [obind]. cbv beta iota.
    replace (2 + 0 + 2 * os + 0 <? 2 + os) with false by (symmetry; apply N.ltb_ge; blia).
    change (0 :: 0 :: write_uint h os be ++ write_uint n os be ++ [])
      with ([0; 0] ++ write_uint h os be ++ write_uint n os be ++ []).
    bnorm; rewrite slice_from_app by auto; cbn [obind]; rewrite read_write_uint by auto. cbn [obind].
    replace (2 + 0 + 2 * os + 0 <? 2 + os + os) with false by (symmetry; apply N.ltb_ge; blia).
    rewrite (app_assoc [0; 0]). bnorm; rewrite slice_from_app by (auto; rewrite blen_app, blen_write_uint by auto; reflexivity); cbn [obind]; rewrite read_write_uint by auto.
    reflexivity.
  - (* max creation order present *)
    rewrite (Hb0 eq_refl).
    cbn [app]. rewrite index0, index1. cbn [obind].
    tb 0 0 false; tb 0 1 false; tb 1 0 true; tb 1 1 false; tb 2 0 false; tb 2 1 true; tb 3 0 true; tb 3 1 true; cbv iota.
    replace (2 + 8 + 2 * os + 0 <? 2) with false by (symmetry; apply N.ltb_ge; blia).
    change (negb (0 =? 0)) with false. change (negb (N.land 1 252 =? 0)) with false. cbv iota.
    replace (2 + 8 + 2 * os + 0 <? 2 + 8) with false by (symmetry; apply N.ltb_ge; blia).
    change (0 :: 1 :: le 8 mco ++ write_uint h os be ++ write_uint n os be ++ [])
      with ([0; 1] ++ le 8 mco ++ write_uint h os be ++ write_uint n os be ++ []).
    rewrite (rd_le_at [0; 1] 8 8 mco) by auto. cbn [obind].
    replace (9223372036854775808 <=? mco) with false by (symmetry; apply N.leb_gt; exact Hm).
    cbn [obind]. cbv beta iota.
    replace (2 + 8 + 2 * os + 0 <? 10 + os) with false by (symmetry; apply N.ltb_ge; blia).
    rewrite (app_assoc [0; 1]). bnorm; rewrite slice_from_app by (auto; rewrite blen_app, blen_le; reflexivity); cbn [obind]; rewrite read_write_uint by auto.
    cbn [obind].
    replace (2 + 8 + 2 * os + 0 <? 10 + os + os) with false by (symmetry; apply N.ltb_ge; blia).
    rewrite (app_assoc ([0; 1] ++ le 8 mco)).
    bnorm; rewrite slice_from_app by (auto; rewrite !blen_app, blen_le, blen_write_uint by auto; reflexivity); cbn [obind]; rewrite read_write_uint by auto.
    reflexivity.
  - (* creation order index present *)
    rewrite (Hm0 eq_refl).
    cbn [app]. rewrite index0, index1. cbn [obind].
    tb 0 0 false; tb 0 1 false; tb 1 0 true; tb 1 1 false; tb 2 0 false; tb 2 1 true; tb 3 0 true; tb 3 1 true; cbv iota.
    replace (2 + 0 + 2 * os + os <? 2) with false by (symmetry; apply N.ltb_ge; blia).
    change (negb (0 =? 0)) with false. change (negb (N.land 2 252 =? 0)) with false. cbv iota. cbn [obind]. cbv beta iota.
    replace (2 + 0 + 2 * os + os <? 2 + os) with false by (symmetry; apply N.ltb_ge; blia).
    change (0 :: 2 :: write_uint h os be ++ write_uint n os be ++ write_uint bo os be)
      with ([0; 2] ++ write_uint h os be ++ write_uint n os be ++ write_uint bo os be).
    bnorm; rewrite slice_from_app by auto; cbn [obind]; rewrite read_write_uint by auto. cbn [obind].
    replace (2 + 0 + 2 * os + os <? 2 + os + os) with false by (symmetry; apply N.ltb_ge; blia).
    rewrite (app_assoc [0; 2]). bnorm; rewrite slice_from_app by (auto; rewrite blen_app, blen_write_uint by auto; reflexivity); cbn [obind]; rewrite read_write_uint by auto.
    cbn [obind].
    replace (2 + 0 + 2 * os + os <? 2 + os + os + os) with false by (symmetry; apply N.ltb_ge; blia).
    rewrite (app_assoc ([0; 2] ++ write_uint h os be)).
    rewrite <- (app_nil_r (write_uint bo os be)).
    bnorm; rewrite slice_from_app by (auto; rewrite !blen_app, !blen_write_uint by auto; reflexivity); cbn [obind]; rewrite read_write_uint by auto.
    reflexivity.
  - (* both *)
    cbn [app]. rewrite index0, index1. cbn [obind].
    tb 0 0 false; tb 0 1 false; tb 1 0 true; tb 1 1 false; tb 2 0 false; tb 2 1 true; tb 3 0 true; tb 3 1 true; cbv iota.
    replace (2 + 8 + 2 * os + os <? 2) with false by (symmetry; apply N.ltb_ge; blia).
    change (negb (0 =? 0)) with false. change (negb (N.land 3 252 =? 0)) with false. cbv iota.
    replace (2 + 8 + 2 * os + os <? 2 + 8) with false by (symmetry; apply N.ltb_ge; blia).
    change (0 :: 3 :: le 8 mco ++ write_uint h os be ++ write_uint n os be ++ write_uint bo os be)
      with ([0; 3] ++ le 8 mco ++ write_uint h os be ++ write_uint n os be ++ write_uint bo os be).
    rewrite (rd_le_at [0; 3] 8 8 mco) by auto. cbn [obind].
    replace (9223372036854775808 <=? mco) with false by (symmetry; apply N.leb_gt; exact Hm).
    cbn [obind]. cbv beta iota.
    replace (2 + 8 + 2 * os + os <? 10 + os) with false by (symmetry; apply N.ltb_ge; blia).
    rewrite (app_assoc [0; 3]). bnorm; rewrite slice_from_app by (auto; rewrite blen_app, blen_le; reflexivity); cbn [obind]; rewrite read_write_uint by auto.
    cbn [obind].
    replace (2 + 8 + 2 * os + os <? 10 + os + os) with false by (symmetry; apply N.ltb_ge; blia).
    rewrite (app_assoc ([0; 3] ++ le 8 mco)).
    bnorm; rewrite slice_from_app by (auto; rewrite !blen_app, blen_le, blen_write_uint by auto; reflexivity); cbn [obind]; rewrite read_write_uint by auto.
    cbn [obind].
    replace (2 + 8 + 2 * os + os <? 10 + os + os + os) with false by (symmetry; apply N.ltb_ge; blia).
    rewrite (app_assoc (([0; 3] ++ le 8 mco) ++ write_uint h os be)).
    rewrite <- (app_nil_r (write_uint bo os be)).
    bnorm; rewrite slice_from_app by (auto; rewrite !blen_app, blen_le, !blen_write_uint by auto; reflexivity); cbn [obind]; rewrite read_write_uint by auto.
    reflexivity.
Qed.

(* ------------------------------------------------------------------ attribute info *)

Lemma write_addr_uint v s : size1248 s -> write_addr v s false = write_uint v s false.
Proof. intros [-> | [-> | [-> | ->]]]; reflexivity. Qed.

Lemma read_addr_at (pre : list N) v s (suf : list N) off :
  off = blen pre -> size1248 s -> v < 256 ^ s ->
  read_addr (pre ++ write_uint v s false ++ suf) off s = Ok v.
Proof.
  intros -> Hs Hv. unfold read_addr.
  rewrite (slice_app' pre (write_uint v s false) suf) by (auto; rewrite blen_write_uint by auto; reflexivity).
  cbn [obind]. rewrite <- (app_nil_r (write_uint v s false)). now apply read_write_uint.
Qed.

Lemma wf_attrinfo_inv sb x : wf_attrinfo sb x = true ->
  size1248 (sb_offsize sb) /\ sb_bigendian sb = false /\ ai_version x < 256 /\ ai_flags x < 256 /\
  ai_maxcidx x < 65536 /\ (N.testbit (ai_flags x) 0 = false -> ai_maxcidx x = 0) /\
  ai_heap x < 256 ^ sb_offsize sb /\ ai_btname x < 256 ^ sb_offsize sb /\
  ai_btorder x < 256 ^ sb_offsize sb /\ (N.testbit (ai_flags x) 1 = false -> ai_btorder x = 0).
Proof.
  unfold wf_attrinfo, sb_ok. intros H.
  apply andb_true_iff in H as [H H9]. apply andb_true_iff in H as [H H8].
  apply andb_true_iff in H as [H H7]. apply andb_true_iff in H as [H H6].
  apply andb_true_iff in H as [H H5]. apply andb_true_iff in H as [H H4].
  apply andb_true_iff in H as [H H3]. apply andb_true_iff in H as [H H2].
  apply andb_true_iff in H as [Hsb Hbe].
  apply andb_true_iff in Hsb as [Hsb _]. apply andb_true_iff in Hsb as [Ho _].
  apply size1248_of_bool in Ho. apply negb_true_iff in Hbe.
  apply N.ltb_lt in H2, H3, H4, H6, H7, H8.
  repeat (split; auto).
  - intros E. rewrite E in H5. cbn [orb] in H5. apply N.eqb_eq in H5. exact H5.
  - intros E. rewrite E in H9. cbn [orb] in H9. apply N.eqb_eq in H9. exact H9.
Qed.

Lemma attrinfo_shape sb x : wf_attrinfo sb x = true ->
  enc_attrinfo sb x =
  [ai_version x; ai_flags x]
  ++ (if N.testbit (ai_flags x) 0 then le 2 (ai_maxcidx x) ++ le 2 0 else [])
  ++ write_uint (ai_heap x) (sb_offsize sb) false
  ++ write_uint (ai_btname x) (sb_offsize sb) false
  ++ (if N.testbit (ai_flags x) 1 then write_uint (ai_btorder x) (sb_offsize sb) false else []).
Proof.
  intros H. apply wf_attrinfo_inv in H as (Ho & Hbe & _ & _ & Hm & _).
  unfold enc_attrinfo. rewrite Hbe. unfold wr16. rewrite !write_addr_uint by auto.
  unfold wrap16. rewrite !N.mod_small by blia. reflexivity.
Qed.

Lemma attrinfo_blen sb x : wf_attrinfo sb x = true -> blen (enc_attrinfo sb x) = size_attrinfo sb x.
Proof.
  intros H. rewrite attrinfo_shape by auto. apply wf_attrinfo_inv in H as (Ho & _).
  unfold size_attrinfo.
  destruct (N.testbit (ai_flags x) 0), (N.testbit (ai_flags x) 1);
    rewrite !blen_app, ?blen_le, !blen_write_uint by auto; unfold blen; cbn [length]; blia.
Qed.

Lemma attrinfo_roundtrip sb x : wf_attrinfo sb x = true ->
  dec_attrinfo sb (enc_attrinfo sb x) = Ok x.
Proof.
  intros Hwf. pose proof (attrinfo_blen sb x Hwf) as Hlen. pose proof (attrinfo_shape sb x Hwf) as Hsh.
  apply wf_attrinfo_inv in Hwf as (Ho & Hbe & Hv & Hf & Hm & Hm0 & Hh & Hn & Hb & Hb0).
  destruct x as [ver f h n mci bo]; cbn [ai_version ai_flags ai_heap ai_btname ai_maxcidx ai_btorder] in *.
  assert (Ho1 : 1 <= sb_offsize sb) by (destruct Ho as [-> | [-> | [-> | ->]]]; blia).
  unfold dec_attrinfo. rewrite Hlen, Hsh, Hbe. unfold size_attrinfo.
  cbn [ai_version ai_flags ai_heap ai_btname ai_maxcidx ai_btorder].
  set (os := sb_offsize sb) in *.
  cbn [app]. rewrite index0, index1. cbn [obind].
  destruct (N.testbit f 0) eqn:B0, (N.testbit f 1) eqn:B1; cbv iota.
  - replace (2 + 4 + 2 * os + os <? 2) with false by (symmetry; apply N.ltb_ge; blia).
    replace (2 + 4 + 2 * os + os <? 2 + 4) with false by (symmetry; apply N.ltb_ge; blia).
    change (ver :: f :: (le 2 mci ++ le 2 0) ++ write_uint h os false ++ write_uint n os false ++ write_uint bo os false)
      with ([ver; f] ++ (le 2 mci ++ le 2 0) ++ write_uint h os false ++ write_uint n os false ++ write_uint bo os false).
    bnorm. rewrite <- (app_assoc (le 2 mci)).
    rewrite (rd_le_at [ver; f] 2 2 mci) by auto. cbn [obind]. cbv beta iota.
    replace (2 + 4 + 2 * os + os <? 6 + os) with false by (symmetry; apply N.ltb_ge; blia).
    rewrite (app_assoc [ver; f]), (app_assoc ([ver; f] ++ le 2 mci)).
    rewrite read_addr_at by (auto; rewrite !blen_app, !blen_le; reflexivity). cbn [obind].
    replace (2 + 4 + 2 * os + os <? 6 + os + os) with false by (symmetry; apply N.ltb_ge; blia).
    rewrite (app_assoc (([ver; f] ++ le 2 mci) ++ le 2 0)).
    rewrite read_addr_at by (auto; rewrite !blen_app, !blen_le, blen_write_uint by auto; reflexivity). cbn [obind].
    replace (2 + 4 + 2 * os + os <? 6 + os + os + os) with false by (symmetry; apply N.ltb_ge; blia).
    rewrite (app_assoc ((([ver; f] ++ le 2 mci) ++ le 2 0) ++ write_uint h os false)).
    rewrite <- (app_nil_r (write_uint bo os false)).
    rewrite read_addr_at by (auto; rewrite !blen_app, !blen_le, !blen_write_uint by auto; reflexivity).
    reflexivity.
  - rewrite (Hb0 eq_refl).
    replace (2 + 4 + 2 * os + 0 <? 2) with false by (symmetry; apply N.ltb_ge; blia).
    replace (2 + 4 + 2 * os + 0 <? 2 + 4) with false by (symmetry; apply N.ltb_ge; blia).
    change (ver :: f :: (le 2 mci ++ le 2 0) ++ write_uint h os false ++ write_uint n os false ++ [])
      with ([ver; f] ++ (le 2 mci ++ le 2 0) ++ write_uint h os false ++ write_uint n os false ++ []).
    bnorm. rewrite <- (app_assoc (le 2 mci)).
    rewrite (rd_le_at [ver; f] 2 2 mci) by auto. cbn [obind]. cbv beta iota.
    replace (2 + 4 + 2 * os + 0 <? 6 + os) with false by (symmetry; apply N.ltb_ge; blia).
    rewrite (app_assoc [ver; f]), (app_assoc ([ver; f] ++ le 2 mci)).
    rewrite read_addr_at by (auto; rewrite !blen_app, !blen_le; reflexivity). cbn [obind].
    replace (2 + 4 + 2 * os + 0 <? 6 + os + os) with false by (symmetry; apply N.ltb_ge; blia).
    rewrite (app_assoc (([ver; f] ++ le 2 mci) ++ le 2 0)).
    rewrite read_addr_at by (auto; rewrite !blen_app, !blen_le, blen_write_uint by auto; reflexivity).
    reflexivity.
  - rewrite (Hm0 eq_refl).
    replace (2 + 0 + 2 * os + os <? 2) with false by (symmetry; apply N.ltb_ge; blia).
    cbn [obind]. cbv beta iota.
    change (ver :: f :: [] ++ write_uint h os false ++ write_uint n os false ++ write_uint bo os false)
      with ([ver; f] ++ write_uint h os false ++ write_uint n os false ++ write_uint bo os false).
    bnorm.
    replace (2 + 0 + 2 * os + os <? 2 + os) with false by (symmetry; apply N.ltb_ge; blia).
    rewrite read_addr_at by auto. cbn [obind].
    replace (2 + 0 + 2 * os + os <? 2 + os + os) with false by (symmetry; apply N.ltb_ge; blia).
    rewrite (app_assoc [ver; f]).
    rewrite read_addr_at by (auto; rewrite !blen_app, blen_write_uint by auto; reflexivity). cbn [obind].
    replace (2 + 0 + 2 * os + os <? 2 + os + os + os) with false by (symmetry; apply N.ltb_ge; blia).
    rewrite (app_assoc ([ver; f] ++ write_uint h os false)).
    rewrite <- (app_nil_r (write_uint bo os false)).
    rewrite read_addr_at by (auto; rewrite !blen_app, !blen_write_uint by auto; reflexivity).
    reflexivity.
  - rewrite (Hm0 eq_refl), (Hb0 eq_refl).
    replace (2 + 0 + 2 * os + 0 <? 2) with false by (symmetry; apply N.ltb_ge; blia).
    cbn [obind]. cbv beta iota.
    change (ver :: f :: [] ++ write_uint h os false ++ write_uint n os false ++ [])
      with ([ver; f] ++ write_uint h os false ++ write_uint n os false ++ []).
    bnorm.
    replace (2 + 0 + 2 * os + 0 <? 2 + os) with false by (symmetry; apply N.ltb_ge; blia).
    rewrite read_addr_at by auto. cbn [obind].
    replace (2 + 0 + 2 * os + 0 <? 2 + os + os) with false by (symmetry; apply N.ltb_ge; blia).
    rewrite (app_assoc [ver; f]).
    rewrite read_addr_at by (auto; rewrite !blen_app, blen_write_uint by auto; reflexivity).
    reflexivity.
Qed.

(* big-endian superblocks: the encoder writes the addresses big-endian, the decoder reads them little-endian *)
Lemma attrinfo_be_refuted :
  exists sb x, sb_bigendian sb = true /\ sb_ok sb = true /\
    dec_attrinfo sb (enc_attrinfo sb x) <> Ok x.
Proof.
  exists {| sb_version := 2; sb_offsize := 8; sb_lensize := 8; sb_bigendian := true |}.
  exists {| ai_version := 0; ai_flags := 0; ai_heap := 1; ai_btname := 2; ai_maxcidx := 0; ai_btorder := 0 |}.
  repeat split. vm_compute. discriminate.
Qed.

(* ------------------------------------------------------------------ link message *)

Ltac kill_ltb :=
  match goal with
  | |- context [blen ?d <? ?k] =>
      let L := fresh "L" in
      destruct (N.ltb_spec (blen d) k) as [L|L];
      [ exfalso; unfold blen in L; cbn [length] in L; rewrite ?app_length, ?length_le in L; cbn [length] in L; blia
      | clear L ]
  end.

Definition link_hdr (f ty co cs : N) : list N :=
  [1; f] ++ (if lk_has_type f then [ty] else [])
         ++ (if lk_has_corder f then le 8 co else [])
         ++ (if lk_has_charset f then [cs] else []).

Lemma link_header_dec f ty co cs (rest : list N) :
  co < 256 ^ 8 ->
  (lk_has_type f = false -> ty = 0) -> (lk_has_corder f = false -> co = 0) ->
  (lk_has_charset f = false -> cs = 0) ->
  dec_link_header (link_hdr f ty co cs ++ rest) = Ok (f, ty, co, cs, blen (link_hdr f ty co cs)).
Proof.
  intros Hco Ht Hc Hs. unfold dec_link_header, link_hdr.
  cbn [app]. rewrite index0, index1. cbn [obind].
  kill_ltb.
  change (negb (1 =? 1)) with false. cbv iota.
  destruct (lk_has_type f) eqn:B3, (lk_has_corder f) eqn:B2, (lk_has_charset f) eqn:B4;
    try rewrite (Ht eq_refl); try rewrite (Hc eq_refl); try rewrite (Hs eq_refl);
    cbn [app].
  - kill_ltb.
    rewrite index2. cbn [obind]. cbv beta iota.
    kill_ltb.
    change (1 :: f :: ty :: (le 8 co ++ [cs]) ++ rest) with ([1; f; ty] ++ (le 8 co ++ [cs]) ++ rest).
    bnorm. rewrite <- (app_assoc (le 8 co)).
    rewrite (rd_le_at [1; f; ty] 8 8 co) by auto. cbn [obind]. cbv beta iota.
    kill_ltb.
    rewrite (app_assoc [1; f; ty]). change ([cs] ++ rest) with (cs :: rest).
    rewrite index_app by (rewrite blen_app, blen_le; reflexivity). cbn [obind].
    reflexivity.
  - kill_ltb.
    rewrite index2. cbn [obind]. cbv beta iota.
    kill_ltb.
    change (1 :: f :: ty :: (le 8 co ++ []) ++ rest) with ([1; f; ty] ++ (le 8 co ++ []) ++ rest).
    bnorm. rewrite <- (app_assoc (le 8 co)).
    rewrite (rd_le_at [1; f; ty] 8 8 co) by auto. cbn [obind]. cbv beta iota.
    reflexivity.
  - kill_ltb.
    rewrite index2. cbn [obind]. cbv beta iota.
    kill_ltb.
    cbn [app]. rewrite index3. cbn [obind]. reflexivity.
  - kill_ltb.
    rewrite index2. cbn [obind]. cbv beta iota. reflexivity.
  - cbn [obind]. cbv beta iota.
    kill_ltb.
    change (1 :: f :: (le 8 co ++ [cs]) ++ rest) with ([1; f] ++ (le 8 co ++ [cs]) ++ rest).
    bnorm. rewrite <- (app_assoc (le 8 co)).
    rewrite (rd_le_at [1; f] 8 8 co) by auto. cbn [obind]. cbv beta iota.
    kill_ltb.
    rewrite (app_assoc [1; f]). change ([cs] ++ rest) with (cs :: rest).
    rewrite index_app by (rewrite blen_app, blen_le; reflexivity). cbn [obind].
    reflexivity.
  - cbn [obind]. cbv beta iota.
    kill_ltb.
    change (1 :: f :: (le 8 co ++ []) ++ rest) with ([1; f] ++ (le 8 co ++ []) ++ rest).
    bnorm. rewrite <- (app_assoc (le 8 co)).
    rewrite (rd_le_at [1; f] 8 8 co) by auto. cbn [obind]. cbv beta iota.
    reflexivity.
  - cbn [obind]. cbv beta iota.
    kill_ltb.
    cbn [app]. rewrite index2. cbn [obind]. reflexivity.
  - cbn [obind]. cbv beta iota. reflexivity.
Qed.

Lemma slice_mid_firstn (pre v : list N) a k :
  a + k <= blen v ->
  slice (pre ++ v) (blen pre + a) (blen pre + a + k) = Ok (firstn (N.to_nat k) (skipn (N.to_nat a) v)).
Proof.
  intros H. rewrite <- (firstn_skipn (N.to_nat a) v) at 1.
  assert (La : blen (firstn (N.to_nat a) v) = a) by (unfold blen in *; rewrite firstn_length; blia).
  rewrite app_assoc.
  rewrite <- (firstn_skipn (N.to_nat k) (skipn (N.to_nat a) v)) at 1.
  apply slice_app'.
  - rewrite blen_app, La. reflexivity.
  - f_equal. unfold blen in *. rewrite firstn_length, skipn_length. blia.
Qed.

Lemma lensize_cases f : let ls := lk_lensize f in ls = 1 \/ ls = 2 \/ ls = 4 \/ ls = 8.
Proof.
  unfold lk_lensize. change 3 with (N.ones 2). rewrite N.land_ones.
  assert (H : f mod 2 ^ 2 < 4) by (apply N.mod_lt; discriminate).
  destruct (flags_lt4 _ H) as [-> | [-> | [-> | ->]]]; cbn; auto.
Qed.

Lemma link_namelen_dec (pre rest : list N) f n :
  n < 256 ^ lk_lensize f ->
  dec_link_namelen (pre ++ le (N.to_nat (lk_lensize f)) n ++ rest) (blen pre) f
  = Ok (n, blen pre + lk_lensize f).
Proof.
  intros Hn. unfold dec_link_namelen.
  set (ls := lk_lensize f) in *.
  replace (blen (pre ++ le (N.to_nat ls) n ++ rest) <? blen pre + ls) with false
    by (symmetry; apply N.ltb_ge; rewrite !blen_app, blen_le; blia).
  rewrite (rd_le_at pre (N.to_nat ls) ls n rest) by (auto; blia).
  reflexivity.
Qed.

Lemma link_name_dec (pre name rest : list N) :
  blen name <= 1048576 ->
  dec_link_name (pre ++ name ++ rest) (blen pre) (blen name) = Ok (name, blen pre + blen name).
Proof.
  intros H. unfold dec_link_name.
  replace (1048576 <? blen name) with false by (symmetry; apply N.ltb_ge; exact H).
  replace (blen (pre ++ name ++ rest) <? blen pre + blen name) with false
    by (symmetry; apply N.ltb_ge; rewrite !blen_app; blia).
  rewrite slice_app by reflexivity. reflexivity.
Qed.

Lemma link_value_dec os (pre v : list N) ty :
  link_value_ok os ty v = true ->
  dec_link_value os (pre ++ v) (blen pre) ty = Ok (if ty =? 1 then skipn 2 v else v).
Proof.
  unfold link_value_ok, dec_link_value. intros H.
  destruct (ty =? 0) eqn:T0.
  - apply N.eqb_eq in H. apply N.eqb_eq in T0. subst ty. change (0 =? 1) with false. cbv iota.
    rewrite blen_app. replace (blen pre + blen v <? blen pre + os) with false by (symmetry; apply N.ltb_ge; blia).
    rewrite <- H. apply slice_app_end; reflexivity.
  - destruct (ty =? 1) eqn:T1.
    + apply andb_true_iff in H as [H2 Hn]. apply N.leb_le in H2. apply N.eqb_eq in Hn.
      rewrite blen_app.
      replace (blen pre + blen v <? blen pre + 2) with false by (symmetry; apply N.ltb_ge; blia).
      unfold rd_le.
      replace (blen pre + 2) with (blen pre + 0 + 2) at 1 by blia.
      replace (blen pre) with (blen pre + 0) at 1 by blia.
      rewrite slice_mid_firstn by blia. cbn [obind]. change (N.to_nat 0) with 0%nat. change (skipn 0 v) with v.
      change (N.to_nat 2) with 2%nat. bnorm. rewrite Hn.
      replace (blen pre + blen v <? blen pre + 2 + (blen v - 2)) with false by (symmetry; apply N.ltb_ge; blia).
      rewrite slice_mid_firstn by blia.
      f_equal. change (N.to_nat 2) with 2%nat. apply firstn_all2.
      unfold blen in *. rewrite skipn_length. blia.
    + destruct (ty =? 64) eqn:T64; [|discriminate].
      apply andb_true_iff in H as [H4 H]. apply andb_true_iff in H as [Hfl Hpl].
      apply N.leb_le in H4, Hfl. apply N.eqb_eq in Hpl.
      set (fl := unle (firstn 2 v)) in *.
      rewrite blen_app.
      replace (blen pre + blen v <? blen pre + 2) with false by (symmetry; apply N.ltb_ge; blia).
      unfold rd_le.
      replace (blen pre + 2) with (blen pre + 0 + 2) at 1 by blia.
      replace (blen pre) with (blen pre + 0) at 1 by blia.
      rewrite slice_mid_firstn by blia. cbn [obind]. change (N.to_nat 0) with 0%nat. change (skipn 0 v) with v.
      change (N.to_nat 2) with 2%nat. bnorm. fold fl.
      replace (blen pre + blen v <? blen pre + 2 + fl + 2) with false by (symmetry; apply N.ltb_ge; blia).
      replace (blen pre + 2 + fl) with (blen pre + (2 + fl)) by blia.
      rewrite slice_mid_firstn by blia. cbn [obind]. change (N.to_nat 2) with 2%nat. bnorm. subst fl. rewrite Hpl. set (fl := unle (firstn 2 v)) in *.
      replace (blen pre + blen v <? blen pre + (2 + fl + 2 + (blen v - (2 + fl + 2)))) with false
        by (symmetry; apply N.ltb_ge; blia).
      replace (2 + fl + 2 + (blen v - (2 + fl + 2))) with (blen v) by blia.
      apply slice_app_end; reflexivity.
Qed.

Lemma wf_link_inv os x : wf_link os x = true ->
  lk_version x = 1 /\ lk_corder x < 256 ^ 8 /\ blen (lk_name x) <= 1048576 /\
  blen (lk_name x) < 256 ^ lk_lensize (lk_flags x) /\
  (lk_has_type (lk_flags x) = false -> lk_type x = 0) /\
  (lk_has_corder (lk_flags x) = false -> lk_corder x = 0) /\
  (lk_has_charset (lk_flags x) = false -> lk_charset x = 0) /\
  link_value_ok os (lk_type x) (lk_value x) = true.
Proof.
  unfold wf_link, encok_link. intros H.
  apply andb_true_iff in H as [H H11]. apply andb_true_iff in H as [H H10].
  apply andb_true_iff in H as [H H9]. apply andb_true_iff in H as [H H8].
  apply andb_true_iff in H as [H H7]. apply andb_true_iff in H as [H H6].
  apply andb_true_iff in H as [H H5]. apply andb_true_iff in H as [H H4].
  apply andb_true_iff in H as [H H3]. apply andb_true_iff in H as [H H2].
  apply andb_true_iff in H as [Hv Hl].
  apply N.eqb_eq in Hv. apply N.ltb_lt in H5. apply N.leb_le in H6.
  repeat (split; auto).
  - apply orb_true_iff in Hl as [E|E].
    + apply N.eqb_eq in E. rewrite E. change (256 ^ 8) with 18446744073709551616. blia.
    + apply N.ltb_lt in E. exact E.
  - intros E. rewrite E in H8. cbn [orb] in H8. apply N.eqb_eq in H8. exact H8.
  - intros E. rewrite E in H9. cbn [orb] in H9. apply N.eqb_eq in H9. exact H9.
  - intros E. rewrite E in H10. cbn [orb] in H10. apply N.eqb_eq in H10. exact H10.
Qed.

Lemma enc_link_shape x : lk_version x = 1 ->
  enc_link x = link_hdr (lk_flags x) (lk_type x) (lk_corder x) (lk_charset x)
               ++ le (N.to_nat (lk_lensize (lk_flags x))) (blen (lk_name x)) ++ lk_name x ++ lk_value x.
Proof. intros E. unfold enc_link, link_hdr. rewrite E. rewrite <- !app_assoc. reflexivity. Qed.

Lemma link_roundtrip os x : wf_link os x = true ->
  dec_link os (enc_link x) = Ok (proj_link x).
Proof.
  intros Hwf. apply wf_link_inv in Hwf as (Hv & Hco & Hnl & Hnf & Ht & Hc & Hs & Hval).
  rewrite enc_link_shape by auto.
  destruct x as [ver f ty co cs name v]; cbn [lk_version lk_flags lk_type lk_corder lk_charset lk_name lk_value] in *.
  subst ver. unfold dec_link, proj_link.
  cbn [lk_version lk_flags lk_type lk_corder lk_charset lk_name lk_value].
  bnorm. rewrite link_header_dec by auto. cbn [obind]. cbv beta iota.
  brewrite (link_namelen_dec (link_hdr f ty co cs) (name ++ v) f (blen name)) by auto.
  cbn [obind]. cbv beta iota.
  set (Hd := link_hdr f ty co cs) in *. set (L := le (N.to_nat (lk_lensize f)) (blen name)) in *.
  assert (EL : blen Hd + lk_lensize f = blen (Hd ++ L)) by (subst L; rewrite blen_app, blen_le; blia).
  rewrite EL. rewrite (app_assoc Hd L).
  rewrite (link_name_dec (Hd ++ L) name v) by auto. cbn [obind]. cbv beta iota.
  rewrite <- (blen_app (Hd ++ L) name).
  rewrite (app_assoc (Hd ++ L) name).
  rewrite (link_value_dec os ((Hd ++ L) ++ name) v ty) by auto. cbn [obind]. reflexivity.
Qed.

Lemma link_blen x : lk_version x = 1 -> blen (enc_link x) = size_link x.
Proof.
  intros E. rewrite enc_link_shape by auto. unfold link_hdr, size_link.
  destruct (lk_has_type (lk_flags x)), (lk_has_corder (lk_flags x)), (lk_has_charset (lk_flags x));
    rewrite !blen_app, ?blen_le; unfold blen; cbn [length]; blia.
Qed.

(* decode followed by encode is not the identity on soft links: the decoded value lacks the length field,
   so re-encoding what the parser returned produces a different (malformed) message *)
Definition soft_link_witness : linkmsg :=
  {| lk_version := 1; lk_flags := 24; lk_type := 1; lk_corder := 0; lk_charset := 0;
     lk_name := [108]; lk_value := le 2 2 ++ [47; 97] |}.
Lemma link_soft_reencode_refuted :
  wf_link 8 soft_link_witness = true /\
  match dec_link 8 (enc_link soft_link_witness) with
  | Ok y => bytes_eqb (enc_link y) (enc_link soft_link_witness) = false /\
            bytes_eqb (lk_value y) (lk_value soft_link_witness) = false
  | _ => False
  end.
Proof. vm_compute. repeat split. Qed.
