(* C13, object-header level: the version 2 object header round trip of Proofs/CodecOhdr.v (v2_loop_msgs,
   ohdr_v2_roundtrip) under a weaker condition on what follows the header in the file.  There: at least one byte
   after the header (the reader always fetches 6 bytes for a message header, and a last message with one byte of
   data is only 5 bytes long: ohdr_v2_eof_quirk).  Here [room]: one byte after the header OR the last message has
   at least two bytes of data - which is the situation of a dataset created last in a file that has not been closed
   yet (the header is the end of the file; the last message is the layout message or an attribute). *)
From HV Require Import Base.Prelude Base.Outcome Base.Bytes Model.CodecOhdr Model.Resize.
From HV Require Import Proofs.CodecOhdr.

Lemma body_v2_ge5 m r : forallb wf_msg_v2 (m :: r) = true -> 5 <= blen (body_v2 (m :: r)).
Proof.
  cbn [forallb]. intros H. apply andb_true_iff in H as [Hm _]. apply wf_msg_v2_inv in Hm as (_ & Hd & _).
  unfold body_v2. cbn [map concat]. rewrite blen_app, blen_enc_msg_v2. blia.
Qed.

Lemma v2_loop_msgs_room (ms : list hmsg) : forall (pre suf : list N) (fuel : nat) (E : N),
  forallb wf_msg_v2 ms = true ->
  Forall (fun m => blen (hm_data m) < 65536) ms ->
  room ms suf = true ->
  (length ms < fuel)%nat ->
  E + 4 = blen pre + blen (body_v2 ms) ->
  blen pre + blen (body_v2 ms) + 8 < 18446744073709551616 ->
  v2_loop fuel (pre ++ body_v2 ms ++ suf) false 4 (blen pre) E = Ok (msgs_at_v2 ms (blen pre)).
Proof.
  induction ms as [|m r IH]; intros pre suf fuel E Hwf Hlen Hsuf Hfuel HE Hsmall.
  - destruct fuel as [|fuel]; [cbn [length] in Hfuel; blia|].
    cbn [v2_loop msgs_at_v2]. unfold body_v2 in HE. cbn [map concat] in HE.
    replace (blen pre <? E) with false by (symmetry; apply N.ltb_ge; unfold blen in *; cbn [length] in *; blia).
    reflexivity.
  - destruct fuel as [|fuel]; [cbn [length] in Hfuel; blia|].
    cbn [forallb] in Hwf. apply andb_true_iff in Hwf as [Hm Hr].
    apply wf_msg_v2_inv in Hm as (Hty & Hd1 & Hnc).
    inversion Hlen as [|? ? Hd2 Hlr]; subst.
    assert (Hroom : 2 <= blen (hm_data m) + blen (body_v2 r) + blen suf /\ room r suf = true).
    { destruct r as [|m' r'].
      - cbn [room] in Hsuf. apply N.leb_le in Hsuf. split; [blia|reflexivity].
      - pose proof (body_v2_ge5 m' r' Hr). split; [blia|exact Hsuf]. }
    destruct Hroom as [Hroom Hsuf'].
    destruct m as [ty data]; cbn [hm_type hm_data] in *.
    assert (Hbody : body_v2 ({| hm_type := ty; hm_data := data |} :: r)
                    = [ty] ++ le 2 (blen data) ++ [0] ++ data ++ body_v2 r).
    { unfold body_v2. cbn [map concat]. unfold enc_msg_v2. cbn [hm_type hm_data].
      unfold wrap8, wrap16. rewrite !N.mod_small by blia. rewrite <- !app_assoc. reflexivity. }
    assert (Hbl : blen (body_v2 ({| hm_type := ty; hm_data := data |} :: r)) = 4 + blen data + blen (body_v2 r)).
    { rewrite Hbody, !blen_app, blen_le. unfold blen; cbn [length]. blia. }
    rewrite Hbl in *. rewrite Hbody.
    cbn [v2_loop msgs_at_v2]. cbn [hm_type hm_data].
    match goal with |- context [v2_loop _ ?f _ _ _ _] => set (file := f) end.
    assert (Hfl : blen file = blen pre + 4 + blen data + blen (body_v2 r) + blen suf).
    { subst file. rewrite !blen_app, blen_le. unfold blen; cbn [length]. blia. }
    assert (F1 : file = pre ++ ty :: (le 2 (blen data) ++ [0] ++ data ++ body_v2 r ++ suf))
      by (subst file; rewrite <- !app_assoc; reflexivity).
    assert (F2 : file = (pre ++ [ty]) ++ le 2 (blen data) ++ ([0] ++ data ++ body_v2 r ++ suf))
      by (subst file; rewrite <- !app_assoc; reflexivity).
    assert (F3 : file = (pre ++ [ty] ++ le 2 (blen data) ++ [0]) ++ data ++ (body_v2 r ++ suf))
      by (subst file; rewrite <- !app_assoc; reflexivity).
    assert (F4 : file = (pre ++ [ty] ++ le 2 (blen data) ++ [0] ++ data) ++ body_v2 r ++ suf)
      by (subst file; rewrite <- !app_assoc; reflexivity).
    assert (Hp : blen (pre ++ [ty] ++ le 2 (blen data) ++ [0] ++ data) = blen pre + 4 + blen data)
      by (rewrite !blen_app, blen_le; unfold blen; cbn [length]; blia).
    clearbody file. bnorm.
    replace (blen pre <? E) with true by (symmetry; apply N.ltb_lt; blia).
    unfold readable. rewrite Hfl.
    replace (blen pre + 6 <=? blen pre + 4 + blen data + blen (body_v2 r) + blen suf) with true
      by (symmetry; apply N.leb_le; blia).
    cbn [negb].
    (* type byte *)
    rewrite F1 at 1. rewrite index_app by reflexivity. cbn [obind].
    (* size *)
    rewrite F2 at 1.
    rewrite (rd_le_at (pre ++ [ty]) 2 2 (blen data)) by (auto; rewrite ?blen_app; unfold blen; cbn [length]; blia).
    cbn [obind].
    replace (blen data =? 0) with false by (symmetry; apply N.eqb_neq; blia).
    rewrite !wrap64_small by blia.
    replace (blen pre + 4 + blen data <=? blen pre + 4 + blen data + blen (body_v2 r) + blen suf) with true
      by (symmetry; apply N.leb_le; blia).
    cbn [negb].
    (* data *)
    rewrite F3 at 1.
    rewrite (slice_app' (pre ++ [ty] ++ le 2 (blen data) ++ [0]) data (body_v2 r ++ suf))
      by (rewrite ?blen_app, ?blen_le; unfold blen; cbn [length]; blia).
    cbn [obind]. rewrite Hnc.
    (* rest *)
    rewrite F4.
    rewrite <- Hp.
    pose proof (IH (pre ++ [ty] ++ le 2 (blen data) ++ [0] ++ data) suf fuel E Hr Hlr Hsuf') as Q.
    bnorm.
    rewrite Q;
      [ cbn [obind]; rewrite ?Hp; reflexivity
      | cbn [length] in Hfuel; blia
      | rewrite Hp; blia
      | rewrite Hp; blia ].
Qed.

Lemma ohdr_v2_roundtrip_room x (pre suf : list N) sbBE :
  wf_ohdr_v2 x = true -> oh_msgs x <> [] -> room (oh_msgs x) suf = true ->
  blen pre + size_ohdr_v2 x + 8 < 9223372036854775808 ->
  dec_ohdr sbBE (pre ++ enc_ohdr_v2 x ++ suf) (blen pre) = Ok (proj_ohdr_v2 sbBE x (blen pre)).
Proof.
  intros Hwf Hne Hsuf Hsmall.
  apply wf_ohdr_v2_inv in Hwf as (Hv & Hf & Hmask & Hcs & Hms).
  destruct x as [ver flags refc ms]; cbn [oh_version oh_flags oh_refcount oh_msgs] in *. subst ver.
  unfold size_ohdr_v2 in Hsmall. cbn [oh_msgs] in Hsmall.
  set (cs := chunk_size_v2 ms) in *.
  assert (Hbody : blen (body_v2 ms) = cs) by apply blen_body_v2.
  assert (Hcs5 : 5 <= cs).
  { rewrite <- Hbody. clear - Hne Hms. destruct ms as [|m0 r0]; [congruence|]. apply body_v2_ge5; exact Hms. }
  unfold enc_ohdr_v2. cbn [oh_version oh_flags oh_msgs]. fold cs.
  assert (Hw : wrap8 cs = cs) by (unfold wrap8; apply N.mod_small; blia). rewrite Hw.
  (* the byte after the 7-byte prefix exists: body ++ suf is not empty *)
  assert (ET : exists t0 T, body_v2 ms ++ suf = t0 :: T).
  { destruct ms as [|m0 r0]; [congruence|].
    pose proof (body_v2_ge5 m0 r0 Hms) as H5.
    destruct (body_v2 (m0 :: r0)) as [|b0 B]; [unfold blen in H5; cbn [length] in H5; blia|].
    cbn [app]; eauto. }
  destruct ET as (t0 & T & ET).
  match goal with |- context [dec_ohdr _ ?f _] => set (file := f) end.
  assert (F0 : file = pre ++ [79; 72; 68; 82; 2; flags; cs; t0] ++ T).
  { subst file. rewrite <- !app_assoc. cbn [app]. bnorm. rewrite ET. reflexivity. }
  assert (Hfl : blen file = blen pre + 7 + cs + blen suf).
  { subst file. rewrite !blen_app, Hbody. unfold blen; cbn [length]. blia. }
  assert (F1 : file = (pre ++ [79; 72; 68; 82; 2; flags]) ++ le 1 cs ++ (body_v2 ms ++ suf)).
  { subst file. rewrite <- !app_assoc. cbn [app le]. rewrite N.mod_small by blia. reflexivity. }
  assert (F2 : file = (pre ++ [79; 72; 68; 82; 2; flags; cs]) ++ body_v2 ms ++ suf)
    by (subst file; rewrite <- !app_assoc; reflexivity).
  assert (Hp : blen (pre ++ [79; 72; 68; 82; 2; flags; cs]) = blen pre + 6 + 1)
    by (rewrite blen_app; unfold blen; cbn [length]; blia).
  assert (Hloop : v2_loop (S (length file)) ((pre ++ [79; 72; 68; 82; 2; flags; cs]) ++ body_v2 ms ++ suf) false 4
                    (blen (pre ++ [79; 72; 68; 82; 2; flags; cs])) (blen pre + 3 + cs)
                  = Ok (msgs_at_v2 ms (blen (pre ++ [79; 72; 68; 82; 2; flags; cs])))).
  { apply v2_loop_msgs_room; auto.
    - apply chunk_bound_each. fold cs. exact Hcs.
    - assert (L : N.of_nat (length ms) <= cs).
      { clear. subst cs. induction ms as [|m r IH]; [cbn; blia|].
        cbn [length chunk_size_v2 fold_right]. fold (chunk_size_v2 r). blia. }
      unfold blen in Hfl. blia.
    - rewrite Hp, Hbody. blia.
    - rewrite Hp, Hbody. blia. }
  clearbody file. bnorm. rewrite <- F2 in Hloop.
  unfold dec_ohdr.
  replace (9223372036854775808 <=? blen pre) with false by (symmetry; apply N.leb_gt; blia).
  unfold readable at 1. rewrite Hfl.
  replace (blen pre + 8 <=? blen pre + 7 + cs + blen suf) with true by (symmetry; apply N.leb_le; blia).
  cbn [negb].
  rewrite F0 at 1.
  rewrite (slice_app' pre [79; 72; 68; 82; 2; flags; cs; t0] T) by (auto; unfold blen; cbn [length]; blia).
  cbn [obind].
  change (bytes_eqb (firstn 4 [79; 72; 68; 82; 2; flags; cs; t0]) OHDR) with true. cbv iota.
  change (index [79; 72; 68; 82; 2; flags; cs; t0] 4) with (@Ok N 2).
  change (index [79; 72; 68; 82; 2; flags; cs; t0] 5) with (@Ok N flags).
  cbn [obind]. change (2 =? 1) with false. change (2 =? 2) with true. cbv iota.
  (* parse_v2 *)
  unfold parse_v2.
  rewrite (land_bit_false flags 5 55 Hmask) by reflexivity.
  rewrite (land_bit_false flags 4 55 Hmask) by reflexivity.
  rewrite (land_bit_false flags 2 55 Hmask) by reflexivity.
  assert (H3 : N.land flags 3 = 0).
  { change 3 with (N.land 55 3). rewrite N.land_assoc, Hmask. reflexivity. }
  rewrite H3. change (N.shiftl 1 0) with 1.
  rewrite !wrap64_small by blia.
  unfold readable at 1. rewrite Hfl.
  replace (blen pre + 6 + 1 <=? blen pre + 7 + cs + blen suf) with true by (symmetry; apply N.leb_le; blia).
  cbn [negb andb].
  change (1 =? 1) with true. cbn [negb andb].
  rewrite F1 at 1.
  rewrite (rd_le_at (pre ++ [79; 72; 68; 82; 2; flags]) 1 1 cs)
    by (auto; rewrite ?blen_app; unfold blen; cbn [length]; blia).
  cbn [obind].
  rewrite !wrap64_small by blia.
  assert (Hend : sub64 (blen pre + 6 + 1 + cs) 4 = blen pre + 3 + cs).
  { unfold sub64. change (4 mod 18446744073709551616) with 4.
    replace (blen pre + 6 + 1 + cs + 18446744073709551616 - 4) with (blen pre + 3 + cs + 1 * 18446744073709551616) by blia.
    rewrite N.mod_add by blia. apply N.mod_small. blia. }
  rewrite Hend.
  rewrite <- Hp. bnorm. rewrite Hloop.
  cbn [obind]. unfold proj_ohdr_v2. cbn [oh_flags oh_msgs]. rewrite Hp.
  replace (blen pre + 6 + 1) with (blen pre + 7) by blia. reflexivity.
Qed.
