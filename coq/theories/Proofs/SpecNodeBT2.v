(* C05, node level: the writer's version 2 B-tree encoders (Model/BT2.v encode_header / encode_leaf, the transcription of
   internal/structures/btreev2_write.go encodeHeader / encodeLeafNode that C14 ties on every run) against the format
   SPECIFICATION decoders Spec/FormatNode.v spec_dec_bt2hdr / spec_dec_bt2leaf (III.A.2).

   For every header whose fields fit their widths and satisfy the specification's sanity clauses, and every leaf of
   well-formed 11-byte records, the specification decoder returns exactly the fields / records the encoder was given; the only
   departure is the checksum algorithm (CRC-32 where the specification demands lookup3: listed C05-btree2-crc32).  The strict
   decoder accepts exactly when the two algorithms happen to agree on the covered bytes.  Composed with the invariant of
   Proofs/BT2.v: this holds for the header and leaf of EVERY state reachable by a history of the write API (any rebalancing
   mode), which in addition always has type 5 and record size 11 (the fact behind C05-btree2-attr-type-5). *)
From HV Require Import Base.Prelude Base.Outcome Base.Bytes Base.Crc32 Spec.Lookup3 Spec.Parse Spec.Format Spec.FormatNode
  Proofs.SpecSuper.
From HV Require Model.BT2 Proofs.BT2.
Module MB := HV.Model.BT2.
Module PB := HV.Proofs.BT2.

(* the header fields in the specification's vocabulary *)
Definition spec_hdr (h : MB.hdr) : bt2hdr_spec :=
  {| b2_type := MB.h_type h; b2_nodesize := MB.h_node_size h; b2_recsize := MB.h_rec_size h; b2_depth := MB.h_depth h;
     b2_split := MB.h_split h; b2_merge := MB.h_merge h; b2_root := MB.h_root h; b2_nroot := MB.h_nroot h;
     b2_total := MB.h_total h |}.

(* the deviation of a checksummed v2 B-tree structure whose covered bytes are [body] *)
Definition bt2_tags (body : bytes) : list tag := if crc32 body =? hashlittle body 0 then [] else [T_btree2_crc32].

(* the specification's sanity clauses on header fields (the two guards of spec_dec_bt2hdr) *)
Definition hdr_g1 (h : MB.hdr) : bool :=
  (0 <? MB.h_split h) && (MB.h_split h <=? 100) && (MB.h_merge h <=? 100) && (0 <? MB.h_rec_size h).
Definition hdr_g2 (h : MB.hdr) : bool :=
  if MB.h_depth h =? 0 then (MB.h_total h =? MB.h_nroot h) && (10 + MB.h_nroot h * MB.h_rec_size h <=? MB.h_node_size h)
  else MB.h_nroot h <=? MB.h_total h.
Definition hdr_spec_ok (h : MB.hdr) : bool := hdr_g1 h && hdr_g2 h.

Lemma pow256_2 : 256 ^ N.of_nat 2 = 65536. Proof. reflexivity. Qed.
Lemma pow256_4 : 256 ^ N.of_nat 4 = 4294967296. Proof. reflexivity. Qed.
Lemma pow256_8 : 256 ^ N.of_nat 8 = 18446744073709551616. Proof. reflexivity. Qed.

Lemma enc_addr_le osz v : PB.osz_ok osz -> MB.enc_addr osz v = le osz v.
Proof. intros [-> | [-> | [-> | ->]]]; reflexivity. Qed.

(* ------------------------------------------------------------------ header *)
Lemma spec_bt2hdr_body tol osz h (tail : list N) :
  PB.osz_ok osz -> PB.hdr_fits osz h -> hdr_spec_ok h = true ->
  spec_dec_bt2hdr tol osz 8 (MB.hdr_body osz h ++ tail) =
    ('(stored, r) <- p_u 4 tail;;
     tg <- check_sum tol T_btree2_crc32 (MB.hdr_body osz h) stored;;
     Ok (spec_hdr h, tg, r)).
Proof.
  intros Ho (F1 & F2 & F3 & F4 & F5 & F6 & F7 & F8 & F9) Hok.
  apply andb_true_iff in Hok as [G1 G2]. unfold hdr_g1 in G1. unfold hdr_g2 in G2.
  unfold spec_dec_bt2hdr.
  assert (EQ : MB.hdr_body osz h ++ tail =
               bthd_sig ++ [0; MB.h_type h] ++ le 4 (MB.h_node_size h) ++ le 2 (MB.h_rec_size h) ++ le 2 (MB.h_depth h)
               ++ [MB.h_split h; MB.h_merge h] ++ le osz (MB.h_root h) ++ le 2 (MB.h_nroot h) ++ le 8 (MB.h_total h) ++ tail).
  { unfold MB.hdr_body. rewrite (enc_addr_le osz _ Ho). change MB.sig_hdr with bthd_sig. rewrite <- !app_assoc. reflexivity. }
  rewrite EQ at 1. rewrite p_expect_app. cbn [obind app p_byte N.eqb guard].
  rewrite p_u_le by (rewrite pow256_4; exact F2). cbn [obind].
  rewrite p_u_le by (rewrite pow256_2; exact F3). cbn [obind].
  rewrite p_u_le by (rewrite pow256_2; exact F4). cbn [obind p_byte].
  rewrite p_u_le by exact F7. cbn [obind].
  rewrite p_u_le by (rewrite pow256_2; exact F8). cbn [obind].
  rewrite p_u_le by (rewrite pow256_8; exact F9). cbn [obind].
  rewrite consumed_app.
  destruct (p_u 4 tail) as [[stored r]| |]; cbn [obind]; try reflexivity.
  destruct (check_sum tol T_btree2_crc32 (MB.hdr_body osz h) stored); cbn [obind]; try reflexivity.
  rewrite G1, G2. reflexivity.
Qed.

Theorem spec_bt2hdr tol osz s :
  PB.osz_ok osz -> PB.hdr_fits osz (MB.header s) -> hdr_spec_ok (MB.header s) = true ->
  spec_dec_bt2hdr tol osz 8 (MB.encode_header osz s) =
    (tg <- check_sum tol T_btree2_crc32 (MB.hdr_body osz (MB.header s)) (crc32 (MB.hdr_body osz (MB.header s)));;
     Ok (spec_hdr (MB.header s), tg, [])).
Proof.
  intros Ho Hf Hok. unfold MB.encode_header. cbv zeta. rewrite spec_bt2hdr_body by assumption.
  rewrite p_u_le_end by (rewrite pow256_4; apply PB.crc32_lt). reflexivity.
Qed.

Corollary spec_bt2hdr_tolerant osz s :
  PB.osz_ok osz -> PB.hdr_fits osz (MB.header s) -> hdr_spec_ok (MB.header s) = true ->
  spec_dec_bt2hdr tolerant osz 8 (MB.encode_header osz s) =
    Ok (spec_hdr (MB.header s), bt2_tags (MB.hdr_body osz (MB.header s)), []).
Proof.
  intros Ho Hf Hok. rewrite spec_bt2hdr by assumption. rewrite check_sum_of_crc. unfold bt2_tags.
  destruct (crc32 _ =? hashlittle _ 0); reflexivity.
Qed.

Corollary spec_bt2hdr_strict osz s :
  PB.osz_ok osz -> PB.hdr_fits osz (MB.header s) -> hdr_spec_ok (MB.header s) = true ->
  spec_dec_bt2hdr strict osz 8 (MB.encode_header osz s) =
    match bt2_tags (MB.hdr_body osz (MB.header s)) with [] => Ok (spec_hdr (MB.header s), [], []) | _ => Err end.
Proof.
  intros Ho Hf Hok. rewrite spec_bt2hdr by assumption. rewrite check_sum_of_crc. unfold bt2_tags.
  destruct (crc32 _ =? hashlittle _ 0); reflexivity.
Qed.

(* ------------------------------------------------------------------ leaf *)
(* the record loop of spec_dec_bt2leaf, named *)
Definition go_recs (recsize : nat) : nat -> bytes -> outcome (list bytes * bytes) :=
  fix go (k : nat) (bs : bytes) : outcome (list bytes * bytes) :=
    match k with
    | O => Ok ([], bs)
    | S k' => '(x, r) <- p_take recsize bs;; '(xs, r) <- go k' r;; Ok (x :: xs, r)
    end.

Lemma bt2leaf_unfold tol btype nrec recsize bs :
  spec_dec_bt2leaf tol btype nrec recsize bs =
    ('(_, r) <- p_expect btlf_sig bs;;
     '(v, r) <- p_byte r;; _ <- guard (v =? 0);;
     '(t, r) <- p_byte r;; _ <- guard (t =? btype);;
     '(recs, r) <- go_recs recsize nrec r;;
     let covered := consumed bs r in
     '(stored, r) <- p_u 4 r;;
     tg <- check_sum tol T_btree2_crc32 covered stored;;
     Ok (recs, tg)).
Proof. reflexivity. Qed.

Lemma go_recs_enc rs (r : list N) :
  Forall PB.rec_wf rs -> go_recs 11 (length rs) (flat_map MB.enc_rec rs ++ r) = Ok (map MB.enc_rec rs, r).
Proof.
  induction 1 as [|x rs Hx Hrs IH]; [reflexivity|].
  cbn [length flat_map map]. change (go_recs 11 (S (length rs))) with
    (fun bs => '(x, r) <- p_take 11 bs;; '(xs, r) <- go_recs 11 (length rs) r;; Ok (x :: xs, r)).
  cbv beta. rewrite <- app_assoc. rewrite p_take_app by (apply PB.enc_rec_length; exact Hx). cbn [obind].
  rewrite IH. reflexivity.
Qed.

Lemma spec_bt2leaf_body tol ty rs (tail : list N) :
  Forall PB.rec_wf rs ->
  spec_dec_bt2leaf tol ty (length rs) 11 (MB.leaf_body ty rs ++ tail) =
    ('(stored, r) <- p_u 4 tail;;
     tg <- check_sum tol T_btree2_crc32 (MB.leaf_body ty rs) stored;;
     Ok (map MB.enc_rec rs, tg)).
Proof.
  intros Hrs. rewrite bt2leaf_unfold.
  assert (EQ : MB.leaf_body ty rs ++ tail = btlf_sig ++ [0; ty] ++ flat_map MB.enc_rec rs ++ tail).
  { unfold MB.leaf_body. change MB.sig_leaf with btlf_sig. rewrite <- !app_assoc. reflexivity. }
  rewrite EQ at 1. rewrite p_expect_app. cbn [obind app p_byte]. change (0 =? 0) with true. cbn [guard obind].
  rewrite N.eqb_refl. cbn [guard obind].
  rewrite go_recs_enc by exact Hrs. cbn [obind]. cbv zeta. rewrite consumed_app. reflexivity.
Qed.

(* [rest] = the unused remainder of the node (the node is node-size bytes on disk; the decoder ignores what follows the checksum) *)
Theorem spec_bt2leaf tol s (rest : list N) :
  Forall PB.rec_wf (MB.leaf_recs s) ->
  spec_dec_bt2leaf tol (MB.leaf_type s) (length (MB.leaf_recs s)) 11 (MB.encode_leaf s ++ rest) =
    (tg <- check_sum tol T_btree2_crc32 (MB.leaf_body (MB.leaf_type s) (MB.leaf_recs s))
                     (crc32 (MB.leaf_body (MB.leaf_type s) (MB.leaf_recs s)));;
     Ok (map MB.enc_rec (MB.leaf_recs s), tg)).
Proof.
  intros Hrs. unfold MB.encode_leaf. cbv zeta. rewrite <- app_assoc. rewrite spec_bt2leaf_body by exact Hrs.
  rewrite p_u_le by (rewrite pow256_4; apply PB.crc32_lt). reflexivity.
Qed.

Corollary spec_bt2leaf_tolerant s (rest : list N) :
  Forall PB.rec_wf (MB.leaf_recs s) ->
  spec_dec_bt2leaf tolerant (MB.leaf_type s) (length (MB.leaf_recs s)) 11 (MB.encode_leaf s ++ rest) =
    Ok (map MB.enc_rec (MB.leaf_recs s), bt2_tags (MB.leaf_body (MB.leaf_type s) (MB.leaf_recs s))).
Proof.
  intros Hrs. rewrite spec_bt2leaf by exact Hrs. rewrite check_sum_of_crc. unfold bt2_tags.
  destruct (crc32 _ =? hashlittle _ 0); reflexivity.
Qed.

Corollary spec_bt2leaf_strict s (rest : list N) :
  Forall PB.rec_wf (MB.leaf_recs s) ->
  spec_dec_bt2leaf strict (MB.leaf_type s) (length (MB.leaf_recs s)) 11 (MB.encode_leaf s ++ rest) =
    match bt2_tags (MB.leaf_body (MB.leaf_type s) (MB.leaf_recs s)) with
    | [] => Ok (map MB.enc_rec (MB.leaf_recs s), []) | _ => Err end.
Proof.
  intros Hrs. rewrite spec_bt2leaf by exact Hrs. rewrite check_sum_of_crc. unfold bt2_tags.
  destruct (crc32 _ =? hashlittle _ 0); reflexivity.
Qed.

(* every record the decoder returns is the 4-byte name hash followed by the 7-byte heap id the encoder was given *)
Lemma enc_rec_fields r : MB.enc_rec r = le 4 (fst r) ++ snd r.
Proof. reflexivity. Qed.

(* ------------------------------------------------------------------ reachable states *)
(* constants NewWritableBTreeV2 puts in the header; no operation (and no reload of what the writer wrote) changes them *)
Definition hconst (s : MB.bt2) : Prop :=
  MB.h_rec_size (MB.header s) = 11 /\ MB.h_split (MB.header s) = 100 /\ MB.h_merge (MB.header s) = 40.

Lemma step_hconst c w o : PB.cfg_ok c -> MB.c_mode c = MB.MOff -> PB.winv c w ->
  (PB.is_store o = true -> MB.next w < PB.lim c) -> hconst (MB.bt w) -> hconst (MB.bt (fst (MB.step c w o))).
Proof.
  intros Hc Hm I Hb H.
  destruct o as [n v|n v|n|n|n| | | |].
  - cbn [MB.step]. unfold MB.insert_record.
    destruct (MB.find_index (MB.recs (MB.bt w)) (MB.jenkins n) 0); [exact H|].
    destruct (MB.max_records (MB.node_size (MB.bt w)) <=? N.of_nat (length (MB.recs (MB.bt w)))); exact H.
  - cbn [MB.step]. unfold MB.update_record.
    destruct (MB.find_index (MB.recs (MB.bt w)) (MB.jenkins n) 0); exact H.
  - exact H.
  - exact H.
  - cbn [MB.step]. rewrite Hm, PB.delete_off. unfold MB.remove_record.
    destruct (MB.find_index (MB.recs (MB.bt w)) (MB.jenkins n) 0); exact H.
  - rewrite PB.storeload_ok by (try assumption; apply Hb; reflexivity). exact H.
  - destruct (N.eq_dec (MB.loaded_hdr (MB.bt w)) 0) as [Z|Z]; [rewrite PB.rewrite_refused by exact Z; exact H|].
    rewrite PB.rewrite_ok by assumption. exact H.
  - destruct (N.eq_dec (MB.loaded_hdr (MB.bt w)) 0) as [Z|Z]; [rewrite PB.writeat_refused by exact Z; exact H|].
    rewrite PB.writeat_ok by exact Z. exact H.
  - rewrite PB.store_ok. exact H.
Qed.

Lemma run_from_hconst c : PB.cfg_ok c -> MB.c_mode c = MB.MOff -> forall ops w,
  PB.winv c w -> MB.next w + N.of_nat (PB.count_stores ops) * (PB.ns_of c + PB.hsz c) <= PB.lim c ->
  hconst (MB.bt w) -> hconst (MB.bt (fst (MB.run_from c w ops))).
Proof.
  intros Hc Hm. induction ops as [|o ops IH]; intros w I B H; cbn [MB.run_from]; [exact H|].
  assert (Hb : PB.is_store o = true -> MB.next w < PB.lim c).
  { intro E. cbn [PB.count_stores] in B. rewrite E in B. unfold PB.hsz, MB.hdr_size in *. lia. }
  pose proof (PB.step_winv c w o Hc Hm I Hb) as I1.
  pose proof (PB.step_next c w o Hc Hm I Hb) as N1.
  pose proof (step_hconst c w o Hc Hm I Hb H) as H1.
  destruct (MB.step c w o) as [w1 r1]. cbn [fst] in *.
  assert (B1 : MB.next w1 + N.of_nat (PB.count_stores ops) * (PB.ns_of c + PB.hsz c) <= PB.lim c).
  { rewrite N1. cbn [PB.count_stores] in B. destruct (PB.is_store o); lia. }
  specialize (IH w1 I1 B1 H1).
  destruct (MB.run_from c w1 ops) as [w2 rs2]. exact IH.
Qed.

(* after ANY history (any mode): the invariant of Proofs/BT2.v and the header constants *)
Lemma reachable_hconst c ops : PB.cfg_ok c -> PB.addr_ok c ops ->
  PB.st_wf (PB.strip_bt (MB.bt (fst (MB.run c ops)))) /\ hconst (MB.bt (fst (MB.run c ops))).
Proof.
  intros Hc Ha. split; [now apply PB.reachable_wf|].
  destruct (PB.mode_irrelevant_strip c ops) as [A _].
  assert (H : hconst (MB.bt (fst (MB.run (PB.cfg_off c) ops)))).
  { unfold MB.run. apply run_from_hconst; [exact Hc | reflexivity | apply PB.init_winv; [exact Hc | reflexivity] | |].
    - unfold MB.init. cbn [MB.next]. exact Ha.
    - unfold MB.init, PB.cfg_off. cbn [MB.c_mode MB.setup_mode MB.bt]. repeat split. }
  rewrite <- A in H. exact H.
Qed.

(* what the invariant gives the specification decoder *)
Lemma st_wf_spec osz s root : PB.st_wf s -> hconst s -> root < 256 ^ N.of_nat osz ->
  PB.hdr_fits osz (MB.header (MB.with_root s root)) /\ hdr_spec_ok (MB.header (MB.with_root s root)) = true /\
  Forall PB.rec_wf (MB.leaf_recs s) /\ MB.leaf_type s = 5 /\
  MB.h_type (MB.header s) = 5 /\ MB.h_rec_size (MB.header s) = 11 /\ MB.h_depth (MB.header s) = 0 /\
  MB.h_nroot (MB.header s) = N.of_nat (length (MB.leaf_recs s)) /\ MB.h_total (MB.header s) = N.of_nat (length (MB.leaf_recs s)).
Proof.
  intros (W1 & W2 & W3 & W4 & W5 & W6 & W7 & W8 & W9 & W10 & W11 & W12 & W13) (K1 & K2 & K3) Hroot.
  pose proof W3 as (C1 & C2 & C3).
  cbn [MB.with_root MB.header].
  split; [|split; [|rewrite W11; repeat split; assumption]].
  - unfold PB.hdr_fits, MB.set_root.
    cbn [MB.h_type MB.h_node_size MB.h_rec_size MB.h_depth MB.h_split MB.h_merge MB.h_root MB.h_nroot MB.h_total].
    rewrite W1, W2, W5, W8, W9. repeat split; try assumption; lia.
  - unfold hdr_spec_ok, hdr_g1, hdr_g2, MB.set_root.
    cbn [MB.h_type MB.h_node_size MB.h_rec_size MB.h_depth MB.h_split MB.h_merge MB.h_root MB.h_nroot MB.h_total].
    rewrite K1, K2, K3, W2, W5, W8, W9. change (0 =? 0) with true. cbv iota. rewrite N.eqb_refl.
    rewrite (PB.max_records_eq _ C1 C2) in W10.
    replace (10 + N.of_nat (length (MB.recs s)) * 11 <=? MB.node_size s) with true; [reflexivity|].
    symmetry. apply N.leb_le. lia.
Qed.

(* After ANY history of the write API (any rebalancing mode, addresses within the offset size): the header the writer
   encodes for the state (with any root address that fits) and its leaf are accepted by the tolerant specification decoder,
   which returns the state's fields / records and the tag set bt2_tags; the strict decoder accepts iff that set is empty. *)
Theorem spec_bt2_reachable c ops root (rest : list N) :
  PB.cfg_ok c -> PB.addr_ok c ops -> root < 256 ^ N.of_nat (MB.c_osz c) ->
  let s := MB.bt (fst (MB.run c ops)) in
  let h := MB.header (MB.with_root s root) in
  spec_dec_bt2hdr tolerant (MB.c_osz c) 8 (MB.encode_header (MB.c_osz c) (MB.with_root s root)) =
    Ok (spec_hdr h, bt2_tags (MB.hdr_body (MB.c_osz c) h), []) /\
  spec_dec_bt2hdr strict (MB.c_osz c) 8 (MB.encode_header (MB.c_osz c) (MB.with_root s root)) =
    match bt2_tags (MB.hdr_body (MB.c_osz c) h) with [] => Ok (spec_hdr h, [], []) | _ => Err end /\
  spec_dec_bt2leaf tolerant 5 (length (MB.leaf_recs s)) 11 (MB.encode_leaf s ++ rest) =
    Ok (map MB.enc_rec (MB.leaf_recs s), bt2_tags (MB.leaf_body 5 (MB.leaf_recs s))) /\
  spec_dec_bt2leaf strict 5 (length (MB.leaf_recs s)) 11 (MB.encode_leaf s ++ rest) =
    match bt2_tags (MB.leaf_body 5 (MB.leaf_recs s)) with [] => Ok (map MB.enc_rec (MB.leaf_recs s), []) | _ => Err end /\
  b2_type (spec_hdr h) = 5 /\ b2_recsize (spec_hdr h) = 11 /\ b2_depth (spec_hdr h) = 0 /\
  b2_root (spec_hdr h) = root /\
  b2_nroot (spec_hdr h) = N.of_nat (length (MB.leaf_recs s)) /\ b2_total (spec_hdr h) = N.of_nat (length (MB.leaf_recs s)).
Proof.
  intros Hc Ha Hroot s h.
  destruct (reachable_hconst c ops Hc Ha) as (W & K). fold s in W, K.
  destruct Hc as [Ho Hcap].
  destruct (st_wf_spec (MB.c_osz c) (PB.strip_bt s) root W K Hroot) as (Hf & Hok & Hrs & Hty & T1 & T2 & T3 & T4 & T5).
  change (MB.header (MB.with_root (PB.strip_bt s) root)) with h in Hf, Hok.
  change (MB.leaf_recs (PB.strip_bt s)) with (MB.leaf_recs s) in *.
  change (MB.leaf_type (PB.strip_bt s)) with (MB.leaf_type s) in Hty.
  change (MB.header (PB.strip_bt s)) with (MB.header s) in *.
  split; [|split; [|split; [|split]]].
  - now apply spec_bt2hdr_tolerant.
  - now apply spec_bt2hdr_strict.
  - rewrite <- Hty. now apply spec_bt2leaf_tolerant.
  - rewrite <- Hty. now apply spec_bt2leaf_strict.
  - subst h. cbn [MB.with_root MB.header spec_hdr MB.set_root b2_type b2_recsize b2_depth b2_root b2_nroot b2_total
                  MB.h_type MB.h_rec_size MB.h_depth MB.h_root MB.h_nroot MB.h_total].
    repeat split; assumption.
Qed.

(* ------------------------------------------------------------------ the bytes on disk *)
(* WriteToFile from any state of the invariant: what ReadAt returns at the header address / the root node address recorded in
   the header are exactly the encodings of the state, so the file's bytes decode under the specification decoder *)
Lemma store_on_disk c w : PB.cfg_ok c -> PB.winv c w ->
  let w1 := fst (MB.step c w MB.OStore) in
  MB.read_at (MB.fil w1) (MB.next w + MB.node_size (MB.bt w)) (MB.hdr_size (MB.c_osz c))
    = Some (MB.encode_header (MB.c_osz c) (MB.bt w1)) /\
  MB.read_at (MB.fil w1) (MB.h_root (MB.header (MB.bt w1))) (length (MB.encode_leaf (MB.bt w1)))
    = Some (MB.encode_leaf (MB.bt w1)) /\
  MB.bt w1 = MB.with_root (MB.bt w) (MB.next w).
Proof.
  intros [Ho Hcap] I. pose proof I as (W & Hn & _).
  pose proof W as (W1 & W2 & W3 & W4 & W5 & W6 & W7 & W8 & W9 & W10 & W11 & W12 & W13).
  rewrite PB.store_ok. cbn [fst MB.fil MB.bt].
  split; [|split; [|reflexivity]].
  - rewrite <- (PB.encode_header_length (MB.c_osz c) (MB.with_root (MB.bt w) (MB.next w)) Ho).
    apply PB.read_write_same.
  - change (MB.encode_leaf (MB.with_root (MB.bt w) (MB.next w))) with (MB.encode_leaf (MB.bt w)).
    change (MB.h_root (MB.header (MB.with_root (MB.bt w) (MB.next w)))) with (MB.next w).
    assert (Hll : length (MB.encode_leaf (MB.bt w)) = (4 + 1 + 1 + length (MB.recs (MB.bt w)) * 11 + 4)%nat).
    { rewrite PB.encode_leaf_length; rewrite W11; [reflexivity | exact W13]. }
    pose proof (PB.cap_fits _ _ W3 W10) as Hfit.
    rewrite PB.read_write_below.
    + pose proof (PB.read_write_same (MB.fil w) (MB.next w) (MB.encode_leaf (MB.bt w))) as R.
      apply PB.read_at_some in R. rewrite <- R. reflexivity.
    + rewrite Hll. lia.
    + rewrite PB.write_at_length. lia.
Qed.

Theorem spec_bt2_on_disk c w (root_rest : list N) : PB.cfg_ok c -> PB.winv c w -> hconst (MB.bt w) -> MB.next w < PB.lim c ->
  let w1 := fst (MB.step c w MB.OStore) in
  let s := MB.bt w1 in
  exists hb lb,
    MB.read_at (MB.fil w1) (MB.next w + MB.node_size (MB.bt w)) (MB.hdr_size (MB.c_osz c)) = Some hb /\
    spec_dec_bt2hdr tolerant (MB.c_osz c) 8 hb =
      Ok (spec_hdr (MB.header s), bt2_tags (MB.hdr_body (MB.c_osz c) (MB.header s)), []) /\
    MB.read_at (MB.fil w1) (b2_root (spec_hdr (MB.header s))) (length (MB.encode_leaf s)) = Some lb /\
    spec_dec_bt2leaf tolerant (b2_type (spec_hdr (MB.header s))) (N.to_nat (b2_nroot (spec_hdr (MB.header s)))) 11 lb =
      Ok (map MB.enc_rec (MB.leaf_recs s), bt2_tags (MB.leaf_body 5 (MB.leaf_recs s))).
Proof.
  intros Hc I K Hlim w1 s.
  destruct (store_on_disk c w Hc I) as (R1 & R2 & Es). fold w1 in R1, R2, Es. fold s in R1, R2, Es.
  destruct I as (W & _). destruct Hc as [Ho Hcap].
  destruct (st_wf_spec (MB.c_osz c) (MB.bt w) (MB.next w) W K Hlim) as (Hf & Hok & Hrs & Hty & T1 & T2 & T3 & T4 & T5).
  rewrite <- Es in Hf, Hok.
  assert (Hlr : MB.leaf_recs s = MB.leaf_recs (MB.bt w)) by (rewrite Es; reflexivity).
  assert (Hlt : MB.leaf_type s = 5) by (rewrite Es; exact Hty).
  exists (MB.encode_header (MB.c_osz c) s), (MB.encode_leaf s).
  split; [exact R1|]. split; [now apply spec_bt2hdr_tolerant|]. split; [exact R2|].
  assert (Hty' : b2_type (spec_hdr (MB.header s)) = 5) by (rewrite Es; exact T1).
  assert (Hn' : N.to_nat (b2_nroot (spec_hdr (MB.header s))) = length (MB.leaf_recs s)).
  { rewrite Es. cbn [spec_hdr b2_nroot MB.with_root MB.header MB.set_root MB.h_nroot MB.leaf_recs]. rewrite T4. apply Nat2N.id. }
  rewrite Hty', Hn', <- Hlt, <- (app_nil_r (MB.encode_leaf s)).
  apply spec_bt2leaf_tolerant. rewrite Hlr. exact Hrs.
Qed.

(* ------------------------------------------------------------------ witnesses: the hypotheses are satisfiable, the tags occur *)
Definition ex_cfg : MB.cfg := MB.mkCfg MB.MOff 8 512.
Definition ex_ops : list MB.op := [MB.OInsert [97; 98] 5; MB.OInsert [99] 7].
Definition ex_bt : MB.bt2 := MB.bt (fst (MB.run ex_cfg ex_ops)).

Lemma ex_cfg_ok : PB.cfg_ok ex_cfg /\ PB.addr_ok ex_cfg ex_ops.
Proof.
  split; [split|].
  - right. right. right. reflexivity.
  - unfold PB.cap_ok. vm_compute. repeat split; intro; discriminate.
  - unfold PB.addr_ok. vm_compute. intro; discriminate.
Qed.

(* C05-btree2-crc32, refuted on a concrete reachable tree: strict rejects header and leaf, tolerant reports exactly that tag *)
Lemma bt2_crc32_refuted :
  length (MB.leaf_recs ex_bt) = 2%nat /\
  spec_dec_bt2hdr strict 8 8 (MB.encode_header 8 (MB.with_root ex_bt 64)) = Err /\
  snd (fst (match spec_dec_bt2hdr tolerant 8 8 (MB.encode_header 8 (MB.with_root ex_bt 64)) with
            | Ok x => x | _ => (spec_hdr (MB.header ex_bt), [], []) end)) = [T_btree2_crc32] /\
  spec_dec_bt2leaf strict 5 2 11 (MB.encode_leaf ex_bt) = Err /\
  spec_dec_bt2leaf tolerant 5 2 11 (MB.encode_leaf ex_bt) = Ok (map MB.enc_rec (MB.leaf_recs ex_bt), [T_btree2_crc32]).
Proof. vm_compute. repeat split. Qed.
