(* C05: smallest witnesses, by evaluation, for the encoders whose general theorem is not (yet) proved for all inputs, and the
   refutations of the two deviations this development found that KNOWN_FINDINGS.json does not list. *)
From HV Require Import Base.Prelude Base.Outcome Base.Bytes Spec.Lookup3 Spec.Parse Spec.Format Spec.FormatMsg
  Model.CodecMsg Model.CodecType Model.CodecLink Model.CodecAttr Model.CodecFilter Model.CodecCompound Model.CodecOhdr.

Definition tags_of {A} (o : outcome (A * list tag)) : option (list N) :=
  match o with Ok (_, tg) => Some (map tag_code tg) | _ => None end.

(* ---- filter pipeline: version byte 2 with the version-1 layout ---- *)
Definition gzip6 : wfilter := {| wf_id := 1; wf_name := ascii_bytes "deflate"; wf_flags := 0; wf_cd := [6] |}.
Lemma pipeline_v2_with_v1_layout_refuted :
  wf_pipeline [gzip6] = true /\
  spec_dec_pipeline strict false (enc_pipeline [gzip6]) = Err /\
  spec_dec_pipeline tolerant false (enc_pipeline [gzip6]) =
    Ok ([{| fl_id := 1; fl_flags := 0; fl_name := ascii_bytes "deflate"; fl_cd := [6] |}], [T_pipeline_v2_with_v1_layout]).
Proof. repeat split; vm_compute; reflexivity. Qed.

(* ---- links: hard and soft links conform; the external link value layout deviates ---- *)
Definition hard_link : linkmsg :=
  {| lk_version := 1; lk_flags := 0; lk_type := 0; lk_corder := 0; lk_charset := 0; lk_name := ascii_bytes "d0"; lk_value := le 8 4096 |}.
Definition soft_link : linkmsg :=
  {| lk_version := 1; lk_flags := 8; lk_type := 1; lk_corder := 0; lk_charset := 0; lk_name := ascii_bytes "s";
     lk_value := le 2 2 ++ ascii_bytes "/a" |}.
Definition ext_link : linkmsg :=
  {| lk_version := 1; lk_flags := 8; lk_type := 64; lk_corder := 0; lk_charset := 0; lk_name := ascii_bytes "e";
     lk_value := le 2 4 ++ ascii_bytes "f.h5" ++ le 2 2 ++ ascii_bytes "/x" |}.
Lemma link_hard_soft_conform :
  wf_link 8 hard_link = true /\ wf_link 8 soft_link = true /\
  spec_dec_link strict 8 false (enc_link hard_link) =
    Ok ({| ls_flags := 0; ls_corder := None; ls_cset := 0; ls_name := ascii_bytes "d0"; ls_value := LHard 4096 |}, []) /\
  spec_dec_link strict 8 false (enc_link soft_link) =
    Ok ({| ls_flags := 8; ls_corder := None; ls_cset := 0; ls_name := ascii_bytes "s"; ls_value := LSoft (ascii_bytes "/a") |}, []).
Proof. repeat split; vm_compute; reflexivity. Qed.
Lemma extlink_value_layout_refuted :
  wf_link 8 ext_link = true /\
  spec_dec_link strict 8 false (enc_link ext_link) = Err /\
  spec_dec_link tolerant 8 false (enc_link ext_link) =
    Ok ({| ls_flags := 8; ls_corder := None; ls_cset := 0; ls_name := ascii_bytes "e";
           ls_value := LExternal (ascii_bytes "f.h5") (ascii_bytes "/x") |}, [T_extlink_value_layout]).
Proof. repeat split; vm_compute; reflexivity. Qed.

(* ---- attribute (version 3): conformant framing; the deviations are those of the datatype inside ---- *)
Definition int32_t : datatype := {| dt_class := DT_FIXED; dt_version := 1; dt_size := 4; dt_cbf := 8; dt_props := [] |}.
Definition ref_t : datatype := {| dt_class := DT_REFERENCE; dt_version := 1; dt_size := 8; dt_cbf := 0; dt_props := [] |}.
Definition attr_int : attribute :=
  {| at_name := ascii_bytes "a"; at_dt := int32_t; at_ds := {| ds_dims := [2]; ds_maxdims := [] |}; at_data := le 4 7 ++ le 4 9 |}.
Definition attr_ref : attribute :=
  {| at_name := ascii_bytes "r"; at_dt := ref_t; at_ds := {| ds_dims := [1]; ds_maxdims := [] |}; at_data := le 8 800 |}.
Lemma attribute_v3_framing :
  wf_attribute attr_int = true /\ wf_attribute attr_ref = true /\
  tags_of (spec_dec_attribute strict 8 false (enc_attribute attr_ref)) = Some [] /\
  spec_dec_attribute strict 8 false (enc_attribute attr_int) = Err /\
  tags_of (spec_dec_attribute tolerant 8 false (enc_attribute attr_int)) = Some [tag_code T_fixed_props_malformed].
Proof. repeat split; vm_compute; reflexivity. Qed.

(* ---- NOT LISTED: version 3 compound datatypes.  The specification (IV.A.2.d, class 6): class bits 0-15 hold the number of members
        (all versions); version 3: "Byte Offset of Member: ... the field size is the minimum number of bytes necessary, based on
        the size of the datatype element" - 1 byte for the 12-byte compound {int32 x; char s[8]}.  The writer stores class bits 0,
        a 4-byte member count as the first property bytes, and 4-byte offsets. ---- *)
Lemma compound_v3_layout_refuted :
  encok_compound compound_ok_example = true /\
  spec_dec_datatype strict false (enc_compound compound_ok_example) = Err /\
  tags_of (spec_dec_datatype tolerant false (enc_compound compound_ok_example)) =
    Some (map tag_code [T_compound_v3_layout; T_fixed_props_malformed; T_string_extra_prop_byte]).
Proof. repeat split; vm_compute; reflexivity. Qed.

(* with version 1 (fixed 4-byte offsets) the member layout is the specification's; what remains are the listed deviations of the
   member types *)
Definition compound_v1_example : compound :=
  {| cp_version := 1; cp_size := 4; cp_fields := [ {| fd_name := [120]; fd_offset := 0; fd_type := dt_int32 |} ] |}.
Lemma compound_v1_members_conform :
  tags_of (spec_dec_datatype tolerant false (enc_compound compound_v1_example)) = Some [tag_code T_fixed_props_malformed].
Proof. vm_compute. reflexivity. Qed.

(* ---- NOT LISTED: version 3 enumerations are written as (name padded to a multiple of 8 bytes, value) pairs; the specification
        stores all names (version 3: unpadded) followed by all values ---- *)
Definition enum_example : enumdt :=
  {| en_base := enc_datatype int32_t; en_names := [ascii_bytes "A"; ascii_bytes "B"]; en_values := le 4 0 ++ le 4 1; en_size := 4 |}.
Lemma enum_v3_layout_refuted :
  wf_enum enum_example = true /\
  spec_dec_datatype strict false (enc_enum enum_example) = Err /\
  tags_of (spec_dec_datatype tolerant false (enc_enum enum_example)) =
    Some (map tag_code [T_fixed_props_malformed; T_enum_v3_layout]).
Proof. repeat split; vm_compute; reflexivity. Qed.

(* ---- array (version 3): conformant ---- *)
Definition array_example : arraydt := {| ar_base := enc_datatype ref_t; ar_dims := [3; 2]; ar_size := 48 |}.
Lemma array_v3_conforms :
  wf_array array_example = true /\
  spec_dec_datatype strict false (enc_array array_example) = Ok (DArray 3 48 [3; 2] (DReference 1 8 0), []).
Proof. split; vm_compute; reflexivity. Qed.

(* ---- variable-length (repaired header, /repo 71914eb): conformant framing around the base type ---- *)
Definition vlen_str : datatype :=
  {| dt_class := DT_VLEN; dt_version := 1; dt_size := 16; dt_cbf := 1;
     dt_props := enc_datatype {| dt_class := DT_STRING; dt_version := 1; dt_size := 1; dt_cbf := 0; dt_props := [] |} |}.
Lemma vlen_string_framing :
  wf_vlen vlen_str = true /\
  spec_dec_datatype strict false (enc_datatype vlen_str) = Err /\
  spec_dec_datatype tolerant false (enc_datatype vlen_str) = Ok (DVlen 1 16 1 0 0 (DString 1 1 0 0), [T_string_extra_prop_byte]).
Proof. repeat split; vm_compute; reflexivity. Qed.

(* ---- version 1 object header: conformant when every message body is a multiple of 8 bytes long (the only version 1 header the
        writer produces is the root group's: one 16-byte symbol table message); otherwise the size field holds the unpadded length,
        which the specification forbids ---- *)
Definition ohdr1_root : ohdr :=
  {| oh_version := 1; oh_flags := 0; oh_refcount := 1; oh_msgs := [ {| hm_type := 17; hm_data := le 8 136 ++ le 8 680 |} ] |}.
Definition ohdr1_unaligned : ohdr :=
  {| oh_version := 1; oh_flags := 0; oh_refcount := 1; oh_msgs := [ {| hm_type := 3; hm_data := enc_datatype int32_t |} ] |}.
Lemma ohdr1_root_conforms :
  wf_ohdr_v1 ohdr1_root = true /\
  spec_dec_ohdr1 (enc_ohdr_v1 ohdr1_root) =
    Ok ({| o1_nmsgs := 1; o1_refcount := 1; o1_size := 24;
           o1_msgs := [ {| ms_type := 17; ms_flags := 0; ms_corder := None; ms_data := le 8 136 ++ le 8 680 |} ] |}, []).
Proof. split; vm_compute; reflexivity. Qed.
Lemma ohdr1_unpadded_size_refuted :
  wf_ohdr_v1 ohdr1_unaligned = true /\ spec_dec_ohdr1 (enc_ohdr_v1 ohdr1_unaligned) = Err.
Proof. split; vm_compute; reflexivity. Qed.
