(* C11 / C03: the local heap at byte level (Model/GroupWire.v).
     1. size: WriteTo emits 32 + DataSegmentSize bytes;
     2. round trip: LoadLocalHeap on ANY file that holds the image at its address returns the padded data segment;
        GetString returns every stored name; GetString of the byte-level reader = get_string of Model/GroupNS.v on all inputs;
     3. abstraction to Model/GroupNS.v: add_string / write_to / prepare_for_modification commute with the projection, and the
        FILE-level step of linkToParent (load, prepare, AddString, WriteTo at the same address) rewrites exactly the heap image:
        the new file holds the image of GroupNS's new segment, everything around it is untouched. *)
From HV Require Import Base.Prelude Base.Outcome Base.Bytes Model.RobustAlloc Model.RobustGroup Model.GroupWire.
From HV Require Model.GroupNS Model.ChunkIndex.
Module NS := HV.Model.GroupNS.

Local Open Scope N_scope.

(* ------------------------------------------------------------------ reading a file that holds [mid] at [blen pre] *)
Lemma MaxInt64_val : MaxInt64 = 9223372036854775807. Proof. reflexivity. Qed.

Lemma read_at_app (pre mid suf : list N) a n :
  a = blen pre -> n = blen mid -> a + n <= MaxInt64 -> read_at (pre ++ mid ++ suf) a n = Ok mid.
Proof.
  intros -> -> H. unfold read_at. rewrite !blen_app.
  replace (MaxInt64 <? blen pre) with false by (symmetry; apply N.ltb_ge; blia).
  replace (blen pre + (blen mid + blen suf) <? blen pre + blen mid) with false by (symmetry; apply N.ltb_ge; blia).
  cbn [orb]. apply slice_app.
Qed.

Lemma read_bytes_at_app (pre mid suf : list N) a n :
  a = blen pre -> n = blen mid -> a + n <= MaxInt64 -> fst (read_bytes_at (pre ++ mid ++ suf) a n) = Ok mid.
Proof.
  intros -> -> H. unfold read_bytes_at. destruct (blen mid =? 0) eqn:E.
  - apply N.eqb_eq in E. destruct mid; [reflexivity|]. rewrite blen_cons in E. blia.
  - apply N.eqb_neq in E. rewrite MaxInt64_val in H.
    assert (W : wrap64 (blen pre + blen mid) = blen pre + blen mid) by (unfold wrap64; apply N.mod_small; blia).
    rewrite W.
    replace (blen pre + blen mid <? blen pre) with false by (symmetry; apply N.ltb_ge; blia).
    replace (MaxInt64 <? blen pre + blen mid) with false by (symmetry; apply N.ltb_ge; rewrite MaxInt64_val; blia).
    cbn [orb]. rewrite !blen_app.
    replace (blen pre + (blen mid + blen suf) <=? blen pre + blen mid - 1) with false by (symmetry; apply N.leb_gt; blia).
    cbn [fst]. rewrite slice_app. reflexivity.
Qed.

(* ------------------------------------------------------------------ 1. sizes *)
Definition padded (h : wheap) : bytes :=
  if blen (hw_strings h) <? hw_dss h then hw_strings h ++ zeros (N.to_nat (hw_dss h - blen (hw_strings h))) else hw_strings h.

Lemma heap_write_to_seg h a : snd (heap_write_to h a) = padded h.
Proof. reflexivity. Qed.

Lemma blen_padded h : blen (hw_strings h) <= hw_dss h -> blen (padded h) = hw_dss h.
Proof.
  intros H. unfold padded. destruct (blen (hw_strings h) <? hw_dss h) eqn:E.
  - rewrite blen_app, blen_zeros. blia.
  - apply N.ltb_ge in E. blia.
Qed.

Lemma blen_heap_header d f a : blen (heap_header d f a) = 32.
Proof. reflexivity. Qed.

Lemma heap_image_eq h a : heap_image h a = heap_header (hw_dss h) (hw_free h) (wrap64 (a + 32)) ++ padded h.
Proof. reflexivity. Qed.

(* length (enc x) = size formula: LocalHeap.Size, the 32 + segment of Model/Store.v *)
Lemma heap_image_size h a : blen (hw_strings h) <= hw_dss h -> blen (heap_image h a) = heap_size h.
Proof. intros H. rewrite heap_image_eq, blen_app, blen_heap_header, blen_padded by exact H. reflexivity. Qed.

(* ------------------------------------------------------------------ 2. round trip *)
Lemma P8 : 256 ^ N.of_nat 8 = 18446744073709551616. Proof. reflexivity. Qed.

(* the header fields come back, whatever follows the 32 bytes *)
Lemma load_header_fields dss fr da (rest : list N) :
  dss < 18446744073709551616 -> da < 18446744073709551616 ->
  let hb := heap_header dss fr da in
  bytes_eqb (firstn 4 hb) sigHEAP = true /\ rd_field hb 8 8 = Ok dss /\ rd_field hb (8 + 2 * 8) 8 = Ok da.
Proof.
  intros Hd Ha hb. split; [reflexivity|]. unfold rd_field. change ((8 =? 2) || (8 =? 4) || (8 =? 8)) with true. cbv iota.
  unfold hb, heap_header. split.
  - change (sigHEAP ++ [0] ++ [0; 0; 0] ++ le 8 dss ++ le 8 fr ++ le 8 da)
      with ((sigHEAP ++ [0; 0; 0; 0]) ++ le 8 dss ++ (le 8 fr ++ le 8 da)).
    apply rd_le_at; [reflexivity | reflexivity | exact Hd].
  - replace (sigHEAP ++ [0] ++ [0; 0; 0] ++ le 8 dss ++ le 8 fr ++ le 8 da)
      with ((sigHEAP ++ [0; 0; 0; 0] ++ le 8 dss ++ le 8 fr) ++ le 8 da ++ []).
    + apply rd_le_at; [|reflexivity | exact Ha].
      rewrite !blen_app, !blen_le. reflexivity.
    + rewrite app_nil_r. cbn [app sigHEAP]. rewrite <- !app_assoc. reflexivity.
Qed.

(* a file that holds a heap: header (free-list field [fr]) at [blen pre], the segment [seg] right behind it *)
Definition heap_file (pre suf : bytes) (fr : N) (seg : bytes) : bytes :=
  pre ++ heap_header (blen seg) fr (blen pre + 32) ++ seg ++ suf.

Lemma load_heap_file pre suf fr seg :
  blen pre + 32 + blen seg <= MaxInt64 -> load_local_heap (heap_file pre suf fr seg) (blen pre) 8 8 = Ok seg.
Proof.
  intros H. rewrite MaxInt64_val in H. unfold load_local_heap, heap_file.
  change (8 + 2 * 8 + 8) with 32.
  rewrite read_at_app with (mid := heap_header (blen seg) fr (blen pre + 32)); try reflexivity; [|rewrite MaxInt64_val; blia].
  cbn [obind].
  destruct (load_header_fields (blen seg) fr (blen pre + 32) []) as (E1 & E2 & E3); [blia | blia |].
  rewrite E1. cbn [negb]. rewrite E2. cbn [obind]. rewrite E3. cbn [obind].
  rewrite app_assoc.
  apply read_bytes_at_app; [rewrite blen_app, blen_heap_header; reflexivity | reflexivity | rewrite MaxInt64_val; blia].
Qed.

(* reader (writer x) = Ok x: for EVERY heap object whose strings fit its segment, every address, every surrounding file *)
Lemma load_heap_image h pre suf :
  blen (hw_strings h) <= hw_dss h -> blen pre + 32 + hw_dss h <= MaxInt64 ->
  load_local_heap (pre ++ heap_image h (blen pre) ++ suf) (blen pre) 8 8 = Ok (padded h).
Proof.
  intros Hs H. rewrite heap_image_eq, <- app_assoc.
  assert (W : wrap64 (blen pre + 32) = blen pre + 32)
    by (unfold wrap64; apply N.mod_small; rewrite MaxInt64_val in H; blia).
  rewrite W. rewrite <- (blen_padded h Hs) at 1.
  apply (load_heap_file pre suf (hw_free h) (padded h)). rewrite blen_padded by exact Hs. exact H.
Qed.

(* ---- GetString *)
Definition nonul (s : bytes) : bool := forallb (fun b => negb (b =? 0)) s.

Lemma find0_aux_nonul (s : list N) pos : nonul s = true -> find0_aux s pos = pos + blen s.
Proof.
  revert pos. induction s as [|b r IH]; intros pos H; cbn [find0_aux].
  - rewrite blen_nil. blia.
  - cbn [nonul forallb] in H. apply andb_true_iff in H as [Hb Hr]. destruct (b =? 0); [discriminate|].
    rewrite IH by exact Hr. rewrite blen_cons. blia.
Qed.

Lemma get_string_at (pre nm suf : list N) :
  nonul nm = true -> get_string (pre ++ nm ++ 0 :: suf) (blen pre) = Ok nm.
Proof.
  intros H. unfold get_string, heap_get_string. rewrite find0_app by (auto; reflexivity).
  rewrite !blen_app, blen_cons.
  replace (blen pre + (blen nm + (1 + blen suf)) <=? blen pre) with false by (symmetry; apply N.leb_gt; blia).
  replace (blen pre + (blen nm + (1 + blen suf)) <=? blen pre + blen nm) with false by (symmetry; apply N.leb_gt; blia).
  apply slice_app.
Qed.

(* the strings buffer after adding the names [ns] in order, and the offsets AddString returned *)
Definition enc_names (ns : list bytes) : bytes := flat_map (fun n => n ++ [0]) ns.
Fixpoint name_offs (base : N) (ns : list bytes) : list N :=
  match ns with [] => [] | n :: r => base :: name_offs (base + blen n + 1) r end.

Lemma get_strings_gen (ns : list bytes) : forall (pre rest : list N),
  Forall (fun n => nonul n = true) ns ->
  map (get_string (pre ++ enc_names ns ++ rest)) (name_offs (blen pre) ns) = map Ok ns.
Proof.
  induction ns as [|n ns IH]; intros pre rest H; [reflexivity|].
  apply Forall_cons_iff in H as [Hn Hr]. cbn [enc_names flat_map name_offs map]. fold (enc_names ns). f_equal.
  - rewrite <- !app_assoc. cbn [app]. apply get_string_at. exact Hn.
  - specialize (IH (pre ++ n ++ [0]) rest Hr).
    rewrite !blen_app, blen_cons, blen_nil in IH.
    replace (blen pre + (blen n + (1 + 0))) with (blen pre + blen n + 1) in IH by blia.
    rewrite <- IH. rewrite <- !app_assoc. reflexivity.
Qed.

(* every name added to a heap is read back from the data segment at the offset AddString returned *)
Lemma get_strings_enc ns (rest : list N) :
  Forall (fun n => nonul n = true) ns -> map (get_string (enc_names ns ++ rest)) (name_offs 0 ns) = map Ok ns.
Proof. intros H. exact (get_strings_gen ns [] rest H). Qed.

(* ---- the byte-level GetString (C07's heap_get_string) and the abstract get_string of Model/GroupNS.v agree everywhere *)
Definition of_option {A} (o : option A) : outcome A := match o with Some a => Ok a | None => Err end.

Lemma get_string_from_spec (d : list N) :
  match NS.get_string_from d with
  | Some s => exists r, d = s ++ 0 :: r /\ nonul s = true
  | None => nonul d = true
  end.
Proof.
  induction d as [|b r IH]; cbn [NS.get_string_from]; [reflexivity|].
  destruct (b =? 0) eqn:E.
  - apply N.eqb_eq in E. subst b. exists r. split; reflexivity.
  - destruct (NS.get_string_from r) as [s|]; cbn [option_map].
    + destruct IH as (r' & -> & Hs). exists r'. split; [reflexivity|]. cbn [nonul forallb]. rewrite E. exact Hs.
    + cbn [nonul forallb]. rewrite E. exact IH.
Qed.

Lemma get_string_split (p q : list N) : get_string (p ++ q) (blen p) = of_option (NS.get_string_from q).
Proof.
  pose proof (get_string_from_spec q) as S.
  destruct (NS.get_string_from q) as [s|]; cbn [of_option].
  - destruct S as (r & -> & Hs). apply get_string_at. exact Hs.
  - unfold get_string, heap_get_string. rewrite blen_app.
    destruct (blen p + blen q <=? blen p) eqn:E; [reflexivity|].
    unfold find0. unfold blen at 3. rewrite Nat2N.id.
    replace (length p) with (length p + 0)%nat at 1 by blia.
    rewrite skipn_app, skipn_all2 by blia.
    replace (length p + 0 - length p)%nat with 0%nat by blia. cbn [skipn app].
    rewrite find0_aux_nonul by exact S.
    replace (blen p + blen q <=? blen p + blen q) with true by (symmetry; apply N.leb_le; blia).
    reflexivity.
Qed.

Lemma get_string_agrees (data : list N) off : get_string data off = of_option (NS.get_string data off).
Proof.
  unfold NS.get_string. change (NS.blen data) with (blen data).
  destruct (blen data <=? off) eqn:E.
  - unfold get_string, heap_get_string. rewrite E. reflexivity.
  - apply N.leb_gt in E.
    assert (Hp : blen (firstn (N.to_nat off) data) = off).
    { unfold blen in *. rewrite firstn_length. blia. }
    set (p := firstn (N.to_nat off) data) in *. set (q := skipn (N.to_nat off) data).
    assert (Hd : data = p ++ q) by (symmetry; apply firstn_skipn).
    clearbody p q. subst data off.
    bnorm.
    replace (skipn (N.to_nat (blen p)) (p ++ q)) with q; [apply get_string_split|].
    unfold blen. rewrite Nat2N.id, skipn_app, skipn_all, Nat.sub_diag. reflexivity.
Qed.

(* ------------------------------------------------------------------ 3. abstraction to Model/GroupNS.v *)
Definition abs_heap (h : wheap) : NS.wheap := {| NS.wh_strings := hw_strings h; NS.wh_dss := hw_dss h |}.

Lemma abs_new n : abs_heap (new_local_heap n) = NS.new_local_heap n.
Proof. reflexivity. Qed.

Lemma abs_prepare data : abs_heap (prepare_for_modification data) = NS.prepare_for_modification data.
Proof. reflexivity. Qed.

Lemma abs_add_string h s :
  omap (fun p : N * wheap => (fst p, abs_heap (snd p))) (add_string h s) = of_option (NS.add_string (abs_heap h) s).
Proof.
  unfold add_string, NS.add_string. cbn [abs_heap NS.wh_strings NS.wh_dss].
  change (NS.blen s) with (blen s). change (NS.blen (hw_strings h)) with (blen (hw_strings h)).
  destruct (hw_dss h <? blen (hw_strings h) + (blen s + 1)); reflexivity.
Qed.

Lemma abs_write_to h a :
  abs_heap (fst (fst (heap_write_to h a))) = fst (NS.write_to (abs_heap h)) /\
  snd (heap_write_to h a) = snd (NS.write_to (abs_heap h)).
Proof.
  unfold heap_write_to, NS.write_to. cbn [abs_heap NS.wh_strings NS.wh_dss fst snd hw_strings hw_dss].
  change (NS.blen (hw_strings h)) with (blen (hw_strings h)).
  destruct (blen (hw_strings h) <? hw_dss h); split; reflexivity.
Qed.

(* AddString keeps "the strings fit the segment" *)
Lemma add_string_fits h s off h1 : add_string h s = Ok (off, h1) ->
  off = blen (hw_strings h) /\ hw_strings h1 = hw_strings h ++ s ++ [0] /\ hw_dss h1 = hw_dss h /\ hw_free h1 = hw_free h /\
  blen (hw_strings h1) <= hw_dss h1.
Proof.
  unfold add_string. destruct (hw_dss h <? blen (hw_strings h) + (blen s + 1)) eqn:E; [discriminate|].
  intros X. inversion X; subst; clear X. cbn [hw_strings hw_dss hw_free]. apply N.ltb_ge in E.
  repeat split; auto. rewrite !blen_app, blen_cons, blen_nil. blia.
Qed.

(* os.File.WriteAt over a region of the same length replaces exactly that region *)
Lemma write_at_replace (pre old new suf : list N) :
  new <> [] -> blen new = blen old -> write_at (pre ++ old ++ suf) (blen pre) new = pre ++ new ++ suf.
Proof.
  intros Hn Hl. unfold write_at, HV.Model.ChunkIndex.write_at. destruct new as [|b0 br]; [congruence|].
  set (new := b0 :: br) in *.
  replace (N.to_nat (blen pre + blen new - blen (pre ++ old ++ suf))) with 0%nat
    by (rewrite !blen_app; unfold blen in *; blia).
  cbn [zeros repeat]. rewrite app_nil_r.
  replace (N.to_nat (blen pre)) with (length pre + 0)%nat by (unfold blen; blia).
  rewrite firstn_app_2. cbn [firstn]. rewrite app_nil_r. f_equal. f_equal.
  replace (N.to_nat (blen pre + blen new)) with (length pre + length old)%nat by (unfold blen in *; blia).
  rewrite app_assoc, <- app_length.
  replace (length (pre ++ old)) with (length (pre ++ old) + 0)%nat by blia.
  rewrite skipn_app, skipn_all2 by blia.
  replace (length (pre ++ old) + 0 - length (pre ++ old))%nat with 0%nat by blia. reflexivity.
Qed.

Lemma heap_write_file_eq f h a :
  snd (heap_write_file f h a) =
  write_at (write_at f a (heap_header (hw_dss h) (hw_free h) (wrap64 (a + 32)))) (wrap64 (a + 32)) (padded h).
Proof. reflexivity. Qed.

Lemma used_le_len (d : list N) : NS.used_size d <= blen d -> blen (firstn (N.to_nat (NS.used_size d)) d) = NS.used_size d.
Proof. intros H. unfold blen in *. rewrite firstn_length. blia. Qed.

(* the heap half of linkToParent on the FILE.  For every file that holds a heap (free-list field 1, as every heap this writer
   writes) at [blen pre] with data segment [seg]:
     - loading gives [seg] (= what Model/GroupNS.v keeps for the group);
     - the step fails exactly when GroupNS's add_string on its prepared heap fails, and then nothing is written;
     - otherwise it returns GroupNS's offset and the file holds the image of GroupNS's NEW segment at the same place, with
       everything before and after the heap untouched. *)
Theorem link_heap_commutes pre suf seg nm :
  blen pre + 32 + blen seg <= MaxInt64 ->
  load_local_heap (heap_file pre suf 1 seg) (blen pre) 8 8 = Ok seg /\
  match NS.add_string (NS.prepare_for_modification seg) nm with
  | None => link_heap (heap_file pre suf 1 seg) (blen pre) nm = Err
  | Some (off, h1) =>
      blen (snd (NS.write_to h1)) = blen seg /\
      link_heap (heap_file pre suf 1 seg) (blen pre) nm = Ok (off, heap_file pre suf 1 (snd (NS.write_to h1)))
  end.
Proof.
  intros H. pose proof (load_heap_file pre suf 1 seg H) as L. split; [exact L|].
  unfold link_heap. rewrite L. cbn [obind].
  pose proof (abs_add_string (prepare_for_modification seg) nm) as A. rewrite abs_prepare in A.
  destruct (NS.add_string (NS.prepare_for_modification seg) nm) as [[off h1']|] eqn:E; cbn [of_option] in A.
  - destruct (add_string (prepare_for_modification seg) nm) as [[off1 h1]| |] eqn:E1; cbn [omap] in A; try discriminate.
    inversion A; subst off1 h1'; clear A. cbn [obind fst snd].
    destruct (add_string_fits _ _ _ _ E1) as (_ & _ & Hd & Hf & Hfit).
    cbn [prepare_for_modification hw_dss hw_free] in Hd, Hf.
    destruct (abs_write_to h1 (blen pre)) as [_ W2]. rewrite <- W2, heap_write_to_seg.
    assert (Hlen : blen (padded h1) = blen seg) by (rewrite blen_padded by exact Hfit; exact Hd).
    split; [exact Hlen|]. f_equal. f_equal.
    rewrite heap_write_file_eq.
    assert (W : wrap64 (blen pre + 32) = blen pre + 32)
      by (unfold wrap64; apply N.mod_small; rewrite MaxInt64_val in H; blia).
    rewrite W, Hd, Hf. unfold heap_file at 1.
    rewrite write_at_replace; [|discriminate | reflexivity].
    assert (Hne : padded h1 <> []).
    { intros X. assert (Hz : blen seg = 0) by (rewrite <- Hlen, X; reflexivity).
      unfold add_string in E1. cbn [prepare_for_modification hw_strings hw_dss] in E1.
      destruct (blen seg <? _) eqn:E2 in E1; [discriminate|]. apply N.ltb_ge in E2. blia. }
    rewrite app_assoc.
    replace (blen pre + 32) with (blen (pre ++ heap_header (blen seg) 1 (blen pre + 32)))
      at 2 by (rewrite blen_app, blen_heap_header; reflexivity).
    rewrite write_at_replace; [|exact Hne|exact Hlen].
    unfold heap_file. rewrite Hlen, <- app_assoc. reflexivity.
  - destruct (add_string (prepare_for_modification seg) nm) as [[off1 h1]| |] eqn:E1; cbn [omap] in A; try discriminate.
    reflexivity.
Qed.

(* a fresh heap of createGroupStructures is such a file: image of NewLocalHeap(n) = header with free-list 1 + n' zero bytes *)
Lemma new_heap_image n pre suf :
  blen pre + 32 + NS.new_heap_size n <= MaxInt64 ->
  pre ++ heap_image (new_local_heap n) (blen pre) ++ suf = heap_file pre suf 1 (zeros (N.to_nat (NS.new_heap_size n))).
Proof.
  intros H. rewrite heap_image_eq. unfold heap_file. rewrite <- app_assoc.
  assert (W : wrap64 (blen pre + 32) = blen pre + 32)
    by (unfold wrap64; apply N.mod_small; rewrite MaxInt64_val in H; blia).
  rewrite W. unfold padded. cbn [new_local_heap hw_strings hw_dss hw_free]. bnorm. change (blen (@nil N)) with 0. rewrite blen_zeros, N2Nat.id.
  destruct (0 <? NS.new_heap_size n) eqn:E.
  - rewrite N.sub_0_r. reflexivity.
  - apply N.ltb_ge in E. replace (NS.new_heap_size n) with 0 by blia. reflexivity.
Qed.

(* ------------------------------------------------------------------ examples: the hypotheses are satisfiable *)
Example ex_heap : wheap := {| hw_strings := [100; 115; 0; 103; 0]; hw_dss := 16; hw_free := 1; hw_daddr := 0 |}.
Example ex_heap_roundtrip :
  load_local_heap (zeros 96 ++ heap_image ex_heap 96 ++ [7; 7]) 96 8 8 = Ok ([100; 115; 0; 103; 0] ++ zeros 11) /\
  get_string ([100; 115; 0; 103; 0] ++ zeros 11) 3 = Ok [103] /\
  link_heap (zeros 96 ++ heap_image ex_heap 96 ++ [7; 7]) 96 [120] =
    Ok (5, zeros 96 ++ heap_image {| hw_strings := [100; 115; 0; 103; 0; 120; 0]; hw_dss := 16; hw_free := 1; hw_daddr := 0 |} 96 ++ [7; 7]).
Proof. vm_compute. repeat split. Qed.

(* the allocation-aware model of C07 (Model/RobustAlloc.v local_heap_load, tied by C07) is this reader followed by len():
   one transcription of LoadLocalHeap serves C07 (allocation log), C11 (round trip) and C03 (abstraction) *)
Lemma local_heap_load_agrees file addr O L : addr <= MaxInt64 ->
  fst (local_heap_load file addr O L) = omap blen (load_local_heap file addr O L).
Proof.
  intros Ha. unfold local_heap_load, load_local_heap, read_at.
  replace (MaxInt64 <? addr) with false by (symmetry; apply N.ltb_ge; exact Ha). cbn [orb].
  destruct (blen file <? addr + (8 + 2 * L + O)); [reflexivity|].
  destruct (slice file addr (addr + (8 + 2 * L + O))) as [hb| |]; cbn [obind omap fst]; try reflexivity.
  change [72; 69; 65; 80] with sigHEAP.
  destruct (negb (bytes_eqb (firstn 4 hb) sigHEAP)); [reflexivity|].
  assert (NE : forall b p w, rd_field b p w <> Err).
  { intros b p w. unfold rd_field, rd_le. destruct ((w =? 2) || (w =? 4) || (w =? 8)); cbv iota.
    - unfold slice. destruct ((p <=? p + w) && (p + w <=? blen b)); cbn [obind]; intros X; discriminate X.
    - intros X. discriminate X. }
  destruct (rd_field hb 8 L) as [dsize| |] eqn:E1; [| exfalso; exact (NE _ _ _ E1) |]; cbn [obind omap fst].
  - destruct (rd_field hb (8 + 2 * L) O) as [daddr| |] eqn:E2; [| exfalso; exact (NE _ _ _ E2) |]; cbn [obind omap fst].
    + destruct (read_bytes_at file daddr dsize) as [[d| |] l]; reflexivity.
    + reflexivity.
  - destruct (rd_field hb (8 + 2 * L) O); reflexivity.
Qed.
