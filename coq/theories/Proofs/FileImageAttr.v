(* C02 at byte level: where the blocks of image_v2_attr sit, and the DATASET stage: on the image, the reader programs run on the
   dataset's object header (now four messages: datatype, dataspace, layout, attribute) return
     api_attributes   exactly one attribute: (name, value bytes) as written; the attribute message decodes (dec_attribute) to
                      the name, datatype, dataspace and value that were given to the writer
     api_read_raw     exactly the bytes that were written with Write (the attribute does not disturb the dataset read). *)
From HV Require Import Base.Prelude Base.Outcome Base.Bytes Model.IOProg Proofs.IOProg Model.IOProgReader.
From HV Require Import Model.CodecSuper Model.CodecOhdr Model.CodecMsg Model.CodecType Model.CodecLink Model.GroupWire Model.CodecAttr.
From HV Require Import Proofs.CodecSuper Proofs.CodecOhdr Proofs.CodecMsg Proofs.CodecType Proofs.CodecAttr.
From HV Require Import Model.FileImage Model.FileImageAttr Proofs.FileImage Proofs.FileImageOhdr Proofs.FileImageData
  Proofs.FileImageAttrOhdr.

(* the attribute as the reader's parser returns it (ParseAttributeMessage): name, datatype, dataspace, value *)
Definition decoded_attr (h : ohdr') : outcome attribute' :=
  match find_msg 12 (ohp_msgs h) with Some b => dec_attribute false b | None => Err end.

Lemma attr_of_proj x : attr_of (proj_attribute x) = (at_name x, at_data x).
Proof. unfold attr_of, proj_attribute. cbn [atp_name atp_data]. destruct (at_data x); reflexivity. Qed.

Section Image.
Variable name : bytes.
Variables class size cbf : N.
Variable dims : list N.
Variable data : bytes.
Variable aname : bytes.
Variable adt : datatype.
Variable adims : list N.
Variable adata : bytes.
Hypothesis Hname : link_name_ok name = true.
Hypothesis Hdt : basic_dtype class size cbf = true.
Hypothesis Hdims : dims_ok dims = true.
Hypothesis Hlen : blen data = total_elems dims * size.
Hypothesis Hpos : 0 < blen data.
Hypothesis Hbound : blen data < 4294967296.
(* the attribute message is one the encoder accepts and the decoder inverts (Proofs/CodecAttr.v) ... *)
Hypothesis Hwf : wf_attribute (attr_msg aname adt adims adata) = true.
(* ... and the four messages fit the 255-byte header chunk: the compact path of WriteAttribute *)
Hypothesis Hfit : attr_fits class size cbf dims aname adt adims adata = true.

Local Notation f := (image_v2_attr name class size cbf dims data aname adt adims adata).
Local Notation da := (dset_addr data).
Local Notation am := (attr_msg aname adt adims adata).
Local Notation dso := (dset_ohdr class size cbf dims).
Local Notation dsoa := (dset_ohdr_attr class size cbf dims aname adt adims adata).
Local Notation dsba := (dset_block_attr class size cbf dims aname adt adims adata).
Local Notation blocks := (blocks_v2_attr name class size cbf dims data aname adt adims adata).

(* ------------------------------------------------------------------ the header *)
Lemma am_len : blen (enc_attribute am) = size_attribute am.
Proof using Hwf. clear - Hwf. exact (attribute_blen _ Hwf). Qed.
Lemma am_len_ge : 11 <= blen (enc_attribute am).
Proof using Hwf. clear - Hwf.
  rewrite am_len. unfold size_attribute. cbn [at_name attr_msg].
  assert (1 <= blen aname); [|blia].
  unfold wf_attribute, encok_attribute in Hwf. cbn [at_name attr_msg] in Hwf.
  repeat (apply andb_true_iff in Hwf as [Hwf _]).
  apply negb_true_iff, Nat.eqb_neq in Hwf. unfold blen. blia.
Qed.
Lemma dsoa_chunk : chunk_size_v2 (oh_msgs dsoa) = chunk_size_v2 (oh_msgs dso) + 4 + blen (enc_attribute am).
Proof using. clear.
  unfold dset_ohdr_attr, dset_ohdr. cbn [oh_msgs chunk_size_v2 fold_right hm_data]. blia.
Qed.
Lemma dsoa_chunk_bound : chunk_size_v2 (oh_msgs dsoa) <= 255.
Proof using Hfit. clear - Hfit. unfold attr_fits in Hfit. now apply N.leb_le in Hfit. Qed.

Lemma dsoa_ok : ohdr_ok2 dsoa.
Proof using Hdt Hdims Hlen Hbound Hwf Hfit. clear - Hdt Hdims Hlen Hbound Hwf Hfit.
  unfold ohdr_ok2. split; [reflexivity|]. split; [reflexivity|]. split; [exact dsoa_chunk_bound|].
  split; [discriminate|].
  unfold dset_ohdr_attr. cbn [oh_msgs]. repeat constructor; cbn [hm_type hm_data]; unfold MSG_CONT; try blia; try discriminate.
  - rewrite (dt_msg_len class size cbf Hdt). destruct (class =? DT_FIXED); blia.
  - rewrite ds_msg_len; blia.
  - pose proof am_len_ge. blia.
Qed.

Lemma dsba_len : blen dsba = OHDR_RESERVE.
Proof using Hdt Hdims Hlen Hbound Hwf Hfit. clear - Hdt Hdims Hlen Hbound Hwf Hfit.
  unfold dset_block_attr. rewrite blen_app, blen_zeros, ohdr_v2_blen.
  pose proof dsoa_chunk_bound. unfold size_ohdr_v2, OHDR_RESERVE in *. blia.
Qed.

(* ------------------------------------------------------------------ where the blocks sit *)
Lemma PA_sb_rest : placed f 0 (enc_superblock (final_sb data) ++ concat (skipn 1 blocks)).
Proof using. clear. exact (place_all_placed_rest blocks 0 ltac:(cbn; blia)). Qed.
Lemma PA_heap : placed f 48 (heap_image (final_heap name) HEAP_ADDR).
Proof using. clear.
  pose proof (place_all_placed blocks 1 _ eq_refl) as H. cbn [block_addr blocks_v2_attr] in H.
  rewrite sb_block_len in H. exact H.
Qed.
Lemma PA_snod : placed f 336 (snod_block data).
Proof using Hname. clear - Hname.
  pose proof (place_all_placed blocks 2 _ eq_refl) as H. cbn [block_addr blocks_v2_attr] in H.
  rewrite sb_block_len, (heap_block_len name Hname) in H. exact H.
Qed.
Lemma PA_bt : placed f 1624 (bt_write_at final_btnode 8 GROUP_K).
Proof using Hname. clear - Hname.
  pose proof (place_all_placed blocks 3 _ eq_refl) as H. cbn [block_addr blocks_v2_attr] in H.
  rewrite sb_block_len, (heap_block_len name Hname), snod_block_len in H. exact H.
Qed.
Lemma PA_root_rest : placed f 2168 (enc_ohdr_v2 root_ohdr ++ (data ++ dsba)).
Proof using Hname. clear - Hname.
  pose proof (place_all_placed_rest blocks 4 ltac:(cbn; blia)) as H.
  cbn [block_addr blocks_v2_attr skipn concat] in H.
  rewrite sb_block_len, (heap_block_len name Hname), snod_block_len, bt_block_len in H. rewrite app_nil_r in H. exact H.
Qed.
Lemma PA_data : placed f 2195 data.
Proof using Hname. clear - Hname.
  pose proof (place_all_placed blocks 5 _ eq_refl) as H. cbn [block_addr blocks_v2_attr] in H.
  rewrite sb_block_len, (heap_block_len name Hname), snod_block_len, bt_block_len, root_block_len in H. exact H.
Qed.
Lemma PA_dset : placed f da dsba.
Proof using Hname. clear - Hname.
  pose proof (place_all_placed blocks 6 _ eq_refl) as H. cbn [block_addr blocks_v2_attr] in H.
  rewrite sb_block_len, (heap_block_len name Hname), snod_block_len, bt_block_len, root_block_len in H.
  match type of H with placed _ ?X _ => replace da with X by (unfold da, dset_addr; change DATA_ADDR with 2195; blia) end.
  exact H.
Qed.

Lemma image_attr_len : blen f = eof_addr data.
Proof using Hname Hdt Hdims Hlen Hbound Hwf Hfit. clear - Hname Hdt Hdims Hlen Hbound Hwf Hfit.
  unfold image_v2_attr, place_all, blocks_v2_attr. cbn [concat]. rewrite !blen_app.
  rewrite sb_block_len, (heap_block_len name Hname), snod_block_len, bt_block_len, root_block_len, dsba_len.
  change (blen []) with 0. unfold eof_addr, dset_addr. change DATA_ADDR with 2195. blia.
Qed.

(* ------------------------------------------------------------------ the dataset's header, as the reader returns it *)
Lemma dset_header_attr fuel : (4 < fuel)%nat ->
  run0 f (p_ohdr SB' fuel da) = Ok (proj_ohdr_v2 false dsoa da).
Proof using Hname Hdt Hdims Hlen Hbound Hwf Hfit.
  intros Hf.
  apply (p_ohdr_placed2 SB' fuel f da dsoa (zeros (N.to_nat (OHDR_RESERVE - size_ohdr_v2 dsoa))) dsoa_ok).
  - exact PA_dset.
  - exact Hf.
  - exact (da_bound data Hbound).
Qed.

(* ParseAttributesFromMessages on the four messages: one compact attribute, no dense storage *)
Lemma attrs4 m3 m1 m8 o3 o1 o8 o12 :
  p_attrs SB' [ {| hmp_type := 3; hmp_offset := o3; hmp_data := m3 |}; {| hmp_type := 1; hmp_offset := o1; hmp_data := m1 |};
                {| hmp_type := 8; hmp_offset := o8; hmp_data := m8 |};
                {| hmp_type := 12; hmp_offset := o12; hmp_data := enc_attribute am |} ] = Ret [(aname, adata)].
Proof using Hwf. clear - Hwf.
  unfold p_attrs. cbn [compact_attrs first_ainfo hmp_type hmp_data N.eqb Pos.eqb SB' spp_bigendian].
  rewrite (attribute_roundtrip _ Hwf). rewrite attr_of_proj. reflexivity.
Qed.

(* ------------------------------------------------------------------ Dataset.Attributes *)
Theorem dataset_attributes fuel : (4 < fuel)%nat ->
  run0 f (api_attributes SB' fuel da) = Ok [(aname, adata)].
Proof using Hname Hdt Hdims Hlen Hbound Hwf Hfit.
  intros Hf. unfold api_attributes. rewrite run0_bind, (dset_header_attr fuel Hf).
  rewrite run0_swallow.
  unfold proj_ohdr_v2, dset_ohdr_attr. cbn [oh_msgs oh_flags msgs_at_v2 ohp_msgs hm_type hm_data].
  rewrite attrs4. reflexivity.
Qed.

(* what the reader's attribute parser makes of the attribute message in the header it read *)
Theorem dataset_attr_decoded fuel : (4 < fuel)%nat ->
  exists h, run0 f (p_ohdr SB' fuel da) = Ok h /\
    decoded_attr h = Ok {| atp_name := aname; atp_dt := proj_datatype adt;
                           atp_ds := proj_dataspace {| ds_dims := adims; ds_maxdims := [] |};
                           atp_data := match adata with [] => None | d => Some d end |}.
Proof using Hname Hdt Hdims Hlen Hbound Hwf Hfit.
  intros Hf. eexists. split; [exact (dset_header_attr fuel Hf)|].
  unfold decoded_attr, proj_ohdr_v2, dset_ohdr_attr. cbn [oh_msgs oh_flags msgs_at_v2 ohp_msgs hm_type hm_data].
  cbn [find_msg fold_left hmp_type hmp_data N.eqb Pos.eqb].
  rewrite (attribute_roundtrip _ Hwf). unfold proj_attribute, attr_msg. cbn [at_name at_dt at_ds at_data].
  clear. destruct adata; reflexivity.
Qed.

(* ------------------------------------------------------------------ Dataset.Read *)
Theorem dataset_read_attr fuel : (4 < fuel)%nat ->
  run0 f (api_read_raw SB' fuel da) = Ok (RawBytes data).
Proof using Hname Hdt Hdims Hlen Hpos Hbound Hwf Hfit.
  intros Hf. unfold api_read_raw. rewrite run0_bind, (dset_header_attr fuel Hf).
  rewrite run0_swallow.
  unfold proj_ohdr_v2, dset_ohdr_attr. cbn [oh_msgs oh_flags msgs_at_v2 ohp_msgs hm_type hm_data].
  rewrite attrs4. cbn [bind]. rewrite run0_ret.
  unfold p_dataset_raw.
  cbn [find_msg fold_left hmp_type hmp_data N.eqb Pos.eqb].
  rewrite (datatype_roundtrip _ (wf_dt class size cbf Hdt)), (dataspace_roundtrip _ (wf_ds dims Hdims)).
  change (sbp SB') with SBP. rewrite (layout_roundtrip _ _ (wf_ly size dims data Hlen Hbound)).
  cbn [obind lift bind fst snd proj_dataspace proj_layout dsp_type dsp_dims ds_dims ly_class ly_addr ly_compact ly_chunk N.eqb Pos.eqb].
  fold (total_elems dims).
  assert (Hsz : dt_size (proj_datatype (dtype_msg class size cbf)) = size).
  { unfold proj_datatype, dtype_msg. cbn [dt_class dt_size].
    destruct (dtype_cases class size cbf Hdt) as [(-> & _)|(-> & _)]; reflexivity. }
  rewrite Hsz. rewrite <- Hlen.
  replace (total_elems dims =? 0) with false
    by (symmetry; apply N.eqb_neq; intros E; rewrite E in Hlen; blia).
  replace (18446744073709551616 <=? blen data) with false by (symmetry; apply N.leb_gt; blia).
  rewrite run0_bind.
  rewrite (run0_read_bytes_at f DATA_ADDR data (blen data) PA_data eq_refl Hpos)
    by (unfold MAXI64; change DATA_ADDR with 2195; blia).
  reflexivity.
Qed.

(* the dataset's own datatype and shape are still decoded from the header *)
Theorem dataset_type_shape_attr fuel : (4 < fuel)%nat ->
  exists h, run0 f (p_ohdr SB' fuel da) = Ok h /\
    (d <- match find_msg 3 (ohp_msgs h) with Some b => dec_datatype b | None => Err end;;
     s <- match find_msg 1 (ohp_msgs h) with Some b => dec_dataspace b | None => Err end;;
     Ok (dt_class d, dt_size d, dt_cbf d, dsp_dims s)) = Ok (class, size, cbf, dims).
Proof using Hname Hdt Hdims Hlen Hbound Hwf Hfit.
  intros Hf. eexists. split; [exact (dset_header_attr fuel Hf)|].
  unfold proj_ohdr_v2, dset_ohdr_attr. cbn [oh_msgs oh_flags msgs_at_v2 ohp_msgs hm_type hm_data].
  cbn [find_msg fold_left hmp_type hmp_data N.eqb Pos.eqb].
  rewrite (datatype_roundtrip _ (wf_dt class size cbf Hdt)), (dataspace_roundtrip _ (wf_ds dims Hdims)).
  cbn [obind proj_dataspace dsp_dims ds_dims].
  unfold proj_datatype, dtype_msg. cbn [dt_class dt_size dt_cbf].
  destruct (dtype_cases class size cbf Hdt) as [(-> & _)|(-> & _)]; reflexivity.
Qed.
End Image.
