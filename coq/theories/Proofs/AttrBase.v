(* Lemmas about the list primitives of Model/Attr.v: byte-string equality, look-up by name in attribute
   lists, the compact replace/remove loops, association lists of the heap, the specification map. *)
From HV Require Import Base.Prelude Model.Attr.
From Coq Require Import Permutation.

(* ------------------------------------------------------------------ bytes_eqb *)

Lemma bytes_eqb_eq : forall a b : bytes, bytes_eqb a b = true <-> a = b.
Proof.
  unfold bytes_eqb. induction a as [|x a IH]; destruct b as [|y b]; cbn [list_eqb]; split; intro H;
    try reflexivity; try discriminate.
  - apply andb_true_iff in H. destruct H as [H1 H2]. apply N.eqb_eq in H1. apply IH in H2. congruence.
  - inversion H; subst. apply andb_true_iff. split; [apply N.eqb_refl | apply IH; reflexivity].
Qed.

Lemma bytes_eqb_refl : forall a, bytes_eqb a a = true.
Proof. intro a. apply bytes_eqb_eq. reflexivity. Qed.

Lemma bytes_eqb_neq : forall a b, a <> b -> bytes_eqb a b = false.
Proof.
  intros a b H. destruct (bytes_eqb a b) eqn:E; [|reflexivity]. apply bytes_eqb_eq in E. contradiction.
Qed.

Lemma bytes_eqb_spec : forall a b, reflect (a = b) (bytes_eqb a b).
Proof.
  intros a b. destruct (bytes_eqb a b) eqn:E; constructor.
  - apply bytes_eqb_eq; assumption.
  - intro H. apply bytes_eqb_eq in H. congruence.
Qed.

Lemma bytes_eqb_sym : forall a b, bytes_eqb a b = bytes_eqb b a.
Proof.
  intros a b. destruct (bytes_eqb_spec a b) as [->|H].
  - symmetry. apply bytes_eqb_refl.
  - symmetry. apply bytes_eqb_neq. congruence.
Qed.

Ltac beq a b := destruct (bytes_eqb_spec a b) as [?|?]; try subst; try congruence.

Lemma bytes_dec : forall a b : bytes, {a = b} + {a <> b}.
Proof. intros a b. destruct (bytes_eqb_spec a b); [left|right]; assumption. Qed.

Lemma existsb_bytes_in : forall n l, existsb (bytes_eqb n) l = true <-> In n l.
Proof.
  intros n l. rewrite existsb_exists. split.
  - intros [x [Hx E]]. apply bytes_eqb_eq in E. subst. assumption.
  - intro H. exists n. split; [assumption | apply bytes_eqb_refl].
Qed.

(* ------------------------------------------------------------------ attr_get *)

Lemma attr_get_none_iff : forall l n, attr_get l n = None <-> ~ In n (map aname l).
Proof.
  induction l as [|x l IH]; intro n; cbn [attr_get map In].
  - tauto.
  - beq (aname x) n.
    + split; [discriminate | intro H; exfalso; apply H; left; reflexivity].
    + rewrite IH. tauto.
Qed.

Lemma attr_get_some_in : forall l n v, attr_get l n = Some v -> In (mkAttr n v) l.
Proof.
  induction l as [|x l IH]; intros n v; cbn [attr_get In]; [discriminate|].
  beq (aname x) n.
  - intro H. inversion H. left. destruct x; reflexivity.
  - intro H. right. apply IH. assumption.
Qed.

Lemma attr_get_in : forall l n v, NoDup (map aname l) -> In (mkAttr n v) l -> attr_get l n = Some v.
Proof.
  induction l as [|x l IH]; intros n v ND HI; cbn [attr_get]; [destruct HI|].
  cbn [map] in ND. inversion ND as [|? ? Hx ND']; subst.
  destruct HI as [->|HI].
  - cbn [aname aval]. rewrite bytes_eqb_refl. reflexivity.
  - beq (aname x) n.
    + exfalso. apply Hx. change (aname x) with (aname (mkAttr (aname x) v)). apply in_map. assumption.
    + apply IH; assumption.
Qed.

Lemma attr_get_app : forall l1 l2 n,
  attr_get (l1 ++ l2) n = match attr_get l1 n with Some v => Some v | None => attr_get l2 n end.
Proof.
  induction l1 as [|x l1 IH]; intros l2 n; cbn [app attr_get]; [reflexivity|].
  destruct (bytes_eqb (aname x) n); [reflexivity | apply IH].
Qed.

(* inserting an attribute with a fresh name anywhere *)
Lemma attr_get_insert : forall l1 l2 a m, ~ In (aname a) (map aname (l1 ++ l2)) ->
  attr_get (l1 ++ a :: l2) m = if bytes_eqb (aname a) m then Some (aval a) else attr_get (l1 ++ l2) m.
Proof.
  intros l1 l2 a m H. rewrite !attr_get_app. cbn [attr_get].
  beq (aname a) m.
  assert (E : attr_get l1 (aname a) = None).
  { apply attr_get_none_iff. intro HI. apply H. rewrite map_app. apply in_or_app. left; assumption. }
  rewrite E. reflexivity.
Qed.

(* replacing / removing the element in the middle of a list with unique names *)
Lemma NoDup_names_middle : forall l1 a l2, NoDup (map aname (l1 ++ a :: l2)) ->
  ~ In (aname a) (map aname (l1 ++ l2)) /\ NoDup (map aname (l1 ++ l2)).
Proof.
  intros l1 a l2 H. rewrite map_app in H. cbn [map] in H.
  split.
  - apply NoDup_remove_2 in H. rewrite map_app. assumption.
  - apply NoDup_remove_1 in H. rewrite map_app. assumption.
Qed.

Lemma attr_get_replace_middle : forall l1 a a' l2 m, NoDup (map aname (l1 ++ a :: l2)) -> aname a' = aname a ->
  attr_get (l1 ++ a' :: l2) m = if bytes_eqb (aname a) m then Some (aval a') else attr_get (l1 ++ a :: l2) m.
Proof.
  intros l1 a a' l2 m ND E. destruct (NoDup_names_middle _ _ _ ND) as [H _].
  rewrite (attr_get_insert l1 l2 a') by (rewrite E; assumption).
  rewrite (attr_get_insert l1 l2 a) by assumption. rewrite E.
  destruct (bytes_eqb (aname a) m); reflexivity.
Qed.

Lemma attr_get_remove_middle : forall l1 a l2 m, NoDup (map aname (l1 ++ a :: l2)) ->
  attr_get (l1 ++ l2) m = if bytes_eqb (aname a) m then None else attr_get (l1 ++ a :: l2) m.
Proof.
  intros l1 a l2 m ND. destruct (NoDup_names_middle _ _ _ ND) as [H _].
  rewrite (attr_get_insert l1 l2 a) by assumption.
  beq (aname a) m. apply attr_get_none_iff. assumption.
Qed.

Lemma NoDup_names_replace_middle : forall l1 a a' l2, NoDup (map aname (l1 ++ a :: l2)) -> aname a' = aname a ->
  NoDup (map aname (l1 ++ a' :: l2)).
Proof. intros l1 a a' l2 H E. rewrite map_app in *. cbn [map] in *. rewrite E. assumption. Qed.

Lemma NoDup_names_insert : forall l1 a l2, NoDup (map aname (l1 ++ l2)) -> ~ In (aname a) (map aname (l1 ++ l2)) ->
  NoDup (map aname (l1 ++ a :: l2)).
Proof.
  intros l1 a l2 ND H. rewrite map_app in *. cbn [map]. apply NoDup_Add with (a := aname a) (l := map aname l1 ++ map aname l2).
  - apply Add_app.
  - split; assumption.
Qed.

(* ------------------------------------------------------------------ replace_name / remove_name (compact loops) *)

Lemma replace_name_none : forall l n a, replace_name n a l = None <-> ~ In n (map aname l).
Proof.
  induction l as [|x l IH]; intros n a; cbn [replace_name map In]; [tauto|].
  beq (aname x) n.
  - split; [discriminate | intro H; exfalso; apply H; left; reflexivity].
  - specialize (IH n a). destruct (replace_name n a l).
    + split; [discriminate|]. intro H. exfalso. assert (~ In n (map aname l)) by tauto. apply IH in H0. discriminate.
    + split; [|reflexivity]. intros _. assert (~ In n (map aname l)) by (apply IH; reflexivity). tauto.
Qed.

Lemma replace_name_split : forall l n a l', replace_name n a l = Some l' ->
  exists l1 x l2, l = l1 ++ x :: l2 /\ aname x = n /\ l' = l1 ++ a :: l2 /\ ~ In n (map aname l1).
Proof.
  induction l as [|x l IH]; intros n a l'; cbn [replace_name]; [discriminate|].
  beq (aname x) n.
  - intro H. inversion H. exists [], x, l. cbn. repeat split; tauto.
  - destruct (replace_name n a l) as [r|] eqn:E; [|discriminate]. intro H. inversion H; subst.
    destruct (IH n a r E) as [l1 [y [l2 [E1 [E2 [E3 E4]]]]]]. subst.
    exists (x :: l1), y, l2. cbn. repeat split; try reflexivity. intros [H1|H1]; [congruence | tauto].
Qed.

Lemma remove_name_none : forall l n, remove_name n l = None <-> ~ In n (map aname l).
Proof.
  induction l as [|x l IH]; intros n; cbn [remove_name map In]; [tauto|].
  beq (aname x) n.
  - split; [discriminate | intro H; exfalso; apply H; left; reflexivity].
  - specialize (IH n). destruct (remove_name n l).
    + split; [discriminate|]. intro H. exfalso. assert (~ In n (map aname l)) by tauto. apply IH in H0. discriminate.
    + split; [|reflexivity]. intros _. assert (~ In n (map aname l)) by (apply IH; reflexivity). tauto.
Qed.

Lemma remove_name_split : forall l n l', remove_name n l = Some l' ->
  exists l1 x l2, l = l1 ++ x :: l2 /\ aname x = n /\ l' = l1 ++ l2 /\ ~ In n (map aname l1).
Proof.
  induction l as [|x l IH]; intros n l'; cbn [remove_name]; [discriminate|].
  beq (aname x) n.
  - intro H. inversion H. exists [], x, l'. cbn. repeat split; tauto.
  - destruct (remove_name n l) as [r|] eqn:E; [|discriminate]. intro H. inversion H; subst.
    destruct (IH n r E) as [l1 [y [l2 [E1 [E2 [E3 E4]]]]]]. subst.
    exists (x :: l1), y, l2. cbn. repeat split; try reflexivity. intros [H1|H1]; [congruence | tauto].
Qed.

(* ------------------------------------------------------------------ association lists keyed by N (heap objects) *)

Lemma assoc_get_in_keys : forall A (l : list (N * A)) k x, assoc_get k l = Some x -> In k (map fst l).
Proof.
  induction l as [|[k' y] l IH]; intros k x; cbn [assoc_get map fst In]; [discriminate|].
  destruct (N.eqb_spec k' k); [left; assumption | intro H; right; eapply IH; eassumption].
Qed.

Lemma assoc_get_app_some : forall A (l1 l2 : list (N * A)) k x, assoc_get k l1 = Some x -> assoc_get k (l1 ++ l2) = Some x.
Proof.
  induction l1 as [|[k' y] l1 IH]; intros l2 k x; cbn [assoc_get app]; [discriminate|].
  destruct (k' =? k); [tauto | apply IH].
Qed.

Lemma assoc_get_app_fresh : forall A (l : list (N * A)) k x, ~ In k (map fst l) -> assoc_get k (l ++ [(k, x)]) = Some x.
Proof.
  induction l as [|[k' y] l IH]; intros k x H; cbn [assoc_get app map fst In] in *.
  - rewrite N.eqb_refl. reflexivity.
  - destruct (N.eqb_spec k' k); [exfalso; tauto | apply IH; tauto].
Qed.

Lemma assoc_set_spec : forall A (l l' : list (N * A)) k x, assoc_set k x l = Some l' ->
  map fst l' = map fst l /\ forall k2, assoc_get k2 l' = if k2 =? k then Some x else assoc_get k2 l.
Proof.
  induction l as [|[k' y] l IH]; intros l' k x; cbn [assoc_set]; [discriminate|].
  destruct (N.eqb_spec k' k) as [->|NE].
  - intro H. inversion H; subst. split; [reflexivity|]. intro k2. cbn [assoc_get].
    rewrite (N.eqb_sym k2 k). destruct (k =? k2); reflexivity.
  - destruct (assoc_set k x l) as [r|] eqn:E; [|discriminate]. intro H. inversion H; subst.
    destruct (IH r k x E) as [M G]. split; [cbn [map fst]; congruence|].
    intro k2. cbn [assoc_get]. destruct (N.eqb_spec k' k2) as [->|NE2].
    + destruct (N.eqb_spec k2 k); [congruence | reflexivity].
    + apply G.
Qed.

Lemma assoc_set_some : forall A (l : list (N * A)) k x y, assoc_get k l = Some y -> exists l', assoc_set k x l = Some l'.
Proof.
  induction l as [|[k' z] l IH]; intros k x y; cbn [assoc_get assoc_set]; [discriminate|].
  destruct (k' =? k); [eexists; reflexivity|]. intro H. destruct (IH k x y H) as [l' E]. rewrite E. eexists; reflexivity.
Qed.

Lemma assoc_del_spec : forall A (l l' : list (N * A)) k, assoc_del k l = Some l' ->
  (forall k2, k2 <> k -> assoc_get k2 l' = assoc_get k2 l) /\
  (forall k2, In k2 (map fst l') -> In k2 (map fst l)) /\
  (NoDup (map fst l) -> NoDup (map fst l')).
Proof.
  induction l as [|[k' y] l IH]; intros l' k; cbn [assoc_del]; [discriminate|].
  destruct (N.eqb_spec k' k) as [->|NE].
  - intro H. inversion H; subst. repeat split.
    + intros k2 NE. cbn [assoc_get]. destruct (N.eqb_spec k k2); [congruence | reflexivity].
    + intros k2 HI. cbn [map fst In]. right; assumption.
    + cbn [map fst]. intro ND. inversion ND; assumption.
  - destruct (assoc_del k l) as [r|] eqn:E; [|discriminate]. intro H. inversion H; subst.
    destruct (IH r k E) as [G [S ND]]. repeat split.
    + intros k2 NE2. cbn [assoc_get]. destruct (k' =? k2); [reflexivity | apply G; assumption].
    + intros k2. cbn [map fst In]. intros [H1|H1]; [left; assumption | right; apply S; assumption].
    + cbn [map fst]. intro N1. inversion N1 as [|? ? Hx N2]; subst. constructor; [intro HI; apply Hx, S, HI | apply ND, N2].
Qed.

Lemma assoc_del_some : forall A (l : list (N * A)) k y, assoc_get k l = Some y -> exists l', assoc_del k l = Some l'.
Proof.
  induction l as [|[k' z] l IH]; intros k y; cbn [assoc_get assoc_del]; [discriminate|].
  destruct (k' =? k); [eexists; reflexivity|]. intro H. destruct (IH k y H) as [l' E]. rewrite E. eexists; reflexivity.
Qed.

(* ------------------------------------------------------------------ the specification map *)

Lemma sp_del_cons : forall k v m n,
  sp_del ((k, v) :: m) n = if bytes_eqb k n then sp_del m n else (k, v) :: sp_del m n.
Proof. intros. unfold sp_del. cbn [filter fst]. destruct (bytes_eqb k n); reflexivity. Qed.

Lemma sp_get_del : forall m n k, sp_get (sp_del m n) k = if bytes_eqb n k then None else sp_get m k.
Proof.
  induction m as [|[k' v] m IH]; intros n k.
  - cbn. destruct (bytes_eqb n k); reflexivity.
  - rewrite sp_del_cons. cbn [sp_get]. destruct (bytes_eqb_spec k' n) as [E|NE].
    + rewrite IH. subst k'. destruct (bytes_eqb n k); reflexivity.
    + cbn [sp_get]. rewrite IH. destruct (bytes_eqb_spec k' k) as [E2|NE2]; [|reflexivity].
      subst k'. rewrite (bytes_eqb_neq n k) by congruence. reflexivity.
Qed.

Lemma sp_get_set : forall m n v k, sp_get (sp_set m n v) k = if bytes_eqb n k then Some v else sp_get m k.
Proof.
  intros m n v k. unfold sp_set. cbn [sp_get]. beq n k. rewrite sp_get_del. rewrite (bytes_eqb_neq n k) by assumption. reflexivity.
Qed.

Definition keys (m : smap) : list bytes := map fst m.

Lemma sp_del_keys_incl : forall m n x, In x (keys (sp_del m n)) -> In x (keys m).
Proof.
  intros m n x HI. unfold keys, sp_del in *. apply in_map_iff in HI. destruct HI as [[a b] [E HI]].
  apply filter_In in HI. destruct HI as [HI _]. cbn in E; subst. apply in_map_iff. exists (x, b). tauto.
Qed.

Lemma sp_del_keys_nodup : forall m n, NoDup (keys m) -> NoDup (keys (sp_del m n)) /\ ~ In n (keys (sp_del m n)).
Proof.
  induction m as [|[k v] m IH]; intros n ND.
  - cbn. split; [constructor | tauto].
  - cbn [keys map fst] in ND. inversion ND as [|? ? Hk ND']; subst. destruct (IH n ND') as [A B].
    rewrite sp_del_cons. destruct (bytes_eqb_spec k n) as [E|NE].
    + split; assumption.
    + cbn [keys map fst]. split.
      * constructor; [intro HI; apply Hk; eapply sp_del_keys_incl; exact HI | exact A].
      * cbn [In]. intros [E|HI]; [congruence | tauto].
Qed.

Lemma sp_set_keys_nodup : forall m n v, NoDup (keys m) -> NoDup (keys (sp_set m n v)).
Proof.
  intros m n v ND. unfold sp_set. cbn [keys map fst]. destruct (sp_del_keys_nodup m n ND). constructor; assumption.
Qed.

Lemma sp_get_in : forall m n v, NoDup (keys m) -> (sp_get m n = Some v <-> In (n, v) m).
Proof.
  induction m as [|[k w] m IH]; intros n v ND; cbn [sp_get In].
  - split; [discriminate | tauto].
  - cbn [keys map fst] in ND. inversion ND as [|? ? Hk ND']; subst. beq k n.
    + split.
      * intro H. inversion H. left; reflexivity.
      * intros [H|H]; [inversion H; reflexivity|]. exfalso. apply Hk. unfold keys. apply in_map_iff. exists (n, v). tauto.
    + rewrite (IH n v ND'). split; [tauto|]. intros [H|H]; [inversion H; congruence | assumption].
Qed.
