(* C08 - LZF: the decompressor inverts the compressor on every input.
   Invariant of the compressor loop: the bytes emitted so far decode to input[0:litPos]; every
   back-reference points into that prefix and the bytes it copies were compared equal by the
   compressor.  The hash table only proposes candidates, so nothing is assumed about it. *)
From HV Require Import Base.Prelude Model.Filters Proofs.FiltersShuffle Proofs.FiltersFletcher.
From Coq Require Import FSets.FMapPositive.

Local Open Scope nat_scope.

(* ---------------------------------------------------------------- list facts *)

Lemma nth_skipn_add {A} (l : list A) j k d : nth k (skipn j l) d = nth (j + k) l d.
Proof.
  revert l; induction j as [|j IH]; intro l; [reflexivity|].
  destruct l; cbn [skipn Nat.add nth]; [now destruct k|apply IH].
Qed.

Lemma nth_firstn_lt {A} (l : list A) p r d : r < p -> nth r (firstn p l) d = nth r l d.
Proof.
  revert l r; induction p as [|p IH]; intros l r H; [lia|].
  destruct l; [now destruct r|]. destruct r; cbn [firstn nth]; auto. apply IH. lia.
Qed.

Lemma firstn_snoc_nth {A} (l : list A) p d : p < length l -> firstn p l ++ [nth p l d] = firstn (S p) l.
Proof.
  revert l; induction p as [|p IH]; intros l H; destruct l; cbn [length] in H; try lia; cbn [firstn nth app]; auto.
  f_equal. apply IH. lia.
Qed.

Lemma firstn_skipn_glue {A} (l : list A) a b : a <= b -> firstn a l ++ firstn (b - a) (skipn a l) = firstn b l.
Proof.
  revert l b; induction a as [|a IH]; intros l b H.
  - cbn [firstn skipn app]. now rewrite Nat.sub_0_r.
  - destruct b; [lia|]. destruct l; cbn [firstn skipn app Nat.sub]; [now rewrite firstn_nil|].
    f_equal. apply IH. lia.
Qed.

Lemma skipn_skipn_add {A} (l : list A) a b : skipn a (skipn b l) = skipn (b + a) l.
Proof.
  revert l; induction b as [|b IH]; intro l; [reflexivity|].
  destruct l; cbn [skipn Nat.add]; [now rewrite skipn_nil|apply IH].
Qed.

Lemma skipn_cons_nth {A} (l : list A) p x r d : skipn p l = x :: r -> nth p l d = x /\ skipn (S p) l = r /\ p < length l.
Proof.
  revert l; induction p as [|p IH]; intros l H.
  - cbn [skipn] in H. subst l. cbn [nth skipn length]. repeat split; lia.
  - destruct l; cbn [skipn] in H; [discriminate|]. cbn [nth skipn length].
    destruct (IH l H) as (? & ? & ?). repeat split; auto. lia.
Qed.

(* ---------------------------------------------------------------- decoder: fuel *)

Lemma lzf_dec_fuel : forall f1 f2 i o, length i <= f1 -> length i <= f2 -> lzf_dec f1 i o = lzf_dec f2 i o.
Proof.
  induction f1 as [|f1 IH]; intros f2 i o H1 H2.
  - destruct i; cbn [length] in H1; [|lia]. now destruct f2.
  - destruct i as [|c r]; [now destruct f2|].
    destruct f2 as [|f2]; cbn [length] in *; [lia|].
    cbn [lzf_dec].
    destruct (c <? 32)%N.
    + destruct (length r <? N.to_nat c + 1); auto.
      apply IH; rewrite skipn_length; lia.
    + destruct r as [|b1 r2]; auto. cbn [length] in *.
      destruct (c / 32 =? 7)%N.
      * destruct r2 as [|lo r3]; auto. cbn [length] in *.
        destruct (length o <? _); auto. apply IH; lia.
      * destruct (length o <? _); auto. apply IH; lia.
Qed.

(* with fuel = len(input) the loop never runs dry, and there is no panic *)
Lemma lzf_dec_total : forall f i o, length i <= f -> lzf_dec f i o <> OutOfFuel /\ lzf_dec f i o <> Panic.
Proof.
  induction f as [|f IH]; intros i o H.
  - destruct i; cbn [length] in H; [|lia]. cbn [lzf_dec]. split; discriminate.
  - destruct i as [|c r]; [cbn [lzf_dec]; split; discriminate|]. cbn [length] in H.
    cbn [lzf_dec].
    destruct (c <? 32)%N.
    + destruct (length r <? N.to_nat c + 1); [split; discriminate|].
      apply IH; rewrite skipn_length; lia.
    + destruct r as [|lo r2]; [split; discriminate|]. cbn [length] in *.
      destruct (c / 32 =? 7)%N.
      * destruct r2 as [|lb r3]; [split; discriminate|]. cbn [length] in *.
        destruct (length o <? _); [split; discriminate|]. apply IH; lia.
      * destruct (length o <? _); [split; discriminate|]. apply IH; lia.
Qed.

(* ---------------------------------------------------------------- decoder on one literal segment *)

Lemma dec_literal_chunk (l rest out : bytes) F n :
  length l = n -> 1 <= n <= 32 -> length (N.of_nat (n - 1) :: l ++ rest) <= F ->
  lzf_dec F (N.of_nat (n - 1) :: l ++ rest) out = lzf_dec (length rest) rest (out ++ l).
Proof.
  intros <- Hl HF. destruct F as [|F]; [cbn [length] in HF; lia|].
  cbn [lzf_dec].
  replace (N.of_nat (length l - 1) <? 32)%N with true by (symmetry; apply N.ltb_lt; lia).
  replace (N.to_nat (N.of_nat (length l - 1)) + 1) with (length l) by lia.
  replace (length (l ++ rest) <? length l) with false by (symmetry; apply Nat.ltb_ge; rewrite app_length; lia).
  rewrite firstn_len_app, skipn_len_app.
  apply lzf_dec_fuel; auto. cbn [length] in HF. rewrite app_length in HF. lia.
Qed.

Lemma append_literal_cons fl (lit : bytes) :
  lit <> [] ->
  append_literal (S fl) lit
  = N.of_nat (Nat.min (length lit) 32 - 1)
      :: firstn (Nat.min (length lit) 32) lit ++ append_literal fl (skipn (Nat.min (length lit) 32) lit).
Proof. destruct lit; [congruence|reflexivity]. Qed.

Lemma dec_append_literal : forall fl (lit rest out : bytes) F,
  length lit <= fl -> length (append_literal fl lit ++ rest) <= F ->
  lzf_dec F (append_literal fl lit ++ rest) out = lzf_dec (length rest) rest (out ++ lit).
Proof.
  induction fl as [|fl IH]; intros lit rest out F Hl HF.
  - destruct lit; cbn [length] in Hl; [|lia]. cbn [append_literal app] in *. rewrite app_nil_r.
    now apply lzf_dec_fuel.
  - destruct (list_eq_dec N.eq_dec lit []) as [->|Hne].
    { cbn [append_literal app] in *. rewrite app_nil_r. now apply lzf_dec_fuel. }
    assert (Hpos : 1 <= length lit) by (destruct lit; [exfalso; now apply Hne|cbn [length]; lia]).
    rewrite append_literal_cons in HF by exact Hne. rewrite append_literal_cons by exact Hne.
    set (run := Nat.min (length lit) 32) in *.
    assert (Hrun : 1 <= run <= 32 /\ run <= length lit) by (subst run; lia).
    assert (Hch : length (firstn run lit) = run) by (rewrite firstn_length; lia).
    cbn [app] in *. rewrite <- app_assoc in *.
    rewrite (dec_literal_chunk _ _ _ _ run); [| exact Hch | lia | exact HF].
    cbn [length] in HF. rewrite app_length in HF.
    rewrite IH.
    + rewrite <- app_assoc, firstn_skipn. reflexivity.
    + rewrite skipn_length. lia.
    + lia.
Qed.

Lemma dec_literal (lit rest out : bytes) F :
  length (lzf_literal lit ++ rest) <= F ->
  lzf_dec F (lzf_literal lit ++ rest) out = lzf_dec (length rest) rest (out ++ lit).
Proof. intro H. unfold lzf_literal in *. apply dec_append_literal; auto. Qed.

(* ---------------------------------------------------------------- decoder on one back-reference *)

Lemma dec_backref (off len : nat) (rest out : bytes) F :
  1 <= off -> (N.of_nat off <= 8192)%N -> 3 <= len <= 264 -> off <= length out ->
  length (lzf_backref off len ++ rest) <= F ->
  lzf_dec F (lzf_backref off len ++ rest) out
  = lzf_dec (length rest) rest (copy_back len (length out - off) out).
Proof.
  intros Ho Ho2 Hl Hout HF. unfold lzf_backref in *.
  destruct (len <=? 8) eqn:Hs.
  - apply Nat.leb_le in Hs.
    destruct F as [|F]; [cbn [length app] in HF; lia|].
    cbn [app lzf_dec].
    set (o := N.of_nat (off - 1)). set (l := N.of_nat len).
    assert (Hoo : (o < 8192)%N) by (subst o; lia).
    assert (Hll : (3 <= l <= 8)%N) by (subst l; lia).
    assert (Hc : wrap8 ((l - 2) * 32 + o / 256) = ((l - 2) * 32 + o / 256)%N) by (unfold wrap8; lia).
    rewrite Hc.
    replace ((l - 2) * 32 + o / 256 <? 32)%N with false by (symmetry; apply N.ltb_ge; lia).
    replace (((l - 2) * 32 + o / 256) / 32 =? 7)%N with false by (symmetry; apply N.eqb_neq; lia).
    replace (N.to_nat ((((l - 2) * 32 + o / 256) mod 32) * 256 + o mod 256) + 1) with off by (subst o l; lia).
    replace (N.to_nat (((l - 2) * 32 + o / 256) / 32) + 2) with len by (subst o l; lia).
    replace (length out <? off) with false by (symmetry; apply Nat.ltb_ge; lia).
    apply lzf_dec_fuel; auto. cbn [length app] in HF. lia.
  - apply Nat.leb_gt in Hs.
    destruct F as [|F]; [cbn [length app] in HF; lia|].
    cbn [app lzf_dec].
    set (o := N.of_nat (off - 1)). set (l := N.of_nat len).
    assert (Hoo : (o < 8192)%N) by (subst o; lia).
    assert (Hll : (9 <= l <= 264)%N) by (subst l; lia).
    assert (Hc : wrap8 (224 + o / 256) = (224 + o / 256)%N) by (unfold wrap8; lia).
    assert (Hc2 : wrap8 (l - 9) = (l - 9)%N) by (unfold wrap8; lia).
    rewrite Hc, Hc2.
    replace (224 + o / 256 <? 32)%N with false by (symmetry; apply N.ltb_ge; lia).
    replace ((224 + o / 256) / 32 =? 7)%N with true by (symmetry; apply N.eqb_eq; lia).
    replace (N.to_nat (((224 + o / 256) mod 32) * 256 + o mod 256) + 1) with off by (subst o l; lia).
    replace (N.to_nat (l - 9) + 9) with len by (subst o l; lia).
    replace (length out <? off) with false by (symmetry; apply Nat.ltb_ge; lia).
    apply lzf_dec_fuel; auto. cbn [length app] in HF. lia.
Qed.

(* the copy loop reproduces the next n input bytes when the compressor has compared them equal *)
Lemma copy_back_prefix : forall n p r (input : bytes),
  r < p -> p + n <= length input ->
  (forall k, k < n -> nth (r + k) input 0%N = nth (p + k) input 0%N) ->
  copy_back n r (firstn p input) = firstn (p + n) input.
Proof.
  induction n as [|n IH]; intros p r input Hr Hp Heq; cbn [copy_back].
  - now rewrite Nat.add_0_r.
  - rewrite nth_firstn_lt by exact Hr.
    pose proof (Heq 0 ltac:(lia)) as H0. rewrite !Nat.add_0_r in H0. rewrite H0.
    rewrite firstn_snoc_nth by lia.
    rewrite IH; [f_equal; lia | lia | lia |].
    intros k Hk. specialize (Heq (S k) ltac:(lia)).
    now replace (S r + k) with (r + S k) by lia; replace (S p + k) with (p + S k) by lia.
Qed.

(* ---------------------------------------------------------------- compressor: match extension *)

Lemma lzf_ext_spec : forall bound (a b : bytes),
  lzf_ext a b bound <= bound /\ forall k, k < lzf_ext a b bound -> nth k a 0%N = nth k b 0%N.
Proof.
  induction bound as [|bound IH]; intros a b.
  - assert (E : lzf_ext a b 0 = 0) by (destruct a; reflexivity). rewrite E. split; [lia|intros; exfalso; lia].
  - destruct a as [|x a]; [cbn [lzf_ext]; split; [lia|intros; exfalso; lia]|].
    destruct b as [|y b]; [cbn [lzf_ext]; split; [lia|intros; exfalso; lia]|].
    cbn [lzf_ext].
    destruct (N.eqb_spec x y) as [->|]; [|split; [lia|intros; exfalso; lia]].
    destruct (IH a b) as [H1 H2]. split; [lia|].
    intros [|k] Hk; cbn [nth]; auto. apply H2. lia.
Qed.

(* ---------------------------------------------------------------- compressor loop invariant *)

Lemma lzf_loop_decodes (input : bytes) : forall fuel inPos litPos rest t,
  litPos <= inPos -> inPos <= length input -> rest = skipn inPos input ->
  length input - inPos < fuel ->
  let O := lzf_loop fuel input (length input) inPos litPos rest t in
  lzf_dec (length O) O (firstn litPos input) = Ok input.
Proof.
  induction fuel as [|fuel IH]; intros inPos litPos rest t Hlp Hip Hrest Hfuel; [lia|].
  cbn [lzf_loop].
  (* the tail case is shared by the three short shapes of rest *)
  assert (Tail : forall O, O = (if litPos <? length input then lzf_literal (skipn litPos input) else []) ->
                           lzf_dec (length O) O (firstn litPos input) = Ok input).
  { intros O ->. destruct (litPos <? length input) eqn:Hl.
    - rewrite <- (app_nil_r (lzf_literal _)).
      rewrite dec_literal by lia. cbn [length lzf_dec]. now rewrite firstn_skipn.
    - apply Nat.ltb_ge in Hl. cbn [length lzf_dec]. rewrite firstn_all2 by lia. reflexivity. }
  destruct rest as [|b0 [|b1 [|b2 rest3]]]; try (cbv zeta; now apply Tail).
  cbv zeta.
  symmetry in Hrest.
  destruct (skipn_cons_nth input inPos b0 _ 0%N Hrest) as (N0 & Hrest1 & Hlt0).
  destruct (skipn_cons_nth input (S inPos) b1 _ 0%N Hrest1) as (N1 & Hrest2 & Hlt1).
  destruct (skipn_cons_nth input (S (S inPos)) b2 _ 0%N Hrest2) as (N2 & Hrest3 & Hlt2).
  set (h := lzf_hash b0 b1 b2).
  set (ref := htab_get h t).
  destruct ((0 <? ref) && (ref <? inPos) && (N.of_nat (inPos - ref) <=? 8192)%N
            && (nth ref input 0 =? b0)%N && (nth (ref + 1) input 0 =? b1)%N && (nth (ref + 2) input 0 =? b2)%N) eqn:Hc.
  2:{ (* no match: inPos++ *)
      cbn [tl]. apply IH; auto; try lia. }
  (* match *)
  repeat (apply andb_prop in Hc; destruct Hc as [Hc ?]).
  apply Nat.ltb_lt in Hc.
  match goal with H : (ref <? inPos) = true |- _ => apply Nat.ltb_lt in H; rename H into Hri end.
  match goal with H : (_ <=? 8192)%N = true |- _ => apply N.leb_le in H; rename H into Hoff end.
  match goal with H : (nth ref input 0 =? b0)%N = true |- _ => apply N.eqb_eq in H; rename H into E0 end.
  match goal with H : (nth (ref + 1) input 0 =? b1)%N = true |- _ => apply N.eqb_eq in H; rename H into E1 end.
  match goal with H : (nth (ref + 2) input 0 =? b2)%N = true |- _ => apply N.eqb_eq in H; rename H into E2 end.
  set (maxLen := Nat.min (length input - inPos) 264).
  set (ext := lzf_ext (skipn (ref + 3) input) (skipn 3 (b0 :: b1 :: b2 :: rest3)) (maxLen - 3)).
  destruct (lzf_ext_spec (maxLen - 3) (skipn (ref + 3) input) (skipn 3 (b0 :: b1 :: b2 :: rest3))) as [Hext1 Hext2].
  fold ext in Hext1, Hext2.
  set (matchLen := 3 + ext).
  assert (HmaxLen : 3 <= maxLen /\ maxLen <= 264 /\ maxLen <= length input - inPos) by (subst maxLen; lia).
  assert (HmatchLen : 3 <= matchLen /\ matchLen <= 264 /\ inPos + matchLen <= length input) by (subst matchLen; lia).
  (* the bytes the back-reference copies are equal *)
  assert (Heq : forall k, k < matchLen -> nth (ref + k) input 0%N = nth (inPos + k) input 0%N).
  { intros k Hk. destruct k as [|[|[|k]]].
    - rewrite !Nat.add_0_r. congruence.
    - replace (inPos + 1) with (S inPos) by lia. congruence.
    - replace (inPos + 2) with (S (S inPos)) by lia. congruence.
    - specialize (Hext2 k ltac:(subst matchLen; lia)).
      rewrite <- Hrest in Hext2. rewrite skipn_skipn_add, !nth_skipn_add in Hext2.
      replace (ref + S (S (S k))) with (ref + 3 + k) by lia.
      replace (inPos + S (S (S k))) with (inPos + 3 + k) by lia. exact Hext2. }
  set (rest' := skipn matchLen (b0 :: b1 :: b2 :: rest3)).
  assert (Hrest' : rest' = skipn (inPos + matchLen) input).
  { subst rest'. rewrite <- Hrest. apply skipn_skipn_add. }
  set (t2 := htab_fill _ _ _ _).
  set (O' := lzf_loop fuel input (length input) (inPos + matchLen) (inPos + matchLen) rest' t2).
  specialize (IH (inPos + matchLen) (inPos + matchLen) rest' t2 ltac:(lia) ltac:(lia) Hrest' ltac:(lia)).
  cbv zeta in IH. fold O' in IH.
  set (lit := if litPos <? inPos then lzf_literal (firstn (inPos - litPos) (skipn litPos input)) else []).
  (* literal part brings the output to input[0:inPos] *)
  assert (Hlit : forall R F, length (lit ++ R) <= F ->
                 lzf_dec F (lit ++ R) (firstn litPos input) = lzf_dec (length R) R (firstn inPos input)).
  { intros R F HF. subst lit. destruct (litPos <? inPos) eqn:Hl.
    - rewrite dec_literal by exact HF. rewrite firstn_skipn_glue by lia. reflexivity.
    - apply Nat.ltb_ge in Hl. replace litPos with inPos by lia. cbn [app] in *. now apply lzf_dec_fuel. }
  rewrite Hlit by lia.
  rewrite dec_backref; try lia.
  2:{ rewrite firstn_length. lia. }
  rewrite firstn_length. replace (Nat.min inPos (length input)) with inPos by lia.
  replace (inPos - (inPos - ref)) with ref by lia.
  rewrite copy_back_prefix; auto; lia.
Qed.

Theorem lzf_roundtrip x : lzf_decompress (lzf_compress x) = Ok x.
Proof.
  destruct x as [|a x']; [reflexivity|]. set (x := a :: x').
  unfold lzf_compress. fold x.
  pose proof (lzf_loop_decodes x (S (length x)) 0 0 x (PositiveMap.empty nat)
               ltac:(lia) ltac:(lia) eq_refl ltac:(lia)) as H.
  cbv zeta in H. cbn [firstn] in H.
  unfold lzf_decompress.
  destruct (lzf_loop _ _ _ _ _ _ _) as [|c O]; [cbn [length lzf_dec] in H; subst x; discriminate|].
  exact H.
Qed.

(* the decompressor on arbitrary (malformed) input: an error or a value, never a run-time failure *)
Theorem lzf_decompress_total i : lzf_decompress i <> OutOfFuel /\ lzf_decompress i <> Panic.
Proof.
  unfold lzf_decompress. destruct i; [split; discriminate|]. now apply lzf_dec_total.
Qed.
