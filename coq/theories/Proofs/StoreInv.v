(* State-level invariant and the history theorems (induction over arbitrary operation lists). *)
From HV Require Import Base.Prelude Model.Store Proofs.Store Proofs.StoreOps.

Local Open Scope N_scope.

Section WithPatches.
Variables bp ba : bool.
Notation cfgb := (gcfg bp ba).

Record st_ok (s : state) : Prop := {
  ok_conf : conf s = cfgb;
  ok_ext : ext_ok (st s);
  ok_lens : lens_ok cfgb (exts (st s));
  ok_objs : objs_ok (objs s);
  ok_fs : ovf (st s) = false -> fsize (st s) <= next (al (st s));
  ok_sb : ovf (st s) = false -> sb_size (sbv s) <= next (al (st s));
  ok_closed : closed s = true -> ovf (st s) = false -> next (al (st s)) <= fsize (st s);
  ok_super : In (mkExt 0 (sb_size (sbv s)) 0 KSuper) (exts (st s));
  ok_sbeof : closed s = true -> next (al (st s)) <= sbeof s
}.

(* ------------------------------------------------------------------ the generic step *)

Definition is_session_op (o : op) : bool := match o with OpClose | OpReopen => true | _ => false end.

Definition cleared (s : state) : state :=
  mkState (clear_log (st s)) (objs s) (opidx s) (closed s) (session s) (sbv s) (conf s) (sbeof s) (gh s).

Lemma compile_cleared : forall s o, compile (cleared s) o = compile s o.
Proof. reflexivity. Qed.

Lemma targets_cleared : forall s o, targets (cleared s) o = targets s o.
Proof. reflexivity. Qed.

(* unfolding of step for the calls that go through compile / exec *)
Lemma step_api : forall s o, is_session_op o = false ->
  step s o =
  (let '(cmds, ok, upd) := compile s o in
   let '(st', done) := exec (clear_log (st s)) cmds in
   let applies := match o with OpHardLink _ _ _ _ => done | _ => ok && done end in
   let g' := match o with OpWriteVL y lens sizes => snd (vl_compile s y lens sizes) | _ => gh s end in
   (mkState st' (if applies then upd (objs s) else objs s) (opidx s + 1) (closed s) (session s) (sbv s) (conf s) (sbeof s) g',
    ok && done)).
Proof. intros s o H. destruct o; try discriminate; reflexivity. Qed.

Lemma ext_ok_clear : forall s, ext_ok s -> ext_ok (clear_log s).
Proof. intros s H. exact H. Qed.

Lemma compile_closed : forall s o, closed s = true -> compile s o = reject.
Proof. intros s o H. unfold compile. rewrite H. reflexivity. Qed.

(* everything the generic layer gives for one API call *)
Lemma step_api_keeps : forall s o T,
  st_ok s -> is_session_op o = false ->
  cmds_ok cfgb T [] (fst (fst (compile s o))) = true ->
  ovf (st (fst (step s o))) = false ->
  keeps cfgb T (next (al (st s))) (clear_log (st s)) (st (fst (step s o))).
Proof.
  intros s o T Hs Ho HC Hov. rewrite (step_api s o Ho) in *.
  destruct (compile s o) as [[cmds ok] upd]. cbn [fst] in HC.
  destruct (exec (clear_log (st s)) cmds) as [st' done] eqn:E. cbn [fst st] in *.
  eapply exec_keeps; eauto.
  - apply ext_ok_clear, (ok_ext _ Hs).
  - apply (ok_lens _ Hs).
  - cbn. lia.
  - intros o' k' [].
Qed.

(* globalHeapWriter.Flush: one write, of the recorded size, at the start of the collection of that size *)
Lemma gflush_spec : forall g s, lens_ok cfgb (exts s) ->
  al (gflush g s) = al s /\ exts (gflush g s) = exts s /\ ovf (gflush g s) = ovf s /\ blocks (gflush g s) = blocks s /\
  fsize s <= fsize (gflush g s) /\
  (ext_ok s -> ovf s = false -> fsize s <= next (al s) -> fsize (gflush g s) <= next (al s)) /\
  (forall w, In w (wlog (gflush g s)) -> In w (wlog s) \/
      exists e sz, In e (exts s) /\ owner e = 0 /\ kind_of e = KGCol sz /\ len e = sz /\ w = (start e, sz)) /\
  (g = None -> gflush g s = s).
Proof.
  intros g s Hl.
  assert (Hid : al s = al s /\ exts s = exts s /\ ovf s = ovf s /\ blocks s = blocks s /\ fsize s <= fsize s /\
                (ext_ok s -> ovf s = false -> fsize s <= next (al s) -> fsize s <= next (al s)) /\
                (forall w, In w (wlog s) -> In w (wlog s) \/
                   exists e sz, In e (exts s) /\ owner e = 0 /\ kind_of e = KGCol sz /\ len e = sz /\ w = (start e, sz)))
    by (repeat split; auto; lia).
  destruct Hid as (I1 & I2 & I3 & I4 & I5 & I6 & I7).
  unfold gflush. destruct g as [[sz fr]|]; [|repeat split; auto].
  destruct (find_ext (exts s) 0 (KGCol sz)) as [e|] eqn:E; [|repeat split; auto; discriminate].
  destruct (find_ext_spec _ _ _ _ E) as (Hin & Ho & Hk).
  assert (HL : len e = sz).
  { unfold lens_ok in Hl. rewrite Forall_forall in Hl. apply (Hl e Hin sz). rewrite Hk. reflexivity. }
  destruct (write_fields s (start e) sz) as (A & B & C & D).
  split; [exact A|]. split; [exact B|]. split; [exact C|]. split; [exact D|].
  split; [apply write_fsize_ge|]. split; [|split; [|discriminate]].
  - intros Hok Hov Hfs. destruct (Hok Hov) as [HF _]. rewrite Forall_forall in HF. specialize (HF e Hin).
    unfold ext_end in HF. apply write_fsize; lia.
  - intros w Hw. destruct (write_log _ _ _ _ Hw) as [H|[H _]]; [left; exact H|].
    right. exists e, sz. auto.
Qed.

(* what Close does to a state (on the cleared copy used by step) *)
Lemma do_close_spec : forall s, st_ok s ->
  let s1 := do_close (cleared s) in
  exts (st s1) = exts (st s) /\ ovf (st s1) = ovf (st s) /\ al (st s1) = al (st s) /\ blocks (st s1) = blocks (st s) /\
  objs s1 = objs s /\ conf s1 = conf s /\ sbv s1 = sbv s /\ closed s1 = true /\ session s1 = session s /\
  (ovf (st s) = false -> fsize (st s1) = next (al (st s))) /\
  next (al (st s)) <= sbeof s1 /\ sbeof s <= sbeof s1 /\
  (forall w, In w (wlog (st s1)) -> w = (0, sb_update_len) \/
      exists e sz, In e (exts (st s)) /\ owner e = 0 /\ kind_of e = KGCol sz /\ len e = sz /\ w = (start e, sz)) /\
  (closed s = true -> st s1 = clear_log (st s) /\ sbeof s1 = sbeof s) /\
  (next (al (st s)) <= sbeof s -> gh s = None ->
     wlog (st s1) = [] /\ sbeof s1 = sbeof s /\ fsize (st s1) = N.max (fsize (st s)) (next (al (st s))) \/ closed s = true) /\
  gh s1 = gh s.
Proof.
  intros s Hs s1. unfold s1, do_close, cleared. cbn [closed].
  destruct (closed s) eqn:Ecl.
  - cbn [st objs conf sbv closed session sbeof clear_log exts ovf al blocks fsize wlog gh].
    repeat split; auto; try lia.
    + intros H. pose proof (ok_closed _ Hs Ecl H). pose proof (ok_fs _ Hs H). lia.
    + apply (ok_sbeof _ Hs Ecl).
    + intros w [].
  - cbn [st objs conf sbv closed session sbeof gh].
    rewrite (ok_conf _ Hs). unfold close_store. cbn [c_extend_close gcfg].
    destruct (gflush_spec (gh s) (clear_log (st s)) (ok_lens _ Hs)) as (G1 & G2 & G3 & G4 & G5 & G6 & G7 & G8).
    set (st0 := gflush (gh s) (clear_log (st s))) in *.
    set (st1 := if sbeof s <? next (al (clear_log (st s))) then write st0 0 sb_update_len else st0).
    cbn [clear_log al exts ovf blocks fsize wlog] in G1, G2, G3, G4, G5, G6, G7.
    assert (Hf : exts st1 = exts (st s) /\ ovf st1 = ovf (st s) /\ al st1 = al (st s) /\ blocks st1 = blocks (st s)).
    { unfold st1. destruct (sbeof s <? next (al (clear_log (st s)))).
      - destruct (write_fields st0 0 sb_update_len) as (A & B & C & D). rewrite A, B, C, D. auto.
      - auto. }
    destruct Hf as (F1 & F2 & F3 & F4).
    assert (Hfs1 : ovf (st s) = false -> fsize st1 <= next (al (st s))).
    { intros H. pose proof (ok_fs _ Hs H). pose proof (ok_sb _ Hs H).
      assert (fsize st0 <= next (al (st s))) by (apply G6; auto; apply ext_ok_clear, (ok_ext _ Hs)).
      unfold st1. destruct (sbeof s <? next (al (clear_log (st s)))); [|assumption].
      apply write_fsize; [assumption|]. unfold sb_update_len. unfold sb_size in *. destruct (sbv s =? 0); lia. }
    cbn [exts ovf al blocks fsize wlog next]. rewrite F1, F2, F3, F4.
    split; [reflexivity|]. split; [reflexivity|]. split; [reflexivity|]. split; [reflexivity|].
    split; [reflexivity|]. split; [reflexivity|]. split; [reflexivity|]. split; [reflexivity|]. split; [reflexivity|].
    split; [intros H; specialize (Hfs1 H); lia|].
    split; [cbn [clear_log al]; lia|]. split; [lia|].
    split; [|split; [discriminate|split; [|reflexivity]]].
    + intros w Hw. unfold st1 in Hw. destruct (sbeof s <? next (al (clear_log (st s)))).
      * destruct (write_log _ _ _ _ Hw) as [H|[H _]]; [|left; exact H].
        destruct (G7 w H) as [[]|H']. right. exact H'.
      * destruct (G7 w Hw) as [[]|H']. right. exact H'.
    + intros Hle Hg. left. unfold st1. cbn [clear_log al].
      assert (E : sbeof s <? next (al (st s)) = false) by (apply N.ltb_ge; exact Hle).
      rewrite E. rewrite (G8 Hg). cbn [clear_log wlog fsize]. repeat split; auto. lia.
Qed.

Lemma step_objs_ok : forall s o, st_ok s -> objs_ok (objs (fst (step s o))).
Proof.
  intros s o Hs. destruct (is_session_op o) eqn:Eo.
  - destruct (do_close_spec s Hs) as (_ & _ & _ & _ & Ho & _).
    destruct o; try discriminate; cbn [step fst objs]; fold (cleared s); rewrite Ho; apply (ok_objs _ Hs).
  - rewrite (step_api s o Eo).
    pose proof (compile_good _ _ s o (ok_objs _ Hs) (ok_conf _ Hs)) as G.
    destruct (compile s o) as [[cmds ok] upd]. destruct G as (_ & G & _).
    destruct (exec (clear_log (st s)) cmds) as [st' done]. cbn [fst objs].
    match goal with |- objs_ok (if ?b then _ else _) => destruct b end; [exact G | apply (ok_objs _ Hs)].
Qed.

(* extents are never removed *)
Lemma exec_cmd_incl : forall s x s', exec_cmd s x = Some s' -> incl (exts s) (exts s').
Proof.
  intros s x s' E.
  destruct x as [o k n|o k n|o k off n|o k|o k hsz|a n|o parts]; cbn [exec_cmd] in E.
  - destruct (alloc_ext s o k n) as [[e s2]|] eqn:E2; [|discriminate]. inversion E; subst.
    destruct (alloc_ext_spec _ _ _ _ _ _ E2) as (_ & _ & Hx & _). rewrite Hx. apply incl_tl, incl_refl.
  - destruct (alloc_ext s o k n) as [[e s2]|] eqn:E2; [|discriminate]. inversion E; subst.
    destruct (alloc_ext_spec _ _ _ _ _ _ E2) as (_ & _ & Hx & _).
    destruct (write_fields s2 (start e) n) as (_ & He & _). rewrite He, Hx. apply incl_tl, incl_refl.
  - destruct (find_ext (exts s) o k); [|discriminate]. inversion E; subst.
    destruct (write_fields s (start e + off) n) as (_ & He & _). rewrite He. apply incl_refl.
  - destruct (find_ext (exts s) o k); [|discriminate]. inversion E; subst.
    destruct (write_fields s (start e) (len e)) as (_ & He & _). rewrite He. apply incl_refl.
  - destruct (find_ext (exts s) o k); [|discriminate].
    destruct (next (al s) <? start e + hsz).
    + destruct (alloc_ext s o KSpill (start e + hsz - next (al s))) as [[e1 s2]|] eqn:E2; [|discriminate].
      inversion E; subst. destruct (alloc_ext_spec _ _ _ _ _ _ E2) as (_ & _ & Hx & _). rewrite Hx. apply incl_tl, incl_refl.
    + inversion E; subst. apply incl_refl.
  - inversion E; subst. destruct (write_fields s a n) as (_ & He & _). rewrite He. apply incl_refl.
  - unfold allocate in E. destruct (parts_total parts =? 0); [discriminate|]. inversion E; subst. cbn.
    apply incl_appr, incl_refl.
Qed.

Lemma exec_incl : forall cmds s s' b, exec s cmds = (s', b) -> forall e, In e (exts s) -> In e (exts s').
Proof.
  induction cmds as [|x r IH]; intros s s' b E e He; cbn [exec] in E.
  - inversion E; subst; exact He.
  - destruct (exec_cmd s x) as [s1|] eqn:E1.
    + eapply IH; [exact E|]. apply (exec_cmd_incl _ _ _ E1). exact He.
    + inversion E; subst; exact He.
Qed.

(* fixed-size kinds keep their size: no overflow hypothesis needed *)
Lemma exec_lens : forall c T cmds fr s0 s' b,
  cmds_ok c T fr cmds = true -> exec s0 cmds = (s', b) -> lens_ok c (exts s0) -> lens_ok c (exts s').
Proof.
  induction cmds as [|x r IH]; intros fr s0 s' b HC E Hl.
  - cbn in E. inversion E; subst. exact Hl.
  - cbn [exec] in E. destruct (exec_cmd s0 x) as [s1|] eqn:E1; [|inversion E; subst; exact Hl].
    destruct x as [o k n|o k n|o k off n|o k|o k hsz|a n|o parts]; cbn [cmds_ok] in HC; try discriminate; cbn [exec_cmd] in E1.
    + apply andb_true_iff in HC. destruct HC as [H1 H2].
      destruct (alloc_ext s0 o k n) as [[e s2]|] eqn:E2; [|discriminate]. inversion E1; subst.
      eapply IH; [exact H2|exact E|]. eapply lens_ok_alloc; eauto. apply alloc_sized_spec; exact H1.
    + apply andb_true_iff in HC. destruct HC as [H1 H2].
      destruct (alloc_ext s0 o k n) as [[e s2]|] eqn:E2; [|discriminate]. inversion E1; subst.
      eapply IH; [exact H2|exact E|]. destruct (write_fields s2 (start e) n) as (_ & He & _). rewrite He.
      eapply lens_ok_alloc; eauto. apply alloc_sized_spec; exact H1.
    + apply andb_true_iff in HC. destruct HC as [_ H2].
      destruct (find_ext (exts s0) o k) as [e|]; [|discriminate]. inversion E1; subst.
      eapply IH; [exact H2|exact E|]. destruct (write_fields s0 (start e + off) n) as (_ & He & _). rewrite He. exact Hl.
    + apply andb_true_iff in HC. destruct HC as [_ H2].
      destruct (find_ext (exts s0) o k) as [e|]; [|discriminate]. inversion E1; subst.
      eapply IH; [exact H2|exact E|]. destruct (write_fields s0 (start e) (len e)) as (_ & He & _). rewrite He. exact Hl.
    + destruct (find_ext (exts s0) o k) as [e|]; [|discriminate].
      destruct (next (al s0) <? start e + hsz).
      * destruct (alloc_ext s0 o KSpill (start e + hsz - next (al s0))) as [[e1 s2]|] eqn:E2; [|discriminate].
        inversion E1; subst. eapply IH; [exact HC|exact E|]. eapply lens_ok_alloc; eauto. intros L HL. discriminate.
      * inversion E1; subst. eapply IH; eauto.
Qed.

Theorem step_ok : forall s o, st_ok s -> st_ok (fst (step s o)).
Proof.
  intros s o Hs. pose proof (step_objs_ok s o Hs) as Hobj.
  destruct (is_session_op o) eqn:Eo.
  - (* Close / Reopen *)
    destruct (do_close_spec s Hs) as (Dx & Dov & Dal & _ & Dobj & Dconf & Dsbv & Dcl & _ & Dfs & Dsb & _ & _ & _ & _).
    destruct o; try discriminate.
    + (* Close *)
      cbn [step fst]. fold (cleared s).
      constructor; cbn [conf st objs closed sbv sbeof].
      * rewrite Dconf. apply (ok_conf _ Hs).
      * unfold ext_ok. rewrite Dx, Dov, Dal. apply (ok_ext _ Hs).
      * rewrite Dx. apply (ok_lens _ Hs).
      * exact Hobj.
      * rewrite Dov, Dal. intros H. rewrite (Dfs H). lia.
      * rewrite Dov, Dal, Dsbv. apply (ok_sb _ Hs).
      * rewrite Dov, Dal. intros _ H. rewrite (Dfs H). lia.
      * rewrite Dx, Dsbv. apply (ok_super _ Hs).
      * rewrite Dal. intros _. exact Dsb.
    + (* Reopen *)
      cbn [step fst]. fold (cleared s).
      constructor; cbn [conf st objs closed sbv sbeof reopen_store exts al next fsize ovf].
      * apply (ok_conf _ Hs).
      * unfold ext_ok. cbn [reopen_store exts al next ovf]. rewrite Dx, Dov. intros H.
        destruct (ok_ext _ Hs H) as [HF HN]. split; [|exact HN].
        eapply Forall_impl; [|exact HF]. cbn. intros a Ha. rewrite (Dfs H). lia.
      * rewrite Dx. apply (ok_lens _ Hs).
      * exact Hobj.
      * rewrite Dov. intros H. lia.
      * rewrite Dov. intros H. lia.
      * discriminate.
      * rewrite Dx. apply (ok_super _ Hs).
      * discriminate.
  - (* API call *)
    pose proof (compile_good _ _ s o (ok_objs _ Hs) (ok_conf _ Hs)) as G.
    assert (HC : cmds_ok cfgb (targets s o) [] (fst (fst (compile s o))) = true).
    { destruct (compile s o) as [[cmds ok] upd]. destruct G as (G & _). exact G. }
    assert (HK : ovf (st (fst (step s o))) = false ->
                 keeps cfgb (targets s o) (next (al (st s))) (clear_log (st s)) (st (fst (step s o))))
      by (intros H; apply step_api_keeps; auto).
    assert (Hfields : conf (fst (step s o)) = conf s /\ sbv (fst (step s o)) = sbv s /\ closed (fst (step s o)) = closed s).
    { rewrite (step_api s o Eo). destruct (compile s o) as [[cmds ok] upd].
      destruct (exec (clear_log (st s)) cmds) as [st' done]. cbn. auto. }
    destruct Hfields as (F1 & F2 & F3).
    constructor.
    + rewrite F1. apply (ok_conf _ Hs).
    + intros H. apply (k_ext _ _ _ _ _ (HK H)); auto. apply ext_ok_clear, (ok_ext _ Hs).
    + (* lens_ok does not need the overflow flag: use exec directly *)
      rewrite (step_api s o Eo). destruct (compile s o) as [[cmds ok] upd]. cbn [fst] in HC.
      destruct (exec (clear_log (st s)) cmds) as [st' done] eqn:E. cbn [fst st].
      eapply exec_lens; [exact HC | exact E | apply (ok_lens _ Hs)].
    + exact Hobj.
    + intros H. pose proof (HK H) as K. apply (k_fs _ _ _ _ _ K H).
      * apply ext_ok_clear, (ok_ext _ Hs).
      * apply (ok_lens _ Hs).
      * cbn. apply (ok_fs _ Hs). apply (k_ovf _ _ _ _ _ K H).
    + intros H. pose proof (HK H) as K. rewrite F2.
      pose proof (k_next _ _ _ _ _ K H). cbn in H0.
      pose proof (ok_sb _ Hs (k_ovf _ _ _ _ _ K H)). lia.
    + rewrite F3. intros Hcl H.
      (* a closed writer rejects every call: the store is unchanged *)
      rewrite (step_api s o Eo) in *. rewrite (compile_closed s o Hcl) in *. cbn in *.
      apply (ok_closed _ Hs Hcl H).
    + rewrite F2. rewrite (step_api s o Eo). destruct (compile s o) as [[cmds ok] upd].
      destruct (exec (clear_log (st s)) cmds) as [st' done] eqn:E. cbn [fst st].
      apply (exec_incl _ _ _ _ E). cbn [clear_log exts]. apply (ok_super _ Hs).
    + rewrite F3. intros Hcl.
      rewrite (step_api s o Eo) in *. rewrite (compile_closed s o Hcl) in *. cbn in *.
      apply (ok_sbeof _ Hs Hcl).
Qed.

Theorem run_ok : forall h s, st_ok s -> st_ok (run s h).
Proof. induction h as [|o r IH]; intros s Hs; [exact Hs|]. cbn [run fold_left]. apply IH. apply step_ok. exact Hs. Qed.

(* ------------------------------------------------------------------ CreateForWrite establishes the invariant *)

Definition lens_b (c : cfg) (l : list extent) : bool :=
  forallb (fun e => match sized c (kind_of e) with Some L => len e =? L | None => true end) l.
Lemma lens_b_sound : forall c l, lens_b c l = true -> lens_ok c l.
Proof.
  intros c l H. unfold lens_b in H. rewrite forallb_forall in H. unfold lens_ok. rewrite Forall_forall.
  intros e He L HL. specialize (H e He). rewrite HL in H. apply N.eqb_eq. exact H.
Qed.
Lemma ends_b_sound : forall l n, forallb (fun e => ext_end e <=? n) l = true -> Forall (fun e => ext_end e <= n) l.
Proof. intros l n H. rewrite forallb_forall in H. rewrite Forall_forall. intros e He. apply N.leb_le. auto. Qed.

Ltac init_goal :=
  first [ reflexivity | discriminate
        | (intros _; split; [apply ends_b_sound | apply no_overlap_b_sound]; vm_compute; reflexivity)
        | (apply lens_b_sound; vm_compute; reflexivity)
        | (repeat constructor; apply N.leb_le; vm_compute; reflexivity)
        | (intros _; apply N.leb_le; vm_compute; reflexivity) ].

Lemma init_ok : forall sb, st_ok (init cfgb sb).
Proof.
  intros sb. destruct (sb =? 0) eqn:E.
  - apply N.eqb_eq in E. subst sb.
    constructor; cbn [conf st objs closed sbv init]; init_goal.
  - assert (Hsz : sb_size sb = 48) by (unfold sb_size; rewrite E; reflexivity).
    unfold init, init_cmds, empty_store. rewrite E, Hsz.
    constructor; cbn [conf st objs closed sbv]; try rewrite Hsz; init_goal.
Qed.

(* ------------------------------------------------------------------ C04: writes within owned / frame *)

(* Close / Reopen: the store of the result is the closed store (Reopen: with the allocator re-seeded) *)
Lemma step_session_store : forall s o, is_session_op o = true ->
  exts (st (fst (step s o))) = exts (st (do_close (cleared s))) /\
  wlog (st (fst (step s o))) = wlog (st (do_close (cleared s))) /\
  ovf (st (fst (step s o))) = ovf (st (do_close (cleared s))).
Proof. intros s o H. destruct o; try discriminate; cbn [step fst st reopen_store exts wlog ovf]; fold (cleared s); auto. Qed.

Theorem step_writes_legal : forall s o, st_ok s -> ovf (st (fst (step s o))) = false ->
  forall w, In w (wlog (st (fst (step s o)))) ->
  legal (targets s o) (next (al (st s))) (exts (st (fst (step s o)))) w.
Proof.
  intros s o Hs Hov w Hw. destruct (is_session_op o) eqn:Eo.
  - (* only the superblock update of Close *)
    destruct (step_session_store s o Eo) as (Ex & Ew & _).
    destruct (do_close_spec s Hs) as (Dx & _ & _ & _ & _ & _ & _ & _ & _ & _ & _ & _ & Dw & _).
    rewrite Ew in Hw. rewrite Ex, Dx. destruct (Dw w Hw) as [->|(e & sz & Hin & Ho & Hk & HL & ->)].
    + exists (mkExt 0 (sb_size (sbv s)) 0 KSuper). split; [apply (ok_super _ Hs)|].
      cbn. repeat split; try lia.
      * unfold ext_end, sb_update_len, sb_size. cbn. destruct (sbv s =? 0); lia.
      * left. destruct o; try discriminate; reflexivity.
    + (* the flush of the current global heap collection: exactly its extent *)
      exists e. split; [exact Hin|]. cbn [fst snd]. unfold ext_end. rewrite HL. repeat split; try lia.
      left. rewrite Ho, Hk. destruct o; try discriminate; reflexivity.
  - pose proof (compile_good _ _ s o (ok_objs _ Hs) (ok_conf _ Hs)) as G.
    assert (HC : cmds_ok cfgb (targets s o) [] (fst (fst (compile s o))) = true).
    { destruct (compile s o) as [[cmds ok] upd]. destruct G as (G & _). exact G. }
    pose proof (step_api_keeps s o _ Hs Eo HC Hov) as K.
    destruct (k_log _ _ _ _ _ K Hov) with (w := w) as [H|H]; auto.
    + apply ext_ok_clear, (ok_ext _ Hs).
    + apply (ok_lens _ Hs).
    + cbn. lia.
    + destruct H.
Qed.

Lemma step_exts_incl : forall s o, st_ok s -> ovf (st (fst (step s o))) = false ->
  incl (exts (st s)) (exts (st (fst (step s o)))) /\ ovf (st s) = false.
Proof.
  intros s o Hs Hov. destruct (is_session_op o) eqn:Eo.
  - destruct (step_session_store s o Eo) as (Ex & _ & Eo').
    destruct (do_close_spec s Hs) as (Dx & Dov & _).
    rewrite Ex, Dx. rewrite Eo', Dov in Hov. split; [apply incl_refl | exact Hov].
  - pose proof (compile_good _ _ s o (ok_objs _ Hs) (ok_conf _ Hs)) as G.
    assert (HC : cmds_ok cfgb (targets s o) [] (fst (fst (compile s o))) = true).
    { destruct (compile s o) as [[cmds ok] upd]. destruct G as (G & _). exact G. }
    pose proof (step_api_keeps s o _ Hs Eo HC Hov) as K. split.
    + apply (k_incl _ _ _ _ _ K).
    + apply (k_ovf _ _ _ _ _ K Hov).
Qed.

Theorem step_frame : forall s o, st_ok s -> ovf (st (fst (step s o))) = false ->
  forall e', In e' (exts (st s)) -> targets s o (owner e') (kind_of e') = false ->
  forall w, In w (wlog (st (fst (step s o)))) -> wmisses w e'.
Proof.
  intros s o Hs Hov e' Hin HT w Hw.
  destruct (step_exts_incl s o Hs Hov) as [Hi Hov0].
  pose proof (step_ok s o Hs) as Hs'.
  destruct (ok_ext _ Hs' Hov) as [_ HN].
  destruct (ok_ext _ Hs Hov0) as [HF _]. rewrite Forall_forall in HF.
  eapply legal_frame; eauto.
  - apply step_writes_legal; auto.
Qed.

(* ------------------------------------------------------------------ C16: failing calls *)

Definition op_fails (s : state) (o : op) : Prop := snd (fst (compile s o)) = false.

Theorem step_fail_legal : forall s o, st_ok s -> is_session_op o = false -> op_fails s o ->
  ovf (st (fst (step s o))) = false ->
  forall w, In w (wlog (st (fst (step s o)))) ->
  legal (fail_targets o) (next (al (st s))) (exts (st (fst (step s o)))) w.
Proof.
  intros s o Hs Eo Hf Hov w Hw.
  pose proof (compile_good _ _ s o (ok_objs _ Hs) (ok_conf _ Hs)) as G.
  assert (HC : cmds_ok cfgb (fail_targets o) [] (fst (fst (compile s o))) = true).
  { unfold op_fails in Hf. destruct (compile s o) as [[cmds ok] upd]. cbn in Hf. destruct G as (_ & _ & G & _). apply G; exact Hf. }
  pose proof (step_api_keeps s o _ Hs Eo HC Hov) as K.
  destruct (k_log _ _ _ _ _ K Hov) with (w := w) as [H|H]; auto.
  - apply ext_ok_clear, (ok_ext _ Hs).
  - apply (ok_lens _ Hs).
  - cbn. lia.
  - destruct H.
Qed.

(* a failing call that is not a creation, a new attribute, a hard link or a chunked write
   performs no allocation and no write at all *)
Theorem step_fail_quiet : forall s o, st_ok s -> is_session_op o = false -> op_fails s o ->
  may_leave_bytes bp ba o = false ->
  st (fst (step s o)) = clear_log (st s) /\ objs (fst (step s o)) = objs s.
Proof.
  intros s o Hs Eo Hf Hm.
  pose proof (compile_good _ _ s o (ok_objs _ Hs) (ok_conf _ Hs)) as G.
  rewrite (step_api s o Eo). unfold op_fails in Hf.
  destruct (compile s o) as [[cmds ok] upd]. cbn in Hf. subst ok.
  destruct G as (_ & _ & _ & G & G5). rewrite (G eq_refl Hm). cbn.
  rewrite (G5 eq_refl (G eq_refl Hm)).
  destruct o; try discriminate; auto.
Qed.

(* a failed call never changes the bookkeeping, except the reference-count message of a failed hard link *)
Theorem step_fail_objs : forall s o, is_session_op o = false -> op_fails s o ->
  (forall p nl dup t, o <> OpHardLink p nl dup t) ->
  objs (fst (step s o)) = objs s.
Proof.
  intros s o Eo Hf Hn. rewrite (step_api s o Eo). unfold op_fails in Hf.
  destruct (compile s o) as [[cmds ok] upd]. cbn in Hf. subst ok.
  destruct (exec (clear_log (st s)) cmds) as [st' done]. cbn.
  destruct o; try reflexivity. exfalso. eapply Hn; reflexivity.
Qed.

(* ------------------------------------------------------------------ C10: sessions *)

(* a step that issues no store command *)
Definition quiet_step (s : state) (o : op) : Prop :=
  match o with OpClose | OpReopen => True | _ => fst (fst (compile s o)) = [] end.

Fixpoint all_quiet (s : state) (h : list op) : Prop :=
  match h with [] => True | o :: r => quiet_step s o /\ all_quiet (fst (step s o)) r end.

(* concatenated write log of a run *)
Fixpoint run_writes (s : state) (h : list op) : list (N * N) :=
  match h with [] => [] | o :: r => wlog (st (fst (step s o))) ++ run_writes (fst (step s o)) r end.

Definition settled (F : N) (E : list extent) (s : state) : Prop :=
  st_ok s /\ fsize (st s) = F /\ next (al (st s)) = F /\ exts (st s) = E /\ ovf (st s) = false /\ F <= sbeof s /\
  (closed s = true \/ gh s = None).      (* no global heap collection waits for the flush of the next Close *)

(* a variable-length write that issues no store command leaves the heap writer without a collection *)
Lemma vl_compile_quiet : forall s y lens sizes, gh s = None ->
  fst (fst (compile s (OpWriteVL y lens sizes))) = [] -> snd (vl_compile s y lens sizes) = None.
Proof.
  intros s y lens sizes Hg H. unfold compile in H. unfold vl_compile in *.
  destruct (closed s); [exact Hg|].
  destruct (get_obj (objs s) y) as [ob|]; [|exact Hg].
  rewrite Hg in *. destruct (vl_walk None lens) as [hc g'] eqn:Ev.
  destruct (o_kind ob); try reflexivity.
  - cbn in H. apply app_eq_nil in H. destruct H as [_ H]. discriminate.
  - destruct (negb (session s =? 0)); [reflexivity|]. destruct sizes as [|n0 sz]; [reflexivity|].
    destruct (chunked_write y ob (n0 :: sz)) as [[cc ok] upd]. cbn in H |- *. apply app_eq_nil in H. destruct H as [H _]. subst hc.
    apply (vl_walk_none _ _ Ev).
Qed.

Lemma quiet_step_settled : forall F E s o, settled F E s -> quiet_step s o ->
  settled F E (fst (step s o)) /\ wlog (st (fst (step s o))) = [].
Proof.
  intros F E s o (Hs & H1 & H2 & H3 & H4 & H5 & H6) Hq.
  pose proof (step_ok s o Hs) as Hs'.
  destruct (is_session_op o) eqn:Eo.
  - destruct (do_close_spec s Hs) as (Dx & Dov & Dal & _ & _ & _ & Dsbv & Dcd & _ & Dfs & _ & _ & _ & Dcl & Dq & _).
    assert (Hle : next (al (st s)) <= sbeof s) by lia.
    assert (Hq1 : wlog (st (do_close (cleared s))) = [] /\ sbeof (do_close (cleared s)) = sbeof s /\
                  fsize (st (do_close (cleared s))) = F).
    { destruct H6 as [Hc|Hg]; [destruct (Dcl Hc) as [A B]; rewrite A, B; cbn; auto|].
      destruct (Dq Hle Hg) as [(A & B & C)|Hc].
      - repeat split; auto. rewrite C. lia.
      - destruct (Dcl Hc) as [A B]. rewrite A, B. cbn. auto. }
    destruct Hq1 as (Q1 & Q2 & Q3).
    pose proof (ok_sb _ Hs H4) as Hsb.
    destruct o; try discriminate; cbn [step fst] in *; fold (cleared s) in *.
    + unfold settled. split; [split; [exact Hs'|] | cbn [st]; exact Q1].
      cbn [st sbeof]. rewrite Dx, Dov, Dal, Q2, Q3. repeat split; auto.
    + unfold settled. split; [split; [exact Hs'|] | cbn [st reopen_store wlog]; exact Q1].
      cbn [st sbeof reopen_store fsize al next exts ovf wlog gh]. rewrite Dx, Dov, Q2, Q3.
      repeat split; auto. lia.
  - cbn [quiet_step] in Hq. assert (Hq' : fst (fst (compile s o)) = []) by (destruct o; try discriminate; exact Hq).
    assert (Hg' : closed s = true \/
                  match o with OpWriteVL y lens sizes => snd (vl_compile s y lens sizes) | _ => gh s end = None).
    { destruct H6 as [Hc|Hg]; [left; exact Hc|]. right. destruct o; try exact Hg. apply vl_compile_quiet; auto. }
    rewrite (step_api s o Eo) in *. destruct (compile s o) as [[cmds ok] upd]. cbn [fst] in Hq'. subst cmds.
    cbn [exec fst st] in *. unfold settled. split; [split; [exact Hs'|] | reflexivity].
    cbn [st sbeof clear_log fsize al next exts ovf closed gh]. repeat split; auto.
Qed.

Lemma all_quiet_settled : forall h F E s, settled F E s -> all_quiet s h ->
  settled F E (run s h) /\ run_writes s h = [].
Proof.
  induction h as [|o r IH]; intros F E s Hs Hq; [split; [exact Hs | reflexivity]|].
  cbn [all_quiet] in Hq. destruct Hq as [Hq1 Hq2].
  destruct (quiet_step_settled F E s o Hs Hq1) as [Hs' Hw].
  cbn [run fold_left run_writes]. rewrite Hw. cbn [app]. apply IH; auto.
Qed.

Lemma closed_settled : forall s, st_ok s -> closed s = true -> ovf (st s) = false ->
  settled (fsize (st s)) (exts (st s)) s.
Proof.
  intros s Hs Hc Ho. pose proof (ok_fs _ Hs Ho). pose proof (ok_closed _ Hs Hc Ho). pose proof (ok_sbeof _ Hs Hc).
  unfold settled. split; [exact Hs|]. repeat split; auto; lia.
Qed.

Theorem noop_session : forall s h, st_ok s -> closed s = true -> ovf (st s) = false ->
  all_quiet s (OpReopen :: h ++ [OpClose]) ->
  let s' := run s (OpReopen :: h ++ [OpClose]) in
  fsize (st s') = fsize (st s) /\ exts (st s') = exts (st s) /\
  next (al (st s')) = next (al (st s)) /\ run_writes s (OpReopen :: h ++ [OpClose]) = [].
Proof.
  intros s h Hs Hc Ho Hq s'.
  pose proof (closed_settled s Hs Hc Ho) as H0.
  destruct (all_quiet_settled _ _ _ _ H0 Hq) as [(_ & H1 & H2 & H3 & _) Hw].
  fold s' in H1, H2, H3. destruct H0 as (_ & _ & G2 & _). repeat split; auto. lia.
Qed.

(* reopen after close: allocator at or above every extent, so later allocations are disjoint from all of them *)
Theorem reopen_alloc_disjoint : forall s, st_ok s ->
  let s1 := fst (step s OpReopen) in
  st_ok s1 /\
  forall o k n e s2, alloc_ext (st s1) o k n = Some (e, s2) -> ovf s2 = false ->
    forall e', In e' (exts (st s)) -> edisj e e'.
Proof.
  intros s Hs s1. pose proof (step_ok s OpReopen Hs) as Hs1. fold s1 in Hs1. split; [exact Hs1|].
  intros o k n e s2 Ha Hov e' Hin.
  destruct (alloc_ext_next _ _ _ _ _ _ Ha Hov) as [Hov1 _].
  destruct (alloc_ext_spec _ _ _ _ _ _ Ha) as (_ & He & _).
  destruct (ok_ext _ Hs1 Hov1) as [HF _]. rewrite Forall_forall in HF.
  assert (Hin1 : In e' (exts (st s1))).
  { unfold s1. destruct (step_session_store s OpReopen eq_refl) as (Ex & _).
    destruct (do_close_spec s Hs) as (Dx & _). rewrite Ex, Dx. exact Hin. }
  specialize (HF _ Hin1). right. subst e. cbn. exact HF.
Qed.

End WithPatches.
