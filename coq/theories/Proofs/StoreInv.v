(* State-level invariant and the history theorems (induction over arbitrary operation lists). *)
From HV Require Import Base.Prelude Model.Store Proofs.Store Proofs.StoreOps.

Local Open Scope N_scope.

Section WithPatches.
Variables bp ba : bool.
Notation cfgb := (gcfg bp ba).

Record st_ok (s : state) : Prop := {
  ok_conf : conf s = cfgb;
  ok_ext : ext_ok (st s);
  ok_lens : lens_ok cfgb (exts (st s));
  ok_objs : objs_ok (objs s);
  ok_fs : ovf (st s) = false -> fsize (st s) <= next (al (st s));
  ok_sb : ovf (st s) = false -> sb_size (sbv s) <= next (al (st s));
  ok_closed : closed s = true -> ovf (st s) = false -> next (al (st s)) <= fsize (st s)
}.

(* ------------------------------------------------------------------ the generic step *)

Definition is_session_op (o : op) : bool := match o with OpClose | OpReopen => true | _ => false end.

Definition cleared (s : state) : state :=
  mkState (clear_log (st s)) (objs s) (opidx s) (closed s) (session s) (sbv s) (conf s).

Lemma compile_cleared : forall s o, compile (cleared s) o = compile s o.
Proof. reflexivity. Qed.

Lemma targets_cleared : forall s o, targets (cleared s) o = targets s o.
Proof. reflexivity. Qed.

(* unfolding of step for the calls that go through compile / exec *)
Lemma step_api : forall s o, is_session_op o = false ->
  step s o =
  (let '(cmds, ok, upd) := compile s o in
   let '(st', done) := exec (clear_log (st s)) cmds in
   let applies := match o with OpHardLink _ _ _ _ => done | _ => ok && done end in
   (mkState st' (if applies then upd (objs s) else objs s) (opidx s + 1) (closed s) (session s) (sbv s) (conf s),
    ok && done)).
Proof. intros s o H. destruct o; try discriminate; reflexivity. Qed.

Lemma ext_ok_clear : forall s, ext_ok s -> ext_ok (clear_log s).
Proof. intros s H. exact H. Qed.

Lemma compile_closed : forall s o, closed s = true -> compile s o = reject.
Proof. intros s o H. unfold compile. rewrite H. reflexivity. Qed.

(* everything the generic layer gives for one API call *)
Lemma step_api_keeps : forall s o T,
  st_ok s -> is_session_op o = false ->
  cmds_ok cfgb T [] (fst (fst (compile s o))) = true ->
  ovf (st (fst (step s o))) = false ->
  keeps cfgb T (next (al (st s))) (clear_log (st s)) (st (fst (step s o))).
Proof.
  intros s o T Hs Ho HC Hov. rewrite (step_api s o Ho) in *.
  destruct (compile s o) as [[cmds ok] upd]. cbn [fst] in HC.
  destruct (exec (clear_log (st s)) cmds) as [st' done] eqn:E. cbn [fst st] in *.
  eapply exec_keeps; eauto.
  - apply ext_ok_clear, (ok_ext _ Hs).
  - apply (ok_lens _ Hs).
  - cbn. lia.
  - intros o' k' [].
Qed.

Lemma step_objs_ok : forall s o, st_ok s -> objs_ok (objs (fst (step s o))).
Proof.
  intros s o Hs. destruct (is_session_op o) eqn:Eo.
  - destruct o; try discriminate; cbn [step fst objs do_close]; destruct (closed s); cbn; apply (ok_objs _ Hs).
  - rewrite (step_api s o Eo).
    pose proof (compile_good _ _ s o (ok_objs _ Hs) (ok_conf _ Hs)) as G.
    destruct (compile s o) as [[cmds ok] upd]. destruct G as (_ & G & _).
    destruct (exec (clear_log (st s)) cmds) as [st' done]. cbn [fst objs].
    match goal with |- objs_ok (if ?b then _ else _) => destruct b end; [exact G | apply (ok_objs _ Hs)].
Qed.

(* fixed-size kinds keep their size: no overflow hypothesis needed *)
Lemma exec_lens : forall c T cmds fr s0 s' b,
  cmds_ok c T fr cmds = true -> exec s0 cmds = (s', b) -> lens_ok c (exts s0) -> lens_ok c (exts s').
Proof.
  induction cmds as [|x r IH]; intros fr s0 s' b HC E Hl.
  - cbn in E. inversion E; subst. exact Hl.
  - cbn [exec] in E. destruct (exec_cmd s0 x) as [s1|] eqn:E1; [|inversion E; subst; exact Hl].
    destruct x as [o k n|o k n|o k off n|o k|o k hsz|a n|o parts]; cbn [cmds_ok] in HC; try discriminate; cbn [exec_cmd] in E1.
    + apply andb_true_iff in HC. destruct HC as [H1 H2].
      destruct (alloc_ext s0 o k n) as [[e s2]|] eqn:E2; [|discriminate]. inversion E1; subst.
      eapply IH; [exact H2|exact E|]. eapply lens_ok_alloc; eauto. apply alloc_sized_spec; exact H1.
    + apply andb_true_iff in HC. destruct HC as [H1 H2].
      destruct (alloc_ext s0 o k n) as [[e s2]|] eqn:E2; [|discriminate]. inversion E1; subst.
      eapply IH; [exact H2|exact E|]. destruct (write_fields s2 (start e) n) as (_ & He & _). rewrite He.
      eapply lens_ok_alloc; eauto. apply alloc_sized_spec; exact H1.
    + apply andb_true_iff in HC. destruct HC as [_ H2].
      destruct (find_ext (exts s0) o k) as [e|]; [|discriminate]. inversion E1; subst.
      eapply IH; [exact H2|exact E|]. destruct (write_fields s0 (start e + off) n) as (_ & He & _). rewrite He. exact Hl.
    + apply andb_true_iff in HC. destruct HC as [_ H2].
      destruct (find_ext (exts s0) o k) as [e|]; [|discriminate]. inversion E1; subst.
      eapply IH; [exact H2|exact E|]. destruct (write_fields s0 (start e) (len e)) as (_ & He & _). rewrite He. exact Hl.
    + destruct (find_ext (exts s0) o k) as [e|]; [|discriminate].
      destruct (next (al s0) <? start e + hsz).
      * destruct (alloc_ext s0 o KSpill (start e + hsz - next (al s0))) as [[e1 s2]|] eqn:E2; [|discriminate].
        inversion E1; subst. eapply IH; [exact HC|exact E|]. eapply lens_ok_alloc; eauto. intros L HL. discriminate.
      * inversion E1; subst. eapply IH; eauto.
Qed.

Theorem step_ok : forall s o, st_ok s -> st_ok (fst (step s o)).
Proof.
  intros s o Hs. pose proof (step_objs_ok s o Hs) as Hobj.
  destruct (is_session_op o) eqn:Eo.
  - (* Close / Reopen *)
    pose proof (ok_conf _ Hs) as Hc.
    destruct o; try discriminate.
    + (* Close *)
      cbn [step fst do_close closed st objs conf sbv session] in *.
      destruct (closed s) eqn:Ecl.
      * constructor; cbn; try apply Hs; auto. intros _ H. apply (ok_closed _ Hs); auto.
      * cbn [st objs conf sbv closed]. rewrite Hc. unfold close_store. cbn [c_extend_close gcfg].
        constructor; cbn; try apply Hs; auto.
        -- intros H. pose proof (ok_fs _ Hs H). lia.
        -- intros _ H. lia.
    + (* Reopen *)
      cbn [step fst do_close closed st objs conf sbv session] in *.
      assert (Hd : forall stc, stc = st (do_close (cleared s)) ->
                 exts stc = exts (st s) /\ ovf stc = ovf (st s) /\
                 (ovf (st s) = false -> next (al (st s)) <= fsize stc /\ fsize stc <= next (al (st s)))).
      { intros stc ->. unfold do_close, cleared. cbn [closed].
        destruct (closed s) eqn:Ecl; cbn [st].
        - cbn. repeat split; auto. + apply (ok_closed _ Hs); auto. + apply (ok_fs _ Hs); auto.
        - rewrite Hc. unfold close_store. cbn [c_extend_close gcfg]. cbn. repeat split; auto; try lia.
          pose proof (ok_fs _ Hs H). lia. }
      specialize (Hd _ eq_refl). destruct Hd as (Hx & Hov & Hf).
      unfold cleared in *.
      constructor; cbn [conf st objs closed sbv reopen_store exts al next fsize ovf].
      * destruct (closed s); cbn; exact Hc.
      * unfold ext_ok. cbn [reopen_store exts al next ovf]. rewrite Hx, Hov. intros H.
        destruct (ok_ext _ Hs H) as [HF HN]. split; [|exact HN].
        eapply Forall_impl; [|exact HF]. cbn. intros a Ha. destruct (Hf H). lia.
      * rewrite Hx. apply (ok_lens _ Hs).
      * destruct (closed s); cbn; apply (ok_objs _ Hs).
      * rewrite Hov. intros H. lia.
      * rewrite Hov. intros H. destruct (closed s); cbn; lia.
      * discriminate.
  - (* API call *)
    pose proof (compile_good _ _ s o (ok_objs _ Hs) (ok_conf _ Hs)) as G.
    assert (HC : cmds_ok cfgb (targets s o) [] (fst (fst (compile s o))) = true).
    { destruct (compile s o) as [[cmds ok] upd]. destruct G as (G & _). exact G. }
    assert (HK : ovf (st (fst (step s o))) = false ->
                 keeps cfgb (targets s o) (next (al (st s))) (clear_log (st s)) (st (fst (step s o))))
      by (intros H; apply step_api_keeps; auto).
    assert (Hfields : conf (fst (step s o)) = conf s /\ sbv (fst (step s o)) = sbv s /\ closed (fst (step s o)) = closed s).
    { rewrite (step_api s o Eo). destruct (compile s o) as [[cmds ok] upd].
      destruct (exec (clear_log (st s)) cmds) as [st' done]. cbn. auto. }
    destruct Hfields as (F1 & F2 & F3).
    constructor.
    + rewrite F1. apply (ok_conf _ Hs).
    + intros H. apply (k_ext _ _ _ _ _ (HK H)); auto. apply ext_ok_clear, (ok_ext _ Hs).
    + (* lens_ok does not need the overflow flag: use exec directly *)
      rewrite (step_api s o Eo). destruct (compile s o) as [[cmds ok] upd]. cbn [fst] in HC.
      destruct (exec (clear_log (st s)) cmds) as [st' done] eqn:E. cbn [fst st].
      eapply exec_lens; [exact HC | exact E | apply (ok_lens _ Hs)].
    + exact Hobj.
    + intros H. pose proof (HK H) as K. apply (k_fs _ _ _ _ _ K H).
      * apply ext_ok_clear, (ok_ext _ Hs).
      * apply (ok_lens _ Hs).
      * cbn. apply (ok_fs _ Hs). apply (k_ovf _ _ _ _ _ K H).
    + intros H. pose proof (HK H) as K. rewrite F2.
      pose proof (k_next _ _ _ _ _ K H). cbn in H0.
      pose proof (ok_sb _ Hs (k_ovf _ _ _ _ _ K H)). lia.
    + rewrite F3. intros Hcl H.
      (* a closed writer rejects every call: the store is unchanged *)
      rewrite (step_api s o Eo) in *. rewrite (compile_closed s o Hcl) in *. cbn in *.
      apply (ok_closed _ Hs Hcl H).
Qed.

Theorem run_ok : forall h s, st_ok s -> st_ok (run s h).
Proof. induction h as [|o r IH]; intros s Hs; [exact Hs|]. cbn [run fold_left]. apply IH. apply step_ok. exact Hs. Qed.

(* ------------------------------------------------------------------ CreateForWrite establishes the invariant *)

Definition lens_b (c : cfg) (l : list extent) : bool :=
  forallb (fun e => match sized c (kind_of e) with Some L => len e =? L | None => true end) l.
Lemma lens_b_sound : forall c l, lens_b c l = true -> lens_ok c l.
Proof.
  intros c l H. unfold lens_b in H. rewrite forallb_forall in H. unfold lens_ok. rewrite Forall_forall.
  intros e He L HL. specialize (H e He). rewrite HL in H. apply N.eqb_eq. exact H.
Qed.
Lemma ends_b_sound : forall l n, forallb (fun e => ext_end e <=? n) l = true -> Forall (fun e => ext_end e <= n) l.
Proof. intros l n H. rewrite forallb_forall in H. rewrite Forall_forall. intros e He. apply N.leb_le. auto. Qed.

Ltac init_goal :=
  first [ reflexivity | discriminate
        | (intros _; split; [apply ends_b_sound | apply no_overlap_b_sound]; vm_compute; reflexivity)
        | (apply lens_b_sound; vm_compute; reflexivity)
        | (repeat constructor; apply N.leb_le; vm_compute; reflexivity)
        | (intros _; apply N.leb_le; vm_compute; reflexivity) ].

Lemma init_ok : forall sb, st_ok (init cfgb sb).
Proof.
  intros sb. destruct (sb =? 0) eqn:E.
  - apply N.eqb_eq in E. subst sb.
    constructor; cbn [conf st objs closed sbv init]; init_goal.
  - assert (Hsz : sb_size sb = 48) by (unfold sb_size; rewrite E; reflexivity).
    unfold init, init_cmds, empty_store. rewrite E, Hsz.
    constructor; cbn [conf st objs closed sbv]; try rewrite Hsz; init_goal.
Qed.

(* ------------------------------------------------------------------ C04: writes within owned / frame *)

Lemma step_session_nolog : forall s o, is_session_op o = true -> wlog (st (fst (step s o))) = [].
Proof.
  intros s o H. destruct o; try discriminate; cbn [step fst st do_close cleared closed];
    destruct (closed s); cbn; try reflexivity; unfold close_store; destruct (c_extend_close (conf s)); reflexivity.
Qed.

Theorem step_writes_legal : forall s o, st_ok s -> ovf (st (fst (step s o))) = false ->
  forall w, In w (wlog (st (fst (step s o)))) ->
  legal (targets s o) (next (al (st s))) (exts (st (fst (step s o)))) w.
Proof.
  intros s o Hs Hov w Hw. destruct (is_session_op o) eqn:Eo.
  - rewrite (step_session_nolog s o Eo) in Hw. destruct Hw.
  - pose proof (compile_good _ _ s o (ok_objs _ Hs) (ok_conf _ Hs)) as G.
    assert (HC : cmds_ok cfgb (targets s o) [] (fst (fst (compile s o))) = true).
    { destruct (compile s o) as [[cmds ok] upd]. destruct G as (G & _). exact G. }
    pose proof (step_api_keeps s o _ Hs Eo HC Hov) as K.
    destruct (k_log _ _ _ _ _ K Hov) with (w := w) as [H|H]; auto.
    + apply ext_ok_clear, (ok_ext _ Hs).
    + apply (ok_lens _ Hs).
    + cbn. lia.
    + destruct H.
Qed.

Lemma step_exts_incl : forall s o, st_ok s -> ovf (st (fst (step s o))) = false ->
  incl (exts (st s)) (exts (st (fst (step s o)))) /\ ovf (st s) = false.
Proof.
  intros s o Hs Hov. destruct (is_session_op o) eqn:Eo.
  - destruct o; try discriminate; cbn [step fst st do_close cleared closed] in *;
      destruct (closed s); cbn in *; unfold close_store in *; destruct (c_extend_close (conf s)); cbn in *;
        split; auto; apply incl_refl.
  - pose proof (compile_good _ _ s o (ok_objs _ Hs) (ok_conf _ Hs)) as G.
    assert (HC : cmds_ok cfgb (targets s o) [] (fst (fst (compile s o))) = true).
    { destruct (compile s o) as [[cmds ok] upd]. destruct G as (G & _). exact G. }
    pose proof (step_api_keeps s o _ Hs Eo HC Hov) as K. split.
    + apply (k_incl _ _ _ _ _ K).
    + apply (k_ovf _ _ _ _ _ K Hov).
Qed.

Theorem step_frame : forall s o, st_ok s -> ovf (st (fst (step s o))) = false ->
  forall e', In e' (exts (st s)) -> targets s o (owner e') (kind_of e') = false ->
  forall w, In w (wlog (st (fst (step s o)))) -> wmisses w e'.
Proof.
  intros s o Hs Hov e' Hin HT w Hw.
  destruct (step_exts_incl s o Hs Hov) as [Hi Hov0].
  pose proof (step_ok s o Hs) as Hs'.
  destruct (ok_ext _ Hs' Hov) as [_ HN].
  destruct (ok_ext _ Hs Hov0) as [HF _]. rewrite Forall_forall in HF.
  eapply legal_frame; eauto.
  - apply step_writes_legal; auto.
Qed.

(* ------------------------------------------------------------------ C16: failing calls *)

Definition op_fails (s : state) (o : op) : Prop := snd (fst (compile s o)) = false.

Theorem step_fail_legal : forall s o, st_ok s -> is_session_op o = false -> op_fails s o ->
  ovf (st (fst (step s o))) = false ->
  forall w, In w (wlog (st (fst (step s o)))) ->
  legal (fail_targets o) (next (al (st s))) (exts (st (fst (step s o)))) w.
Proof.
  intros s o Hs Eo Hf Hov w Hw.
  pose proof (compile_good _ _ s o (ok_objs _ Hs) (ok_conf _ Hs)) as G.
  assert (HC : cmds_ok cfgb (fail_targets o) [] (fst (fst (compile s o))) = true).
  { unfold op_fails in Hf. destruct (compile s o) as [[cmds ok] upd]. cbn in Hf. destruct G as (_ & _ & G & _). apply G; exact Hf. }
  pose proof (step_api_keeps s o _ Hs Eo HC Hov) as K.
  destruct (k_log _ _ _ _ _ K Hov) with (w := w) as [H|H]; auto.
  - apply ext_ok_clear, (ok_ext _ Hs).
  - apply (ok_lens _ Hs).
  - cbn. lia.
  - destruct H.
Qed.

(* a failing call that is not a creation, a new attribute, a hard link or a chunked write
   performs no allocation and no write at all *)
Theorem step_fail_quiet : forall s o, st_ok s -> is_session_op o = false -> op_fails s o ->
  may_leave_bytes bp ba o = false ->
  st (fst (step s o)) = clear_log (st s) /\ objs (fst (step s o)) = objs s.
Proof.
  intros s o Hs Eo Hf Hm.
  pose proof (compile_good _ _ s o (ok_objs _ Hs) (ok_conf _ Hs)) as G.
  rewrite (step_api s o Eo). unfold op_fails in Hf.
  destruct (compile s o) as [[cmds ok] upd]. cbn in Hf. subst ok.
  destruct G as (_ & _ & _ & G & G5). rewrite (G eq_refl Hm). cbn.
  rewrite (G5 eq_refl (G eq_refl Hm)).
  destruct o; try discriminate; auto.
Qed.

(* a failed call never changes the bookkeeping, except the reference-count message of a failed hard link *)
Theorem step_fail_objs : forall s o, is_session_op o = false -> op_fails s o ->
  (forall p nl dup t, o <> OpHardLink p nl dup t) ->
  objs (fst (step s o)) = objs s.
Proof.
  intros s o Eo Hf Hn. rewrite (step_api s o Eo). unfold op_fails in Hf.
  destruct (compile s o) as [[cmds ok] upd]. cbn in Hf. subst ok.
  destruct (exec (clear_log (st s)) cmds) as [st' done]. cbn.
  destruct o; try reflexivity. exfalso. eapply Hn; reflexivity.
Qed.

(* ------------------------------------------------------------------ C10: sessions *)

(* a step that issues no store command *)
Definition quiet_step (s : state) (o : op) : Prop :=
  match o with OpClose | OpReopen => True | _ => fst (fst (compile s o)) = [] end.

Fixpoint all_quiet (s : state) (h : list op) : Prop :=
  match h with [] => True | o :: r => quiet_step s o /\ all_quiet (fst (step s o)) r end.

(* concatenated write log of a run *)
Fixpoint run_writes (s : state) (h : list op) : list (N * N) :=
  match h with [] => [] | o :: r => wlog (st (fst (step s o))) ++ run_writes (fst (step s o)) r end.

Definition settled (F : N) (E : list extent) (s : state) : Prop :=
  fsize (st s) = F /\ next (al (st s)) = F /\ exts (st s) = E /\ ovf (st s) = false /\
  sb_size (sbv s) <= F /\ conf s = cfgb.

Lemma quiet_step_settled : forall F E s o, settled F E s -> quiet_step s o ->
  settled F E (fst (step s o)) /\ wlog (st (fst (step s o))) = [].
Proof.
  intros F E s o (H1 & H2 & H3 & H4 & H5 & H6) Hq.
  destruct o; cbn [quiet_step] in Hq;
    try (match goal with |- context [step s ?o] => rewrite (step_api s o eq_refl); destruct (compile s o) as [[cmds ok] upd] end;
         cbn [fst] in Hq; subst cmds; cbn; unfold settled; cbn; repeat split; auto; fail).
  - (* Close *)
    cbn [step fst]. unfold settled, do_close. cbn [closed].
    destruct (closed s); cbn [st sbv conf closed wlog clear_log fsize al exts ovf next]; [repeat split; auto|].
    rewrite H6. unfold close_store. cbn [c_extend_close gcfg fsize al exts ovf next wlog clear_log].
    rewrite H1, H2. repeat split; auto. lia.
  - (* Reopen *)
    cbn [step fst]. unfold settled, do_close. cbn [closed].
    destruct (closed s); cbn [st sbv conf closed wlog clear_log fsize al exts ovf next reopen_store].
    + rewrite H1. repeat split; auto. lia.
    + rewrite H6. unfold close_store. cbn [c_extend_close gcfg fsize al exts ovf next wlog clear_log].
      rewrite H1, H2. repeat split; auto; lia.
Qed.

Lemma all_quiet_settled : forall h F E s, settled F E s -> all_quiet s h ->
  settled F E (run s h) /\ run_writes s h = [].
Proof.
  induction h as [|o r IH]; intros F E s Hs Hq; [split; [exact Hs | reflexivity]|].
  cbn [all_quiet] in Hq. destruct Hq as [Hq1 Hq2].
  destruct (quiet_step_settled F E s o Hs Hq1) as [Hs' Hw].
  cbn [run fold_left run_writes]. rewrite Hw. cbn [app]. apply IH; auto.
Qed.

Lemma closed_settled : forall s, st_ok s -> closed s = true -> ovf (st s) = false ->
  settled (fsize (st s)) (exts (st s)) s.
Proof.
  intros s Hs Hc Ho. pose proof (ok_fs _ Hs Ho). pose proof (ok_closed _ Hs Hc Ho). pose proof (ok_sb _ Hs Ho).
  unfold settled. repeat split; auto; try lia. apply (ok_conf _ Hs).
Qed.

Theorem noop_session : forall s h, st_ok s -> closed s = true -> ovf (st s) = false ->
  all_quiet s (OpReopen :: h ++ [OpClose]) ->
  let s' := run s (OpReopen :: h ++ [OpClose]) in
  fsize (st s') = fsize (st s) /\ exts (st s') = exts (st s) /\
  next (al (st s')) = next (al (st s)) /\ run_writes s (OpReopen :: h ++ [OpClose]) = [].
Proof.
  intros s h Hs Hc Ho Hq s'.
  pose proof (closed_settled s Hs Hc Ho) as H0.
  destruct (all_quiet_settled _ _ _ _ H0 Hq) as [(H1 & H2 & H3 & _) Hw].
  fold s' in H1, H2, H3. destruct H0 as (_ & G2 & _). repeat split; auto. lia.
Qed.

(* reopen after close: allocator at or above every extent, so later allocations are disjoint from all of them *)
Theorem reopen_alloc_disjoint : forall s, st_ok s ->
  let s1 := fst (step s OpReopen) in
  st_ok s1 /\
  forall o k n e s2, alloc_ext (st s1) o k n = Some (e, s2) -> ovf s2 = false ->
    forall e', In e' (exts (st s)) -> edisj e e'.
Proof.
  intros s Hs s1. pose proof (step_ok s OpReopen Hs) as Hs1. fold s1 in Hs1. split; [exact Hs1|].
  intros o k n e s2 Ha Hov e' Hin.
  destruct (alloc_ext_next _ _ _ _ _ _ Ha Hov) as [Hov1 _].
  destruct (alloc_ext_spec _ _ _ _ _ _ Ha) as (_ & He & _).
  destruct (ok_ext _ Hs1 Hov1) as [HF _]. rewrite Forall_forall in HF.
  assert (Hin1 : In e' (exts (st s1))).
  { unfold s1. cbn [step fst st do_close cleared closed]. destruct (closed s); cbn; [exact Hin|].
    unfold close_store. destruct (c_extend_close (conf s)); cbn; exact Hin. }
  specialize (HF _ Hin1). right. subst e. cbn. exact HF.
Qed.

End WithPatches.
