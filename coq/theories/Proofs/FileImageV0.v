(* C01 end to end, superblock version 0: where the blocks of image_v0 (Model/FileImageV0.v) sit, the SUPERBLOCK stage
   (ReadSuperblock's program returns SB0': version 0, root object header 96, cached B-tree 136 / heap 1480) and the DATASET
   stage (Dataset.Read's program returns the written bytes; the decoded datatype and shape are the ones given). *)
From HV Require Import Base.Prelude Base.Outcome Base.Bytes Model.IOProg Proofs.IOProg Model.IOProgReader.
From HV Require Import Model.CodecSuper Model.CodecOhdr Model.CodecMsg Model.CodecType Model.CodecLink Model.GroupWire.
From HV Require Import Proofs.CodecSuper Proofs.CodecOhdr Proofs.CodecMsg Proofs.CodecType.
From HV Require Import Model.FileImage Proofs.FileImage Proofs.FileImageOhdr Proofs.FileImageData Model.FileImageV0.

(* what ReadSuperblock returns on every version 0 image: nothing in it depends on the inputs *)
Definition SB0' : superblock' :=
  {| spp_version := 0; spp_offsize := 8; spp_lensize := 8; spp_bigendian := false; spp_base := 0; spp_root := 96;
     spp_superext := 0; spp_driverinfo := 0; spp_rootbtree := 136; spp_rootheap := 1480 |}.

Lemma addrs0 : (ROOT0_ADDR, BTREE0_ADDR, SNOD0_ADDR, HEAP0_ADDR, DATA0_ADDR) = (96, 136, 192, 1480, 1768).
Proof. reflexivity. Qed.

(* ------------------------------------------------------------------ the blocks, spelled out *)
Definition root0_prefix : bytes := [1; 0; 1; 0; 1; 0; 0; 0; 24; 0; 0; 0; 0; 0; 0; 0].
Definition root0_mhdr : bytes := [17; 0; 16; 0; 0; 0; 0; 0].
Definition root0_mdata : bytes := le 8 136 ++ le 8 1480.
Lemma root0_block_bytes : enc_ohdr_v1 root_ohdr_v0 = root0_prefix ++ root0_mhdr ++ root0_mdata.
Proof. vm_compute. reflexivity. Qed.
Lemma root0_block_len : blen (enc_ohdr_v1 root_ohdr_v0) = 40.
Proof. reflexivity. Qed.

Definition bt0_hdr : bytes := [84; 82; 69; 69; 0; 0; 1; 0] ++ le 8 UNDEF ++ le 8 UNDEF.
Definition bt0_keys : bytes := le 8 0 ++ le 8 192 ++ le 8 0.
Lemma bt0_block_bytes : bt_block0 = bt0_hdr ++ bt0_keys ++ zeros 8.
Proof. vm_compute. reflexivity. Qed.
Lemma bt0_block_len : blen bt_block0 = 56.
Proof. reflexivity. Qed.

(* the superblock decoder looks at the first 96 bytes only *)
Lemma dec_sb_buf_v0 x (T : bytes) : wf_superblock x = true -> sp_version x = 0 -> blen T = 32 ->
  dec_sb_buf (enc_superblock x ++ T) 128 = Ok (proj_superblock x).
Proof.
  unfold wf_superblock. intros H Hv HT.
  apply andb_true_iff in H as [H Heof]. apply andb_true_iff in H as [H Hhp].
  apply andb_true_iff in H as [H Hbt]. apply andb_true_iff in H as [H Hext].
  apply andb_true_iff in H as [H Hroot]. apply andb_true_iff in H as [Hok Hbase].
  apply u64_lt in Heof, Hhp, Hbt, Hext, Hroot, Hbase.
  destruct x as [ver os ls base root ext bt hp eof]; cbn [sp_version sp_offsize sp_lensize sp_base sp_root
    sp_superext sp_rootbtree sp_rootheap sp_eof] in *. subst ver.
  unfold enc_superblock, proj_superblock. cbn [sp_version sp_offsize sp_lensize sp_base sp_root
    sp_superext sp_rootbtree sp_rootheap sp_eof]. change (0 =? 0) with true. cbv iota.
  set (E := signature ++ [0; 0; 0; 0; 0; 8; 8; 0] ++ le 2 4 ++ le 2 16 ++ le 4 0
    ++ le 8 base ++ le 8 UNDEF ++ le 8 eof ++ le 8 UNDEF
    ++ le 8 0 ++ le 8 root ++ le 4 1 ++ le 4 0 ++ le 8 bt ++ le 8 hp).
  assert (EE : E = v0_head base eof ++ le 8 root ++ (le 4 1 ++ le 4 0) ++ le 8 bt ++ le 8 hp)
    by (subst E; unfold v0_head; rewrite <- !app_assoc; reflexivity).
  assert (LE96 : blen E = 96)
    by (rewrite EE, !blen_app, blen_v0_head, !blen_le; reflexivity).
  assert (LB : blen (E ++ T) = 128) by (rewrite blen_app, LE96, HT; reflexivity).
  destruct (v0_head_reads base eof (le 8 root ++ (le 4 1 ++ le 4 0) ++ le 8 bt ++ le 8 hp ++ T))
    as (R0 & R8 & R13 & R14).
  assert (EB : E ++ T = v0_head base eof ++ le 8 root ++ (le 4 1 ++ le 4 0) ++ le 8 bt ++ le 8 hp ++ T)
    by (rewrite EE, <- !app_assoc; reflexivity).
  unfold dec_sb_buf. change (128 <? 48) with false. cbv iota.
  rewrite EB in *. rewrite R0. cbn [obind]. change (bytes_eqb signature signature) with true. cbn [negb].
  rewrite R8. cbn [obind]. change (0 =? 0) with true. change (128 <? 96) with false. cbn [orb negb andb].
  rewrite R13, R14. cbn [obind]. cbv beta iota.
  change (8 =? 0) with false. cbv iota. change (valid_size 8) with true. cbn [andb negb].
  change (24 + 4 * 8 + 8) with 64. change (24 + 4 * 8 + 2 * 8 + 8) with 80. change (80 + 8) with 88.
  rewrite (read_value_le (v0_head base eof) root) by (auto; rewrite ?blen_v0_head, ?LB; auto; blia).
  cbn [obind].
  assert (A1 : v0_head base eof ++ le 8 root ++ (le 4 1 ++ le 4 0) ++ le 8 bt ++ le 8 hp ++ T
             = (v0_head base eof ++ le 8 root ++ le 4 1 ++ le 4 0) ++ le 8 bt ++ le 8 hp ++ T)
    by (rewrite <- !app_assoc; reflexivity).
  rewrite A1 in *.
  rewrite (read_value_le (v0_head base eof ++ le 8 root ++ le 4 1 ++ le 4 0) bt)
    by (auto; rewrite ?LB, ?blen_app, ?blen_v0_head, ?blen_le; auto; blia).
  cbn [obind].
  assert (A2 : (v0_head base eof ++ le 8 root ++ le 4 1 ++ le 4 0) ++ le 8 bt ++ le 8 hp ++ T
             = ((v0_head base eof ++ le 8 root ++ le 4 1 ++ le 4 0) ++ le 8 bt) ++ le 8 hp ++ T)
    by (rewrite <- !app_assoc; reflexivity).
  rewrite A2 in *.
  rewrite (read_value_le ((v0_head base eof ++ le 8 root ++ le 4 1 ++ le 4 0) ++ le 8 bt) hp)
    by (auto; rewrite ?LB, ?blen_app, ?blen_v0_head, ?blen_le; auto; blia).
  cbn [obind]. reflexivity.
Qed.

Section Image.
Variable name : bytes.
Variables class size cbf : N.
Variable dims : list N.
Variable data : bytes.
Hypothesis Hname : link_name_ok name = true.
Hypothesis Hdt : basic_dtype class size cbf = true.
Hypothesis Hdims : dims_ok dims = true.
Hypothesis Hlen : blen data = total_elems dims * size.
Hypothesis Hpos : 0 < blen data.
Hypothesis Hbound : blen data < 4294967296.

Local Notation f := (image_v0 name class size cbf dims data).
Local Notation da := (dset_addr0 data).
Local Notation dso := (dset_ohdr0 class size cbf dims).
Local Notation dsb := (dset_block0 class size cbf dims).
Local Notation blocks := (blocks_v0 name class size cbf dims data).
Local Notation seg := ((name ++ [0]) ++ zeros (N.to_nat (256 - (blen name + 1)))).

Lemma heap0_block_bytes : heap_image (final_heap name) HEAP0_ADDR = heap_header 256 1 1512 ++ seg.
Proof using Hname. clear - Hname.
  destruct (name_len name Hname) as [H1 H2].
  unfold heap_image, heap_write_to, final_heap. cbn [hw_strings hw_dss hw_free hw_daddr].
  change (wrap64 (HEAP0_ADDR + 32)) with 1512. change HEAP_INIT with 256.
  rewrite blen_app. change (blen [0]) with 1.
  destruct (blen name + 1 <? 256) eqn:E; [reflexivity|]. apply N.ltb_ge in E.
  replace (256 - (blen name + 1)) with 0 by blia. cbn [N.to_nat zeros repeat]. now rewrite app_nil_r.
Qed.
Lemma heap0_block_len : blen (heap_image (final_heap name) HEAP0_ADDR) = 288.
Proof using Hname. clear - Hname. rewrite heap0_block_bytes, blen_app, (heap_seg_len name Hname). reflexivity. Qed.

Lemma snod0_block_bytes : snod_block0 data = [83; 78; 79; 68; 1; 0; 1; 0] ++ enc_sym 8 (final_sym0 data) ++ zeros 1240.
Proof. unfold snod_block0, final_snode0. now rewrite snod_one. Qed.
Lemma snod0_block_len : blen (snod_block0 data) = 1288.
Proof. rewrite snod0_block_bytes, !blen_app, enc_sym_len, blen_zeros. reflexivity. Qed.
Lemma sb0_block_len : blen (enc_superblock (final_sb0 data)) = 96.
Proof. rewrite superblock_blen. reflexivity. Qed.

(* ------------------------------------------------------------------ where the blocks sit *)
Lemma P0_sb_rest : placed f 0 (enc_superblock (final_sb0 data) ++ concat (skipn 1 blocks)).
Proof using. clear Hname Hdt Hdims Hlen Hpos Hbound.
  exact (place_all_placed_rest (blocks_v0 name class size cbf dims data) 0 ltac:(cbn; blia)).
Qed.
Lemma P0_root : placed f 96 (enc_ohdr_v1 root_ohdr_v0).
Proof using. clear Hname Hdt Hdims Hlen Hpos Hbound.
  pose proof (place_all_placed (blocks_v0 name class size cbf dims data) 1 _ eq_refl) as H. cbn [block_addr blocks_v0] in H.
  rewrite sb0_block_len in H. exact H.
Qed.
Lemma P0_bt : placed f 136 bt_block0.
Proof using. clear Hname Hdt Hdims Hlen Hpos Hbound.
  pose proof (place_all_placed (blocks_v0 name class size cbf dims data) 2 _ eq_refl) as H. cbn [block_addr blocks_v0] in H.
  rewrite sb0_block_len, root0_block_len in H. exact H.
Qed.
Lemma P0_snod : placed f 192 (snod_block0 data).
Proof using. clear Hname Hdt Hdims Hlen Hpos Hbound.
  pose proof (place_all_placed (blocks_v0 name class size cbf dims data) 3 _ eq_refl) as H. cbn [block_addr blocks_v0] in H.
  rewrite sb0_block_len, root0_block_len, bt0_block_len in H. exact H.
Qed.
Lemma P0_heap : placed f 1480 (heap_image (final_heap name) HEAP0_ADDR).
Proof using. clear Hname Hdt Hdims Hlen Hpos Hbound.
  pose proof (place_all_placed (blocks_v0 name class size cbf dims data) 4 _ eq_refl) as H. cbn [block_addr blocks_v0] in H.
  rewrite sb0_block_len, root0_block_len, bt0_block_len, snod0_block_len in H. exact H.
Qed.
Lemma P0_data : placed f 1768 data.
Proof using Hname. clear - Hname.
  pose proof (place_all_placed (blocks_v0 name class size cbf dims data) 5 _ eq_refl) as H. cbn [block_addr blocks_v0] in H.
  rewrite sb0_block_len, root0_block_len, bt0_block_len, snod0_block_len, heap0_block_len in H. exact H.
Qed.
Lemma P0_dset : placed f da dsb.
Proof using Hname. clear - Hname.
  pose proof (place_all_placed (blocks_v0 name class size cbf dims data) 6 _ eq_refl) as H. cbn [block_addr blocks_v0] in H.
  rewrite sb0_block_len, root0_block_len, bt0_block_len, snod0_block_len, heap0_block_len in H.
  match type of H with placed _ ?X _ => replace da with X by (unfold dset_addr0; change DATA0_ADDR with 1768; blia) end.
  exact H.
Qed.

(* ------------------------------------------------------------------ the dataset's header *)
Lemma data_size_eq0 : data_size size dims = blen data.
Proof using Hlen Hbound. clear - Hlen Hbound. unfold data_size. rewrite <- Hlen. apply wrap64_small. blia. Qed.
Lemma wf_ly0 : wf_layout SBP0 (LContig (data_size size dims) DATA0_ADDR) = true.
Proof using Hlen Hbound. clear - Hlen Hbound.
  rewrite data_size_eq0. unfold wf_layout. cbn [sb_ok SBP0 sb_offsize sb_lensize sb_version encok_layout].
  change (DATA0_ADDR <? 256 ^ 8) with true.
  replace (blen data <? 256 ^ 8) with true by (symmetry; apply N.ltb_lt; change (256 ^ 8) with 18446744073709551616; blia).
  reflexivity.
Qed.
Lemma ly_msg_len0 : blen (enc_layout SBP0 (LContig (data_size size dims) DATA0_ADDR)) = 18.
Proof using Hlen Hbound. clear - Hlen Hbound. rewrite layout_blen by exact wf_ly0. reflexivity. Qed.

Lemma dso0_chunk : chunk_size_v2 (oh_msgs dso) = (if class =? DT_FIXED then 12 else 20) + 8 * blen dims + 38.
Proof using Hdt Hlen Hbound. clear - Hdt Hlen Hbound.
  unfold dset_ohdr0. cbn [oh_msgs chunk_size_v2 fold_right hm_data].
  rewrite (dt_msg_len class size cbf Hdt), ds_msg_len, ly_msg_len0. blia.
Qed.
Lemma dso0_chunk_bound : chunk_size_v2 (oh_msgs dso) <= 250.
Proof using Hdt Hdims Hlen Hbound. clear - Hdt Hdims Hlen Hbound.
  rewrite dso0_chunk. destruct (rank_bounds dims Hdims) as [_ R]. unfold blen. destruct (class =? DT_FIXED); blia.
Qed.
Lemma dso0_ok : ohdr_ok dso.
Proof using Hdt Hdims Hlen Hbound. clear - Hdt Hdims Hlen Hbound.
  unfold ohdr_ok. split; [reflexivity|]. split; [reflexivity|]. split; [pose proof dso0_chunk_bound; blia|].
  split; [discriminate|].
  unfold dset_ohdr0. cbn [oh_msgs]. repeat constructor; cbn [hm_type hm_data]; unfold MSG_CONT; try blia; try discriminate.
  1: (rewrite (dt_msg_len class size cbf Hdt); destruct (class =? DT_FIXED); blia).
  rewrite ds_msg_len; blia.
Qed.
Lemma dsb0_tail : 2 <= blen (zeros (N.to_nat (OHDR_RESERVE - size_ohdr_v2 dso))).
Proof using Hdt Hdims Hlen Hbound. clear - Hdt Hdims Hlen Hbound.
  rewrite blen_zeros. unfold size_ohdr_v2, OHDR_RESERVE. pose proof dso0_chunk_bound. blia.
Qed.
Lemma dsb0_len : blen dsb = OHDR_RESERVE.
Proof using Hdt Hdims Hlen Hbound. clear - Hdt Hdims Hlen Hbound.
  unfold dset_block0. rewrite blen_app, blen_zeros, Proofs.CodecOhdr.ohdr_v2_blen.
  pose proof dso0_chunk_bound. unfold size_ohdr_v2, OHDR_RESERVE in *. blia.
Qed.
Lemma da0_bound : da + 600 < B63.
Proof using Hbound. clear - Hbound. unfold dset_addr0, B63. change DATA0_ADDR with 1768. blia. Qed.

Lemma image0_len : blen f = eof_addr0 data.
Proof using Hname Hdt Hdims Hlen Hbound. clear - Hname Hdt Hdims Hlen Hbound.
  unfold image_v0, place_all, blocks_v0. cbn [concat]. rewrite !blen_app.
  rewrite sb0_block_len, root0_block_len, bt0_block_len, snod0_block_len, heap0_block_len, dsb0_len.
  change (blen []) with 0. unfold eof_addr0, dset_addr0. change DATA0_ADDR with 1768. blia.
Qed.

Lemma dset_header0 fuel : (3 < fuel)%nat ->
  run0 f (p_ohdr SB0' fuel da) = Ok (proj_ohdr_v2 false dso da).
Proof using Hname Hdt Hdims Hlen Hbound. clear - Hname Hdt Hdims Hlen Hbound.
  intros Hf. apply (p_ohdr_placed SB0' fuel f da dso (zeros (N.to_nat (OHDR_RESERVE - size_ohdr_v2 dso))) dso0_ok).
  - exact P0_dset.
  - exact dsb0_tail.
  - exact Hf.
  - exact da0_bound.
Qed.

(* ------------------------------------------------------------------ superblock *)
Lemma wf_final_sb0 : wf_superblock (final_sb0 data) = true.
Proof using Hbound. clear - Hbound.
  unfold wf_superblock, final_sb0, encok_superblock.
  cbn [sp_version sp_offsize sp_lensize sp_base sp_root sp_superext sp_rootbtree sp_rootheap sp_eof].
  replace (CodecSuper.u64 (eof_addr0 data)) with true; [reflexivity|]. unfold CodecSuper.u64.
  symmetry. apply N.ltb_lt. unfold eof_addr0, dset_addr0, OHDR_RESERVE. change DATA0_ADDR with 1768. blia.
Qed.

Theorem superblock_stage0 : run0 f p_superblock = Ok SB0'.
Proof using Hbound. clear - Hbound.
  unfold p_superblock. rewrite run0_short.
  pose proof P0_sb_rest as HP.
  destruct HP as (pre & suf & E & L). destruct pre; [|cbn in L; blia]. cbn [app] in E.
  set (R := concat (skipn 1 blocks)) in *.
  assert (HR : 80 <= blen R).
  { subst R. cbn [skipn blocks_v0 concat]. rewrite !blen_app, root0_block_len, bt0_block_len. blia. }
  assert (Hrd : rd f 0 128 = enc_superblock (final_sb0 data) ++ firstn 32 R).
  { rewrite E. unfold rd. change (N.to_nat 0) with 0%nat. change (N.to_nat 128) with 128%nat. cbn [skipn].
    rewrite <- app_assoc. rewrite firstn_app.
    pose proof sb0_block_len as L96. unfold blen in L96.
    rewrite firstn_all2 by blia. apply (f_equal (app (enc_superblock (final_sb0 data)))).
    replace (128 - length (enc_superblock (final_sb0 data)))%nat with 32%nat by blia.
    rewrite firstn_app. unfold blen in HR. replace (32 - length R)%nat with 0%nat by blia. cbn [firstn]. now rewrite app_nil_r. }
  assert (Hav : avail f 0 128 = 128).
  { unfold avail. rewrite Hrd, blen_app, sb0_block_len. unfold blen. rewrite firstn_length. unfold blen in HR. blia. }
  unfold padded. rewrite Hav, Hrd. change (N.to_nat (128 - 128)) with 0%nat. cbn [zeros repeat]. rewrite app_nil_r.
  rewrite dec_sb_buf_v0; [reflexivity | exact wf_final_sb0 | reflexivity |].
  unfold blen. rewrite firstn_length. unfold blen in HR. blia.
Qed.

Lemma sig_read0 A (k : bytes -> prog A) : run0 f (ReadAt 0 8 k) = run0 f (k signature).
Proof using. clear Hname Hdt Hdims Hlen Hpos Hbound.
  apply run0_read_exact; [|reflexivity].
  pose proof P0_sb_rest as HP.
  unfold enc_superblock in HP. cbn [sp_version final_sb0] in HP. change (0 =? 0) with true in HP. cbv iota in HP.
  rewrite <- !app_assoc in HP. apply placed_head in HP. exact HP.
Qed.

(* ------------------------------------------------------------------ Dataset.Read *)
Theorem dataset_read0 fuel : (3 < fuel)%nat ->
  run0 f (api_read_raw SB0' fuel da) = Ok (RawBytes data).
Proof using Hname Hdt Hdims Hlen Hpos Hbound.
  intros Hf. unfold api_read_raw. rewrite run0_bind, (dset_header0 fuel Hf).
  rewrite run0_swallow.
  unfold proj_ohdr_v2, dset_ohdr0. cbn [oh_msgs oh_flags msgs_at_v2 ohp_msgs hm_type hm_data].
  assert (Hattrs : forall m3 m1 m8 o3 o1 o8,
    p_attrs SB0' [ {| hmp_type := 3; hmp_offset := o3; hmp_data := m3 |}; {| hmp_type := 1; hmp_offset := o1; hmp_data := m1 |};
                   {| hmp_type := 8; hmp_offset := o8; hmp_data := m8 |} ] = Ret []) by reflexivity.
  rewrite Hattrs. cbn [bind]. rewrite run0_ret.
  unfold p_dataset_raw.
  cbn [find_msg fold_left hmp_type hmp_data N.eqb Pos.eqb].
  rewrite (datatype_roundtrip _ (wf_dt class size cbf Hdt)), (dataspace_roundtrip _ (wf_ds dims Hdims)).
  change (sbp SB0') with SBP0. rewrite (layout_roundtrip _ _ wf_ly0).
  cbn [obind lift bind fst snd proj_dataspace proj_layout dsp_type dsp_dims ds_dims ly_class ly_addr ly_compact ly_chunk N.eqb Pos.eqb].
  fold (total_elems dims).
  assert (Hsz : dt_size (proj_datatype (dtype_msg class size cbf)) = size).
  { unfold proj_datatype, dtype_msg. cbn [dt_class dt_size]. destruct (dtype_cases class size cbf Hdt) as [(-> & _)|(-> & _)]; reflexivity. }
  rewrite Hsz. rewrite <- Hlen.
  replace (total_elems dims =? 0) with false
    by (symmetry; apply N.eqb_neq; intros E; rewrite E in Hlen; blia).
  replace (18446744073709551616 <=? blen data) with false by (symmetry; apply N.leb_gt; blia).
  rewrite run0_bind.
  rewrite (run0_read_bytes_at f DATA0_ADDR data (blen data) P0_data eq_refl Hpos)
    by (unfold MAXI64; change DATA0_ADDR with 1768; blia).
  reflexivity.
Qed.

(* what the reader decodes from the header: the datatype and the shape that were given to CreateDataset *)
Theorem dataset_type_shape0 fuel : (3 < fuel)%nat ->
  exists h, run0 f (p_ohdr SB0' fuel da) = Ok h /\
    (d <- match find_msg 3 (ohp_msgs h) with Some b => dec_datatype b | None => Err end;;
     s <- match find_msg 1 (ohp_msgs h) with Some b => dec_dataspace b | None => Err end;;
     Ok (dt_class d, dt_size d, dt_cbf d, dsp_dims s)) = Ok (class, size, cbf, dims).
Proof using Hname Hdt Hdims Hlen Hbound. clear - Hname Hdt Hdims Hlen Hbound.
  intros Hf. eexists. split; [exact (dset_header0 fuel Hf)|].
  unfold proj_ohdr_v2, dset_ohdr0. cbn [oh_msgs oh_flags msgs_at_v2 ohp_msgs hm_type hm_data].
  cbn [find_msg fold_left hmp_type hmp_data N.eqb Pos.eqb].
  rewrite (datatype_roundtrip _ (wf_dt class size cbf Hdt)), (dataspace_roundtrip _ (wf_ds dims Hdims)).
  cbn [obind proj_dataspace dsp_dims ds_dims].
  unfold proj_datatype, dtype_msg. cbn [dt_class dt_size dt_cbf].
  destruct (dtype_cases class size cbf Hdt) as [(-> & _)|(-> & _)]; reflexivity.
Qed.
End Image.
