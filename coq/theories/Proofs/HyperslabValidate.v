(* C09: the (repaired) selection validation accepts exactly the valid selections. *)
From HV Require Import Base.Prelude Model.Hyperslab Proofs.HyperslabBase.

Lemma wrap64_small x : x <= u64max -> wrap64 x = x.
Proof. unfold wrap64, u64max. intros. apply N.mod_small. lia. Qed.

Lemma sub64_small a b : b <= a -> a <= u64max -> sub64 a b = a - b.
Proof.
  unfold sub64, u64max. intros Hb Ha.
  rewrite (N.mod_small b) by lia.
  replace (a + 18446744073709551616 - b) with ((a - b) + 1 * 18446744073709551616) by lia.
  rewrite N.mod_add by lia. apply N.mod_small. lia.
Qed.

Lemma safe_multiply_some a b m : safe_multiply a b = Some m -> m = a * b /\ a * b <= u64max.
Proof.
  unfold safe_multiply.
  destruct (N.eqb_spec a 0) as [->|Ha]; cbn [orb].
  { intros [= <-]. rewrite N.mul_0_l. split; [reflexivity|unfold u64max; lia]. }
  destruct (N.eqb_spec b 0) as [->|Hb]; cbn [orb].
  { intros [= <-]. rewrite N.mul_0_r. split; [reflexivity|unfold u64max; lia]. }
  destruct (N.ltb_spec (u64max / b) a) as [|Hle]; [discriminate|].
  intros [= <-].
  assert (a * b <= u64max).
  { pose proof (N.mul_div_le u64max b Hb). nia. }
  split; [apply wrap64_small; assumption|assumption].
Qed.

Lemma safe_multiply_ok a b : a * b <= u64max -> safe_multiply a b = Some (a * b).
Proof.
  intros H. unfold safe_multiply.
  destruct (N.eqb_spec a 0) as [->|Ha]; cbn [orb]; [rewrite wrap64_small by assumption; reflexivity|].
  destruct (N.eqb_spec b 0) as [->|Hb]; cbn [orb]; [rewrite wrap64_small by assumption; reflexivity|].
  destruct (N.ltb_spec (u64max / b) a) as [Hlt|Hle].
  - exfalso. assert (a <= u64max / b) by (apply N.div_le_lower_bound; [assumption|lia]). lia.
  - rewrite wrap64_small by assumption. reflexivity.
Qed.

(* ---------------------------------------------------------------- one dimension *)
Lemma vhb_dim_sound s c st d :
  u64 c -> u64 d -> vhb_dim true s c st d = Ok -> 0 < c /\ s + (c - 1) * st < d.
Proof.
  unfold vhb_dim, u64. intros Hc Hd.
  destruct (N.eqb_spec c 0) as [|Hc0]; [discriminate|].
  rewrite sub64_small by lia.
  destruct (safe_multiply (c - 1) st) as [m|] eqn:E; [|discriminate].
  apply safe_multiply_some in E. destruct E as [-> Hm].
  destruct (N.leb_spec d s); cbn [orb]; [discriminate|].
  rewrite sub64_small by lia.
  destruct (N.leb_spec (d - s) ((c - 1) * st)); [discriminate|]. intros _. lia.
Qed.

Lemma vhb_dim_complete s c st d :
  u64 c -> u64 d -> 0 < c -> s + (c - 1) * st < d -> vhb_dim true s c st d = Ok.
Proof.
  unfold vhb_dim, u64. intros Hc Hd Hc0 H.
  destruct (N.eqb_spec c 0); [lia|].
  rewrite sub64_small by lia.
  rewrite safe_multiply_ok by lia.
  destruct (N.leb_spec d s); cbn [orb]; [lia|].
  rewrite sub64_small by lia.
  destruct (N.leb_spec (d - s) ((c - 1) * st)); [lia|reflexivity].
Qed.

Lemma vdb_dim_sound a d :
  u64 (a_count a) -> u64 d -> a_start a + (a_count a - 1) * a_stride a < d ->
  vdb_dim true a d = Ok -> axis_valid a d.
Proof.
  unfold vdb_dim, u64, axis_valid. intros Hc Hd Hlt.
  destruct (N.eqb_spec (a_count a) 0); [discriminate|].
  destruct (N.eqb_spec (a_stride a) 0); [discriminate|].
  destruct (N.eqb_spec (a_block a) 0); [discriminate|].
  rewrite sub64_small by lia.
  rewrite (wrap64_small ((a_count a - 1) * a_stride a)) by lia.
  rewrite wrap64_small by lia.
  destruct (N.leb_spec d (a_start a + (a_count a - 1) * a_stride a)); cbn [orb]; [discriminate|].
  rewrite sub64_small by lia.
  destruct (N.ltb_spec (d - (a_start a + (a_count a - 1) * a_stride a)) (a_block a)); [discriminate|].
  intros _. lia.
Qed.

Lemma vdb_dim_complete a d : u64 (a_count a) -> u64 d -> axis_valid a d -> vdb_dim true a d = Ok.
Proof.
  unfold vdb_dim, u64, axis_valid. intros Hc Hd (H1 & H2 & H3 & H4).
  destruct (N.eqb_spec (a_count a) 0); [lia|].
  destruct (N.eqb_spec (a_stride a) 0); [lia|].
  destruct (N.eqb_spec (a_block a) 0); [lia|].
  rewrite sub64_small by lia.
  rewrite (wrap64_small ((a_count a - 1) * a_stride a)) by lia.
  rewrite wrap64_small by lia.
  destruct (N.leb_spec d (a_start a + (a_count a - 1) * a_stride a)); cbn [orb]; [lia|].
  rewrite sub64_small by lia.
  destruct (N.ltb_spec (d - (a_start a + (a_count a - 1) * a_stride a)) (a_block a)); [lia|reflexivity].
Qed.

(* ---------------------------------------------------------------- all dimensions *)
Lemma loops_sound : forall d s c st b,
  length s = length d -> length c = length d -> length st = length d -> length b = length d ->
  Forall u64 c -> Forall u64 d ->
  vhb_loop true s c st d = Ok -> vdb_loop true (zip4 s c st b) d = Ok ->
  Forall2 axis_valid (zip4 s c st b) d.
Proof.
  induction d as [|d0 d IH]; intros [|s0 s] [|c0 c] [|st0 st] [|b0 b] Ls Lc Lst Lb Uc Ud;
    cbn [length] in *; try discriminate; cbn [zip4 vhb_loop vdb_loop]; [constructor|].
  inversion Uc; inversion Ud; subst.
  destruct (vhb_dim true s0 c0 st0 d0) eqn:E1; [|discriminate].
  destruct (vdb_dim true (mkAxis s0 c0 st0 b0) d0) eqn:E2; [|discriminate].
  intros HL1 HL2. constructor.
  - apply vhb_dim_sound in E1; try assumption.
    apply vdb_dim_sound; cbn [a_count a_start a_stride]; try assumption. apply E1.
  - apply IH; try assumption; lia.
Qed.

Lemma loops_complete : forall d s c st b,
  length s = length d -> length c = length d -> length st = length d -> length b = length d ->
  Forall u64 c -> Forall u64 d ->
  Forall2 axis_valid (zip4 s c st b) d ->
  vhb_loop true s c st d = Ok /\ vdb_loop true (zip4 s c st b) d = Ok.
Proof.
  induction d as [|d0 d IH]; intros [|s0 s] [|c0 c] [|st0 st] [|b0 b] Ls Lc Lst Lb Uc Ud V;
    cbn [length] in *; try discriminate; cbn [zip4 vhb_loop vdb_loop] in *; [split; reflexivity|].
  inversion Uc; inversion Ud; inversion V; subst.
  match goal with H : axis_valid _ _ |- _ => pose proof H as AV; destruct H as (A1 & A2 & A3 & A4) end.
  cbn [a_start a_count a_stride a_block] in *.
  rewrite vhb_dim_complete by (try assumption; lia).
  rewrite vdb_dim_complete by assumption.
  apply IH; try assumption; lia.
Qed.

Lemma ones_length n : length (ones n) = n.
Proof. apply repeat_length. Qed.

Lemma vsd_ok h n : validate_selection_dimensions h n = Ok <-> lens_ok h n.
Proof.
  unfold validate_selection_dimensions, lens_ok, stride_of, block_of.
  destruct (Nat.eqb_spec (length (h_start h)) n); cbn [negb]; [|split; [discriminate|tauto]].
  destruct (Nat.eqb_spec (length (h_count h)) n); cbn [negb]; [|split; [discriminate|tauto]].
  destruct (h_stride h) as [l|]; [destruct (Nat.eqb_spec (length l) n); cbn [negb]; [|split; [discriminate|tauto]]|];
  (destruct (h_block h) as [l'|]; [destruct (Nat.eqb_spec (length l') n); cbn [negb]; [|split; [discriminate|tauto]]|]);
  rewrite ?ones_length; tauto.
Qed.

Definition u64_sel (h : hsel) (n : nat) : Prop :=
  Forall u64 (h_start h) /\ Forall u64 (h_count h) /\ Forall u64 (stride_of h n) /\ Forall u64 (block_of h n).

Lemma validate_sound h dims :
  u64_sel h (length dims) -> Forall u64 dims -> validate h dims = Ok -> valid h dims.
Proof.
  unfold validate, validate_gen, valid. intros (U1 & U2 & U3 & U4) Ud.
  destruct (validate_selection_dimensions h (length dims)) eqn:E0; [|discriminate].
  apply vsd_ok in E0. destruct E0 as (L1 & L2 & L3 & L4).
  unfold validate_hyperslab_bounds. rewrite L1, L2, L3, !Nat.eqb_refl. cbn [andb negb].
  destruct (vhb_loop true _ _ _ _) eqn:E1; [|discriminate].
  destruct (calculate_hyperslab_elements _); [|discriminate].
  intros E2. split; [repeat split; assumption|].
  apply loops_sound; assumption.
Qed.

Lemma prodN_pos l : Forall (fun c => 0 < c) l -> 0 < prodN l.
Proof. induction 1; cbn [prodN]; nia. Qed.

Lemma che_loop_ok : forall count total,
  Forall (fun c => 0 < c) count -> 0 < total -> total * prodN count <= max_hyperslab_elements ->
  che_loop total count = Some (total * prodN count).
Proof.
  induction count as [|c r IH]; intros total Hc Ht Hle; cbn [che_loop prodN].
  - f_equal. lia.
  - inversion Hc; subst. pose proof (prodN_pos r H2) as Hp. cbn [prodN] in Hle.
    destruct (N.eqb_spec c 0); [lia|].
    assert (total * c <= total * (c * prodN r)) by (apply N.mul_le_mono_l; nia).
    rewrite safe_multiply_ok by (unfold u64max, max_hyperslab_elements in *; lia).
    rewrite IH; try assumption; [f_equal; lia|nia|lia].
Qed.

Lemma validate_complete h dims :
  u64_sel h (length dims) -> Forall u64 dims -> dims <> [] ->
  prodN (h_count h) <= max_hyperslab_elements ->
  valid h dims -> validate h dims = Ok.
Proof.
  unfold validate, validate_gen, valid. intros (U1 & U2 & U3 & U4) Ud Hne Hlim (L & V).
  pose proof L as (L1 & L2 & L3 & L4).
  apply vsd_ok in L. rewrite L.
  unfold validate_hyperslab_bounds. rewrite L1, L2, L3, !Nat.eqb_refl. cbn [andb negb].
  destruct (loops_complete dims (h_start h) (h_count h) (stride_of h (length dims)) (block_of h (length dims)))
    as (E1 & E2); try assumption.
  rewrite E1. unfold axes_of. rewrite E2.
  assert (Hpos : Forall (fun c => 0 < c) (h_count h)).
  { clear -V L1 L2 L3 L4. unfold axes_of in V.
    revert V L1 L2 L3 L4. generalize (h_start h) (h_count h) (stride_of h (length dims)) (block_of h (length dims)).
    induction dims as [|d0 d IH]; intros [|s0 s] [|c0 c] [|st0 st] [|b0 b] V Ls Lc Lst Lb;
      cbn [length] in *; try discriminate; [constructor|].
    cbn [zip4] in V. inversion V; subst. constructor; [apply H2|].
    eapply IH; try eassumption; lia. }
  unfold calculate_hyperslab_elements.
  destruct (h_count h) as [|c0 cr] eqn:EC.
  { destruct dims; [congruence|discriminate]. }
  rewrite che_loop_ok; try assumption; [|lia|lia].
  rewrite N.mul_1_l.
  pose proof (prodN_pos _ Hpos).
  destruct (N.eqb_spec (prodN (c0 :: cr)) 0); [lia|]. cbn [orb].
  destruct (N.ltb_spec max_hyperslab_elements (prodN (c0 :: cr))); [lia|reflexivity].
Qed.

(* ---------------------------------------------------------------- ReadSlice *)
Lemma slice_dim_ok s c d : u64 d -> (slice_dim true s c d = Ok <-> s + c <= d).
Proof.
  unfold slice_dim, u64. intros Hd.
  destruct (N.ltb_spec d c); cbn [orb]; [split; [discriminate|lia]|].
  rewrite sub64_small by lia.
  destruct (N.ltb_spec (d - c) s); split; try discriminate; try lia; reflexivity.
Qed.

Lemma slice_validate_ok start count dims :
  Forall u64 dims -> (slice_validate start count dims = Ok <-> slice_valid start count dims).
Proof.
  unfold slice_validate, slice_validate_gen, slice_valid. intros Ud.
  destruct (Nat.eqb_spec (length start) (length dims)) as [L1|]; cbn [negb]; [|split; [discriminate|tauto]].
  destruct (Nat.eqb_spec (length count) (length dims)) as [L2|]; cbn [negb]; [|split; [discriminate|tauto]].
  assert (slice_loop true start count dims = Ok <->
          Forall2 (fun sc d => fst sc + snd sc <= d) (combine start count) dims); [|tauto].
  revert start count L1 L2. induction Ud as [|d0 d Hd0 Hd IH]; intros [|s0 s] [|c0 c] L1 L2;
    cbn [length] in *; try discriminate; cbn [slice_loop combine].
  - split; [constructor|reflexivity].
  - pose proof (slice_dim_ok s0 c0 d0 Hd0) as D. destruct (slice_dim true s0 c0 d0).
    + rewrite IH by lia. split.
      * intros. constructor; [apply D; reflexivity|assumption].
      * intros V. inversion V; assumption.
    + split; [discriminate|]. intros V. inversion V; subst. cbn [fst snd] in *.
      apply D in H2. discriminate.
Qed.
