(* C02 composition, part 3: the link between the abstract index and the abstract heap that the simulation needs
   (every record's id addresses a stored object WITH its length; no two records share an offset) and its
   preservation by the four dense updates of Model/Attr.v.  Statements about the abstract model only; no
   hypothesis on the name hash (the simulation holds with or without hash collisions). *)
From HV Require Import Base.Prelude Model.Attr Model.AttrCompose Proofs.AttrBase Proofs.AttrDense Proofs.AttrComposeHeap.

Definition rec_live (hp : heap) (rc : N * hid) : Prop := exists a, id_live hp (snd rc) a.

Definition DInv (ix : idx) (hp : heap) : Prop := Forall (rec_live hp) ix /\ NoDup (offs ix).

Definition keys_below (hp : heap) : Prop := forall k, In k (map fst (hobjs hp)) -> k < hfree hp.

Lemma DInv_empty : DInv [] heap_empty.
Proof. split; constructor. Qed.

Lemma offs_app a b : offs (a ++ b) = offs a ++ offs b.
Proof. unfold offs. apply map_app. Qed.

Lemma rec_live_key hp rc : rec_live hp rc -> In (fst (snd rc)) (map fst (hobjs hp)).
Proof. intros [a (G & _)]. unfold heap_get in G. eapply assoc_get_in_keys. exact G. Qed.

Lemma offs_keys hp ix k : Forall (rec_live hp) ix -> In k (offs ix) -> In k (map fst (hobjs hp)).
Proof.
  intros F HI. unfold offs in HI. apply in_map_iff in HI. destruct HI as [rc [E HI]]. subst k.
  rewrite Forall_forall in F. apply rec_live_key. apply F. exact HI.
Qed.

Lemma idx_search_split : forall ix h id, idx_search h ix = Some id ->
  exists ix1 ix2, ix = ix1 ++ (h, id) :: ix2 /\ ~ In h (map fst ix1).
Proof.
  induction ix as [|[h' id'] ix IH]; intros h id; cbn [idx_search]; [discriminate|].
  destruct (N.eqb_spec h' h) as [->|NE].
  - intro E. inversion E; subst. exists [], ix. split; [reflexivity | intros []].
  - intro E. destruct (IH h id E) as (ix1 & ix2 & -> & Hn). exists ((h', id') :: ix1), ix2.
    split; [reflexivity|]. cbn [map fst In]. intros [A|A]; [contradiction | apply Hn; exact A].
Qed.

(* ---- new object at the next free offset ---- *)
Lemma live_grow hp a rc : rec_live hp rc ->
  rec_live (mkHeap (hobjs hp ++ [(hfree hp, a)]) (hfree hp + msg_size a)) rc.
Proof.
  intros [x (G & S & L)]. exists x. repeat split; try assumption.
  unfold heap_get in *. cbn [hobjs]. apply assoc_get_app_some. exact G.
Qed.

Lemma live_new hp a : keys_below hp -> hfree hp < 65536 ->
  rec_live (mkHeap (hobjs hp ++ [(hfree hp, a)]) (hfree hp + msg_size a)) (0, (hfree hp, msg_size a)).
Proof.
  intros K Hf. exists a. unfold id_live, heap_get. cbn [snd fst hobjs]. repeat split; [|assumption].
  apply assoc_get_app_fresh. intro HI. apply K in HI. lia.
Qed.

Lemma dinv_insert P ix hp a h ix' : DInv ix hp -> keys_below hp -> hfree hp < 65536 ->
  idx_insert P (h, (hfree hp, msg_size a)) ix = Some ix' ->
  DInv ix' (mkHeap (hobjs hp ++ [(hfree hp, a)]) (hfree hp + msg_size a)).
Proof.
  intros [F ND] K Hf Hi. unfold idx_insert in Hi. cbn [fst] in Hi.
  destruct (idx_search h ix); [discriminate|]. destruct (_ <=? _); [discriminate|]. inversion Hi; subst ix'. clear Hi.
  destruct (idx_insert_sorted_split (h, (hfree hp, msg_size a)) ix) as (ix1 & ix2 & E1 & E2). rewrite E2. subst ix.
  apply Forall_app in F. destruct F as [F1 F2]. split.
  - apply Forall_app. split; [|constructor].
    + eapply Forall_impl; [|exact F1]. intros rc. apply live_grow.
    + destruct (live_new hp a K Hf) as [x L]. exists x. exact L.
    + eapply Forall_impl; [|exact F2]. intros rc. apply live_grow.
  - rewrite offs_app in *. cbn [offs map fst snd]. fold (offs ix2).
    apply NoDup_Add with (a := hfree hp) (l := offs ix1 ++ offs ix2); [apply Add_app|]. split; [exact ND|].
    intro HI. assert (In (hfree hp) (map fst (hobjs hp))).
    { apply (offs_keys hp (ix1 ++ ix2)); [apply Forall_app; split; assumption | rewrite offs_app; exact HI]. }
    apply K in H. lia.
Qed.

(* ---- same-size overwrite ---- *)
Lemma dinv_overwrite ix hp id old a hp' : DInv ix hp -> id_live hp id old -> msg_size a = snd id ->
  heap_overwrite hp id a = Some hp' -> DInv ix hp'.
Proof.
  intros [F ND] (G & S & L) Hs Ho. split; [|exact ND].
  unfold heap_overwrite in Ho. destruct (assoc_set (fst id) a (hobjs hp)) as [l|] eqn:E; [|discriminate].
  inversion Ho; subst hp'. destruct (assoc_set_spec _ _ _ _ _ E) as [_ Hg].
  eapply Forall_impl; [|exact F]. intros rc [x (G' & S' & L')].
  unfold heap_get in *. cbn [hobjs]. destruct (N.eqb_spec (fst (snd rc)) (fst id)) as [Eq|NE].
  - exists a. unfold id_live, heap_get. cbn [hobjs]. rewrite Hg, Eq, N.eqb_refl. repeat split; [|assumption].
    rewrite Eq in G'. rewrite G in G'. inversion G'; subst x. congruence.
  - exists x. unfold id_live, heap_get. cbn [hobjs]. rewrite Hg. apply N.eqb_neq in NE. rewrite NE. auto.
Qed.

(* ---- deletion of the found record and its object ---- *)
Lemma live_del hp hp' id rc : heap_delete hp id = Some hp' -> fst (snd rc) <> fst id -> rec_live hp rc -> rec_live hp' rc.
Proof.
  intros Hd NE [x (G & S & L)]. unfold heap_delete in Hd.
  destruct (assoc_del (fst id) (hobjs hp)) as [l|] eqn:E; [|discriminate]. inversion Hd; subst hp'.
  destruct (assoc_del_spec _ _ _ _ E) as [Hg _]. exists x. unfold id_live, heap_get in *. cbn [hobjs].
  rewrite Hg by assumption. auto.
Qed.

Lemma middle_offs (ix1 ix2 : idx) h id : NoDup (offs (ix1 ++ (h, id) :: ix2)) ->
  NoDup (offs (ix1 ++ ix2)) /\ forall rc, In rc (ix1 ++ ix2) -> fst (snd rc) <> fst id.
Proof.
  rewrite !offs_app. cbn [offs map fst snd]. fold (offs ix2). intro ND. split; [eapply NoDup_remove_1; exact ND|].
  apply NoDup_remove_2 in ND. intros rc HI E. apply ND. rewrite <- E, <- offs_app. unfold offs. apply in_map_iff.
  exists rc. auto.
Qed.

Lemma dinv_delete ix hp h id ix' hp' : DInv ix hp -> idx_search h ix = Some id ->
  idx_delete h ix = Some ix' -> heap_delete hp id = Some hp' -> DInv ix' hp'.
Proof.
  intros [F ND] Hs Hd Hh. destruct (idx_search_split _ _ _ Hs) as (ix1 & ix2 & -> & Hn).
  rewrite (idx_delete_split h id ix1 ix2 Hn) in Hd. inversion Hd; subst ix'.
  destruct (middle_offs _ _ _ _ ND) as [ND' Hne]. split; [|exact ND'].
  assert (F' : Forall (rec_live hp) (ix1 ++ ix2)).
  { apply Forall_app in F. destruct F as [F1 F2]. inversion F2; subst. apply Forall_app. split; assumption. }
  rewrite Forall_forall in *. intros rc HI. eapply live_del; [exact Hh | apply Hne; exact HI | apply F'; exact HI].
Qed.

(* ---- delete + insert + UpdateRecord (replacement of a different size) ---- *)
Lemma dinv_update ix hp h id hp1 a ix' : DInv ix hp -> idx_search h ix = Some id ->
  heap_delete hp id = Some hp1 -> keys_below hp1 -> hfree hp1 < 65536 ->
  idx_update h (hfree hp1, msg_size a) ix = Some ix' ->
  DInv ix' (mkHeap (hobjs hp1 ++ [(hfree hp1, a)]) (hfree hp1 + msg_size a)).
Proof.
  intros [F ND] Hs Hh K Hf Hu. destruct (idx_search_split _ _ _ Hs) as (ix1 & ix2 & -> & Hn).
  rewrite (idx_update_split h id (hfree hp1, msg_size a) ix1 ix2 Hn) in Hu. inversion Hu; subst ix'.
  destruct (middle_offs _ _ _ _ ND) as [ND' Hne].
  assert (F' : Forall (rec_live hp1) (ix1 ++ ix2)).
  { apply Forall_app in F. destruct F as [F1 F2]. inversion F2; subst.
    rewrite Forall_forall. intros rc HI. eapply live_del; [exact Hh | apply Hne; exact HI |].
    apply in_app_or in HI. rewrite Forall_forall in F1, H2. destruct HI; auto. }
  apply Forall_app in F'. destruct F' as [F1 F2]. split.
  - apply Forall_app. split; [|constructor].
    + eapply Forall_impl; [|exact F1]. intros rc. apply live_grow.
    + destruct (live_new hp1 a K Hf) as [x L]. exists x. exact L.
    + eapply Forall_impl; [|exact F2]. intros rc. apply live_grow.
  - rewrite offs_app in *. cbn [offs map fst snd]. fold (offs ix2).
    apply NoDup_Add with (a := hfree hp1) (l := offs ix1 ++ offs ix2); [apply Add_app|]. split; [exact ND'|].
    intro HI. assert (In (hfree hp1) (map fst (hobjs hp1))).
    { apply (offs_keys hp1 (ix1 ++ ix2)); [apply Forall_app; split; assumption | rewrite offs_app; exact HI]. }
    apply K in H. lia.
Qed.

(* the record SearchRecord finds is live *)
Lemma dinv_found ix hp h id : DInv ix hp -> idx_search h ix = Some id -> exists a, id_live hp id a.
Proof.
  intros [F _] Hs. destruct (idx_search_split _ _ _ Hs) as (ix1 & ix2 & -> & _).
  apply Forall_app in F. destruct F as [_ F]. inversion F; subst. assumption.
Qed.

(* what the reader lists: the objects the records address, in index order *)
Lemma dinv_read : forall ix hp, Forall (rec_live hp) ix ->
  exists l, read_dense hp ix = Some l /\ Forall2 (fun rc a => id_live hp (snd rc) a) ix l.
Proof.
  induction ix as [|[h id] ix IH]; intros hp F.
  - exists []. split; [reflexivity | constructor].
  - inversion F as [|? ? [a L] F']; subst. destruct (IH hp F') as (l & R & F2). exists (a :: l).
    cbn [read_dense]. destruct L as (G & S & Lt). cbn [snd] in *. rewrite G, R. split; [reflexivity|].
    constructor; [repeat split; assumption | exact F2].
Qed.
