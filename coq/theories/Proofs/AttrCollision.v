(* Refutation of the full statement of C02 for names whose hashes collide: in dense storage every
   look-up is by hash alone (SearchRecord / UpdateRecord / DeleteRecord), so a write to one name replaces
   the attribute stored under the other, and a delete of an absent name removes the other one. *)
From HV Require Import Base.Prelude Model.Attr Model.AttrTie Spec.Lookup3 Proofs.AttrBase.

(* a string value of 230 characters: too big for the 255-byte header next to the 58 bytes of the dataset's own
   messages, so the first write already goes to dense storage *)
Definition big_value : value := mkValue 3 231 0 [1] (repeat 66 230 ++ [0]).
Definition small_value : value := mkValue 0 1 8 [1] [1].

(* ---- the hash is lookup3 (what the Go code uses); the colliding pair was found by the C14 search ---- *)
Definition coll_a : bytes := ascii_bytes "ayou".
Definition coll_b : bytes := ascii_bytes "cpxv".

Lemma lookup3_collision : coll_a <> coll_b /\ lk3 coll_a = lk3 coll_b.
Proof. split; [discriminate | vm_compute; reflexivity]. Qed.

Definition hist_overwrite (a b : bytes) : list op := [OWrite a (Some big_value); OWrite b (Some small_value)].
Definition hist_delete (a b : bytes) : list op := [OWrite a (Some big_value); ODelete b].

(* write to [b] destroys [a]: both calls succeed, the map has two bindings, the file lists one attribute *)
Lemma lookup3_overwrite_wrong :
  let h := hist_overwrite coll_a coll_b in
  let '(st, rs) := run lk3 (go_params 58) init h in
  rs = [ROk; ROk] /\
  sp_get (run_spec [] h rs) coll_a = Some big_value /\
  exists l, read_attrs st = Some l /\ attr_get l coll_a = None /\ List.length l = 1%nat.
Proof. vm_compute. split; [reflexivity|]. split; [reflexivity|]. eexists. split; [reflexivity|]. split; reflexivity. Qed.

(* deleting the absent name [b] succeeds and removes [a] *)
Lemma lookup3_delete_wrong :
  let h := hist_delete coll_a coll_b in
  let '(st, rs) := run lk3 (go_params 58) init h in
  rs = [ROk; ROk] /\
  snd (spec_delete (run_spec [] [OWrite coll_a (Some big_value)] [ROk]) coll_b) = RErr /\
  read_attrs st = Some [].
Proof. vm_compute. split; [reflexivity|]. split; reflexivity. Qed.

(* ---- the same for ANY hash function under which the two names "a" and "b" collide ---- *)
Section AbstractHash.
Variable name_hash : bytes -> N.
Hypothesis collide : name_hash [97] = name_hash [98].

Lemma abstract_overwrite_wrong :
  let h := hist_overwrite [97] [98] in
  let '(st, rs) := run name_hash (go_params 58) init h in
  rs = [ROk; ROk] /\
  sp_get (run_spec [] h rs) [97] = Some big_value /\
  exists l, read_attrs st = Some l /\ attr_get l [97] = None /\ List.length l = 1%nat.
Proof.
  cbv -[idx_search idx_update idx_delete]. rewrite collide.
  cbn [idx_search idx_update idx_delete]. rewrite !N.eqb_refl.
  cbv -[idx_search idx_update idx_delete]. cbn [idx_search idx_update idx_delete]. rewrite ?N.eqb_refl. cbv.
  split; [reflexivity|]. split; [reflexivity|]. eexists. split; [reflexivity|]. split; reflexivity.
Qed.

Lemma abstract_delete_wrong :
  let h := hist_delete [97] [98] in
  let '(st, rs) := run name_hash (go_params 58) init h in
  rs = [ROk; ROk] /\
  snd (spec_delete (run_spec [] [OWrite [97] (Some big_value)] [ROk]) [98]) = RErr /\
  read_attrs st = Some [].
Proof.
  cbv -[idx_search idx_update idx_delete]. rewrite collide.
  cbn [idx_search idx_update idx_delete]. rewrite !N.eqb_refl.
  cbv -[idx_search idx_update idx_delete]. cbn [idx_search idx_update idx_delete]. rewrite ?N.eqb_refl. cbv.
  split; [reflexivity|]. split; reflexivity.
Qed.

End AbstractHash.

(* ---- the statement of C02 without the no-collision hypothesis is false for the real hash ---- *)
Definition full_statement (name_hash : bytes -> N) (P : params) : Prop :=
  forall h st rs, run name_hash P init h = (st, rs) -> st <> Broken ->
  exists l, read_attrs st = Some l /\ forall n, attr_get l n = sp_get (run_spec [] h rs) n.

Lemma full_refuted_lookup3 : ~ full_statement lk3 (go_params 58).
Proof.
  intro F. pose proof lookup3_overwrite_wrong as W. cbv zeta in W.
  destruct (run lk3 (go_params 58) init (hist_overwrite coll_a coll_b)) as [st rs] eqn:R.
  destruct W as [ERS [SP [l [RD [AG _]]]]].
  assert (NB : st <> Broken) by (intro E; subst st; discriminate).
  destruct (F _ _ _ R NB) as [l' [RD' T]]. assert (l' = l) by congruence. subst l'.
  specialize (T coll_a). rewrite AG, SP in T. discriminate.
Qed.

Lemma collision_refuted_lookup3 :
  exists a b : bytes, a <> b /\ lk3 a = lk3 b /\
    (* WriteAttribute(b) replaces the attribute a: both calls succeed, a is gone *)
    (let h := hist_overwrite a b in
     let '(st, rs) := run lk3 (go_params 58) init h in
     rs = [ROk; ROk] /\ sp_get (run_spec [] h rs) a = Some big_value /\
     exists l, read_attrs st = Some l /\ attr_get l a = None /\ List.length l = 1%nat) /\
    (* DeleteAttribute(b), b never written, succeeds and deletes a *)
    (let h := hist_delete a b in
     let '(st, rs) := run lk3 (go_params 58) init h in
     rs = [ROk; ROk] /\
     snd (spec_delete (run_spec [] [OWrite a (Some big_value)] [ROk]) b) = RErr /\
     read_attrs st = Some []).
Proof.
  exists coll_a, coll_b. destruct lookup3_collision as [NE EQ].
  split; [exact NE|]. split; [exact EQ|]. split; [exact lookup3_overwrite_wrong | exact lookup3_delete_wrong].
Qed.

Lemma collision_refuted_abstract : forall name_hash : bytes -> N,
  name_hash [97] = name_hash [98] ->
  (let h := hist_overwrite [97] [98] in
   let '(st, rs) := run name_hash (go_params 58) init h in
   rs = [ROk; ROk] /\ sp_get (run_spec [] h rs) [97] = Some big_value /\
   exists l, read_attrs st = Some l /\ attr_get l [97] = None /\ List.length l = 1%nat) /\
  (let h := hist_delete [97] [98] in
   let '(st, rs) := run name_hash (go_params 58) init h in
   rs = [ROk; ROk] /\
   snd (spec_delete (run_spec [] [OWrite [97] (Some big_value)] [ROk]) [98]) = RErr /\
   read_attrs st = Some []).
Proof.
  intros f C. split; [exact (abstract_overwrite_wrong f C) | exact (abstract_delete_wrong f C)].
Qed.
