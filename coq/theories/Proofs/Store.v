(* Generic layer of the store proofs: the allocator hands out disjoint ranges, command lists whose
   static checks hold only write inside allowed or freshly allocated extents. *)
From HV Require Import Base.Prelude Model.Store.

Local Open Scope N_scope.

(* ------------------------------------------------------------------ basic predicates *)

Definition edisj (e1 e2 : extent) : Prop := ext_end e1 <= start e2 \/ ext_end e2 <= start e1.

Inductive NoOverlap : list extent -> Prop :=
| NoOverlap_nil : NoOverlap []
| NoOverlap_cons : forall e r, Forall (edisj e) r -> NoOverlap r -> NoOverlap (e :: r).

Definition lens_ok (c : cfg) (l : list extent) : Prop :=
  Forall (fun e => forall L, sized c (kind_of e) = Some L -> len e = L) l.

(* every extent ends at or below the allocator's next offset; extents pairwise disjoint *)
Definition ext_ok (s : store) : Prop :=
  ovf s = false ->
  Forall (fun e => ext_end e <= next (al s)) (exts s) /\ NoOverlap (exts s).

(* w lies inside an extent of l that is allowed by T or was allocated at or after n0 *)
Definition legal (T : oid -> kind -> bool) (n0 : N) (l : list extent) (w : N * N) : Prop :=
  exists e, In e l /\ start e <= fst w /\ fst w + snd w <= ext_end e /\
            (T (owner e) (kind_of e) = true \/ n0 <= start e).

Definition wmisses (w : N * N) (e : extent) : Prop := fst w + snd w <= start e \/ ext_end e <= fst w.

Lemma edisj_sym : forall a b, edisj a b -> edisj b a.
Proof. unfold edisj; intros; tauto. Qed.

Lemma NoOverlap_In : forall l a b, NoOverlap l -> In a l -> In b l -> a <> b -> edisj a b.
Proof.
  induction l as [|e r IH]; intros a b H Ha Hb Hne; [inversion Ha|].
  inversion H as [|e' r' HF HN]; subst.
  destruct Ha as [Ha|Ha], Hb as [Hb|Hb]; subst.
  - congruence.
  - rewrite Forall_forall in HF. apply HF; assumption.
  - apply edisj_sym. rewrite Forall_forall in HF. apply HF; assumption.
  - apply IH; assumption.
Qed.

Lemma legal_incl : forall T n0 l l' w, legal T n0 l w -> incl l l' -> legal T n0 l' w.
Proof. intros T n0 l l' w (e & Hin & H) Hi. exists e. split; [apply Hi; exact Hin | exact H]. Qed.

(* ------------------------------------------------------------------ boolean checkers are sound *)

Lemma disj_sound : forall a b, disj a b = true -> edisj a b.
Proof. unfold disj, edisj; intros a b H. apply orb_true_iff in H. destruct H as [H|H]; apply N.leb_le in H; tauto. Qed.

Lemma no_overlap_b_sound : forall l, no_overlap_b l = true -> NoOverlap l.
Proof.
  induction l as [|e r IH]; intros H; [constructor|].
  cbn [no_overlap_b] in H. apply andb_true_iff in H. destruct H as [H1 H2].
  constructor; [|apply IH; exact H2].
  rewrite Forall_forall. intros x Hx. rewrite forallb_forall in H1. apply disj_sound. apply H1. exact Hx.
Qed.

Lemma misses_sound : forall w e, misses w e = true -> wmisses w e.
Proof. unfold misses, wmisses; intros w e H. apply orb_true_iff in H. destruct H as [H|H]; apply N.leb_le in H; tauto. Qed.

(* ------------------------------------------------------------------ find_ext *)

Lemma kind_eqb_eq : forall a b, kind_eqb a b = true -> a = b.
Proof. destruct a, b; cbn; intros H; try reflexivity; try discriminate. apply N.eqb_eq in H. subst. reflexivity. Qed.

Lemma find_ext_spec : forall l o k e, find_ext l o k = Some e -> In e l /\ owner e = o /\ kind_of e = k.
Proof.
  induction l as [|x r IH]; intros o k e H; [discriminate|].
  cbn [find_ext] in H.
  destruct ((owner x =? o) && kind_eqb (kind_of x) k) eqn:E.
  - inversion H; subst. apply andb_true_iff in E. destruct E as [E1 E2].
    apply N.eqb_eq in E1. apply kind_eqb_eq in E2. split; [left; reflexivity | split; assumption].
  - destruct (IH _ _ _ H) as (Hin & Ho & Hk). split; [right; exact Hin | split; assumption].
Qed.

(* ------------------------------------------------------------------ alloc_ext / write *)

Lemma alloc_ext_spec : forall s o k n e s',
  alloc_ext s o k n = Some (e, s') ->
  n <> 0 /\ e = mkExt (next (al s)) n o k /\ exts s' = e :: exts s /\ wlog s' = wlog s /\ fsize s' = fsize s /\
  ovf s' = (ovf s || (18446744073709551616 <=? next (al s) + n)) /\
  next (al s') = wrap64 (next (al s) + n).
Proof.
  intros s o k n e s' H. unfold alloc_ext, allocate in H.
  destruct (n =? 0) eqn:E; [discriminate|]. apply N.eqb_neq in E.
  inversion H; subst; cbn. repeat split; auto.
Qed.

Lemma alloc_ext_next : forall s o k n e s',
  alloc_ext s o k n = Some (e, s') -> ovf s' = false ->
  ovf s = false /\ next (al s') = next (al s) + n.
Proof.
  intros s o k n e s' H Hov. destruct (alloc_ext_spec _ _ _ _ _ _ H) as (_ & _ & _ & _ & _ & Ho & Hn).
  rewrite Ho in Hov. apply orb_false_iff in Hov. destruct Hov as [H1 H2]. split; [exact H1|].
  rewrite Hn. unfold wrap64. apply N.leb_gt in H2. apply N.mod_small. exact H2.
Qed.

Lemma ext_ok_alloc : forall s o k n e s', ext_ok s -> alloc_ext s o k n = Some (e, s') -> ext_ok s'.
Proof.
  intros s o k n e s' Hok H Hov.
  destruct (alloc_ext_next _ _ _ _ _ _ H Hov) as [Hov0 Hn].
  destruct (alloc_ext_spec _ _ _ _ _ _ H) as (_ & He & Hx & _).
  destruct (Hok Hov0) as [HF HN]. rewrite Hx, Hn. split.
  - constructor.
    + subst e. unfold ext_end; cbn. lia.
    + eapply Forall_impl; [|exact HF]. cbn. intros a Ha. lia.
  - constructor; [|exact HN].
    rewrite Forall_forall. intros x Hx'. rewrite Forall_forall in HF. specialize (HF x Hx').
    right. subst e. cbn. exact HF.
Qed.

Lemma lens_ok_alloc : forall c s o k n e s',
  lens_ok c (exts s) -> alloc_ext s o k n = Some (e, s') ->
  (forall L, sized c k = Some L -> n = L) -> lens_ok c (exts s').
Proof.
  intros c s o k n e s' Hl H Hs. destruct (alloc_ext_spec _ _ _ _ _ _ H) as (_ & He & Hx & _).
  rewrite Hx. constructor; [|exact Hl]. subst e; cbn. exact Hs.
Qed.

Lemma write_fields : forall s a n,
  al (write s a n) = al s /\ exts (write s a n) = exts s /\ ovf (write s a n) = ovf s /\ blocks (write s a n) = blocks s.
Proof. intros. unfold write. destruct (n =? 0); cbn; auto. Qed.

Lemma write_log : forall s a n w, In w (wlog (write s a n)) -> In w (wlog s) \/ (w = (a, n) /\ n <> 0).
Proof.
  intros s a n w H. unfold write in H. destruct (n =? 0) eqn:E; [left; exact H|].
  cbn in H. destruct H as [H|H]; [right; split; [auto | apply N.eqb_neq; exact E] | left; exact H].
Qed.

Lemma write_fsize : forall s a n B, fsize s <= B -> a + n <= B -> fsize (write s a n) <= B.
Proof. intros. unfold write. destruct (n =? 0); cbn; lia. Qed.

Lemma write_fsize_ge : forall s a n, fsize s <= fsize (write s a n).
Proof. intros. unfold write. destruct (n =? 0); cbn; lia. Qed.

Lemma ext_ok_write : forall s a n, ext_ok s -> ext_ok (write s a n).
Proof.
  intros s a n H. destruct (write_fields s a n) as (Ha & He & Ho & _).
  unfold ext_ok. rewrite Ha, He, Ho. exact H.
Qed.

(* ------------------------------------------------------------------ static command checks *)

Definition alloc_sized (c : cfg) (k : kind) (n : N) : bool :=
  match sized c k with Some L => n =? L | None => true end.
Definition write_sized (c : cfg) (k : kind) (hi : N) : bool :=
  match sized c k with Some L => hi <=? L | None => false end.

Definition memb (o : oid) (k : kind) (fr : list (oid * kind)) : bool :=
  existsb (fun p => (fst p =? o) && kind_eqb (snd p) k) fr.

(* static check of a command list: allocations of fixed-size kinds use the fixed size; every write goes
   to an extent (owner, kind) allowed by T or allocated earlier in the same list, within its size *)
Fixpoint cmds_ok (c : cfg) (T : oid -> kind -> bool) (fr : list (oid * kind)) (l : list cmd) : bool :=
  match l with
  | [] => true
  | x :: r =>
      match x with
      | CAlloc o k n => alloc_sized c k n && cmds_ok c T ((o, k) :: fr) r
      | CAllocWrite o k n => alloc_sized c k n && cmds_ok c T ((o, k) :: fr) r
      | CWrite o k off n => (T o k || memb o k fr) && write_sized c k (off + n) && cmds_ok c T fr r
      | CWriteWhole o k => (T o k || memb o k fr) && cmds_ok c T fr r
      | CAdvance _ _ _ => cmds_ok c T fr r
      | CWriteRaw _ _ => false
      | CSplit _ _ => false
      end
  end.

Lemma alloc_sized_spec : forall c k n, alloc_sized c k n = true -> forall L, sized c k = Some L -> n = L.
Proof. unfold alloc_sized; intros c k n H L HL. rewrite HL in H. apply N.eqb_eq; exact H. Qed.

(* what one checked command preserves *)
Record keeps (c : cfg) (T : oid -> kind -> bool) (n0 : N) (s s' : store) : Prop := {
  k_ext : ext_ok s -> ext_ok s';
  k_lens : lens_ok c (exts s) -> lens_ok c (exts s');
  k_incl : incl (exts s) (exts s');
  k_ovf : ovf s' = false -> ovf s = false;
  k_next : ovf s' = false -> next (al s) <= next (al s');
  k_fs : ovf s' = false -> ext_ok s -> lens_ok c (exts s) -> fsize s <= next (al s) -> fsize s' <= next (al s');
  k_fsge : fsize s <= fsize s';
  k_log : ovf s' = false -> ext_ok s -> lens_ok c (exts s) -> n0 <= next (al s) ->
          forall w, In w (wlog s') -> In w (wlog s) \/ legal T n0 (exts s') w
}.

Lemma keeps_refl : forall c T n0 s, keeps c T n0 s s.
Proof. intros. constructor; auto. - apply incl_refl. - intros; lia. - lia. Qed.

Lemma keeps_alloc : forall c T n0 s o k n e s',
  alloc_ext s o k n = Some (e, s') -> alloc_sized c k n = true -> keeps c T n0 s s'.
Proof.
  intros c T n0 s o k n e s' H Hs.
  pose proof (alloc_ext_spec _ _ _ _ _ _ H) as (Hn0 & He & Hx & Hw & Hf & Ho & Hn).
  constructor.
  - intros Hok. eapply ext_ok_alloc; eauto.
  - intros Hl. eapply lens_ok_alloc; eauto. apply alloc_sized_spec; exact Hs.
  - rewrite Hx. apply incl_tl, incl_refl.
  - intros Hov. apply (alloc_ext_next _ _ _ _ _ _ H Hov).
  - intros Hov. destruct (alloc_ext_next _ _ _ _ _ _ H Hov) as [_ Hnx]. lia.
  - intros Hov _ _ Hfs. destruct (alloc_ext_next _ _ _ _ _ _ H Hov) as [_ Hnx]. rewrite Hf. lia.
  - rewrite Hf. lia.
  - intros _ _ _ _ w Hin. left. rewrite Hw in Hin. exact Hin.
Qed.

Lemma keeps_write_inside : forall c T n0 s a n e,
  In e (exts s) -> start e <= a -> a + n <= ext_end e ->
  (T (owner e) (kind_of e) = true \/ n0 <= start e) ->
  keeps c T n0 s (write s a n).
Proof.
  intros c T n0 s a n e Hin H1 H2 H3.
  destruct (write_fields s a n) as (Ha & He & Ho & _).
  constructor.
  - apply ext_ok_write.
  - rewrite He; auto.
  - rewrite He; apply incl_refl.
  - rewrite Ho; auto.
  - rewrite Ha; intros; lia.
  - intros Hov Hok _ Hfs. rewrite Ha. rewrite Ho in Hov. destruct (Hok Hov) as [HF _].
    rewrite Forall_forall in HF. specialize (HF e Hin). apply write_fsize; lia.
  - apply write_fsize_ge.
  - intros _ _ _ _ w Hw. destruct (write_log _ _ _ _ Hw) as [Hw'|[Hw' _]]; [left; exact Hw'|].
    right. subst w. exists e. rewrite He. cbn. auto.
Qed.

Lemma keeps_trans : forall c T n0 s1 s2 s3,
  keeps c T n0 s1 s2 -> keeps c T n0 s2 s3 -> keeps c T n0 s1 s3.
Proof.
  intros c T n0 s1 s2 s3 A B. constructor.
  - intros H. apply (k_ext _ _ _ _ _ B), (k_ext _ _ _ _ _ A), H.
  - intros H. apply (k_lens _ _ _ _ _ B), (k_lens _ _ _ _ _ A), H.
  - eapply incl_tran; [apply (k_incl _ _ _ _ _ A) | apply (k_incl _ _ _ _ _ B)].
  - intros H. apply (k_ovf _ _ _ _ _ A), (k_ovf _ _ _ _ _ B), H.
  - intros H. pose proof (k_next _ _ _ _ _ B H). pose proof (k_next _ _ _ _ _ A (k_ovf _ _ _ _ _ B H)). lia.
  - intros H Hok Hl Hfs. pose proof (k_ovf _ _ _ _ _ B H) as H2.
    apply (k_fs _ _ _ _ _ B H); [apply (k_ext _ _ _ _ _ A Hok) | apply (k_lens _ _ _ _ _ A Hl) |].
    apply (k_fs _ _ _ _ _ A H2 Hok Hl Hfs).
  - pose proof (k_fsge _ _ _ _ _ A). pose proof (k_fsge _ _ _ _ _ B). lia.
  - intros H Hok Hl Hn0 w Hw. pose proof (k_ovf _ _ _ _ _ B H) as H2.
    destruct (k_log _ _ _ _ _ B H (k_ext _ _ _ _ _ A Hok) (k_lens _ _ _ _ _ A Hl)) with (w := w) as [Hw2|Hw2]; auto.
    + pose proof (k_next _ _ _ _ _ A H2). lia.
    + destruct (k_log _ _ _ _ _ A H2 Hok Hl Hn0 w Hw2) as [Hw1|Hw1]; [left; exact Hw1|].
      right. eapply legal_incl; [exact Hw1 | apply (k_incl _ _ _ _ _ B)].
Qed.

Lemma exec_cmd_ovf : forall s x s', exec_cmd s x = Some s' -> ovf s' = false -> ovf s = false.
Proof.
  intros s x s' E H.
  destruct x as [o k n|o k n|o k off n|o k|o k hsz|a n|o parts]; cbn [exec_cmd] in E.
  - destruct (alloc_ext s o k n) as [[e s3]|] eqn:E3; [|discriminate]. inversion E; subst.
    apply (alloc_ext_next _ _ _ _ _ _ E3 H).
  - destruct (alloc_ext s o k n) as [[e s3]|] eqn:E3; [|discriminate]. inversion E; subst.
    destruct (write_fields s3 (start e) n) as (_ & _ & Ho & _). rewrite Ho in H.
    apply (alloc_ext_next _ _ _ _ _ _ E3 H).
  - destruct (find_ext (exts s) o k); [|discriminate]. inversion E; subst.
    destruct (write_fields s (start e + off) n) as (_ & _ & Ho & _). rewrite Ho in H. exact H.
  - destruct (find_ext (exts s) o k); [|discriminate]. inversion E; subst.
    destruct (write_fields s (start e) (len e)) as (_ & _ & Ho & _). rewrite Ho in H. exact H.
  - destruct (find_ext (exts s) o k); [|discriminate].
    destruct (next (al s) <? start e + hsz).
    + destruct (alloc_ext s o KSpill (start e + hsz - next (al s))) as [[e1 s3]|] eqn:E3; [|discriminate].
      inversion E; subst. apply (alloc_ext_next _ _ _ _ _ _ E3 H).
    + inversion E; subst. exact H.
  - inversion E; subst. destruct (write_fields s a n) as (_ & _ & Ho & _). rewrite Ho in H. exact H.
  - unfold allocate in E. destruct (parts_total parts =? 0); [discriminate|]. inversion E; subst. cbn in H.
    apply orb_false_iff in H. tauto.
Qed.

Lemma exec_ovf : forall cmds s s' b, exec s cmds = (s', b) -> ovf s' = false -> ovf s = false.
Proof.
  induction cmds as [|x r IH]; intros s s' b He H; cbn [exec] in He.
  - inversion He; subst; exact H.
  - destruct (exec_cmd s x) as [s1|] eqn:E.
    + eapply exec_cmd_ovf; [exact E|]. eapply IH; eauto.
    + inversion He; subst; exact H.
Qed.

(* extents (o,k) allocated earlier in the current command list are found by find_ext and are fresh *)
Definition fresh_inv (n0 : N) (fr : list (oid * kind)) (s : store) : Prop :=
  forall o k, In (o, k) fr -> exists e, find_ext (exts s) o k = Some e /\ n0 <= start e.

Lemma memb_In : forall o k fr, memb o k fr = true -> In (o, k) fr.
Proof.
  intros o k fr H. unfold memb in H. apply existsb_exists in H. destruct H as ([o' k'] & Hin & H).
  cbn in H. apply andb_true_iff in H. destruct H as [H1 H2]. apply N.eqb_eq in H1. apply kind_eqb_eq in H2.
  subst. exact Hin.
Qed.

Lemma kind_eqb_refl : forall k, kind_eqb k k = true.
Proof. destruct k; try reflexivity. cbn. apply N.eqb_refl. Qed.

Lemma fresh_inv_alloc : forall n0 fr s o k n e s',
  fresh_inv n0 fr s -> alloc_ext s o k n = Some (e, s') -> n0 <= next (al s) ->
  fresh_inv n0 ((o, k) :: fr) s'.
Proof.
  intros n0 fr s o k n e s' Hf H Hn0 o2 k2 Hin.
  destruct (alloc_ext_spec _ _ _ _ _ _ H) as (_ & He & Hx & _). rewrite Hx. cbn [find_ext].
  destruct ((owner e =? o2) && kind_eqb (kind_of e) k2) eqn:E.
  - exists e. split; [reflexivity|]. subst e; cbn. exact Hn0.
  - destruct Hin as [Hin|Hin].
    + inversion Hin; subst o2 k2. subst e. cbn in E. rewrite N.eqb_refl, kind_eqb_refl in E. discriminate.
    + apply Hf. exact Hin.
Qed.

Lemma fresh_inv_weaken : forall n0 x fr s, fresh_inv n0 (x :: fr) s -> fresh_inv n0 fr s.
Proof. intros n0 x fr s H o k Hin. apply H. right. exact Hin. Qed.

Lemma fresh_inv_write : forall n0 fr s a n, fresh_inv n0 fr s -> fresh_inv n0 fr (write s a n).
Proof. intros n0 fr s a n H o k Hin. destruct (write_fields s a n) as (_ & He & _). rewrite He. apply H. exact Hin. Qed.

Lemma exec_keeps : forall c T n0 cmds fr s s' b,
  cmds_ok c T fr cmds = true -> exec s cmds = (s', b) ->
  ext_ok s -> lens_ok c (exts s) -> ovf s' = false -> n0 <= next (al s) -> fresh_inv n0 fr s ->
  keeps c T n0 s s'.
Proof.
  induction cmds as [|x r IH]; intros fr s s' b HC He Hok Hl Hov Hn0 Hfr.
  - cbn in He. inversion He; subst. apply keeps_refl.
  - cbn [exec] in He.
    destruct (exec_cmd s x) as [s1|] eqn:E; [|inversion He; subst; apply keeps_refl].
    assert (Hov1 : ovf s1 = false) by (eapply exec_ovf; eauto).
    assert (Hgo : forall fr', keeps c T n0 s s1 -> cmds_ok c T fr' r = true -> fresh_inv n0 fr' s1 -> keeps c T n0 s s').
    { intros fr' K1 HC' Hfr'. eapply keeps_trans; [exact K1|].
      eapply IH; eauto.
      - apply (k_ext _ _ _ _ _ K1 Hok).
      - apply (k_lens _ _ _ _ _ K1 Hl).
      - pose proof (k_next _ _ _ _ _ K1 Hov1). lia. }
    destruct x as [o k n|o k n|o k off n|o k|o k hsz|a n|o parts]; cbn [cmds_ok] in HC; try discriminate; cbn [exec_cmd] in E.
    + (* CAlloc *)
      apply andb_true_iff in HC. destruct HC as [HS HC].
      destruct (alloc_ext s o k n) as [[e s2]|] eqn:E2; [|discriminate]. inversion E; subst s2.
      apply (Hgo ((o, k) :: fr)); auto.
      * eapply keeps_alloc; eauto.
      * eapply fresh_inv_alloc; eauto.
    + (* CAllocWrite *)
      apply andb_true_iff in HC. destruct HC as [HS HC].
      destruct (alloc_ext s o k n) as [[e s2]|] eqn:E2; [|discriminate]. inversion E; subst s1.
      pose proof (alloc_ext_spec _ _ _ _ _ _ E2) as (Hnz & Hee & Hx & _).
      destruct (write_fields s2 (start e) n) as (_ & _ & Ho & _). rewrite Ho in Hov1.
      destruct (alloc_ext_next _ _ _ _ _ _ E2 Hov1) as [_ Hnx].
      apply (Hgo ((o, k) :: fr)); auto.
      * eapply keeps_trans; [eapply keeps_alloc; eauto|].
        apply keeps_write_inside with (e := e).
        -- rewrite Hx; left; reflexivity.
        -- lia.
        -- subst e; unfold ext_end; cbn; lia.
        -- right. subst e; cbn. exact Hn0.
      * apply fresh_inv_write. eapply fresh_inv_alloc; eauto.
    + (* CWrite *)
      apply andb_true_iff in HC. destruct HC as [HC HC2]. apply andb_true_iff in HC. destruct HC as [HT Hs].
      destruct (find_ext (exts s) o k) as [e|] eqn:E2; [|discriminate]. inversion E; subst s1.
      destruct (find_ext_spec _ _ _ _ E2) as (Hin & Hown & Hk).
      unfold write_sized in Hs. destruct (sized c k) as [L|] eqn:EL; [|discriminate]. apply N.leb_le in Hs.
      pose proof Hl as Hl'. unfold lens_ok in Hl'. rewrite Forall_forall in Hl'.
      pose proof (Hl' e Hin L) as HL. rewrite Hk in HL. specialize (HL EL).
      apply (Hgo fr); auto.
      * apply keeps_write_inside with (e := e); auto.
        -- lia.
        -- unfold ext_end. lia.
        -- apply orb_true_iff in HT. destruct HT as [HT|HT].
           ++ left. rewrite Hown, Hk. exact HT.
           ++ right. apply memb_In in HT. destruct (Hfr _ _ HT) as (e' & He' & Hs'). rewrite E2 in He'. inversion He'; subst. exact Hs'.
      * apply fresh_inv_write. exact Hfr.
    + (* CWriteWhole *)
      apply andb_true_iff in HC. destruct HC as [HT HC2].
      destruct (find_ext (exts s) o k) as [e|] eqn:E2; [|discriminate]. inversion E; subst s1.
      destruct (find_ext_spec _ _ _ _ E2) as (Hin & Hown & Hk).
      apply (Hgo fr); auto.
      * apply keeps_write_inside with (e := e); auto.
        -- lia.
        -- unfold ext_end. lia.
        -- apply orb_true_iff in HT. destruct HT as [HT|HT].
           ++ left. rewrite Hown, Hk. exact HT.
           ++ right. apply memb_In in HT. destruct (Hfr _ _ HT) as (e' & He' & Hs'). rewrite E2 in He'. inversion He'; subst. exact Hs'.
      * apply fresh_inv_write. exact Hfr.
    + (* CAdvance *)
      destruct (find_ext (exts s) o k) as [e|] eqn:E2; [|discriminate].
      destruct (next (al s) <? start e + hsz) eqn:E3.
      * destruct (alloc_ext s o KSpill (start e + hsz - next (al s))) as [[e1 s2]|] eqn:E4; [|discriminate].
        inversion E; subst s2.
        apply (Hgo fr); auto.
        -- eapply keeps_alloc; [exact E4 | reflexivity].
        -- eapply fresh_inv_weaken. eapply fresh_inv_alloc; eauto.
      * inversion E; subst s1. apply (Hgo fr); auto. apply keeps_refl.
Qed.

Lemma memb_incl : forall o k fr fr', memb o k fr = true -> incl fr fr' -> memb o k fr' = true.
Proof.
  intros o k fr fr' H Hi. unfold memb in *. apply existsb_exists in H. destruct H as (p & Hin & H).
  apply existsb_exists. exists p. split; [apply Hi; exact Hin | exact H].
Qed.

Lemma cmds_ok_mono : forall c T l fr fr', cmds_ok c T fr l = true -> incl fr fr' -> cmds_ok c T fr' l = true.
Proof.
  induction l as [|x r IH]; intros fr fr' H Hi; [reflexivity|].
  destruct x as [o k n|o k n|o k off n|o k|o k hsz|a n|o parts]; cbn [cmds_ok] in *; try discriminate.
  - apply andb_true_iff in H. destruct H as [H1 H2]. rewrite H1. cbn. eapply IH; [exact H2|].
    intros y [Hy|Hy]; [left; exact Hy | right; apply Hi; exact Hy].
  - apply andb_true_iff in H. destruct H as [H1 H2]. rewrite H1. cbn. eapply IH; [exact H2|].
    intros y [Hy|Hy]; [left; exact Hy | right; apply Hi; exact Hy].
  - apply andb_true_iff in H. destruct H as [H H3]. apply andb_true_iff in H. destruct H as [H1 H2].
    rewrite H2, (IH _ _ H3 Hi). apply orb_true_iff in H1. destruct H1 as [H1|H1].
    + rewrite H1. reflexivity.
    + rewrite (memb_incl _ _ _ _ H1 Hi). rewrite orb_true_r. reflexivity.
  - apply andb_true_iff in H. destruct H as [H1 H3]. rewrite (IH _ _ H3 Hi). apply orb_true_iff in H1. destruct H1 as [H1|H1].
    + rewrite H1. reflexivity.
    + rewrite (memb_incl _ _ _ _ H1 Hi). rewrite orb_true_r. reflexivity.
  - eapply IH; eauto.
Qed.

Lemma cmds_ok_app : forall c T a b fr, cmds_ok c T fr a = true -> cmds_ok c T fr b = true -> cmds_ok c T fr (a ++ b) = true.
Proof.
  induction a as [|x r IH]; intros b fr Ha Hb; [exact Hb|].
  destruct x as [o k n|o k n|o k off n|o k|o k hsz|a' n|o parts]; cbn [cmds_ok app] in *; try discriminate.
  - apply andb_true_iff in Ha. destruct Ha as [H1 H2]. rewrite H1. cbn. apply IH; [exact H2|].
    eapply cmds_ok_mono; [exact Hb | apply incl_tl, incl_refl].
  - apply andb_true_iff in Ha. destruct Ha as [H1 H2]. rewrite H1. cbn. apply IH; [exact H2|].
    eapply cmds_ok_mono; [exact Hb | apply incl_tl, incl_refl].
  - apply andb_true_iff in Ha. destruct Ha as [H1 H2]. rewrite H1. cbn. apply IH; assumption.
  - apply andb_true_iff in Ha. destruct Ha as [H1 H2]. rewrite H1. cbn. apply IH; assumption.
  - apply IH; assumption.
Qed.

(* weakening the allowed set *)
Lemma cmds_ok_T_mono : forall c (T T' : oid -> kind -> bool) l fr,
  (forall o k, T o k = true -> T' o k = true) -> cmds_ok c T fr l = true -> cmds_ok c T' fr l = true.
Proof.
  induction l as [|x r IH]; intros fr HT H; [reflexivity|].
  destruct x as [o k n|o k n|o k off n|o k|o k hsz|a n|o parts]; cbn [cmds_ok] in *; try discriminate.
  - apply andb_true_iff in H. destruct H as [H1 H2]. rewrite H1. cbn. apply IH; auto.
  - apply andb_true_iff in H. destruct H as [H1 H2]. rewrite H1. cbn. apply IH; auto.
  - apply andb_true_iff in H. destruct H as [H H3]. apply andb_true_iff in H. destruct H as [H1 H2].
    rewrite H2, (IH _ HT H3). apply orb_true_iff in H1. destruct H1 as [H1|H1].
    + rewrite (HT _ _ H1). reflexivity.
    + rewrite H1, orb_true_r. reflexivity.
  - apply andb_true_iff in H. destruct H as [H1 H3]. rewrite (IH _ HT H3). apply orb_true_iff in H1. destruct H1 as [H1|H1].
    + rewrite (HT _ _ H1). reflexivity.
    + rewrite H1, orb_true_r. reflexivity.
  - apply IH; auto.
Qed.

(* ------------------------------------------------------------------ frame from legality *)

Lemma legal_frame : forall T n0 l w e',
  NoOverlap l -> legal T n0 l w -> In e' l -> ext_end e' <= n0 ->
  T (owner e') (kind_of e') = false -> wmisses w e'.
Proof.
  intros T n0 l w e' HN (e & Hin & H1 & H2 & H3) Hin' Hend HT.
  destruct H3 as [H3|H3].
  - assert (Hne : e <> e') by (intros ->; congruence).
    destruct (NoOverlap_In _ _ _ HN Hin Hin' Hne) as [D|D]; unfold wmisses; lia.
  - unfold wmisses. lia.
Qed.
