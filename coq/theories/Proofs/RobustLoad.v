(* C07: the loader model of Model/RobustLoad.v.  For EVERY graph:
   - keep_mark = true (the code as it is): 1024 + |U| + 1 units of fuel are never exhausted, U = the addresses at which a
     group B-tree can be read; the visited set only grows; a group reached a second time through cached addresses is empty;
     work and objects built are bounded by F * (loadCount + |U|) + F + 1 (F = largest number of entries of one object);
   - count_all = true (repaired): objects built <= loadCount <= maxLoads + 1. *)
From HV Require Import Base.Prelude Base.Outcome Base.Bytes Model.RobustTerm Model.RobustLoad.

Ltac dif := match goal with |- context [if ?c then _ else _] => let E := fresh "E" in destruct c eqn:E end.


Lemma memN_In a l : memN a l = true <-> In a l.
Proof.
  unfold memN. rewrite existsb_exists. split.
  - intros [x [Hx E]]. apply N.eqb_eq in E. subst. exact Hx.
  - intros H. exists a. split; [exact H|apply N.eqb_refl].
Qed.

(* ------------------------------------------------------------------ the number of B-trees of U not yet marked *)
Definition unv (U v : list N) : nat := length (filter (fun u => negb (memN u v)) U).

Lemma unv_mono U v v' : incl v v' -> (unv U v' <= unv U v)%nat.
Proof.
  intros Hi. unfold unv. induction U as [|u U IH]; cbn [filter length]; [lia|].
  destruct (memN u v) eqn:E1; destruct (memN u v') eqn:E2; cbn [negb length]; try lia.
  apply memN_In in E1. apply Hi in E1. apply memN_In in E1. congruence.
Qed.

Lemma unv_mark U v b : In b U -> memN b v = false -> (S (unv U (b :: v)) <= unv U v)%nat.
Proof.
  intros Hin Hb. unfold unv. induction U as [|u U IH]; [destruct Hin|].
  cbn [filter].
  assert (Hle : (length (filter (fun u => negb (memN u (b :: v))) U) <= length (filter (fun u => negb (memN u v)) U))%nat).
  { apply (unv_mono U v (b :: v)). intros x Hx. right. exact Hx. }
  destruct (N.eq_dec u b) as [->|Hne].
  - rewrite Hb. cbn [negb length].
    replace (memN b (b :: v)) with true by (symmetry; apply memN_In; left; reflexivity).
    cbn [negb]. lia.
  - destruct Hin as [->|Hin]; [congruence|]. specialize (IH Hin).
    assert (E : memN u (b :: v) = memN u v).
    { unfold memN. cbn [existsb]. destruct (u =? b) eqn:Eb; [apply N.eqb_eq in Eb; congruence|reflexivity]. }
    rewrite E. destruct (memN u v); cbn [negb length]; lia.
Qed.

Lemma unv_le U v : (unv U v <= length U)%nat.
Proof. unfold unv. induction U as [|u U IH]; cbn [filter length]; [lia|]. destruct (negb (memN u v)); cbn [length]; lia. Qed.

(* ------------------------------------------------------------------ `each`: a transitive relation is kept *)
Lemma each_rel (R : lstate -> lstate -> Prop) run :
  (forall s, R s s) -> (forall a b c, R a b -> R b c -> R a c) ->
  forall cs, (forall c s, In c cs -> holds (R s) (run c s)) ->
  forall s, holds (R s) (each run cs s).
Proof.
  intros Rr Rt. induction cs as [|c r IH]; intros Hrun s; cbn [each holds]; [apply Rr|].
  pose proof (Hrun c s (or_introl eq_refl)) as H1.
  destruct (run c s) as [s1|s1|]; cbn [holds] in *; [|exact H1|exact I].
  assert (H2 : holds (R s1) (each run r s1)) by (apply IH; intros; apply Hrun; right; assumption).
  destruct (each run r s1); cbn [holds] in *; eauto.
Qed.

Lemma each_nofuel (Inv : lstate -> Prop) run cs :
  (forall c s, Inv s -> run c s <> LFuel) -> (forall c s s', Inv s -> run c s = LDone s' -> Inv s') ->
  forall s, Inv s -> each run cs s <> LFuel.
Proof.
  intros H1 H2. induction cs as [|c r IH]; intros s Hs; cbn [each]; [discriminate|].
  destruct (run c s) as [s1|s1|] eqn:E; [apply IH; eauto|discriminate|exfalso; eapply H1; eauto].
Qed.

Lemma holds_lift_done P f r : holds (fun s => P s /\ P (f s)) r -> holds P (lift_done f r).
Proof. destruct r; cbn [holds lift_done]; tauto. Qed.

Lemma holds_lift_all P f r : holds (fun s => P (f s)) r -> holds P (lift_all f r).
Proof. destruct r; cbn [holds lift_all]; tauto. Qed.

Lemma lift_done_nofuel f r : r <> LFuel -> lift_done f r <> LFuel.
Proof. destruct r; cbn [lift_done]; congruence. Qed.
Lemma lift_all_nofuel f r : r <> LFuel -> lift_all f r <> LFuel.
Proof. destruct r; cbn [lift_all]; congruence. Qed.

Lemma holds_imp (P Q : lstate -> Prop) r : (forall s, P s -> Q s) -> holds P r -> holds Q r.
Proof. destruct r; cbn [holds]; auto. Qed.

(* ================================================================== keep_mark = true *)
Section Marked.
  Variable g : graph.
  Variable count_all : bool.
  Variable maxLoads : N.
  Notation exec := (exec g true count_all maxLoads).
  Notation children := (children g true).

  Definition vis_le (s s' : lstate) : Prop := incl (ls_visited s) (ls_visited s').
  Lemma vis_le_refl s : vis_le s s. Proof. apply incl_refl. Qed.
  Lemma vis_le_trans a b c : vis_le a b -> vis_le b c -> vis_le a c. Proof. apply incl_tran. Qed.

  Lemma counted_holds (P : lstate -> Prop) s k : P (s_count s) -> (forall s', s' = s_count s -> holds P (k s')) -> holds P (counted maxLoads s k).
  Proof. intros H1 H2. unfold counted. cbv zeta. dif; [exact H1|apply H2; reflexivity]. Qed.

  (* the children of one group, given that loading one entry keeps the relation *)
  Lemma children_vis run bt heap s :
    (forall c s, holds (vis_le s) (run c s)) -> holds (vis_le s) (children run bt heap s).
  Proof.
    intros Hrun. unfold children. cbv zeta. dif; [cbn [holds]; apply incl_refl|].
    destruct (g_bt g bt heap) as [bes|]; cbn [holds].
    - apply holds_lift_all.
      eapply holds_imp; [|apply (each_rel vis_le run vis_le_refl vis_le_trans); intros; apply Hrun].
      intros s1 H. unfold vis_le in *. cbn [ls_visited s_mark s_step] in *. intros x Hx. apply H. right. exact Hx.
    - unfold vis_le. cbn [ls_visited s_mark s_step]. intros x Hx. right. exact Hx.
  Qed.

  (* the visited set only grows, on every path (value or error) *)
  Lemma exec_vis fuel : forall loading c s, holds (vis_le s) (exec fuel loading c s).
  Proof.
    induction fuel as [|fuel IH]; intros loading c s; [exact I|].
    assert (Hobj : forall a name s1, vis_le s s1 ->
      holds (vis_le s) (match node_calls (g_obj g a name) name with
                        | None => LErr s1
                        | Some (cs, b) => lift_done (s_built b) (each (exec fuel (a :: loading)) cs s1) end)).
    { intros a name s1 H1. destruct (node_calls (g_obj g a name) name) as [[cs b]|]; [|exact H1].
      apply holds_lift_done.
      eapply holds_imp; [|apply (each_rel vis_le _ vis_le_refl vis_le_trans); intros; apply IH].
      intros s2 H2. split; eapply vis_le_trans; eauto; apply incl_refl. }
    destruct c as [a name|bt heap|bt heap|]; cbn [RobustLoad.exec].
    - destruct count_all.
      + apply counted_holds; [apply incl_refl|]. intros s' ->.
        dif; [apply incl_refl|]. dif; [apply incl_refl|]. apply Hobj. apply incl_refl.
      + dif; [apply incl_refl|]. dif; [apply incl_refl|].
        apply counted_holds; [apply incl_refl|]. intros s' ->. apply Hobj. apply incl_refl.
    - destruct count_all.
      + apply counted_holds; [apply incl_refl|]. intros s' ->. apply holds_lift_done.
        eapply holds_imp; [|apply children_vis; intros; apply IH]. intros s2 H2. split; exact H2.
      + apply holds_lift_done.
        eapply holds_imp; [|apply children_vis; intros; apply IH]. intros s2 H2. split; exact H2.
    - apply children_vis; intros; apply IH.
    - apply incl_refl.
  Qed.

  (* ---------------------------------------------------------------- termination *)
  Variable U : list N.
  Hypothesis U_ok : forall b h, g_bt g b h <> None -> In b U.

  Definition pot (loading : list N) (s : lstate) : nat := (1024 - length loading) + unv U (ls_visited s).

  Lemma exec_fuel fuel : forall loading c s, (pot loading s < fuel)%nat -> exec fuel loading c s <> LFuel.
  Proof.
    induction fuel as [|fuel IH]; intros loading c s Hp; [lia|].
    (* children: a passing call marks a B-tree of U *)
    assert (Hch : forall bt heap s1, ls_visited s1 = ls_visited s ->
              children (exec fuel loading) bt heap s1 <> LFuel).
    { intros bt heap s1 Hv. unfold children. cbv zeta. dif; [discriminate|].
      destruct (g_bt g bt heap) as [bes|] eqn:Eg; [|discriminate].
      assert (Hin : In bt U) by (apply (U_ok bt heap); congruence).
      cbn [ls_visited s_step] in E.
      assert (Hdec : (S (unv U (bt :: ls_visited s1)) <= unv U (ls_visited s1))%nat) by (apply unv_mark; assumption).
      apply lift_all_nofuel.
      assert (Hn : each (exec fuel loading) (flat_map bentry_calls bes) (s_mark bt (s_step s1)) <> LFuel).
      { apply (each_nofuel (fun s2 => (pot loading s2 < fuel)%nat)).
        - intros c0 s2 H2. apply IH. exact H2.
        - intros c0 s2 s3 H2 H3. pose proof (exec_vis fuel loading c0 s2) as Hm. rewrite H3 in Hm. cbn [holds] in Hm.
          unfold pot in *. pose proof (unv_mono U _ _ Hm). lia.
        - unfold pot in *. cbn [ls_visited s_mark s_step]. rewrite Hv in *. lia. }
      exact Hn. }
    assert (Hobj : forall a name s1, ls_visited s1 = ls_visited s -> (N.of_nat (length loading) < 1024) ->
      match node_calls (g_obj g a name) name with
      | None => LErr s1
      | Some (cs, b) => lift_done (s_built b) (each (exec fuel (a :: loading)) cs s1) end <> LFuel).
    { intros a name s1 Hv Hl. destruct (node_calls (g_obj g a name) name) as [[cs b]|]; [|discriminate].
      assert (Hn : each (exec fuel (a :: loading)) cs s1 <> LFuel).
      { apply (each_nofuel (fun s2 => (pot (a :: loading) s2 < fuel)%nat)).
        - intros c0 s2 H2. apply IH. exact H2.
        - intros c0 s2 s3 H2 H3. pose proof (exec_vis fuel (a :: loading) c0 s2) as Hm. rewrite H3 in Hm. cbn [holds] in Hm.
          unfold pot in *. pose proof (unv_mono U _ _ Hm). lia.
        - unfold pot in *. cbn [length]. rewrite Hv. lia. }
      apply lift_done_nofuel. exact Hn. }
    destruct c as [a name|bt heap|bt heap|]; cbn [RobustLoad.exec].
    - destruct count_all.
      + unfold counted. cbv zeta. dif; [discriminate|]. dif; [discriminate|]. unfold maxDepth. dif; [discriminate|].
        apply Hobj; [reflexivity|lia].
      + dif; [discriminate|]. unfold maxDepth. dif; [discriminate|].
        unfold counted. cbv zeta. dif; [discriminate|]. apply Hobj; [reflexivity|lia].
    - destruct count_all.
      + unfold counted. cbv zeta. dif; [discriminate|].
        apply lift_done_nofuel. apply Hch. reflexivity.
      + apply lift_done_nofuel. apply Hch. reflexivity.
    - apply Hch. reflexivity.
    - discriminate.
  Qed.

  Lemma open_terminates root : open g true count_all maxLoads (1025 + length U) root <> LFuel.
  Proof.
    unfold open. destruct (node_calls root 0) as [[cs b]|]; [|discriminate].
    assert (Hn : each (exec (1025 + length U) []) cs s0 <> LFuel).
    { apply (each_nofuel (fun s2 => (pot [] s2 < 1025 + length U)%nat)).
      - intros c0 s2 H2. apply exec_fuel. exact H2.
      - intros c0 s2 s3 H2 H3. pose proof (exec_vis (1025 + length U) [] c0 s2) as Hm. rewrite H3 in Hm. cbn [holds] in Hm.
        unfold pot in *. pose proof (unv_mono U _ _ Hm). lia.
      - unfold pot. cbn [length]. pose proof (unv_le U (ls_visited s0)). lia. }
    apply lift_done_nofuel. exact Hn.
  Qed.

  (* ---------------------------------------------------------------- a group reached a second time is empty *)
  Lemma children_marks run bt heap s s' :
    (forall c s, holds (vis_le s) (run c s)) -> children run bt heap s = LDone s' -> In bt (ls_visited s').
  Proof.
    intros Hrun. pose proof (children_vis run bt heap s Hrun) as Hv. unfold children in *. cbv zeta in *.
    destruct (memN bt (ls_visited (s_step s))) eqn:E.
    - intros [= <-]. apply memN_In. exact E.
    - destruct (g_bt g bt heap) as [bes|]; [|discriminate].
      pose proof (each_rel vis_le run vis_le_refl vis_le_trans (flat_map bentry_calls bes) (fun c s _ => Hrun c s)
                    (s_mark bt (s_step s))) as He.
      destruct (each run (flat_map bentry_calls bes) (s_mark bt (s_step s))) as [s2|s2|]; cbn [lift_all]; try discriminate.
      intros [= <-]. cbn [holds] in He. apply He. left. reflexivity.
  Qed.

  Lemma children_visited_empty run bt heap s :
    In bt (ls_visited s) -> children run bt heap s = LDone (s_step s).
  Proof.
    intros H. unfold children. cbv zeta. cbn [ls_visited s_step].
    replace (memN bt (ls_visited s)) with true by (symmetry; apply memN_In; exact H). reflexivity.
  Qed.
End Marked.

(* ================================================================== keep_mark = false (seeded change C07-c) *)
Lemma dia_entry_calls t : t <> 0 -> bentry_calls (dia_entry t) = [CCached t 8].
Proof.
  intros H. unfold dia_entry, bentry_calls, entry_calls, soft. cbn [se_cache se_ok se_bt se_heap se_addr se_name].
  change (1 =? 2) with false. change (1 =? 1) with true. cbn [negb andb].
  replace (t =? 0) with false by (symmetry; apply N.eqb_neq; exact H). reflexivity.
Qed.

Lemma exec_cached_unfold g km mL f loading bt h s :
  exec g km false mL (S f) loading (CCached bt h) s =
  lift_done (s_built 1) (children g km (exec g km false mL f loading) bt h s).
Proof. reflexivity. Qed.

Lemma exec_children_unfold g km ca mL f loading bt h s :
  exec g km ca mL (S f) loading (CChildren bt h) s = children g km (exec g km ca mL f loading) bt h s.
Proof. reflexivity. Qed.

Section Unmarked.
  Variable n : N.
  Variable maxLoads : N.
  Notation gr := (dia_graph n).

  Lemma filter_below b v : (forall x, In x v -> x < b) -> filter (fun x => negb (x =? b)) v = v.
  Proof.
    induction v as [|x v IH]; intros H; [reflexivity|]. cbn [filter].
    assert (Hx : x < b) by (apply H; left; reflexivity).
    replace (x =? b) with false by (symmetry; apply N.eqb_neq; lia). cbn [negb]. f_equal. apply IH. intros y Hy. apply H. right. exact Hy.
  Qed.

  Lemma memN_below b v : (forall x, In x v -> x < b) -> memN b v = false.
  Proof.
    intros H. destruct (memN b v) eqn:E; [|reflexivity]. apply memN_In in E. apply H in E. lia.
  Qed.

  (* loadChildren of the group at level b with k levels below it: every level is loaded once per PATH *)
  Lemma dia_children k : forall f b loading h s,
    N.of_nat k + b = n + 1 -> 1 <= b -> (k <= f)%nat -> (forall x, In x (ls_visited s) -> x < b) ->
    children gr false (exec gr false false maxLoads f loading) b h s =
    LDone (LS (ls_visited s) (ls_count s) (ls_built s + dia_built k) (ls_steps s + dia_steps k)).
  Proof.
    induction k as [|k IH]; intros f b loading h s Hb H1 Hf Hv; unfold children; cbv zeta; cbn [ls_visited s_step].
    - rewrite (memN_below b _ Hv). cbn [g_bt dia_graph].
      replace (b =? 0) with false by (symmetry; apply N.eqb_neq; lia).
      replace (b <=? n) with false by (symmetry; apply N.leb_gt; lia).
      replace (b =? n + 1) with true by (symmetry; apply N.eqb_eq; lia).
      cbn [flat_map each lift_all s_unmark s_mark s_step ls_visited ls_count ls_built ls_steps filter].
      unfold s_unmark, s_mark, s_step; cbn [ls_visited ls_count ls_built ls_steps filter].
      rewrite N.eqb_refl. cbn [negb]. rewrite (filter_below b _ Hv). cbn [dia_built dia_steps]. f_equal. f_equal; lia.
    - rewrite (memN_below b _ Hv). cbn [g_bt dia_graph].
      replace (b =? 0) with false by (symmetry; apply N.eqb_neq; lia).
      replace (b <=? n) with true by (symmetry; apply N.leb_le; lia).
      destruct f as [|f]; [lia|].
      cbn [flat_map]. rewrite !dia_entry_calls by lia. cbn [app each]. rewrite exec_cached_unfold.
      assert (Hv1 : forall s1, ls_visited s1 = b :: ls_visited s -> forall x, In x (ls_visited s1) -> x < b + 1).
      { intros s1 E x Hx. rewrite E in Hx. destruct Hx as [<-|Hx]; [lia|]. apply Hv in Hx. lia. }
      rewrite (IH f (b + 1) loading 8 (s_mark b (s_step s))); [|lia|lia|lia|apply Hv1; reflexivity].
      cbn [lift_done]. rewrite exec_cached_unfold.
      rewrite (IH f (b + 1) loading 8); [|lia|lia|lia|apply Hv1; reflexivity].
      cbn [lift_done lift_all]. unfold s_unmark, s_built, s_mark, s_step; cbn [ls_visited ls_count ls_built ls_steps filter].
      rewrite N.eqb_refl. cbn [negb]. rewrite (filter_below b _ Hv). cbn [dia_built dia_steps]. f_equal. f_equal; lia.
  Qed.
End Unmarked.

Lemma dia_built_pow k : dia_built k + 2 = 2 ^ (N.of_nat k + 1).
Proof.
  induction k as [|k IH]; [reflexivity|]. cbn [dia_built]. rewrite Nat2N.inj_succ.
  replace (N.succ (N.of_nat k) + 1) with (N.succ (N.of_nat k + 1)) by lia. rewrite N.pow_succ_r'. lia.
Qed.

(* Open on the family: 2^(n+1) - 1 objects from n+1 B-trees and 2n entries, loadCount stays 0 (maxLoads never bites) *)
Lemma dia_open_unmarked (n : nat) maxLoads :
  open (dia_graph (N.of_nat n)) false false maxLoads (S n) (OStab 1 8) =
  LDone (LS [] 0 (dia_built n + 1) (dia_steps n)).
Proof.
  unfold open. cbn [node_calls each]. rewrite exec_children_unfold.
  rewrite (dia_children (N.of_nat n) maxLoads n); [|lia|lia|lia|intros x []].
  cbn [lift_done]. unfold s_built, s0; cbn [ls_visited ls_count ls_built ls_steps]. f_equal.
Qed.

Lemma dia_open_exponential (n : nat) maxLoads :
  exists s, open (dia_graph (N.of_nat n)) false false maxLoads (S n) (OStab 1 8) = LDone s /\
            2 ^ N.of_nat n <= ls_built s /\ ls_count s = 0.
Proof.
  eexists. split; [apply dia_open_unmarked|]. cbn [ls_built ls_count]. split; [|reflexivity].
  pose proof (dia_built_pow n) as H. replace (N.of_nat n + 1) with (N.succ (N.of_nat n)) in H by lia.
  rewrite N.pow_succ_r' in H. assert (0 < 2 ^ N.of_nat n) by (apply N.neq_0_lt_0, N.pow_nonzero; lia). lia.
Qed.

(* no bound k * size + c on the objects built, size = number of B-trees + number of entries of the graph = 3n + 1 *)
Lemma pow2_gt_lin m : N.of_nat m + 1 <= 2 ^ N.of_nat m.
Proof.
  induction m as [|m IH]; [cbn; lia|]. rewrite Nat2N.inj_succ, N.pow_succ_r'. lia.
Qed.

Lemma dia_no_linear_bound (k c maxLoads : N) :
  exists n s, open (dia_graph (N.of_nat n)) false false maxLoads (S n) (OStab 1 8) = LDone s /\
              k * (3 * N.of_nat n + 1) + c < ls_built s.
Proof.
  set (M := 6 * k + c + 2). set (m := N.to_nat M).
  exists (2 * m)%nat. destruct (dia_open_exponential (2 * m) maxLoads) as [s [Hs [Hb _]]].
  exists s. split; [exact Hs|].
  pose proof (pow2_gt_lin m) as Hm.
  assert (E : 2 ^ N.of_nat (2 * m) = 2 ^ N.of_nat m * 2 ^ N.of_nat m).
  { rewrite <- N.pow_add_r. f_equal. lia. }
  rewrite E in Hb. assert (Hm' : N.of_nat m = M) by (unfold m; lia).
  assert (H1 : (M + 1) * (M + 1) <= 2 ^ N.of_nat m * 2 ^ N.of_nat m) by (rewrite <- Hm'; apply N.mul_le_mono; exact Hm).
  replace (N.of_nat (2 * m)) with (2 * M) by lia.
  assert (H2 : (M + 1) * (M + 1) = 6 * (k * M) + c * M + 4 * M + 1) by (unfold M; ring).
  assert (H3 : c <= c * M) by (unfold M; nia).
  assert (H4 : k * (3 * (2 * M) + 1) + c = 6 * (k * M) + k + c) by ring.
  assert (H5 : k <= 4 * M) by (unfold M; lia).
  lia.
Qed.

(* with the mark kept, the same family costs one load per group: 2n + 1 objects *)
Example dia_marked_10 : lres_val (open (dia_graph 10) true false 100 100 (OStab 1 8)) = VL [VN 0; VN 21; VN 0; VN 11].
Proof. vm_compute. reflexivity. Qed.
Example dia_unmarked_10 : lres_val (open (dia_graph 10) false false 100 100 (OStab 1 8)) = VL [VN 0; VN 2047; VN 0; VN 0].
Proof. vm_compute. reflexivity. Qed.

(* ================================================================== counters, for every switch setting *)

Lemma each_holds2 (P Q : lstate -> Prop) run cs :
  (forall c s, P s -> holds2 P Q (run c s)) -> forall s, P s -> holds2 P Q (each run cs s).
Proof.
  intros H. induction cs as [|c r IH]; intros s Hs; cbn [each holds2]; [exact Hs|].
  pose proof (H c s Hs) as H1. destruct (run c s) as [s1|s1|]; cbn [holds2] in *; [apply IH; exact H1|exact H1|exact I].
Qed.

Section Count.
  Variable g : graph.
  Variable keep_mark count_all : bool.
  Variable maxLoads : N.
  Notation exec := (exec g keep_mark count_all maxLoads).
  Definition cP (s : lstate) := ls_count s <= maxLoads.
  Definition cQ (s : lstate) := ls_count s <= maxLoads + 1.

  Lemma fin_count b s : ls_count ((if keep_mark then (fun s => s) else s_unmark b) s) = ls_count s.
  Proof. destruct keep_mark; reflexivity. Qed.
  Lemma fin_built b s : ls_built ((if keep_mark then (fun s => s) else s_unmark b) s) = ls_built s.
  Proof. destruct keep_mark; reflexivity. Qed.
  Lemma fin_steps b s : ls_steps ((if keep_mark then (fun s => s) else s_unmark b) s) = ls_steps s.
  Proof. destruct keep_mark; reflexivity. Qed.

  Lemma counted_count s k : cP s -> (forall s', cP s' -> holds2 cP cQ (k s')) -> holds2 cP cQ (counted maxLoads s k).
  Proof.
    intros Hs Hk. unfold counted. cbv zeta. dif.
    - cbn [holds2]. unfold cQ, cP in *. cbn [ls_count s_count]. lia.
    - apply Hk. unfold cP in *. apply N.ltb_ge in E. exact E.
  Qed.

  Lemma lift_done_count f r : (forall s, ls_count (f s) = ls_count s) -> holds2 cP cQ r -> holds2 cP cQ (lift_done f r).
  Proof. intros Hf. destruct r; cbn [holds2 lift_done]; unfold cP; try rewrite Hf; auto. Qed.

  Lemma children_count run bt heap s :
    (forall c s, cP s -> holds2 cP cQ (run c s)) -> cP s -> holds2 cP cQ (children g keep_mark run bt heap s).
  Proof.
    intros Hrun Hs. unfold children. cbv zeta. dif; [exact Hs|].
    destruct (g_bt g bt heap) as [bes|]; cbn [holds2].
    - pose proof (each_holds2 cP cQ run (flat_map bentry_calls bes) Hrun (s_mark bt (s_step s)) Hs) as H.
      destruct (each run (flat_map bentry_calls bes) (s_mark bt (s_step s))); cbn [lift_all holds2] in *;
        unfold cP, cQ in *; try rewrite fin_count; auto.
    - unfold cQ, cP in *. rewrite fin_count. cbn [ls_count s_mark s_step]. lia.
  Qed.

  (* loadCount never exceeds maxLoads (maxLoads + 1 in the state in which the limit is reported) *)
  Lemma exec_count fuel : forall loading c s, cP s -> holds2 cP cQ (exec fuel loading c s).
  Proof.
    induction fuel as [|fuel IH]; intros loading c s Hs; [exact I|].
    assert (Hobj : forall a name s1, cP s1 ->
      holds2 cP cQ (match node_calls (g_obj g a name) name with
                    | None => LErr s1
                    | Some (cs, b) => lift_done (s_built b) (each (exec fuel (a :: loading)) cs s1) end)).
    { intros a name s1 H1. destruct (node_calls (g_obj g a name) name) as [[cs b]|].
      - apply lift_done_count; [reflexivity|]. apply each_holds2; [intros; apply IH; assumption|exact H1].
      - cbn [holds2]. unfold cQ, cP in *. lia. }
    assert (Hq : forall s1, cP s1 -> cQ s1) by (unfold cP, cQ; intros; lia).
    destruct c as [a name|bt heap|bt heap|]; cbn [RobustLoad.exec].
    - destruct count_all.
      + apply counted_count; [exact Hs|]. intros s' Hs'.
        dif; [exact Hs'|]. dif; [apply Hq; exact Hs'|]. apply Hobj. exact Hs'.
      + dif; [exact Hs|]. dif; [apply Hq; exact Hs|].
        apply counted_count; [exact Hs|]. intros s' Hs'. apply Hobj. exact Hs'.
    - destruct count_all.
      + apply counted_count; [exact Hs|]. intros s' Hs'. apply lift_done_count; [reflexivity|].
        apply children_count; [intros; apply IH; assumption|exact Hs'].
      + apply lift_done_count; [reflexivity|]. apply children_count; [intros; apply IH; assumption|exact Hs].
    - apply children_count; [intros; apply IH; assumption|exact Hs].
    - apply Hq. exact Hs.
  Qed.
End Count.

(* ================================================================== count_all = true (repaired): everything is counted *)
Fixpoint nch (cs : list call) : N :=
  match cs with [] => 0 | CChildren _ _ :: r => 1 + nch r | _ :: r => nch r end.

Lemma nch_app a b : nch (a ++ b) = nch a + nch b.
Proof. induction a as [|c a IH]; cbn [app nch]; [lia|]. destruct c; lia. Qed.

Lemma nch_entry e : nch (entry_calls e) = 0.
Proof. unfold entry_calls. repeat dif; reflexivity. Qed.
Lemma nch_flat_entry es : nch (flat_map entry_calls es) = 0.
Proof. induction es as [|e es IH]; [reflexivity|]. cbn [flat_map]. rewrite nch_app, nch_entry, IH. reflexivity. Qed.
Lemma nch_bentries bes : nch (flat_map bentry_calls bes) = 0.
Proof.
  induction bes as [|b bes IH]; [reflexivity|]. cbn [flat_map]. rewrite nch_app, IH.
  destruct b as [e|[es|]]; cbn [bentry_calls]; [rewrite nch_entry|rewrite nch_flat_entry|]; reflexivity.
Qed.
Lemma nch_trad es : nch (flat_map trad_calls es) = 0.
Proof.
  induction es as [|e es IH]; [reflexivity|]. cbn [flat_map]. rewrite nch_app, IH. unfold trad_calls. repeat dif; reflexivity.
Qed.
Lemma nch_links ls : nch (map (fun l : N * N => CObj (fst l) (snd l)) ls) = 0.
Proof. induction ls as [|l ls IH]; [reflexivity|]. cbn [map nch]. exact IH. Qed.

Lemma node_calls_shape n name cs b : node_calls n name = Some (cs, b) -> nch cs <= 1 /\ b <= 1.
Proof.
  destruct n; cbn [node_calls]; try discriminate; intros [= <- <-]; cbn [nch]; try lia.
  - rewrite nch_app, nch_links. destruct ok; cbn [nch]; lia.
  - rewrite nch_trad. lia.
Qed.

Section Repaired.
  Variable g : graph.
  Variable keep_mark : bool.
  Variable maxLoads : N.
  Notation exec := (exec g keep_mark true maxLoads).

  (* objects built and calls made are paid for by counted loads; k = calls of loadChildren on the frame's own group *)
  Definition crel (k : N) (s s' : lstate) : Prop :=
    ls_count s <= ls_count s' /\
    ls_built s' + ls_count s <= ls_built s + ls_count s' /\
    ls_steps s' + 2 * ls_count s <= ls_steps s + k + 2 * ls_count s'.

  Lemma each_crel run cs :
    (forall c s, holds (crel (match c with CChildren _ _ => 1 | _ => 0 end) s) (run c s)) ->
    forall s, holds (crel (nch cs) s) (each run cs s).
  Proof.
    intros Hrun. induction cs as [|c r IH]; intros s; cbn [each]; [cbn [holds nch]; unfold crel; lia|].
    pose proof (Hrun c s) as H1. destruct (run c s) as [s1|s1|]; cbn [holds] in *; [| |exact I].
    - pose proof (IH s1) as H2. destruct (each run r s1); cbn [holds] in *; [| |exact I];
        unfold crel in *; destruct c; cbn [nch]; lia.
    - unfold crel in *; destruct c; cbn [nch]; lia.
  Qed.

  Lemma children_crel run bt heap s :
    (forall c s, holds (crel (match c with CChildren _ _ => 1 | _ => 0 end) s) (run c s)) ->
    holds (crel 1 s) (children g keep_mark run bt heap s).
  Proof.
    intros Hrun. unfold children. cbv zeta. dif; [cbn [holds]; unfold crel; cbn [ls_count ls_built ls_steps s_step]; lia|].
    destruct (g_bt g bt heap) as [bes|]; cbn [holds].
    - pose proof (each_crel run (flat_map bentry_calls bes) Hrun (s_mark bt (s_step s))) as H. rewrite nch_bentries in H.
      destruct (each run (flat_map bentry_calls bes) (s_mark bt (s_step s))); cbn [lift_all holds] in *; [| |exact I];
        unfold crel in *; rewrite fin_count, fin_built, fin_steps; cbn [ls_count ls_built ls_steps s_mark s_step] in H; lia.
    - unfold crel. rewrite fin_count, fin_built, fin_steps. cbn [ls_count ls_built ls_steps s_mark s_step]. lia.
  Qed.

  Lemma exec_crel fuel : forall loading c s,
    holds (crel (match c with CChildren _ _ => 1 | _ => 0 end) s) (exec fuel loading c s).
  Proof.
    induction fuel as [|fuel IH]; intros loading c s; [exact I|].
    destruct c as [a name|bt heap|bt heap|]; cbn [RobustLoad.exec].
    - unfold counted. cbv zeta. dif; [cbn [holds]; unfold crel; cbn [ls_count ls_built ls_steps s_count s_step]; lia|].
      dif; [cbn [holds]; unfold crel; cbn [ls_count ls_built ls_steps s_count s_step s_built]; lia|].
      dif; [cbn [holds]; unfold crel; cbn [ls_count ls_built ls_steps s_count s_step]; lia|].
      destruct (node_calls (g_obj g a name) name) as [[cs b]|] eqn:En;
        [|cbn [holds]; unfold crel; cbn [ls_count ls_built ls_steps s_count s_step]; lia].
      destruct (node_calls_shape _ _ _ _ En) as [Hn Hb].
      pose proof (each_crel (exec fuel (a :: loading)) cs (fun c s => IH (a :: loading) c s) (s_count (s_step s))) as H.
      destruct (each (exec fuel (a :: loading)) cs (s_count (s_step s))); cbn [lift_done holds] in *; [| |exact I];
        unfold crel in *; cbn [ls_count ls_built ls_steps s_count s_step s_built] in *; lia.
    - unfold counted. cbv zeta. dif; [cbn [holds]; unfold crel; cbn [ls_count ls_built ls_steps s_count]; lia|].
      pose proof (children_crel (exec fuel loading) bt heap (s_count s) (fun c s => IH loading c s)) as H.
      destruct (children g keep_mark (exec fuel loading) bt heap (s_count s)); cbn [lift_done holds] in *; [| |exact I];
        unfold crel in *; cbn [ls_count ls_built ls_steps s_count s_built] in *; lia.
    - apply children_crel. intros; apply IH.
    - cbn [holds]. unfold crel. lia.
  Qed.

  (* Open with the repair: objects built <= maxLoads + 2, loadObject + loadChildren calls <= 2 * maxLoads + 3,
     on every path (value or error), whatever the graph and even without the B-tree mark *)
  Lemma open_repaired_bounded fuel root :
    holds (fun s => ls_count s <= maxLoads + 1 /\ ls_built s <= maxLoads + 2 /\ ls_steps s <= 2 * maxLoads + 3)
          (open g keep_mark true maxLoads fuel root).
  Proof.
    unfold open. destruct (node_calls root 0) as [[cs b]|] eqn:En; [|cbn [holds s0 ls_count ls_built ls_steps]; lia].
    destruct (node_calls_shape _ _ _ _ En) as [Hn Hb].
    pose proof (each_crel (exec fuel []) cs (fun c s => exec_crel fuel [] c s) s0) as H.
    assert (Hc : holds2 (cP maxLoads) (cQ maxLoads) (each (exec fuel []) cs s0)).
    { apply each_holds2; [intros; apply exec_count; assumption|]. unfold cP. cbn. lia. }
    destruct (each (exec fuel []) cs s0); cbn [lift_done holds holds2] in *; [| |exact I];
      unfold crel, cP, cQ in *; cbn [ls_count ls_built ls_steps s_built s0] in *; lia.
  Qed.
End Repaired.

(* ================================================================== keep_mark = true, count_all = false (the code as it is):
   work is paid for by counted loads AND by first visits of B-trees, F calls each *)
Section AsIs.
  Variable g : graph.
  Variable maxLoads : N.
  Variable U : list N.
  Variable F : N.
  Hypothesis U_ok : forall b h, g_bt g b h <> None -> In b U.
  Hypothesis F_obj : forall a name cs b, node_calls (g_obj g a name) name = Some (cs, b) -> N.of_nat (length cs) <= F.
  Hypothesis F_bt : forall b h bes, g_bt g b h = Some bes -> N.of_nat (length (flat_map bentry_calls bes)) <= F.
  Notation exec := (exec g true false maxLoads).

  Definition uN (s : lstate) : N := N.of_nat (unv U (ls_visited s)).

  (* k = calls, kb = objects that are not paid for by a counted load or a first visit *)
  Definition wrel (k kb : N) (s s' : lstate) : Prop :=
    ls_count s <= ls_count s' /\ uN s' <= uN s /\
    ls_steps s' + F * ls_count s + F * uN s' <= ls_steps s + k + F * ls_count s' + F * uN s /\
    ls_built s' + F * ls_count s + F * uN s' <= ls_built s + kb + F * ls_count s' + F * uN s.

  Lemma each_wrel run cs :
    (forall c s, holds (wrel 1 1 s) (run c s)) ->
    forall s, holds (wrel (N.of_nat (length cs)) (N.of_nat (length cs)) s) (each run cs s).
  Proof.
    intros Hrun. induction cs as [|c r IH]; intros s; cbn [each]; [cbn [holds length]; unfold wrel; lia|].
    pose proof (Hrun c s) as H1. destruct (run c s) as [s1|s1|]; cbn [holds] in *; [| |exact I].
    - pose proof (IH s1) as H2. destruct (each run r s1); cbn [holds] in *; [| |exact I];
        unfold wrel in *; cbn [length]; lia.
    - unfold wrel in *; cbn [length]; lia.
  Qed.

  Lemma children_wrel run bt heap s :
    (forall c s, holds (wrel 1 1 s) (run c s)) -> holds (wrel 1 0 s) (children g true run bt heap s).
  Proof.
    intros Hrun. unfold children. cbv zeta. cbn [ls_visited s_step].
    destruct (memN bt (ls_visited s)) eqn:Em;
      [cbn [holds]; unfold wrel, uN; cbn [ls_count ls_built ls_steps ls_visited s_step]; lia|].
    assert (Hu0 : uN (s_mark bt (s_step s)) <= uN s).
    { unfold uN. cbn [ls_visited s_mark s_step]. pose proof (unv_mono U (ls_visited s) (bt :: ls_visited s)) as H.
      assert (incl (ls_visited s) (bt :: ls_visited s)) by (intros x Hx; right; exact Hx). lia. }
    destruct (g_bt g bt heap) as [bes|] eqn:Eg; cbn [holds].
    - assert (Hin : In bt U) by (apply (U_ok bt heap); congruence).
      assert (Hu : uN (s_mark bt (s_step s)) + 1 <= uN s).
      { unfold uN. cbn [ls_visited s_mark s_step]. pose proof (unv_mark U (ls_visited s) bt Hin Em). lia. }
      assert (HF : F * uN (s_mark bt (s_step s)) + F <= F * uN s).
      { replace (F * uN (s_mark bt (s_step s)) + F) with (F * (uN (s_mark bt (s_step s)) + 1)) by lia.
        apply N.mul_le_mono_l. exact Hu. }
      pose proof (F_bt _ _ _ Eg) as HFb.
      pose proof (each_wrel run (flat_map bentry_calls bes) Hrun (s_mark bt (s_step s))) as H.
      destruct (each run (flat_map bentry_calls bes) (s_mark bt (s_step s))); cbn [lift_all holds] in *; [| |exact I];
        unfold wrel in *; cbn [ls_count ls_built ls_steps s_mark s_step] in *; lia.
    - assert (HF : F * uN (s_mark bt (s_step s)) <= F * uN s) by (apply N.mul_le_mono_l; exact Hu0).
      unfold wrel. cbn [ls_count ls_built ls_steps s_mark s_step]. lia.
  Qed.

  Lemma exec_wrel fuel : forall loading c s, holds (wrel 1 1 s) (exec fuel loading c s).
  Proof.
    induction fuel as [|fuel IH]; intros loading c s; [exact I|].
    assert (Hw : forall s1, holds (wrel 1 0 s) s1 -> holds (wrel 1 1 s) s1).
    { intros r. apply holds_imp. unfold wrel. intros; lia. }
    destruct c as [a name|bt heap|bt heap|]; cbn [RobustLoad.exec].
    - dif; [cbn [holds]; unfold wrel, uN; cbn [ls_count ls_built ls_steps ls_visited s_step s_built]; lia|].
      dif; [cbn [holds]; unfold wrel, uN; cbn [ls_count ls_built ls_steps ls_visited s_step]; lia|].
      unfold counted. cbv zeta.
      assert (HFc : F * ls_count (s_count (s_step s)) = F * ls_count s + F) by (cbn [ls_count s_count s_step]; lia).
      dif; [cbn [holds]; unfold wrel, uN in *; cbn [ls_count ls_built ls_steps ls_visited s_count s_step] in *; lia|].
      destruct (node_calls (g_obj g a name) name) as [[cs b]|] eqn:En;
        [|cbn [holds]; unfold wrel, uN in *; cbn [ls_count ls_built ls_steps ls_visited s_count s_step] in *; lia].
      destruct (node_calls_shape _ _ _ _ En) as [_ Hb]. pose proof (F_obj _ _ _ _ En) as HFo.
      pose proof (each_wrel (exec fuel (a :: loading)) cs (fun c s => IH (a :: loading) c s) (s_count (s_step s))) as H.
      destruct (each (exec fuel (a :: loading)) cs (s_count (s_step s))); cbn [lift_done holds] in *; [| |exact I];
        unfold wrel, uN in *; cbn [ls_count ls_built ls_steps ls_visited s_count s_step s_built] in *; lia.
    - pose proof (children_wrel (exec fuel loading) bt heap s (fun c s => IH loading c s)) as H.
      destruct (children g true (exec fuel loading) bt heap s); cbn [lift_done holds] in *; [| |exact I];
        unfold wrel, uN in *; cbn [ls_count ls_built ls_steps ls_visited s_built] in *; lia.
    - apply Hw. apply children_wrel. intros; apply IH.
    - cbn [holds]. unfold wrel. lia.
  Qed.

  (* Open as it is: F * (maxLoads + |U| + 2) + 1 bounds the objects built and the loadObject + loadChildren calls, on every
     path (value or error) *)
  Lemma open_asis_bounded fuel root cs b :
    node_calls root 0 = Some (cs, b) -> N.of_nat (length cs) <= F ->
    holds (fun s => ls_count s <= maxLoads + 1 /\
                    ls_built s <= F * (maxLoads + N.of_nat (length U) + 2) + 1 /\
                    ls_steps s <= F * (maxLoads + N.of_nat (length U) + 2))
          (open g true false maxLoads fuel root).
  Proof.
    intros En HF. unfold open. rewrite En.
    pose proof (each_wrel (exec fuel []) cs (fun c s => exec_wrel fuel [] c s) s0) as H.
    assert (Hc : holds2 (cP maxLoads) (cQ maxLoads) (each (exec fuel []) cs s0)).
    { apply each_holds2; [intros; apply exec_count; assumption|]. unfold cP. cbn. lia. }
    assert (Hu : uN s0 <= N.of_nat (length U)) by (unfold uN; pose proof (unv_le U (ls_visited s0)); lia).
    assert (HFu : F * uN s0 <= F * N.of_nat (length U)) by (apply N.mul_le_mono_l; exact Hu).
    assert (E : F * (maxLoads + N.of_nat (length U) + 2) = F * maxLoads + F * N.of_nat (length U) + F + F) by lia.
    destruct (each (exec fuel []) cs s0) as [s1|s1|]; cbn [lift_done holds holds2] in *; [| |exact I].
    - unfold wrel, cP in *. cbn [ls_count ls_built ls_steps s_built s0] in *.
      assert (F * ls_count s1 <= F * maxLoads) by (apply N.mul_le_mono_l; exact Hc). rewrite E. lia.
    - unfold wrel, cQ in *. cbn [ls_count ls_built ls_steps s0] in *.
      assert (F * ls_count s1 <= F * (maxLoads + 1)) by (apply N.mul_le_mono_l; exact Hc). rewrite E. lia.
  Qed.
End AsIs.

(* ================================================================== the code as it is: n B-trees that share n entries
   give n*n + 1 objects and not a single counted load (maxLoads never bites) *)
Lemma each_app run a b s :
  each run (a ++ b) s = match each run a s with LDone s' => each run b s' | x => x end.
Proof.
  revert s. induction a as [|c a IH]; intros s; cbn [app each]; [reflexivity|].
  destruct (run c s); [apply IH|reflexivity|reflexivity].
Qed.

Lemma comb_calls m : forall a, (1 <= a)%nat ->
  flat_map bentry_calls (map (fun j => dia_entry (N.of_nat j)) (seq a m)) = map (fun j => CCached (N.of_nat j) 8) (seq a m).
Proof.
  induction m as [|m IH]; intros a Ha; [reflexivity|]. cbn [seq map flat_map].
  rewrite dia_entry_calls by lia. rewrite IH by lia. reflexivity.
Qed.

Section Comb.
  Variable n : nat.
  Variable maxLoads : N.
  Notation gr := (comb_graph n).
  Notation exec := (exec gr true false maxLoads).

  (* entries whose B-tree is marked already: one empty group each *)
  Lemma comb_skip f loading l : forall s,
    (forall j, In j l -> In (N.of_nat j) (ls_visited s)) ->
    each (exec (S f) loading) (map (fun j => CCached (N.of_nat j) 8) l) s =
    LDone (LS (ls_visited s) (ls_count s) (ls_built s + N.of_nat (length l)) (ls_steps s + N.of_nat (length l))).
  Proof.
    induction l as [|j l IH]; intros s Hv; cbn [map each length].
    - destruct s as [v0 c0 b0 st0]; cbn [ls_visited ls_count ls_built ls_steps]. f_equal. f_equal; lia.
    - rewrite exec_cached_unfold. rewrite children_visited_empty by (apply Hv; left; reflexivity).
      cbn [lift_done]. rewrite IH by (intros i Hi; cbn [ls_visited s_built s_step]; apply Hv; right; exact Hi).
      unfold s_built, s_step; cbn [ls_visited ls_count ls_built ls_steps]. f_equal. f_equal; lia.
  Qed.

  Definition vis_upto (j : nat) (s : lstate) : Prop := forall x, In x (ls_visited s) <-> (1 <= x /\ x <= N.of_nat j).

  Lemma comb_children d : forall j f loading s,
    (1 <= j)%nat -> (j + d = n)%nat -> (d < f)%nat -> vis_upto (j - 1) s ->
    exists s', children gr true (exec f loading) (N.of_nat j) 8 s = LDone s' /\ vis_upto n s' /\
               ls_count s' = ls_count s /\ ls_built s' = ls_built s + N.of_nat (S d) * N.of_nat n.
  Proof.
    induction d as [|d IH]; intros j f loading s Hj Hn Hf Hv.
    - destruct f as [|f]; [lia|].
      unfold children. cbv zeta. cbn [ls_visited s_step].
      replace (memN (N.of_nat j) (ls_visited s)) with false
        by (symmetry; destruct (memN (N.of_nat j) (ls_visited s)) eqn:E; [apply memN_In, Hv in E; lia|reflexivity]).
      cbn [g_bt comb_graph].
      replace ((1 <=? N.of_nat j) && (N.of_nat j <=? N.of_nat n)) with true
        by (symmetry; apply andb_true_iff; split; apply N.leb_le; lia).
      rewrite comb_calls by lia. rewrite comb_skip.
      + cbn [lift_all]. eexists. split; [reflexivity|]. cbn [ls_visited ls_count ls_built ls_steps s_mark s_step].
        rewrite seq_length. unfold vis_upto. cbn [ls_visited]. split; [|split; [reflexivity|lia]].
        intros x. cbn [In]. rewrite (Hv x). lia.
      + intros i Hi. apply in_seq in Hi. cbn [ls_visited s_mark s_step].
        destruct (Nat.eq_dec i j) as [->|Hne]; [left; reflexivity|right; apply Hv; lia].
    - destruct f as [|f]; [lia|].
      unfold children. cbv zeta. cbn [ls_visited s_step].
      replace (memN (N.of_nat j) (ls_visited s)) with false
        by (symmetry; destruct (memN (N.of_nat j) (ls_visited s)) eqn:E; [apply memN_In, Hv in E; lia|reflexivity]).
      cbn [g_bt comb_graph].
      replace ((1 <=? N.of_nat j) && (N.of_nat j <=? N.of_nat n)) with true
        by (symmetry; apply andb_true_iff; split; apply N.leb_le; lia).
      rewrite comb_calls by lia.
      assert (Hs : seq 1 n = seq 1 j ++ seq (1 + j) (S d)) by (replace n with (j + S d)%nat by lia; apply seq_app).
      rewrite Hs, map_app, each_app.
      rewrite comb_skip.
      2:{ intros i Hi. apply in_seq in Hi. cbn [ls_visited s_mark s_step].
          destruct (Nat.eq_dec i j) as [->|Hne]; [left; reflexivity|right; apply Hv; lia]. }
      cbn [seq map each]. rewrite exec_cached_unfold.
      match goal with |- context [children gr true (exec f loading) ?b 8 ?s1] =>
        destruct (IH (S j) f loading s1) as [s2 [E2 [V2 [C2 B2]]]] end; [lia|lia|lia| |].
      { intros x. cbn [ls_visited s_mark s_step]. cbn [In]. rewrite (Hv x). replace (S j - 1)%nat with j by lia. lia. }
      replace (N.of_nat (1 + j)) with (N.of_nat (S j)) by lia. rewrite E2. cbn [lift_done].
      rewrite comb_skip.
      2:{ intros i Hi. apply in_seq in Hi. cbn [ls_visited s_built]. apply V2. lia. }
      cbn [lift_all]. eexists. split; [reflexivity|]. cbn [ls_visited ls_count ls_built ls_steps s_built].
      split; [exact V2|]. split; [rewrite C2; reflexivity|]. rewrite B2.
      cbn [ls_built s_mark s_step]. rewrite !seq_length. nia.
  Qed.

  Lemma comb_open_quadratic : (1 <= n)%nat ->
    exists s, open gr true false maxLoads (S n) (OStab 1 8) = LDone s /\
              ls_built s = N.of_nat n * N.of_nat n + 1 /\ ls_count s = 0.
  Proof.
    intros Hn. unfold open. cbn [node_calls each]. rewrite exec_children_unfold.
    destruct (comb_children (n - 1) 1 n [] s0) as [s2 [E2 [V2 [C2 B2]]]]; [lia|lia|lia| |].
    { intros x. cbn. lia. }
    change 1 with (N.of_nat 1). rewrite E2. cbn [lift_done]. eexists. split; [reflexivity|].
    cbn [ls_built ls_count s_built]. rewrite C2, B2. cbn [s0 ls_built ls_count]. split; [|reflexivity].
    replace (S (n - 1)) with n by lia. lia.
  Qed.
End Comb.

(* ================================================================== the price of the mark (finding C06-group-reached-twice-is-empty):
   once a group has been loaded through its B-tree, every later arrival at the same B-tree - through a second hard link,
   from anywhere in the file - builds an empty group: one object, no loads, whatever the B-tree holds *)
Lemma reached_twice_empty g mL fuel loading bt h s s1 :
  exec g true false mL fuel loading (CCached bt h) s = LDone s1 ->
  forall s2, incl (ls_visited s1) (ls_visited s2) ->
  forall fuel' loading' h',
  exec g true false mL (S fuel') loading' (CCached bt h') s2 = LDone (s_built 1 (s_step s2)) /\
  exec g true false mL (S fuel') loading' (CChildren bt h') s2 = LDone (s_step s2).
Proof.
  intros H1 s2 Hi fuel' loading' h'.
  assert (Hin : In bt (ls_visited s1)).
  { destruct fuel as [|fuel]; [discriminate|]. rewrite exec_cached_unfold in H1.
    destruct (children g true (exec g true false mL fuel loading) bt h s) as [s3|s3|] eqn:E; cbn [lift_done] in H1; try discriminate.
    injection H1 as <-. cbn [ls_visited s_built].
    eapply children_marks; [|exact E]. intros c s0. apply exec_vis. }
  rewrite exec_cached_unfold, exec_children_unfold.
  rewrite !children_visited_empty by (apply Hi; exact Hin). split; reflexivity.
Qed.

(* with the seeded change the second arrival loads the whole sub-tree again *)
Example reached_twice_unmarked :
  lres_val (open (dia_graph 1) false false 100 10 (OStab 1 8)) = VL [VN 0; VN 3; VN 0; VN 0] /\
  lres_val (open (dia_graph 2) false false 100 10 (OStab 1 8)) = VL [VN 0; VN 7; VN 0; VN 0] /\
  lres_val (open (dia_graph 2) true false 100 10 (OStab 1 8)) = VL [VN 0; VN 5; VN 0; VN 3].
Proof. vm_compute. auto. Qed.

(* ================================================================== against the file size: Open sets maxLoads = size / 8 + 1024 *)

Lemma open_repaired_file_bound g keep_mark size fuel root :
  holds (fun s => 8 * ls_built s <= size + 8208 /\ 8 * ls_steps s <= 2 * size + 16408)
        (open g keep_mark true (open_max_loads size) fuel root).
Proof.
  eapply holds_imp; [|apply open_repaired_bounded]. unfold open_max_loads. intros s [_ [H1 H2]]. split; lia.
Qed.

(* satisfiability of the hypotheses of the as-is bound: the classic diamond *)
Example asis_hypotheses_satisfiable :
  let g := dia_graph 3 in
  (forall b h, g_bt g b h <> None -> In b [1; 2; 3; 4]) /\
  (forall a name cs b, node_calls (g_obj g a name) name = Some (cs, b) -> N.of_nat (length cs) <= 2) /\
  (forall b h bes, g_bt g b h = Some bes -> N.of_nat (length (flat_map bentry_calls bes)) <= 2).
Proof.
  cbv zeta. split; [|split].
  - intros b h. cbn [g_bt dia_graph]. destruct (b =? 0) eqn:E0; [congruence|]. apply N.eqb_neq in E0.
    destruct (b <=? 3) eqn:E1; [apply N.leb_le in E1; intros _; cbn [In]; lia|].
    destruct (b =? 3 + 1) eqn:E2; [apply N.eqb_eq in E2; intros _; cbn [In]; lia|congruence].
  - intros a name cs b. cbn. discriminate.
  - intros b h bes. cbn [g_bt dia_graph]. destruct (b =? 0); [discriminate|].
    destruct (b <=? 3) eqn:E1.
    + intros [= <-]. cbn [flat_map]. apply N.leb_le in E1. rewrite !dia_entry_calls by lia. cbn. lia.
    + destruct (b =? 3 + 1); [intros [= <-]; cbn; lia|discriminate].
Qed.
