(* C07: the loader model of Model/RobustLoad.v.  For EVERY graph:
   - keep_mark = true (the code as it is): 1024 + |U| + 1 units of fuel are never exhausted, U = the addresses at which a
     group B-tree can be read; the visited set only grows; a group reached a second time through cached addresses is empty;
     work and objects built are bounded by F * (loadCount + |U|) + F + 1 (F = largest number of entries of one object);
   - count_all = true (repaired): objects built <= loadCount <= maxLoads + 1. *)
From HV Require Import Base.Prelude Base.Outcome Base.Bytes Model.RobustTerm Model.RobustLoad.

Ltac dif := match goal with |- context [if ?c then _ else _] => let E := fresh "E" in destruct c eqn:E end.

Definition holds (P : lstate -> Prop) (r : lres) : Prop :=
  match r with LDone s => P s | LErr s => P s | LFuel => True end.
Definition holds_done (P : lstate -> Prop) (r : lres) : Prop :=
  match r with LDone s => P s | _ => True end.

Lemma memN_In a l : memN a l = true <-> In a l.
Proof.
  unfold memN. rewrite existsb_exists. split.
  - intros [x [Hx E]]. apply N.eqb_eq in E. subst. exact Hx.
  - intros H. exists a. split; [exact H|apply N.eqb_refl].
Qed.

(* ------------------------------------------------------------------ the number of B-trees of U not yet marked *)
Definition unv (U v : list N) : nat := length (filter (fun u => negb (memN u v)) U).

Lemma unv_mono U v v' : incl v v' -> (unv U v' <= unv U v)%nat.
Proof.
  intros Hi. unfold unv. induction U as [|u U IH]; cbn [filter length]; [lia|].
  destruct (memN u v) eqn:E1; destruct (memN u v') eqn:E2; cbn [negb length]; try lia.
  apply memN_In in E1. apply Hi in E1. apply memN_In in E1. congruence.
Qed.

Lemma unv_mark U v b : In b U -> memN b v = false -> (S (unv U (b :: v)) <= unv U v)%nat.
Proof.
  intros Hin Hb. unfold unv. induction U as [|u U IH]; [destruct Hin|].
  cbn [filter].
  assert (Hle : (length (filter (fun u => negb (memN u (b :: v))) U) <= length (filter (fun u => negb (memN u v)) U))%nat).
  { apply (unv_mono U v (b :: v)). intros x Hx. right. exact Hx. }
  destruct (N.eq_dec u b) as [->|Hne].
  - rewrite Hb. cbn [negb length].
    replace (memN b (b :: v)) with true by (symmetry; apply memN_In; left; reflexivity).
    cbn [negb]. lia.
  - destruct Hin as [->|Hin]; [congruence|]. specialize (IH Hin).
    assert (E : memN u (b :: v) = memN u v).
    { unfold memN. cbn [existsb]. destruct (u =? b) eqn:Eb; [apply N.eqb_eq in Eb; congruence|reflexivity]. }
    rewrite E. destruct (memN u v); cbn [negb length]; lia.
Qed.

Lemma unv_le U v : (unv U v <= length U)%nat.
Proof. unfold unv. induction U as [|u U IH]; cbn [filter length]; [lia|]. destruct (negb (memN u v)); cbn [length]; lia. Qed.

(* ------------------------------------------------------------------ `each`: a transitive relation is kept *)
Lemma each_rel (R : lstate -> lstate -> Prop) run :
  (forall s, R s s) -> (forall a b c, R a b -> R b c -> R a c) ->
  forall cs, (forall c s, In c cs -> holds (R s) (run c s)) ->
  forall s, holds (R s) (each run cs s).
Proof.
  intros Rr Rt. induction cs as [|c r IH]; intros Hrun s; cbn [each holds]; [apply Rr|].
  pose proof (Hrun c s (or_introl eq_refl)) as H1.
  destruct (run c s) as [s1|s1|]; cbn [holds] in *; [|exact H1|exact I].
  assert (H2 : holds (R s1) (each run r s1)) by (apply IH; intros; apply Hrun; right; assumption).
  destruct (each run r s1); cbn [holds] in *; eauto.
Qed.

Lemma each_nofuel (Inv : lstate -> Prop) run cs :
  (forall c s, Inv s -> run c s <> LFuel) -> (forall c s s', Inv s -> run c s = LDone s' -> Inv s') ->
  forall s, Inv s -> each run cs s <> LFuel.
Proof.
  intros H1 H2. induction cs as [|c r IH]; intros s Hs; cbn [each]; [discriminate|].
  destruct (run c s) as [s1|s1|] eqn:E; [apply IH; eauto|discriminate|exfalso; eapply H1; eauto].
Qed.

Lemma holds_lift_done P f r : holds (fun s => P s /\ P (f s)) r -> holds P (lift_done f r).
Proof. destruct r; cbn [holds lift_done]; tauto. Qed.

Lemma holds_lift_all P f r : holds (fun s => P (f s)) r -> holds P (lift_all f r).
Proof. destruct r; cbn [holds lift_all]; tauto. Qed.

Lemma lift_done_nofuel f r : r <> LFuel -> lift_done f r <> LFuel.
Proof. destruct r; cbn [lift_done]; congruence. Qed.
Lemma lift_all_nofuel f r : r <> LFuel -> lift_all f r <> LFuel.
Proof. destruct r; cbn [lift_all]; congruence. Qed.

Lemma holds_imp (P Q : lstate -> Prop) r : (forall s, P s -> Q s) -> holds P r -> holds Q r.
Proof. destruct r; cbn [holds]; auto. Qed.

(* ================================================================== keep_mark = true *)
Section Marked.
  Variable g : graph.
  Variable count_all : bool.
  Variable maxLoads : N.
  Notation exec := (exec g true count_all maxLoads).
  Notation children := (children g true).

  Definition vis_le (s s' : lstate) : Prop := incl (ls_visited s) (ls_visited s').
  Lemma vis_le_refl s : vis_le s s. Proof. apply incl_refl. Qed.
  Lemma vis_le_trans a b c : vis_le a b -> vis_le b c -> vis_le a c. Proof. apply incl_tran. Qed.

  Lemma counted_holds (P : lstate -> Prop) s k : P (s_count s) -> (forall s', s' = s_count s -> holds P (k s')) -> holds P (counted maxLoads s k).
  Proof. intros H1 H2. unfold counted. cbv zeta. dif; [exact H1|apply H2; reflexivity]. Qed.

  (* the children of one group, given that loading one entry keeps the relation *)
  Lemma children_vis run bt heap s :
    (forall c s, holds (vis_le s) (run c s)) -> holds (vis_le s) (children run bt heap s).
  Proof.
    intros Hrun. unfold children. cbv zeta. dif; [cbn [holds]; apply incl_refl|].
    destruct (g_bt g bt heap) as [bes|]; cbn [holds].
    - apply holds_lift_all.
      eapply holds_imp; [|apply (each_rel vis_le run vis_le_refl vis_le_trans); intros; apply Hrun].
      intros s1 H. unfold vis_le in *. cbn [ls_visited s_mark s_step] in *. intros x Hx. apply H. right. exact Hx.
    - unfold vis_le. cbn [ls_visited s_mark s_step]. intros x Hx. right. exact Hx.
  Qed.

  (* the visited set only grows, on every path (value or error) *)
  Lemma exec_vis fuel : forall loading c s, holds (vis_le s) (exec fuel loading c s).
  Proof.
    induction fuel as [|fuel IH]; intros loading c s; [exact I|].
    assert (Hobj : forall a name s1, vis_le s s1 ->
      holds (vis_le s) (match node_calls (g_obj g a name) name with
                        | None => LErr s1
                        | Some (cs, b) => lift_done (s_built b) (each (exec fuel (a :: loading)) cs s1) end)).
    { intros a name s1 H1. destruct (node_calls (g_obj g a name) name) as [[cs b]|]; [|exact H1].
      apply holds_lift_done.
      eapply holds_imp; [|apply (each_rel vis_le _ vis_le_refl vis_le_trans); intros; apply IH].
      intros s2 H2. split; eapply vis_le_trans; eauto; apply incl_refl. }
    destruct c as [a name|bt heap|bt heap|]; cbn [RobustLoad.exec].
    - destruct count_all.
      + apply counted_holds; [apply incl_refl|]. intros s' ->.
        dif; [apply incl_refl|]. dif; [apply incl_refl|]. apply Hobj. apply incl_refl.
      + dif; [apply incl_refl|]. dif; [apply incl_refl|].
        apply counted_holds; [apply incl_refl|]. intros s' ->. apply Hobj. apply incl_refl.
    - destruct count_all.
      + apply counted_holds; [apply incl_refl|]. intros s' ->. apply holds_lift_done.
        eapply holds_imp; [|apply children_vis; intros; apply IH]. intros s2 H2. split; exact H2.
      + apply holds_lift_done.
        eapply holds_imp; [|apply children_vis; intros; apply IH]. intros s2 H2. split; exact H2.
    - apply children_vis; intros; apply IH.
    - apply incl_refl.
  Qed.

  (* ---------------------------------------------------------------- termination *)
  Variable U : list N.
  Hypothesis U_ok : forall b h, g_bt g b h <> None -> In b U.

  Definition pot (loading : list N) (s : lstate) : nat := (1024 - length loading) + unv U (ls_visited s).

  Lemma exec_fuel fuel : forall loading c s, (pot loading s < fuel)%nat -> exec fuel loading c s <> LFuel.
  Proof.
    induction fuel as [|fuel IH]; intros loading c s Hp; [lia|].
    (* children: a passing call marks a B-tree of U *)
    assert (Hch : forall bt heap s1, ls_visited s1 = ls_visited s ->
              children (exec fuel loading) bt heap s1 <> LFuel).
    { intros bt heap s1 Hv. unfold children. cbv zeta. dif; [discriminate|].
      destruct (g_bt g bt heap) as [bes|] eqn:Eg; [|discriminate].
      assert (Hin : In bt U) by (apply (U_ok bt heap); congruence).
      cbn [ls_visited s_step] in E.
      assert (Hdec : (S (unv U (bt :: ls_visited s1)) <= unv U (ls_visited s1))%nat) by (apply unv_mark; assumption).
      apply lift_all_nofuel.
      assert (Hn : each (exec fuel loading) (flat_map bentry_calls bes) (s_mark bt (s_step s1)) <> LFuel).
      { apply (each_nofuel (fun s2 => (pot loading s2 < fuel)%nat)).
        - intros c0 s2 H2. apply IH. exact H2.
        - intros c0 s2 s3 H2 H3. pose proof (exec_vis fuel loading c0 s2) as Hm. rewrite H3 in Hm. cbn [holds] in Hm.
          unfold pot in *. pose proof (unv_mono U _ _ Hm). lia.
        - unfold pot in *. cbn [ls_visited s_mark s_step]. rewrite Hv in *. lia. }
      exact Hn. }
    assert (Hobj : forall a name s1, ls_visited s1 = ls_visited s -> (N.of_nat (length loading) < 1024) ->
      match node_calls (g_obj g a name) name with
      | None => LErr s1
      | Some (cs, b) => lift_done (s_built b) (each (exec fuel (a :: loading)) cs s1) end <> LFuel).
    { intros a name s1 Hv Hl. destruct (node_calls (g_obj g a name) name) as [[cs b]|]; [|discriminate].
      assert (Hn : each (exec fuel (a :: loading)) cs s1 <> LFuel).
      { apply (each_nofuel (fun s2 => (pot (a :: loading) s2 < fuel)%nat)).
        - intros c0 s2 H2. apply IH. exact H2.
        - intros c0 s2 s3 H2 H3. pose proof (exec_vis fuel (a :: loading) c0 s2) as Hm. rewrite H3 in Hm. cbn [holds] in Hm.
          unfold pot in *. pose proof (unv_mono U _ _ Hm). lia.
        - unfold pot in *. cbn [length]. rewrite Hv. lia. }
      apply lift_done_nofuel. exact Hn. }
    destruct c as [a name|bt heap|bt heap|]; cbn [RobustLoad.exec].
    - destruct count_all.
      + unfold counted. cbv zeta. dif; [discriminate|]. dif; [discriminate|]. unfold maxDepth. dif; [discriminate|].
        apply Hobj; [reflexivity|lia].
      + dif; [discriminate|]. unfold maxDepth. dif; [discriminate|].
        unfold counted. cbv zeta. dif; [discriminate|]. apply Hobj; [reflexivity|lia].
    - destruct count_all.
      + unfold counted. cbv zeta. dif; [discriminate|].
        apply lift_done_nofuel. apply Hch. reflexivity.
      + apply lift_done_nofuel. apply Hch. reflexivity.
    - apply Hch. reflexivity.
    - discriminate.
  Qed.

  Lemma open_terminates root : open g true count_all maxLoads (1025 + length U) root <> LFuel.
  Proof.
    unfold open. destruct (node_calls root 0) as [[cs b]|]; [|discriminate].
    assert (Hn : each (exec (1025 + length U) []) cs s0 <> LFuel).
    { apply (each_nofuel (fun s2 => (pot [] s2 < 1025 + length U)%nat)).
      - intros c0 s2 H2. apply exec_fuel. exact H2.
      - intros c0 s2 s3 H2 H3. pose proof (exec_vis (1025 + length U) [] c0 s2) as Hm. rewrite H3 in Hm. cbn [holds] in Hm.
        unfold pot in *. pose proof (unv_mono U _ _ Hm). lia.
      - unfold pot. cbn [length]. pose proof (unv_le U (ls_visited s0)). lia. }
    apply lift_done_nofuel. exact Hn.
  Qed.

  (* ---------------------------------------------------------------- a group reached a second time is empty *)
  Lemma children_marks run bt heap s s' :
    (forall c s, holds (vis_le s) (run c s)) -> children run bt heap s = LDone s' -> In bt (ls_visited s').
  Proof.
    intros Hrun. pose proof (children_vis run bt heap s Hrun) as Hv. unfold children in *. cbv zeta in *.
    destruct (memN bt (ls_visited (s_step s))) eqn:E.
    - intros [= <-]. apply memN_In. exact E.
    - destruct (g_bt g bt heap) as [bes|]; [|discriminate].
      pose proof (each_rel vis_le run vis_le_refl vis_le_trans (flat_map bentry_calls bes) (fun c s _ => Hrun c s)
                    (s_mark bt (s_step s))) as He.
      destruct (each run (flat_map bentry_calls bes) (s_mark bt (s_step s))) as [s2|s2|]; cbn [lift_all]; try discriminate.
      intros [= <-]. cbn [holds] in He. apply He. left. reflexivity.
  Qed.

  Lemma children_visited_empty run bt heap s :
    In bt (ls_visited s) -> children run bt heap s = LDone (s_step s).
  Proof.
    intros H. unfold children. cbv zeta. cbn [ls_visited s_step].
    replace (memN bt (ls_visited s)) with true by (symmetry; apply memN_In; exact H). reflexivity.
  Qed.
End Marked.

(* ================================================================== keep_mark = false (seeded change C07-c) *)
Lemma dia_entry_calls t : t <> 0 -> bentry_calls (dia_entry t) = [CCached t 8].
Proof.
  intros H. unfold dia_entry, bentry_calls, entry_calls, soft. cbn [se_cache se_ok se_bt se_heap se_addr se_name].
  change (1 =? 2) with false. change (1 =? 1) with true. cbn [negb andb].
  replace (t =? 0) with false by (symmetry; apply N.eqb_neq; exact H). reflexivity.
Qed.

Lemma exec_cached_unfold g km mL f loading bt h s :
  exec g km false mL (S f) loading (CCached bt h) s =
  lift_done (s_built 1) (children g km (exec g km false mL f loading) bt h s).
Proof. reflexivity. Qed.

Lemma exec_children_unfold g km ca mL f loading bt h s :
  exec g km ca mL (S f) loading (CChildren bt h) s = children g km (exec g km ca mL f loading) bt h s.
Proof. reflexivity. Qed.

Section Unmarked.
  Variable n : N.
  Variable maxLoads : N.
  Notation gr := (dia_graph n).

  Lemma filter_below b v : (forall x, In x v -> x < b) -> filter (fun x => negb (x =? b)) v = v.
  Proof.
    induction v as [|x v IH]; intros H; [reflexivity|]. cbn [filter].
    assert (Hx : x < b) by (apply H; left; reflexivity).
    replace (x =? b) with false by (symmetry; apply N.eqb_neq; lia). cbn [negb]. f_equal. apply IH. intros y Hy. apply H. right. exact Hy.
  Qed.

  Lemma memN_below b v : (forall x, In x v -> x < b) -> memN b v = false.
  Proof.
    intros H. destruct (memN b v) eqn:E; [|reflexivity]. apply memN_In in E. apply H in E. lia.
  Qed.

  (* loadChildren of the group at level b with k levels below it: every level is loaded once per PATH *)
  Lemma dia_children k : forall f b loading h s,
    N.of_nat k + b = n + 1 -> 1 <= b -> (k <= f)%nat -> (forall x, In x (ls_visited s) -> x < b) ->
    children gr false (exec gr false false maxLoads f loading) b h s =
    LDone (LS (ls_visited s) (ls_count s) (ls_built s + dia_built k) (ls_steps s + dia_steps k)).
  Proof.
    induction k as [|k IH]; intros f b loading h s Hb H1 Hf Hv; unfold children; cbv zeta; cbn [ls_visited s_step].
    - rewrite (memN_below b _ Hv). cbn [g_bt dia_graph].
      replace (b =? 0) with false by (symmetry; apply N.eqb_neq; lia).
      replace (b <=? n) with false by (symmetry; apply N.leb_gt; lia).
      replace (b =? n + 1) with true by (symmetry; apply N.eqb_eq; lia).
      cbn [flat_map each lift_all s_unmark s_mark s_step ls_visited ls_count ls_built ls_steps filter].
      unfold s_unmark, s_mark, s_step; cbn [ls_visited ls_count ls_built ls_steps filter].
      rewrite N.eqb_refl. cbn [negb]. rewrite (filter_below b _ Hv). cbn [dia_built dia_steps]. f_equal. f_equal; lia.
    - rewrite (memN_below b _ Hv). cbn [g_bt dia_graph].
      replace (b =? 0) with false by (symmetry; apply N.eqb_neq; lia).
      replace (b <=? n) with true by (symmetry; apply N.leb_le; lia).
      destruct f as [|f]; [lia|].
      cbn [flat_map]. rewrite !dia_entry_calls by lia. cbn [app each]. rewrite exec_cached_unfold.
      assert (Hv1 : forall s1, ls_visited s1 = b :: ls_visited s -> forall x, In x (ls_visited s1) -> x < b + 1).
      { intros s1 E x Hx. rewrite E in Hx. destruct Hx as [<-|Hx]; [lia|]. apply Hv in Hx. lia. }
      rewrite (IH f (b + 1) loading 8 (s_mark b (s_step s))); [|lia|lia|lia|apply Hv1; reflexivity].
      cbn [lift_done]. rewrite exec_cached_unfold.
      rewrite (IH f (b + 1) loading 8); [|lia|lia|lia|apply Hv1; reflexivity].
      cbn [lift_done lift_all]. unfold s_unmark, s_built, s_mark, s_step; cbn [ls_visited ls_count ls_built ls_steps filter].
      rewrite N.eqb_refl. cbn [negb]. rewrite (filter_below b _ Hv). cbn [dia_built dia_steps]. f_equal. f_equal; lia.
  Qed.
End Unmarked.

Lemma dia_built_pow k : dia_built k + 2 = 2 ^ (N.of_nat k + 1).
Proof.
  induction k as [|k IH]; [reflexivity|]. cbn [dia_built]. rewrite Nat2N.inj_succ.
  replace (N.succ (N.of_nat k) + 1) with (N.succ (N.of_nat k + 1)) by lia. rewrite N.pow_succ_r'. lia.
Qed.

(* Open on the family: 2^(n+1) - 1 objects from n+1 B-trees and 2n entries, loadCount stays 0 (maxLoads never bites) *)
Lemma dia_open_unmarked (n : nat) maxLoads :
  open (dia_graph (N.of_nat n)) false false maxLoads (S n) (OStab 1 8) =
  LDone (LS [] 0 (dia_built n + 1) (dia_steps n)).
Proof.
  unfold open. cbn [node_calls each]. rewrite exec_children_unfold.
  rewrite (dia_children (N.of_nat n) maxLoads n); [|lia|lia|lia|intros x []].
  cbn [lift_done]. unfold s_built, s0; cbn [ls_visited ls_count ls_built ls_steps]. f_equal.
Qed.

Lemma dia_open_exponential (n : nat) maxLoads :
  exists s, open (dia_graph (N.of_nat n)) false false maxLoads (S n) (OStab 1 8) = LDone s /\
            2 ^ N.of_nat n <= ls_built s /\ ls_count s = 0.
Proof.
  eexists. split; [apply dia_open_unmarked|]. cbn [ls_built ls_count]. split; [|reflexivity].
  pose proof (dia_built_pow n) as H. replace (N.of_nat n + 1) with (N.succ (N.of_nat n)) in H by lia.
  rewrite N.pow_succ_r' in H. assert (0 < 2 ^ N.of_nat n) by (apply N.neq_0_lt_0, N.pow_nonzero; lia). lia.
Qed.

(* no bound k * size + c on the objects built, size = number of B-trees + number of entries of the graph = 3n + 1 *)
Lemma pow2_gt_lin m : N.of_nat m + 1 <= 2 ^ N.of_nat m.
Proof.
  induction m as [|m IH]; [cbn; lia|]. rewrite Nat2N.inj_succ, N.pow_succ_r'. lia.
Qed.

Lemma dia_no_linear_bound (k c maxLoads : N) :
  exists n s, open (dia_graph (N.of_nat n)) false false maxLoads (S n) (OStab 1 8) = LDone s /\
              k * (3 * N.of_nat n + 1) + c < ls_built s.
Proof.
  set (M := 6 * k + c + 2). set (m := N.to_nat M).
  exists (2 * m)%nat. destruct (dia_open_exponential (2 * m) maxLoads) as [s [Hs [Hb _]]].
  exists s. split; [exact Hs|].
  pose proof (pow2_gt_lin m) as Hm.
  assert (E : 2 ^ N.of_nat (2 * m) = 2 ^ N.of_nat m * 2 ^ N.of_nat m).
  { rewrite <- N.pow_add_r. f_equal. lia. }
  rewrite E in Hb. assert (Hm' : N.of_nat m = M) by (unfold m; lia).
  assert (H1 : (M + 1) * (M + 1) <= 2 ^ N.of_nat m * 2 ^ N.of_nat m) by (rewrite <- Hm'; apply N.mul_le_mono; exact Hm).
  replace (N.of_nat (2 * m)) with (2 * M) by lia.
  assert (H2 : (M + 1) * (M + 1) = 6 * (k * M) + c * M + 4 * M + 1) by (unfold M; ring).
  assert (H3 : c <= c * M) by (unfold M; nia).
  assert (H4 : k * (3 * (2 * M) + 1) + c = 6 * (k * M) + k + c) by ring.
  assert (H5 : k <= 4 * M) by (unfold M; lia).
  lia.
Qed.

(* with the mark kept, the same family costs one load per group: 2n + 1 objects *)
Example dia_marked_10 : lres_val (open (dia_graph 10) true false 100 100 (OStab 1 8)) = VL [VN 0; VN 21; VN 0; VN 11].
Proof. vm_compute. reflexivity. Qed.
Example dia_unmarked_10 : lres_val (open (dia_graph 10) false false 100 100 (OStab 1 8)) = VL [VN 0; VN 2047; VN 0; VN 0].
Proof. vm_compute. reflexivity. Qed.
