(* C18 - the discipline is neither vacuous nor trivially true: a program that follows it (and runs to
   completion), one that does not (a race is reachable), and the same for access tables. *)
From HV Require Import Base.Prelude Model.Conc Proofs.Conc.
From Coq Require Import Arith.
Local Open Scope nat_scope.

Lemma run_sched_reachable s0 sch : forall s s', reachable s0 s -> run_sched s sch = Some s' -> reachable s0 s'.
Proof.
  induction sch as [|i sch IH]; intros s s' Hr H; cbn [run_sched] in H.
  - inversion H; subst; exact Hr.
  - destruct (step_fn s i) as [s1|] eqn:E; [|discriminate]. eapply IH; [|exact H]. econstructor; eauto.
Qed.

(* location 1 protected by mutex 0; location 2 only touched by the thread labelled 1; location 3 atomic *)
Definition ex_P : pmap := fun x =>
  if N.eqb x 1 then Some (PLock 0%N) else if N.eqb x 2 then Some (PConfined 1)
  else if N.eqb x 3 then Some PAtomic else None.

Definition ex_good : list (bool * nat * list action) :=
  [ (true, 0, [ALock 0%N; AWrite 1%N; AUnlock 0%N; AAtomic 3%N; ASpawn 2]);
    (true, 1, [ARLock 0%N; ARead 1%N; ARUnlock 0%N; AWrite 2%N; AAtomic 3%N]);
    (false, 2, [ALock 0%N; ARead 1%N; AWrite 1%N; AUnlock 0%N]) ].

Lemma ex_good_well_locked : well_locked ex_P ex_good.
Proof.
  split; [|split].
  - intros run lab p Hin. cbn in Hin.
    destruct Hin as [H|[H|[H|[]]]]; inversion H; subst; vm_compute; reflexivity.
  - intros x t Hp i j Hi Hj. unfold ex_P in Hp.
    destruct (N.eqb x 1); [discriminate|]. destruct (N.eqb x 2); [|destruct (N.eqb x 3); discriminate].
    inversion Hp; subst. cbn in Hi, Hj.
    destruct i as [|[|[|i]]]; cbn in Hi; try discriminate; try (destruct i; discriminate);
    destruct j as [|[|[|j]]]; cbn in Hj; try discriminate; try (destruct j; discriminate); reflexivity.
  - intros x ip ic Hp. unfold ex_P in Hp.
    destruct (N.eqb x 1); [discriminate|]. destruct (N.eqb x 2); [discriminate|].
    destruct (N.eqb x 3); discriminate.
Qed.

Theorem ex_good_race_free : forall s, reachable (init_state ex_good) s -> ~ race s.
Proof. apply (lockset_sound ex_P). exact ex_good_well_locked. Qed.

(* ... and it is not race free because it is stuck: one schedule runs every thread to the end *)
Theorem ex_good_runs : exists s,
  run_sched (init_state ex_good) [0;0;0;1;1;1;0;0;2;2;1;2;2;1] = Some s /\
  forallb (fun th => match t_prog th with [] => true | _ => false end) (s_pool s) = true /\ s_panic s = false.
Proof. eexists. split; [vm_compute; reflexivity|]. split; reflexivity. Qed.

(* the reader forgets the lock *)
Definition ex_bad : list (bool * nat * list action) :=
  [ (true, 0, [ALock 0%N; AWrite 1%N; AUnlock 0%N]);
    (true, 1, [ARead 1%N]) ].

Theorem ex_bad_race_reachable : exists s, reachable (init_state ex_bad) s /\ race s.
Proof.
  destruct (run_sched (init_state ex_bad) [0]) as [s|] eqn:E; [|vm_compute in E; discriminate].
  exists s. split.
  - eapply run_sched_reachable; [constructor | exact E].
  - vm_compute in E. inversion E; subst; clear E.
    exists 0, 1. do 2 eexists. exists 1%N, KW, KR.
    repeat split; try reflexivity. discriminate.
Qed.

Theorem ex_bad_not_well_locked : forall P, ~ well_locked P ex_bad.
Proof.
  intros P Hwl. destruct ex_bad_race_reachable as [s [Hr Hrace]].
  exact (lockset_sound P ex_bad Hwl s Hr Hrace).
Qed.

(* ---------------------------------------------------------------- happens-before by spawn *)
(* the constructor pattern: thread 0 initialises location 7 without any lock, then starts thread 1
   (go f()), which from then on is the only one to touch it; thread 2 never does *)
Definition ex_hb_P : pmap := fun x => if N.eqb x 7 then Some (PHandoff 0 1) else None.
Definition ex_hb_good : list (bool * nat * list action) :=
  [ (true, 0, [AWrite 7%N; ARead 7%N; ASpawn 1; ASkip]);
    (false, 1, [ARead 7%N; AWrite 7%N]);
    (true, 2, [ASkip]) ].

Lemma ex_hb_good_well_locked : well_locked ex_hb_P ex_hb_good.
Proof.
  split; [|split].
  - intros run lab p Hin. cbn in Hin.
    destruct Hin as [H|[H|[H|[]]]]; inversion H; subst; vm_compute; reflexivity.
  - intros x t Hp. unfold ex_hb_P in Hp. destruct (N.eqb x 7); discriminate.
  - intros x ip ic Hp. unfold ex_hb_P in Hp. destruct (N.eqb x 7) eqn:E; [|discriminate].
    apply N.eqb_eq in E. inversion Hp; subst. vm_compute. reflexivity.
Qed.

Theorem ex_hb_good_race_free : forall s, reachable (init_state ex_hb_good) s -> ~ race s.
Proof. apply (lockset_sound ex_hb_P). exact ex_hb_good_well_locked. Qed.

(* the same with one more write by the parent AFTER the go statement: rejected, and it does race *)
Definition ex_hb_bad : list (bool * nat * list action) :=
  [ (true, 0, [AWrite 7%N; ASpawn 1; AWrite 7%N]);
    (false, 1, [ARead 7%N]) ].

Theorem ex_hb_bad_rejected : handoff_ok 7%N 0 1 ex_hb_bad = false.
Proof. vm_compute. reflexivity. Qed.

Theorem ex_hb_bad_races : exists s, reachable (init_state ex_hb_bad) s /\ race s.
Proof.
  destruct (run_sched (init_state ex_hb_bad) [0; 0]) as [s|] eqn:E; [|vm_compute in E; discriminate].
  exists s. split.
  - eapply run_sched_reachable; [constructor | exact E].
  - vm_compute in E. inversion E; subst; clear E.
    exists 0, 1. do 2 eexists. exists 7%N, KW, KR.
    repeat split; try reflexivity. discriminate.
Qed.

(* ---------------------------------------------------------------- tables *)
(* role 1 = foreground API, role 2 = a background loop; mutex 0 *)
Definition ex_table_good : table :=
  [ mkA 1%N KW 0 [] [];                 (* constructor initialises the field *)
    mkA 1%N KW 1 [0%N] [];              (* foreground writes under the lock *)
    mkA 1%N KR 2 [] [0%N];              (* background reads under the read lock *)
    mkA 2%N KR 1 [] []; mkA 2%N KR 2 [] [];   (* never written after construction *)
    mkA 3%N KA 1 [] []; mkA 3%N KA 2 [] [] ]. (* atomic counter *)

Definition ex_table_bad : table :=
  [ mkA 1%N KW 1 [0%N] []; mkA 1%N KW 2 [] [] ].   (* the background loop writes without the lock *)

Theorem ex_table_good_ok : locktable_ok (fun _ => false) ex_table_good = true.
Proof. vm_compute. reflexivity. Qed.

Theorem ex_table_good_race_free ths :
  conforms (fun _ => false) ex_table_good ths -> forall s, reachable (init_state ths) s -> ~ race s.
Proof. apply table_sound. exact ex_table_good_ok. Qed.

Theorem ex_table_bad_rejected : locktable_ok (fun _ => false) ex_table_bad = false.
Proof. vm_compute. reflexivity. Qed.

(* the rejected table really describes a racy program: its canonical program reaches a race *)
Theorem ex_table_bad_races : exists s, reachable (init_state (program_of ex_table_bad)) s /\ race s.
Proof.
  destruct (run_sched (init_state (program_of ex_table_bad)) [0]) as [s|] eqn:E; [|vm_compute in E; discriminate].
  exists s. split.
  - eapply run_sched_reachable; [constructor | exact E].
  - vm_compute in E. inversion E; subst; clear E.
    exists 0, 1. do 2 eexists. exists 1%N, KW, KW.
    repeat split; try reflexivity. discriminate.
Qed.

(* ---------------------------------------------------------------- finding a race by running *)
(* let thread i run alone until `stop` holds of it *)
Fixpoint advance (stop : thread -> bool) (i : nat) (fuel : nat) (s : state) : option state :=
  match nth_error (s_pool s) i with
  | None => None
  | Some th =>
      if stop th then Some s else
      match fuel with
      | O => None
      | S f => match step_fn s i with Some s' => advance stop i f s' | None => None end
      end
  end.

Lemma advance_reachable s0 stop i fuel : forall s s',
  reachable s0 s -> advance stop i fuel s = Some s' -> reachable s0 s'.
Proof.
  induction fuel as [|f IH]; intros s s' Hr H; cbn [advance] in H;
    destruct (nth_error (s_pool s) i) as [th|]; try discriminate;
    destruct (stop th); try (inversion H; subst; exact Hr); try discriminate.
  destruct (step_fn s i) as [s1|] eqn:E; [|discriminate].
  eapply IH; [|exact H]. econstructor; eauto.
Qed.

Definition at_access (x : N) (k : option akind) (th : thread) : bool :=
  match next_access th with
  | Some (y, k') => N.eqb x y && match k with None => true | Some k0 => akind_eqb k0 k' end
  | None => false
  end.

Lemma race_witness s i j thi thj :
  i <> j -> nth_error (s_pool s) i = Some thi -> nth_error (s_pool s) j = Some thj ->
  race_pairb thi thj = true -> race s.
Proof.
  intros Hij Hi Hj Hb. unfold race_pairb in Hb.
  destruct (next_access thi) as [[x k1]|] eqn:Ni; [|discriminate].
  destruct (next_access thj) as [[y k2]|] eqn:Nj; [|discriminate].
  apply andb_true_iff in Hb. destruct Hb as [Hx Hc]. apply N.eqb_eq in Hx. subst y.
  exists i, j, thi, thj, x, k1, k2. repeat split; auto.
Qed.

(* thread i runs alone to a write of x, then thread j runs alone to any access of x: if both succeed the
   resulting state is a race *)
Definition race_by_running (x : N) (i j : nat) (fuel : nat) (s0 : state) : bool :=
  match advance (at_access x (Some KW)) i fuel s0 with
  | Some s1 =>
      match advance (at_access x None) j fuel s1 with
      | Some s2 => match nth_error (s_pool s2) i, nth_error (s_pool s2) j with
                   | Some thi, Some thj => negb (Nat.eqb i j) && race_pairb thi thj
                   | _, _ => false end
      | None => false
      end
  | None => false
  end.

Lemma race_by_running_sound x i j fuel s0 :
  race_by_running x i j fuel s0 = true -> exists s, reachable s0 s /\ race s.
Proof.
  unfold race_by_running.
  destruct (advance (at_access x (Some KW)) i fuel s0) as [s1|] eqn:E1; [|discriminate].
  destruct (advance (at_access x None) j fuel s1) as [s2|] eqn:E2; [|discriminate].
  destruct (nth_error (s_pool s2) i) as [thi|] eqn:Hi; [|discriminate].
  destruct (nth_error (s_pool s2) j) as [thj|] eqn:Hj; [|discriminate].
  intros H. apply andb_true_iff in H. destruct H as [Hne Hb].
  apply negb_true_iff in Hne. apply Nat.eqb_neq in Hne.
  exists s2. split.
  - eapply advance_reachable; [|exact E2]. eapply advance_reachable; [constructor | exact E1].
  - eapply race_witness; eauto.
Qed.
