(* C13, object-header level: Resize rewrites the stored object header in place (Model/Resize.v).
   The invariant [stored]: the file holds at [addr] a version 2 object header as the library's writer produces it,
   with arbitrary messages [before] (none of type dataspace) and [after] the dataspace message of extents [dims]
   and maxima [maxd]; [pre] / [suf] are the bytes of the file in front of / behind the header.  [room]: the file goes
   on behind the header or the last message has two bytes of data (the reader fetches 6 bytes per message header);
   the header may be the very end of the file, as it is for a dataset created last in a session. *)
From HV Require Import Base.Prelude Base.Outcome Base.Bytes Model.CodecMsg Model.CodecOhdr Model.Resize.
From HV Require Import Proofs.CodecMsg Proofs.CodecOhdr Proofs.ResizeBase Proofs.ResizeOhdr.

Record stored (file : bytes) (addr flags : N) (before after : list hmsg) (dims maxd : list N)
              (pre suf : bytes) : Prop := {
  sd_file : file = pre ++ enc_ohdr_v2 (hdr_of flags before dims maxd after) ++ suf;
  sd_addr : addr = blen pre;
  sd_wf : wf_ohdr_v2 (hdr_of flags before dims maxd after) = true;
  sd_ds : wf_dataspace {| ds_dims := dims; ds_maxdims := maxd |} = true;
  sd_nods : no_ds before = true;
  sd_suf : room (before ++ ds_msg dims maxd :: after) suf = true;
  sd_small : blen pre + size_ohdr_v2 (hdr_of flags before dims maxd after) + 8 < 9223372036854775808 }.

(* ---------------------------------------------------------------- headers that differ in the extents only *)

Lemma chunk_same flags before dims new maxd after : length new = length dims ->
  chunk_size_v2 (oh_msgs (hdr_of flags before new maxd after))
  = chunk_size_v2 (oh_msgs (hdr_of flags before dims maxd after)).
Proof.
  intros HL. unfold hdr_of. cbn [oh_msgs]. rewrite !chunk_size_v2_app, !chunk_size_v2_cons.
  unfold ds_msg. cbn [hm_data]. rewrite (blen_ds_same dims new maxd HL). reflexivity.
Qed.

Lemma wf_msg_ds dims maxd : wf_msg_v2 (ds_msg dims maxd) = true.
Proof.
  unfold wf_msg_v2, ds_msg. cbn [hm_type hm_data]. rewrite bytes_ok_enc_dataspace, dataspace_blen.
  unfold size_dataspace. change (MSG_DATASPACE <? 256) with true. change (MSG_DATASPACE =? MSG_CONT) with false.
  cbn [negb andb]. rewrite andb_true_r. apply N.leb_le. blia.
Qed.

Lemma wf_hdr_same flags before dims new maxd after : length new = length dims ->
  wf_ohdr_v2 (hdr_of flags before dims maxd after) = true ->
  wf_ohdr_v2 (hdr_of flags before new maxd after) = true.
Proof.
  intros HL H. pose proof (chunk_same flags before dims new maxd after HL) as CS.
  apply wf_ohdr_v2_inv in H as (Hv & Hf & Hm & Hc & Hms).
  unfold wf_ohdr_v2, encok_ohdr_v2. rewrite CS.
  unfold hdr_of in *. cbn [oh_version oh_flags oh_msgs] in *.
  rewrite forallb_app in *. cbn [forallb] in *.
  apply andb_true_iff in Hms as [M1 M2]. apply andb_true_iff in M2 as [_ M3].
  rewrite M1, M3, wf_msg_ds, Hm.
  replace (flags <? 256) with true by (symmetry; apply N.ltb_lt; exact Hf).
  match goal with |- context [?c <=? 255] => replace (c <=? 255) with true by (symmetry; apply N.leb_le; exact Hc) end.
  reflexivity.
Qed.

Lemma room_same before : forall m m' after suf, blen (hm_data m') = blen (hm_data m) ->
  room (before ++ m' :: after) suf = room (before ++ m :: after) suf.
Proof.
  induction before as [|b r IH]; intros m m' after suf Hl.
  - cbn [app room]. destruct after; [rewrite Hl; reflexivity | reflexivity].
  - assert (E : forall l, l <> [] -> room (b :: l) suf = room l suf) by (intros [|x l] H; [congruence|reflexivity]).
    cbn [app]. rewrite !E by (intro H; apply app_eq_nil in H; destruct H; discriminate). apply IH; exact Hl.
Qed.

Lemma size_same flags before dims new maxd after : length new = length dims ->
  size_ohdr_v2 (hdr_of flags before new maxd after) = size_ohdr_v2 (hdr_of flags before dims maxd after).
Proof. intros HL. unfold size_ohdr_v2. rewrite (chunk_same flags before dims new maxd after HL). reflexivity. Qed.

Lemma stored_same file addr flags before after dims maxd pre suf new :
  stored file addr flags before after dims maxd pre suf ->
  length new = length dims -> u64_ok new = true ->
  stored (pre ++ enc_ohdr_v2 (hdr_of flags before new maxd after) ++ suf) addr flags before after new maxd pre suf.
Proof.
  intros [Hfile Haddr Hwf Hds Hno Hsuf Hsmall] HL Hu. constructor; auto.
  - eapply wf_hdr_same; eauto.
  - eapply wf_dataspace_same; eauto.
  - rewrite <- Hsuf. apply room_same. unfold ds_msg. cbn [hm_data]. apply blen_ds_same. exact HL.
  - rewrite (size_same flags before dims new maxd after HL). exact Hsmall.
Qed.

(* ---------------------------------------------------------------- what a reader sees *)

Lemma stored_dec be file addr flags before after dims maxd pre suf :
  stored file addr flags before after dims maxd pre suf ->
  dec_ohdr be file addr = Ok (proj_ohdr_v2 be (hdr_of flags before dims maxd after) addr).
Proof.
  intros [Hfile Haddr Hwf Hds Hno Hsuf Hsmall]. subst file addr. apply ohdr_v2_roundtrip_room; auto.
  unfold hdr_of. cbn [oh_msgs]. intro H. apply app_eq_nil in H. destruct H; discriminate.
Qed.

Lemma stored_shape_of be file addr flags before after dims maxd pre suf :
  stored file addr flags before after dims maxd pre suf -> maxd <> [] ->
  stored_shape be file addr = Ok (dims, Some maxd).
Proof.
  intros S Hne. unfold stored_shape. rewrite (stored_dec be _ _ _ _ _ _ _ _ _ S). cbn [obind].
  destruct S as [Hfile Haddr Hwf Hds Hno Hsuf Hsmall].
  unfold proj_ohdr_v2, hdr_of. cbn [ohp_msgs oh_msgs].
  rewrite (first_dataspace_at before (ds_msg dims maxd) after) by (auto; reflexivity).
  cbn [obind]. unfold ds_msg. cbn [hm_data]. rewrite (dataspace_roundtrip _ Hds). cbn [obind].
  unfold proj_dataspace. cbn [dsp_dims dsp_maxdims ds_dims ds_maxdims]. destruct maxd; [congruence|reflexivity].
Qed.

(* ---------------------------------------------------------------- an accepted call *)

Definition resized_handle (h : rhandle) (new : list N) (c : option ohdr') : rhandle :=
  {| rh_chunked := rh_chunked h; rh_dims := new; rh_maxdims := rh_maxdims h; rh_chunkdims := rh_chunkdims h;
     rh_esize := rh_esize h; rh_datasize := wrap64 (total_elements new * rh_esize h);
     rh_numchunks := num_chunks new (rh_chunkdims h); rh_cache := c |}.

Lemma blen_eq_length (a b : list N) : blen a = blen b -> length a = length b.
Proof. unfold blen. intros H. apply Nat2N.inj. exact H. Qed.

Lemma resize_accepted be h file addr flags before after dims maxd pre suf new :
  stored file addr flags before after dims maxd pre suf ->
  handle_ok h = true -> length (rh_dims h) = length dims -> rh_maxdims h = maxd ->
  u64_ok new = true -> resize_ok dims maxd new = true ->
  exists c, resize be h file addr new =
    (resized_handle h new c, pre ++ enc_ohdr_v2 (hdr_of flags before new maxd after) ++ suf, ROk).
Proof.
  intros S Hh Hld Hmx Hu Hok.
  pose proof (stored_dec be _ _ _ _ _ _ _ _ _ S) as RT.
  destruct S as [Hfile Haddr Hwf Hds Hno Hsuf Hsmall].
  apply handle_ok_inv in Hh as (Hc & Hnz & Hlm & Hlc & Hcz).
  apply resize_ok_inv in Hok as (Hln & Hpos & Hwm).
  pose proof (wf_dataspace_same dims new maxd Hln Hu Hds) as Hds'.
  pose proof (wf_hdr_same flags before dims new maxd after Hln Hwf) as Hwf'.
  unfold resize. rewrite Hc. cbn [negb].
  replace (length (rh_maxdims h) =? 0)%nat with false by (symmetry; apply Nat.eqb_neq; lia).
  replace (length new =? length (rh_dims h))%nat with true by (symmetry; apply Nat.eqb_eq; lia).
  cbn [negb].
  rewrite check_max_spec by lia. rewrite Hmx, Hwm.
  rewrite new_coordinator_spec.
  replace (length new =? length (rh_chunkdims h))%nat with true by (symmetry; apply Nat.eqb_eq; lia).
  replace (length new =? 0)%nat with false by (symmetry; apply Nat.eqb_neq; lia).
  rewrite Hpos, Hcz. cbn [negb andb].
  (* 3: the header as it is on disk *)
  rewrite RT.
  set (oh := proj_ohdr_v2 be (hdr_of flags before dims maxd after) addr).
  assert (Hms : ohp_msgs oh = msgs_at_v2 (before ++ ds_msg dims maxd :: after) (addr + 7)) by reflexivity.
  assert (Hver : ohp_version oh = 2) by reflexivity.
  assert (Hfl : ohp_flags oh = flags) by reflexivity.
  (* 4: the dataspace message is found *)
  rewrite Hms.
  rewrite (find_dataspace_at before (ds_msg dims maxd) after (addr + 7) 0 _ Hno eq_refl (dataspace_roundtrip _ Hds)).
  (* 6: it encodes *)
  assert (He : encok_dataspace {| ds_dims := new; ds_maxdims := maxd |} = true
               /\ (length new <=? 255)%nat = true).
  { unfold wf_dataspace in Hds'. cbn [ds_dims] in Hds'.
    apply andb_true_iff in Hds' as [H _]. apply andb_true_iff in H as [H _].
    apply andb_true_iff in H as [H1 H2]. auto. }
  destruct He as [He1 He2]. rewrite He1, He2. cbn [negb].
  (* 7 *)
  cbn [Nat.add].
  rewrite (set_data_at before (ds_msg dims maxd) after (addr + 7)
             (enc_dataspace {| ds_dims := new; ds_maxdims := maxd |}))
    by (unfold ds_msg; cbn [hm_data]; apply blen_ds_same; exact Hln).
  (* 8 *)
  unfold write_ohdr. cbn [ohp_version ohp_flags ohp_refcount ohp_msgs]. rewrite Hver, Hfl.
  change (2 =? 2) with true. cbn [negb].
  rewrite to_hmsg_msgs_at.
  change ({| hm_type := hm_type (ds_msg dims maxd);
             hm_data := enc_dataspace {| ds_dims := new; ds_maxdims := maxd |} |}) with (ds_msg new maxd).
  assert (Hek : forall rc, encok_ohdr_v2 {| oh_version := 2; oh_flags := flags; oh_refcount := rc;
                                            oh_msgs := before ++ ds_msg new maxd :: after |} = true).
  { intros rc. apply wf_ohdr_v2_inv in Hwf' as (_ & _ & _ & Hcs & _).
    unfold encok_ohdr_v2. cbn [oh_msgs hdr_of] in *. apply N.leb_le. exact Hcs. }
  rewrite Hek. cbn [negb].
  assert (Henc : forall rc, enc_ohdr_v2 {| oh_version := 2; oh_flags := flags; oh_refcount := rc;
                                           oh_msgs := before ++ ds_msg new maxd :: after |}
                            = enc_ohdr_v2 (hdr_of flags before new maxd after)) by reflexivity.
  rewrite Henc.
  rewrite Hfile, Haddr.
  rewrite write_at_mid
    by (apply blen_eq_length; rewrite !ohdr_v2_blen; apply size_same; exact Hln).
  eexists. unfold resized_handle. rewrite Hc, Hmx. reflexivity.
Qed.

(* ---------------------------------------------------------------- a refused call *)

Definition same_shape (a b : rhandle) : Prop :=
  rh_chunked a = rh_chunked b /\ rh_dims a = rh_dims b /\ rh_maxdims a = rh_maxdims b /\
  rh_chunkdims a = rh_chunkdims b /\ rh_esize a = rh_esize b /\ rh_datasize a = rh_datasize b /\
  rh_numchunks a = rh_numchunks b.

Lemma same_shape_refl h : same_shape h h.
Proof. unfold same_shape. tauto. Qed.
Lemma same_shape_cache h c : same_shape (set_cache h c) h.
Proof. unfold same_shape, set_cache. cbn. tauto. Qed.

(* no assumption at all: whatever the handle and the file are, a call that does not succeed writes nothing
   and leaves every field of the handle but the cached header as it was *)
Lemma resize_refused_unchanged be h file addr new h' file' r :
  resize be h file addr new = (h', file', r) -> r <> ROk -> file' = file /\ same_shape h' h.
Proof.
  unfold resize. intros E NR.
  destruct (negb (rh_chunked h)); [inversion E; subst; split; [reflexivity|apply same_shape_refl]|].
  destruct (length (rh_maxdims h) =? 0)%nat; [inversion E; subst; split; [reflexivity|apply same_shape_refl]|].
  destruct (negb (length new =? length (rh_dims h))%nat);
    [inversion E; subst; split; [reflexivity|apply same_shape_refl]|].
  destruct (check_max new (rh_maxdims h));
    try (inversion E; subst; split; [reflexivity|apply same_shape_refl]).
  destruct (new_coordinator new (rh_chunkdims h)) as [coord|];
    [|inversion E; subst; split; [reflexivity|apply same_shape_refl]].
  destruct (dec_ohdr be file addr) as [oh| |];
    try (inversion E; subst; split; [reflexivity|apply same_shape_refl]).
  destruct (find_dataspace (ohp_msgs oh) 0) as [idx| |];
    try (inversion E; subst; split; [reflexivity|apply same_shape_cache]).
  destruct (negb (encok_dataspace {| ds_dims := new; ds_maxdims := rh_maxdims h |}));
    [inversion E; subst; split; [reflexivity|apply same_shape_cache]|].
  destruct (negb (length new <=? 255)%nat);
    [inversion E; subst; split; [reflexivity|apply same_shape_cache]|].
  match type of E with context [write_ohdr ?f ?a ?o] => destruct (write_ohdr f a o) end;
    inversion E; subst; [congruence | split; [reflexivity|apply same_shape_cache]].
Qed.

(* no assumption at all: a call that succeeds was within the declared maximum *)
Lemma resize_accept_sound be h file addr new h' file' :
  resize be h file addr new = (h', file', ROk) ->
  resize_ok (rh_dims h) (rh_maxdims h) new = true /\ rh_dims h' = new /\ rh_maxdims h' = rh_maxdims h.
Proof.
  unfold resize. intros E.
  destruct (negb (rh_chunked h)); [inversion E|].
  destruct (length (rh_maxdims h) =? 0)%nat; [inversion E|].
  destruct (length new =? length (rh_dims h))%nat eqn:EL; cbn [negb] in E; [|inversion E].
  destruct (check_max new (rh_maxdims h)) eqn:EM; try (inversion E; fail).
  rewrite new_coordinator_spec in E.
  destruct (forallb (fun d => 0 <? d) new) eqn:EP;
    [|rewrite andb_false_r in E; cbn [andb] in E; inversion E].
  destruct (dec_ohdr be file addr) as [oh| |];
    [|destruct ((length new =? length (rh_chunkdims h))%nat && negb (length new =? 0)%nat && true
                && forallb (fun d => negb (d =? 0)) (rh_chunkdims h)); inversion E ..].
  destruct ((length new =? length (rh_chunkdims h))%nat && negb (length new =? 0)%nat && true
            && forallb (fun d => negb (d =? 0)) (rh_chunkdims h)); [|inversion E].
  destruct (find_dataspace (ohp_msgs oh) 0) as [idx| |]; try (inversion E; fail).
  destruct (negb (encok_dataspace {| ds_dims := new; ds_maxdims := rh_maxdims h |})); [inversion E|].
  destruct (negb (length new <=? 255)%nat); [inversion E|].
  match type of E with context [write_ohdr ?f ?a ?o] => destruct (write_ohdr f a o) end; inversion E; subst.
  cbn [rh_dims rh_maxdims]. split; [|auto].
  unfold resize_ok. rewrite EL, EP, (check_max_sound _ _ EM). reflexivity.
Qed.

(* a handle as CreateDataset builds it: a request outside the maximum (or of another rank, or with a zero
   extent) is refused before the file is even read; handle and file are returned as they were *)
Lemma resize_rejected be h file addr new :
  handle_ok h = true -> resize_ok (rh_dims h) (rh_maxdims h) new = false ->
  resize be h file addr new = (h, file, RErr).
Proof.
  intros Hh Hno. apply handle_ok_inv in Hh as (Hc & Hnz & Hlm & Hlc & Hcz).
  unfold resize. rewrite Hc. cbn [negb].
  replace (length (rh_maxdims h) =? 0)%nat with false by (symmetry; apply Nat.eqb_neq; lia).
  unfold resize_ok in Hno.
  destruct (length new =? length (rh_dims h))%nat eqn:EL; cbn [negb andb] in *; [|reflexivity].
  apply Nat.eqb_eq in EL.
  rewrite check_max_spec by lia.
  destruct (within_max new (rh_maxdims h)); [|reflexivity].
  rewrite andb_true_r in Hno.
  rewrite new_coordinator_spec, Hno, andb_false_r. cbn [andb]. reflexivity.
Qed.

Lemma handle_ok_resized h new c : handle_ok h = true -> length new = length (rh_dims h) ->
  handle_ok (resized_handle h new c) = true.
Proof.
  intros Hh HL. apply handle_ok_inv in Hh as (Hc & Hnz & Hlm & Hlc & Hcz).
  unfold handle_ok, resized_handle. cbn [rh_chunked rh_dims rh_maxdims rh_chunkdims].
  rewrite Hc, Hcz, HL, Hlm, Hlc, !Nat.eqb_refl.
  replace (length (rh_dims h) =? 0)%nat with false by (symmetry; apply Nat.eqb_neq; lia).
  reflexivity.
Qed.

(* ---------------------------------------------------------------- frame: only the extents change *)

Lemma hdr_frame flags before dims maxd after :
  enc_ohdr_v2 (hdr_of flags before dims maxd after)
  = frame_front flags before (blen dims) maxd after ++ enc_dims8 dims ++ frame_back maxd after.
Proof.
  unfold enc_ohdr_v2, hdr_of, frame_front, frame_back. cbn [oh_version oh_flags oh_msgs].
  rewrite body_v2_app, body_v2_cons, chunk_size_v2_app, chunk_size_v2_cons.
  unfold enc_msg_v2, ds_msg. cbn [hm_type hm_data]. rewrite dataspace_blen.
  unfold size_dataspace, enc_dataspace. cbn [ds_dims ds_maxdims].
  rewrite <- !app_assoc. cbn [app]. reflexivity.
Qed.

Lemma blen_frame_front flags before rank maxd after :
  blen (frame_front flags before rank maxd after) = 19 + chunk_size_v2 before.
Proof.
  unfold frame_front. rewrite !blen_app, blen_body_v2, blen_le, blen_zeros. unfold blen; cbn [length]. blia.
Qed.

Lemma nth_error_frame (A X Y B : list N) i : length X = length Y ->
  (i < length A \/ length A + length X <= i)%nat ->
  nth_error (A ++ X ++ B) i = nth_error (A ++ Y ++ B) i.
Proof.
  intros HL [Hi|Hi].
  - rewrite !nth_error_app1 by exact Hi. reflexivity.
  - rewrite (nth_error_app2 A) by lia. rewrite (nth_error_app2 A (Y ++ B)) by lia.
    rewrite (nth_error_app2 X) by lia. rewrite (nth_error_app2 Y) by lia. rewrite HL. reflexivity.
Qed.

(* ---------------------------------------------------------------- sequences of calls *)

Lemma last_accepted_cons dims maxd new news :
  last_accepted dims maxd (new :: news)
  = last_accepted (if resize_ok dims maxd new then new else dims) maxd news.
Proof. reflexivity. Qed.

Lemma resizes_spec be news : forall h file addr flags before after dims maxd pre suf,
  stored file addr flags before after dims maxd pre suf ->
  handle_ok h = true -> rh_dims h = dims -> rh_maxdims h = maxd ->
  Forall (fun new => u64_ok new = true) news ->
  exists h' file', resizes be h file addr news = (h', file', expected_results dims maxd news)
    /\ stored file' addr flags before after (last_accepted dims maxd news) maxd pre suf
    /\ handle_ok h' = true /\ rh_dims h' = last_accepted dims maxd news /\ rh_maxdims h' = maxd.
Proof.
  induction news as [|new r IH]; intros h file addr flags before after dims maxd pre suf S Hh Hd Hm Hu.
  - exists h, file. cbn [resizes expected_results]. unfold last_accepted. cbn [fold_left]. auto.
  - inversion Hu as [|? ? Hu1 Hu2]; subst.
    cbn [resizes expected_results]. rewrite last_accepted_cons.
    destruct (resize_ok (rh_dims h) (rh_maxdims h) new) eqn:EOK.
    + destruct (resize_accepted be h file addr flags before after _ _ pre suf new S Hh eq_refl eq_refl Hu1 EOK)
        as (c & ER).
      rewrite ER.
      pose proof (resize_ok_inv _ _ _ EOK) as (Hln & _ & _).
      pose proof (stored_same _ _ _ _ _ _ _ _ _ new S Hln Hu1) as S'.
      destruct (IH (resized_handle h new c) _ addr flags before after new (rh_maxdims h) pre suf S'
                  (handle_ok_resized h new c Hh Hln) eq_refl eq_refl Hu2)
        as (h' & file' & ERS & S'' & Hh' & Hd' & Hm').
      rewrite ERS. exists h', file'. auto.
    + rewrite (resize_rejected be h file addr new Hh EOK).
      destruct (IH h file addr flags before after (rh_dims h) (rh_maxdims h) pre suf S Hh eq_refl eq_refl Hu2)
        as (h' & file' & ERS & S'' & Hh' & Hd' & Hm').
      rewrite ERS. exists h', file'. auto.
Qed.
