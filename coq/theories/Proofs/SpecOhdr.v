(* C05: the writer's object header encoders (Model/CodecOhdr.v enc_ohdr_v2 / enc_ohdr_v1, tied to the Go code by C11) against the
   specification decoders Spec/Format.v spec_dec_ohdr2 / spec_dec_ohdr1. *)
From HV Require Import Base.Prelude Base.Outcome Base.Bytes Spec.Parse Spec.Format Model.CodecOhdr Proofs.SpecSuper.

Lemma p_u_1 c (r : list N) : p_u 1 (c :: r) = Ok (c, r).
Proof. unfold p_u, p_take. cbn [length Nat.leb firstn skipn obind unle]. f_equal. f_equal. lia. Qed.

Lemma wrap8_small' n : n <= 255 -> wrap8 n = n.
Proof. intros. unfold wrap8. apply N.mod_small. lia. Qed.
Lemma wrap16_small' n : n <= 65535 -> wrap16 n = n.
Proof. intros. unfold wrap16. apply N.mod_small. lia. Qed.

Definition logical_msg (m : hmsg) : msg_spec :=
  {| ms_type := hm_type m; ms_flags := 0; ms_corder := None; ms_data := hm_data m |}.

(* ------------------------------------------------------------------ version 2 *)
Definition logical_ohdr2 (x : ohdr) : ohdr2_spec :=
  {| o2_flags := oh_flags x; o2_times := None; o2_phase := None; o2_chunk0 := chunk_size_v2 (oh_msgs x);
     o2_msgs := map logical_msg (oh_msgs x) |}.

Lemma chunk_size_v2_cons m ms : chunk_size_v2 (m :: ms) = 4 + blen (hm_data m) + chunk_size_v2 ms.
Proof. reflexivity. Qed.
Lemma body_v2_cons m ms : body_v2 (m :: ms) = enc_msg_v2 m ++ body_v2 ms.
Proof. reflexivity. Qed.

Lemma length_body_v2 ms : length (body_v2 ms) = N.to_nat (chunk_size_v2 ms).
Proof.
  induction ms as [|m ms IH]; [reflexivity|].
  rewrite body_v2_cons, chunk_size_v2_cons, app_length, IH.
  unfold enc_msg_v2. rewrite !app_length, length_le. cbn [length]. unfold blen. lia.
Qed.

Lemma chunk_size_ge ms m : In m ms -> blen (hm_data m) + 4 <= chunk_size_v2 ms.
Proof.
  induction ms as [|a ms IH]; [intros []|]. intros [->|H]; rewrite chunk_size_v2_cons.
  - lia.
  - specialize (IH H). lia.
Qed.

Lemma length_body_ge ms : (length ms <= N.to_nat (chunk_size_v2 ms))%nat.
Proof.
  induction ms as [|m ms IH]; [cbn; lia|]. rewrite chunk_size_v2_cons. cbn [length]. lia.
Qed.

Lemma p_msgs_v2_body ms : forall fuel, (length ms < fuel)%nat ->
  forallb wf_msg_v2 ms = true -> chunk_size_v2 ms <= 255 ->
  p_msgs_v2 false fuel (body_v2 ms) = Ok (map logical_msg ms).
Proof.
  induction ms as [|m ms IH]; intros fuel Hf W C.
  - destruct fuel; reflexivity.
  - destruct fuel as [|fuel]; [cbn [length] in Hf; lia|].
    cbn [forallb] in W. apply andb_true_iff in W as [Wm W].
    unfold wf_msg_v2 in Wm. repeat (apply andb_true_iff in Wm as [Wm ?]).
    apply N.ltb_lt in Wm.
    assert (Hl : blen (hm_data m) + 4 <= 255) by (pose proof (chunk_size_ge (m :: ms) m (or_introl eq_refl)); lia).
    assert (C' : chunk_size_v2 ms <= 255) by (rewrite chunk_size_v2_cons in C; lia).
    rewrite body_v2_cons. unfold enc_msg_v2.
    rewrite wrap8_small' by lia. rewrite wrap16_small' by lia.
    rewrite <- !app_assoc. cbn [app].
    cbn [p_msgs_v2].
    match goal with |- context [(length ?l <? 4)%nat] =>
      replace (length l <? 4)%nat with false
        by (symmetry; apply Nat.ltb_ge; cbn [length]; rewrite app_length, length_le; cbn [length]; lia) end.
    cbn [p_byte obind].
    rewrite p_u_le by (apply N.lt_le_trans with 256; [lia | vm_compute; discriminate]). cbn [obind p_byte].
    rewrite p_take_app by (unfold blen; lia). cbn [obind].
    rewrite IH by (auto; cbn [length] in Hf; lia). cbn [obind]. reflexivity.
Qed.

Lemma flags_cases f : f < 64 -> N.land f 55 = 0 -> f = 0 \/ f = 8.
Proof.
  intros H L.
  assert (D : f = 0 \/ f = 1 \/ f = 2 \/ f = 3 \/ f = 4 \/ f = 5 \/ f = 6 \/ f = 7 \/ f = 8 \/ f = 9 \/ f = 10 \/ f = 11 \/ f = 12 \/ f = 13 \/ f = 14 \/ f = 15 \/ f = 16 \/ f = 17 \/ f = 18 \/ f = 19 \/ f = 20 \/ f = 21 \/ f = 22 \/ f = 23 \/ f = 24 \/ f = 25 \/ f = 26 \/ f = 27 \/ f = 28 \/ f = 29 \/ f = 30 \/ f = 31 \/ f = 32 \/ f = 33 \/ f = 34 \/ f = 35 \/ f = 36 \/ f = 37 \/ f = 38 \/ f = 39 \/ f = 40 \/ f = 41 \/ f = 42 \/ f = 43 \/ f = 44 \/ f = 45 \/ f = 46 \/ f = 47 \/ f = 48 \/ f = 49 \/ f = 50 \/ f = 51 \/ f = 52 \/ f = 53 \/ f = 54 \/ f = 55 \/ f = 56 \/ f = 57 \/ f = 58 \/ f = 59 \/ f = 60 \/ f = 61 \/ f = 62 \/ f = 63) by lia.
  repeat (destruct D as [D|D]; [subst f; first [left; reflexivity | right; reflexivity | vm_compute in L; discriminate]|]).
  subst f; vm_compute in L; discriminate.
Qed.

(* Version 2 object headers (flags without reserved bits): everything is specification-conformant except that NO checksum follows the
   messages.  Strict: Err for every header; tolerant: accepted with ohdr-no-checksum and nothing else. *)
Lemma spec_ohdr2 tol x : wf_ohdr_v2 x = true -> oh_flags x < 64 ->
  spec_dec_ohdr2 tol (enc_ohdr_v2 x) = (tg <- dev tol T_ohdr_no_checksum;; Ok (logical_ohdr2 x, tg, [])).
Proof.
  unfold wf_ohdr_v2, encok_ohdr_v2. intros W F. repeat (apply andb_true_iff in W as [W ?]).
  apply N.eqb_eq in W.
  match goal with H : (N.land _ 55 =? 0) = true |- _ => apply N.eqb_eq in H; rename H into L end.
  match goal with H : (chunk_size_v2 _ <=? 255) = true |- _ => apply N.leb_le in H; rename H into C end.
  destruct x as [ver fl rc ms]; cbn [oh_version oh_flags oh_refcount oh_msgs] in *. subst ver.
  unfold enc_ohdr_v2, logical_ohdr2. cbn [oh_version oh_flags oh_refcount oh_msgs].
  rewrite wrap8_small' by lia.
  unfold spec_dec_ohdr2. change [79; 72; 68; 82] with ohdr_sig. rewrite p_expect_app. cbn [obind app p_byte N.eqb Pos.eqb guard].
  assert (F' : (fl <? 64) = true) by (apply N.ltb_lt; exact F). rewrite F'. cbn [guard obind].
  assert (T : N.testbit fl 5 = false /\ N.testbit fl 4 = false /\ N.land fl 3 = 0 /\ N.testbit fl 2 = false).
  { destruct (flags_cases fl F L); subst fl; repeat split; reflexivity. }
  destruct T as (T5 & T4 & T3 & T2). rewrite T5, T4, T3, T2. cbn [obind].
  change (N.to_nat (N.shiftl 1 0)) with 1%nat. rewrite p_u_1. cbn [obind].
  rewrite p_take_all by apply length_body_v2. cbn [obind].
  rewrite p_msgs_v2_body by (auto; rewrite length_body_v2; pose proof (length_body_ge ms); lia). cbn [obind].
  unfold chunk_checksum. cbn [p_u p_take length Nat.leb obind].
  destruct (tol T_ohdr_no_checksum) eqn:E; unfold dev; rewrite E; cbn [obind]; reflexivity.
Qed.

(* the universal refutation KNOWN_FINDINGS C05-ohdr-no-checksum cites: EVERY version 2 header the encoder produces is rejected by the
   strict decoder, and is accepted by the tolerant one with exactly that deviation *)
Lemma ohdr_no_checksum_refuted x : wf_ohdr_v2 x = true -> oh_flags x < 64 ->
  spec_dec_ohdr2 strict (enc_ohdr_v2 x) = Err /\
  spec_dec_ohdr2 tolerant (enc_ohdr_v2 x) = Ok (logical_ohdr2 x, [T_ohdr_no_checksum], []).
Proof. intros W F. split; rewrite spec_ohdr2 by assumption; reflexivity. Qed.
