(* C09 at file level, base: element views of byte strings (Model/SliceRefine.v elem / elems / evals) against slices of
   the data block (rd) and against the element-level file read of C09 (Hs.read_at). *)
From HV Require Import Base.Prelude Base.Outcome Base.Bytes Model.IOProg Proofs.IOProg Model.IOProgReader Model.IOProgSlice.
From HV Require Import Model.SliceRefine Proofs.FileImage.
From HV Require Proofs.HyperslabBase.
Module HB := HV.Proofs.HyperslabBase.

Lemma rd_rd (b : bytes) o l o' l' : o' + l' <= l -> o + l <= blen b -> rd (rd b o l) o' l' = rd b (o + o') l'.
Proof.
  intros H1 H2. unfold rd. unfold blen in H2.
  rewrite skipn_firstn_comm, firstn_firstn, skipn_skipn'. f_equal; [blia|f_equal; blia].
Qed.

Lemma elems_length es b : length (elems es b) = N.to_nat (blen b / es).
Proof. unfold elems. now rewrite map_length, HB.nrange_length. Qed.
Lemma evals_lenN es b : Hs.lenN (evals es b) = blen b / es.
Proof. unfold Hs.lenN, evals. rewrite map_length, elems_length. blia. Qed.

Lemma evals_spec es b : evals es b = map (fun i => unle (elem es b i)) (Hs.nrange (blen b / es)).
Proof. unfold evals, elems. now rewrite map_map. Qed.

Lemma nthN_evals es b i : i < blen b / es -> Hs.nthN (evals es b) i = unle (elem es b i).
Proof.
  intros H. rewrite evals_spec. unfold Hs.nthN. set (g := fun i => unle (elem es b i)).
  rewrite nth_indep with (d' := g 0) by (rewrite map_length, HB.nrange_length; blia).
  rewrite map_nth. unfold Hs.nrange. rewrite HB.nth_nseq by blia. unfold g. f_equal. f_equal. blia.
Qed.

(* n elements from element off on *)
Lemma div_exact_mul n es : 0 < es -> n * es / es = n.
Proof. intros H. apply N.div_mul. blia. Qed.

Lemma elem_rd es data off n i : 0 < es -> (off + n) * es <= blen data -> i < n ->
  elem es (rd data (off * es) (n * es)) i = elem es data (off + i).
Proof.
  intros He Hb Hi. unfold elem. rewrite rd_rd by nia. f_equal. nia.
Qed.

Lemma evals_rd es data off n : 0 < es -> (off + n) * es <= blen data ->
  evals es (rd data (off * es) (n * es)) = map (fun i => unle (elem es data (off + i))) (Hs.nrange n).
Proof.
  intros He Hb. rewrite evals_spec. rewrite blen_rd by nia. rewrite div_exact_mul by assumption.
  apply map_ext_in. intros i Hi. apply HB.in_nrange in Hi. now rewrite (elem_rd es data off n i).
Qed.

Lemma le_div_of_mul a es b : 0 < es -> a * es <= b -> a <= b / es.
Proof. intros He H. apply N.div_le_lower_bound; [blia|nia]. Qed.

Lemma read_at_evals es data off n : 0 < es -> (off + n) * es <= blen data ->
  Hs.read_at (evals es data) off n = map (fun i => unle (elem es data (off + i))) (Hs.nrange n).
Proof.
  intros He Hb. pose proof (le_div_of_mul _ _ _ He Hb) as Hd.
  rewrite HB.read_at_spec by (rewrite evals_lenN; exact Hd).
  unfold Hs.nrange.
  assert (E : Hs.nseq off (N.to_nat n) = map (N.add off) (Hs.nseq 0 (N.to_nat n))).
  { rewrite HB.map_add_nseq. apply HB.nseq_ext. blia. }
  rewrite E, map_map.
  apply map_ext_in. intros i Hi. apply HB.in_nseq in Hi. apply nthN_evals. blia.
Qed.

(* the bytes of a run of elements are the run of the element values *)
Lemma evals_rd_read_at es data off n : 0 < es -> (off + n) * es <= blen data ->
  evals es (rd data (off * es) (n * es)) = Hs.read_at (evals es data) off n.
Proof. intros He Hb. now rewrite evals_rd, read_at_evals. Qed.

Lemma evals_length_rd es data off n : 0 < es -> (off + n) * es <= blen data ->
  length (evals es (rd data (off * es) (n * es))) = N.to_nat n.
Proof. intros He Hb. rewrite evals_rd by assumption. now rewrite map_length, HB.nrange_length. Qed.
