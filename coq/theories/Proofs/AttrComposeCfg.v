(* C19 part A on the composed attribute-storage model: one attribute call under ANY configuration and ANY wiring of
   the configuration to the loaded index equals the same call under the default configuration - as states (the bytes
   of both regions), not only as listings.  Two facts carry it:
     * lazy bookkeeping never feeds back: every B-tree operation commutes with forgetting the lazy state
       ([strip_bt], from Proofs/BT2.v section 5), and the three delete entry points agree after forgetting it;
     * persistence: c_store writes the records and counters only, so the state after the call does not contain the lazy
       state, and the next call starts from a freshly loaded object. *)
From HV Require Import Base.Prelude Model.Attr Model.AttrCompose Model.AttrComposeCfg.
From HV Require Import Proofs.AttrComposeIdx Proofs.AttrCompose Proofs.Attr.
From HV Require Model.BT2 Proofs.BT2 Model.FHeap.

Notation S_ := BT2.strip_bt.

(* ------------------------------------------------------------------ B-tree operations and the lazy state *)

Lemma search_strip s n : BT2.search_record (S_ s) n = BT2.search_record s n.
Proof. reflexivity. Qed.

Lemma insert_strip s n v :
  BT2.insert_record (S_ s) n v = (S_ (fst (BT2.insert_record s n v)), snd (BT2.insert_record s n v)).
Proof.
  unfold BT2.insert_record. cbn [BT2.strip_bt BT2.with_lazy BT2.recs BT2.node_size BT2.header].
  destruct (BT2.find_index (BT2.recs s) (BT2.jenkins n) 0); [reflexivity|].
  destruct (_ <=? _); reflexivity.
Qed.

Lemma update_strip s n v :
  BT2.update_record (S_ s) n v = (S_ (fst (BT2.update_record s n v)), snd (BT2.update_record s n v)).
Proof.
  unfold BT2.update_record. cbn [BT2.strip_bt BT2.with_lazy BT2.recs BT2.node_size BT2.header].
  destruct (BT2.find_index (BT2.recs s) (BT2.jenkins n) 0); reflexivity.
Qed.

(* DeleteDenseAttribute's switch, whatever the lazy state, the flag and the clock: the records, counters and the
   answer of DeleteRecordWithRebalancing on the object without lazy state *)
Lemma switch_strip s n (rb d : bool) :
  let r := if BT2.is_lazy_enabled s then BT2.delete_lazy s n d
           else if rb then BT2.delete_with_rebalancing s n else BT2.delete_record s n in
  BT2.delete_with_rebalancing (S_ s) n = (S_ (fst r), snd r).
Proof.
  destruct s as [ns h lt lr rs lh ll lz].
  unfold BT2.is_lazy_enabled, BT2.delete_record, BT2.delete_with_rebalancing, BT2.delete_lazy, BT2.remove_record,
         BT2.handle_root_depth_decrease, BT2.strip_bt, BT2.with_lazy, BT2.with_recs.
  cbn [BT2.recs BT2.node_size BT2.header BT2.leaf_type BT2.leaf_recs BT2.loaded_hdr BT2.loaded_leaf BT2.lazy].
  destruct lz as [l|]; [|destruct rb];
    (destruct (BT2.find_index rs (BT2.jenkins n) 0); [|reflexivity]);
    cbn [BT2.header BT2.set_counts BT2.h_nroot BT2.h_depth BT2.recs BT2.node_size];
    destruct (_ && _); reflexivity.
Qed.

(* WriteAt writes records and counters; the file and the allocator afterwards do not depend on the lazy state *)
Lemma store_strip bf bn ba hfs ha s hp : c_store bf bn ba hfs ha (S_ s) hp = c_store bf bn ba hfs ha s hp.
Proof.
  unfold c_store. destruct (FHeap.store hp hfs) as [[[? hfs'] ?]|]; [|reflexivity].
  unfold BT2.write_in_place.
  cbn [BT2.bt BT2.fil BT2.next BT2.strip_bt BT2.with_lazy BT2.loaded_hdr BT2.loaded_leaf].
  destruct (BT2.loaded_hdr s =? 0); reflexivity.
Qed.

Lemma strip_idem s : S_ (S_ s) = S_ s.
Proof. reflexivity. Qed.

(* ------------------------------------------------------------------ the loaded index has no lazy state *)

Lemma load_nolazy bf ba s : BT2.load_from OSZ (BT2.new_bt NODE) bf ba = BT2.LOk s -> S_ s = s.
Proof.
  intro E. pose proof (BT2.load_from_strip OSZ (BT2.new_bt NODE) bf ba) as X.
  change (BT2.strip_bt (BT2.new_bt NODE)) with (BT2.new_bt NODE) in X. rewrite E in X.
  destruct X as (X1 & _ & _). exact X1.
Qed.

Lemma c_load_nolazy bf ba hfs ha s hp : c_load bf ba hfs ha = Some (s, hp) -> S_ s = s.
Proof.
  unfold c_load. destruct (FHeap.load _ _ _); [|discriminate].
  destruct (BT2.load_from _ _ _ _) eqn:E; [|discriminate].
  intro H. inversion H; subst. exact (load_nolazy _ _ _ E).
Qed.

Lemma setup_strip m s : S_ s = s -> S_ (BT2.setup_mode m s) = s.
Proof. intro H. rewrite BT2.strip_setup. exact H. Qed.

Section Cfg.
Variable P : params.
Variable enc : attr -> bytes.
Variable pick : FHeap.heap -> bytes -> nat.
Variable wire : fwcfg -> BT2.mode.

(* ------------------------------------------------------------------ ModifyDenseAttribute *)

Definition strip_pair (x : option (BT2.bt2 * FHeap.heap)) : option (BT2.bt2 * FHeap.heap) :=
  match x with Some (b, h) => Some (S_ b, h) | None => None end.

Lemma modify_strip s hp a : c_modify enc pick (S_ s) hp a = strip_pair (c_modify enc pick s hp a).
Proof.
  unfold c_modify. destruct (aname a) as [|c0 nm]; [reflexivity|].
  rewrite search_strip. destruct (BT2.search_record s (c0 :: nm)) as [id|]; [|reflexivity].
  destruct (FHeap.get hp id) as [old|]; [|reflexivity].
  destruct (FHeap.len (enc a) =? 0); [reflexivity|].
  destruct (FHeap.len (enc a) =? FHeap.len old).
  - destruct (FHeap.overwrite hp id (enc a)) as [hp' [u|]]; reflexivity.
  - destruct (FHeap.delete hp id) as [hp1 [u|]]; [|reflexivity].
    destruct (FHeap.insert FHeap.cap_new hp1 (enc a) (pick hp1 (enc a))) as [hp2 [id2|]]; [|reflexivity].
    destruct (negb (FHeap.len id2 =? 8)); [reflexivity|].
    rewrite update_strip. destruct (BT2.update_record s (c0 :: nm) (unle id2)) as [bt' [|]]; reflexivity.
Qed.

(* ------------------------------------------------------------------ one call *)

Lemma write_dense_cfg_eq cf bf bn ba hfs ha a :
  c_write_dense_cfg enc pick wire cf bf bn ba hfs ha a = c_write_dense enc pick bf bn ba hfs ha a.
Proof.
  unfold c_write_dense_cfg, c_write_dense.
  destruct (c_load bf ba hfs ha) as [[bt0 hp]|] eqn:EL; [|reflexivity].
  pose proof (c_load_nolazy _ _ _ _ _ _ EL) as N0.
  pose proof (setup_strip (wire cf) bt0 N0) as N1.
  set (bt := BT2.setup_mode (wire cf) bt0) in *.
  destruct (encode_attr a); [|reflexivity].
  rewrite <- (search_strip bt), N1.
  destruct (BT2.search_record bt0 (aname a)).
  - pose proof (modify_strip bt hp a) as M. rewrite N1 in M. rewrite M.
    destruct (c_modify enc pick bt hp a) as [[bt' hp']|]; cbn [strip_pair]; [|reflexivity].
    apply eq_sym, store_strip.
  - destruct (FHeap.insert FHeap.cap_new hp (enc a) (pick hp (enc a))) as [hp' [id|]]; [|reflexivity].
    destruct (negb (FHeap.len id =? 8)); [reflexivity|].
    pose proof (insert_strip bt (aname a) (unle id)) as I. rewrite N1 in I. rewrite I.
    destruct (BT2.insert_record bt (aname a) (unle id)) as [bt' [|]]; cbn [fst snd]; [|reflexivity].
    apply eq_sym, store_strip.
Qed.

(* the right-hand side is the existing model under the default configuration (flag true, clock false); by
   [delete_dense_flag] below the flag and the clock do not matter there either *)
Lemma delete_dense_cfg_eq cf rb d bf bn ba hfs ha n :
  c_delete_dense_cfg wire cf bf bn ba hfs ha n = c_delete_dense rb d bf bn ba hfs ha n.
Proof.
  unfold c_delete_dense_cfg, c_delete_dense.
  destruct (c_load bf ba hfs ha) as [[bt0 hp]|] eqn:EL; [|reflexivity].
  pose proof (c_load_nolazy _ _ _ _ _ _ EL) as N0.
  pose proof (setup_strip (wire cf) bt0 N0) as N1.
  set (bt := BT2.setup_mode (wire cf) bt0) in *.
  destruct n as [|c0 nm]; [reflexivity|].
  rewrite <- (search_strip bt), N1.
  destruct (BT2.search_record bt0 (c0 :: nm)) as [id|]; [|reflexivity].
  pose proof (switch_strip bt (c0 :: nm) (fw_rebalance cf) (mode_delay (wire cf))) as X1.
  pose proof (switch_strip bt0 (c0 :: nm) rb d) as X2.
  cbv zeta in X1, X2.
  set (r1 := if BT2.is_lazy_enabled bt then _ else _) in *.
  set (r2 := if BT2.is_lazy_enabled bt0 then _ else _) in *.
  rewrite N1 in X1. rewrite N0 in X2.
  assert (X : (S_ (fst r1), snd r1) = (S_ (fst r2), snd r2)) by (rewrite <- X1; exact X2).
  clear X1 X2. clearbody r1 r2.
  destruct r1 as [b1 ok1]. destruct r2 as [b2 ok2].
  cbn [fst snd] in X.
  assert (E1 : S_ b1 = S_ b2) by congruence. assert (E2 : ok1 = ok2) by congruence. subst ok2. clear X.
  destruct ok1; [|reflexivity].
  destruct (FHeap.delete hp id) as [hp' [u|]]; [|reflexivity].
  rewrite <- (store_strip _ _ _ _ _ b1), <- (store_strip _ _ _ _ _ b2), E1. reflexivity.
Qed.

Lemma step_cfg_eq cf rb d st o : c_step_cfg P enc pick wire cf st o = c_step P enc rb d pick st o.
Proof.
  destruct o as [n v|n]; cbn [c_step_cfg c_step].
  - unfold c_write_attr_cfg, c_write_attr. destruct v; [|reflexivity].
    destruct st; [reflexivity|]. apply write_dense_cfg_eq.
  - unfold c_delete_attr_cfg, c_delete_attr. destruct st; [reflexivity|]. apply delete_dense_cfg_eq.
Qed.

(* ------------------------------------------------------------------ histories *)

Lemma run_cfg_eq rb d : forall h cfs st, c_run_cfg P enc pick wire cfs st h = c_run P enc rb d pick st h.
Proof.
  induction h as [|o h IH]; intros cfs st; cbn [c_run_cfg c_run]; [reflexivity|].
  rewrite (step_cfg_eq _ rb d). destruct (c_step P enc rb d pick st o) as [st1 x].
  rewrite IH. reflexivity.
Qed.

Lemma run_ev_eq rb d : forall l cf st, c_run_ev P enc pick wire cf st l = c_run P enc rb d pick st (ops_of l).
Proof.
  induction l as [|[o|k] l IH]; intros cf st; cbn [c_run_ev ops_of c_run]; [reflexivity| |apply IH].
  rewrite (step_cfg_eq _ rb d). destruct (c_step P enc rb d pick st o) as [st1 x].
  rewrite IH. reflexivity.
Qed.

End Cfg.

(* ------------------------------------------------------------------ statements for Props/C19Compose.v *)

(* one call, from ANY state (reachable or not) *)
Theorem compose_step_config_irrelevant P enc pick wire cf st o :
  c_step_cfg P enc pick wire cf st o = c_step_cfg P enc pick wire fw_default st o.
Proof. rewrite (step_cfg_eq P enc pick wire cf true false), (step_cfg_eq P enc pick wire fw_default true false). reflexivity. Qed.

(* every history, every per-call configuration list, every wiring: the state (all bytes) and the answers are those
   of the default configuration under the code as it is *)
Theorem compose_config_irrelevant P enc pick wire cfs st h :
  c_run_cfg P enc pick wire cfs st h = c_run_cfg P enc pick wire_go [] st h.
Proof. rewrite (run_cfg_eq P enc pick wire true false), (run_cfg_eq P enc pick wire_go true false). reflexivity. Qed.

(* the model of this file under the code as it is IS the model of Props/C02Compose.v (flag = BTreeRebalancing of the
   call's configuration), for any value of its wall-clock parameter *)
Theorem compose_cfg_as_built P enc pick delay cf st o :
  c_step_cfg P enc pick wire_go cf st o = c_step P enc (fw_rebalance cf) delay pick st o.
Proof. apply step_cfg_eq. Qed.

(* the flag and the clock of the existing composed model are irrelevant as well (every history, every state) *)
Theorem compose_flag_irrelevant P enc pick rb d rb' d' st h :
  c_run P enc rb d pick st h = c_run P enc rb' d' pick st h.
Proof. rewrite <- (run_cfg_eq P enc pick wire_go rb d h [] st), <- (run_cfg_eq P enc pick wire_go rb' d' h [] st). reflexivity. Qed.

(* what a reader sees after reopen *)
Theorem compose_config_irrelevant_read P enc dec pick wire cfs h :
  let a := c_run_cfg P enc pick wire cfs cinit h in
  let b := c_run_cfg P enc pick wire_go [] cinit h in
  snd a = snd b /\ c_read_msgs enc (fst a) = c_read_msgs enc (fst b) /\ c_read_attrs dec (fst a) = c_read_attrs dec (fst b).
Proof. cbv zeta. rewrite (compose_config_irrelevant P enc pick wire cfs cinit h). repeat split. Qed.

(* run-time configuration calls between attribute calls *)
Theorem compose_toggles_irrelevant P enc pick wire cf l :
  c_run_ev P enc pick wire cf cinit l = c_run_cfg P enc pick wire_go [] cinit (ops_of l).
Proof. rewrite (run_ev_eq P enc pick wire true false), (run_cfg_eq P enc pick wire_go true false). reflexivity. Qed.

(* with C02's composition theorems: under every configuration list / wiring the answers and the listing after reopen
   are those of the abstract attribute model, and (no hash collision among the names used) those of the map *)
Theorem compose_config_simulation P enc pick wire cfs : params_match P ->
  (forall a sz, encode_attr a = EncOk sz -> FHeap.len (enc a) = sz) ->
  forall h cst rs, c_run_cfg P enc pick wire cfs cinit h = (cst, rs) ->
  rs = snd (run BT2.jenkins P init h) /\
  c_read_msgs enc cst = option_map (map enc) (read_attrs (fst (run BT2.jenkins P init h))).
Proof.
  intros PM EL h cst rs R. rewrite (run_cfg_eq P enc pick wire true false) in R.
  exact (compose_simulation P enc true false pick PM EL h cst rs R).
Qed.

Theorem compose_config_refines_map P enc pick wire cfs : params_match P ->
  (forall a sz, encode_attr a = EncOk sz -> FHeap.len (enc a) = sz) ->
  forall h cst rs, NoHashCollision BT2.jenkins (names h) ->
  c_run_cfg P enc pick wire cfs cinit h = (cst, rs) ->
  exists l, c_read_msgs enc cst = Some (map enc l) /\ NoDup (map aname l) /\
            (forall n, attr_get l n = sp_get (run_spec [] h rs) n) /\ results_ok [] h rs.
Proof.
  intros PM EL h cst rs NC R. rewrite (run_cfg_eq P enc pick wire true false) in R.
  exact (compose_refines_map P enc true false pick PM EL h cst rs NC R).
Qed.

Theorem compose_toggles_refines_map P enc pick wire cf : params_match P ->
  (forall a sz, encode_attr a = EncOk sz -> FHeap.len (enc a) = sz) ->
  forall l cst rs, NoHashCollision BT2.jenkins (names (ops_of l)) ->
  c_run_ev P enc pick wire cf cinit l = (cst, rs) ->
  exists al, c_read_msgs enc cst = Some (map enc al) /\ NoDup (map aname al) /\
            (forall n, attr_get al n = sp_get (run_spec [] (ops_of l) rs) n) /\ results_ok [] (ops_of l) rs.
Proof.
  intros PM EL l cst rs NC R. rewrite (run_ev_eq P enc pick wire true false) in R.
  exact (compose_refines_map P enc true false pick PM EL (ops_of l) cst rs NC R).
Qed.

(* ------------------------------------------------------------------ the statements are not vacuous *)

(* under a lazy wiring the lazy entry point IS taken on the loaded object and leaves a lazy state behind (threshold 50
   thousandths; after the delete one record is left, below half of 371: underflow 1/1 reaches the threshold, the batch
   runs and resets the counters), where the code as it is leaves none; the records are the same *)
Definition ex_bt : BT2.bt2 :=
  fst (BT2.insert_record (fst (BT2.insert_record (BT2.new_bt NODE) [97] 1)) [98] 2).

Example ex_lazy_entry_taken :
  let cf := mkFw false (Some (mkLazyCfg 50 false)) false false in
  BT2.is_lazy_enabled (BT2.setup_mode (wire_all cf) ex_bt) = true /\
  BT2.lazy (fst (dense_delete_switch (wire_all cf) (fw_rebalance cf) ex_bt [97])) = Some (BT2.mkLazy 50 0 1 0) /\
  BT2.lazy (fst (dense_delete_switch (wire_go cf) (fw_rebalance cf) ex_bt [97])) = None /\
  BT2.recs (fst (dense_delete_switch (wire_all cf) (fw_rebalance cf) ex_bt [97]))
  = BT2.recs (fst (dense_delete_switch (wire_go cf) (fw_rebalance cf) ex_bt [97])) /\
  List.length (BT2.recs (fst (dense_delete_switch (wire_all cf) (fw_rebalance cf) ex_bt [97]))) = 1%nat.
Proof. vm_compute. repeat split; reflexivity. Qed.

(* the four kinds of configuration give four different modes under wire_all, two under wire_go *)
Example ex_wirings :
  wire_all (mkFw true (Some (mkLazyCfg 10 true)) true false) = BT2.MIncremental 10 true /\
  wire_all (mkFw true (Some (mkLazyCfg 10 true)) false true) = BT2.MLazy 10 true /\
  wire_all (mkFw false None true true) = BT2.MOff /\ wire_all fw_default = BT2.MImmediate /\
  wire_go (mkFw false (Some (mkLazyCfg 10 true)) true true) = BT2.MOff.
Proof. repeat split. Qed.
