(* C03 end to end, depth 1: the CONTENT invariant for histories whose creations are all linked into the root group.
   FlatInv st nodes: the file is the superblock, the root group item (segment + node agreeing with a name list by the layout
   invariant gwf of Proofs/GroupNSHeap.v), and the items created so far, each an EMPTY group exactly as alloc_group wrote it or a
   dataset whose header block holds a header the reader accepts; entry i of the root node = (offset of name i, header address
   of an item); [nodes] = the children hdf5.Open must list.  CreateGroup / CreateDataset under the root preserve it and append
   exactly the expected child when (and only when) they succeed. *)
From HV Require Import Base.Prelude Base.Outcome Base.Bytes Model.RobustAlloc Model.RobustGroup Model.GroupWire.
From HV Require Import Model.CodecSuper Model.CodecOhdr Model.CodecMsg Model.CodecType Model.CodecLink Model.IOProgOpen.
From HV Require Import Proofs.CodecOhdr Proofs.CodecLink Proofs.GroupWireHeap Proofs.GroupWireSnod.
From HV Require Import Model.FileImage Model.TreeImage Proofs.FileImage Proofs.FileImageOhdr Proofs.FileImageData.
From HV Require Import Proofs.TreeImageLink Proofs.TreeImageHdr Proofs.TreeImageOpen Proofs.TreeImagePlaced.
From HV Require Model.GroupNS Proofs.GroupNSBase Proofs.GroupNSHeap.
Module GH := HV.Proofs.GroupNSHeap.

Local Open Scope N_scope.

Definition hb0 : list N := enc_ohdr_v2 root_ohdr.
Lemma blen_hb0 : blen hb0 = 27. Proof. reflexivity. Qed.

(* a dataset header the depth-1 reader theorem accepts, with room for the two bytes its header lemma wants behind it *)
Definition dset_hdr_ok (x : ohdr) : Prop :=
  ohdr_ok x /\ chunk_size_v2 (oh_msgs x) <= 253 /\ no_attr (oh_msgs x) = true /\ kind_of (oh_msgs x) = 1 /\
  (length (oh_msgs x) <= 4)%nat.

Inductive ItemChild (a : N) : item -> N -> child -> Prop :=
| IC_group : ItemChild a (new_group_item a) (a + 2120) (CGroup (zeros 256) (new_snode 32))
| IC_dset d x : dset_hdr_ok x -> ItemChild a (IDset d (ohdr_block x)) (a + blen d) (CDset x).
Definition EntryItem (rest : list item) (oa : N) (c : child) : Prop :=
  exists l1 it l2, rest = l1 ++ it :: l2 /\ ItemChild (2195 + lsize l1) it oa c.

Lemma EntryItem_app rest it oa c : EntryItem rest oa c -> EntryItem (rest ++ [it]) oa c.
Proof. intros (l1 & x & l2 & -> & H). exists l1, x, (l2 ++ [it]). split; [now rewrite <- app_assoc | exact H]. Qed.

Lemma blen_ohdr_block x : chunk_size_v2 (oh_msgs x) <= 255 -> blen (ohdr_block x) = 262.
Proof. intros H. unfold ohdr_block. rewrite blen_app, blen_zeros, ohdr_v2_blen. unfold size_ohdr_v2, OHDR_RESERVE. blia. Qed.

Definition root_item (seg : list N) (s : snode) : item := IGroup seg s hb0.
Definition flat_lay (seg : list N) (s : snode) (rest : list item) : list item := root_item seg s :: rest.
Lemma lsize_flat seg s rest : 48 + lsize (flat_lay seg s rest) = 2195 + lsize rest.
Proof. cbn [flat_lay lsize root_item item_size]. rewrite blen_hb0. blia. Qed.

Definition FlatInv (st : tstate) (nodes : list node) : Prop :=
  exists seg s rest cs ns,
    t_file st = image (flat_lay seg s rest) /\
    blen seg = 256 /\ snode_ok s = true /\ (length (stn_entries s) <= 32)%nat /\ Forall item_ok rest /\
    GH.gwf seg (map abs_sym (stn_entries s)) ns /\ map fst cs = ns /\
    Forall2 (fun e nc => sy_cache e = 0 /\ EntryItem rest (sy_obj e) (snd nc)) (stn_entries s) cs /\
    NoDup (1624 :: loop_bts (stn_entries s) cs) /\
    Forall (fun b => b < 2195 + lsize rest) (1624 :: loop_bts (stn_entries s) cs) /\
    nodes = loop_nodes (stn_entries s) cs.

Lemma flat_init : FlatInv t_init [].
Proof.
  exists (zeros 256), (new_snode 32), [], [], []. split; [vm_compute; reflexivity|].
  split; [reflexivity|]. split; [reflexivity|]. split; [cbn; lia|]. split; [constructor|].
  split; [exact (GH.gwf_empty 256)|]. split; [reflexivity|]. split; [constructor|].
  split; [cbn [loop_bts stn_entries new_snode]; constructor; [intros []|constructor]|].
  split; [cbn [loop_bts stn_entries new_snode lsize]; constructor; [reflexivity|constructor]|]. reflexivity.
Qed.

(* ------------------------------------------------------------------ prepareLink, inverted *)
Lemma prepare_link_inv st parent nm child ha sa : prepare_link st parent nm child = Ok (ha, sa) ->
  NS.heap_name_ok nm = true /\ parent_addrs st parent = Some (ha, sa) /\
  exists data s0, load_local_heap (t_file st) ha 8 8 = Ok data /\ parse_snod (t_file st) sa 8 = Ok s0 /\
                  existsb (sym_has_name data nm) (stn_entries s0) = false.
Proof.
  unfold prepare_link. destruct (NS.heap_name_ok nm); [|discriminate]. cbn [negb].
  destruct (parent_addrs st parent) as [[a b]|]; [|discriminate].
  destruct (load_local_heap (t_file st) a 8 8) as [data| |] eqn:E1; cbn [obind]; try discriminate.
  destruct (parse_snod (t_file st) b 8) as [s| |] eqn:E2; cbn [obind]; try discriminate.
  destruct (existsb (sym_has_name data nm) (stn_entries s)) eqn:E; [discriminate|].
  destruct (add_string (prepare_for_modification data) nm) as [[off h]| |]; cbn [obind]; try discriminate.
  destruct (add_entry s (new_sym off child)) as [s'| |]; cbn [obind]; try discriminate.
  intros H. inversion H; subst. split; [reflexivity|]. split; [reflexivity|]. exists data, s. auto.
Qed.

Lemma sym_has_name_abs (seg : list N) nm e : sym_has_name seg nm e = NS.entry_has_name seg nm (abs_sym e).
Proof.
  unfold sym_has_name, NS.entry_has_name, NS.name_of. cbn [abs_sym NS.e_off]. rewrite get_string_agrees.
  destruct (NS.get_string seg (sy_name e)); reflexivity.
Qed.
Lemma existsb_map {A B} (g : A -> B) (p : B -> bool) l : existsb p (map g l) = existsb (fun x => p (g x)) l.
Proof. induction l as [|x r IH]; [reflexivity|]. cbn [map existsb]. now rewrite IH. Qed.

Lemma existsb_abs (seg : list N) nm es :
  existsb (sym_has_name seg nm) es = existsb (NS.entry_has_name seg nm) (map abs_sym es).
Proof. induction es as [|e r IH]; [reflexivity|]. cbn [map existsb]. now rewrite IH, sym_has_name_abs. Qed.

(* the root item of a flat image is a group_file *)
Lemma flat_image_group_file seg s rest : blen seg = 256 ->
  image (flat_lay seg s rest) = group_file sb0 [] (bt_block 336 ++ hb0 ++ layout 2195 rest) seg s.
Proof.
  intros Hs. unfold image, flat_lay, root_item, group_file, heap_file. cbn [layout item_bytes item_size app].
  rewrite Hs, blen_hb0. change (blen sb0) with 48. change (48 + 32) with 80. change (48 + 288) with 336.
  change (48 + (2120 + 27)) with 2195. rewrite <- !app_assoc. reflexivity.
Qed.

(* linkToParent into the ROOT of a flat image *)
Lemma link_root st seg s rest ns parent nm oa f2 :
  t_file st = image (flat_lay seg s rest) -> blen seg = 256 -> snode_ok s = true -> (length (stn_entries s) <= 32)%nat ->
  GH.gwf seg (map abs_sym (stn_entries s)) ns -> oa < 18446744073709551616 ->
  NS.is_root_parent parent = true ->
  link_to_parent st parent nm oa = Ok f2 ->
  exists seg' s1 off, f2 = image (flat_lay seg' s1 rest) /\ blen seg' = 256 /\ snode_ok s1 = true /\
    stn_entries s1 = stn_entries s ++ [new_sym off oa] /\ (length (stn_entries s1) <= 32)%nat /\
    GH.gwf seg' (map abs_sym (stn_entries s1)) (ns ++ [nm]).
Proof.
  intros Hf Hs Hok Hm Hg Hoa Hroot H. unfold link_to_parent in H.
  destruct (prepare_link st parent nm oa) as [[ha sa]| |] eqn:EP; try discriminate. cbn [obind] in H.
  destruct (prepare_link_inv _ _ _ _ _ _ EP) as (Hnm & Hpa & data & s0 & Hld & Hps & Hdup).
  unfold parent_addrs in Hpa. rewrite Hroot in Hpa. inversion Hpa; subst ha sa. clear Hpa.
  change HEAP_ADDR with 48 in *. change SNOD_ADDR with 336 in *.
  rewrite Hf, (flat_image_group_file seg s rest Hs) in *.
  set (suf := bt_block 336 ++ hb0 ++ layout 2195 rest) in *.
  (* what prepareLink read *)
  assert (Hdata : data = seg).
  { unfold group_file in Hld. change 48 with (blen sb0) in Hld. rewrite load_heap_file in Hld by (rewrite Hs, MaxInt64_val; change (blen sb0) with 48; blia).
    now inversion Hld. }
  assert (Hs0 : s0 = s).
  { rewrite group_file_split in Hps. rewrite app_nil_r in Hps.
    replace 336 with (blen (sb0 ++ heap_header (blen seg) 1 (blen sb0 + 32) ++ seg)) in Hps
      by (rewrite !blen_app, blen_heap_header, Hs; reflexivity).
    rewrite (parse_snod_bytes s 32 _ suf Hok Hm) in Hps; [now inversion Hps|].
    rewrite !blen_app, blen_heap_header, Hs, MaxInt64_val. change (blen sb0) with 48. blia. }
  subst data s0.
  assert (Hnin : ~ In nm ns).
  { intros Hin. apply (GH.dup_check_iff _ _ _ nm Hg) in Hin. rewrite <- existsb_abs in Hin. congruence. }
  assert (Hhn : GH.hname_ok nm) by (now apply GH.heap_name_ok_iff).
  change (link_both (group_file sb0 [] suf seg s) 48 336 nm oa = Ok f2) in H.
  pose proof (link_both_commutes sb0 [] suf seg s nm oa Hok Hm Hoa) as C.
  change (blen sb0) with 48 in C. rewrite Hs in C. change (blen []) with 0 in C. change (48 + 32 + 256 + 0) with 336 in C.
  specialize (C ltac:(rewrite MaxInt64_val; blia)). cbv zeta in C.
  destruct (GH.heap_link seg (map abs_sym (stn_entries s)) ns nm Hg Hhn Hnin) as [_ HL].
  destruct (NS.add_string (NS.prepare_for_modification seg) nm) as [[off h1]|] eqn:EA; [|rewrite C in H; discriminate].
  destruct C as [Hlen C]. destruct (HL off h1 eq_refl) as (_ & _ & Hg').
  destruct (NS.add_entry (NS.parse_snod 32 (map abs_sym (stn_entries s))) {| NS.e_off := off; NS.e_obj := oa |}) as [n1|] eqn:EE;
    [|destruct C as [C _]; rewrite C in H; discriminate].
  destruct C as (s1 & H1 & H2 & H3 & H4). rewrite H4 in H. inversion H; subst f2.
  exists (snd (NS.write_to h1)), s1, off.
  assert (Hlen' : blen (snd (NS.write_to h1)) = 256) by (first [exact Hlen | now rewrite Hlen]).
  split; [symmetry; now apply flat_image_group_file|]. split; [exact Hlen'|]. split; [exact H1|]. split; [exact H2|]. split.
  - rewrite H2, app_length. cbn [length]. pose proof (add_entry_room _ _ _ EE). lia.
  - rewrite H2, map_app. cbn [map]. exact (Hg' oa).
Qed.
