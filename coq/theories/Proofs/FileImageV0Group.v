(* C01 end to end, superblock version 0, group stages: on image_v0 the reader programs return
     p_ohdr at 96            the VERSION 1 root header with the symbol table message (B-tree 136, heap 1480)
     p_local_heap at 1480    the heap segment, in which the string at offset 0 is the link name
     p_group_btree at 136    the single symbol table entry (name offset 0, the dataset's object header address) *)
From HV Require Import Base.Prelude Base.Outcome Base.Bytes Model.IOProg Proofs.IOProg Model.IOProgReader.
From HV Require Import Model.CodecSuper Model.CodecOhdr Model.CodecMsg Model.CodecType Model.CodecLink Model.GroupWire.
From HV Require Import Proofs.CodecSuper Proofs.CodecOhdr.
From HV Require Import Model.FileImage Proofs.FileImage Proofs.FileImageOhdr Proofs.FileImageData Proofs.FileImageGroup.
From HV Require Import Model.FileImageV0 Proofs.FileImageV0.

(* evaluate a closed pure decoding step *)
Ltac eval_lift :=
  match goal with |- context [lift ?e] => let v := eval vm_compute in e in change e with v end.

Definition root0_msgs : list hmsg' := [ {| hmp_type := 17; hmp_offset := 112; hmp_data := root0_mdata |} ].

(* ------------------------------------------------------------------ a version 1 header with one symbol table message *)
Section Root.
Variable f : bytes.
Hypothesis HP : placed f 96 (root0_prefix ++ root0_mhdr ++ root0_mdata).

Lemma P0_root_prefix : placed f 96 root0_prefix.
Proof. exact (placed_head _ _ _ _ HP). Qed.
Lemma P0_root_mhdr : placed f 112 root0_mhdr.
Proof. exact (placed_sub f 96 root0_prefix root0_mhdr root0_mdata HP). Qed.
Lemma P0_root_mdata : placed f 120 root0_mdata.
Proof.
  pose proof HP as H. rewrite app_assoc in H. apply placed_tail in H. exact H.
Qed.

Lemma v1_block_end fuel : run0 f (p_v1_block SB0' (S fuel) 136 136 1 1) = Ok [].
Proof. cbn [p_v1_block]. change (136 <? 136) with false. reflexivity. Qed.

Lemma v1_block_root fuel : run0 f (p_v1_block SB0' (S (S fuel)) 112 136 0 1) = Ok root0_msgs.
Proof.
  pose proof (v1_block_end fuel) as HE. set (fuel' := S fuel) in *. clearbody fuel'.
  cbn [p_v1_block].
  change (112 <? 136) with true. change (1 <=? 0) with false. change (136 <? wrap64 (112 + 8)) with false. cbv iota.
  rewrite (run0_read_exact _ f 112 root0_mhdr 8 _ P0_root_mhdr eq_refl).
  cbn [spp_bigendian SB0']. eval_lift. cbn [lift bind fst snd].
  change (16 =? 0) with false. change (136 <? wrap64 (112 + 8 + 16)) with false. cbv iota.
  change (wrap64 (112 + 8)) with 120.
  rewrite (run0_read_exact _ f 120 root0_mdata 16 _ P0_root_mdata eq_refl).
  change (wrap64 (112 + pad_to8 (8 + 16))) with 136. change (wrap16 (0 + 1)) with 1.
  rewrite run0_bind, HE. reflexivity.
Qed.

Lemma v1_header_root fuel : run0 f (p_v1_header SB0' (S (S fuel)) 96) = Ok (root0_msgs, [], 1).
Proof.
  unfold p_v1_header.
  rewrite (run0_read_exact _ f 96 root0_prefix 16 _ P0_root_prefix eq_refl).
  cbn [spp_bigendian SB0'].
  change (index root0_prefix 0) with (@Ok N 1). cbn [lift bind]. change (1 =? 1) with true. cbn [negb]. cbv iota.
  eval_lift. cbn [lift bind fst snd].
  change (wrap64 (96 + 16)) with 112. change (wrap64 (96 + 16 + 24)) with 136.
  rewrite run0_bind, v1_block_root.
  change (find_conts SB0' root0_msgs) with (@nil (N * N)). change (name_v1 root0_msgs) with (@nil N).
  cbn [p_v1_conts]. reflexivity.
Qed.

Definition root0_hdr : ohdr' :=
  {| ohp_version := 1; ohp_flags := 0; ohp_refcount := 1; ohp_name := []; ohp_msgs := root0_msgs |}.

Theorem root0_header_gen fuel : run0 f (p_ohdr SB0' (S (S fuel)) 96) = Ok root0_hdr.
Proof.
  unfold p_ohdr. change (9223372036854775808 <=? 96) with false. cbv iota.
  rewrite (run0_read_placed0 _ f 96 root0_prefix 8 _ P0_root_prefix) by (change (blen root0_prefix) with 16; blia).
  change (rd root0_prefix 0 8) with [1; 0; 1; 0; 1; 0; 0; 0]. cbv beta zeta.
  change (bytes_eqb (firstn 4 [1; 0; 1; 0; 1; 0; 0; 0]) OHDR) with false.
  change (bytes_eqb (rev (firstn 4 [1; 0; 1; 0; 1; 0; 0; 0])) OHDR) with false. cbv iota.
  eval_lift. cbn [lift bind fst snd]. change ((1 =? 1) && (0 =? 0)) with true. cbv iota.
  rewrite run0_bind, v1_header_root. reflexivity.
Qed.
End Root.

(* one symbol table entry with a symbolic object address (Proofs/FileImageGroup.v snod_entries_one for SB0') *)
Lemma snod_entries_one0 (X : bytes) : length X = 8%nat ->
  snod_entries SB0' 1 (le 8 0 ++ X ++ le 4 0 ++ le 4 0 ++ zeros 16) 0 = Ok [(0, unle X, 0, 0, 0)].
Proof.
  intros H. do 9 (destruct X as [|? X]; try discriminate). vm_compute. reflexivity.
Qed.

Section Image.
Variable name : bytes.
Variables class size cbf : N.
Variable dims : list N.
Variable data : bytes.
Hypothesis Hname : link_name_ok name = true.
Hypothesis Hbound : blen data < 4294967296.

Local Notation f := (image_v0 name class size cbf dims data).
Local Notation da := (dset_addr0 data).
Local Notation seg := ((name ++ [0]) ++ zeros (N.to_nat (256 - (blen name + 1)))).

(* ------------------------------------------------------------------ root object header (version 1) *)
Theorem root0_header fuel : (1 < fuel)%nat -> run0 f (p_ohdr SB0' fuel 96) = Ok root0_hdr.
Proof using. clear Hname Hbound.
  intros Hf. destruct fuel as [|[|n]]; try blia. apply root0_header_gen.
  rewrite <- root0_block_bytes. apply P0_root.
Qed.
Lemma P0_root_sig : placed f 96 [1; 0; 1; 0].
Proof using. clear Hname Hbound.
  pose proof (P0_root name class size cbf dims data) as H. rewrite root0_block_bytes in H.
  change root0_prefix with ([1; 0; 1; 0] ++ [1; 0; 0; 0; 24; 0; 0; 0; 0; 0; 0; 0]) in H.
  rewrite <- !app_assoc in H. apply placed_head in H. exact H.
Qed.

(* ------------------------------------------------------------------ local heap *)
Lemma P0_heap_hdr : placed f 1480 (heap_header 256 1 1512).
Proof using Hname. clear - Hname.
  pose proof (P0_heap name class size cbf dims data) as H. rewrite (heap0_block_bytes name Hname) in H.
  apply placed_head in H. exact H.
Qed.
Lemma P0_heap_seg : placed f 1512 seg.
Proof using Hname. clear - Hname.
  pose proof (P0_heap name class size cbf dims data) as H. rewrite (heap0_block_bytes name Hname) in H.
  apply placed_tail in H. exact H.
Qed.
Theorem heap_stage0 : run0 f (p_local_heap SB0' 1480) = Ok seg.
Proof using Hname. clear - Hname.
  unfold p_local_heap. cbn [SB0' spp_offsize spp_lensize spp_bigendian]. change (8 + 2 * 8 + 8) with 32.
  rewrite (run0_read_exact _ f 1480 (heap_header 256 1 1512) 32 _ P0_heap_hdr eq_refl).
  change (run0 f (p_read_bytes_at 1512 256) = Ok seg).
  apply run0_read_bytes_at; [exact P0_heap_seg | symmetry; exact (heap_seg_len name Hname) | blia | unfold MAXI64; blia].
Qed.

(* ------------------------------------------------------------------ B-tree node and symbol table node *)
Lemma da0_u64 : da < 256 ^ 8.
Proof using Hbound. clear - Hbound. unfold dset_addr0. change DATA0_ADDR with 1768. change (256 ^ 8) with 18446744073709551616. blia. Qed.

Theorem snod_stage0 : run0 f (p_snod SB0' 192) = Ok [(0, da, 0, 0, 0)].
Proof using Hbound. clear - Hbound.
  pose proof (P0_snod name class size cbf dims data) as HP. rewrite snod0_block_bytes in HP.
  unfold p_snod. cbn [SB0' spp_offsize spp_lensize spp_bigendian].
  rewrite (run0_read_exact _ f 192 [83; 78; 79; 68; 1; 0; 1; 0] 8 _ (placed_head _ _ _ _ HP) eq_refl).
  change (run0 f (ReadAt (192 + 8) 40 (fun d => lift (snod_entries SB0' 1 d 0))) = Ok [(0, da, 0, 0, 0)]).
  assert (HP2 : placed f (192 + 8) (enc_sym 8 (final_sym0 data))).
  { apply (placed_sub f 192 [83; 78; 79; 68; 1; 0; 1; 0] _ (zeros 1240)). exact HP. }
  rewrite (run0_read_exact _ f (192 + 8) _ 40 _ HP2) by (symmetry; apply enc_sym_len).
  unfold enc_sym, write_address, final_sym0. cbn [sy_name sy_obj sy_cache sy_res N.to_nat Pos.to_nat Pos.iter_op Nat.add].
  rewrite snod_entries_one0 by apply length_le.
  rewrite unle_le_small by exact da0_u64. reflexivity.
Qed.

Theorem btree_stage0 : run0 f (p_group_btree SB0' 136) = Ok [(0, da, 0, 0, 0)].
Proof using Hbound. clear - Hbound.
  pose proof (P0_bt name class size cbf dims data) as HP. rewrite bt0_block_bytes in HP.
  unfold p_group_btree. cbn [SB0' spp_offsize spp_lensize spp_bigendian]. change (8 + 2 * 8) with 24.
  assert (HP1 : placed f 136 bt0_hdr) by (apply (placed_head _ _ _ _ HP)).
  rewrite (run0_read_exact _ f 136 _ 24 _ HP1 eq_refl).
  change (run0 f (ReadAt (136 + 24) 24 (fun d => bind (lift (btree_children SB0' 1 d 0)) (p_snods SB0'))) = Ok [(0, da, 0, 0, 0)]).
  assert (HP2 : placed f (136 + 24) bt0_keys).
  { apply (placed_sub f 136 bt0_hdr _ (zeros 8)). exact HP. }
  rewrite (run0_read_exact _ f (136 + 24) _ 24 _ HP2 eq_refl).
  change (run0 f (bind (p_snod SB0' 192) (fun es => bind (Ret []) (fun rest => Ret (es ++ rest)))) = Ok [(0, da, 0, 0, 0)]).
  rewrite run0_bind, snod_stage0. reflexivity.
Qed.

Lemma P0_bt_sig : placed f 136 [84; 82; 69; 69].
Proof using. clear Hname Hbound.
  pose proof (P0_bt name class size cbf dims data) as H. rewrite bt0_block_bytes in H.
  change bt0_hdr with ([84; 82; 69; 69] ++ [0; 0; 1; 0] ++ le 8 UNDEF ++ le 8 UNDEF) in H.
  rewrite <- !app_assoc in H. apply placed_head in H. exact H.
Qed.
Lemma P0_dset_sig : placed f da [79; 72; 68; 82].
Proof using Hname. clear - Hname.
  pose proof (P0_dset name class size cbf dims data Hname) as H.
  unfold dset_block0, enc_ohdr_v2 in H. rewrite <- !app_assoc in H. apply placed_head in H. exact H.
Qed.
End Image.
