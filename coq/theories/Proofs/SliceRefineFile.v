(* C09 at file level, head stage: on image_v2 the common head of ReadSlice / ReadHyperslab (ReadObjectHeader, first dataspace
   message, the caller's checks) and readHyperslab's message decoding / datatype gate / second validation reduce the program to
   the contiguous reader on the data block at DATA_ADDR. *)
From HV Require Import Base.Prelude Base.Outcome Base.Bytes Model.IOProg Proofs.IOProg Model.IOProgReader Model.IOProgSlice.
From HV Require Import Model.CodecSuper Model.CodecOhdr Model.CodecMsg Model.CodecType.
From HV Require Import Proofs.CodecSuper Proofs.CodecOhdr Proofs.CodecMsg Proofs.CodecType.
From HV Require Import Model.FileImage Proofs.FileImage Proofs.FileImageOhdr Proofs.FileImageData Model.SliceRefine.

Lemma SBI_eq : SBI = SB'.
Proof. reflexivity. Qed.

(* what readHyperslab does after the messages are decoded, for (datatype class/size, dims, contiguous at addr) *)
Definition after_decode (class size : N) (dims : list N) (addr : N) (s : sel) : prog slicedata :=
  if negb (((class =? 1) || (class =? 0)) && ((size =? 4) || (size =? 8))) then Fail else
  if out_size s =? 0 then (if (length (count s) <? length dims)%nat then Crash else Ret SlEmpty)
  else match validate (refill s) dims with
       | None => Fail
       | Some s' => p_slice_contig s' dims size addr
       end.

Section Image.
Variable name : bytes.
Variables class size cbf : N.
Variable dims : list N.
Variable data : bytes.
Hypothesis Hname : link_name_ok name = true.
Hypothesis Hdt : basic_dtype class size cbf = true.
Hypothesis Hdims : dims_ok dims = true.
Hypothesis Hlen : blen data = total_elems dims * size.
Hypothesis Hbound : blen data < 4294967296.
Local Notation f := (image_v2 name class size cbf dims data).
Local Notation da := (dset_addr data).

Lemma slice_head fuel (check : list N -> option sel) : (3 < fuel)%nat ->
  run0 f (api_slice_with SB' fuel da check) =
  match check dims with
  | None => Err
  | Some s => run0 f (after_decode class size dims DATA_ADDR s)
  end.
Proof.
  intros Hf. unfold api_slice_with. rewrite run0_bind, (dset_header name class size cbf dims data Hname Hdt Hdims Hlen Hbound fuel Hf).
  rewrite run0_swallow.
  unfold proj_ohdr_v2, dset_ohdr. cbn [oh_msgs oh_flags msgs_at_v2 ohp_msgs hm_type hm_data].
  assert (Hattrs : forall m3 m1 m8 o3 o1 o8,
    p_attrs SB' [ {| hmp_type := 3; hmp_offset := o3; hmp_data := m3 |}; {| hmp_type := 1; hmp_offset := o1; hmp_data := m1 |};
                  {| hmp_type := 8; hmp_offset := o8; hmp_data := m8 |} ] = Ret []) by reflexivity.
  rewrite Hattrs. cbn [bind]. rewrite run0_ret.
  unfold first_msg. cbn [find hmp_type hmp_data N.eqb Pos.eqb].
  rewrite (dataspace_roundtrip _ (wf_ds dims Hdims)).
  cbn [lift bind proj_dataspace dsp_dims ds_dims].
  destruct (check dims) as [s|]; [|reflexivity].
  unfold p_read_hyperslab.
  cbn [find_msg fold_left hmp_type hmp_data N.eqb Pos.eqb].
  rewrite (datatype_roundtrip _ (wf_dt class size cbf Hdt)), (dataspace_roundtrip _ (wf_ds dims Hdims)).
  change (sbp SB') with SBP. rewrite (layout_roundtrip _ _ (wf_ly size dims data Hlen Hbound)).
  cbn [obind lift bind fst snd proj_dataspace proj_layout dsp_type dsp_dims ds_dims ly_class ly_addr ly_compact ly_chunk N.eqb Pos.eqb].
  assert (Hcs : dt_class (proj_datatype (dtype_msg class size cbf)) = class /\ dt_size (proj_datatype (dtype_msg class size cbf)) = size).
  { unfold proj_datatype, dtype_msg. cbn [dt_class dt_size].
    destruct (dtype_cases class size cbf Hdt) as [(-> & _)|(-> & _)]; split; reflexivity. }
  destruct Hcs as [Hc Hs]. rewrite Hc, Hs. unfold after_decode.
  destruct (negb (((class =? 1) || (class =? 0)) && ((size =? 4) || (size =? 8)))); [reflexivity|].
  destruct (out_size s =? 0); [reflexivity|].
  destruct (validate (refill s) dims); reflexivity.
Qed.
End Image.
