(* C09 at file level: Dataset.ReadHyperslab as an I/O program on the whole-file image of a contiguous dataset returns the
   selection of the written data; invalid selections and element sizes other than 4 / 8 bytes are errors. *)
From HV Require Import Base.Prelude Base.Outcome Base.Bytes Model.IOProg Proofs.IOProg Model.IOProgReader Model.IOProgSlice.
From HV Require Import Model.CodecSuper Model.CodecType Model.FileImage Proofs.FileImage Proofs.FileImageOhdr Proofs.FileImageData
  Proofs.FileImageProd Proofs.FileImageMain.
From HV Require Import Model.SliceRefine Proofs.SliceRefineBytes Proofs.SliceRefineArith Proofs.SliceRefineValidate
  Proofs.SliceRefineMain Proofs.SliceRefineFile.
From HV Require Proofs.HyperslabBase Proofs.HyperslabValidate Proofs.HyperslabContig.
Module HVa := HV.Proofs.HyperslabValidate.
Module HCo := HV.Proofs.HyperslabContig.

Lemma product_prodN : forall dims acc, fold_left N.mul dims acc = acc * Hs.prodN dims.
Proof. induction dims as [|d r IH]; intros acc; cbn [fold_left Hs.prodN]; [lia|]. rewrite IH. lia. Qed.
Lemma product_eq dims : product dims = Hs.prodN dims.
Proof. unfold product. rewrite product_prodN. lia. Qed.

Lemma dims_ok_u64 dims : dims_ok dims = true -> Forall Hs.u64 dims.
Proof.
  intros H. unfold dims_ok in H. apply andb_true_iff in H as [_ H]. rewrite forallb_forall in H. apply Forall_forall.
  intros x Hx. specialize (H x Hx). apply andb_true_iff in H as [_ H]. apply N.ltb_lt in H. unfold Hs.u64, Hs.u64max. lia.
Qed.
Lemma dims_ok_ne dims : dims_ok dims = true -> dims <> [].
Proof. intros H E. subst. discriminate. Qed.

Section Top.
Variable name : bytes.
Variables class size cbf : N.
Variable dims : list N.
Variable data : bytes.
Hypothesis Hname : link_name_ok name = true.
Hypothesis Hdt : basic_dtype class size cbf = true.
Hypothesis Hdims : dims_ok dims = true.
Hypothesis Hlen : blen data = product dims * size.
Hypothesis Hbound : blen data < 4294967296.
Local Notation f := (image_v2 name class size cbf dims data).
Local Notation da := (dset_addr data).

Let HL' := Hlen' class size cbf dims data Hdt Hdims Hlen Hbound.

(* after the caller's check accepted the filled selection of a VALID request on a 4- or 8-byte type *)
Lemma after_decode_valid (s : selection) : size = 4 \/ size = 8 ->
  HVa.u64_sel (hsel_of s) (length dims) -> Hs.valid (hsel_of s) dims -> Hs.prodN (s_count s) <= Hs.max_hyperslab_elements ->
  exists sd, run0 f (after_decode class size dims DATA_ADDR (fill s (length dims))) = Ok sd /\
    slice_value size dims [] (Hs.axes_of (hsel_of s) (length dims)) sd
    = Hs.select (evals size data) dims (Hs.axes_of (hsel_of s) (length dims)).
Proof.
  intros Hsz HU HVd Hlim.
  pose proof (dims_ok_u64 _ Hdims) as Ud. pose proof (dims_ok_ne _ Hdims) as Dne.
  pose proof (HVa.validate_complete _ _ HU Ud Dne Hlim HVd) as Vok.
  assert (Hes : 0 < size) by (destruct Hsz; subst; lia).
  assert (HlenP : blen data = Hs.prodN dims * size) by (rewrite <- product_eq; exact Hlen).
  assert (HP : Hs.prodN dims < 4294967296) by nia.
  pose proof (validate_refines s dims Ud HU) as VR. rewrite Vok in VR.
  assert (HLs : sel_lens (fill s (length dims)) (length dims)) by (apply fill_lens; rewrite VR; discriminate).
  assert (HVa' : Hs.axes_valid (axes_of_sel (fill s (length dims))) dims) by (rewrite axes_of_fill; apply HVd).
  pose proof (out_size_eq _ _ HLs HVa' HP Dne) as Eo.
  assert (Axne : axes_of_sel (fill s (length dims)) <> []).
  { intros E. pose proof (axes_of_sel_length _ _ HLs) as L. rewrite E in L. destruct dims; [congruence|discriminate]. }
  pose proof (SliceRefineFit.out_elems_pos _ _ HVa' Axne) as Hn.
  unfold after_decode.
  assert (Gate : negb (((class =? 1) || (class =? 0)) && ((size =? 4) || (size =? 8))) = false).
  { destruct (dtype_cases class size cbf Hdt) as [(-> & _)|(-> & _)]; destruct Hsz; subst; reflexivity. }
  rewrite Gate. replace (out_size (fill s (length dims)) =? 0) with false by (symmetry; apply N.eqb_neq; lia).
  rewrite (validate_refill s dims Ud HU Vok).
  assert (Hmax : DATA_ADDR + blen data <= MAXI64) by (change DATA_ADDR with 2195; unfold MAXI64; lia).
  destruct (p_slice_contig_refines f DATA_ADDR size data (P_data name class size cbf dims data Hname) Hes Hmax dims HlenP HP
              (fill s (length dims)) HLs HVa' Dne) as (sd & R & Vl).
  exists sd. split; [exact R|]. rewrite axes_of_fill in Vl, Axne. rewrite Vl.
  apply HCo.read_hyperslab_contiguous_correct; [apply HVd|exact Axne|].
  rewrite evals_lenN, HlenP. apply div_exact_mul. exact Hes.
Qed.

Theorem file_hyperslab_contiguous (s : selection) hfuel : (3 < hfuel)%nat -> size = 4 \/ size = 8 ->
  HVa.u64_sel (hsel_of s) (length dims) ->
  (Hs.valid (hsel_of s) dims -> Hs.prodN (s_count s) <= Hs.max_hyperslab_elements ->
   exists sd, run0 f (api_read_hyperslab SB' hfuel da s) = Ok sd /\
     slice_value size dims [] (Hs.axes_of (hsel_of s) (length dims)) sd
     = Hs.select (evals size data) dims (Hs.axes_of (hsel_of s) (length dims))) /\
  (~ Hs.valid (hsel_of s) dims -> run0 f (api_read_hyperslab SB' hfuel da s) = Err).
Proof.
  intros Hf Hsz HU. pose proof (dims_ok_u64 _ Hdims) as Ud. pose proof (dims_ok_ne _ Hdims) as Dne.
  unfold api_read_hyperslab. rewrite (slice_head name class size cbf dims data Hname Hdt Hdims HL' Hbound hfuel _ Hf).
  rewrite (validate_refines s dims Ud HU). split.
  - intros HVd Hlim. rewrite (HVa.validate_complete _ _ HU Ud Dne Hlim HVd). now apply after_decode_valid.
  - intros Hnv. destruct (Hs.validate (hsel_of s) dims) eqn:E; [|reflexivity].
    exfalso. apply Hnv. exact (HVa.validate_sound _ _ HU Ud E).
Qed.

(* element sizes other than 4 and 8 bytes: every request is an error (dataset_read_hyperslab.go:385) *)
Theorem file_hyperslab_small_type (s : selection) hfuel : (3 < hfuel)%nat -> size = 1 \/ size = 2 ->
  run0 f (api_read_hyperslab SB' hfuel da s) = Err.
Proof.
  intros Hf Hsz. unfold api_read_hyperslab. rewrite (slice_head name class size cbf dims data Hname Hdt Hdims HL' Hbound hfuel _ Hf).
  destruct (validate s dims); [|reflexivity]. unfold after_decode.
  replace (negb (((class =? 1) || (class =? 0)) && ((size =? 4) || (size =? 8)))) with true; [reflexivity|].
  destruct Hsz; subst; now rewrite andb_false_r.
Qed.
End Top.

Lemma program_arithmetic : forall s dims,
  sel_lens s (length dims) -> Hs.axes_valid (axes_of_sel s) dims -> Hs.prodN dims < 4294967296 -> dims <> [] ->
  out_size s = Hs.out_elems (axes_of_sel s) /\
  is_contig s dims = Hs.is_contiguous_selection (axes_of_sel s) dims /\
  (forall i, (i < length dims)%nat -> sel_idx s dims i = Hs.axis_idx (nth i (axes_of_sel s) (Hs.mkAxis 0 0 0 0))).
Proof.
  intros s dims HL HV HP Hne.
  exact (conj (out_size_eq s dims HL HV HP Hne) (conj (is_contig_eq s dims HL HV HP) (fun i => sel_idx_eq s dims i HL HV HP))).
Qed.
