(* C01 end to end, chunked: ReadSuperblock and hdf5.Open's loader on image_v2_chunked - the instance of the generic stages of
   Proofs/FileImageGenOpen.v. *)
From HV Require Import Base.Prelude Model.Chunk Base.Outcome Base.Bytes Model.RobustTerm Model.ChunkIndex.
From HV Require Import Model.IOProg Proofs.IOProg Model.IOProgReader Model.IOProgOpen.
From HV Require Import Model.CodecSuper Model.CodecOhdr Model.CodecMsg Model.CodecType Model.CodecLink Model.GroupWire.
From HV Require Import Proofs.CodecSuper Proofs.CodecOhdr.
From HV Require Import Proofs.ChunkCoords.
From HV Require Import Model.FileImage Proofs.FileImage Proofs.FileImageOhdr Proofs.FileImageData Proofs.FileImageGroup Proofs.FileImageOpen
  Proofs.FileImageProd Proofs.FileImageMain Proofs.FileImageGenOpen
  Model.FileImageChunked Proofs.ChunkRefine Proofs.FileImageChunked Proofs.FileImageChunkedRead Proofs.FileImageChunkedMain.

Local Open Scope N_scope.

Section ImageC.
Variable name : bytes.
Variables class size cbf : N.
Variables dims cdims : list N.
Variable data : bytes.
Hypothesis Hname : link_name_ok name = true.
Hypothesis Hdt : basic_dtype class size cbf = true.
Hypothesis Hdims : dims_ok_chunked dims = true.
Hypothesis Hcd : cdims_ok dims cdims = true.
Hypothesis Hlen : blen data = prodN dims * size.
Hypothesis Hbound : blen data < 4294967296.
Hypothesis Hchunk : prodN cdims * size <= 1073741824.
Hypothesis Hcap : total_chunks (num_chunks dims cdims) <= 65535.

Local Notation f := (image_v2_chunked name class size cbf dims cdims data).
Local Notation dso := (c_dset_ohdr class size cbf dims cdims data).
Local Notation dsb := (c_dset_block class size cbf dims cdims data).
Local Notation cb := (c_chunk_bytes size dims cdims data).
Local Notation leaf := (c_leaf size dims cdims data).
Local Notation blocks := (blocks_v2_chunked name class size cbf dims cdims data).
Local Notation csb := (c_sb size dims cdims data).
Local Notation Hcs := (c_dso_bound class size cbf dims cdims data Hdt Hdims Hcd Hlen Hbound Hchunk Hcap).

Lemma c_eof_bound : 2457 + 24 <= c_eof size dims cdims data <= MAXI64.
Proof using Hname Hdt Hdims Hcd Hlen Hbound Hchunk Hcap.
  pose proof (rank17 dims Hdims) as R. unfold c_eof, c_btree_addr.
  rewrite (chunks_len class size cbf dims cdims data Hdt Hdims Hcd Hlen), (c_leaf_len class size cbf dims cdims data Hdt Hdims Hcd).
  change CHUNKS_ADDR with 2457. unfold MAXI64, vol.
  set (n := total_chunks (num_chunks dims cdims)) in *.
  assert (n * (prodN cdims * size) <= 65535 * 1073741824) by (apply N.mul_le_mono; auto).
  assert (n * (16 + 8 * N.of_nat (length dims)) <= 65535 * 152) by (apply N.mul_le_mono; blia). blia.
Qed.

Lemma wf_c_sb : wf_superblock csb = true.
Proof using Hname Hdt Hdims Hcd Hlen Hbound Hchunk Hcap.
  unfold wf_superblock, c_sb, encok_superblock.
  cbn [sp_version sp_offsize sp_lensize sp_base sp_root sp_superext sp_rootbtree sp_rootheap sp_eof].
  replace (CodecSuper.u64 (c_eof size dims cdims data)) with true; [reflexivity|]. unfold CodecSuper.u64.
  symmetry. apply N.ltb_lt. pose proof c_eof_bound. unfold MAXI64 in *. blia.
Qed.

Section Open.
Variable hfuel : nat.
Hypothesis Hhf : (3 < hfuel)%nat.

Lemma open_chunked_gen n B : 1 <= B -> B = blen f / 8 + 1024 ->
  run0 f p_superblock = Ok SB' /\
  run0 f (p_open true (blen f) (S (S (S n))) hfuel) = Ok (Grp [47] 2168 [Dset name 2195]).
Proof using Hname Hdt Hdims Hcd Hlen Hbound Hchunk Hcap Hhf.
  intros HB HBe.
  pose proof (PC_sb_rest name class size cbf dims cdims data) as Psb.
  assert (HR : 80 <= blen (concat (skipn 1 blocks))).
  { cbn [skipn blocks_v2_chunked c_prefix_blocks app concat]. rewrite blen_app, (heap_block_len name Hname). blia. }
  assert (Psig : placed f 0 signature).
  { pose proof Psb as HP. unfold enc_superblock in HP. cbn [sp_version c_sb] in HP. change (2 =? 0) with false in HP. cbv iota in HP.
    rewrite <- !app_assoc in HP. apply placed_head in HP. exact HP. }
  pose proof (PC_snod name class size cbf dims cdims data Hname) as Psn. rewrite c_snod_block_bytes in Psn.
  change c_sym with (gen_sym 2195) in Psn.
  pose proof (PC_root_rest name class size cbf dims cdims data Hname) as Pr.
  assert (HT : 2 <= blen (dsb ++ cb ++ leaf)).
  { rewrite !blen_app. pose proof (leaf_len size dims cdims data). blia. }
  assert (Hlenf : 2168 < blen f).
  { rewrite (image_c_len name class size cbf dims cdims data Hname Hcs). pose proof c_eof_bound. blia. }
  assert (Pds : placed f 2195 [79; 72; 68; 82]).
  { pose proof (PC_dset_rest name class size cbf dims cdims data Hname) as HP.
    unfold c_dset_block, enc_ohdr_v2 in HP. rewrite <- !app_assoc in HP. apply placed_head in HP. exact HP. }
  pose proof (c_dset_header name class size cbf dims cdims data Hname Hdt Hdims Hcd Hlen Hbound Hchunk Hcap hfuel Hhf) as Hdh.
  split.
  - exact (superblock_stage_g f csb _ wf_c_sb eq_refl eq_refl (c_sb_len size dims cdims data) Psb HR).
  - eapply (open_image_g f name 2195 csb _ _ _ _ _ _ _ _ _ hfuel Hname wf_c_sb eq_refl eq_refl (c_sb_len size dims cdims data) Psb HR Psig
              (PC_heap name class size cbf dims cdims data) Psn (PC_bt name class size cbf dims cdims data Hname) Pr HT
              ltac:(reflexivity) Hlenf Pds Hhf Hdh); [reflexivity|exact HB|exact HBe].
Qed.
End Open.
End ImageC.

Lemma file_open_chunked_stmt : forall name class size cbf dims cdims data fuel hfuel,
  link_name_ok name = true -> basic_dtype class size cbf = true -> dims_ok_chunked dims = true -> cdims_ok dims cdims = true ->
  blen data = product dims * size -> blen data < 4294967296 -> product cdims * size <= 1073741824 ->
  total_chunks (num_chunks dims cdims) <= 65535 -> (3 <= fuel)%nat -> (3 < hfuel)%nat ->
  let f := image_v2_chunked name class size cbf dims cdims data in
  run0 f p_superblock = Ok SB' /\
  run0 f (p_open true (blen f) fuel hfuel) = Ok (Grp [47] ROOT_ADDR [Dset name CHDR_ADDR]).
Proof.
  intros name class size cbf dims cdims data fuel hfuel Hname Hdt Hdims Hcd Hlen Hbound Hchunk Hcap Hf Hh f.
  rewrite product_prodN in Hlen, Hchunk.
  destruct fuel as [|[|[|n]]]; try blia.
  apply (open_chunked_gen name class size cbf dims cdims data Hname Hdt Hdims Hcd Hlen Hbound Hchunk Hcap hfuel Hh n (blen f / 8 + 1024)); auto. blia.
Qed.
