(* C03: the writer state represents the specification tree (Rep), and every admissible API call
   preserves that (step_sim). *)
From HV Require Import Base.Prelude Model.GroupNS Proofs.GroupNSBase Proofs.GroupNSHeap Proofs.GroupNSPath
  Proofs.GroupNSInv Proofs.GroupNSSpec.

(* what fw.groups must contain: exactly the rendered paths that resolve to a group *)
Definition Reg (t : nodes) (p : path) (g : N) : Prop :=
  exists cs, cs <> [] /\ names_ok_l cs /\ p = render cs /\ sresolve t 0 cs = Some g /\ is_group t g.

Record Rep (c : cfg) (w : wstate) (t : stree) : Prop := {
  r_clock : clock w = s_clock t;
  r_inv : Inv1 c w;
  r_group : forall g ch, alookup g (s_nodes t) = Some (SG ch) ->
      exists seg ents, alookup g (heaps w) = Some seg /\ alookup g (snods w) = Some ents /\
        gwf seg ents (map fst ch) /\ map e_obj ents = map snd ch;
  r_kind : forall id nd, alookup id (s_nodes t) = Some nd ->
      exists o, alookup id (objects w) = Some o /\ o_kind o = skind nd;
  r_reg : forall p g, plookup p (groups w) = Some g <-> Reg (s_nodes t) p g;
  r_inj : forall p p' g, plookup p (groups w) = Some g -> plookup p' (groups w) = Some g -> p = p';
  r_pos : forall p g, plookup p (groups w) = Some g -> 0 < g
}.

Lemma rep_init : forall c, Rep c (init c) s_empty.
Proof.
  intro c. constructor.
  - reflexivity.
  - apply invb_init.
  - intros g ch H. cbn [s_empty s_nodes alookup] in H. destruct (0 =? g) eqn:E; [|discriminate].
    apply N.eqb_eq in E. subst g. injection H as <-. rewrite init_heaps, init_snods. cbn [alookup]. rewrite N.eqb_refl.
    do 2 eexists. repeat split. cbn [map]. apply gwf_empty.
  - intros id nd H. cbn [s_empty s_nodes alookup] in H. destruct (0 =? id) eqn:E; [|discriminate].
    apply N.eqb_eq in E. subst id. injection H as <-. unfold init. cbn [objects alookup]. rewrite N.eqb_refl. eexists. split; reflexivity.
  - intros p g. unfold init. cbn [groups plookup]. split; [discriminate|].
    intros (cs & Hne & _ & _ & Hr & _). destruct cs as [|m cs]; [contradiction|]. cbn in Hr. discriminate.
  - intros p p' g H. discriminate.
  - intros p g H. discriminate.
Qed.

(* ---------------------------------------------------------------- parents *)
Lemma parent_registered_eq : forall w p, parent_registered w p = match parent_group w p with Some _ => true | None => false end.
Proof. intros w p. unfold parent_registered, parent_group. destruct (is_root_parent p); [reflexivity|]. destruct (plookup p (groups w)); reflexivity. Qed.

Lemma resolve_unique : forall c w t a b g, Rep c w t -> SInv t -> names_ok_l a -> names_ok_l b ->
  sresolve (s_nodes t) 0 a = Some g -> sresolve (s_nodes t) 0 b = Some g -> is_group (s_nodes t) g -> a = b.
Proof.
  intros c w t a b g R I Ha Hb Ra Rb G.
  assert (K : forall x, names_ok_l x -> x <> [] -> sresolve (s_nodes t) 0 x = Some g -> plookup (render x) (groups w) = Some g).
  { intros x Hx Hne Rx. apply (r_reg _ _ _ R). exists x. repeat split; assumption. }
  destruct a as [|ma a], b as [|mb b]; [reflexivity | | |].
  - exfalso. cbn in Ra. inversion Ra; subst. pose proof (K _ Hb ltac:(discriminate) Rb) as P. apply (r_pos _ _ _ R) in P. lia.
  - exfalso. cbn in Rb. inversion Rb; subst. pose proof (K _ Ha ltac:(discriminate) Ra) as P. apply (r_pos _ _ _ R) in P. lia.
  - apply render_inj; try assumption. eapply (r_inj _ _ _ R); apply K; (assumption || discriminate).
Qed.

Lemma parent_agree : forall c w t pcs, Rep c w t -> SInv t -> names_ok_l pcs ->
  match sresolve (s_nodes t) 0 pcs with
  | Some g0 => match alookup g0 (s_nodes t) with
               | Some (SG _) => parent_group w (render pcs) = Some g0
               | _ => parent_group w (render pcs) = None
               end
  | None => parent_group w (render pcs) = None
  end.
Proof.
  intros c w t pcs R I Hp. unfold parent_group. rewrite is_root_parent_render by assumption.
  destruct pcs as [|m pcs].
  - cbn [sresolve]. destruct (s_root _ I) as [ch0 L]. rewrite L. reflexivity.
  - assert (X : forall g, plookup (render (m :: pcs)) (groups w) = Some g ->
                 sresolve (s_nodes t) 0 (m :: pcs) = Some g /\ is_group (s_nodes t) g).
    { intros g P. apply (r_reg _ _ _ R) in P. destruct P as (cs & Hne & Hcs & E & Hr & G).
      apply render_inj in E; try assumption. subst cs. split; assumption. }
    destruct (sresolve (s_nodes t) 0 (m :: pcs)) as [g0|] eqn:S.
    + destruct (alookup g0 (s_nodes t)) as [[ch0| |]|] eqn:L.
      * apply (r_reg _ _ _ R). exists (m :: pcs). repeat split; try assumption; [discriminate | exists ch0; assumption].
      * destruct (plookup _ _) as [g|] eqn:P; [|reflexivity]. destruct (X g eq_refl) as [A [ch1 B]]. inversion A; subst. congruence.
      * destruct (plookup _ _) as [g|] eqn:P; [|reflexivity]. destruct (X g eq_refl) as [A [ch1 B]]. inversion A; subst. congruence.
      * destruct (plookup _ _) as [g|] eqn:P; [|reflexivity]. destruct (X g eq_refl) as [A [ch1 B]]. inversion A; subst. congruence.
    + destruct (plookup _ _) as [g|] eqn:P; [|reflexivity]. destruct (X g eq_refl) as [A _]. discriminate.
Qed.

(* ---------------------------------------------------------------- resolveObjectAddress *)
Lemma find_clookup : forall seg ch ents nm, map (name_of seg) ents = map Some (map fst ch) -> map e_obj ents = map snd ch ->
  option_map e_obj (find (entry_has_name seg nm) ents) = clookup nm ch.
Proof.
  induction ch as [|[n0 c0] ch IH]; intros ents nm H1 H2; destruct ents as [|e ents]; try discriminate; [reflexivity|].
  cbn [map fst snd] in H1, H2. injection H1 as H1a H1b. injection H2 as H2a H2b.
  cbn [find clookup]. unfold entry_has_name at 1. rewrite H1a. destruct (bytes_eqb n0 nm); [cbn; congruence|]. apply IH; assumption.
Qed.

Lemma resolve_agree : forall c w t qp qn, Rep c w t -> SInv t -> names_ok_l (qp ++ [qn]) ->
  resolve_object_address w (render (qp ++ [qn])) = sresolve (s_nodes t) 0 (qp ++ [qn]).
Proof.
  intros c w t qp qn R I Hq. unfold resolve_object_address.
  assert (Hqp : names_ok_l qp) by (apply Forall_app in Hq; tauto).
  assert (S0 : is_slash_only (render (qp ++ [qn])) = false /\ starts_with_slash (render (qp ++ [qn])) = true).
  { destruct (qp ++ [qn]) as [|m r] eqn:E; [destruct qp; discriminate|]. inversion Hq as [|? ? Hm _]; subst.
    apply name_ok_iff in Hm. split; [apply render_not_slash_only; tauto | apply render_starts]. }
  destruct S0 as [S1 S2]. rewrite S1, S2. cbn [negb]. rewrite parse_path_render by assumption.
  rewrite sresolve_app. pose proof (parent_agree c w t qp R I Hqp) as PA.
  destruct (sresolve (s_nodes t) 0 qp) as [g1|]; [|rewrite PA; reflexivity].
  destruct (alookup g1 (s_nodes t)) as [[ch1| |]|] eqn:L; try (rewrite PA; reflexivity).
  rewrite PA. destruct (r_group _ _ _ R g1 ch1 L) as (seg & ents & Hh & Hs & Hwf & Ho). rewrite Hh, Hs.
  rewrite <- (find_clookup seg ch1 ents qn (names_decode _ _ _ Hwf) Ho).
  destruct (find (entry_has_name seg qn) ents); reflexivity.
Qed.

(* ---------------------------------------------------------------- linkToParent against s_link *)
Lemma link_agree : forall c w t wpre pcs n child g0 ch, Rep c w t -> SInv t ->
  groups wpre = groups w ->
  (forall k, k <> clock w -> alookup k (heaps wpre) = alookup k (heaps w) /\ alookup k (snods wpre) = alookup k (snods w)) ->
  names_ok_l pcs -> name_ok n = true ->
  sresolve (s_nodes t) 0 pcs = Some g0 -> alookup g0 (s_nodes t) = Some (SG ch) ->
  (exists e e', s_link c (s_nodes t) (pcs ++ [n]) child = (None, Err e) /\
                link_to_parent c wpre (render pcs) n child = (wpre, Err e')) \/
  (exists seg' ents',
      s_link c (s_nodes t) (pcs ++ [n]) child = (Some (aset g0 (SG (ch ++ [(n, child)])) (s_nodes t)), Ok) /\
      link_to_parent c wpre (render pcs) n child = (linked wpre g0 seg' ents', Ok) /\
      gwf seg' ents' (map fst (ch ++ [(n, child)])) /\ map e_obj ents' = map snd (ch ++ [(n, child)]) /\
      clookup n ch = None).
Proof.
  intros c w t wpre pcs n child g0 ch R I Hg Hk Hp Hn Sr L.
  pose proof (parent_agree c w t pcs R I Hp) as PA. rewrite Sr, L in PA.
  assert (PG : parent_group wpre (render pcs) = Some g0) by (rewrite (parent_group_groups _ _ _ Hg); assumption).
  destruct (r_group _ _ _ R g0 ch L) as (seg & ents & Hh & Hs & Hwf & Ho).
  assert (Hg0 : g0 <> clock w).
  { assert (g0 < s_clock t) by (apply (s_bound _ I); rewrite L; discriminate). rewrite (r_clock _ _ _ R). lia. }
  destruct (Hk g0 Hg0) as [K1 K2]. rewrite <- K1 in Hh. rewrite <- K2 in Hs.
  destruct (i_wf _ _ _ (r_inv _ _ _ R) g0 seg ents) as (ns0 & _ & Hcap); [congruence | congruence |].
  pose proof (gwf_length _ _ _ Hwf) as HL. rewrite map_length in HL.
  unfold s_link. rewrite unsnoc_snoc, Sr, L. rewrite names_size_enc.
  destruct (ltp_spec c wpre (render pcs) n child g0 seg ents (map fst ch) PG Hh Hs Hwf (name_ok_hname _ Hn))
    as [(A & E)|[(A & B & E)|[(A & B & C & E)|(A & B & C & seg' & E & Hwf' & Hl)]]].
  - left. destruct (clookup n ch) eqn:X; [eauto|]. apply clookup_None in X. contradiction.
  - left. assert (X : clookup n ch = None) by (apply clookup_None; assumption). rewrite X.
    assert (Y : new_heap_size (heap_cap c) <? blen (enc (map fst ch)) + blen n + 1 = true) by (apply N.ltb_lt; nlia).
    rewrite Y. eauto.
  - left. assert (X : clookup n ch = None) by (apply clookup_None; assumption). rewrite X.
    destruct (new_heap_size (heap_cap c) <? blen (enc (map fst ch)) + blen n + 1); [eauto|].
    assert (Y : snod_cap c <=? blen ch = true) by (apply N.leb_le; unfold blen in *; nlia). rewrite Y. eauto.
  - right. assert (X : clookup n ch = None) by (apply clookup_None; assumption). rewrite X.
    assert (Y : new_heap_size (heap_cap c) <? blen (enc (map fst ch)) + blen n + 1 = false) by (apply N.ltb_ge; nlia).
    assert (Z : snod_cap c <=? blen ch = false) by (apply N.leb_gt; unfold blen in *; nlia). rewrite Y, Z.
    cbv zeta in E. do 2 eexists. split; [reflexivity|]. split; [exact E|]. rewrite !map_app. cbn [map fst snd].
    split; [assumption|]. split; [|reflexivity]. rewrite Ho. reflexivity.
Qed.

(* ---------------------------------------------------------------- failing calls *)
Lemma rep_frame : forall c w t w', Rep c w t -> SInv t -> Inv1 c w' -> clock w' = clock w + 1 ->
  same_ns (clock w) w w' -> Rep c w' (s_tick t (s_nodes t)).
Proof.
  intros c w t w' R I I' Hc [Hg Hk]. constructor; cbn [s_tick s_nodes s_clock].
  - rewrite Hc, (r_clock _ _ _ R). reflexivity.
  - assumption.
  - intros g ch L. destruct (r_group _ _ _ R g ch L) as (seg & ents & Hh & Hs & X).
    assert (g < clock w) by (rewrite (r_clock _ _ _ R); apply (s_bound _ I); rewrite L; discriminate).
    destruct (Hk g H) as (K1 & K2 & _). exists seg, ents. rewrite K1, K2. tauto.
  - intros id nd L. destruct (r_kind _ _ _ R id nd L) as (o & Ho & Hkd).
    assert (id < clock w) by (rewrite (r_clock _ _ _ R); apply (s_bound _ I); rewrite L; discriminate).
    destruct (Hk id H) as (_ & _ & K3). rewrite Ho in K3. cbn [option_map] in K3.
    destruct (alookup id (objects w')) as [o'|]; [|discriminate]. exists o'. cbn in K3. split; congruence.
  - intros p g. rewrite Hg. apply (r_reg _ _ _ R).
  - intros p p' g. rewrite Hg. apply (r_inj _ _ _ R).
  - intros p g. rewrite Hg. apply (r_pos _ _ _ R).
Qed.

Lemma step_err_rep : forall c w t o w' e, Rep c w t -> SInv t -> name_cond c (op_link_name c o) ->
  step c w o = (w', Err e) -> Rep c w' (s_tick t (s_nodes t)).
Proof.
  intros c w t o w' e R I Hn H. pose proof (step_inv c w o (r_inv _ _ _ R) Hn) as I'. rewrite H in I'. cbn [fst] in I'.
  unfold step in H. destruct (step_body c w o) as [wb r] eqn:B. inversion H; subst.
  pose proof (step_body_clock c w o) as C. rewrite B in C. cbn [fst] in C.
  apply step_err_same_ns in B. eapply rep_frame; try eassumption.
  cbn [clock tick]. lia.
Qed.

(* ---------------------------------------------------------------- successful calls *)
Lemma reg_mono : forall t t' g ch n child fresh p x, UpdOk t t' g ch n child fresh -> alookup 0 t <> None ->
  Reg t p x -> Reg t' p x.
Proof.
  intros t t' g ch n child fresh p x HU H0 (cs & Hne & Hcs & E & Hr & G).
  exists cs. repeat split; try assumption.
  - eapply sresolve_mono; eassumption.
  - eapply upd_group_old; eassumption.
Qed.

Lemma reg_new : forall t t' g ch n child fresh p x, UpdOk t t' g ch n child fresh -> alookup 0 t <> None ->
  (forall chc, alookup child t' = Some (SG chc) -> chc = []) ->
  Reg t' p x ->
  Reg t p x \/ (x = child /\ is_group t' child /\ exists pre, names_ok_l (pre ++ [n]) /\ p = render (pre ++ [n]) /\ sresolve t 0 pre = Some g).
Proof.
  intros t t' g ch n child fresh p x HU H0 Hleaf (cs & Hne & Hcs & E & Hr & G).
  pose proof HU as [U Hg Hn Hfresh Hclosed].
  destruct (sresolve_new _ _ _ _ _ _ _ HU cs 0 x H0 Hr) as [Old|(pre & post & E1 & E2 & E3)].
  - left. exists cs. repeat split; try assumption.
    assert (Hx : alookup x t <> None) by (eapply sresolve_in; eassumption).
    destruct G as [chx Lx]. destruct (N.eq_dec x g) as [->|Hne2]; [eexists; eassumption|].
    rewrite (upd_old _ _ _ _ _ _ _ HU x Hx Hne2) in Lx. eexists; eassumption.
  - right. destruct (sresolve_leaf _ _ _ _ _ _ _ HU post x Hleaf E3) as [-> ->].
    split; [reflexivity|]. split; [assumption|]. exists pre. subst cs. repeat split; assumption.
Qed.

Lemma rep_link_ok : forall c w t w' nodes' pcs n g0 ch child fresh seg' ents',
  Rep c w t -> SInv t ->
  names_ok_l (pcs ++ [n]) ->
  sresolve (s_nodes t) 0 pcs = Some g0 -> alookup g0 (s_nodes t) = Some (SG ch) -> clookup n ch = None ->
  upd (s_nodes t) nodes' g0 ch n child fresh ->
  match fresh with
  | Some (id, nd) => id = child /\ id = s_clock t /\ is_leaf_node nd
  | None => alookup child (s_nodes t) = Some SD
  end ->
  clock w' = clock w + 1 -> Inv1 c w' ->
  alookup g0 (heaps w') = Some seg' -> alookup g0 (snods w') = Some ents' ->
  gwf seg' ents' (map fst (ch ++ [(n, child)])) -> map e_obj ents' = map snd (ch ++ [(n, child)]) ->
  (forall k, k <> g0 -> k < clock w -> alookup k (heaps w') = alookup k (heaps w) /\ alookup k (snods w') = alookup k (snods w)) ->
  (forall k o, alookup k (objects w) = Some o -> exists o', alookup k (objects w') = Some o' /\ o_kind o' = o_kind o) ->
  match fresh with
  | Some (id, nd) =>
      (exists o, alookup id (objects w') = Some o /\ o_kind o = skind nd) /\
      match nd with
      | SG _ => groups w' = pset (render (pcs ++ [n])) id (groups w) /\
                alookup id (heaps w') = Some (zeros (new_heap_size (heap_cap c))) /\ alookup id (snods w') = Some []
      | _ => groups w' = groups w
      end
  | None => groups w' = groups w
  end ->
  Rep c w' (s_tick t nodes').
Proof.
  intros c w t w' nodes' pcs n g0 ch child fresh seg' ents' R I Hcs Sr L Hn U Hf Hc I' Hh' Hs' Hwf' Ho' Hk Hobj Hgr.
  assert (Hfresh : match fresh with
                   | Some (id, nd) => id = child /\ alookup id (s_nodes t) = None /\ is_leaf_node nd
                   | None => alookup child (s_nodes t) <> None end).
  { destruct fresh as [[id nd]|]; [|rewrite Hf; discriminate]. destruct Hf as (A & B & C). repeat split; try assumption.
    destruct (alookup id (s_nodes t)) eqn:X; [|reflexivity]. exfalso.
    assert (id < s_clock t) by (apply (s_bound _ I); rewrite X; discriminate). lia. }
  assert (HU : UpdOk (s_nodes t) nodes' g0 ch n child fresh) by (constructor; try assumption; apply (s_closed _ I)).
  assert (H0 : alookup 0 (s_nodes t) <> None) by (destruct (s_root _ I) as [c0 X]; rewrite X; discriminate).
  assert (Hg0 : g0 < clock w) by (rewrite (r_clock _ _ _ R); apply (s_bound _ I); rewrite L; discriminate).
  assert (Hpcs : names_ok_l pcs) by (apply Forall_app in Hcs; tauto).
  assert (Hleaf : forall chc, alookup child nodes' = Some (SG chc) -> chc = []).
  { intros chc X. rewrite U in X. destruct (g0 =? child) eqn:E.
    - apply N.eqb_eq in E. subst child. destruct fresh as [[id nd]|]; [destruct Hf as (A & B & _); rewrite <- (r_clock _ _ _ R) in B; lia | congruence].
    - destruct fresh as [[id nd]|]; [|congruence]. destruct Hf as (A & B & C). subst id. rewrite N.eqb_refl in X. inversion X; subst. exact C. }
  (* groups of w' in terms of groups of w *)
  assert (Hval : forall p g, plookup p (groups w) = Some g -> g < clock w).
  { intros p g P. destruct (i_reg _ _ _ (r_inv _ _ _ R) p g P) as [[s Hs0] _].
    destruct (N.lt_ge_cases g (clock w)) as [X|X]; [assumption|]. rewrite (i_fresh_h _ _ _ (r_inv _ _ _ R) g X) in Hs0. discriminate. }
  constructor; cbn [s_tick s_nodes s_clock].
  - rewrite Hc, (r_clock _ _ _ R). reflexivity.
  - assumption.
  - intros k chk X. rewrite U in X. destruct (g0 =? k) eqn:E.
    + apply N.eqb_eq in E. subst k. inversion X; subst. exists seg', ents'. tauto.
    + apply N.eqb_neq in E. destruct fresh as [[id nd]|].
      * destruct (id =? k) eqn:E2.
        -- apply N.eqb_eq in E2. subst k. inversion X; subst. destruct Hf as (_ & _ & C). cbn in C. subst chk.
           destruct Hgr as (_ & _ & A & B). exists (zeros (new_heap_size (heap_cap c))), []. repeat split; try assumption. apply gwf_empty.
        -- destruct (r_group _ _ _ R k chk X) as (seg & ents & A & B & C).
           assert (k < clock w) by (rewrite (r_clock _ _ _ R); apply (s_bound _ I); rewrite X; discriminate).
           destruct (Hk k ltac:(congruence) H) as [K1 K2]. exists seg, ents. rewrite K1, K2. tauto.
      * destruct (r_group _ _ _ R k chk X) as (seg & ents & A & B & C).
        assert (k < clock w) by (rewrite (r_clock _ _ _ R); apply (s_bound _ I); rewrite X; discriminate).
        destruct (Hk k ltac:(congruence) H) as [K1 K2]. exists seg, ents. rewrite K1, K2. tauto.
  - intros k nd X. rewrite U in X. destruct (g0 =? k) eqn:E.
    + apply N.eqb_eq in E. subst k. inversion X; subst. destruct (r_kind _ _ _ R g0 _ L) as (o & A & B).
      destruct (Hobj g0 o A) as (o' & A' & B'). exists o'. split; [assumption | cbn [skind] in *; congruence].
    + destruct fresh as [[id nd0]|].
      * destruct (id =? k) eqn:E2.
        -- apply N.eqb_eq in E2. subst k. inversion X; subst. apply Hgr.
        -- destruct (r_kind _ _ _ R k nd X) as (o & A & B). destruct (Hobj k o A) as (o' & A' & B'). exists o'. split; [assumption | congruence].
      * destruct (r_kind _ _ _ R k nd X) as (o & A & B). destruct (Hobj k o A) as (o' & A' & B'). exists o'. split; [assumption | congruence].
  - (* fw.groups against the new tree *)
    intros p x.
    assert (NewEdge : Reg nodes' (render (pcs ++ [n])) child \/ ~ is_group nodes' child).
    { destruct (alookup child nodes') as [[chc| |]|] eqn:X; try (right; intros [c0 Y]; congruence).
      left. exists (pcs ++ [n]). repeat split; try assumption.
      - destruct pcs; discriminate.
      - eapply sresolve_edge; eassumption.
      - eexists; eassumption. }
    assert (Uniq : forall pre, names_ok_l (pre ++ [n]) -> sresolve (s_nodes t) 0 pre = Some g0 -> pre = pcs).
    { intros pre Hpre Spre. apply Forall_app in Hpre. eapply resolve_unique; try eassumption; try tauto. eexists; eassumption. }
    assert (NoOld : ~ Reg (s_nodes t) (render (pcs ++ [n])) x).
    { intros (cs & Hne & Hok & E & Hr & G). apply render_inj in E; try assumption. subst cs.
      rewrite sresolve_app, Sr, L, Hn in Hr. discriminate. }
    assert (Generic : groups w' = groups w -> ~ is_group nodes' child ->
                      (plookup p (groups w') = Some x <-> Reg nodes' p x)).
    { intros Hg Hng. rewrite Hg. split.
      - intro P. apply (r_reg _ _ _ R) in P. eapply reg_mono; eassumption.
      - intro P. destruct (reg_new _ _ _ _ _ _ _ _ _ HU H0 Hleaf P) as [Old|(_ & G & _)]; [apply (r_reg _ _ _ R); assumption | contradiction]. }
    destruct fresh as [[id nd]|].
    + destruct Hf as (A & B & C). subst id. destruct Hgr as (_ & Hgr).
      destruct nd as [chn| |]; try (apply Generic; [assumption | intros [c0 Y]; rewrite U in Y;
        destruct (g0 =? child) eqn:E; [apply N.eqb_eq in E; rewrite <- (r_clock _ _ _ R) in B; lia | rewrite N.eqb_refl in Y; discriminate]]).
      destruct Hgr as (Hg & _ & _). rewrite Hg.
      destruct (list_eq_dec N.eq_dec (render (pcs ++ [n])) p) as [<-|Hp].
      * rewrite plookup_pset_eq. split.
        -- intro X. inversion X; subst. destruct NewEdge as [Y|Y]; [assumption|]. exfalso. apply Y.
           match goal with |- is_group _ ?z =>
             destruct (g0 =? z) eqn:E; [exists (ch ++ [(n, z)]) | exists chn]; rewrite U, E, ?N.eqb_refl; reflexivity end.
        -- intro P. destruct (reg_new _ _ _ _ _ _ _ _ _ HU H0 Hleaf P) as [Old|(-> & _)]; [contradiction | reflexivity].
      * rewrite plookup_pset_neq by assumption. split.
        -- intro P. apply (r_reg _ _ _ R) in P. eapply reg_mono; eassumption.
        -- intro P. destruct (reg_new _ _ _ _ _ _ _ _ _ HU H0 Hleaf P) as [Old|(_ & _ & pre & Hpre & E & Spre)];
             [apply (r_reg _ _ _ R); assumption|]. exfalso. apply Hp. rewrite E. f_equal. f_equal. symmetry. apply Uniq; assumption.
    + apply Generic; [assumption|]. intros [c0 Y]. rewrite U in Y. destruct (g0 =? child) eqn:E; [apply N.eqb_eq in E; congruence | congruence].
  - intros p p' x. destruct fresh as [[id [chn| |]]|]; try (destruct Hgr as (_ & Hg) || rename Hgr into Hg; rewrite Hg; apply (r_inj _ _ _ R)).
    destruct Hgr as (_ & Hg & _ & _). rewrite Hg. destruct Hf as (A & B & _).
    destruct (list_eq_dec N.eq_dec (render (pcs ++ [n])) p) as [<-|Hp], (list_eq_dec N.eq_dec (render (pcs ++ [n])) p') as [<-|Hp'];
      rewrite ?plookup_pset_eq, ?plookup_pset_neq by assumption; try reflexivity.
    + intros X Y. inversion X; subst. apply Hval in Y. rewrite (r_clock _ _ _ R) in Y. lia.
    + intros X Y. inversion Y; subst. apply Hval in X. rewrite (r_clock _ _ _ R) in X. lia.
    + apply (r_inj _ _ _ R).
  - intros p x. destruct fresh as [[id [chn| |]]|]; try (destruct Hgr as (_ & Hg) || rename Hgr into Hg; rewrite Hg; apply (r_pos _ _ _ R)).
    destruct Hgr as (_ & Hg & _ & _). rewrite Hg. destruct Hf as (A & B & _).
    destruct (list_eq_dec N.eq_dec (render (pcs ++ [n])) p) as [<-|Hp]; rewrite ?plookup_pset_eq, ?plookup_pset_neq by assumption.
    + intro X. inversion X; subst. pose proof (s_pos _ I). lia.
    + apply (r_pos _ _ _ R).
Qed.
