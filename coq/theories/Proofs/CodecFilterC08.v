(* C11, group 8: the two transcriptions of EncodePipelineMessage agree.
   Model/Filters.v (property C08: encode_msg over filter descriptors) and Model/CodecFilter.v
   (property C11: enc_pipeline over writer filters) produce the same bytes for every descriptor list whose
   names have at most 65528 bytes;
   the C08 module is only Required (its outcome type and parse_filters have the same short names). *)
From HV Require Import Base.Prelude Base.Outcome Base.Bytes Model.CodecFilter Proofs.CodecFilter.
From HV Require Model.Filters Proofs.FiltersPipeline.

(* a C08 descriptor seen as what a writer.Filter contributes: ID(), Name(), Encode() *)
Definition to_wfilter (d : Filters.fdesc) : wfilter :=
  {| wf_id := Filters.fid d; wf_name := Filters.fname d; wf_flags := Filters.fflags d; wf_cd := Filters.fcd d |}.

Lemma le2_wrap16 x : le 2 (wrap16 x) = le 2 x.
Proof. cbn [le]. unfold wrap16. f_equal; [lia|]. f_equal. lia. Qed.
Lemma le4_wrap32 x : le 4 (wrap32 x) = le 4 x.
Proof. cbn [le]. unfold wrap32. f_equal; [lia|]. f_equal; [lia|]. f_equal; [lia|]. f_equal. lia. Qed.

(* names up to 65528 bytes: the cut of the name field in the C11 transcription (copy into the exactly sized
   buffer, which the C08 transcription does not model) does nothing *)
Definition name_fits (d : Filters.fdesc) : Prop := N.of_nat (length (Filters.fname d)) <= 65528.

Lemma enc_filter_same d : name_fits d -> enc_filter (to_wfilter d) = Filters.encode_filter d.
Proof.
  destruct d as [id nl flags ncd name cd]. unfold name_fits. cbn [Filters.fname]. intros Hn.
  unfold enc_filter, Filters.encode_filter, to_wfilter.
  cbn [wf_id wf_name wf_flags wf_cd Filters.fid Filters.fname Filters.fflags Filters.fcd].
  pose proof (namefield_whole name) as Q.
  rewrite !le2_wrap16. unfold blen in *. bnorm.
  rewrite !(wrap16_small (N.of_nat (length name))) by lia.
  rewrite Q by exact Hn. clear Q.
  set (NL := N.of_nat (length name)) in *.
  do 5 f_equal.
  - destruct (0 <? NL) eqn:E; [|reflexivity].
    unfold padded_name_w. rewrite E. f_equal. unfold zeros. f_equal. lia.
  - f_equal. apply map_ext. intros v. apply le4_wrap32.
Qed.

(* both encoders: the same refusal (empty pipeline) and the same bytes, for all descriptor lists with names
   of at most 65528 bytes *)
Theorem enc_pipeline_same_as_c08 (ds : list Filters.fdesc) : Forall name_fits ds ->
  Filters.encode_msg ds =
  if encok_pipeline (map to_wfilter ds) then Filters.Ok (enc_pipeline (map to_wfilter ds)) else Filters.Err.
Proof.
  intros Hn. destruct ds as [|d0 r]; [reflexivity|].
  unfold Filters.encode_msg, encok_pipeline, enc_pipeline.
  rewrite map_length. cbn [length Nat.eqb negb]. cbv iota.
  f_equal. rewrite map_map. cbn [zeros repeat app]. do 8 f_equal. f_equal.
  apply map_ext_in. intros d Hin. symmetry. apply enc_filter_same.
  rewrite Forall_forall in Hn. apply Hn, Hin.
Qed.

Lemma desc_wf_name_fits d : FiltersPipeline.desc_wf d -> name_fits d.
Proof. intros (_ & _ & _ & Hnlen & _). unfold name_fits. lia. Qed.

Corollary enc_pipeline_same_as_c08_wf (ds : list Filters.fdesc) : Forall FiltersPipeline.desc_wf ds ->
  Filters.encode_msg ds =
  if encok_pipeline (map to_wfilter ds) then Filters.Ok (enc_pipeline (map to_wfilter ds)) else Filters.Err.
Proof. intros H. apply enc_pipeline_same_as_c08. eapply Forall_impl; [|exact H]. apply desc_wf_name_fits. Qed.

(* beyond: for a 65529-byte name the C08 transcription keeps the whole name (65537 bytes), the Go encoder
   and the C11 transcription write none of it (8 bytes); C08's theorems assume names below 65000 bytes *)
Lemma c08_encode_filter_overlong_differs :
  let d := Filters.mk_fdesc 1 65529 0 0 (repeat 65 (N.to_nat 65529)) [] in
  blen (Filters.encode_filter d) = 65537 /\ blen (enc_filter (to_wfilter d)) = 8.
Proof. vm_compute. split; reflexivity. Qed.

(* C08's well-formed descriptors with byte-valued names are well-formed for C11 *)
Lemma desc_wf_wf_filter d :
  FiltersPipeline.desc_wf d -> Forall (fun b => b < 256) (Filters.fname d) -> wf_filter (to_wfilter d) = true.
Proof.
  intros (Hid & Hfl & Hnl & Hnlen & Hnz & Hncd & Hcdlen & Hcd) Hb.
  unfold wf_filter, to_wfilter. cbn [wf_id wf_name wf_flags wf_cd]. unfold blen.
  repeat (apply andb_true_iff; split); try (apply N.ltb_lt; blia); try (apply N.leb_le; blia).
  - apply forallb_forall. intros b Hin. rewrite Forall_forall in Hnz, Hb.
    apply andb_true_iff; split; [apply negb_true_iff, N.eqb_neq, Hnz, Hin | apply N.ltb_lt, Hb, Hin].
  - apply forallb_forall. intros v Hin. rewrite Forall_forall in Hcd. apply N.ltb_lt, Hcd, Hin.
Qed.
