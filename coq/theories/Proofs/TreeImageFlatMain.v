(* C03 end to end, depth 1: for every flat history (Model/TreeFlat.v) hdf5.Open on tree_image returns the root with exactly
   flat_nodes: the composition of FlatInv preservation (Proofs/TreeImageFlatStep.v) with the reader theorem
   (Proofs/TreeImageFlatRead.v flat_open, an instance of open_depth1). *)
From HV Require Import Base.Prelude Base.Outcome Base.Bytes Model.GroupWire Model.CodecOhdr.
From HV Require Import Model.IOProg Model.IOProgReader Model.IOProgOpen.
From HV Require Import Model.FileImage Model.TreeImage Model.TreeFlat.
From HV Require Import Proofs.TreeImageOpen Proofs.TreeImagePlaced Proofs.TreeImageFlat Proofs.TreeImageFlatStep Proofs.TreeImageFlatRead.
From HV Require Model.GroupNS.

Local Open Scope N_scope.

Lemma t_run_fst st o r : fst (t_run st (o :: r)) = fst (t_run (fst (t_step st o)) r).
Proof. cbn [t_run]. destruct (t_step st o) as [st1 x]. cbn [fst]. destruct (t_run st1 r). reflexivity. Qed.

Lemma flat_step_inv st nodes o : FlatInv st nodes -> flat_step st o ->
  FlatInv (fst (t_step st o)) (nodes ++ (if snd (t_step st o) then [flat_child st o] else [])).
Proof.
  intros HI [E | (Hc & Hroot & Hargs & Hb)].
  - rewrite E. cbn [fst snd]. now rewrite app_nil_r.
  - unfold FLAT_LIM in Hb. destruct o as [p | p code dims data | p q]; [| |discriminate]; cbn [t_step op_parent_name op_extent flat_child] in *.
    + pose proof (flat_group_step st nodes p HI Hroot Hb) as H.
      destruct (snd (t_create_group st p)); [exact H | now rewrite app_nil_r].
    + pose proof (flat_dataset_step st nodes p code dims data HI Hroot Hargs ltac:(unfold LIM; blia)) as H.
      destruct (snd (t_create_dataset st p code dims data)); [exact H | now rewrite app_nil_r].
Qed.

Theorem flat_run h : forall st nodes, FlatInv st nodes -> flat_hist st h ->
  FlatInv (fst (t_run st h)) (nodes ++ flat_nodes st h).
Proof.
  induction h as [|o r IH]; intros st nodes HI HF.
  - cbn [t_run fst flat_nodes]. now rewrite app_nil_r.
  - destruct HF as [H1 H2]. rewrite t_run_fst. cbn [flat_nodes]. rewrite app_assoc.
    apply IH; [|exact H2]. now apply flat_step_inv.
Qed.

Theorem tree_depth1_partial h n hfuel : (4 < hfuel)%nat -> flat_hist t_init h ->
  2197 <= blen (t_file (fst (tree_run h))) -> blen (t_file (fst (tree_run h))) + 4000 < FLAT_LIM ->
  run0 (tree_image h) (p_open true (blen (tree_image h)) (S (S (S (S (S n))))) hfuel) = Ok (Grp [47] 2168 (flat_nodes t_init h)).
Proof.
  intros Hh HF H1 H2. unfold tree_image.
  exact (flat_open hfuel Hh (fst (tree_run h)) (flat_nodes t_init h) n (flat_run h t_init [] flat_init HF) H1 H2).
Qed.

(* the file with no successful creation: evaluated *)
Lemma tree_empty : run0 (tree_image []) (p_open true (blen (tree_image [])) 5 5) = Ok (Grp [47] 2168 []).
Proof. vm_compute. reflexivity. Qed.

(* ------------------------------------------------------------------ the hypotheses are satisfiable *)
(* /g, /d (uint8 [3]), /d again (refused: duplicate), /g/x/y (refused: no such parent), hard link /l -> /nothing (refused) *)
Definition flat_ex : list top :=
  [TGroup [47; 103]; TDataset [47; 100] 4 [3] [1; 2; 3]; TDataset [47; 100] 4 [3] [1; 2; 3];
   TGroup [47; 103; 47; 120; 47; 121]; THardLink [47; 108] [47; 110]].
Lemma flat_ex_ok :
  flat_hist t_init flat_ex /\ 2197 <= blen (t_file (fst (tree_run flat_ex))) /\
  blen (t_file (fst (tree_run flat_ex))) + 4000 < FLAT_LIM /\
  tree_oks flat_ex = [true; true; false; false; false] /\
  flat_nodes t_init flat_ex = [Grp [103] 4315 []; Dset [100] 4580].
Proof.
  split.
  { cbn [flat_hist flat_ex]. split; [right; vm_compute; repeat split; reflexivity|].
    split; [right; vm_compute; repeat split; reflexivity|].
    split; [left; vm_compute; reflexivity|]. split; [left; vm_compute; reflexivity|]. split; [left; vm_compute; reflexivity|]. exact I. }
  vm_compute. repeat split; try reflexivity; discriminate.
Qed.

(* ------------------------------------------------------------------ refused calls leave the state as it is *)
(* whatever makes checkLinkable (prepare_link) refuse - empty name or NUL, unknown parent, duplicate name, full heap, full node -
   the creation returns false and the state (file and fw.groups) is unchanged *)
Theorem group_refused_unchanged st p :
  (forall x, prepare_link st (fst (NS.parse_path (NS.trim_suffix_slash p))) (snd (NS.parse_path (NS.trim_suffix_slash p))) 0 <> Ok x) ->
  t_step st (TGroup p) = (st, false).
Proof.
  intros H. cbn [t_step]. unfold t_create_group. destruct (negb (NS.validate_group_path p)); [reflexivity|].
  destruct (NS.parse_path (NS.trim_suffix_slash p)) as [parent nm]. cbn [fst snd] in H.
  destruct (negb (parent_registered st parent)); [reflexivity|].
  destruct (prepare_link st parent nm 0) as [x| |]; [exfalso; now apply (H x) | reflexivity | reflexivity].
Qed.
Theorem dataset_refused_unchanged st p code dims data :
  (forall x, prepare_link st (fst (NS.parse_path p)) (snd (NS.parse_path p)) 0 <> Ok x) ->
  t_step st (TDataset p code dims data) = (st, false).
Proof.
  intros H. cbn [t_step]. unfold t_create_dataset. destruct (negb (NS.validate_dataset_name p)); [reflexivity|].
  destruct (NS.parse_path p) as [parent nm]. cbn [fst snd] in H.
  destruct (prepare_link st parent nm 0) as [x| |]; [exfalso; now apply (H x) | reflexivity | reflexivity].
Qed.
(* CreateHardLink: an unknown parent, a target that does not resolve, an unreadable target header, a refused link, or a header
   without room for the RefCount message: false, state unchanged (nothing has been written yet) *)
Theorem hardlink_refused_unchanged st p q :
  (forall t, resolve_addr st q <> Ok t) \/
  (forall x, prepare_link st (fst (NS.parse_path p)) (snd (NS.parse_path p)) 0 <> Ok x) ->
  t_step st (THardLink p q) = (st, false).
Proof.
  intros H. cbn [t_step]. unfold t_hard_link.
  destruct (negb (NS.validate_link_path p) || negb (NS.validate_link_path q)); [reflexivity|].
  destruct (NS.parse_path p) as [parent nm]. cbn [fst snd] in H.
  destruct (negb (parent_registered st parent)); [reflexivity|].
  destruct (resolve_addr st q) as [t| |] eqn:ER; cbn [obind]; try reflexivity.
  destruct (dec_ohdr false (t_file st) t) as [h| |]; cbn [obind]; try reflexivity.
  destruct (prepare_link st parent nm 0) as [x| |] eqn:EP; cbn [obind]; try reflexivity.
  destruct H as [H | H]; [exfalso; now apply (H t) | exfalso; now apply (H x)].
Qed.
