(* C07: the per-loop facts of Proofs/RobustConv.v combined into one statement per conversion loop (restated in Props/C07.v) *)
From HV Require Import Base.Prelude Base.Outcome Base.Bytes Model.RobustAlloc Model.RobustConv.
From HV Require Import Proofs.RobustAlloc Proofs.RobustConv.

Lemma conv_float64_robust raw es n :
  blen raw < 9223372036854775808 -> n < 18446744073709551616 ->
  fst (conv_float64 raw es n) <> Some Panic /\ fst (conv_float64 raw es n) <> None /\
  alloc_bounded 8 0 raw (snd (conv_float64 raw es n)) /\
  forall k, fst (conv_float64 raw es n) = Some (Ok k) -> k = n /\ n * es <= blen raw.
Proof.
  intros H1 H2. split; [apply conv_float64_no_panic; assumption|].
  split; [apply conv_float64_fuel; assumption|]. split; [apply conv_float64_alloc|].
  intros k Hk. destruct (conv_float64_ok raw es n k H1 H2 Hk) as (A & B & _). split; assumption.
Qed.

Lemma conv_strings_robust raw ss n :
  blen raw < 9223372036854775808 -> n < 18446744073709551616 ->
  fst (conv_strings raw ss n) <> Some Panic /\ fst (conv_strings raw ss n) <> None /\
  alloc_bounded 16 0 raw (snd (conv_strings raw ss n)).
Proof.
  intros H1 H2. split; [apply conv_strings_no_panic; assumption|].
  split; [apply conv_strings_fuel; assumption|apply conv_strings_alloc].
Qed.

Lemma conv_compound_robust raw ss members n :
  blen raw < 9223372036854775808 -> ss < 4294967296 -> n < 18446744073709551616 ->
  fst (conv_compound raw ss members n) <> Some Panic /\ fst (conv_compound raw ss members n) <> None /\
  alloc_bounded 8 0 raw (snd (conv_compound raw ss members n)).
Proof.
  intros H1 H2 H3. split; [apply conv_compound_no_panic; assumption|].
  split; [apply conv_compound_fuel; assumption|apply conv_compound_alloc].
Qed.
