(* Lemmas for C12 (Props/C12.v): the global-heap writer/reader model of Model/GHeap.v. *)
From HV Require Import Base.Prelude Model.GHeap Model.GHeapTie.

Local Open Scope N_scope.

(* ------------------------------------------------------------------ lists and lengths *)
Lemma blen_app : forall a b, blen (a ++ b) = blen a + blen b.
Proof. intros. unfold blen. rewrite app_length. lia. Qed.

Lemma blen_nil : blen [] = 0.
Proof. reflexivity. Qed.

Lemma blen_cons : forall x l, blen (x :: l) = 1 + blen l.
Proof. intros. unfold blen. cbn [length]. lia. Qed.

Lemma blen_zeros : forall n, blen (zeros n) = n.
Proof. intros. unfold blen, zeros. rewrite repeat_length. lia. Qed.

Lemma le_length : forall n v, length (le n v) = n.
Proof. induction n; intros; cbn [le length]; auto. Qed.

Lemma blen_le : forall n v, blen (le n v) = N.of_nat n.
Proof. intros. unfold blen. now rewrite le_length. Qed.

Lemma unle_le : forall n v, v < 256 ^ N.of_nat n -> unle (le n v) = v.
Proof.
  induction n; intros v H.
  - cbn in *. change (256 ^ 0) with 1 in H. lia.
  - cbn [le unle].
    assert (Hp : 256 ^ N.of_nat (S n) = 256 * 256 ^ N.of_nat n).
    { rewrite Nat2N.inj_succ, N.pow_succ_r'. reflexivity. }
    rewrite IHn.
    + pose proof (N.div_mod v 256). lia.
    + rewrite Hp in H. apply N.div_lt_upper_bound; lia.
Qed.

Lemma le_bytes : forall n v, Forall (fun b => b < 256) (le n v).
Proof.
  induction n; intros; cbn [le]; constructor; auto. apply N.mod_lt. lia.
Qed.

Lemma firstn_blen_app : forall (a b : bytes) n, n = blen a -> firstn (N.to_nat n) (a ++ b) = a.
Proof.
  intros a b n ->. unfold blen. rewrite Nat2N.id.
  rewrite firstn_app, Nat.sub_diag, firstn_all. cbn. now rewrite app_nil_r.
Qed.

Lemma skipn_blen_app : forall (a b : bytes) n, n = blen a -> skipn (N.to_nat n) (a ++ b) = b.
Proof.
  intros a b n ->. unfold blen. rewrite Nat2N.id.
  rewrite skipn_app, Nat.sub_diag, skipn_all. reflexivity.
Qed.

Lemma skipn_skipn : forall {A} (x y : nat) (l : list A), skipn x (skipn y l) = skipn (x + y) l.
Proof.
  intros A x y. revert x. induction y; intros x l.
  - now rewrite Nat.add_0_r.
  - replace (x + S y)%nat with (S (x + y)) by lia. destruct l; [now rewrite !skipn_nil|].
    cbn [skipn]. apply IHy.
Qed.

Lemma skipn_all_blen : forall (a : bytes) n, blen a <= n -> skipn (N.to_nat n) a = [].
Proof. intros. apply skipn_all2. unfold blen in *. lia. Qed.

Lemma skipn_add_app : forall (p r : bytes) n m, n = blen p + m ->
  skipn (N.to_nat n) (p ++ r) = skipn (N.to_nat m) r.
Proof.
  intros p r n m ->. unfold blen.
  replace (N.to_nat (N.of_nat (length p) + m)) with (length p + N.to_nat m)%nat by lia.
  rewrite skipn_app.
  replace (length p + N.to_nat m - length p)%nat with (N.to_nat m) by lia.
  rewrite skipn_all2 by lia. reflexivity.
Qed.

Lemma slice_app_at : forall (p m s : bytes) off n, off = blen p -> n = blen m ->
  slice (p ++ m ++ s) off n = m.
Proof.
  intros. unfold slice. rewrite skipn_blen_app by assumption. now apply firstn_blen_app.
Qed.

Lemma slice_0 : forall (m s : bytes) n, n = blen m -> slice (m ++ s) 0 n = m.
Proof. intros. apply (slice_app_at [] m s); auto. Qed.

Lemma slice_full : forall (b : bytes) n, n = blen b -> slice b 0 n = b.
Proof.
  intros. rewrite <- (app_nil_r b) at 1. now apply slice_0.
Qed.

Lemma slice_prefix : forall (b : bytes) n, n <= blen b -> slice b 0 n = firstn (N.to_nat n) b.
Proof. reflexivity. Qed.

(* ------------------------------------------------------------------ align8 *)
Lemma align8_ge : forall x, x <= align8 x.
Proof. intros. unfold align8. destruct (x mod 8 =? 0) eqn:E; lia. Qed.

Lemma align8_lt : forall x, align8 x < x + 8.
Proof. intros. unfold align8. destruct (x mod 8 =? 0) eqn:E; lia. Qed.

Lemma align8_mod : forall x, align8 x mod 8 = 0.
Proof. intros. unfold align8. destruct (x mod 8 =? 0) eqn:E; lia. Qed.

Lemma align8_id : forall x, x mod 8 = 0 -> align8 x = x.
Proof. intros. unfold align8. destruct (x mod 8 =? 0) eqn:E; lia. Qed.

Lemma obj_total_ge : forall l, 16 <= obj_total l /\ l + 16 <= obj_total l /\ obj_total l mod 8 = 0.
Proof. intros. unfold obj_total. pose proof (align8_ge l). pose proof (align8_mod l). lia. Qed.

(* ------------------------------------------------------------------ object encoding *)
Lemma blen_enc_obj : forall o, blen (enc_obj o) = obj_total (blen (o_data o)).
Proof.
  intros. unfold enc_obj, obj_total. rewrite !blen_app, !blen_le, blen_zeros.
  pose proof (align8_ge (blen (o_data o))). unfold blen in *. cbn [length]. lia.
Qed.

Lemma enc_obj_unfold : forall i r d, enc_obj (mkobj i r d) =
  le 2 i ++ le 2 r ++ [0; 0; 0; 0] ++ le 8 (blen d) ++ d ++ zeros (align8 (blen d) - blen d).
Proof. reflexivity. Qed.

(* the 16-byte object header followed by anything: what the readers extract *)
Lemma hdr_fields : forall i r l (R : bytes),
  let rest := le 2 i ++ le 2 r ++ [0; 0; 0; 0] ++ le 8 l ++ R in
  slice rest 0 2 = le 2 i /\ slice rest 2 2 = le 2 r /\ slice rest 4 4 = [0; 0; 0; 0] /\
  slice rest 8 8 = le 8 l /\ skipn 16 rest = R /\ blen rest = 16 + blen R.
Proof.
  intros. subst rest. repeat split; try reflexivity.
  rewrite !blen_app, !blen_le. unfold blen. cbn [length]. lia.
Qed.

(* ------------------------------------------------------------------ objects of a collection *)
(* consecutive indices from k, reference count 1 (what addObject produces) *)
Fixpoint objs_from (k : N) (objs : list gobj) : Prop :=
  match objs with
  | [] => True
  | o :: r => o_index o = k /\ o_ref o = 1 /\ objs_from (k + 1) r
  end.

Fixpoint total_of (objs : list gobj) : N :=
  match objs with [] => 0 | o :: r => obj_total (blen (o_data o)) + total_of r end.

Lemma total_of_app : forall a b, total_of (a ++ b) = total_of a + total_of b.
Proof. induction a; intros; cbn [app total_of]; [lia | rewrite IHa; lia]. Qed.

Lemma total_of_count : forall l, 16 * N.of_nat (length l) <= total_of l.
Proof.
  induction l; cbn [total_of length]; [lia|].
  pose proof (obj_total_ge (blen (o_data a))). lia.
Qed.

Lemma blen_flat_enc : forall l, blen (flat_map enc_obj l) = total_of l.
Proof.
  induction l; cbn [flat_map total_of]; [reflexivity|].
  rewrite blen_app, blen_enc_obj, IHl. reflexivity.
Qed.

Lemma objs_from_app : forall a k b,
  objs_from k (a ++ b) <-> objs_from k a /\ objs_from (k + N.of_nat (length a)) b.
Proof.
  induction a; intros k b; cbn [app objs_from length].
  - replace (k + N.of_nat 0) with k by lia. tauto.
  - rewrite IHa. replace (k + 1 + N.of_nat (length a0)) with (k + N.of_nat (S (length a0))) by lia. tauto.
Qed.

Lemma objs_from_in : forall l k o, objs_from k l -> In o l ->
  k <= o_index o /\ o_index o < k + N.of_nat (length l) /\ o_ref o = 1.
Proof.
  induction l; intros k o H Hin; [destruct Hin|].
  cbn [objs_from] in H. destruct H as (Hi & Hr & Hf). cbn [length].
  destruct Hin as [-> | Hin].
  - lia.
  - specialize (IHl _ _ Hf Hin). lia.
Qed.

Lemma in_total_of : forall l o, In o l -> obj_total (blen (o_data o)) <= total_of l.
Proof.
  induction l; intros o Hin; [destruct Hin|]. cbn [total_of].
  destruct Hin as [-> | Hin]; [lia|]. specialize (IHl _ Hin). lia.
Qed.

(* GetObject returns the object written under that index *)
Lemma get_object_in : forall l k o, objs_from k l -> In o l -> get_object l (o_index o) = Ok o.
Proof.
  induction l; intros k o H Hin; [destruct Hin|].
  cbn [get_object]. pose proof H as H0. cbn [objs_from] in H. destruct H as (Hi & Hr & Hf).
  destruct Hin as [-> | Hin].
  - now rewrite N.eqb_refl.
  - pose proof (objs_from_in _ _ _ Hf Hin).
    destruct (o_index a =? o_index o) eqn:E; [lia|]. eauto.
Qed.

(* ------------------------------------------------------------------ the reader inverts the object encoding *)
Definition W64 : N := 18446744073709551616.

Lemma parse_objs_enc : forall objs k T fuel,
  objs_from k objs -> 0 < k -> k + N.of_nat (length objs) <= 65536 ->
  total_of objs < W64 ->
  (forall f, (2 <= f)%nat -> parse_objs f T = Ok []) ->
  (length objs + 2 <= fuel)%nat ->
  parse_objs fuel (flat_map enc_obj objs ++ T) = Ok objs.
Proof.
  induction objs as [|o objs IH]; intros k T fuel Hf Hk Hn Ht HT Hfuel.
  - cbn [flat_map app]. apply HT. cbn in Hfuel. lia.
  - destruct fuel as [|fuel]; [cbn in Hfuel; lia|].
    cbn [objs_from] in Hf. destruct Hf as (Hi & Hr & Hf).
    cbn [flat_map total_of length] in *.
    destruct o as [i r d]. cbn [o_index o_ref o_data] in *. subst i r.
    rewrite (enc_obj_unfold k 1 d).
    rewrite <- !app_assoc.
    set (pad := zeros (align8 (blen d) - blen d)).
    set (R := d ++ pad ++ flat_map enc_obj objs ++ T).
    destruct (hdr_fields k 1 (blen d) R) as (F0 & F2 & _ & F8 & F16 & FL).
    cbn [parse_objs].
    rewrite FL, F0, F2, F8.
    pose proof (obj_total_ge (blen d)) as (Ho1 & Ho2 & _).
    assert (Hd : blen d < W64) by (unfold W64 in *; lia).
    rewrite !unle_le by (cbn; unfold W64 in *; lia).
    assert (HR : blen d <= blen R) by (unfold R; rewrite blen_app; lia).
    destruct (16 + blen R <? 16) eqn:E1; [lia|].
    destruct (16 + blen R - 16 <? blen d) eqn:E4; [lia|].
    destruct (k =? 0) eqn:E2; [lia|].
    destruct (16 + blen R <? 16 + blen d) eqn:E3; [lia|].
    assert (Hskip : skipn (N.to_nat (16 + align8 (blen d)))
                      (le 2 k ++ le 2 1 ++ [0; 0; 0; 0] ++ le 8 (blen d) ++ R)
                    = flat_map enc_obj objs ++ T).
    { replace (N.to_nat (16 + align8 (blen d))) with (N.to_nat (align8 (blen d)) + 16)%nat by lia.
      rewrite <- skipn_skipn, F16. unfold R.
      rewrite (app_assoc d pad). apply skipn_blen_app.
      rewrite blen_app. unfold pad. rewrite blen_zeros. pose proof (align8_ge (blen d)). lia. }
    rewrite Hskip.
    rewrite (IH (k + 1) T fuel); auto; try lia.
    assert (Hs : slice (le 2 k ++ le 2 1 ++ [0; 0; 0; 0] ++ le 8 (blen d) ++ R) 16 (blen d) = d).
    { unfold slice. change (N.to_nat 16) with 16%nat. rewrite F16. unfold R.
      now apply firstn_blen_app. }
    rewrite Hs. reflexivity.
Qed.

(* the free-space marker and the zero tail end the object loop *)
Lemma parse_tail : forall free f,
  (2 <= f)%nat -> free < W64 ->
  parse_objs f ((if 16 <=? free then le 2 0 ++ le 2 0 ++ [0; 0; 0; 0] ++ le 8 (free - 16) else [])
                ++ zeros (if 16 <=? free then free - 16 else free)) = Ok [].
Proof.
  intros free f Hf Hfree. destruct f as [|[|f]]; try lia.
  destruct (16 <=? free) eqn:E; cbv iota.
  - rewrite <- !app_assoc.
    destruct (hdr_fields 0 0 (free - 16) (zeros (free - 16))) as (F0 & _ & _ & F8 & F16 & FL).
    cbn [parse_objs]. unfold bytes, byte in *. rewrite FL, F0, F8, blen_zeros.
    rewrite !unle_le by (cbn; unfold W64 in *; lia).
    destruct (16 + (free - 16) <? 16) eqn:E1; [lia|].
    destruct (16 + (free - 16) - 16 <? free - 16) eqn:E2; [lia|].
    cbn [N.eqb].
    rewrite skipn_all_blen.
    + reflexivity.
    + rewrite FL, blen_zeros. pose proof (align8_ge (free - 16)). lia.
  - cbn [app parse_objs]. rewrite blen_zeros.
    destruct (free <? 16) eqn:E1; [reflexivity | lia].
Qed.

(* ------------------------------------------------------------------ well-formed collection builder *)
Record wfc0 (c : coll) : Prop := {
  wf_sum : c_used c + c_free c = c_size c;
  wf_used : c_used c = 16 + total_of (c_objs c);
  wf_idx : objs_from 1 (c_objs c);
  wf_next : c_next c = 1 + N.of_nat (length (c_objs c));
  wf_cnt : c_next c < 65536;
  wf_mod : c_size c mod 8 = 0 }.

(* ... whose size fits the 8-byte size field (true for every collection of a file below 2^64 bytes) *)
Definition wfc (c : coll) : Prop := wfc0 c /\ c_size c < W64.

Definition tail_zeros (c : coll) : N := if 16 <=? c_free c then c_free c - 16 else c_free c.

Lemma blen_enc_free : forall c, blen (enc_free c) = if 16 <=? c_free c then 16 else 0.
Proof. intros. unfold enc_free. destruct (16 <=? c_free c); reflexivity. Qed.

Lemma blen_content : forall c, blen (coll_content c) = 16 + total_of (c_objs c) + blen (enc_free c).
Proof.
  intros. unfold coll_content. rewrite !blen_app, blen_le, blen_flat_enc.
  unfold blen at 1 2 3. cbn [length sig_gcol]. lia.
Qed.

Lemma encode_wfc0 : forall c, wfc0 c ->
  encode_collection c = Some (coll_content c ++ zeros (tail_zeros c))
  /\ blen (coll_content c ++ zeros (tail_zeros c)) = c_size c.
Proof.
  intros c [Hs Hu _ _ _ _]. unfold encode_collection.
  pose proof (blen_content c) as Hb. rewrite blen_enc_free in Hb.
  assert (Hz : c_size c - blen (coll_content c) = tail_zeros c).
  { unfold tail_zeros. destruct (16 <=? c_free c) eqn:E; lia. }
  assert (Hle : blen (coll_content c) <= c_size c) by (destruct (16 <=? c_free c) eqn:E; lia).
  destruct (blen (coll_content c) <=? c_size c) eqn:E; [|lia].
  rewrite Hz. split; [reflexivity|]. rewrite blen_app, blen_zeros. lia.
Qed.

Lemma encode_wfc : forall c, wfc c ->
  encode_collection c = Some (coll_content c ++ zeros (tail_zeros c))
  /\ blen (coll_content c ++ zeros (tail_zeros c)) = c_size c.
Proof. intros c [H _]. now apply encode_wfc0. Qed.

(* shape of the encoded collection: 16-byte header, then objects, free marker, zeros *)
Lemma content_shape : forall c,
  coll_content c ++ zeros (tail_zeros c) =
  (sig_gcol ++ [1] ++ [0; 0; 0] ++ le 8 (c_size c)) ++
  flat_map enc_obj (c_objs c) ++ (enc_free c ++ zeros (tail_zeros c)).
Proof. intros. unfold coll_content. now rewrite <- !app_assoc. Qed.

Lemma hdr16 : forall sz (R : bytes),
  let b := (sig_gcol ++ [1] ++ [0; 0; 0] ++ le 8 sz) ++ R in
  slice b 0 4 = sig_gcol /\ nth 4 b 0 = 1 /\ slice b 5 3 = [0; 0; 0] /\ slice b 8 8 = le 8 sz
  /\ skipn 16 b = R /\ blen b = 16 + blen R /\ slice b 0 16 = sig_gcol ++ [1] ++ [0; 0; 0] ++ le 8 sz.
Proof.
  intros. subst b. repeat split; try reflexivity.
  rewrite !blen_app, blen_le. unfold blen. cbn [length sig_gcol]. lia.
Qed.

Lemma wfc_bounds : forall c, wfc c ->
  c_free c < W64 /\ total_of (c_objs c) < W64 /\ 16 <= c_size c
  /\ 16 * N.of_nat (length (c_objs c)) <= c_size c.
Proof.
  intros c [[Hs Hu _ _ _ _] Hl]. pose proof (total_of_count (c_objs c)). lia.
Qed.

(* ReadGlobalHeapCollection's object loop on the encoded collection returns the builder's objects *)
Lemma parse_encoded : forall c, wfc c ->
  parse_objs (S (S (N.to_nat (c_size c / 16))))
             (skipn 16 (coll_content c ++ zeros (tail_zeros c))) = Ok (c_objs c).
Proof.
  intros c Hw. pose proof (wfc_bounds c Hw) as (Hf & Ht & Hsz & Hcnt).
  destruct Hw as [[Hs Hu Hi Hn Hc Hm] Hl].
  rewrite content_shape.
  destruct (hdr16 (c_size c) (flat_map enc_obj (c_objs c) ++ enc_free c ++ zeros (tail_zeros c)))
    as (_ & _ & _ & _ & F16 & _ & _).
  rewrite F16.
  apply (parse_objs_enc (c_objs c) 1).
  - exact Hi.
  - lia.
  - lia.
  - exact Ht.
  - intros f Hf2. unfold enc_free, tail_zeros. now apply parse_tail.
  - assert (N.of_nat (length (c_objs c)) <= c_size c / 16) by (apply N.div_le_lower_bound; lia).
    lia.
Qed.

(* ------------------------------------------------------------------ the file: extents written by the heap writer *)
(* newest first; every extent ends at or below the start of the one written after it *)
Fixpoint disk_ok (d : list (N * bytes)) (lim : N) : Prop :=
  match d with
  | [] => True
  | (a, b) :: r => 16 <= blen b /\ a + blen b <= lim /\ disk_ok r a
  end.

Lemma disk_ok_mono : forall d l1 l2, disk_ok d l1 -> l1 <= l2 -> disk_ok d l2.
Proof. destruct d as [|[a b] r]; cbn [disk_ok]; intros; [auto|]. intuition lia. Qed.

Lemma disk_ok_in : forall d lim a b, disk_ok d lim -> In (a, b) d -> 16 <= blen b /\ a + blen b <= lim.
Proof.
  induction d as [|[a0 b0] r IH]; intros lim a b H Hin; [destruct Hin|].
  cbn [disk_ok] in H. destruct H as (H1 & H2 & H3).
  destruct Hin as [E | Hin].
  - inversion E; subst. lia.
  - specialize (IH _ _ _ H3 Hin). lia.
Qed.

Lemma read_at_in : forall d lim a b n, disk_ok d lim -> In (a, b) d -> n <= blen b ->
  read_at d a n = Some (slice b 0 n).
Proof.
  induction d as [|[a0 b0] r IH]; intros lim a b n H Hin Hn; [destruct Hin|].
  cbn [disk_ok] in H. destruct H as (H1 & H2 & H3). cbn [read_at].
  destruct Hin as [E | Hin].
  - inversion E; subst a0 b0.
    rewrite N.leb_refl. replace (a + n <=? a + blen b) with true by (symmetry; apply N.leb_le; lia).
    cbn [andb]. now rewrite N.sub_diag.
  - pose proof (disk_ok_in _ _ _ _ H3 Hin).
    replace (a0 <=? a) with false by (symmetry; apply N.leb_gt; lia).
    cbn [andb]. eauto.
Qed.

(* ReadGlobalHeapCollection on a file that holds the encoding of a well-formed builder *)
Lemma read_collection_encoded : forall d lim c b, disk_ok d lim -> wfc c ->
  encode_collection c = Some b -> In (c_addr c, b) d ->
  read_collection d (c_addr c) = Ok (mkrc (c_addr c) (c_size c) (c_objs c)).
Proof.
  intros d lim c b Hd Hw He Hin.
  destruct (encode_wfc c Hw) as (He' & Hlen).
  assert (Hb : b = coll_content c ++ zeros (tail_zeros c)) by congruence. subst b. clear He.
  pose proof (wfc_bounds c Hw) as (_ & _ & Hsz & _).
  pose proof (parse_encoded c Hw) as Hp.
  pose proof (proj2 Hw) as Hl.
  unfold read_collection.
  rewrite (read_at_in d lim (c_addr c) _ 16 Hd Hin) by lia.
  revert Hp Hin Hlen. rewrite content_shape.
  set (R := flat_map enc_obj (c_objs c) ++ enc_free c ++ zeros (tail_zeros c)).
  intros Hp Hin Hlen.
  destruct (hdr16 (c_size c) R) as (F0 & F4 & _ & F8 & F16 & FL & FH).
  rewrite FH.
  change (slice (sig_gcol ++ [1] ++ [0; 0; 0] ++ le 8 (c_size c)) 0 4) with sig_gcol.
  change (nth 4 (sig_gcol ++ [1] ++ [0; 0; 0] ++ le 8 (c_size c)) 0) with 1.
  change (slice (sig_gcol ++ [1] ++ [0; 0; 0] ++ le 8 (c_size c)) 8 8) with (le 8 (c_size c)).
  cbn [bytes_eqb list_eqb sig_gcol N.eqb Pos.eqb andb negb].
  rewrite unle_le by (cbn; unfold W64 in *; lia).
  destruct (c_size c <? 16) eqn:E; [lia|].
  rewrite (read_at_in d lim (c_addr c) _ (c_size c) Hd Hin) by lia.
  rewrite slice_full by lia.
  rewrite Hp. reflexivity.
Qed.

(* ------------------------------------------------------------------ the encoded collection satisfies the format predicate *)
Lemma all_zero_zeros : forall n, all_zero (zeros n) = true.
Proof.
  intros. unfold all_zero, zeros. induction (N.to_nat n); cbn [repeat forallb]; auto.
Qed.

Lemma existsb_fresh : forall k seen, (forall x, In x seen -> x < k) -> existsb (N.eqb k) seen = false.
Proof.
  induction seen; intros H; cbn [existsb]; [reflexivity|].
  rewrite IHseen by (intros; apply H; now right).
  assert (a < k) by (apply H; now left).
  destruct (k =? a) eqn:E; [lia | reflexivity].
Qed.

Lemma wf_tail : forall free f seen, (1 <= f)%nat -> free < W64 ->
  wf_objs 16 f seen
    ((if 16 <=? free then le 2 0 ++ le 2 0 ++ [0; 0; 0; 0] ++ le 8 (free - 16) else [])
     ++ zeros (if 16 <=? free then free - 16 else free)) = true.
Proof.
  intros free f seen Hf Hfree. destruct f as [|f]; [lia|].
  destruct (16 <=? free) eqn:E; cbv iota.
  - rewrite <- !app_assoc.
    destruct (hdr_fields 0 0 (free - 16) (zeros (free - 16))) as (F0 & F2 & F4 & F8 & F16 & FL).
    cbn [wf_objs]. unfold bytes, byte in *. rewrite FL, F0, F2, F4, F8, blen_zeros.
    rewrite !unle_le by (cbn; unfold W64 in *; lia).
    destruct (16 + (free - 16) =? 0) eqn:E0; [lia|].
    destruct (16 + (free - 16) <? 16) eqn:E1; [lia|].
    cbn [all_zero forallb N.eqb andb].
    apply N.eqb_eq. lia.
  - cbn [app wf_objs]. rewrite blen_zeros.
    destruct (free =? 0) eqn:E0; [reflexivity|].
    destruct (free <? 16) eqn:E1; [|lia]. apply all_zero_zeros.
Qed.

Lemma wf_objs_enc : forall objs k seen T fuel,
  objs_from k objs -> 0 < k -> k + N.of_nat (length objs) <= 65536 ->
  total_of objs < W64 ->
  (forall x, In x seen -> x < k) ->
  (forall f s, (1 <= f)%nat -> wf_objs 16 f s T = true) ->
  (length objs + 1 <= fuel)%nat ->
  wf_objs 16 fuel seen (flat_map enc_obj objs ++ T) = true.
Proof.
  induction objs as [|o objs IH]; intros k seen T fuel Hf Hk Hn Ht Hseen HT Hfuel.
  - cbn [flat_map app]. apply HT. cbn in Hfuel. lia.
  - destruct fuel as [|fuel]; [cbn in Hfuel; lia|].
    cbn [objs_from] in Hf. destruct Hf as (Hi & Hr & Hf).
    cbn [flat_map total_of length] in *.
    destruct o as [i r d]. cbn [o_index o_ref o_data] in *. subst i r.
    rewrite (enc_obj_unfold k 1 d).
    rewrite <- !app_assoc.
    set (pad := zeros (align8 (blen d) - blen d)).
    set (R := d ++ pad ++ flat_map enc_obj objs ++ T).
    destruct (hdr_fields k 1 (blen d) R) as (F0 & F2 & F4 & F8 & F16 & FL).
    cbn [wf_objs]. unfold bytes, byte in *.
    rewrite FL, F0, F4, F8.
    pose proof (obj_total_ge (blen d)) as (Ho1 & Ho2 & _).
    assert (Hd : blen d < W64) by (unfold W64 in *; lia).
    rewrite !unle_le by (cbn; unfold W64 in *; lia).
    assert (HR : align8 (blen d) <= blen R).
    { unfold R. rewrite !blen_app. unfold pad. rewrite blen_zeros.
      pose proof (align8_ge (blen d)). lia. }
    destruct (16 + blen R =? 0) eqn:E0; [lia|].
    destruct (16 + blen R <? 16) eqn:E1; [lia|].
    destruct (k =? 0) eqn:E2; [lia|].
    cbn [all_zero forallb N.eqb andb].
    rewrite existsb_fresh by assumption. cbn [negb andb].
    destruct (16 + align8 (blen d) <=? 16 + blen R) eqn:E3; [|lia]. cbn [andb].
    assert (Hskip : skipn (N.to_nat (16 + align8 (blen d)))
                      (le 2 k ++ le 2 1 ++ [0; 0; 0; 0] ++ le 8 (blen d) ++ R)
                    = flat_map enc_obj objs ++ T).
    { unfold bytes, byte.
      replace (N.to_nat (16 + align8 (blen d))) with (N.to_nat (align8 (blen d)) + 16)%nat by lia.
      rewrite <- skipn_skipn, F16. unfold R.
      rewrite (app_assoc d pad). apply skipn_blen_app.
      rewrite blen_app. unfold pad. rewrite blen_zeros. pose proof (align8_ge (blen d)). lia. }
    unfold bytes, byte in *. rewrite Hskip.
    apply (IH (k + 1)); auto; try lia.
    intros x [<- | Hx]; [lia|]. specialize (Hseen _ Hx). lia.
Qed.

Lemma wf_gcol_encoded : forall c b, wfc c -> encode_collection c = Some b -> wf_gcol 16 b = true.
Proof.
  intros c b Hw He.
  destruct (encode_wfc c Hw) as (He' & Hlen).
  assert (Hb : b = coll_content c ++ zeros (tail_zeros c)) by congruence. subst b. clear He.
  pose proof (wfc_bounds c Hw) as (Hfree & Ht & Hsz & Hcnt).
  destruct Hw as [[Hs Hu Hi Hn Hc Hm] Hl].
  revert Hlen. rewrite content_shape.
  set (R := flat_map enc_obj (c_objs c) ++ enc_free c ++ zeros (tail_zeros c)).
  intros Hlen.
  destruct (hdr16 (c_size c) R) as (F0 & F4 & F5 & F8 & F16 & FL & FH).
  unfold wf_gcol. unfold bytes, byte in *. rewrite F0, F4, F5, F8, F16, Hlen.
  rewrite unle_le by (cbn; unfold W64 in *; lia).
  rewrite N.eqb_refl, Hm.
  destruct (16 <=? c_size c) eqn:E; [|lia].
  cbn [bytes_eqb list_eqb sig_gcol N.eqb Pos.eqb andb all_zero forallb].
  rewrite ?N.eqb_refl. cbn [andb].
  unfold R. apply (wf_objs_enc (c_objs c) 1).
  - exact Hi.
  - lia.
  - lia.
  - exact Ht.
  - intros x [].
  - intros f s Hf. unfold enc_free, tail_zeros. now apply wf_tail.
  - assert (N.of_nat (length (c_objs c)) <= c_size c / 16) by (apply N.div_le_lower_bound; lia).
    lia.
Qed.

(* ------------------------------------------------------------------ references *)
Lemma parse_encode_reference : forall id, h_addr id < W64 -> h_idx id < 4294967296 ->
  parse_reference (encode_reference id) = Ok id.
Proof.
  intros [a i] Ha Hi. cbn [h_addr h_idx] in *. unfold parse_reference, encode_reference.
  cbn [h_addr h_idx].
  assert (HL : blen (le 8 a ++ le 4 i ++ [0; 0; 0; 0]) = 16).
  { rewrite !blen_app, !blen_le. reflexivity. }
  rewrite HL. change (16 <? 12) with false. cbv iota.
  rewrite slice_0 by (now rewrite blen_le).
  rewrite (slice_app_at (le 8 a) (le 4 i) [0; 0; 0; 0]) by (now rewrite blen_le).
  rewrite !unle_le by (cbn; unfold W64 in *; lia). reflexivity.
Qed.

(* ------------------------------------------------------------------ the writer as a state machine *)
Section Machine.
Variables minsz blk : N.

Definition params_ok : Prop :=
  0 < blk /\ blk mod 8 = 0 /\ minsz mod 8 = 0 /\ minsz + blk <= 1048000.
Hypothesis Hp : params_ok.

(* 16 * nextIndex + freeSpace stays below this bound after the first object of a collection:
   this is what keeps the uint16 object index from wrapping *)
Definition K : N := minsz + blk + 48.
Definition slack (c : coll) : Prop := 16 * c_next c + c_free c <= K.

Lemma new_size_props : forall tot, tot mod 8 = 0 ->
  let sz := new_size minsz blk tot in
  16 + tot + 16 <= sz /\ sz mod 8 = 0 /\ sz < tot + 32 + minsz + blk.
Proof.
  intros tot Ht. destruct Hp as (Hb & Hb8 & Hm8 & Hsum). unfold new_size. cbv zeta.
  destruct (minsz <? 16 + tot + 16) eqn:E.
  - set (needed := 16 + tot + 16) in *.
    set (q := (needed + (blk - 1)) / blk).
    assert (Hq : needed + (blk - 1) = blk * q + (needed + (blk - 1)) mod blk) by (apply N.div_mod; lia).
    pose proof (N.mod_lt (needed + (blk - 1)) blk ltac:(lia)).
    assert (Hmod : (q * blk) mod 8 = 0).
    { apply N.mod_divide; [lia|]. apply N.divide_mul_r. apply N.mod_divide; [lia | exact Hb8]. }
    repeat split; [nia | exact Hmod | nia].
  - repeat split; lia.
Qed.

Lemma add_object_wfc0 : forall c d, wfc0 c -> c_next c + 1 < 65536 -> obj_total (blen d) <= c_free c ->
  wfc0 (fst (add_object c d)).
Proof.
  intros c d [Hs Hu Hi Hn Hc Hm] Hnx Hsp. unfold add_object. cbn [fst].
  assert (Hw : wrap16 (c_next c + 1) = c_next c + 1) by (unfold wrap16; apply N.mod_small; lia).
  constructor; cbn [c_used c_free c_size c_objs c_next].
  - lia.
  - rewrite total_of_app. cbn [total_of o_data]. lia.
  - apply objs_from_app. split; [exact Hi|]. cbn [objs_from o_index o_ref]. repeat split; lia.
  - rewrite Hw, app_length. cbn [length]. lia.
  - rewrite Hw. exact Hnx.
  - exact Hm.
Qed.

Definition cur_ok (st : gstate) (c : coll) : Prop :=
  wfc0 c /\ slack c /\ c_addr c + c_size c <= eof st.

(* an issued heap id points at the written bytes: in the open collection, or in a closed collection
   whose encoding is on disk *)
Definition in_cur (st : gstate) (id : heapid) (d : bytes) : Prop :=
  exists c, cur st = Some c /\ c_addr c = h_addr id /\ In (mkobj (h_idx id) 1 d) (c_objs c).
Definition on_disk (dk : list (N * bytes)) (id : heapid) (d : bytes) : Prop :=
  exists c b, wfc0 c /\ c_addr c = h_addr id /\ encode_collection c = Some b
              /\ In (c_addr c, b) dk /\ In (mkobj (h_idx id) 1 d) (c_objs c).
Definition holds (st : gstate) (id : heapid) (d : bytes) : Prop :=
  in_cur st id d \/ on_disk (disk st) id d.

Definition closed_ok (dk : list (N * bytes)) : Prop :=
  forall a b, In (a, b) dk -> exists c, wfc0 c /\ c_addr c = a /\ encode_collection c = Some b.

Record Inv (st : gstate) : Prop := {
  inv_disk : disk_ok (disk st) (match cur st with Some c => c_addr c | None => eof st end);
  inv_cur : forall c, cur st = Some c -> cur_ok st c;
  inv_closed : closed_ok (disk st) }.

Lemma Inv_init : forall e0, Inv (mkst None e0 []).
Proof.
  intros. constructor; cbn [cur disk eof disk_ok]; auto.
  - intros c H. discriminate.
  - intros a b [].
Qed.

Lemma Inv_alloc : forall st n, Inv st -> Inv (mkst (cur st) (eof st + n) (disk st)).
Proof.
  intros st n [Hd Hc Hcl]. constructor; cbn [cur disk eof]; auto.
  - destruct (cur st); [exact Hd|]. eapply disk_ok_mono; [exact Hd | lia].
  - intros c Hcur. destruct (Hc c Hcur) as (A & B & C). unfold cur_ok. cbn [eof]. split; [exact A | split; [exact B | lia]].
Qed.

Lemma holds_alloc : forall st n id d, holds st id d -> holds (mkst (cur st) (eof st + n) (disk st)) id d.
Proof. intros st n id d H. exact H. Qed.

(* first object of a fresh collection *)
Lemma first_object : forall a d,
  let tot := obj_total (blen d) in
  let sz := new_size minsz blk tot in
  let c1 := fst (add_object (mkcoll a sz [] 1 16 (sz - 16)) d) in
  wfc0 c1 /\ slack c1 /\ c_addr c1 = a /\ c_size c1 = sz
  /\ c_objs c1 = [mkobj 1 1 d] /\ snd (add_object (mkcoll a sz [] 1 16 (sz - 16)) d) = 1.
Proof.
  intros a d tot sz c1.
  pose proof (obj_total_ge (blen d)) as (T1 & T2 & T3). fold tot in T1, T2, T3.
  pose proof (new_size_props tot T3) as (S1 & S2 & S3). fold sz in S1, S2, S3.
  assert (W0 : wfc0 (mkcoll a sz [] 1 16 (sz - 16))).
  { constructor; cbn [c_used c_free c_size c_objs c_next total_of objs_from length]; auto; lia. }
  refine (conj _ (conj _ (conj eq_refl (conj eq_refl (conj eq_refl eq_refl))))).
  - apply add_object_wfc0; cbn [c_next c_free]; auto; fold tot; lia.
  - unfold c1, slack, add_object, K. cbn [fst c_next c_free]. fold tot.
    unfold wrap16. change ((1 + 1) mod 65536) with 2. lia.
Qed.

Lemma disk_ok_cons_closed : forall dk c b lim, disk_ok dk (c_addr c) -> wfc0 c ->
  encode_collection c = Some b -> c_addr c + c_size c <= lim -> disk_ok ((c_addr c, b) :: dk) lim.
Proof.
  intros dk c b lim Hd Hw He Hl. cbn [disk_ok].
  destruct (encode_wfc0 c Hw) as (He' & Hlen).
  assert (b = coll_content c ++ zeros (tail_zeros c)) by congruence. subst b.
  destruct Hw as [Hs Hu _ _ _ _]. refine (conj _ (conj _ Hd)); lia.
Qed.

Lemma write_obj_inv : forall st d, Inv st ->
  exists st' id, write_obj minsz blk st d = Some (st', id) /\ Inv st' /\ holds st' id d
    /\ (forall id0 d0, holds st id0 d0 -> holds st' id0 d0) /\ eof st <= eof st'.
Proof.
  intros st d [Hd Hc Hcl]. unfold write_obj.
  set (tot := obj_total (blen d)).
  pose proof (obj_total_ge (blen d)) as (T1 & T2 & T3). fold tot in T1, T2, T3.
  destruct (cur st) as [c|] eqn:Ecur.
  - destruct (Hc c eq_refl) as (Hw & Hsl & Hlim).
    unfold has_space. destruct (tot <=? c_free c) eqn:Esp; cbn [negb].
    + (* room in the open collection *)
      rewrite Ecur.
      destruct (add_object c d) as [c' i] eqn:Eadd.
      assert (Hc' : c' = fst (add_object c d)) by now rewrite Eadd.
      assert (Hi : i = c_next c) by (unfold add_object in Eadd; now inversion Eadd).
      assert (Hnx : c_next c + 1 < 65536).
      { unfold slack, K in Hsl. destruct Hp as (_ & _ & _ & Hsum). lia. }
      assert (Hw' : wfc0 c') by (subst c'; apply add_object_wfc0; auto; fold tot; lia).
      assert (Ha : c_addr c' = c_addr c) by (subst c'; reflexivity).
      assert (Hs : c_size c' = c_size c) by (subst c'; reflexivity).
      assert (Ho : c_objs c' = c_objs c ++ [mkobj (c_next c) 1 d]) by (subst c'; reflexivity).
      exists (mkst (Some c') (eof st) (disk st)), (mkid (c_addr c') i).
      split; [reflexivity|]. split; [|split; [|split]].
      * constructor; cbn [cur disk eof].
        -- now rewrite Ha.
        -- intros c0 E. inversion E; subst c0. unfold cur_ok. cbn [eof]. refine (conj Hw' (conj _ _)).
           ++ unfold slack in *. subst c'. unfold add_object. cbn [fst c_next c_free]. fold tot.
              unfold wrap16. rewrite N.mod_small by lia. lia.
           ++ lia.
        -- exact Hcl.
      * left. exists c'. cbn [cur h_addr h_idx]. repeat split; auto.
        rewrite Ho, Hi. apply in_or_app. right. now left.
      * intros id0 d0 [(c0 & E0 & A0 & I0) | H0].
        -- left. rewrite Ecur in E0. inversion E0; subst c0.
           exists c'. cbn [cur]. repeat split; auto; [congruence|].
           rewrite Ho. apply in_or_app. now left.
        -- right. exact H0.
      * cbn [eof]. lia.
    + (* roll-over: flush the open collection, start a new one *)
      unfold flush. rewrite Ecur.
      destruct (encode_wfc0 c Hw) as (He & Hlen). rewrite He.
      unfold create_heap. cbn [cur eof disk]. fold tot.
      set (sz := new_size minsz blk tot).
      destruct (first_object (eof st) d) as (F1 & F2 & F3 & F4 & F5 & F6).
      fold tot in F1, F2, F3, F4, F5, F6. fold sz in F1, F2, F3, F4, F5, F6.
      destruct (add_object (mkcoll (eof st) sz [] 1 16 (sz - 16)) d) as [c' i] eqn:Eadd.
      cbn [fst snd] in *. subst i.
      exists (mkst (Some c') (eof st + sz) ((c_addr c, coll_content c ++ zeros (tail_zeros c)) :: disk st)),
             (mkid (c_addr c') 1).
      split; [reflexivity|]. split; [|split; [|split]].
      * constructor; cbn [cur disk eof].
        -- rewrite F3. eapply disk_ok_cons_closed; eauto.
        -- intros c0 E. inversion E; subst c0. unfold cur_ok. cbn [eof]. refine (conj F1 (conj F2 _)). lia.
        -- intros a b [E | Hin].
           ++ inversion E; subst a b. exists c. auto.
           ++ apply Hcl. exact Hin.
      * left. exists c'. cbn [cur h_addr h_idx]. repeat split; auto. rewrite F5. now left.
      * intros id0 d0 [(c0 & E0 & A0 & I0) | (c0 & b0 & H0)].
        -- right. rewrite Ecur in E0. inversion E0; subst c0.
           exists c, (coll_content c ++ zeros (tail_zeros c)). cbn [disk].
           exact (conj Hw (conj A0 (conj He (conj (or_introl eq_refl) I0)))).
        -- right. exists c0, b0. cbn [disk]. destruct H0 as (H1 & H2 & H3 & H4 & H5).
           exact (conj H1 (conj H2 (conj H3 (conj (or_intror H4) H5)))).
      * cbn [eof]. lia.
  - (* no collection yet *)
    cbn [flush]. unfold flush. rewrite Ecur.
    unfold create_heap. cbn [cur eof disk]. fold tot.
    set (sz := new_size minsz blk tot).
    destruct (first_object (eof st) d) as (F1 & F2 & F3 & F4 & F5 & F6).
    fold tot in F1, F2, F3, F4, F5, F6. fold sz in F1, F2, F3, F4, F5, F6.
    destruct (add_object (mkcoll (eof st) sz [] 1 16 (sz - 16)) d) as [c' i] eqn:Eadd.
    cbn [fst snd] in *. subst i.
    exists (mkst (Some c') (eof st + sz) (disk st)), (mkid (c_addr c') 1).
    split; [reflexivity|]. split; [|split; [|split]].
    * constructor; cbn [cur disk eof].
      -- now rewrite F3.
      -- intros c0 E. inversion E; subst c0. unfold cur_ok. cbn [eof]. refine (conj F1 (conj F2 _)). lia.
      -- exact Hcl.
    * left. exists c'. cbn [cur h_addr h_idx]. repeat split; auto. rewrite F5. now left.
    * intros id0 d0 [(c0 & E0 & A0 & I0) | H0]; [congruence | right; exact H0].
    * cbn [eof]. lia.
Qed.

Lemma run_inv : forall ops st, Inv st ->
  exists st' ids, run minsz blk st ops = Some (st', ids) /\ Inv st' /\ eof st <= eof st'
    /\ length ids = length (writes ops)
    /\ (forall id0 d0, holds st id0 d0 -> holds st' id0 d0)
    /\ (forall i d, nth_error (writes ops) i = Some d ->
          exists id, nth_error ids i = Some id /\ holds st' id d).
Proof.
  induction ops as [|o r IH]; intros st HI.
  - exists st, []. cbn [run writes length].
    split; [reflexivity|]. split; [exact HI|]. split; [lia|]. split; [reflexivity|]. split; [auto|].
    intros i d H. destruct i; discriminate.
  - destruct o as [d | n].
    + destruct (write_obj_inv st d HI) as (st1 & id & Hw & HI1 & Hh & Hpres & Heof).
      destruct (IH st1 HI1) as (st2 & ids & Hr & HI2 & Heof2 & Hlen & Hpres2 & Hnth).
      exists st2, (id :: ids). cbn [run writes length]. rewrite Hw, Hr.
      split; [reflexivity|]. split; [exact HI2|]. split; [lia|]. split; [now rewrite Hlen|].
      split; [auto|].
      intros i d0 H. destruct i as [|i]; cbn [nth_error] in *.
      * inversion H; subst d0. exists id. split; auto.
      * apply Hnth. exact H.
    + destruct (IH _ (Inv_alloc st n HI)) as (st2 & ids & Hr & HI2 & Heof2 & Hlen & Hpres2 & Hnth).
      exists st2, ids. cbn [run writes]. rewrite Hr. cbn [eof] in Heof2.
      split; [reflexivity|]. split; [exact HI2|]. split; [lia|]. split; [exact Hlen|].
      split; [|exact Hnth].
      intros id0 d0 H. apply Hpres2. exact H.
Qed.

(* Close: Flush writes the open collection; from then on everything issued is on disk *)
Lemma flush_final : forall st, Inv st ->
  exists fin, flush st = Some fin /\ eof fin = eof st /\ disk_ok (disk fin) (eof st)
    /\ closed_ok (disk fin) /\ (forall id d, holds st id d -> on_disk (disk fin) id d).
Proof.
  intros st [Hd Hc Hcl]. unfold flush.
  destruct (cur st) as [c|] eqn:Ecur.
  - destruct (Hc c eq_refl) as (Hw & Hsl & Hlim).
    destruct (encode_wfc0 c Hw) as (He & Hlen). rewrite He.
    eexists. split; [reflexivity|]. cbn [eof disk]. split; [reflexivity|]. split; [|split].
    + eapply disk_ok_cons_closed; eauto.
    + intros a b [E | Hin]; [inversion E; subst a b; exists c; auto | now apply Hcl].
    + intros id d [(c0 & E0 & A0 & I0) | (c0 & b0 & H1 & H2 & H3 & H4 & H5)].
      * assert (c0 = c) by congruence. subst c0.
        exists c, (coll_content c ++ zeros (tail_zeros c)).
        exact (conj Hw (conj A0 (conj He (conj (or_introl eq_refl) I0)))).
      * exists c0, b0. exact (conj H1 (conj H2 (conj H3 (conj (or_intror H4) H5)))).
  - exists st. split; [reflexivity|]. split; [reflexivity|]. split; [exact Hd|]. split; [exact Hcl|].
    intros id d [(c0 & E0 & _) | H]; [congruence | exact H].
Qed.
End Machine.

(* ------------------------------------------------------------------ reading back *)
Lemma resolve_on_disk : forall dk lim id d, disk_ok dk lim -> lim < W64 -> on_disk dk id d ->
  resolve dk (encode_reference id) = Ok d.
Proof.
  intros dk lim id d Hd Hlim (c & b & Hw & Ha & He & Hin & Ho).
  destruct (disk_ok_in _ _ _ _ Hd Hin) as (Hb1 & Hb2).
  destruct (encode_wfc0 c Hw) as (He' & Hlen).
  assert (Hb : blen b = c_size c) by congruence.
  assert (Hwc : wfc c) by (split; [exact Hw | lia]).
  pose proof (objs_from_in _ _ _ (wf_idx c Hw) Ho) as (I1 & I2 & _). cbn [o_index] in I1, I2.
  pose proof (wf_next c Hw) as Hn. pose proof (wf_cnt c Hw) as Hc.
  unfold resolve. rewrite parse_encode_reference by lia.
  rewrite <- Ha. rewrite (read_collection_encoded dk lim c b Hd Hwc He Hin). cbn [r_objs].
  pose proof (get_object_in _ _ _ (wf_idx c Hw) Ho) as Hg. cbn [o_index] in Hg.
  rewrite Hg. reflexivity.
Qed.

Lemma wf_on_disk : forall dk lim, disk_ok dk lim -> lim < W64 -> closed_ok dk ->
  forall a b, In (a, b) dk -> wf_gcol 16 b = true.
Proof.
  intros dk lim Hd Hlim Hcl a b Hin.
  destruct (Hcl a b Hin) as (c & Hw & Ha & He).
  destruct (disk_ok_in _ _ _ _ Hd Hin) as (Hb1 & Hb2).
  destruct (encode_wfc0 c Hw) as (He' & Hlen).
  assert (Hb : blen b = c_size c) by congruence.
  apply (wf_gcol_encoded c b); [split; [exact Hw | lia] | exact He].
Qed.

(* ------------------------------------------------------------------ the property *)
(* never a Go run-time failure, whatever is written *)
Lemma C12_total_lemma : forall minsz blk e0 ops, params_ok minsz blk ->
  exists fin ids, run_close minsz blk e0 ops = Some (fin, ids).
Proof.
  intros minsz blk e0 ops Hp. unfold run_close.
  destruct (run_inv minsz blk Hp ops _ (Inv_init minsz blk e0)) as (st & ids & Hr & HI & _).
  rewrite Hr. destruct (flush_final minsz blk st HI) as (fin & Hf & _). rewrite Hf. eauto.
Qed.

Lemma C12_roundtrip_lemma : forall minsz blk e0 ops fin ids, params_ok minsz blk ->
  run_close minsz blk e0 ops = Some (fin, ids) -> eof fin < W64 ->
  length ids = length (writes ops) /\
  forall i d, nth_error (writes ops) i = Some d ->
    exists id, nth_error ids i = Some id /\ resolve (disk fin) (encode_reference id) = Ok d.
Proof.
  intros minsz blk e0 ops fin ids Hp Hrun Hlim. unfold run_close in Hrun.
  destruct (run_inv minsz blk Hp ops _ (Inv_init minsz blk e0)) as (st & ids' & Hr & HI & _ & Hlen & _ & Hnth).
  rewrite Hr in Hrun.
  destruct (flush_final minsz blk st HI) as (fin' & Hf & Heof & Hd & Hcl & Hon). rewrite Hf in Hrun.
  inversion Hrun; subst fin' ids'. split; [exact Hlen|].
  intros i d Hi. destruct (Hnth i d Hi) as (id & Hid & Hh). exists id. split; [exact Hid|].
  apply (resolve_on_disk (disk fin) (eof st)); auto. lia.
Qed.

Lemma C12_wellformed_lemma : forall minsz blk e0 ops fin ids, params_ok minsz blk ->
  run_close minsz blk e0 ops = Some (fin, ids) -> eof fin < W64 ->
  forall a b, In (a, b) (disk fin) -> wf_gcol 16 b = true.
Proof.
  intros minsz blk e0 ops fin ids Hp Hrun Hlim. unfold run_close in Hrun.
  destruct (run_inv minsz blk Hp ops _ (Inv_init minsz blk e0)) as (st & ids' & Hr & HI & _).
  rewrite Hr in Hrun.
  destruct (flush_final minsz blk st HI) as (fin' & Hf & Heof & Hd & Hcl & Hon). rewrite Hf in Hrun.
  inversion Hrun; subst fin' ids'.
  apply (wf_on_disk (disk fin) (eof st)); auto. lia.
Qed.

(* every issued object index is a genuine uint16 other than 0 (0 is the free-space marker):
   the 16-bit counter cannot wrap, because a collection never holds more than (minsz+blk+48)/16
   objects (params_ok bounds that by 65535; with the shipped 4096/4096 it is 514) *)
Lemma C12_index_lemma : forall minsz blk e0 ops fin ids, params_ok minsz blk ->
  run_close minsz blk e0 ops = Some (fin, ids) ->
  forall i id, nth_error ids i = Some id -> 1 <= h_idx id /\ h_idx id < 65536.
Proof.
  intros minsz blk e0 ops fin ids Hp Hrun i id Hi. unfold run_close in Hrun.
  destruct (run_inv minsz blk Hp ops _ (Inv_init minsz blk e0)) as (st & ids' & Hr & HI & _ & Hlen & _ & Hnth).
  rewrite Hr in Hrun.
  destruct (flush_final minsz blk st HI) as (fin' & Hf & Heof & Hd & Hcl & Hon). rewrite Hf in Hrun.
  inversion Hrun; subst fin' ids'.
  assert (Hlt : (i < length (writes ops))%nat).
  { rewrite <- Hlen. apply nth_error_Some. congruence. }
  destruct (nth_error (writes ops) i) as [d|] eqn:Ed; [|apply nth_error_None in Ed; lia].
  destruct (Hnth i d Ed) as (id' & Hid' & Hh).
  assert (id' = id) by congruence. subst id'.
  destruct (Hon id d Hh) as (c & b & Hw & _ & _ & _ & Ho).
  pose proof (objs_from_in _ _ _ (wf_idx c Hw) Ho) as (I1 & I2 & _). cbn [o_index] in I1, I2.
  pose proof (wf_next c Hw). pose proof (wf_cnt c Hw). lia.
Qed.

(* ------------------------------------------------------------------ variable-length datatype message *)
Definition is_vstring (b : vbase) : bool := match b with VString => true | _ => false end.

(* repaired encoder: the reader sees class 9, size 16, the sequence/string flag, and the base type
   message as the properties; the base type parses to the class/size/sign the writer registered *)
Lemma C12_vlen_dt_lemma : forall b, exists m base bprops,
  enc_vlen b = Ok m /\ enc_base b = Ok base
  /\ parse_datatype m = Ok (mkdt 9 1 16 (vl_bits b) base)
  /\ parse_datatype base = Ok (mkdt (fst (fst (base_cls b))) 1 (snd (fst (base_cls b))) (snd (base_cls b)) bprops)
  /\ is_variable_string (mkdt 9 1 16 (vl_bits b) base) = is_vstring b
  /\ vlen_recognised b m = true.
Proof.
  destruct b; vm_compute; do 3 eexists; repeat split; reflexivity.
Qed.

(* encoder of the pinned tree (finding D10): every vlen message parses as class 0 (fixed point) *)
Lemma C12_vlen_dt_old_lemma : forall b, exists m d,
  enc_vlen_old b = Ok m /\ parse_datatype m = Ok d /\ d_class d = 0 /\ d_version d = 9
  /\ vlen_recognised b m = false.
Proof.
  destruct b; vm_compute; do 2 eexists; repeat split; reflexivity.
Qed.

(* ------------------------------------------------------------------ non-vacuity *)
Definition ex_ops : list op :=
  [W []; W (repeat 7 (N.to_nat 4032)); W [1; 2; 3]; A 100; W []; W (repeat 171 (N.to_nat 70000));
   W (unhex "00ff00e4bda0e5a5bd00")].

(* a history with an element filling a collection exactly, a roll-over, a foreign allocation, an
   element larger than a collection and embedded NULs: 3 collections at the expected addresses, all
   references resolve, all collections are well-formed; they are NOT well-formed under the HDF5
   library's free-space size convention (D16), and a collection that is 8 bytes longer than its
   declared size is rejected.  (Stated as one boolean so that vm_compute never has to print the
   70 KiB collections.) *)
Definition ex_check : bool :=
  match run_close 4096 4096 2048 ex_ops with
  | None => false
  | Some (fin, ids) =>
      list_eqb (fun x y => (fst x =? fst y) && (snd x =? snd y))
               (map (fun e => (fst e, blen (snd e))) (disk fin)) [(10340, 73728); (6144, 4096); (2048, 4096)]
      && list_eqb (fun x y => (h_addr x =? h_addr y) && (h_idx x =? h_idx y)) ids
           [mkid 2048 1; mkid 2048 2; mkid 6144 1; mkid 6144 2; mkid 10340 1; mkid 10340 2]
      && all_resolve (disk fin) ids (writes ex_ops)
      && forallb (fun e => wf_gcol 16 (snd e)) (disk fin)
      && negb (existsb (fun e => wf_gcol 0 (snd e)) (disk fin))
      && negb (existsb (fun e => wf_gcol 16 (snd e ++ [0; 0; 0; 0; 0; 0; 0; 0])) (disk fin))
  end.

Lemma C12_example_lemma : ex_check = true.
Proof. vm_compute. reflexivity. Qed.

Lemma params_shipped : params_ok 4096 4096.
Proof. unfold params_ok. repeat split; try reflexivity; lia. Qed.
