(* C19 part A: the configuration selects the delete entry point; the records do not depend on it. *)
From HV Require Import Base.Prelude Model.RebalanceConfig.

Open Scope N_scope.

Section Hash.
  Variable hash : string -> N.
  Variable max_records : N.

  Lemma search_remove : forall h l, search h l <> None -> remove_first h l <> None.
  Proof.
    induction l as [|r l IH]; cbn [search remove_first]; intros H; [congruence|].
    destruct (fst r =? h); [discriminate|]. specialize (IH H). destruct (remove_first h l); [discriminate|congruence].
  Qed.

  (* all three entry points remove the first record with an equal hash and leave the rest in order *)
  Lemma delete_entry_points_agree : forall name bt s tr de, bt_lazy bt = Some s -> lz_enabled s = true ->
    let plain := delete_record hash name (mkBtree (bt_records bt) (bt_total bt) (bt_nroot bt) None) in
    let rebal := delete_with_rebalancing hash name (mkBtree (bt_records bt) (bt_total bt) (bt_nroot bt) None) in
    let lzy := delete_lazy hash max_records tr de name bt in
    plain = rebal /\ fst lzy = fst rebal /\ bt_records (snd lzy) = bt_records (snd rebal)
    /\ bt_total (snd lzy) = bt_total (snd rebal) /\ bt_nroot (snd lzy) = bt_nroot (snd rebal)
    /\ (fst rebal = ROk -> remove_first (hash name) (bt_records bt) = Some (bt_records (snd rebal)))
    /\ (fst rebal = RErr -> remove_first (hash name) (bt_records bt) = None /\ bt_records (snd rebal) = bt_records bt).
  Proof.
    intros name bt s tr de Hl He. cbn zeta.
    unfold delete_record, delete_with_rebalancing, delete_lazy, is_lazy_enabled. rewrite Hl, He.
    cbn [negb bt_records bt_total bt_nroot bt_lazy].
    destruct (remove_first (hash name) (bt_records bt)) as [l|]; cbn [fst snd bt_records bt_total bt_nroot];
      repeat split; try reflexivity; try discriminate.
  Qed.

  Definition same_visible (a b : btree) : Prop :=
    bt_records a = bt_records b /\ bt_total a = bt_total b /\ bt_nroot a = bt_nroot b.

  Lemma step_config_irrelevant : forall cf1 cf2 o a b, same_visible a b ->
    fst (step hash max_records cf1 o a) = fst (step hash max_records cf2 o b)
    /\ same_visible (snd (step hash max_records cf1 o a)) (snd (step hash max_records cf2 o b)).
  Proof.
    intros cf1 cf2 o a b [H1 [H2 H3]]. unfold step. destruct o as [n id|n].
    - unfold insert_record. cbn [bt_records bt_total bt_nroot bt_lazy]. rewrite H1, H2, H3.
      destruct (existsb _ _); [cbn [fst snd]; repeat split; auto|].
      destruct (max_records <=? _); cbn [fst snd]; repeat split; cbn [bt_records bt_total bt_nroot]; auto.
    - unfold dense_delete. cbn [bt_records bt_total bt_nroot bt_lazy]. rewrite H1, H2, H3.
      destruct (String.eqb n ""); [cbn [fst snd]; repeat split; auto|].
      destruct (search (hash n) (bt_records b)) eqn:ES; [|cbn [fst snd]; repeat split; auto].
      assert (HR : remove_first (hash n) (bt_records b) <> None) by (apply search_remove; congruence).
      destruct (remove_first (hash n) (bt_records b)) as [l|] eqn:ER; [|congruence].
      unfold is_lazy_enabled, delete_lazy, delete_record, delete_with_rebalancing, is_lazy_enabled.
      cbn [bt_records bt_total bt_nroot bt_lazy]. rewrite ER.
      destruct (cf_lazy cf1) as [s1|]; destruct (cf_lazy cf2) as [s2|];
        try destruct (lz_enabled s1); try destruct (lz_enabled s2); cbn [negb];
        try destruct (cf_rebalance cf1); try destruct (cf_rebalance cf2);
        cbn [fst snd]; repeat split; reflexivity.
  Qed.

  Lemma run_config_irrelevant : forall cfs1 cfs2 ops i j a b, same_visible a b ->
    fst (run_hist hash max_records cfs1 i ops a) = fst (run_hist hash max_records cfs2 j ops b)
    /\ same_visible (snd (run_hist hash max_records cfs1 i ops a)) (snd (run_hist hash max_records cfs2 j ops b)).
  Proof.
    induction ops as [|o ops IH]; intros i j a b H; cbn [run_hist]; [split; [reflexivity|exact H]|].
    destruct (step_config_irrelevant (cfs1 i) (cfs2 j) o a b H) as [E1 E2].
    destruct (step hash max_records (cfs1 i) o a) as [x1 a'].
    destruct (step hash max_records (cfs2 j) o b) as [x2 b']. cbn [fst snd] in E1, E2.
    destruct (IH (S i) (S j) a' b' E2) as [F1 F2].
    destruct (run_hist hash max_records cfs1 (S i) ops a') as [xs1 a''].
    destruct (run_hist hash max_records cfs2 (S j) ops b') as [xs2 b'']. cbn [fst snd] in *.
    split; [congruence|exact F2].
  Qed.

  Theorem config_irrelevant : forall cfs ops,
    visible (run_hist hash max_records cfs 0 ops btree0)
    = visible (run_hist hash max_records (fun _ => default_config) 0 ops btree0).
  Proof.
    intros cfs ops.
    destruct (run_config_irrelevant cfs (fun _ => default_config) ops 0%nat 0%nat btree0 btree0) as [E1 [E2 [E3 E4]]];
      [repeat split|].
    unfold visible. rewrite E1, E2, E3, E4. reflexivity.
  Qed.
End Hash.

(* non-vacuity: a history with a delete that succeeds, one that fails, under three configurations *)
Definition toy_hash (s : string) : N := N.of_nat (String.length s).
Definition lazy_on : config := mkConfig false (Some (mkLazy true 0 0)) (fun u => (0 <? u)%Z) true.
Definition plain_cfg : config := mkConfig false None (fun _ => false) false.
Example ex_history :
  let ops := [OIns "aa" 1; OIns "b" 2; OIns "cccc" 3; ODel "b"; ODel "zzzzz"; OIns "ddd" 4; OIns "xx" 5; ODel "aa"]%string in
  visible (run_hist toy_hash 371 (fun i => if Nat.even i then lazy_on else plain_cfg) 0 ops btree0)
  = ([ROk; ROk; ROk; ROk; RErr; ROk; RErr; ROk], [(3, 4); (4, 3)], 2, 2).
Proof. vm_compute. reflexivity. Qed.

(* the lazy entry point does do something else besides (its bookkeeping differs), so the theorem is
   about the visible part and not a consequence of the three functions being syntactically equal *)
Example ex_lazy_bookkeeping :
  bt_lazy (snd (delete_lazy toy_hash 371 (fun _ => false) false "b"
                   (mkBtree [(1, 2)] 1 1 (Some (mkLazy true 0 0)))))
  = Some (mkLazy true 1 1).
Proof. vm_compute. reflexivity. Qed.
