(* C07: why the version-1 object-header statement carries a hypothesis.
   The model of parseV1MessagesInBlock guards the message-data read with
   readable file (wrap64 (current + 8)) size  but slices the image at the unwrapped  current + 8.
   On an image of exactly 2^64 elements (which no vm_compute can build, so the witness is evaluated
   symbolically) holding two non-byte elements the two differ, and the model panics.  Go cannot reach
   this: it never slices the image, it ReadAt()s into a separate buffer at int64(current+8), and no
   io.ReaderAt holds 2^64 bytes.  So this is an artefact of the model, not a defect of /repo; the
   theorems dec_ohdr_no_panic_partial / dec_ohdr_no_panic_bytes exclude exactly it. *)
From HV Require Import Base.Prelude Base.Outcome Base.Bytes.
From HV Require Import Model.CodecOhdr.
From HV Require Import Proofs.RobustNoPanicBase.

(* slices that lie inside the first / start inside the second part of a concatenation *)
Lemma slice_app_l (l1 l2 : list N) a b : b <= blen l1 -> slice (l1 ++ l2) a b = slice l1 a b.
Proof.
  intros H. unfold slice. rewrite blen_app.
  destruct (a <=? b) eqn:E1; cbn [andb]; [|reflexivity]. apply N.leb_le in E1.
  replace (b <=? blen l1 + blen l2) with true by (symmetry; apply N.leb_le; blia).
  replace (b <=? blen l1) with true by (symmetry; apply N.leb_le; blia).
  f_equal. unfold blen in *. rewrite skipn_app, firstn_app, skipn_length.
  replace (N.to_nat (b - a) - (length l1 - N.to_nat a))%nat with 0%nat by blia.
  cbn [firstn]. apply app_nil_r.
Qed.
Lemma slice_app_r (l1 l2 : list N) a b :
  blen l1 <= a -> a <= b -> slice (l1 ++ l2) a b = slice l2 (a - blen l1) (b - blen l1).
Proof.
  intros H1 H2. unfold slice. rewrite blen_app.
  replace (a <=? b) with true by (symmetry; apply N.leb_le; blia).
  replace (a - blen l1 <=? b - blen l1) with true by (symmetry; apply N.leb_le; blia).
  cbn [andb].
  replace (b - blen l1 <=? blen l2) with (b <=? blen l1 + blen l2)
    by (destruct (b <=? blen l1 + blen l2) eqn:E; symmetry;
        [apply N.leb_le in E; apply N.leb_le | apply N.leb_gt in E; apply N.leb_gt]; blia).
  destruct (b <=? blen l1 + blen l2); [|reflexivity].
  f_equal. unfold blen in *. rewrite skipn_app, skipn_all2 by blia. cbn [app].
  replace (N.to_nat a - length l1)%nat with (N.to_nat (a - N.of_nat (length l1))) by blia.
  replace (N.to_nat (b - N.of_nat (length l1) - (a - N.of_nat (length l1)))) with (N.to_nat (b - a)) by blia.
  reflexivity.
Qed.
Lemma index_app_l (l1 l2 : list N) i : i < blen l1 -> index (l1 ++ l2) i = index l1 i.
Proof. intros H. unfold index, blen in *. bnorm. rewrite nth_error_app1 by blia. reflexivity. Qed.

Lemma slice_panic (bs : list N) a b : blen bs < b -> slice bs a b = Panic.
Proof.
  intros H. unfold slice. replace (b <=? blen bs) with false by (symmetry; apply N.leb_gt; blia).
  rewrite andb_false_r. reflexivity.
Qed.

Definition wit_head : bytes :=
  [1; 0; 2; 0;  0; 0; 0; 0;  18446744073709551599; 0; 0; 0;  0; 0; 0; 0;     (* v1 prefix: 2 messages, size 2^64-17 *)
   0; 0; 18446744073709551584; 0;  0; 0; 0; 0].                              (* message 1: size 2^64-32 *)
Definition wit_tail : bytes := [0; 0; 1; 0; 0; 0; 0; 0].                       (* message 2 at 2^64-8: size 1 *)
Definition wit_file : bytes :=
  (wit_head ++ zeros (N.to_nat 18446744073709551584)) ++ wit_tail.

Lemma wit_pre_len : blen (wit_head ++ zeros (N.to_nat 18446744073709551584)) = 18446744073709551608.
Proof. rewrite blen_app, blen_zeros, N2Nat.id. reflexivity. Qed.
Lemma wit_len : blen wit_file = 18446744073709551616.
Proof. unfold wit_file. rewrite blen_app, wit_pre_len. reflexivity. Qed.

Lemma wit_slice_head a b : b <= 24 -> slice wit_file a b = slice wit_head a b.
Proof.
  intros H. unfold wit_file. rewrite slice_app_l by (rewrite wit_pre_len; blia).
  apply slice_app_l. change (blen wit_head) with 24. exact H.
Qed.
Lemma wit_slice_tail a b : 18446744073709551608 <= a -> a <= b ->
  slice wit_file a b = slice wit_tail (a - 18446744073709551608) (b - 18446744073709551608).
Proof.
  intros H1 H2. unfold wit_file. rewrite slice_app_r by (rewrite ?wit_pre_len; blia).
  rewrite wit_pre_len. reflexivity.
Qed.

(* The evaluation is done for an abstract image [file] about which only its length and ten small reads
   are known: no reduction can then run into the unary length of the concrete image. *)
Section Symbolic.
Variable file : list N.
Hypothesis Hlen : blen file = 18446744073709551616.
Hypothesis Hp8 : slice file 0 8 = Ok [1; 0; 2; 0; 0; 0; 0; 0].
Hypothesis Hv : index file 0 = Ok 1.
Hypothesis Hnum : slice file 2 4 = Ok [2; 0].
Hypothesis Hrefc : slice file 4 8 = Ok [0; 0; 0; 0].
Hypothesis Hhsize : slice file 8 12 = Ok [18446744073709551599; 0; 0; 0].
Hypothesis Hty1 : slice file 16 18 = Ok [0; 0].
Hypothesis Hsz1 : slice file 18 20 = Ok [18446744073709551584; 0].
Hypothesis Hty2 : slice file 18446744073709551608 18446744073709551610 = Ok [0; 0].
Hypothesis Hsz2 : slice file 18446744073709551610 18446744073709551612 = Ok [1; 0].

(* evaluate the closed guard / closed first argument at the head of the left-hand side *)
Ltac hstep :=
  lazymatch goal with
  | |- (if ?c then _ else _) = _ =>
      lazymatch c with context [file] => fail "mentions file" | _ => idtac end;
      let v := eval vm_compute in c in change c with v; cbv beta iota
  | |- obind ?o _ = _ =>
      lazymatch o with context [file] => fail "mentions file" | _ => idtac end;
      let v := eval vm_compute in o in change o with v; cbn [obind]
  end.
(* bring the closed offsets of the reads to numerals *)
Ltac norm_reads :=
  repeat match goal with
  | |- context [slice file ?a ?b] =>
      let a' := eval vm_compute in a in let b' := eval vm_compute in b in
      progress change (slice file a b) with (slice file a' b')
  | |- context [index file ?a] =>
      let a' := eval vm_compute in a in progress change (index file a) with (index file a')
  end.

Lemma sym_loop2 fuel :
  v1_loop (S fuel) file false 18446744073709551608 18446744073709551615 1 2 = Panic.
Proof.
  cbn [v1_loop]. unfold readable, rd_end, rd_le. rewrite Hlen. norm_reads. rewrite Hty2, Hsz2.
  repeat hstep. norm_reads.
  rewrite slice_panic by (rewrite Hlen; blia). reflexivity.
Qed.

Lemma sym_loop1 fuel :
  v1_loop fuel file false 18446744073709551608 18446744073709551615 1 2 = Panic ->
  v1_loop (S fuel) file false 16 18446744073709551615 0 2 = Panic.
Proof.
  intros H2.
  cbn [v1_loop]. unfold readable, rd_end, rd_le. rewrite Hlen. norm_reads. rewrite Hty1, Hsz1.
  repeat hstep. norm_reads.
  destruct (slice_ok file 24 18446744073709551608) as (d & Hd & _); [blia | rewrite Hlen; blia |].
  rewrite Hd. cbn [obind].
  match goal with |- context [v1_loop fuel file false ?c ?e ?k ?m] =>
    let c' := eval vm_compute in c in let k' := eval vm_compute in k in
    change (v1_loop fuel file false c e k m) with (v1_loop fuel file false c' e k' m) end.
  rewrite H2. reflexivity.
Qed.

Lemma sym_parse_v1 : parse_v1 file 0 0 false = Panic.
Proof.
  unfold parse_v1, readable, rd_end, rd_le. rewrite Hlen. norm_reads. rewrite Hv, Hnum, Hrefc, Hhsize.
  repeat hstep. cbv zeta.
  assert (Hf : exists n, length file = S n).
  { destruct (length file) as [|n] eqn:E; [|eexists; reflexivity].
    unfold blen in Hlen. rewrite E in Hlen. discriminate Hlen. }
  destruct Hf as (n & Hn). bnorm. rewrite Hn.
  match goal with |- context [v1_loop ?f file false ?c ?e ?k ?m] =>
    let c' := eval vm_compute in c in let e' := eval vm_compute in e in
    change (v1_loop f file false c e k m) with (v1_loop f file false c' e' k m) end.
  rewrite sym_loop1 by apply sym_loop2. reflexivity.
Qed.

Lemma sym_dec_ohdr : dec_ohdr false file 0 = Panic.
Proof.
  unfold dec_ohdr, readable. rewrite Hlen. norm_reads. rewrite Hp8.
  repeat hstep.
  apply sym_parse_v1.
Qed.
End Symbolic.

Lemma wit_index0 : index wit_file 0 = Ok 1.
Proof. unfold wit_file. rewrite <- app_assoc. unfold wit_head at 1. cbn [app]. apply index0. Qed.

Ltac wit_head_read := rewrite wit_slice_head by blia; reflexivity.
Ltac wit_tail_read := rewrite wit_slice_tail by blia; reflexivity.

(* ReadObjectHeader (model) on a 2^64-element image with two non-byte elements *)
Lemma dec_ohdr_panic_witness : dec_ohdr false wit_file 0 = Panic.
Proof.
  apply sym_dec_ohdr.
  - exact wit_len.
  - wit_head_read.
  - exact wit_index0.
  - wit_head_read.
  - wit_head_read.
  - wit_head_read.
  - wit_head_read.
  - wit_head_read.
  - wit_tail_read.
  - wit_tail_read.
Qed.

Lemma parse_v1_panic_witness : parse_v1 wit_file 0 0 false = Panic.
Proof.
  apply sym_parse_v1.
  - exact wit_len.
  - exact wit_index0.
  - wit_head_read.
  - wit_head_read.
  - wit_head_read.
  - wit_head_read.
  - wit_head_read.
  - wit_tail_read.
  - wit_tail_read.
Qed.
(* the loop alone: the last message header sits at 2^64 - 8, its data would start at 2^64 *)
Lemma v1_loop_panic_witness fuel :
  v1_loop (S fuel) wit_file false 18446744073709551608 18446744073709551615 1 2 = Panic.
Proof. apply sym_loop2; [exact wit_len | wit_tail_read | wit_tail_read]. Qed.

(* hence the unconditional statement is false for the model as it is written *)
Lemma dec_ohdr_no_panic_refuted : ~ (forall sbBE file addr, dec_ohdr sbBE file addr <> Panic).
Proof. intros H. exact (H false wit_file 0 dec_ohdr_panic_witness). Qed.

(* the witness is outside both hypotheses of the partial theorems *)
Lemma wit_not_bytes : bytes_ok wit_file = false.
Proof.
  unfold wit_file. rewrite !bytes_ok_app. change (bytes_ok wit_head) with false. reflexivity.
Qed.
Lemma wit_not_short : ~ blen wit_file < 18446744073709551616.
Proof. rewrite wit_len. blia. Qed.
