(* C07: why the version-1 object-header statement carries a hypothesis.
   The model of parseV1MessagesInBlock guards the message-data read with
   readable file (wrap64 (current + 8)) size  but slices the image at the unwrapped  current + 8.
   On an image of exactly 2^64 elements (which no vm_compute can build, so the witness is evaluated
   symbolically) holding two non-byte elements the two differ, and the model panics.  Go cannot reach
   this: it never slices the image, it ReadAt()s into a separate buffer at int64(current+8), and no
   io.ReaderAt holds 2^64 bytes.  So this is an artefact of the model, not a defect of /repo; the
   theorems dec_ohdr_no_panic_partial / dec_ohdr_no_panic_bytes exclude exactly it. *)
From HV Require Import Base.Prelude Base.Outcome Base.Bytes.
From HV Require Import Model.CodecOhdr.
From HV Require Import Proofs.RobustNoPanicBase.

(* slices that lie inside the first / start inside the second part of a concatenation *)
Lemma slice_app_l (l1 l2 : list N) a b : b <= blen l1 -> slice (l1 ++ l2) a b = slice l1 a b.
Proof.
  intros H. unfold slice. rewrite blen_app.
  destruct (a <=? b) eqn:E1; cbn [andb]; [|reflexivity]. apply N.leb_le in E1.
  replace (b <=? blen l1 + blen l2) with true by (symmetry; apply N.leb_le; blia).
  replace (b <=? blen l1) with true by (symmetry; apply N.leb_le; blia).
  f_equal. unfold blen in *. rewrite skipn_app, firstn_app, skipn_length.
  replace (N.to_nat (b - a) - (length l1 - N.to_nat a))%nat with 0%nat by blia.
  cbn [firstn]. apply app_nil_r.
Qed.
Lemma slice_app_r (l1 l2 : list N) a b :
  blen l1 <= a -> a <= b -> slice (l1 ++ l2) a b = slice l2 (a - blen l1) (b - blen l1).
Proof.
  intros H1 H2. unfold slice. rewrite blen_app.
  replace (a <=? b) with true by (symmetry; apply N.leb_le; blia).
  replace (a - blen l1 <=? b - blen l1) with true by (symmetry; apply N.leb_le; blia).
  cbn [andb].
  replace (b - blen l1 <=? blen l2) with (b <=? blen l1 + blen l2)
    by (destruct (b <=? blen l1 + blen l2) eqn:E; symmetry;
        [apply N.leb_le in E; apply N.leb_le | apply N.leb_gt in E; apply N.leb_gt]; blia).
  destruct (b <=? blen l1 + blen l2); [|reflexivity].
  f_equal. unfold blen in *. rewrite skipn_app, skipn_all2 by blia. cbn [app].
  replace (N.to_nat a - length l1)%nat with (N.to_nat (a - N.of_nat (length l1))) by blia.
  replace (N.to_nat (b - N.of_nat (length l1) - (a - N.of_nat (length l1)))) with (N.to_nat (b - a)) by blia.
  reflexivity.
Qed.
Lemma index_app_l (l1 l2 : list N) i : i < blen l1 -> index (l1 ++ l2) i = index l1 i.
Proof. intros H. unfold index, blen in *. bnorm. rewrite nth_error_app1 by blia. reflexivity. Qed.

Lemma slice_panic (bs : list N) a b : blen bs < b -> slice bs a b = Panic.
Proof.
  intros H. unfold slice. replace (b <=? blen bs) with false by (symmetry; apply N.leb_gt; blia).
  rewrite andb_false_r. reflexivity.
Qed.

Definition wit_head : bytes :=
  [1; 0; 2; 0;  0; 0; 0; 0;  18446744073709551599; 0; 0; 0;  0; 0; 0; 0;     (* v1 prefix: 2 messages, size 2^64-17 *)
   0; 0; 18446744073709551584; 0;  0; 0; 0; 0].                              (* message 1: size 2^64-32 *)
Definition wit_tail : bytes := [0; 0; 1; 0; 0; 0; 0; 0].                       (* message 2 at 2^64-8: size 1 *)
Definition wit_file : bytes :=
  (wit_head ++ zeros (N.to_nat 18446744073709551584)) ++ wit_tail.

Lemma wit_pre_len : blen (wit_head ++ zeros (N.to_nat 18446744073709551584)) = 18446744073709551608.
Proof. rewrite blen_app, blen_zeros, N2Nat.id. reflexivity. Qed.
Lemma wit_len : blen wit_file = 18446744073709551616.
Proof. unfold wit_file. rewrite blen_app, wit_pre_len. reflexivity. Qed.

Lemma wit_slice_head a b : b <= 24 -> slice wit_file a b = slice wit_head a b.
Proof.
  intros H. unfold wit_file. rewrite slice_app_l by (rewrite wit_pre_len; blia).
  apply slice_app_l. change (blen wit_head) with 24. exact H.
Qed.
Lemma wit_slice_tail a b : 18446744073709551608 <= a -> a <= b ->
  slice wit_file a b = slice wit_tail (a - 18446744073709551608) (b - 18446744073709551608).
Proof.
  intros H1 H2. unfold wit_file. rewrite slice_app_r by (rewrite ?wit_pre_len; blia).
  rewrite wit_pre_len. reflexivity.
Qed.

(* evaluate the closed guard / closed first argument at the head of the left-hand side; never applied to
   a term that mentions wit_file (its length must not be computed in unary) *)
Ltac hstep :=
  lazymatch goal with
  | |- (if ?c then _ else _) = _ => let v := eval vm_compute in c in change c with v; cbv beta iota
  | |- obind ?o _ = _ => let v := eval vm_compute in o in change o with v; cbn [obind]
  end.

Lemma wit_loop2 fuel :
  v1_loop (S fuel) wit_file false 18446744073709551608 18446744073709551615 1 2 = Panic.
Proof.
  cbn [v1_loop]. unfold readable, rd_end, rd_le. rewrite wit_len.
  rewrite !wit_slice_tail by blia.
  do 4 hstep. do 2 hstep. do 3 hstep.
  rewrite slice_panic by (rewrite wit_len; blia). reflexivity.
Qed.

Lemma wit_loop1 fuel :
  v1_loop (S (S fuel)) wit_file false 16 18446744073709551615 0 2 = Panic.
Proof.
  cbn [v1_loop]. unfold readable, rd_end, rd_le. rewrite wit_len.
  rewrite !wit_slice_head by blia.
  do 4 hstep. do 2 hstep. do 3 hstep. Show.
Abort.
