(* Lemmas for C11, group 7b: compound datatypes as trees, part 3: the round trips. *)
From HV Require Import Base.Prelude Base.Outcome Base.Bytes Model.CodecType Model.CodecCompound
  Model.CodecCompoundTree Proofs.CodecType Proofs.CodecCompoundTree Proofs.CodecCompoundTree2.

(* the encoders produce header + Properties of the flattened tree *)
Lemma enc_compound_flat v s fs : v = 1 \/ v = 3 ->
  enc_compound (to_compound v s fs) = member_hdr (flat (CComp v s fs)).
Proof. intros [-> | ->]; reflexivity. Qed.

Lemma wf_comp_inv v s fs : wf_ctype (CComp v s fs) = true ->
  (v = 1 \/ v = 3) /\ s <> 0 /\ s < 4294967296 /\ (v = 1 -> nfs fs <= 65535) /\ nfs fs < 4294967296 /\
  nonempty fs = true /\ wf_fields fs = true.
Proof.
  cbn [wf_ctype]. intros H.
  apply andb_true_iff in H as [H Hwf]. apply andb_true_iff in H as [H Hne].
  apply andb_true_iff in H as [H Hn]. apply andb_true_iff in H as [Hv Hs].
  apply size_ok_inv in Hs as [Hs0 Hs].
  apply orb_true_iff in Hv as [Hv|Hv]; apply N.eqb_eq in Hv; subst v; cbn [N.eqb Pos.eqb] in Hn.
  - apply N.leb_le in Hn. repeat split; auto; lia.
  - apply N.ltb_lt in Hn. repeat split; auto; lia.
Qed.

Lemma nonempty_nfs fs : nonempty fs = true -> 1 <= nfs fs.
Proof. destruct fs; [discriminate|]. cbn [nfs]. lia. Qed.

(* ParseCompoundType on the DatatypeMessage of a well-formed tree returns its member list *)
Lemma parse_compound_flat v s fs : wf_ctype (CComp v s fs) = true ->
  parse_compound (flat (CComp v s fs)) = Ok (proj_compound v s fs).
Proof.
  intros H. destruct (wf_comp_inv _ _ _ H) as (Hv & Hs0 & Hs & Hn1 & Hn & Hne & Hwf).
  destruct (proj2 wf_dec_mut fs Hwf) as [Hnm HF].
  pose proof (nonempty_nfs _ Hne) as Hn0. rewrite nfs_length in Hn0.
  unfold parse_compound. cbn [flat dt_class dt_version dt_cbf dt_size dt_props].
  rewrite N.eqb_refl. cbn [negb].
  destruct Hv as [-> | ->]; unfold comp_props, comp_cbf, proj_compound; cbn [N.eqb Pos.eqb].
  - (* version 1 *)
    set (l := flat_fields fs) in *. set (body := concat (map enc_field_v1 l)).
    pose proof (length_fields_le_v1 l) as Hl. fold body in Hl.
    replace (blen body <? 2) with false.
    2:{ symmetry. apply N.ltb_ge. destruct l as [|f l']; [cbn [length] in Hn0; lia|].
        subst body. cbn [map concat]. rewrite blen_app, blen_enc_field_v1. lia. }
    assert (Hw : N.land (wrap16 (N.of_nat (length l))) 65535 = nfs fs).
    { subst l. rewrite <- nfs_length. unfold wrap16. change 65535 with (N.ones 16).
      rewrite N.land_ones. change (2 ^ 16) with 65536. rewrite N.mod_mod by lia. apply N.mod_small. specialize (Hn1 eq_refl). lia. }
    rewrite Hw.
    pose proof (v1_members_ok fs [] [] (S (length body)) Hnm (decsF_datatype _ _ _ (HF enc_field_v1))) as HM.
    cbn [app] in HM. rewrite app_nil_r in HM. fold l in HM. fold body in HM.
    change (blen []) with 0 in HM. rewrite HM by lia. cbn [obind].
    unfold comp_cbf. cbn [N.eqb Pos.eqb]. reflexivity.
  - (* version 3 *)
    set (l := flat_fields fs) in *. set (body := concat (map enc_field_v3 l)).
    pose proof (length_fields_le_v3 l) as Hl. fold body in Hl.
    assert (Hw : wrap32 (N.of_nat (length l)) = nfs fs).
    { subst l. rewrite <- nfs_length. unfold wrap32. apply N.mod_small. lia. }
    rewrite Hw.
    replace (blen (le 4 (nfs fs) ++ body) <? 2) with false
      by (symmetry; apply N.ltb_ge; rewrite blen_app, blen_le; blia).
    replace (blen (le 4 (nfs fs) ++ body) <? 4) with false
      by (symmetry; apply N.ltb_ge; rewrite blen_app, blen_le; blia).
    rewrite (rd_le_head 4 4) by (auto; lia). cbn [obind].
    pose proof (v3_members_ok fs (le 4 (nfs fs)) [] (S (length (le 4 (nfs fs) ++ body))) Hnm
                  (decsF_datatype _ _ _ (HF enc_field_v3))) as HM.
    rewrite app_nil_r in HM. fold l in HM. fold body in HM. rewrite blen_le in HM. change (N.of_nat 4) with 4 in HM.
    rewrite HM by (rewrite app_length; lia). cbn [obind]. reflexivity.
Qed.

(* decode(encode) for a whole compound type given as a list of members *)
Lemma compound_tree_roundtrip v s fs : wf_ctype (CComp v s fs) = true ->
  dec_compound (enc_compound (to_compound v s fs)) = Ok (proj_compound v s fs).
Proof.
  intros H. destruct (wf_comp_inv _ _ _ H) as (Hv & _).
  unfold dec_compound. rewrite enc_compound_flat by auto. rewrite wf_dec by auto. cbn [obind].
  now apply parse_compound_flat.
Qed.

(* the encoder accepts every well-formed tree *)
Lemma wf_fields_names fs : wf_fields fs = true ->
  forallb (fun f => negb (length (fd_name f) =? 0)%nat) (flat_fields fs) = true.
Proof.
  induction fs as [|n o t r IH] using cfields_ind; [reflexivity|]. cbn [wf_fields flat_fields forallb fd_name]. intros H.
  apply andb_true_iff in H as [H Hr]. apply andb_true_iff in H as [H _]. apply andb_true_iff in H as [Hn _].
  unfold name_ok in Hn. apply andb_true_iff in Hn as [Hn _]. rewrite Hn, IH by auto. reflexivity.
Qed.

Lemma wf_ctype_encok v s fs : wf_ctype (CComp v s fs) = true -> encok_compound (to_compound v s fs) = true.
Proof.
  intros H. destruct (wf_comp_inv _ _ _ H) as (Hv & Hs0 & Hs & Hn1 & Hn & Hne & Hwf).
  pose proof (nonempty_nfs _ Hne) as Hn0. rewrite nfs_length in Hn0, Hn1.
  unfold encok_compound, to_compound, nfields. cbn [cp_fields cp_size cp_version].
  rewrite wf_fields_names by auto.
  replace (length (flat_fields fs) =? 0)%nat with false by (symmetry; apply Nat.eqb_neq; lia).
  replace (s =? 0) with false by (symmetry; apply N.eqb_neq; auto). cbn [negb andb].
  destruct (N.eqb_spec v 1) as [E|E]; [|reflexivity]. rewrite andb_true_r. apply N.leb_le. auto.
Qed.

(* ---- the recursive reader returns the tree ---- *)

Definition dec_tree_go (fuel : nat) : list field -> outcome cfields :=
  fix go (l : list field) : outcome cfields :=
    match l with
    | [] => Ok CNil
    | f :: r => t <- dec_tree fuel (fd_type f);; rs <- go r;; Ok (CCons (fd_name f) (fd_offset f) t rs)
    end.

Lemma dec_tree_S fuel d :
  dec_tree (S fuel) d =
  if negb (dt_class d =? DT_COMPOUND) then Ok (CLeaf d) else
  c <- parse_compound d;; fs <- dec_tree_go fuel (cpp_members c);; Ok (CComp (cpp_version c) (cpp_size c) fs).
Proof. reflexivity. Qed.

Lemma dec_tree_leaf fuel d : negb (dt_class d =? DT_COMPOUND) = true -> dec_tree fuel d = Ok (CLeaf d).
Proof. intros H. destruct fuel; cbn [dec_tree]; rewrite H; reflexivity. Qed.

Lemma dec_tree_mut :
  (forall t, wf_ctype t = true -> forall fuel, (depth t <= fuel)%nat -> dec_tree fuel (flat t) = Ok t) /\
  (forall fs, wf_fields fs = true -> forall fuel, (depth_fields fs <= fuel)%nat ->
     dec_tree_go fuel (flat_fields fs) = Ok fs).
Proof.
  apply ctree_mutind.
  - intros d H fuel _. cbn [flat]. apply dec_tree_leaf.
    cbn [wf_ctype] in H. unfold leaf_ok in H. apply andb_true_iff in H as [H _]. now apply andb_true_iff in H as [_ H].
  - intros v s fs IH H fuel Hf. cbn [depth] in Hf. destruct fuel as [|fuel]; [lia|].
    rewrite dec_tree_S. rewrite parse_compound_flat by auto.
    cbn [flat dt_class]. rewrite N.eqb_refl. cbn [negb obind proj_compound cpp_members cpp_version cpp_size].
    destruct (wf_comp_inv _ _ _ H) as (_ & _ & _ & _ & _ & _ & Hwf).
    rewrite IH by (auto; lia). reflexivity.
  - reflexivity.
  - intros n o t IHt r IHr H fuel Hf. cbn [wf_fields] in H. cbn [depth_fields] in Hf.
    apply andb_true_iff in H as [H Hr]. apply andb_true_iff in H as [H Ht].
    assert (Hwt : wf_ctype t = true).
    { destruct r; [exact Ht|]. now apply (proj1 sd_wf_mut). }
    cbn [flat_fields dec_tree_go fd_type fd_name fd_offset].
    rewrite IHt by (auto; lia). cbn [obind].
    fold (dec_tree_go fuel). rewrite IHr by (auto; lia). reflexivity.
Qed.

Lemma compound_tree_deep_roundtrip v s fs : wf_ctype (CComp v s fs) = true ->
  (t <- dec_datatype (enc_compound (to_compound v s fs));; dec_tree (S (depth_fields fs)) t) = Ok (CComp v s fs).
Proof.
  intros H. destruct (wf_comp_inv _ _ _ H) as (Hv & _).
  rewrite enc_compound_flat by auto. rewrite wf_dec by auto. cbn [obind].
  apply (proj1 dec_tree_mut); auto.
Qed.

Lemma compound_tree_deep_roundtrip' v s fs : wf_ctype (CComp v s fs) = true ->
  dec_compound_tree (enc_compound (to_compound v s fs)) = Ok (CComp v s fs).
Proof.
  intros H. destruct (wf_comp_inv _ _ _ H) as (Hv & _). unfold dec_compound_tree.
  rewrite enc_compound_flat by auto. rewrite wf_dec by auto. cbn [obind].
  apply (proj1 dec_tree_mut); auto. pose proof (depth_le (CComp v s fs)). lia.
Qed.

(* ---- the examples are well-formed; the shapes excluded beyond the leaf classes really fail ---- *)

Lemma tree_examples_wf :
  wf_ctype (tree_example 3) = true /\ wf_ctype (tree_example 1) = true /\ wf_ctype deep_example = true.
Proof. vm_compute. auto. Qed.

Lemma compound_v1_member_refuted :
  match v1_member_witness with
  | CComp v s fs => encok_compound (to_compound v s fs) = true /\ dec_compound (enc_compound (to_compound v s fs)) = Err
  | _ => False
  end.
Proof. vm_compute. split; reflexivity. Qed.

Lemma compound_greedy_tail_refuted :
  match greedy_tail_witness with
  | CComp v s fs => encok_compound (to_compound v s fs) = true /\ dec_compound (enc_compound (to_compound v s fs)) = Err
  | _ => False
  end.
Proof. vm_compute. split; reflexivity. Qed.
