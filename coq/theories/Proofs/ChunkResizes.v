(* C13: any number of resizes after a full write (no write in between), and resizes mixed with full writes.
   The chunk index still describes the extents of the last write; the reader places those chunks under the current
   extents (read_after_resize, Proofs/ChunkTiling.v).  That is the specified array (resize_arr folded over the
   requested extents) for every data exactly when no extent of the chain is below both the written and the final
   extent in some dimension (chain_covers); otherwise there is data on which it differs. *)
From HV Require Import Base.Prelude Model.Chunk Proofs.ChunkLists Proofs.ChunkSpec Proofs.ChunkCoords Proofs.ChunkTiling.

Local Open Scope N_scope.

(* ---------------- lists ---------------- *)
Lemma last_cons_default {A} (r : list A) : forall e d, last (e :: r) d = last r e.
Proof.
  induction r as [|x r IH]; intros e d; [reflexivity|].
  change (last (e :: x :: r) d) with (last (x :: r) d). rewrite (IH x d), (IH x e). reflexivity.
Qed.

Lemma last_in_or {A} (l : list A) d : l = [] \/ In (last l d) l.
Proof.
  induction l as [|a l IH]; [left; reflexivity|right].
  rewrite last_cons_default. destruct l as [|b l]; [left; reflexivity|].
  destruct IH as [IH|IH]; [discriminate|]. right. rewrite last_cons_default in IH.
  rewrite last_cons_default. exact IH.
Qed.

Lemma not_Forall_witness {A} (P : A -> Prop) l :
  (forall x, P x \/ ~ P x) -> ~ Forall P l -> exists x, In x l /\ ~ P x.
Proof.
  intros Hdec. induction l as [|a l IH]; intros Hn.
  - exfalso. apply Hn. constructor.
  - destruct (Hdec a) as [Ha|Ha].
    + destruct IH as (x & Hx & Hp).
      * intros H. apply Hn. constructor; auto.
      * exists x. split; [right; exact Hx|exact Hp].
    + exists a. split; [left; reflexivity|exact Ha].
Qed.

Lemma forallb_false_in {A} (p : A -> bool) l x : In x l -> p x = false -> forallb p l = false.
Proof.
  intros Hin Hp. destruct (forallb p l) eqn:E; [|reflexivity].
  rewrite forallb_forall in E. rewrite (E x Hin) in Hp. discriminate.
Qed.

(* ---------------- extents ---------------- *)
Lemma ext_le_decidable : forall a b, ext_le a b \/ ~ ext_le a b.
Proof.
  induction a as [|x a IH]; intros [|y b]; cbn [ext_le]; [left; exact I|right; intros []|right; intros []|].
  destruct (N.le_gt_cases x y) as [Hxy|Hxy]; [|right; intros [Hc _]; lia].
  destruct (IH b) as [H2|H2]; [left; split; auto|right; intros [_ Hc]; auto].
Qed.

Lemma in_extent_pmin : forall a b m ix,
  ext_le (pmin a b) m -> in_extent a ix = true -> in_extent b ix = true -> in_extent m ix = true.
Proof.
  unfold pmin. induction a as [|x a IH]; intros [|y b] [|z m] [|i ix] H Ha Hb;
    cbn [zipWith ext_le in_extent] in *; try discriminate; try contradiction; auto.
  destruct H as [H1 H2]. apply andb_true_iff in Ha as [Ha1 Ha2]. apply andb_true_iff in Hb as [Hb1 Hb2].
  apply andb_true_iff. split; [apply N.ltb_lt; apply N.ltb_lt in Ha1, Hb1; lia|]. eapply IH; eauto.
Qed.

Lemma in_extent_pmin_inv : forall a b ix,
  in_extent (pmin a b) ix = true -> in_extent a ix = true /\ in_extent b ix = true \/ length a <> length b.
Proof.
  unfold pmin. induction a as [|x a IH]; intros [|y b] ix H; cbn [zipWith in_extent length] in *;
    try (right; discriminate).
  - left. auto.
  - destruct ix as [|i ix]; [discriminate|]. apply andb_true_iff in H as [H1 H2].
    destruct (IH b ix H2) as [[E1 E2]|Hn]; [left|right; lia].
    rewrite E1, E2. apply N.ltb_lt in H1. split; apply andb_true_iff; split; auto; apply N.ltb_lt; lia.
Qed.

Lemma posl_pmin : forall a b, posl a -> posl b -> posl (pmin a b).
Proof.
  unfold pmin. induction a as [|x a IH]; intros [|y b] Ha Hb; cbn [zipWith]; try constructor.
  - inversion Ha; inversion Hb; subst. lia.
  - inversion Ha; inversion Hb; subst. apply IH; auto.
Qed.

Lemma length_pmin : forall a b, length a = length b -> length (pmin a b) = length a.
Proof.
  unfold pmin. induction a as [|x a IH]; intros [|y b] H; try discriminate; auto.
  cbn [zipWith length] in *. f_equal. apply IH. lia.
Qed.

Lemma in_extent_origin a : posl a -> in_extent a (map (fun _ => 0) a) = true.
Proof.
  induction 1 as [|x a Hx _ IH]; [reflexivity|]. cbn [map in_extent]. rewrite IH.
  apply andb_true_iff. split; [apply N.ltb_lt; exact Hx|reflexivity].
Qed.

(* an extent that is not below another has an index the other one lacks *)
Lemma not_ext_le_witness : forall a b, length a = length b -> posl a -> ~ ext_le a b ->
  exists ix, in_extent a ix = true /\ in_extent b ix = false.
Proof.
  induction a as [|x a IH]; intros [|y b] Hl Hp Hn; try discriminate.
  - exfalso. apply Hn. exact I.
  - inversion Hp as [|? ? Hx Hpa]; subst. cbn [length] in Hl. destruct (N.le_gt_cases x y) as [Hle|Hgt].
    + destruct (IH b) as (ix & H1 & H2); auto.
      { intros H. apply Hn. split; auto. }
      exists (0 :: ix). cbn [in_extent]. rewrite H1, H2. split; [|apply andb_false_r].
      apply andb_true_iff. split; [apply N.ltb_lt; lia|reflexivity].
    + exists (y :: map (fun _ => 0) a). cbn [in_extent]. split.
      * apply andb_true_iff. split; [apply N.ltb_lt; lia|apply in_extent_origin; auto].
      * replace (y <? y) with false by (symmetry; apply N.ltb_irrefl). reflexivity.
Qed.

Section Resizes.
Variable esz : N.

(* ---------------- arrays are determined by their elements ---------------- *)
Lemma get_elem_ext dims : forall a b, lenN a = vol dims esz -> lenN b = vol dims esz ->
  (forall ix, in_extent dims ix = true -> get_elem dims esz a ix = get_elem dims esz b ix) -> a = b.
Proof.
  induction dims as [|d ds IH]; intros a b Ha Hb H.
  - specialize (H [] eq_refl). cbn [get_elem] in H. rewrite vol_nil in *.
    rewrite !takeN_all in H by lia. exact H.
  - rewrite vol_cons in *.
    rewrite <- (concat_blocks (vol ds esz) d a Ha), <- (concat_blocks (vol ds esz) d b Hb).
    f_equal. apply map_ext_in. intros k Hk. apply in_rangeN in Hk.
    apply IH; try (apply lenN_blk; nia).
    intros ix Hix. specialize (H (k :: ix)). cbn [in_extent get_elem] in H. apply H.
    apply andb_true_iff. split; [apply N.ltb_lt; exact Hk|exact Hix].
Qed.

Lemma slice_const (v : N) off n m : off + n <= m -> slice (repeat v (N.to_nat m)) off n = repeat v (N.to_nat n).
Proof.
  intros. unfold slice, takeN, dropN.
  replace (N.to_nat m) with (N.to_nat off + (N.to_nat n + (N.to_nat m - N.to_nat off - N.to_nat n)))%nat by lia.
  rewrite !repeat_app.
  rewrite skipn_app, skipn_all2 by (rewrite repeat_length; lia).
  rewrite repeat_length, Nat.sub_diag. cbn [skipn app].
  rewrite firstn_app, firstn_all2 by (rewrite repeat_length; lia).
  rewrite repeat_length, Nat.sub_diag. cbn [firstn]. apply app_nil_r.
Qed.

Lemma get_elem_const v : forall dims ix, in_extent dims ix = true ->
  get_elem dims esz (repeat v (N.to_nat (vol dims esz))) ix = repeat v (N.to_nat esz).
Proof.
  induction dims as [|d ds IH]; intros [|i ix] H; cbn [in_extent] in H; try discriminate.
  - cbn [get_elem]. rewrite vol_nil. apply takeN_all. unfold lenN. rewrite repeat_length. lia.
  - apply andb_true_iff in H as [Hi H]. apply N.ltb_lt in Hi. cbn [get_elem]. rewrite vol_cons.
    unfold blk. rewrite slice_const by nia. apply IH; auto.
Qed.

(* ---------------- the specification, element by element ---------------- *)
Lemma resize_chain_cons old e r data :
  resize_chain old (e :: r) esz data = resize_chain e r esz (resize_arr old e esz data).
Proof. reflexivity. Qed.

Lemma fst_resize_chain : forall exts old data, fst (resize_chain old exts esz data) = last exts old.
Proof.
  induction exts as [|e r IH]; intros; [reflexivity|]. rewrite resize_chain_cons, IH, last_cons_default. reflexivity.
Qed.

Lemma same_rank_tail (old e : list N) (r : list (list N)) :
  length e = length old -> Forall (fun x => length x = length old) r -> Forall (fun x => length x = length e) r.
Proof. intros He Hr. eapply Forall_impl; [|exact Hr]. intros x Hx. cbv beta in *. lia. Qed.

Lemma lenN_resize_chain : forall exts old data,
  Forall (fun e => length e = length old) exts -> lenN data = vol old esz ->
  lenN (snd (resize_chain old exts esz data)) = vol (last exts old) esz.
Proof.
  induction exts as [|e r IH]; intros old data Hl Hd; [exact Hd|].
  apply Forall_cons_iff in Hl as [He Hr]. rewrite resize_chain_cons, last_cons_default.
  apply IH; [eapply same_rank_tail; eauto|apply lenN_resize_arr; auto].
Qed.

Lemma get_resize_chain : forall exts old data ix,
  Forall (fun e => length e = length old) exts -> lenN data = vol old esz ->
  in_extent (last exts old) ix = true ->
  get_elem (last exts old) esz (snd (resize_chain old exts esz data)) ix
  = if in_extent old ix && forallb (fun e => in_extent e ix) exts then get_elem old esz data ix else zerosN esz.
Proof.
  induction exts as [|e r IH]; intros old data ix Hl Hd Hin.
  - cbn [last] in Hin. cbn [last resize_chain fold_left snd forallb]. rewrite Hin. reflexivity.
  - apply Forall_cons_iff in Hl as [He Hr].
    rewrite last_cons_default in *. rewrite resize_chain_cons.
    rewrite IH; auto; [|eapply same_rank_tail; eauto|apply lenN_resize_arr; auto].
    cbn [forallb]. destruct (in_extent e ix) eqn:Ee; cbn [andb]; [|rewrite andb_false_r; reflexivity].
    destruct (forallb (fun e0 => in_extent e0 ix) r); [|rewrite andb_false_r; reflexivity].
    rewrite get_resize_arr by auto. rewrite andb_true_r. reflexivity.
Qed.

(* ---------------- the library's answer is the specified one on covered chains ---------------- *)
Lemma last_same_rank (old : list N) exts :
  Forall (fun e => length e = length old) exts -> length (last exts old) = length old.
Proof.
  intros Hl. destruct (last_in_or exts old) as [->|Hin]; [reflexivity|].
  rewrite Forall_forall in Hl. apply Hl. exact Hin.
Qed.

Theorem read_after_resizes_correct old exts cdims data :
  shape_ok old cdims esz -> Forall (fun e => length e = length old) exts ->
  chain_covers old exts -> lenN data = vol old esz ->
  read_after_resize old (last exts old) cdims esz data = Ok (snd (resize_chain old exts esz data)).
Proof.
  intros Hs Hl Hc Hd.
  pose proof (last_same_rank old exts Hl) as Hll.
  rewrite read_after_resize_correct by auto. f_equal.
  apply (get_elem_ext (last exts old)).
  - apply lenN_resize_arr; auto.
  - apply lenN_resize_chain; auto.
  - intros ix Hix. rewrite get_resize_arr, get_resize_chain by auto.
    destruct (in_extent old ix) eqn:Eo; cbn [andb]; [|reflexivity].
    replace (forallb (fun e => in_extent e ix) exts) with true; [reflexivity|].
    symmetry. apply forallb_forall. intros m Hm. unfold chain_covers in Hc. rewrite Forall_forall in Hc.
    apply (in_extent_pmin old (last exts old) m ix); auto.
Qed.

(* ---------------- ... and on no other chain: the hypothesis is tight ---------------- *)
Theorem read_after_resizes_tight old exts cdims :
  shape_ok old cdims esz -> Forall (fun e => length e = length old) exts -> Forall posl exts ->
  ~ chain_covers old exts ->
  exists data, lenN data = vol old esz /\
    read_after_resize old (last exts old) cdims esz data <> Ok (snd (resize_chain old exts esz data)).
Proof.
  intros Hs Hl Hpos Hn.
  pose proof Hs as (_ & _ & Hpo & _ & Hez).
  pose proof (last_same_rank old exts Hl) as Hll.
  destruct (not_Forall_witness _ exts (fun m => ext_le_decidable _ m) Hn) as (m & Hm & Hnm).
  assert (Hlm : length m = length old) by (rewrite Forall_forall in Hl; auto).
  assert (Hpl : posl (last exts old)).
  { destruct (last_in_or exts old) as [->|Hin]; [exact Hpo|]. rewrite Forall_forall in Hpos. auto. }
  destruct (not_ext_le_witness (pmin old (last exts old)) m) as (ix & Hi1 & Hi2); auto.
  { rewrite length_pmin; lia. }
  { apply posl_pmin; auto. }
  destruct (in_extent_pmin_inv _ _ _ Hi1) as [[Ho Hla]|Hx]; [|lia].
  set (data := repeat 1 (N.to_nat (vol old esz))).
  assert (Hd : lenN data = vol old esz) by (unfold data, lenN; rewrite repeat_length; lia).
  exists data. split; [exact Hd|].
  rewrite read_after_resize_correct by auto. intros E. injection E as E.
  apply (f_equal (fun a => get_elem (last exts old) esz a ix)) in E.
  rewrite get_resize_arr, get_resize_chain in E by auto.
  rewrite Ho, (forallb_false_in _ exts m Hm Hi2) in E. cbn [andb] in E.
  unfold data in E. rewrite get_elem_const in E by auto.
  unfold zerosN in E. destruct (N.to_nat esz) eqn:En; [lia|]. cbn [repeat] in E. discriminate.
Qed.

(* ---------------- resizes and full writes in any order ---------------- *)
Definition run_lib (st : lib_state) (ops : list rop) : lib_state := fold_left (lib_step esz) ops st.
Definition run_spec (st : list N * bytes) (ops : list rop) : list N * bytes := fold_left (spec_step esz) ops st.

(* both sides track the same current extents *)
Lemma run_same_extents : forall ops (st : lib_state) sp,
  snd st = fst sp -> snd (run_lib st ops) = fst (run_spec sp ops).
Proof.
  induction ops as [|o r IH]; intros [[we wd] cur] [ce sd] H; cbn [snd fst] in H; subst; [reflexivity|].
  unfold run_lib, run_spec in *. cbn [fold_left]. apply IH.
  destruct o as [e|d]; cbn [lib_step spec_step fst snd].
  - destruct (Nat.eqb (length e) (length ce)); reflexivity.
  - destruct (lenN d =? vol ce esz); reflexivity.
Qed.

Lemma run_lib_resizes : forall exts we wd cur, Forall (fun e => length e = length cur) exts ->
  run_lib (we, wd, cur) (map RResize exts) = (we, wd, last exts cur).
Proof.
  induction exts as [|e r IH]; intros we wd cur Hl; [reflexivity|].
  apply Forall_cons_iff in Hl as [He Hr]. unfold run_lib in *. cbn [map fold_left lib_step].
  replace (Nat.eqb (length e) (length cur)) with true by (symmetry; apply Nat.eqb_eq; exact He).
  rewrite IH by (eapply same_rank_tail; eauto). rewrite last_cons_default. reflexivity.
Qed.

Lemma run_spec_resizes : forall exts cur data, Forall (fun e => length e = length cur) exts ->
  run_spec (cur, data) (map RResize exts) = resize_chain cur exts esz data.
Proof.
  induction exts as [|e r IH]; intros cur data Hl; [reflexivity|].
  apply Forall_cons_iff in Hl as [He Hr]. unfold run_spec in *. cbn [map fold_left spec_step fst snd].
  replace (Nat.eqb (length e) (length cur)) with true by (symmetry; apply Nat.eqb_eq; exact He).
  rewrite IH by (eapply same_rank_tail; eauto). reflexivity.
Qed.

(* any history (resizes and writes, accepted or refused) that continues with a full write at extents w and then any
   covered chain of resizes: the library returns the specified array.  A full write resets the history: nothing
   before it matters. *)
Theorem read_after_ops_correct pre d exts cdims (st : lib_state) sp :
  snd st = fst sp ->
  let w := fst (run_spec sp pre) in
  shape_ok w cdims esz -> lenN d = vol w esz ->
  Forall (fun e => length e = length w) exts -> chain_covers w exts ->
  lib_read cdims esz (run_lib st (pre ++ RWrite d :: map RResize exts))
  = Ok (snd (run_spec sp (pre ++ RWrite d :: map RResize exts))).
Proof.
  intros Hst w Hs Hd Hl Hc. subst w.
  pose proof (run_same_extents pre st sp Hst) as Hw.
  assert (RL : forall s a b, run_lib s (a ++ b) = run_lib (run_lib s a) b) by (intros; apply fold_left_app).
  assert (RS : forall s a b, run_spec s (a ++ b) = run_spec (run_spec s a) b) by (intros; apply fold_left_app).
  rewrite RL, RS.
  remember (run_lib st pre) as sl eqn:El. remember (run_spec sp pre) as ss eqn:Es.
  destruct sl as [[we wd] cur]. destruct ss as [ce sd]. cbn [snd fst] in *. subst cur.
  change (run_lib (we, wd, ce) (RWrite d :: map RResize exts))
    with (run_lib (lib_step esz (we, wd, ce) (RWrite d)) (map RResize exts)).
  change (run_spec (ce, sd) (RWrite d :: map RResize exts))
    with (run_spec (spec_step esz (ce, sd) (RWrite d)) (map RResize exts)).
  cbn [lib_step spec_step fst snd].
  replace (lenN d =? vol ce esz) with true by (symmetry; apply N.eqb_eq; exact Hd).
  rewrite run_lib_resizes, run_spec_resizes by auto.
  cbn [lib_read]. apply read_after_resizes_correct; auto.
Qed.

End Resizes.

(* the hypotheses are satisfiable: grow then shrink in one dimension, shrink in the other, three resizes *)
Example read_after_resizes_example :
  let old := [4; 4] in let exts := [[6; 4]; [5; 3]; [3; 3]] in let cdims := [3; 2] in
  let data := rangeN 16 in
  shape_ok old cdims 1 /\ Forall (fun e => length e = length old) exts /\ chain_covers old exts /\
  lenN data = vol old 1 /\
  read_after_resize old (last exts old) cdims 1 data = Ok [0; 1; 2; 4; 5; 6; 8; 9; 10].
Proof.
  cbv zeta. split; [|split; [|split; [|split]]].
  - repeat split; try discriminate; repeat constructor.
  - repeat constructor.
  - unfold chain_covers. cbn [last pmin zipWith]. repeat constructor; cbn; lia.
  - reflexivity.
  - vm_compute. reflexivity.
Qed.

(* ... and a chain outside them: [8] -> [3] -> [7] *)
Example chain_not_covered : ~ chain_covers [8] [[3]; [7]].
Proof.
  unfold chain_covers. intros H. apply Forall_cons_iff in H as [H _]. cbn in H. destruct H as [H _]. lia.
Qed.
