(* C06, reader against specification: the superblock (versions 0, 2, 3).
   REFUTATIONS, for the code before notes/fixes/c06-superblock-sizes.patch (Model/CodecSuper.v dec_superblock_gen false; the
   ties of C11/C07 compare the Go code with the variant the source tree under test implements).  That ReadSuperblock takes the fields of
   a version 0 superblock from fixed file positions (64, 80, 88: right only for 8-byte offsets), and in a version 2/3
   superblock reads byte 9 (the specification's size of offsets) as a flags byte, byte 10 (the specification's size of
   lengths) as the size of offsets, and sets the size of lengths to 8.  So a specification-conformant superblock whose
   sizes are not both 8 is decoded WITHOUT error to different values.  Witnesses below; each is accepted by the strict
   specification decoder (checksum = lookup3) and decoded by the reader model to a different root address / sizes. *)
From HV Require Import Base.Prelude Base.Outcome Base.Bytes Spec.Parse Spec.Format Model.CodecSuper.

(* a version 2 superblock: size of offsets [o], size of lengths [l], base 0, no extension, end of file [eof], root
   group object header at [root]; checksum as the specification prescribes *)
Definition sb2_body (v o l eof root : N) : bytes :=
  hdf5_sig ++ [v; o; l; 0] ++ le (N.to_nat o) 0 ++ le (N.to_nat o) (undef (N.to_nat o))
           ++ le (N.to_nat o) eof ++ le (N.to_nat o) root.
Definition sb2 (v o l eof root : N) : bytes :=
  let b := sb2_body v o l eof root in b ++ le 4 (spec_checksum b) ++ zeros 64.

(* the fields both sides return *)
Definition spec_view (bs : bytes) : outcome (N * N * N * N * N) :=
  '(s, _, _) <- spec_dec_superblock strict bs;;
  Ok (sbs_version s, sbs_O s, sbs_L s, sbs_base s, sbs_root s).
Definition reader_view (bs : bytes) : outcome (N * N * N * N * N) :=
  s <- dec_superblock_gen false bs;;
  Ok (spp_version s, spp_offsize s, spp_lensize s, spp_base s, spp_root s).

(* 8-byte offsets, 4-byte lengths (H5Pset_sizes(fcpl, 8, 4)), root group at 48: the reader reports 4-byte offsets,
   8-byte lengths and root address 0xFFFFFFFF *)
Definition sb2_witness_8_4 : bytes := sb2 2 8 4 2048 48.
Lemma superblock_v2_sizes_refuted :
  spec_view sb2_witness_8_4 = Ok (2, 8, 4, 0, 48) /\
  reader_view sb2_witness_8_4 = Ok (2, 4, 8, 0, 4294967295).
Proof. split; vm_compute; reflexivity. Qed.

(* 4-byte offsets and lengths (H5Pset_sizes(fcpl, 4, 4)): addresses agree, the size of lengths does not (8 instead
   of 4), so every length field read afterwards is taken 8 bytes wide *)
Definition sb2_witness_4_4 : bytes := sb2 3 4 4 2048 48.
Lemma superblock_v2_lensize_refuted :
  spec_view sb2_witness_4_4 = Ok (3, 4, 4, 0, 48) /\
  reader_view sb2_witness_4_4 = Ok (3, 4, 8, 0, 48).
Proof. split; vm_compute; reflexivity. Qed.

(* a version 0 superblock with size of offsets / lengths [o]: root symbol table entry with cached B-tree / heap *)
Definition sb0 (o : N) (eof root bt hp : N) : bytes :=
  let n := N.to_nat o in
  hdf5_sig ++ [0; 0; 0; 0; 0; o; o; 0] ++ le 2 4 ++ le 2 16 ++ le 4 0
    ++ le n 0 ++ le n (undef n) ++ le n eof ++ le n (undef n)
    ++ le n 0 ++ le n root ++ le 4 1 ++ le 4 0 ++ le n bt ++ le n hp ++ zeros (16 - 2 * n) ++ zeros 64.

(* 4-byte offsets: the object header address is at file position 44, the reader reads position 64 *)
Definition sb0_witness_4 : bytes := sb0 4 2048 96 136 680.
Lemma superblock_v0_offsets_refuted :
  spec_view sb0_witness_4 = Ok (0, 4, 4, 0, 96) /\
  reader_view sb0_witness_4 = Ok (0, 4, 4, 0, 0).
Proof. split; vm_compute; reflexivity. Qed.
