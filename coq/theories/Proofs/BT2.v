(* Lemmas about the B-tree v2 name index model (Model/BT2.v). *)
From HV Require Import Base.Prelude Base.Crc32 Spec.Lookup3 Model.BT2 Proofs.Lookup3.
From Coq Require Import Permutation Sorted.

Local Open Scope N_scope.

(* ============================================================================================ *)
(* 1. bytes, slices, the file                                                                    *)

Lemma le_length n v : List.length (le n v) = n.
Proof. revert v. induction n as [|n IH]; intro v; cbn [le List.length]; [reflexivity|rewrite IH; reflexivity]. Qed.

Lemma unle_le n v : v < 256 ^ N.of_nat n -> unle (le n v) = v.
Proof.
  revert v. induction n as [|n IH]; intros v Hv.
  - cbn [le unle]. change (256 ^ N.of_nat 0) with 1 in Hv. lia.
  - cbn [le unle]. rewrite IH.
    + pose proof (N.div_mod v 256 ltac:(lia)). lia.
    + rewrite Nat2N.inj_succ, N.pow_succ_r' in Hv.
      apply N.div_lt_upper_bound; lia.
Qed.

Lemma unle_le1 v : v < 256 -> unle (le 1 v) = v.
Proof. intro H. apply unle_le. exact H. Qed.
Lemma unle_le2 v : v < 65536 -> unle (le 2 v) = v.
Proof. intro H. apply unle_le. exact H. Qed.
Lemma unle_le4 v : v < 4294967296 -> unle (le 4 v) = v.
Proof. intro H. apply unle_le. exact H. Qed.
Lemma unle_le8 v : v < 18446744073709551616 -> unle (le 8 v) = v.
Proof. intro H. apply unle_le. exact H. Qed.

Lemma crc32_lt bs : crc32 bs < 4294967296.
Proof. unfold crc32, wrap32. apply N.mod_lt. lia. Qed.

Lemma bytes_eqb_refl (a : bytes) : bytes_eqb a a = true.
Proof. induction a as [|x a IH]; cbn [bytes_eqb list_eqb]; [reflexivity|]. rewrite N.eqb_refl. exact IH. Qed.

Lemma list_eqb_eq (a b : list N) : list_eqb N.eqb a b = true <-> a = b.
Proof.
  revert b. induction a as [|x a IH]; intros [|y b]; cbn [list_eqb]; split; intro H; try reflexivity; try discriminate.
  - apply andb_true_iff in H. destruct H as [H1 H2]. apply N.eqb_eq in H1. apply IH in H2. subst. reflexivity.
  - inversion H; subst. rewrite N.eqb_refl. apply IH. reflexivity.
Qed.

Lemma bytes_eqb_eq (a b : bytes) : bytes_eqb a b = true <-> a = b.
Proof. apply list_eqb_eq. Qed.

Lemma bytes_eqb_neq (a b : bytes) : bytes_eqb a b = false <-> a <> b.
Proof.
  split.
  - intros H E. subst. rewrite bytes_eqb_refl in H. discriminate.
  - intro H. destruct (bytes_eqb a b) eqn:E; [|reflexivity]. apply bytes_eqb_eq in E. contradiction.
Qed.

(* slices of concatenations *)
Lemma slice_mid {A} (a b c : list A) : firstn (List.length b) (skipn (List.length a) (a ++ b ++ c)) = b.
Proof.
  rewrite skipn_app, skipn_all, Nat.sub_diag. cbn [skipn app].
  rewrite firstn_app, firstn_all, Nat.sub_diag. cbn [firstn]. apply app_nil_r.
Qed.

Lemma slice_mid' (a b c : list N) (off n : nat) :
  off = List.length a -> n = List.length b -> slice (a ++ b ++ c) off n = b.
Proof. intros -> ->. apply slice_mid. Qed.

Lemma slice_app_l (a b : list N) (off n : nat) :
  (off + n <= List.length a)%nat -> slice (a ++ b) off n = slice a off n.
Proof.
  intro H. unfold slice. rewrite skipn_app.
  replace (off - List.length a)%nat with 0%nat by lia. cbn [skipn].
  rewrite firstn_app. rewrite skipn_length.
  replace (n - (List.length a - off))%nat with 0%nat by lia. cbn [firstn]. apply app_nil_r.
Qed.

Lemma slice_firstn (f : list N) (k off n : nat) :
  (off + n <= k)%nat -> slice (firstn k f) off n = slice f off n.
Proof.
  intro H. unfold slice. rewrite skipn_firstn_comm, firstn_firstn.
  replace (Nat.min n (k - off)) with n by lia. reflexivity.
Qed.

Lemma nth_app_exact {A} (a : list A) x b d : nth (List.length a) (a ++ x :: b) d = x.
Proof. rewrite app_nth2, Nat.sub_diag by lia. reflexivity. Qed.

(* ---- write_at / read_at ---- *)
Lemma write_at_length f off d :
  List.length (write_at f off d) = Nat.max (List.length f) (N.to_nat off + List.length d).
Proof.
  unfold write_at. rewrite !app_length, firstn_length, skipn_length, app_length, repeat_length. lia.
Qed.

Lemma read_write_same f off d : read_at (write_at f off d) off (List.length d) = Some d.
Proof.
  unfold read_at. rewrite write_at_length.
  replace (N.to_nat off + List.length d <=? Nat.max (List.length f) (N.to_nat off + List.length d))%nat with true
    by (symmetry; apply Nat.leb_le; lia).
  f_equal. unfold write_at.
  set (f' := f ++ repeat 0 (N.to_nat off + List.length d - List.length f)).
  assert (Hl : List.length (firstn (N.to_nat off) f') = N.to_nat off).
  { rewrite firstn_length. unfold f'. rewrite app_length, repeat_length. lia. }
  unfold slice. rewrite <- Hl at 1. apply slice_mid.
Qed.

(* a write at or above the end of a range that is inside the old file does not change it *)
Lemma read_write_below f off d o2 n :
  (N.to_nat o2 + n <= N.to_nat off)%nat -> (N.to_nat o2 + n <= List.length f)%nat ->
  read_at (write_at f off d) o2 n = Some (slice f (N.to_nat o2) n).
Proof.
  intros H1 H2. unfold read_at. rewrite write_at_length. unfold file, bytes, byte in *.
  replace (N.to_nat o2 + n <=? Nat.max (List.length f) (N.to_nat off + List.length d))%nat with true
    by (symmetry; apply Nat.leb_le; lia).
  f_equal. unfold write_at.
  set (f' := f ++ repeat 0 (N.to_nat off + List.length d - List.length f)).
  rewrite slice_app_l.
  2:{ rewrite firstn_length. unfold f'. rewrite app_length, repeat_length. lia. }
  rewrite slice_firstn by lia. unfold f'. apply slice_app_l. lia.
Qed.

Lemma read_at_some f off n b : read_at f off n = Some b -> b = slice f (N.to_nat off) n.
Proof. unfold read_at. destruct (_ <=? _)%nat; intro H; inversion H. reflexivity. Qed.

(* ============================================================================================ *)
(* 2. header and leaf: decode (encode x) = x                                                     *)

Lemma unle1_lit v : v < 256 -> unle [v mod 256] = v.
Proof. exact (unle_le1 v). Qed.
Lemma unle2_lit v : v < 65536 -> unle [v mod 256; v / 256 mod 256] = v.
Proof. exact (unle_le2 v). Qed.
Lemma unle4_lit v : v < 4294967296 ->
  unle [v mod 256; v / 256 mod 256; v / 256 / 256 mod 256; v / 256 / 256 / 256 mod 256] = v.
Proof. exact (unle_le4 v). Qed.
Lemma unle8_lit v : v < 18446744073709551616 ->
  unle [v mod 256; v / 256 mod 256; v / 256 / 256 mod 256; v / 256 / 256 / 256 mod 256;
        v / 256 / 256 / 256 / 256 mod 256; v / 256 / 256 / 256 / 256 / 256 mod 256;
        v / 256 / 256 / 256 / 256 / 256 / 256 mod 256; v / 256 / 256 / 256 / 256 / 256 / 256 / 256 mod 256] = v.
Proof. exact (unle_le8 v). Qed.

Definition osz_ok (osz : nat) : Prop := osz = 1%nat \/ osz = 2%nat \/ osz = 4%nat \/ osz = 8%nat.

(* the fields fit their on-disk widths *)
Definition hdr_fits (osz : nat) (h : hdr) : Prop :=
  h_type h < 256 /\ h_node_size h < 4294967296 /\ h_rec_size h < 65536 /\ h_depth h < 65536 /\
  h_split h < 256 /\ h_merge h < 256 /\ h_root h < 256 ^ N.of_nat osz /\ h_nroot h < 65536 /\
  h_total h < 18446744073709551616.

Lemma hdr_body_length osz h : osz_ok osz -> List.length (hdr_body osz h) = (26 + osz)%nat.
Proof. intros [-> | [-> | [-> | ->]]]; reflexivity. Qed.

Lemma encode_header_length osz s : osz_ok osz -> List.length (encode_header osz s) = hdr_size osz.
Proof.
  intro H. unfold encode_header, hdr_size. rewrite app_length, le_length, hdr_body_length by exact H. lia.
Qed.

Ltac decode_header_tac :=
  match goal with
  | |- context [crc32 (firstn ?k (?b ++ _))] =>
    replace (firstn k (b ++ le 4 (crc32 b))) with b
      by (symmetry; etransitivity; [apply (firstn_app k b)|];
          change k with (List.length b); rewrite firstn_all, Nat.sub_diag; apply app_nil_r)
  end;
  match goal with |- context [crc32 ?b] =>
    let c := fresh "c" in let Hc := fresh "Hc" in
    set (c := crc32 b); assert (Hc : c < 4294967296) by apply crc32_lt; clearbody c;
    cbn [slice firstn skipn app le sig_hdr enc_addr dec_addr nth Nat.add hdr_body
         h_type h_node_size h_rec_size h_depth h_split h_merge h_root h_nroot h_total];
    change (bytes_eqb [66; 84; 72; 68] [66; 84; 72; 68]) with true; change (0 =? 0) with true; cbn [negb];
    unfold byte;
    rewrite (unle4_lit _ Hc), N.eqb_refl; cbn [negb]
  end.

Lemma decode_encode_header osz h : osz_ok osz -> hdr_fits osz h ->
  decode_header osz (hdr_body osz h ++ le 4 (crc32 (hdr_body osz h))) = LOk h.
Proof.
  intros Ho (H1 & H2 & H3 & H4 & H5 & H6 & H7 & H8 & H9).
  destruct h as [ty ns rsz dep sp mg root nroot total].
  cbn [h_type h_node_size h_rec_size h_depth h_split h_merge h_root h_nroot h_total] in *.
  unfold decode_header.
  destruct Ho as [-> | [-> | [-> | ->]]]; decode_header_tac.
  - change (256 ^ N.of_nat 1) with 256 in H7.
    rewrite (unle4_lit _ H2), !unle2_lit, (unle8_lit _ H9), (unle1_lit _ H7) by assumption. reflexivity.
  - change (256 ^ N.of_nat 2) with 65536 in H7.
    rewrite (unle4_lit _ H2), !unle2_lit, (unle8_lit _ H9) by assumption. reflexivity.
  - change (256 ^ N.of_nat 4) with 4294967296 in H7.
    rewrite (unle4_lit _ H2), (unle4_lit _ H7), !unle2_lit, (unle8_lit _ H9) by assumption. reflexivity.
  - change (256 ^ N.of_nat 8) with 18446744073709551616 in H7.
    rewrite (unle4_lit _ H2), (unle8_lit _ H7), !unle2_lit, (unle8_lit _ H9) by assumption. reflexivity.
Qed.

(* ---- leaf ---- *)
Definition rec_wf (r : rec) : Prop := fst r < 4294967296 /\ List.length (snd r) = 7%nat.

Lemma enc_rec_length r : rec_wf r -> List.length (enc_rec r) = 11%nat.
Proof. intros [_ H]. unfold enc_rec. rewrite app_length, le_length, H. reflexivity. Qed.

Lemma flat_enc_length rs : Forall rec_wf rs -> List.length (flat_map enc_rec rs) = (List.length rs * 11)%nat.
Proof.
  induction 1 as [|r rs Hr _ IH]; [reflexivity|].
  cbn [flat_map List.length]. rewrite app_length, enc_rec_length, IH by exact Hr. lia.
Qed.

Lemma dec_recs_enc : forall rs (pre post : list N), Forall rec_wf rs ->
  dec_recs (List.length rs) (pre ++ flat_map enc_rec rs ++ post) (List.length pre) = rs.
Proof.
  induction rs as [|r rs IH]; intros pre post H; [reflexivity|].
  inversion H as [|r' rs' Hr Hrs]; subst. destruct Hr as [Hh Hid].
  destruct r as [h id]. cbn [fst snd] in *.
  cbn [List.length dec_recs flat_map]. change (enc_rec (h, id)) with (le 4 h ++ id).
  unfold bytes, byte in *.
  f_equal.
  - f_equal.
    + rewrite <- !app_assoc.
      transitivity (unle (le 4 h)); [|apply unle_le4; exact Hh].
      f_equal. apply slice_mid'; [reflexivity|rewrite le_length; reflexivity].
    + rewrite <- !app_assoc. rewrite (app_assoc pre (le 4 h)).
      apply slice_mid'; [rewrite app_length, le_length; reflexivity|symmetry; exact Hid].
  - specialize (IH (pre ++ le 4 h ++ id) post Hrs). unfold bytes, byte in *.
    rewrite !app_length, le_length, Hid in IH.
    replace (List.length pre + (4 + 7))%nat with (List.length pre + 11)%nat in IH by lia.
    etransitivity; [|exact IH]. f_equal. rewrite <- !app_assoc. reflexivity.
Qed.

Lemma leaf_body_length ty rs : Forall rec_wf rs -> List.length (leaf_body ty rs) = (6 + List.length rs * 11)%nat.
Proof. intro H. unfold leaf_body. rewrite !app_length, flat_enc_length by exact H. reflexivity. Qed.

Lemma encode_leaf_length s : Forall rec_wf (leaf_recs s) ->
  List.length (encode_leaf s) = (4 + 1 + 1 + List.length (leaf_recs s) * 11 + 4)%nat.
Proof. intro H. unfold encode_leaf. rewrite app_length, le_length, leaf_body_length by exact H. lia. Qed.

Lemma decode_encode_leaf ty rs : Forall rec_wf rs ->
  decode_leaf (List.length rs) (leaf_body ty rs ++ le 4 (crc32 (leaf_body ty rs))) = LOk (ty, rs).
Proof.
  intro H. unfold decode_leaf.
  pose proof (leaf_body_length ty rs H) as Hl.
  set (body := leaf_body ty rs) in *.
  replace (firstn (6 + List.length rs * 11) (body ++ le 4 (crc32 body))) with body
    by (rewrite <- Hl, firstn_app, firstn_all, Nat.sub_diag; cbn [firstn]; symmetry; apply app_nil_r).
  replace (slice (body ++ le 4 (crc32 body)) (6 + List.length rs * 11) 4) with (le 4 (crc32 body)).
  2:{ symmetry. rewrite <- (app_nil_r (le 4 (crc32 body))) at 1.
      apply slice_mid'; [symmetry; exact Hl|rewrite le_length; reflexivity]. }
  rewrite unle_le4 by apply crc32_lt. rewrite N.eqb_refl. cbn [negb].
  replace (dec_recs (List.length rs) (body ++ le 4 (crc32 body)) 6) with rs.
  2:{ symmetry. unfold body, leaf_body.
      change 6%nat with (List.length (sig_leaf ++ [0; ty])).
      rewrite (app_assoc sig_leaf), <- app_assoc. apply dec_recs_enc. exact H. }
  unfold body, leaf_body.
  cbn [sig_leaf app slice firstn skipn nth].
  change (bytes_eqb [66; 84; 76; 70] sig_leaf) with true. rewrite ?N.eqb_refl. reflexivity.
Qed.

(* ============================================================================================ *)
(* 3. LoadFromFile after WriteToFile / WriteAt                                                   *)

Definition cap_ok (ns : N) : Prop := 10 <= ns /\ ns < 4294967296 /\ max_records ns <= 65535.

Definition st_wf (s : bt2) : Prop :=
  let h := header s in
  h_type h = 5 /\ h_node_size h = node_size s /\ cap_ok (node_size s) /\
  h_rec_size h < 65536 /\ h_depth h = 0 /\ h_split h < 256 /\ h_merge h < 256 /\
  h_nroot h = N.of_nat (List.length (recs s)) /\ h_total h = N.of_nat (List.length (recs s)) /\
  N.of_nat (List.length (recs s)) <= max_records (node_size s) /\
  leaf_recs s = recs s /\ leaf_type s = 5 /\ Forall rec_wf (recs s).

Lemma max_records_eq ns : 10 <= ns -> ns < 4294967296 -> max_records ns = (ns - 10) / 11.
Proof.
  intros H1 H2. unfold max_records, sub32.
  replace (10 mod 4294967296) with 10 by reflexivity.
  replace ((ns + 4294967296 - 10) mod 4294967296) with (ns - 10); [reflexivity|].
  replace (ns + 4294967296 - 10) with ((ns - 10) + 1 * 4294967296) by lia.
  rewrite N.mod_add by lia. symmetry. apply N.mod_small. lia.
Qed.

Lemma cap_fits ns (n : nat) : cap_ok ns -> N.of_nat n <= max_records ns ->
  (4 + 1 + 1 + n * 11 + 4 <= N.to_nat ns)%nat.
Proof.
  intros (H1 & H2 & _) H. rewrite max_records_eq in H by assumption.
  assert (11 * N.of_nat n <= ns - 10).
  { etransitivity; [apply N.mul_le_mono_l; exact H|]. apply N.mul_div_le. lia. }
  lia.
Qed.

Lemma load_after_store osz s f la ha recv :
  osz_ok osz -> st_wf s -> la < 256 ^ N.of_nat osz -> la + node_size s <= ha ->
  load_from osz recv
    (write_at (write_at f la (encode_leaf s)) ha (encode_header osz (with_root s la))) ha
  = LOk (mkBT (node_size s) (set_root (header s) la) 5 (recs s) (recs s) ha la (lazy recv)).
Proof.
  intros Ho (W1 & W2 & W3 & W4 & W5 & W6 & W7 & W8 & W9 & W10 & W11 & W12 & W13) Hla Hd.
  pose proof W3 as (C1 & C2 & C3).
  unfold load_from.
  rewrite <- (encode_header_length osz (with_root s la) Ho).
  rewrite read_write_same.
  unfold encode_header at 1. cbn [with_root header].
  assert (Hn : N.of_nat (List.length (recs s)) < 65536) by lia.
  rewrite decode_encode_header.
  2: exact Ho.
  2:{ unfold hdr_fits, set_root. cbn [h_type h_node_size h_rec_size h_depth h_split h_merge h_root h_nroot h_total].
      rewrite W1, W2, W5, W8, W9. repeat split; try lia; try assumption. }
  unfold set_root at 1 2 3 4 5 6.
  cbn [h_type h_node_size h_rec_size h_depth h_split h_merge h_root h_nroot h_total].
  rewrite W1, W5, W8. change (5 =? 5) with true. change (0 =? 0) with true. cbn [negb].
  destruct (0 <? N.of_nat (List.length (recs s))) eqn:E.
  - rewrite Nat2N.id.
    assert (Hfit := cap_fits _ _ W3 W10).
    assert (Hll : List.length (encode_leaf s) = (4 + 1 + 1 + List.length (recs s) * 11 + 4)%nat).
    { rewrite encode_leaf_length; rewrite W11; [reflexivity|exact W13]. }
    rewrite read_write_below.
    2: lia.
    2:{ rewrite write_at_length. lia. }
    pose proof (read_write_same f la (encode_leaf s)) as R. apply read_at_some in R.
    rewrite Hll in R. rewrite <- R.
    unfold encode_leaf. rewrite W11, W12. rewrite decode_encode_leaf by exact W13.
    unfold set_root at 1 3. cbn [h_node_size h_root]. rewrite W2. reflexivity.
  - apply N.ltb_ge in E. assert (Hz : recs s = []) by (destruct (recs s); [reflexivity|cbn in E; lia]).
    rewrite Hz. unfold set_root at 1 3. cbn [h_node_size h_root]. rewrite W2. reflexivity.
Qed.

(* ============================================================================================ *)
(* 4. the record list                                                                            *)

Definition hashes (rs : list rec) : list N := map fst rs.

Fixpoint lookup_rec (h : N) (rs : list rec) : option bytes :=
  match rs with
  | [] => None
  | r :: t => if fst r =? h then Some (snd r) else lookup_rec h t
  end.

Lemma lookup_rec_none h rs : lookup_rec h rs = None <-> ~ In h (hashes rs).
Proof.
  induction rs as [|r rs IH]; cbn [lookup_rec hashes map In]; [tauto|].
  destruct (fst r =? h) eqn:E.
  - apply N.eqb_eq in E. split; [discriminate|]. intro H. exfalso. apply H. left. exact E.
  - apply N.eqb_neq in E. fold (hashes rs). rewrite IH. tauto.
Qed.

Lemma lookup_rec_app h a b :
  lookup_rec h (a ++ b) = match lookup_rec h a with Some v => Some v | None => lookup_rec h b end.
Proof.
  induction a as [|r a IH]; cbn [app lookup_rec]; [reflexivity|].
  destruct (fst r =? h); [reflexivity|exact IH].
Qed.

(* find_index: decomposition of the list at the first record with the hash *)
Lemma find_index_shift rs h i :
  find_index rs h i = match find_index rs h 0 with Some j => Some (i + j)%nat | None => None end.
Proof.
  revert i. induction rs as [|r rs IH]; intro i; cbn [find_index]; [reflexivity|].
  destruct (fst r =? h); [f_equal; lia|].
  rewrite (IH (S i)), (IH 1%nat). destruct (find_index rs h 0); [f_equal; lia|reflexivity].
Qed.

Lemma find_index_some rs h j : find_index rs h 0 = Some j ->
  exists pre r post, rs = pre ++ r :: post /\ j = List.length pre /\ fst r = h /\ ~ In h (hashes pre).
Proof.
  revert j. induction rs as [|x rs IH]; intro j; cbn [find_index]; [discriminate|].
  destruct (fst x =? h) eqn:E.
  - intro H. inversion H; subst. apply N.eqb_eq in E.
    exists [], x, rs. repeat split; auto.
  - rewrite find_index_shift. destruct (find_index rs h 0) as [j'|] eqn:F; [|discriminate].
    intro H. inversion H; subst.
    destruct (IH j' eq_refl) as (pre & r & post & -> & -> & Hr & Hn).
    exists (x :: pre), r, post. repeat split; auto.
    cbn [hashes map In]. apply N.eqb_neq in E. intros [A|A]; [contradiction|]. apply Hn. exact A.
Qed.

Lemma find_index_none rs h : find_index rs h 0 = None <-> ~ In h (hashes rs).
Proof.
  induction rs as [|x rs IH]; cbn [find_index hashes map In]; [tauto|].
  destruct (fst x =? h) eqn:E.
  - apply N.eqb_eq in E. split; [discriminate|]. intro H. exfalso. apply H. left. exact E.
  - apply N.eqb_neq in E. rewrite find_index_shift. fold (hashes rs).
    destruct (find_index rs h 0) eqn:F.
    + split; [discriminate|]. intro H. exfalso. destruct IH as [_ IH2].
      assert (~ In h (hashes rs)) by tauto. specialize (IH2 H0). discriminate.
    + destruct IH as [IH1 _]. specialize (IH1 eq_refl). tauto.
Qed.

Lemma find_index_lookup rs h :
  lookup_rec h rs = match find_index rs h 0 with Some j => Some (snd (nth j rs (0, []))) | None => None end.
Proof.
  induction rs as [|x rs IH]; cbn [find_index lookup_rec]; [reflexivity|].
  destruct (fst x =? h); [reflexivity|].
  rewrite find_index_shift, IH. destruct (find_index rs h 0); reflexivity.
Qed.

Lemma firstn_exact {A} (a b : list A) : firstn (List.length a) (a ++ b) = a.
Proof. rewrite firstn_app, firstn_all, Nat.sub_diag. cbn [firstn]. apply app_nil_r. Qed.
Lemma skipn_exact {A} (a b : list A) : skipn (List.length a) (a ++ b) = b.
Proof. rewrite skipn_app, skipn_all, Nat.sub_diag. reflexivity. Qed.
Lemma skipn_S_exact {A} (a : list A) x b : skipn (S (List.length a)) (a ++ x :: b) = b.
Proof.
  replace (S (List.length a)) with (List.length (a ++ [x])) by (rewrite app_length; cbn; lia).
  replace (a ++ x :: b) with ((a ++ [x]) ++ b) by (rewrite <- app_assoc; reflexivity).
  apply skipn_exact.
Qed.

(* insertRecordSorted as a recursive insertion *)
Lemma find_insert_pos_shift rs h i : find_insert_pos rs h i = (i + find_insert_pos rs h 0)%nat.
Proof.
  revert i. induction rs as [|r rs IH]; intro i; cbn [find_insert_pos]; [lia|].
  destruct (h <=? fst r); [lia|]. rewrite (IH (S i)), (IH 1%nat). lia.
Qed.

Lemma insert_sorted_rec rs r :
  insert_sorted rs r =
  match rs with
  | [] => [r]
  | x :: t => if fst r <=? fst x then r :: x :: t else x :: insert_sorted t r
  end.
Proof.
  unfold insert_sorted. destruct rs as [|x t]; [reflexivity|].
  cbn [find_insert_pos]. destruct (fst r <=? fst x); [reflexivity|].
  rewrite find_insert_pos_shift. cbn [Nat.add firstn skipn app]. reflexivity.
Qed.

Lemma insert_sorted_perm rs r : Permutation (insert_sorted rs r) (r :: rs).
Proof.
  induction rs as [|x t IH]; rewrite insert_sorted_rec; [reflexivity|].
  destruct (fst r <=? fst x); [reflexivity|].
  etransitivity; [apply perm_skip; exact IH|apply perm_swap].
Qed.

Lemma insert_sorted_length rs r : List.length (insert_sorted rs r) = S (List.length rs).
Proof. apply (Permutation_length (insert_sorted_perm rs r)). Qed.

Lemma insert_sorted_lookup_other rs r h : fst r <> h -> lookup_rec h (insert_sorted rs r) = lookup_rec h rs.
Proof.
  intro Hn. induction rs as [|x t IH]; rewrite insert_sorted_rec.
  - cbn [lookup_rec]. apply N.eqb_neq in Hn. rewrite Hn. reflexivity.
  - destruct (fst r <=? fst x).
    + cbn [lookup_rec]. apply N.eqb_neq in Hn. rewrite Hn. reflexivity.
    + cbn [lookup_rec]. rewrite IH. reflexivity.
Qed.

Lemma insert_sorted_lookup_new rs r : ~ In (fst r) (hashes rs) ->
  lookup_rec (fst r) (insert_sorted rs r) = Some (snd r).
Proof.
  induction rs as [|x t IH]; intro Hn; rewrite insert_sorted_rec.
  - cbn [lookup_rec]. rewrite N.eqb_refl. reflexivity.
  - destruct (fst r <=? fst x).
    + cbn [lookup_rec]. rewrite N.eqb_refl. reflexivity.
    + cbn [lookup_rec]. cbn [hashes map In] in Hn.
      destruct (fst x =? fst r) eqn:E; [apply N.eqb_eq in E; exfalso; apply Hn; left; exact E|].
      apply IH. intro A. apply Hn. right. exact A.
Qed.

Definition sorted_h (rs : list rec) : Prop := StronglySorted N.le (hashes rs).

Lemma insert_sorted_sorted rs r : sorted_h rs -> sorted_h (insert_sorted rs r).
Proof.
  unfold sorted_h. induction rs as [|x t IH]; intro H; rewrite insert_sorted_rec.
  - cbn. constructor; constructor.
  - cbn [hashes map] in H. inversion H as [|a l Ht Hall]; subst.
    destruct (fst r <=? fst x) eqn:E.
    + apply N.leb_le in E. cbn [hashes map]. constructor; [exact H|].
      constructor; [exact E|]. eapply Forall_impl; [|exact Hall]. intros y Hy. cbn in Hy. lia.
    + apply N.leb_gt in E. cbn [hashes map]. constructor; [apply IH; exact Ht|].
      fold (hashes (insert_sorted t r)).
      assert (P : Permutation (hashes (insert_sorted t r)) (fst r :: hashes t))
        by (unfold hashes; apply (Permutation_map fst (insert_sorted_perm t r))).
      eapply Permutation_Forall; [symmetry; exact P|]. constructor; [lia|exact Hall].
Qed.

Lemma sorted_remove (a : list rec) x b : sorted_h (a ++ x :: b) -> sorted_h (a ++ b).
Proof.
  unfold sorted_h, hashes. rewrite !map_app. cbn [map].
  induction a as [|y a IH]; cbn [map app]; intro H.
  - inversion H; assumption.
  - inversion H as [|p l Hs Hall]; subst. constructor; [apply IH; exact Hs|].
    rewrite Forall_app in *. destruct Hall as [H1 H2]. inversion H2; subst. split; assumption.
Qed.

Lemma hashes_update (a : list rec) x v b : hashes (a ++ (fst x, v) :: b) = hashes (a ++ x :: b).
Proof. unfold hashes. rewrite !map_app. reflexivity. Qed.

(* ============================================================================================ *)
(* 5. the modes only differ in the lazy bookkeeping                                              *)

Definition lazy_mode (m : mode) : bool :=
  match m with MLazy _ _ | MIncremental _ _ => true | _ => false end.

Definition strip_bt (s : bt2) : bt2 := with_lazy s None.
Definition strip (w : world) : world := mkW (strip_bt (bt w)) (fil w) (next w).
Definition cfg_off (c : cfg) : cfg := mkCfg MOff (c_osz c) (c_ns c).
Definition lazy_consistent (c : cfg) (w : world) : Prop := is_lazy_enabled (bt w) = lazy_mode (c_mode c).

Lemma setup_mode_lazy m s : is_lazy_enabled s = false -> is_lazy_enabled (setup_mode m s) = lazy_mode m.
Proof. intro H. destruct m; cbn [setup_mode lazy_mode]; try exact H; reflexivity. Qed.

Lemma strip_setup m s : strip_bt (setup_mode m s) = strip_bt s.
Proof. destruct m; reflexivity. Qed.

Lemma load_from_strip osz recv f a :
  match load_from osz recv f a, load_from osz (strip_bt recv) f a with
  | LOk s1, LOk s2 => strip_bt s1 = s2 /\ s2 = strip_bt s2 /\ lazy s1 = lazy recv
  | LErr e1, LErr e2 => e1 = e2
  | _, _ => False
  end.
Proof.
  unfold load_from. destruct (read_at f a (hdr_size osz)) as [hb|]; [|reflexivity].
  destruct (decode_header osz hb) as [h|e]; [|reflexivity].
  destruct (negb (h_type h =? 5)); [reflexivity|].
  destruct (negb (h_depth h =? 0)); [reflexivity|].
  destruct (0 <? h_nroot h).
  - destruct (read_at f (h_root h) _) as [lb|]; [|reflexivity].
    destruct (decode_leaf _ lb) as [[ty rs]|e]; [|reflexivity].
    repeat split.
  - repeat split.
Qed.

Lemma delete_strip m s n : is_lazy_enabled s = lazy_mode m ->
  let '(s1, ok1) := delete_by_mode m s n in
  let '(s2, ok2) := delete_record (strip_bt s) n in
  strip_bt s1 = s2 /\ ok1 = ok2 /\ is_lazy_enabled s1 = lazy_mode m.
Proof.
  intro L. destruct s as [ns h lt lr rs lh ll lz].
  unfold is_lazy_enabled in L. cbn [lazy] in L.
  destruct m as [| |t d|t d]; cbn [delete_by_mode lazy_mode] in *;
    unfold delete_record, delete_with_rebalancing, delete_lazy, remove_record, handle_root_depth_decrease,
           strip_bt, with_lazy, with_recs, is_lazy_enabled;
    cbn [recs node_size header leaf_type leaf_recs loaded_hdr loaded_leaf lazy].
  1,2: destruct lz; [discriminate|];
       destruct (find_index rs (jenkins n) 0); [|repeat split];
       cbn [header set_counts h_nroot h_depth];
       destruct (_ && _); repeat split.
  1,2: destruct lz as [l|]; [|discriminate];
       destruct (find_index rs (jenkins n) 0); [|repeat split];
       cbn [header set_counts h_nroot h_depth recs node_size];
       destruct (_ && _); repeat split.
Qed.

Lemma step_strip c w o : lazy_consistent c w ->
  let '(w1, r1) := step c w o in
  let '(w2, r2) := step (cfg_off c) (strip w) o in
  strip w1 = w2 /\ r1 = r2 /\ lazy_consistent c w1.
Proof.
  intro L. unfold lazy_consistent in *.
  destruct w as [s f nx]. cbn [bt] in L.
  destruct o as [n v|n v|n|n|n| | | |]; cbn [step strip bt fil next cfg_off c_mode c_osz c_ns].
  - (* insert *)
    unfold insert_record. cbn [strip_bt with_lazy recs node_size header].
    destruct (find_index (recs s) (jenkins n) 0); [repeat split; exact L|].
    destruct (_ <=? _); repeat split; exact L.
  - (* update *)
    unfold update_record. cbn [strip_bt with_lazy recs node_size header].
    destruct (find_index (recs s) (jenkins n) 0); repeat split; exact L.
  - unfold search_record. cbn [strip_bt with_lazy recs]. repeat split; exact L.
  - unfold has_key. cbn [strip_bt with_lazy recs]. repeat split; exact L.
  - (* delete *)
    pose proof (delete_strip (c_mode c) s n L) as X. cbn [delete_by_mode].
    destruct (delete_by_mode (c_mode c) s n) as [s1 ok1].
    destruct (delete_record (strip_bt s) n) as [s2 ok2].
    destruct X as (X1 & X2 & X3). cbn [with_bt strip bt fil next]. subst. repeat split. exact X3.
  - (* store + load *)
    unfold write_to_file. cbn [bt fil next strip_bt with_lazy node_size with_root header leaf_type leaf_recs recs
                               loaded_hdr loaded_leaf encode_leaf encode_header].
    unfold reload. cbn [fil c_osz c_ns cfg_off c_mode setup_mode bt].
    pose proof (load_from_strip (c_osz c) (new_bt (c_ns c))
      (write_at (write_at f nx (encode_leaf s)) (nx + node_size s)
         (encode_header (c_osz c) (with_root s nx))) (nx + node_size s)) as X.
    change (strip_bt (new_bt (c_ns c))) with (new_bt (c_ns c)) in X.
    unfold encode_leaf, encode_header in X. cbn [with_root header leaf_type leaf_recs] in X.
    destruct (load_from _ _ _ _) as [s1|e1].
    + cbn [with_bt strip bt fil next]. destruct X as (X1 & X2 & X3).
      repeat split.
      * unfold strip, with_bt. cbn [bt fil next]. rewrite strip_setup, X1. reflexivity.
      * cbn [bt]. apply setup_mode_lazy. unfold is_lazy_enabled. rewrite X3. reflexivity.
    + cbn [strip bt fil next strip_bt with_lazy node_size header leaf_type leaf_recs recs loaded_hdr loaded_leaf set_root].
      repeat split. exact L.
  - (* rewrite + load *)
    unfold write_in_place. cbn [strip bt fil next strip_bt with_lazy loaded_hdr loaded_leaf].
    destruct (loaded_hdr s =? 0); [repeat split; exact L|].
    unfold reload. cbn [fil c_osz c_ns cfg_off c_mode setup_mode bt with_root loaded_hdr loaded_leaf
                        node_size header leaf_type leaf_recs recs encode_leaf encode_header].
    pose proof (load_from_strip (c_osz c) (new_bt (c_ns c))
      (write_at (write_at f (loaded_leaf s) (encode_leaf s)) (loaded_hdr s)
         (encode_header (c_osz c) (with_root s (loaded_leaf s)))) (loaded_hdr s)) as X.
    change (strip_bt (new_bt (c_ns c))) with (new_bt (c_ns c)) in X.
    unfold encode_leaf, encode_header in X. cbn [with_root header leaf_type leaf_recs] in X.
    destruct (load_from _ _ _ _) as [s1|e1].
    + cbn [with_bt strip bt fil next]. destruct X as (X1 & X2 & X3).
      repeat split.
      * unfold strip, with_bt. cbn [bt fil next]. rewrite strip_setup, X1. reflexivity.
      * cbn [bt]. apply setup_mode_lazy. unfold is_lazy_enabled. rewrite X3. reflexivity.
    + cbn [strip bt fil next strip_bt with_lazy node_size header leaf_type leaf_recs recs loaded_hdr loaded_leaf set_root].
      repeat split. exact L.
  - (* write in place, same object *)
    unfold write_in_place. cbn [strip bt fil next strip_bt with_lazy loaded_hdr loaded_leaf].
    destruct (loaded_hdr s =? 0); [repeat split; exact L|].
    cbn [strip bt fil next strip_bt with_lazy with_root loaded_hdr loaded_leaf
         node_size header leaf_type leaf_recs recs lazy encode_leaf encode_header].
    repeat split. exact L.
  - (* store, same object *)
    unfold write_to_file.
    cbn [strip bt fil next strip_bt with_lazy with_root loaded_hdr loaded_leaf
         node_size header leaf_type leaf_recs recs lazy encode_leaf encode_header].
    repeat split. exact L.
Qed.

Lemma run_from_strip c ops : forall w, lazy_consistent c w ->
  strip (fst (run_from c w ops)) = fst (run_from (cfg_off c) (strip w) ops)
  /\ snd (run_from c w ops) = snd (run_from (cfg_off c) (strip w) ops)
  /\ lazy_consistent c (fst (run_from c w ops)).
Proof.
  induction ops as [|o ops IH]; intros w L; cbn [run_from fst snd]; [repeat split; exact L|].
  pose proof (step_strip c w o L) as X.
  destruct (step c w o) as [w1 r1]. destruct (step (cfg_off c) (strip w) o) as [w2 r2].
  destruct X as (X1 & X2 & X3). subst w2 r2.
  specialize (IH w1 X3).
  destruct (run_from c w1 ops) as [w3 rs3]. destruct (run_from (cfg_off c) (strip w1) ops) as [w4 rs4].
  cbn [fst snd] in *. destruct IH as (I1 & I2 & I3). subst. repeat split. exact I3.
Qed.

Lemma init_consistent c : lazy_consistent c (init c) /\ strip (init c) = init (cfg_off c).
Proof.
  unfold lazy_consistent, init. cbn [bt]. split.
  - apply setup_mode_lazy. reflexivity.
  - unfold strip. cbn [bt fil next cfg_off c_mode c_ns setup_mode]. rewrite strip_setup. reflexivity.
Qed.

(* the observable part of a world: everything except the lazy counters *)
Theorem mode_irrelevant_strip c ops :
  strip (fst (run c ops)) = fst (run (cfg_off c) ops) /\ snd (run c ops) = snd (run (cfg_off c) ops).
Proof.
  unfold run. destruct (init_consistent c) as [L E].
  destruct (run_from_strip c ops (init c) L) as (A & B & _). rewrite E in A, B. split; assumption.
Qed.

Theorem mode_irrelevant m1 m2 osz ns ops :
  let w1 := fst (run (mkCfg m1 osz ns) ops) in
  let w2 := fst (run (mkCfg m2 osz ns) ops) in
  snd (run (mkCfg m1 osz ns) ops) = snd (run (mkCfg m2 osz ns) ops)
  /\ recs (bt w1) = recs (bt w2) /\ leaf_recs (bt w1) = leaf_recs (bt w2) /\ header (bt w1) = header (bt w2)
  /\ node_size (bt w1) = node_size (bt w2) /\ fil w1 = fil w2 /\ next w1 = next w2
  /\ loaded_hdr (bt w1) = loaded_hdr (bt w2) /\ loaded_leaf (bt w1) = loaded_leaf (bt w2).
Proof.
  cbv zeta.
  destruct (mode_irrelevant_strip (mkCfg m1 osz ns) ops) as [A1 B1].
  destruct (mode_irrelevant_strip (mkCfg m2 osz ns) ops) as [A2 B2].
  unfold cfg_off in *. cbn [c_osz c_ns] in *.
  rewrite B1, B2. split; [reflexivity|].
  assert (E : strip (fst (run (mkCfg m1 osz ns) ops)) = strip (fst (run (mkCfg m2 osz ns) ops)))
    by (rewrite A1, A2; reflexivity).
  destruct (fst (run (mkCfg m1 osz ns) ops)) as [[a1 a2 a3 a4 a5 a6 a7 a8] f1 n1].
  destruct (fst (run (mkCfg m2 osz ns) ops)) as [[b1 b2 b3 b4 b5 b6 b7 b8] f2 n2].
  unfold strip, strip_bt, with_lazy in E. cbn in E. inversion E; subst. cbn. repeat split.
Qed.

(* ============================================================================================ *)
(* 6. invariants of a history (mode off; other modes by mode_irrelevant_strip)                   *)

Definition ns_of (c : cfg) : N := node_size (new_bt (c_ns c)).
Definition hsz (c : cfg) : N := N.of_nat (hdr_size (c_osz c)).
Definition lim (c : cfg) : N := 256 ^ N.of_nat (c_osz c).
Definition cfg_ok (c : cfg) : Prop := osz_ok (c_osz c) /\ cap_ok (ns_of c).

Definition winv (c : cfg) (w : world) : Prop :=
  let s := bt w in
  st_wf s /\ node_size s = ns_of c /\ sorted_h (recs s) /\ lazy s = None /\ 64 <= next w /\
  (loaded_hdr s <> 0 -> loaded_leaf s + ns_of c <= loaded_hdr s /\ loaded_leaf s < lim c).

Lemma to7_length v : List.length (to7 v) = 7%nat.
Proof. unfold to7. rewrite firstn_length, le_length. reflexivity. Qed.

Lemma with_recs_wf s rs : st_wf s -> Forall rec_wf rs -> N.of_nat (List.length rs) <= max_records (node_size s) ->
  st_wf (with_recs s rs (N.of_nat (List.length rs)) (N.of_nat (List.length rs))).
Proof.
  intros (W1 & W2 & W3 & W4 & W5 & W6 & W7 & W8 & W9 & W10 & W11 & W12 & W13) Hr Hc.
  unfold st_wf, with_recs, set_counts.
  cbn [header node_size recs leaf_recs leaf_type h_type h_node_size h_rec_size h_depth h_split h_merge h_nroot h_total].
  destruct W3 as (C1 & C2 & C3). repeat split; assumption.
Qed.

Lemma storeload_ok c w : cfg_ok c -> c_mode c = MOff -> winv c w -> next w < lim c ->
  step c w OStoreLoad =
  (mkW (mkBT (ns_of c) (set_root (header (bt w)) (next w)) 5 (recs (bt w)) (recs (bt w))
             (next w + ns_of c) (next w) None)
       (write_at (write_at (fil w) (next w) (encode_leaf (bt w))) (next w + ns_of c)
                 (encode_header (c_osz c) (with_root (bt w) (next w))))
       (next w + ns_of c + hsz c), ROk).
Proof.
  intros [Ho Hc] Hm (W & Hn & _ & Hl & _ & _) Hlim.
  cbn [step]. unfold write_to_file, reload. cbn [bt fil next].
  rewrite (load_after_store (c_osz c) (bt w) (fil w) (next w) (next w + node_size (bt w)) (new_bt (c_ns c)));
    try assumption; [|lia].
  rewrite Hm. cbn [setup_mode with_bt fil next new_bt lazy]. rewrite Hn. reflexivity.
Qed.

Lemma rewrite_ok c w : cfg_ok c -> c_mode c = MOff -> winv c w -> loaded_hdr (bt w) <> 0 ->
  step c w ORewrite =
  (mkW (mkBT (ns_of c) (set_root (header (bt w)) (loaded_leaf (bt w))) 5 (recs (bt w)) (recs (bt w))
             (loaded_hdr (bt w)) (loaded_leaf (bt w)) None)
       (write_at (write_at (fil w) (loaded_leaf (bt w)) (encode_leaf (bt w))) (loaded_hdr (bt w))
                 (encode_header (c_osz c) (with_root (bt w) (loaded_leaf (bt w)))))
       (next w), ROk).
Proof.
  intros [Ho Hc] Hm (W & Hn & _ & Hl & _ & Hld) Hz.
  destruct (Hld Hz) as [Hd Hlt].
  cbn [step]. unfold write_in_place.
  replace (loaded_hdr (bt w) =? 0) with false by (symmetry; apply N.eqb_neq; exact Hz).
  unfold reload. cbn [bt fil next with_root loaded_hdr].
  rewrite load_after_store; try assumption; [|rewrite Hn; exact Hd].
  rewrite Hm. cbn [setup_mode with_bt fil next new_bt lazy]. rewrite Hn. reflexivity.
Qed.

Lemma rewrite_refused c w : loaded_hdr (bt w) = 0 -> step c w ORewrite = (w, RErr).
Proof. intro H. cbn [step]. unfold write_in_place. rewrite H. reflexivity. Qed.

(* WriteAt on the same object: the object only gets header.RootNodeAddr := loadedLeafAddress *)
Lemma writeat_ok c w : loaded_hdr (bt w) <> 0 ->
  step c w OWriteAt =
  (mkW (with_root (bt w) (loaded_leaf (bt w)))
       (write_at (write_at (fil w) (loaded_leaf (bt w)) (encode_leaf (bt w))) (loaded_hdr (bt w))
                 (encode_header (c_osz c) (with_root (bt w) (loaded_leaf (bt w)))))
       (next w), ROk).
Proof.
  intro Hz. cbn [step]. unfold write_in_place.
  replace (loaded_hdr (bt w) =? 0) with false by (symmetry; apply N.eqb_neq; exact Hz).
  reflexivity.
Qed.

Lemma writeat_refused c w : loaded_hdr (bt w) = 0 -> step c w OWriteAt = (w, RErr).
Proof. intro H. cbn [step]. unfold write_in_place. rewrite H. reflexivity. Qed.

(* WriteToFile on the same object: header.RootNodeAddr := the fresh leaf address, loaded addresses kept *)
Lemma store_ok c w :
  step c w OStore =
  (mkW (with_root (bt w) (next w))
       (write_at (write_at (fil w) (next w) (encode_leaf (bt w))) (next w + node_size (bt w))
                 (encode_header (c_osz c) (with_root (bt w) (next w))))
       (next w + node_size (bt w) + N.of_nat (hdr_size (c_osz c))), ROk).
Proof. reflexivity. Qed.

Lemma with_root_wf s a : st_wf s -> st_wf (with_root s a).
Proof. intro W. exact W. Qed.

(* ---- effect of update / delete in terms of the decomposition at the first matching record ---- *)
Lemma update_record_some s n v i : find_index (recs s) (jenkins n) 0 = Some i ->
  exists pre r post, recs s = pre ++ r :: post /\ fst r = jenkins n /\ ~ In (jenkins n) (hashes pre) /\
    update_record s n v =
    (with_recs s (pre ++ (fst r, to7 v) :: post) (h_nroot (header s)) (h_total (header s)), true).
Proof.
  intro F. destruct (find_index_some _ _ _ F) as (pre & r & post & E & -> & Hr & Hn).
  exists pre, r, post. repeat split; try assumption.
  unfold update_record. rewrite F, E. rewrite nth_app_exact, firstn_exact, skipn_S_exact. reflexivity.
Qed.

Lemma remove_record_some s n i : find_index (recs s) (jenkins n) 0 = Some i ->
  exists pre r post, recs s = pre ++ r :: post /\ fst r = jenkins n /\ ~ In (jenkins n) (hashes pre) /\
    remove_record s n =
    Some (with_recs s (pre ++ post) (sub16 (h_nroot (header s)) 1) (sub64 (h_total (header s)) 1)).
Proof.
  intro F. destruct (find_index_some _ _ _ F) as (pre & r & post & E & -> & Hr & Hn).
  exists pre, r, post. repeat split; try assumption.
  unfold remove_record. rewrite F, E. rewrite firstn_exact, skipn_S_exact. reflexivity.
Qed.

Lemma delete_off s n : delete_by_mode MOff s n =
  match remove_record s n with Some s' => (s', true) | None => (s, false) end.
Proof.
  cbn [delete_by_mode]. unfold delete_record, delete_with_rebalancing, handle_root_depth_decrease.
  destruct (remove_record s n); [|reflexivity]. destruct (_ && _); reflexivity.
Qed.

Lemma wrap16_succ (n : nat) : N.of_nat (S n) <= 65535 -> wrap16 (N.of_nat n + 1) = N.of_nat (S n).
Proof. intro H. unfold wrap16. rewrite N.mod_small; lia. Qed.
Lemma wrap64_succ (n : nat) : N.of_nat (S n) <= 65535 -> wrap64 (N.of_nat n + 1) = N.of_nat (S n).
Proof. intro H. unfold wrap64. rewrite N.mod_small; lia. Qed.
Lemma sub16_pred (n : nat) : N.of_nat (S n) <= 65535 -> sub16 (N.of_nat (S n)) 1 = N.of_nat n.
Proof.
  intro H. unfold sub16. replace (1 mod 65536) with 1 by reflexivity.
  replace (N.of_nat (S n) + 65536 - 1) with (N.of_nat n + 1 * 65536) by lia.
  rewrite N.mod_add by lia. apply N.mod_small. lia.
Qed.
Lemma sub64_pred (n : nat) : N.of_nat (S n) <= 65535 -> sub64 (N.of_nat (S n)) 1 = N.of_nat n.
Proof.
  intro H. unfold sub64. replace (1 mod 18446744073709551616) with 1 by reflexivity.
  replace (N.of_nat (S n) + 18446744073709551616 - 1) with (N.of_nat n + 1 * 18446744073709551616) by lia.
  rewrite N.mod_add by lia. apply N.mod_small. lia.
Qed.

Lemma Forall_rec_wf_mid (pre : list rec) r post : Forall rec_wf (pre ++ r :: post) ->
  Forall rec_wf pre /\ rec_wf r /\ Forall rec_wf post.
Proof. intro H. apply Forall_app in H. destruct H as [H1 H2]. inversion H2; subst. auto. Qed.

Lemma winv_intro c w :
  st_wf (bt w) -> node_size (bt w) = ns_of c -> sorted_h (recs (bt w)) -> lazy (bt w) = None -> 64 <= next w ->
  (loaded_hdr (bt w) <> 0 -> loaded_leaf (bt w) + ns_of c <= loaded_hdr (bt w) /\ loaded_leaf (bt w) < lim c) ->
  winv c w.
Proof. intros. unfold winv. auto 10. Qed.

(* the operations that take addresses from the allocator (WriteToFile, with or without reload) *)
Definition is_store (o : op) : bool := match o with OStoreLoad | OStore => true | _ => false end.

(* every operation keeps the invariant *)
Lemma step_winv c w o : cfg_ok c -> c_mode c = MOff -> winv c w ->
  (is_store o = true -> next w < lim c) -> winv c (fst (step c w o)).
Proof.
  intros Hc Hm I Hb. pose proof I as (W & Hn & Hs & Hl & Hx & Hld).
  pose proof W as (W1 & W2 & W3 & W4 & W5 & W6 & W7 & W8 & W9 & W10 & W11 & W12 & W13).
  pose proof W3 as (C1 & C2 & C3).
  destruct o as [n v|n v|n|n|n| | | |].
  - (* insert *)
    cbn [step]. unfold insert_record.
    destruct (find_index (recs (bt w)) (jenkins n) 0); [exact I|].
    destruct (max_records (node_size (bt w)) <=? N.of_nat (List.length (recs (bt w)))) eqn:E; [exact I|].
    apply N.leb_gt in E. cbn [fst with_bt].
    set (rs' := insert_sorted (recs (bt w)) (jenkins n, to7 v)).
    assert (Hlen : List.length rs' = S (List.length (recs (bt w)))) by apply insert_sorted_length.
    rewrite W8, W9, wrap16_succ, wrap64_succ by lia. rewrite <- Hlen.
    apply winv_intro; cbn [with_bt bt next]; try assumption.
    + apply with_recs_wf; [exact W| |rewrite Hlen; lia].
      eapply Permutation_Forall; [symmetry; apply insert_sorted_perm|].
      constructor; [|exact W13]. split; [apply jenkins_lt|apply to7_length].
    + apply insert_sorted_sorted. exact Hs.
  - (* update *)
    cbn [step]. destruct (find_index (recs (bt w)) (jenkins n) 0) as [i|] eqn:F.
    + destruct (update_record_some _ n v i F) as (pre & r & post & E & Hr & Hnp & U). rewrite U.
      cbn [fst with_bt].
      assert (Hlen : List.length (pre ++ (fst r, to7 v) :: post) = List.length (recs (bt w)))
        by (rewrite E, !app_length; reflexivity).
      rewrite W8, W9, <- Hlen.
      rewrite E in W13. destruct (Forall_rec_wf_mid _ _ _ W13) as (F1 & [F2 _] & F3).
      apply winv_intro; cbn [with_bt bt next]; try assumption.
      * apply with_recs_wf; [exact W| |rewrite Hlen; exact W10].
        apply Forall_app. split; [exact F1|]. constructor; [|exact F3]. split; [exact F2|apply to7_length].
      * unfold sorted_h. cbn [with_bt bt with_recs recs]. rewrite hashes_update. rewrite E in Hs. exact Hs.
    + unfold update_record. rewrite F. exact I.
  - exact I.
  - exact I.
  - (* delete *)
    cbn [step]. rewrite Hm, delete_off.
    destruct (find_index (recs (bt w)) (jenkins n) 0) as [i|] eqn:F.
    + destruct (remove_record_some _ n i F) as (pre & r & post & E & Hr & Hnp & U). rewrite U.
      cbn [fst with_bt].
      assert (Hlen : List.length (recs (bt w)) = S (List.length (pre ++ post)))
        by (rewrite E, !app_length; cbn [List.length]; lia).
      rewrite W8, W9, Hlen, sub16_pred, sub64_pred by lia.
      rewrite E in W13. destruct (Forall_rec_wf_mid _ _ _ W13) as (F1 & _ & F3).
      apply winv_intro; cbn [with_bt bt next]; try assumption.
      * apply with_recs_wf; [exact W| |lia]. apply Forall_app. split; assumption.
      * cbn [with_bt bt with_recs recs]. apply (sorted_remove pre r post). rewrite E in Hs. exact Hs.
    + unfold remove_record. rewrite F. exact I.
  - (* store + load *)
    rewrite storeload_ok by (try assumption; apply Hb; reflexivity). cbn [fst].
    destruct Hc as [Ho Hcap].
    apply winv_intro; cbn [bt next recs node_size lazy loaded_hdr loaded_leaf]; try assumption; try reflexivity.
    + unfold st_wf, set_root.
      cbn [header node_size recs leaf_recs leaf_type h_type h_node_size h_rec_size h_depth h_split h_merge h_nroot h_total].
      rewrite <- Hn. repeat split; assumption.
    + unfold hsz. lia.
    + intros _. split; [lia|apply Hb; reflexivity].
  - (* rewrite + load *)
    destruct (N.eq_dec (loaded_hdr (bt w)) 0) as [Z|Z]; [rewrite rewrite_refused by exact Z; exact I|].
    rewrite rewrite_ok by assumption. cbn [fst]. destruct (Hld Z) as [D1 D2].
    apply winv_intro; cbn [bt next recs node_size lazy loaded_hdr loaded_leaf]; try assumption; try reflexivity.
    + unfold st_wf, set_root.
      cbn [header node_size recs leaf_recs leaf_type h_type h_node_size h_rec_size h_depth h_split h_merge h_nroot h_total].
      rewrite <- Hn. repeat split; assumption.
  - (* write in place, same object *)
    destruct (N.eq_dec (loaded_hdr (bt w)) 0) as [Z|Z]; [rewrite writeat_refused by exact Z; exact I|].
    rewrite writeat_ok by exact Z. cbn [fst].
    apply winv_intro; cbn [bt next with_root recs node_size lazy loaded_hdr loaded_leaf]; try assumption.
  - (* store, same object *)
    rewrite store_ok. cbn [fst].
    apply winv_intro; cbn [bt next with_root recs node_size lazy loaded_hdr loaded_leaf]; try assumption.
    unfold hsz. lia.
Qed.

(* ---- histories ---- *)
Fixpoint count_stores (ops : list op) : nat :=
  match ops with [] => O | o :: r => ((if is_store o then 1 else 0) + count_stores r)%nat end.

(* all file addresses handed out by the allocator fit the offset size *)
Definition addr_ok (c : cfg) (ops : list op) : Prop :=
  64 + N.of_nat (count_stores ops) * (ns_of c + hsz c) <= lim c.

Lemma step_next c w o : cfg_ok c -> c_mode c = MOff -> winv c w -> (is_store o = true -> next w < lim c) ->
  next (fst (step c w o)) = next w + (if is_store o then ns_of c + hsz c else 0).
Proof.
  intros Hc Hm I Hb. destruct o as [n v|n v|n|n|n| | | |]; cbn [is_store]; rewrite ?N.add_0_r.
  - cbn [step]. destruct (insert_record (bt w) n v). reflexivity.
  - cbn [step]. destruct (update_record (bt w) n v). reflexivity.
  - reflexivity.
  - reflexivity.
  - cbn [step]. destruct (delete_by_mode (c_mode c) (bt w) n). reflexivity.
  - rewrite storeload_ok by (try assumption; apply Hb; reflexivity). cbn [fst next]. lia.
  - destruct (N.eq_dec (loaded_hdr (bt w)) 0) as [Z|Z]; [rewrite rewrite_refused by exact Z; reflexivity|].
    rewrite rewrite_ok by assumption. reflexivity.
  - destruct (N.eq_dec (loaded_hdr (bt w)) 0) as [Z|Z]; [rewrite writeat_refused by exact Z; reflexivity|].
    rewrite writeat_ok by exact Z. reflexivity.
  - rewrite store_ok. cbn [fst next]. destruct I as (_ & Hn & _). rewrite Hn. unfold hsz. lia.
Qed.

Lemma init_winv c : cfg_ok c -> c_mode c = MOff -> winv c (init c).
Proof.
  intros [Ho Hc] Hm. unfold init. rewrite Hm. cbn [setup_mode].
  apply winv_intro; cbn [bt next]; try reflexivity.
  - unfold ns_of in Hc. unfold st_wf, new_bt in *.
    cbn [header node_size recs leaf_recs leaf_type h_type h_node_size h_rec_size h_depth h_split h_merge h_nroot h_total List.length] in *.
    destruct Hc as (C1 & C2 & C3).
    repeat split; try assumption; try reflexivity; try lia. constructor.
  - unfold sorted_h. cbn. constructor.
  - cbn. intro H. contradiction.
Qed.

Lemma run_from_winv c : cfg_ok c -> c_mode c = MOff -> forall ops w,
  winv c w -> next w + N.of_nat (count_stores ops) * (ns_of c + hsz c) <= lim c ->
  winv c (fst (run_from c w ops)).
Proof.
  intros Hc Hm. induction ops as [|o ops IH]; intros w I B; cbn [run_from]; [exact I|].
  assert (Hb : is_store o = true -> next w < lim c).
  { intro E. cbn [count_stores] in B. rewrite E in B. unfold hsz, hdr_size in *. lia. }
  pose proof (step_winv c w o Hc Hm I Hb) as I1.
  pose proof (step_next c w o Hc Hm I Hb) as N1.
  destruct (step c w o) as [w1 r1]. cbn [fst] in *.
  specialize (IH w1 I1).
  destruct (run_from c w1 ops) as [w2 rs2]. cbn [fst] in *. apply IH.
  rewrite N1. cbn [count_stores] in B. destruct (is_store o); lia.
Qed.

Lemma ns_of_off c : ns_of (cfg_off c) = ns_of c.
Proof. reflexivity. Qed.

Lemma cfg_ok_off c : cfg_ok c -> cfg_ok (cfg_off c).
Proof. intro H. exact H. Qed.

(* C14_sorted_counts, every mode *)
Theorem sorted_counts c ops : cfg_ok c -> addr_ok c ops ->
  let s := bt (fst (run c ops)) in
  sorted_h (recs s)
  /\ h_nroot (header s) = N.of_nat (List.length (recs s))
  /\ h_total (header s) = N.of_nat (List.length (recs s))
  /\ leaf_recs s = recs s
  /\ N.of_nat (List.length (recs s)) <= max_records (ns_of c).
Proof.
  intros Hc Ha. cbv zeta.
  destruct (mode_irrelevant_strip c ops) as [A _].
  assert (I : winv (cfg_off c) (fst (run (cfg_off c) ops))).
  { unfold run. apply run_from_winv; [exact Hc|reflexivity|apply init_winv; [exact Hc|reflexivity]|].
    unfold init. cbn [next]. exact Ha. }
  rewrite <- A in I. destruct I as (W & Hn & Hs & _).
  destruct W as (W1 & W2 & W3 & W4 & W5 & W6 & W7 & W8 & W9 & W10 & W11 & W12 & W13).
  destruct (fst (run c ops)) as [[a1 a2 a3 a4 a5 a6 a7 a8] f n].
  unfold strip, strip_bt, with_lazy in *. cbn [bt recs header leaf_recs node_size] in *.
  rewrite Hn in W10. repeat split; assumption.
Qed.

(* ============================================================================================ *)
(* 7. refinement to the specification map                                                        *)

Lemma s_lookup_none n m : s_lookup n m = None <-> ~ In n (map fst m).
Proof.
  induction m as [|[k v] m IH]; cbn [s_lookup map In fst]; [tauto|].
  destruct (bytes_eqb k n) eqn:E.
  - apply bytes_eqb_eq in E. split; [discriminate|]. intro H. exfalso. apply H. left. exact E.
  - apply bytes_eqb_neq in E. rewrite IH. tauto.
Qed.

Lemma s_lookup_remove n n' m :
  s_lookup n' (s_remove n m) = if bytes_eqb n n' then None else s_lookup n' m.
Proof.
  induction m as [|[k v] m IH]; cbn [s_remove filter s_lookup fst]; [destruct (bytes_eqb n n'); reflexivity|].
  fold (s_remove n m).
  destruct (bytes_eqb k n) eqn:E; cbn [negb].
  - apply bytes_eqb_eq in E. subst k. rewrite IH. destruct (bytes_eqb n n'); reflexivity.
  - cbn [s_lookup]. rewrite IH. destruct (bytes_eqb k n') eqn:E2; [|reflexivity].
    apply bytes_eqb_eq in E2. subst k. apply bytes_eqb_neq in E.
    replace (bytes_eqb n n') with false; [reflexivity|]. symmetry. apply bytes_eqb_neq. congruence.
Qed.

Lemma s_lookup_update n v n' m :
  s_lookup n' (s_update n v m) =
  if bytes_eqb n n' then (match s_lookup n m with Some _ => Some v | None => None end) else s_lookup n' m.
Proof.
  destruct (bytes_eqb n n') eqn:B.
  - apply bytes_eqb_eq in B. subst n'.
    induction m as [|[k x] m IH]; [reflexivity|]. cbn [s_update map s_lookup fst]. fold (s_update n v m).
    destruct (bytes_eqb k n) eqn:E.
    + cbn [s_lookup fst]. rewrite E. reflexivity.
    + cbn [s_lookup]. rewrite E. exact IH.
  - induction m as [|[k x] m IH]; [reflexivity|]. cbn [s_update map s_lookup fst]. fold (s_update n v m).
    destruct (bytes_eqb k n) eqn:E.
    + apply bytes_eqb_eq in E. subst k. cbn [s_lookup fst]. rewrite B. exact IH.
    + cbn [s_lookup]. rewrite IH. reflexivity.
Qed.

Lemma s_update_keys n v m : map fst (s_update n v m) = map fst m.
Proof.
  induction m as [|[k x] m IH]; [reflexivity|]. cbn [s_update map fst]. fold (s_update n v m).
  destruct (bytes_eqb k n); cbn [fst]; rewrite IH; reflexivity.
Qed.

Lemma s_update_length n v m : List.length (s_update n v m) = List.length m.
Proof. unfold s_update. apply map_length. Qed.

Lemma s_remove_absent n m : ~ In n (map fst m) -> s_remove n m = m.
Proof.
  induction m as [|[k x] m IH]; intro H; [reflexivity|]. cbn [s_remove filter fst]. fold (s_remove n m).
  cbn [map In fst] in H. destruct (bytes_eqb k n) eqn:E.
  - apply bytes_eqb_eq in E. exfalso. apply H. left. exact E.
  - cbn [negb]. rewrite IH; [reflexivity|]. intro A. apply H. right. exact A.
Qed.

Lemma s_remove_length n m : NoDup (map fst m) -> In n (map fst m) ->
  S (List.length (s_remove n m)) = List.length m.
Proof.
  induction m as [|[k x] m IH]; intros Hd Hin; [contradiction|].
  cbn [map fst] in Hd. inversion Hd as [|a l Hk Hd']; subst.
  cbn [s_remove filter fst]. fold (s_remove n m).
  destruct (bytes_eqb k n) eqn:E; cbn [negb List.length].
  - apply bytes_eqb_eq in E. subst k. rewrite s_remove_absent by exact Hk. reflexivity.
  - apply bytes_eqb_neq in E. cbn [map In fst] in Hin. destruct Hin as [A|A]; [contradiction|].
    rewrite IH by assumption. reflexivity.
Qed.

Lemma s_remove_keys_incl n m k : In k (map fst (s_remove n m)) -> In k (map fst m).
Proof.
  unfold s_remove. rewrite !in_map_iff. intros (kv & E & H). apply filter_In in H. exists kv. tauto.
Qed.

Lemma s_remove_nodup n m : NoDup (map fst m) -> NoDup (map fst (s_remove n m)).
Proof.
  induction m as [|[k x] m IH]; intro Hd; [constructor|].
  cbn [map fst] in Hd. inversion Hd as [|a l Hk Hd']; subst.
  cbn [s_remove filter fst]. fold (s_remove n m).
  destruct (negb (bytes_eqb k n)); [|apply IH; exact Hd'].
  cbn [map fst]. constructor; [|apply IH; exact Hd'].
  intro A. apply Hk. eapply s_remove_keys_incl. exact A.
Qed.

Lemma lookup_rec_mid_other h (a : list rec) x b : fst x <> h ->
  lookup_rec h (a ++ x :: b) = lookup_rec h (a ++ b).
Proof.
  intro H. rewrite !lookup_rec_app. cbn [lookup_rec]. apply N.eqb_neq in H. rewrite H. reflexivity.
Qed.

(* the names of the history are hashed injectively *)
Definition inj_on (U : list bytes) : Prop :=
  forall a b, In a U -> In b U -> jenkins a = jenkins b -> a = b.

Definition rel (U : list bytes) (s : bt2) (m : smap) : Prop :=
  (forall n, In n U -> lookup_rec (jenkins n) (recs s) = s_lookup n m)
  /\ List.length (recs s) = List.length m
  /\ NoDup (hashes (recs s))
  /\ NoDup (map fst m).

Lemma id8_of_id7 (id : bytes) : List.length id = 7%nat -> firstn 8 (id ++ repeat 0 8) = id ++ [0].
Proof.
  intro H. do 8 (destruct id as [|? id]; try discriminate). reflexivity.
Qed.

Lemma lookup_rec_in h rs v : lookup_rec h rs = Some v -> In (h, v) rs.
Proof.
  induction rs as [|r rs IH]; cbn [lookup_rec]; [discriminate|].
  destruct (fst r =? h) eqn:E.
  - intro H. inversion H; subst. apply N.eqb_eq in E. left. destruct r; cbn in *; subst; reflexivity.
  - intro H. right. apply IH. exact H.
Qed.

Lemma step_rel c U w st o :
  cfg_ok c -> c_mode c = MOff -> winv c w -> (is_store o = true -> next w < lim c) ->
  inj_on U -> (forall n, In n (op_names o) -> In n U) ->
  rel U (bt w) (s_map st) -> s_loaded st = negb (loaded_hdr (bt w) =? 0) ->
  let '(w1, r1) := step c w o in
  let '(st1, r2) := spec_step (max_records (ns_of c)) st o in
  r1 = r2 /\ rel U (bt w1) (s_map st1) /\ s_loaded st1 = negb (loaded_hdr (bt w1) =? 0).
Proof.
  intros Hc Hm I Hb Hinj HU (R1 & R2 & R3 & R4) HL.
  pose proof I as (W & Hn & Hs & Hl & Hx & Hld).
  pose proof W as (W1 & W2 & W3 & W4 & W5 & W6 & W7 & W8 & W9 & W10 & W11 & W12 & W13).
  destruct st as [m ld]. cbn [s_map s_loaded] in *.
  destruct o as [n v|n v|n|n|n| | | |]; cbn [op_names] in HU;
    try (assert (HnU : In n U) by (apply HU; left; reflexivity));
    try (pose proof (R1 n HnU) as Rn; rewrite find_index_lookup in Rn).
  - (* insert *)
    cbn [step spec_step s_map s_loaded]. unfold insert_record.
    destruct (find_index (recs (bt w)) (jenkins n) 0) as [i|] eqn:F.
    + rewrite <- Rn. cbn [with_bt bt]. repeat split; assumption.
    + rewrite <- Rn. rewrite Hn, R2.
      destruct (max_records (ns_of c) <=? N.of_nat (List.length m)); [cbn [with_bt bt]; repeat split; assumption|].
      unfold with_recs; cbn [with_bt bt recs okres s_map s_loaded loaded_hdr].
      apply find_index_none in F.
      split; [reflexivity|]. split; [|exact HL].
      split; [|split; [|split]]; cbn [recs].
      * intros n' Hn'. cbn [s_lookup]. destruct (bytes_eqb n n') eqn:E.
        -- apply bytes_eqb_eq in E. subst n'.
           apply (insert_sorted_lookup_new (recs (bt w)) (jenkins n, to7 v)). exact F.
        -- apply bytes_eqb_neq in E.
           rewrite insert_sorted_lookup_other; [apply R1; exact Hn'|].
           cbn [fst]. intro A. apply E. apply Hinj; assumption.
      * rewrite insert_sorted_length. cbn [List.length]. rewrite R2. reflexivity.
      * eapply Permutation_NoDup; [symmetry; apply (Permutation_map fst (insert_sorted_perm _ _))|].
        cbn [map fst]. constructor; assumption.
      * cbn [map fst]. constructor; [|exact R4]. apply s_lookup_none. symmetry. exact Rn.
  - (* update *)
    cbn [step spec_step s_map s_loaded].
    destruct (find_index (recs (bt w)) (jenkins n) 0) as [i|] eqn:F.
    + destruct (update_record_some _ n v i F) as (pre & r & post & E & Hr & Hnp & Uu). rewrite Uu.
      rewrite <- Rn. unfold with_recs; cbn [with_bt bt recs okres s_map s_loaded loaded_hdr].
      split; [reflexivity|]. split; [|exact HL].
      split; [|split; [|split]]; cbn [recs].
      * intros n' Hn'. rewrite s_lookup_update. destruct (bytes_eqb n n') eqn:E2.
        -- apply bytes_eqb_eq in E2. subst n'. rewrite <- Rn.
           rewrite lookup_rec_app. apply lookup_rec_none in Hnp. rewrite Hnp.
           cbn [lookup_rec fst snd]. rewrite Hr, N.eqb_refl. reflexivity.
        -- apply bytes_eqb_neq in E2.
           assert (Hne : jenkins n <> jenkins n') by (intro A; apply E2; apply Hinj; assumption).
           rewrite lookup_rec_mid_other by (cbn [fst]; rewrite Hr; exact Hne).
           rewrite <- (R1 n' Hn'), E. symmetry. apply lookup_rec_mid_other. rewrite Hr. exact Hne.
      * rewrite s_update_length, <- R2, E, !app_length. reflexivity.
      * rewrite hashes_update. rewrite E in R3. exact R3.
      * rewrite s_update_keys. exact R4.
    + unfold update_record. rewrite F. rewrite <- Rn. cbn [with_bt bt]. repeat split; assumption.
  - (* search *)
    cbn [step spec_step s_map s_loaded]. unfold search_record.
    destruct (find_index (recs (bt w)) (jenkins n) 0) as [i|] eqn:F.
    + rewrite <- Rn. split; [|repeat split; assumption].
      f_equal. apply id8_of_id7.
      destruct (find_index_some _ _ _ F) as (pre & r & post & E & -> & Hr & Hnp).
      rewrite E, nth_app_exact. rewrite E in W13. destruct (Forall_rec_wf_mid _ _ _ W13) as (_ & [_ A] & _). exact A.
    + rewrite <- Rn. repeat split; assumption.
  - (* has *)
    cbn [step spec_step s_map s_loaded]. unfold has_key.
    destruct (find_index (recs (bt w)) (jenkins n) 0); rewrite <- Rn; repeat split; assumption.
  - (* delete *)
    cbn [step spec_step s_map s_loaded]. rewrite Hm, delete_off.
    destruct (find_index (recs (bt w)) (jenkins n) 0) as [i|] eqn:F.
    + destruct (remove_record_some _ n i F) as (pre & r & post & E & Hr & Hnp & Uu). rewrite Uu.
      rewrite <- Rn. unfold with_recs; cbn [with_bt bt recs okres s_map s_loaded loaded_hdr].
      split; [reflexivity|]. split; [|exact HL].
      assert (Hpost : ~ In (jenkins n) (hashes post)).
      { rewrite E in R3. unfold hashes in R3. rewrite map_app in R3. cbn [map] in R3.
        apply NoDup_remove_2 in R3. rewrite Hr in R3. intro A. apply R3. apply in_or_app. right. exact A. }
      assert (Hin : In n (map fst m)).
      { destruct (s_lookup n m) eqn:Sl; [|discriminate].
        destruct (in_dec (list_eq_dec N.eq_dec) n (map fst m)) as [A|A]; [exact A|].
        apply s_lookup_none in A. congruence. }
      split; [|split; [|split]]; cbn [recs].
      * intros n' Hn'. rewrite s_lookup_remove. destruct (bytes_eqb n n') eqn:E2.
        -- apply bytes_eqb_eq in E2. subst n'. apply lookup_rec_none.
           unfold hashes. rewrite map_app. intro A. apply in_app_or in A. destruct A; [apply Hnp|apply Hpost]; assumption.
        -- apply bytes_eqb_neq in E2.
           assert (Hne : jenkins n <> jenkins n') by (intro A; apply E2; apply Hinj; assumption).
           rewrite <- (R1 n' Hn'), E. symmetry. apply lookup_rec_mid_other. rewrite Hr. exact Hne.
      * pose proof (s_remove_length n m R4 Hin) as L. rewrite <- R2, E, !app_length in L. cbn [List.length] in L.
        rewrite app_length. lia.
      * rewrite E in R3. unfold hashes in *. rewrite map_app in *. cbn [map] in R3.
        apply NoDup_remove_1 in R3. exact R3.
      * apply s_remove_nodup. exact R4.
    + unfold remove_record. rewrite F. rewrite <- Rn. cbn [with_bt bt]. repeat split; assumption.
  - (* store + load *)
    rewrite storeload_ok by (try assumption; apply Hb; reflexivity).
    cbn [spec_step s_map s_loaded bt recs loaded_hdr].
    split; [reflexivity|]. split; [repeat split; assumption|].
    symmetry. apply negb_true_iff. apply N.eqb_neq. destruct Hc as [_ (C1 & _)]. lia.
  - (* rewrite + load *)
    cbn [spec_step s_map s_loaded].
    destruct (N.eq_dec (loaded_hdr (bt w)) 0) as [Z|Z].
    + rewrite rewrite_refused by exact Z. rewrite HL, Z. cbn [N.eqb negb]. repeat split; try assumption; reflexivity.
    + rewrite rewrite_ok by assumption. rewrite HL.
      replace (loaded_hdr (bt w) =? 0) with false by (symmetry; apply N.eqb_neq; exact Z).
      cbn [negb bt recs loaded_hdr s_map s_loaded].
      split; [reflexivity|]. split; [repeat split; assumption|].
      symmetry. apply negb_true_iff. apply N.eqb_neq. exact Z.
  - (* write in place, same object *)
    cbn [spec_step s_map s_loaded].
    destruct (N.eq_dec (loaded_hdr (bt w)) 0) as [Z|Z].
    + rewrite writeat_refused by exact Z. rewrite HL, Z. cbn [N.eqb negb]. repeat split; try assumption; reflexivity.
    + rewrite writeat_ok by exact Z. rewrite HL.
      replace (loaded_hdr (bt w) =? 0) with false by (symmetry; apply N.eqb_neq; exact Z).
      cbn [negb bt with_root recs loaded_hdr s_map s_loaded].
      split; [reflexivity|]. split; [repeat split; assumption|].
      symmetry. apply negb_true_iff. apply N.eqb_neq. exact Z.
  - (* store, same object *)
    rewrite store_ok. cbn [spec_step s_map s_loaded bt with_root recs loaded_hdr].
    split; [reflexivity|]. split; [repeat split; assumption|exact HL].
Qed.

Lemma run_from_rel c U : cfg_ok c -> c_mode c = MOff -> inj_on U -> forall ops w st,
  winv c w -> next w + N.of_nat (count_stores ops) * (ns_of c + hsz c) <= lim c ->
  (forall n, In n (names_of ops) -> In n U) ->
  rel U (bt w) (s_map st) -> s_loaded st = negb (loaded_hdr (bt w) =? 0) ->
  snd (run_from c w ops) = snd (spec_run_from (max_records (ns_of c)) st ops)
  /\ rel U (bt (fst (run_from c w ops))) (s_map (fst (spec_run_from (max_records (ns_of c)) st ops))).
Proof.
  intros Hc Hm Hinj. induction ops as [|o ops IH]; intros w st I B HU R HL; cbn [run_from spec_run_from fst snd].
  - split; [reflexivity|exact R].
  - assert (Hb : is_store o = true -> next w < lim c).
    { intro E. cbn [count_stores] in B. rewrite E in B. unfold hsz, hdr_size in *. lia. }
    assert (HU1 : forall n, In n (op_names o) -> In n U).
    { intros n A. apply HU. unfold names_of. cbn [flat_map]. apply in_or_app. left. exact A. }
    assert (HU2 : forall n, In n (names_of ops) -> In n U).
    { intros n A. apply HU. unfold names_of. cbn [flat_map]. apply in_or_app. right. exact A. }
    pose proof (step_rel c U w st o Hc Hm I Hb Hinj HU1 R HL) as X.
    pose proof (step_winv c w o Hc Hm I Hb) as I1.
    pose proof (step_next c w o Hc Hm I Hb) as N1.
    destruct (step c w o) as [w1 r1]. destruct (spec_step (max_records (ns_of c)) st o) as [st1 r2].
    destruct X as (X1 & X2 & X3). cbn [fst] in *.
    assert (B1 : next w1 + N.of_nat (count_stores ops) * (ns_of c + hsz c) <= lim c).
    { rewrite N1. cbn [count_stores] in B. destruct (is_store o); lia. }
    specialize (IH w1 st1 I1 B1 HU2 X2 X3).
    destruct (run_from c w1 ops) as [w2 rs2]. destruct (spec_run_from (max_records (ns_of c)) st1 ops) as [st2 rs3].
    cbn [fst snd] in *. destruct IH as [IH1 IH2]. subst. split; [reflexivity|exact IH2].
Qed.

Lemma has_collision_false (ns : list bytes) : has_collision ns = false -> inj_on ns.
Proof.
  unfold has_collision, inj_on. intros H a b Ha Hb E.
  destruct (bytes_eqb a b) eqn:Eab; [apply bytes_eqb_eq; exact Eab|]. exfalso.
  assert (X : existsb (fun x => existsb (fun y => negb (bytes_eqb (fst x) (fst y)) && (snd x =? snd y))
                  (map (fun n => (n, jenkins n)) ns)) (map (fun n => (n, jenkins n)) ns) = true).
  { apply existsb_exists. exists (a, jenkins a). split; [apply in_map_iff; exists a; auto|].
    apply existsb_exists. exists (b, jenkins b). split; [apply in_map_iff; exists b; auto|].
    cbn [fst snd]. rewrite Eab, E, N.eqb_refl. reflexivity. }
  rewrite X in H. discriminate.
Qed.

(* C14_refines_map: every mode *)
Theorem refines_map c ops : cfg_ok c -> addr_ok c ops -> inj_on (names_of ops) ->
  snd (run c ops) = snd (spec_run c ops)
  /\ rel (names_of ops) (bt (fst (run c ops))) (s_map (fst (spec_run c ops))).
Proof.
  intros Hc Ha Hinj.
  destruct (mode_irrelevant_strip c ops) as [A B]. rewrite B.
  assert (X := run_from_rel (cfg_off c) (names_of ops) Hc eq_refl Hinj ops (init (cfg_off c)) (mkS [] false)
                (init_winv (cfg_off c) Hc eq_refl) Ha (fun n H => H)).
  cbn [s_map s_loaded] in X.
  assert (R0 : rel (names_of ops) (bt (init (cfg_off c))) []).
  { unfold rel. cbn. repeat split; try constructor. }
  specialize (X R0 eq_refl). destruct X as [X1 X2].
  split; [exact X1|].
  change (spec_run c ops) with (spec_run_from (max_records (ns_of c)) (mkS [] false) ops).
  change (spec_run_from (max_records (ns_of (cfg_off c))) (mkS [] false) ops)
    with (spec_run_from (max_records (ns_of c)) (mkS [] false) ops) in X2.
  unfold run in *. rewrite <- A in X2.
  destruct (fst (run_from c (init c) ops)) as [[a1 a2 a3 a4 a5 a6 a7 a8] f n].
  exact X2.
Qed.

(* ============================================================================================ *)
(* 8. capacity, persistence, exact content, refutations                                          *)

(* C14_capacity: an insert into a full node is refused and nothing changes (any mode, any state) *)
Theorem capacity_refused c w n v :
  max_records (node_size (bt w)) <= N.of_nat (List.length (recs (bt w))) ->
  snd (step c w (OInsert n v)) = RErr
  /\ bt (fst (step c w (OInsert n v))) = bt w
  /\ fil (fst (step c w (OInsert n v))) = fil w /\ next (fst (step c w (OInsert n v))) = next w.
Proof.
  intro H. cbn [step]. unfold insert_record.
  destruct (find_index (recs (bt w)) (jenkins n) 0); [repeat split|].
  apply N.leb_le in H. rewrite H. repeat split.
Qed.

(* C14_persist, byte level: loading what WriteToFile/WriteAt wrote gives the same index, and encoding
   the loaded index again gives the same bytes *)
Theorem persist osz s f la ha recv :
  osz_ok osz -> st_wf s -> la < 256 ^ N.of_nat osz -> la + node_size s <= ha ->
  exists s',
    load_from osz recv (write_at (write_at f la (encode_leaf s)) ha (encode_header osz (with_root s la))) ha = LOk s'
    /\ recs s' = recs s /\ leaf_recs s' = recs s /\ header s' = header (with_root s la) /\ node_size s' = node_size s
    /\ loaded_hdr s' = ha /\ loaded_leaf s' = la
    /\ encode_leaf s' = encode_leaf s /\ encode_header osz s' = encode_header osz (with_root s la).
Proof.
  intros Ho W Hla Hd. eexists. split; [apply load_after_store; assumption|].
  destruct W as (W1 & W2 & W3 & W4 & W5 & W6 & W7 & W8 & W9 & W10 & W11 & W12 & W13).
  cbn [recs leaf_recs header node_size loaded_hdr loaded_leaf with_root]. repeat split.
  unfold encode_leaf. cbn [leaf_type leaf_recs]. rewrite W11, W12. reflexivity.
Qed.

(* the invariant under which `persist` applies holds after every history *)
Theorem reachable_wf c ops : cfg_ok c -> addr_ok c ops -> st_wf (strip_bt (bt (fst (run c ops)))).
Proof.
  intros Hc Ha. destruct (mode_irrelevant_strip c ops) as [A _].
  assert (I : winv (cfg_off c) (fst (run (cfg_off c) ops))).
  { unfold run. apply run_from_winv; [exact Hc|reflexivity|apply init_winv; [exact Hc|reflexivity]|].
    unfold init. cbn [next]. exact Ha. }
  rewrite <- A in I. destruct I as (W & _). exact W.
Qed.

(* exact content: the records are precisely the images of the live keys *)
Lemma s_lookup_in n v m : NoDup (map fst m) -> In (n, v) m -> s_lookup n m = Some v.
Proof.
  induction m as [|[k x] m IH]; intros Hd Hin; [contradiction|].
  cbn [map fst] in Hd. inversion Hd as [|a l Hk Hd']; subst. cbn [s_lookup].
  destruct Hin as [E|Hin].
  - inversion E; subst. rewrite bytes_eqb_refl. reflexivity.
  - destruct (bytes_eqb k n) eqn:E; [|apply IH; assumption].
    apply bytes_eqb_eq in E. subst k. exfalso. apply Hk. apply in_map_iff. exists (n, v). auto.
Qed.

Lemma key_hashes_nodup U (m : smap) : inj_on U -> NoDup (map fst m) -> (forall k, In k (map fst m) -> In k U) ->
  NoDup (map (fun kv : bytes * bytes => jenkins (fst kv)) m).
Proof.
  intros Hinj. induction m as [|[k x] m IH]; intros Hd HU; [constructor|].
  cbn [map fst] in *. inversion Hd as [|a l Hk Hd']; subst. constructor.
  - intro A. apply in_map_iff in A. destruct A as ([k' x'] & E & Hin). cbn [fst] in E.
    assert (k' = k).
    { apply Hinj; [apply HU; right; apply in_map_iff; exists (k', x'); auto|apply HU; left; reflexivity|exact E]. }
    subst k'. apply Hk. apply in_map_iff. exists (k, x'). auto.
  - apply IH; [exact Hd'|]. intros k' Hk'. apply HU. right. exact Hk'.
Qed.

Theorem exact_content U s m : inj_on U -> rel U s m -> (forall k, In k (map fst m) -> In k U) ->
  forall h v, In (h, v) (recs s) <-> exists n, In (n, v) m /\ h = jenkins n.
Proof.
  intros Hinj (R1 & R2 & R3 & R4) HU.
  set (img := map (fun kv : bytes * bytes => (jenkins (fst kv), snd kv)) m).
  assert (Hincl : incl img (recs s)).
  { intros [h v] Hin. unfold img in Hin. apply in_map_iff in Hin. destruct Hin as ([n x] & E & Hin).
    cbn [fst snd] in E. inversion E; subst.
    apply lookup_rec_in. rewrite R1; [apply s_lookup_in; assumption|].
    apply HU. apply in_map_iff. exists (n, v). auto. }
  assert (Hnd : NoDup img).
  { apply (NoDup_map_inv fst). unfold img. rewrite map_map. cbn [fst].
    apply (key_hashes_nodup U); assumption. }
  assert (Hback : incl (recs s) img).
  { apply NoDup_length_incl; [exact Hnd| |exact Hincl]. unfold img. rewrite map_length, R2. apply Nat.le_refl. }
  intros h v. split.
  - intro Hin. apply Hback in Hin. unfold img in Hin. apply in_map_iff in Hin.
    destruct Hin as ([n x] & E & Hin). cbn [fst snd] in E. inversion E; subst. exists n. auto.
  - intros (n & Hin & ->). apply Hincl. unfold img. apply in_map_iff. exists (n, v). auto.
Qed.

(* keys of the specification map are names of the history *)
Lemma spec_keys cap : forall ops st, 
  forall k, In k (map fst (s_map (fst (spec_run_from cap st ops)))) -> In k (map fst (s_map st)) \/ In k (names_of ops).
Proof.
  induction ops as [|o ops IH]; intros st k; cbn [spec_run_from fst]; [auto|].
  destruct (spec_step cap st o) as [st1 r] eqn:E.
  specialize (IH st1 k). destruct (spec_run_from cap st1 ops) as [st2 rs]. cbn [fst] in *.
  intro H. destruct (IH H) as [A|A]; [|right; unfold names_of; cbn [flat_map]; apply in_or_app; right; exact A].
  unfold names_of. cbn [flat_map]. rewrite in_app_iff.
  destruct o as [n v|n v|n|n|n| | | |]; cbn [spec_step] in E.
  - destruct (s_lookup n (s_map st)); [inversion E; subst; auto|].
    destruct (cap <=? _); inversion E; subst; auto. cbn [s_map map fst In] in A.
    destruct A as [<-|A]; [right; left; left; reflexivity|auto].
  - destruct (s_lookup n (s_map st)); inversion E; subst; auto. cbn [s_map] in A. rewrite s_update_keys in A. auto.
  - inversion E; subst; auto.
  - inversion E; subst; auto.
  - destruct (s_lookup n (s_map st)); inversion E; subst; auto. cbn [s_map] in A. apply s_remove_keys_incl in A. auto.
  - inversion E; subst; auto.
  - destruct (s_loaded st); inversion E; subst; auto.
  - destruct (s_loaded st); inversion E; subst; auto.
  - inversion E; subst; auto.
Qed.

(* "contains exactly the live keys with their latest values" *)
Theorem final_content c ops : cfg_ok c -> addr_ok c ops -> inj_on (names_of ops) ->
  let s := bt (fst (run c ops)) in
  let m := s_map (fst (spec_run c ops)) in
  List.length (recs s) = List.length m /\
  forall h v, In (h, v) (recs s) <-> exists n, In (n, v) m /\ h = jenkins n.
Proof.
  intros Hc Ha Hinj. cbv zeta. destruct (refines_map c ops Hc Ha Hinj) as [_ R].
  split; [destruct R as (_ & R2 & _); exact R2|].
  apply (exact_content (names_of ops)); [exact Hinj|exact R|].
  intros k Hk. unfold spec_run in Hk. apply spec_keys in Hk. destruct Hk as [A|A]; [contradiction|exact A].
Qed.

(* ============================================================================================ *)
(* 9. the image in the file after every write (WriteAt any number of times on one loaded object)  *)

(* the operations after which the file holds an image of the object at its loaded header address *)
Definition is_write (o : op) : bool :=
  match o with OStoreLoad | ORewrite | OWriteAt => true | _ => false end.

Lemma run_from_snoc c o : forall ops w,
  run_from c w (ops ++ [o]) =
  (fst (step c (fst (run_from c w ops)) o),
   snd (run_from c w ops) ++ [snd (step c (fst (run_from c w ops)) o)]).
Proof.
  induction ops as [|x ops IH]; intro w; cbn [app run_from fst snd].
  - destruct (step c w o) as [w1 r1]. reflexivity.
  - destruct (step c w x) as [w1 r1]. rewrite IH.
    destruct (run_from c w1 ops) as [w2 rs2]. reflexivity.
Qed.

Lemma count_stores_app a b : count_stores (a ++ b) = (count_stores a + count_stores b)%nat.
Proof. induction a as [|x a IH]; cbn [app count_stores]; [reflexivity|]. rewrite IH. lia. Qed.

(* invariant and allocator position after a history *)
Lemma run_from_winv_next c : cfg_ok c -> c_mode c = MOff -> forall ops w,
  winv c w -> next w + N.of_nat (count_stores ops) * (ns_of c + hsz c) <= lim c ->
  winv c (fst (run_from c w ops))
  /\ next (fst (run_from c w ops)) = next w + N.of_nat (count_stores ops) * (ns_of c + hsz c).
Proof.
  intros Hc Hm. induction ops as [|o ops IH]; intros w I B; cbn [run_from count_stores]; [split; [exact I|cbn; lia]|].
  assert (Hb : is_store o = true -> next w < lim c).
  { intro E. cbn [count_stores] in B. rewrite E in B. unfold hsz, hdr_size in *. lia. }
  pose proof (step_winv c w o Hc Hm I Hb) as I1.
  pose proof (step_next c w o Hc Hm I Hb) as N1.
  destruct (step c w o) as [w1 r1]. cbn [fst] in *.
  assert (B1 : next w1 + N.of_nat (count_stores ops) * (ns_of c + hsz c) <= lim c).
  { rewrite N1. cbn [count_stores] in B. destruct (is_store o); lia. }
  specialize (IH w1 I1 B1).
  destruct (run_from c w1 ops) as [w2 rs2]. cbn [fst] in *. destruct IH as [IH1 IH2].
  split; [exact IH1|]. rewrite IH2, N1. destruct (is_store o); lia.
Qed.

(* one step, mode off: after a successful write the file, read at the object's loaded header address,
   decodes to the object itself (all fields; the lazy state is the receiver's) *)
Lemma step_image_off c w o recv : cfg_ok c -> c_mode c = MOff -> winv c w ->
  (is_store o = true -> next w < lim c) -> is_write o = true -> snd (step c w o) = ROk ->
  load_from (c_osz c) recv (fil (fst (step c w o))) (loaded_hdr (bt (fst (step c w o))))
  = LOk (with_lazy (bt (fst (step c w o))) (lazy recv)).
Proof.
  intros Hc Hm I Hb Hw Hr. pose proof I as (W & Hn & Hs & Hl & Hx & Hld).
  pose proof W as (W1 & W2 & W3 & W4 & W5 & W6 & W7 & W8 & W9 & W10 & W11 & W12 & W13).
  pose proof Hc as [Ho Hcap].
  destruct o as [n v|n v|n|n|n| | | |]; try discriminate Hw.
  - (* store + load *)
    rewrite storeload_ok by (try assumption; apply Hb; reflexivity).
    cbn [fst fil bt loaded_hdr]. rewrite <- Hn.
    rewrite load_after_store; try assumption; [|apply Hb; reflexivity|lia].
    unfold with_lazy. cbn [node_size header leaf_type leaf_recs recs loaded_hdr loaded_leaf]. reflexivity.
  - (* rewrite + load *)
    destruct (N.eq_dec (loaded_hdr (bt w)) 0) as [Z|Z];
      [rewrite rewrite_refused in Hr by exact Z; discriminate Hr|].
    destruct (Hld Z) as [D1 D2].
    rewrite rewrite_ok by assumption.
    cbn [fst fil bt loaded_hdr].
    rewrite load_after_store; try assumption; [|rewrite Hn; exact D1].
    unfold with_lazy. cbn [node_size header leaf_type leaf_recs recs loaded_hdr loaded_leaf]. rewrite Hn. reflexivity.
  - (* write in place, same object: any number of times *)
    destruct (N.eq_dec (loaded_hdr (bt w)) 0) as [Z|Z];
      [rewrite writeat_refused in Hr by exact Z; discriminate Hr|].
    destruct (Hld Z) as [D1 D2].
    rewrite writeat_ok by exact Z.
    cbn [fst fil bt with_root loaded_hdr].
    rewrite load_after_store; try assumption; [|rewrite Hn; exact D1].
    unfold with_lazy. cbn [node_size header leaf_type leaf_recs recs loaded_hdr loaded_leaf set_root].
    unfold with_root. cbn [node_size header leaf_type leaf_recs recs loaded_hdr loaded_leaf]. rewrite W11, W12. reflexivity.
Qed.

Lemma with_lazy_strip s l : with_lazy (strip_bt s) l = with_lazy s l.
Proof. reflexivity. Qed.

(* C14_image_after_every_write: every mode, any history before the write *)
Theorem image_after_write c ops o recv : cfg_ok c -> addr_ok c (ops ++ [o]) -> is_write o = true ->
  last (snd (run c (ops ++ [o]))) RErr = ROk ->
  let w := fst (run c (ops ++ [o])) in
  load_from (c_osz c) recv (fil w) (loaded_hdr (bt w)) = LOk (with_lazy (bt w) (lazy recv)).
Proof.
  intros Hc Ha Hw Hr. cbv zeta.
  destruct (mode_irrelevant_strip c (ops ++ [o])) as [A B].
  rewrite B in Hr.
  assert (G : load_from (c_osz c) recv (fil (fst (run (cfg_off c) (ops ++ [o]))))
                (loaded_hdr (bt (fst (run (cfg_off c) (ops ++ [o])))))
              = LOk (with_lazy (bt (fst (run (cfg_off c) (ops ++ [o])))) (lazy recv))).
  { unfold run in *. rewrite run_from_snoc in *. cbn [fst snd] in *.
    rewrite last_last in Hr.
    unfold addr_ok in Ha. rewrite count_stores_app in Ha. cbn [count_stores] in Ha.
    destruct (run_from_winv_next (cfg_off c) Hc eq_refl ops (init (cfg_off c))
                (init_winv (cfg_off c) Hc eq_refl)) as [I Nx].
    { unfold init. cbn [next]. change (ns_of (cfg_off c)) with (ns_of c). change (hsz (cfg_off c)) with (hsz c).
      change (lim (cfg_off c)) with (lim c). lia. }
    apply (step_image_off (cfg_off c) _ o recv Hc eq_refl I); [|exact Hw|exact Hr].
    intro E. rewrite Nx. rewrite E in Ha. unfold init. cbn [next].
    change (ns_of (cfg_off c)) with (ns_of c). change (hsz (cfg_off c)) with (hsz c).
    change (lim (cfg_off c)) with (lim c). unfold hsz, hdr_size in *. lia. }
  rewrite <- A in G. exact G.
Qed.

(* WriteToFile on the same object (no reload): the image at the returned header address *)
Theorem image_after_store c ops recv : cfg_ok c -> addr_ok c (ops ++ [OStore]) ->
  let w := fst (run c (ops ++ [OStore])) in
  last (snd (run c (ops ++ [OStore]))) RErr = ROk
  /\ exists s', load_from (c_osz c) recv (fil w) (next w - hsz c) = LOk s'
       /\ recs s' = recs (bt w) /\ leaf_recs s' = recs (bt w) /\ header s' = header (bt w)
       /\ node_size s' = node_size (bt w).
Proof.
  intros Hc Ha. cbv zeta.
  destruct (mode_irrelevant_strip c (ops ++ [OStore])) as [A B]. rewrite B.
  assert (G : last (snd (run (cfg_off c) (ops ++ [OStore]))) RErr = ROk
     /\ exists s', load_from (c_osz c) recv (fil (fst (run (cfg_off c) (ops ++ [OStore]))))
                     (next (fst (run (cfg_off c) (ops ++ [OStore]))) - hsz c) = LOk s'
       /\ recs s' = recs (bt (fst (run (cfg_off c) (ops ++ [OStore]))))
       /\ leaf_recs s' = recs (bt (fst (run (cfg_off c) (ops ++ [OStore]))))
       /\ header s' = header (bt (fst (run (cfg_off c) (ops ++ [OStore]))))
       /\ node_size s' = node_size (bt (fst (run (cfg_off c) (ops ++ [OStore]))))).
  { unfold run. rewrite run_from_snoc. cbn [fst snd]. rewrite last_last.
    unfold addr_ok in Ha. rewrite count_stores_app in Ha. cbn [count_stores is_store] in Ha.
    destruct (run_from_winv_next (cfg_off c) Hc eq_refl ops (init (cfg_off c))
                (init_winv (cfg_off c) Hc eq_refl)) as [I Nx].
    { unfold init. cbn [next]. change (ns_of (cfg_off c)) with (ns_of c). change (hsz (cfg_off c)) with (hsz c).
      change (lim (cfg_off c)) with (lim c). lia. }
    set (w0 := fst (run_from (cfg_off c) (init (cfg_off c)) ops)) in *.
    rewrite store_ok. cbn [fst snd fil next bt with_root recs header node_size]. split; [reflexivity|].
    pose proof I as (W & Hn & _). destruct Hc as [Ho Hcap].
    replace (next w0 + node_size (bt w0) + N.of_nat (hdr_size (c_osz (cfg_off c))) - hsz c)
      with (next w0 + node_size (bt w0)) by (unfold hsz; cbn [cfg_off c_osz]; lia).
    eexists. split.
    - apply load_after_store; try assumption; [|lia].
      unfold init in Nx. cbn [next] in Nx. change (ns_of (cfg_off c)) with (ns_of c) in Nx.
      change (hsz (cfg_off c)) with (hsz c) in Nx. change (lim (cfg_off c)) with (lim c) in Nx.
      unfold lim in *. unfold hsz, hdr_size in *. cbn [cfg_off c_osz] in *. lia.
    - cbn [recs leaf_recs header node_size]. repeat split. }
  rewrite <- A in G. exact G.
Qed.
