(* Lemmas about the B-tree v2 name index model (Model/BT2.v). *)
From HV Require Import Base.Prelude Base.Crc32 Spec.Lookup3 Model.BT2 Proofs.Lookup3.
From Coq Require Import Permutation Sorted.

Local Open Scope N_scope.

(* ============================================================================================ *)
(* 1. bytes, slices, the file                                                                    *)

Lemma le_length n v : List.length (le n v) = n.
Proof. revert v. induction n as [|n IH]; intro v; cbn [le List.length]; [reflexivity|rewrite IH; reflexivity]. Qed.

Lemma unle_le n v : v < 256 ^ N.of_nat n -> unle (le n v) = v.
Proof.
  revert v. induction n as [|n IH]; intros v Hv.
  - cbn [le unle]. change (256 ^ N.of_nat 0) with 1 in Hv. lia.
  - cbn [le unle]. rewrite IH.
    + pose proof (N.div_mod v 256 ltac:(lia)). lia.
    + rewrite Nat2N.inj_succ, N.pow_succ_r' in Hv.
      apply N.div_lt_upper_bound; lia.
Qed.

Lemma unle_le1 v : v < 256 -> unle (le 1 v) = v.
Proof. intro H. apply unle_le. exact H. Qed.
Lemma unle_le2 v : v < 65536 -> unle (le 2 v) = v.
Proof. intro H. apply unle_le. exact H. Qed.
Lemma unle_le4 v : v < 4294967296 -> unle (le 4 v) = v.
Proof. intro H. apply unle_le. exact H. Qed.
Lemma unle_le8 v : v < 18446744073709551616 -> unle (le 8 v) = v.
Proof. intro H. apply unle_le. exact H. Qed.

Lemma crc32_lt bs : crc32 bs < 4294967296.
Proof. unfold crc32, wrap32. apply N.mod_lt. lia. Qed.

Lemma bytes_eqb_refl (a : bytes) : bytes_eqb a a = true.
Proof. induction a as [|x a IH]; cbn [bytes_eqb list_eqb]; [reflexivity|]. rewrite N.eqb_refl. exact IH. Qed.

Lemma list_eqb_eq (a b : list N) : list_eqb N.eqb a b = true <-> a = b.
Proof.
  revert b. induction a as [|x a IH]; intros [|y b]; cbn [list_eqb]; split; intro H; try reflexivity; try discriminate.
  - apply andb_true_iff in H. destruct H as [H1 H2]. apply N.eqb_eq in H1. apply IH in H2. subst. reflexivity.
  - inversion H; subst. rewrite N.eqb_refl. apply IH. reflexivity.
Qed.

Lemma bytes_eqb_eq (a b : bytes) : bytes_eqb a b = true <-> a = b.
Proof. apply list_eqb_eq. Qed.

Lemma bytes_eqb_neq (a b : bytes) : bytes_eqb a b = false <-> a <> b.
Proof.
  split.
  - intros H E. subst. rewrite bytes_eqb_refl in H. discriminate.
  - intro H. destruct (bytes_eqb a b) eqn:E; [|reflexivity]. apply bytes_eqb_eq in E. contradiction.
Qed.

(* slices of concatenations *)
Lemma slice_mid {A} (a b c : list A) : firstn (List.length b) (skipn (List.length a) (a ++ b ++ c)) = b.
Proof.
  rewrite skipn_app, skipn_all, Nat.sub_diag. cbn [skipn app].
  rewrite firstn_app, firstn_all, Nat.sub_diag. cbn [firstn]. apply app_nil_r.
Qed.

Lemma slice_mid' (a b c : list N) (off n : nat) :
  off = List.length a -> n = List.length b -> slice (a ++ b ++ c) off n = b.
Proof. intros -> ->. apply slice_mid. Qed.

Lemma slice_app_l (a b : list N) (off n : nat) :
  (off + n <= List.length a)%nat -> slice (a ++ b) off n = slice a off n.
Proof.
  intro H. unfold slice. rewrite skipn_app.
  replace (off - List.length a)%nat with 0%nat by lia. cbn [skipn].
  rewrite firstn_app. rewrite skipn_length.
  replace (n - (List.length a - off))%nat with 0%nat by lia. cbn [firstn]. apply app_nil_r.
Qed.

Lemma slice_firstn (f : list N) (k off n : nat) :
  (off + n <= k)%nat -> slice (firstn k f) off n = slice f off n.
Proof.
  intro H. unfold slice. rewrite skipn_firstn_comm, firstn_firstn.
  replace (Nat.min n (k - off)) with n by lia. reflexivity.
Qed.

Lemma nth_app_exact {A} (a : list A) x b d : nth (List.length a) (a ++ x :: b) d = x.
Proof. rewrite app_nth2, Nat.sub_diag by lia. reflexivity. Qed.

(* ---- write_at / read_at ---- *)
Lemma write_at_length f off d :
  List.length (write_at f off d) = Nat.max (List.length f) (N.to_nat off + List.length d).
Proof.
  unfold write_at. rewrite !app_length, firstn_length, skipn_length, app_length, repeat_length. lia.
Qed.

Lemma read_write_same f off d : read_at (write_at f off d) off (List.length d) = Some d.
Proof.
  unfold read_at. rewrite write_at_length.
  replace (N.to_nat off + List.length d <=? Nat.max (List.length f) (N.to_nat off + List.length d))%nat with true
    by (symmetry; apply Nat.leb_le; lia).
  f_equal. unfold write_at.
  set (f' := f ++ repeat 0 (N.to_nat off + List.length d - List.length f)).
  assert (Hl : List.length (firstn (N.to_nat off) f') = N.to_nat off).
  { rewrite firstn_length. unfold f'. rewrite app_length, repeat_length. lia. }
  unfold slice. rewrite <- Hl at 1. apply slice_mid.
Qed.

(* a write at or above the end of a range that is inside the old file does not change it *)
Lemma read_write_below f off d o2 n :
  (N.to_nat o2 + n <= N.to_nat off)%nat -> (N.to_nat o2 + n <= List.length f)%nat ->
  read_at (write_at f off d) o2 n = Some (slice f (N.to_nat o2) n).
Proof.
  intros H1 H2. unfold read_at. rewrite write_at_length. unfold file, bytes, byte in *.
  replace (N.to_nat o2 + n <=? Nat.max (List.length f) (N.to_nat off + List.length d))%nat with true
    by (symmetry; apply Nat.leb_le; lia).
  f_equal. unfold write_at.
  set (f' := f ++ repeat 0 (N.to_nat off + List.length d - List.length f)).
  rewrite slice_app_l.
  2:{ rewrite firstn_length. unfold f'. rewrite app_length, repeat_length. lia. }
  rewrite slice_firstn by lia. unfold f'. apply slice_app_l. lia.
Qed.

Lemma read_at_some f off n b : read_at f off n = Some b -> b = slice f (N.to_nat off) n.
Proof. unfold read_at. destruct (_ <=? _)%nat; intro H; inversion H. reflexivity. Qed.

(* ============================================================================================ *)
(* 2. header and leaf: decode (encode x) = x                                                     *)

Lemma unle1_lit v : v < 256 -> unle [v mod 256] = v.
Proof. exact (unle_le1 v). Qed.
Lemma unle2_lit v : v < 65536 -> unle [v mod 256; v / 256 mod 256] = v.
Proof. exact (unle_le2 v). Qed.
Lemma unle4_lit v : v < 4294967296 ->
  unle [v mod 256; v / 256 mod 256; v / 256 / 256 mod 256; v / 256 / 256 / 256 mod 256] = v.
Proof. exact (unle_le4 v). Qed.
Lemma unle8_lit v : v < 18446744073709551616 ->
  unle [v mod 256; v / 256 mod 256; v / 256 / 256 mod 256; v / 256 / 256 / 256 mod 256;
        v / 256 / 256 / 256 / 256 mod 256; v / 256 / 256 / 256 / 256 / 256 mod 256;
        v / 256 / 256 / 256 / 256 / 256 / 256 mod 256; v / 256 / 256 / 256 / 256 / 256 / 256 / 256 mod 256] = v.
Proof. exact (unle_le8 v). Qed.

Definition osz_ok (osz : nat) : Prop := osz = 1%nat \/ osz = 2%nat \/ osz = 4%nat \/ osz = 8%nat.

(* the fields fit their on-disk widths *)
Definition hdr_fits (osz : nat) (h : hdr) : Prop :=
  h_type h < 256 /\ h_node_size h < 4294967296 /\ h_rec_size h < 65536 /\ h_depth h < 65536 /\
  h_split h < 256 /\ h_merge h < 256 /\ h_root h < 256 ^ N.of_nat osz /\ h_nroot h < 65536 /\
  h_total h < 18446744073709551616.

Lemma hdr_body_length osz h : osz_ok osz -> List.length (hdr_body osz h) = (26 + osz)%nat.
Proof. intros [-> | [-> | [-> | ->]]]; reflexivity. Qed.

Lemma encode_header_length osz s : osz_ok osz -> List.length (encode_header osz s) = hdr_size osz.
Proof.
  intro H. unfold encode_header, hdr_size. rewrite app_length, le_length, hdr_body_length by exact H. lia.
Qed.

Ltac decode_header_tac :=
  match goal with
  | |- context [crc32 (firstn ?k (?b ++ _))] =>
    replace (firstn k (b ++ le 4 (crc32 b))) with b
      by (symmetry; etransitivity; [apply (firstn_app k b)|];
          change k with (List.length b); rewrite firstn_all, Nat.sub_diag; apply app_nil_r)
  end;
  match goal with |- context [crc32 ?b] =>
    let c := fresh "c" in let Hc := fresh "Hc" in
    set (c := crc32 b); assert (Hc : c < 4294967296) by apply crc32_lt; clearbody c;
    cbn [slice firstn skipn app le sig_hdr enc_addr dec_addr nth Nat.add hdr_body
         h_type h_node_size h_rec_size h_depth h_split h_merge h_root h_nroot h_total];
    change (bytes_eqb [66; 84; 72; 68] [66; 84; 72; 68]) with true; change (0 =? 0) with true; cbn [negb];
    unfold byte;
    rewrite (unle4_lit _ Hc), N.eqb_refl; cbn [negb]
  end.

Lemma decode_encode_header osz h : osz_ok osz -> hdr_fits osz h ->
  decode_header osz (hdr_body osz h ++ le 4 (crc32 (hdr_body osz h))) = LOk h.
Proof.
  intros Ho (H1 & H2 & H3 & H4 & H5 & H6 & H7 & H8 & H9).
  destruct h as [ty ns rsz dep sp mg root nroot total].
  cbn [h_type h_node_size h_rec_size h_depth h_split h_merge h_root h_nroot h_total] in *.
  unfold decode_header.
  destruct Ho as [-> | [-> | [-> | ->]]]; decode_header_tac.
  - change (256 ^ N.of_nat 1) with 256 in H7.
    rewrite (unle4_lit _ H2), !unle2_lit, (unle8_lit _ H9), (unle1_lit _ H7) by assumption. reflexivity.
  - change (256 ^ N.of_nat 2) with 65536 in H7.
    rewrite (unle4_lit _ H2), !unle2_lit, (unle8_lit _ H9) by assumption. reflexivity.
  - change (256 ^ N.of_nat 4) with 4294967296 in H7.
    rewrite (unle4_lit _ H2), (unle4_lit _ H7), !unle2_lit, (unle8_lit _ H9) by assumption. reflexivity.
  - change (256 ^ N.of_nat 8) with 18446744073709551616 in H7.
    rewrite (unle4_lit _ H2), (unle8_lit _ H7), !unle2_lit, (unle8_lit _ H9) by assumption. reflexivity.
Qed.

(* ---- leaf ---- *)
Definition rec_wf (r : rec) : Prop := fst r < 4294967296 /\ List.length (snd r) = 7%nat.

Lemma enc_rec_length r : rec_wf r -> List.length (enc_rec r) = 11%nat.
Proof. intros [_ H]. unfold enc_rec. rewrite app_length, le_length, H. reflexivity. Qed.

Lemma flat_enc_length rs : Forall rec_wf rs -> List.length (flat_map enc_rec rs) = (List.length rs * 11)%nat.
Proof.
  induction 1 as [|r rs Hr _ IH]; [reflexivity|].
  cbn [flat_map List.length]. rewrite app_length, enc_rec_length, IH by exact Hr. lia.
Qed.

Lemma dec_recs_enc : forall rs (pre post : list N), Forall rec_wf rs ->
  dec_recs (List.length rs) (pre ++ flat_map enc_rec rs ++ post) (List.length pre) = rs.
Proof.
  induction rs as [|r rs IH]; intros pre post H; [reflexivity|].
  inversion H as [|r' rs' Hr Hrs]; subst. destruct Hr as [Hh Hid].
  destruct r as [h id]. cbn [fst snd] in *.
  cbn [List.length dec_recs flat_map]. change (enc_rec (h, id)) with (le 4 h ++ id).
  unfold bytes, byte in *.
  f_equal.
  - f_equal.
    + rewrite <- !app_assoc.
      transitivity (unle (le 4 h)); [|apply unle_le4; exact Hh].
      f_equal. apply slice_mid'; [reflexivity|rewrite le_length; reflexivity].
    + rewrite <- !app_assoc. rewrite (app_assoc pre (le 4 h)).
      apply slice_mid'; [rewrite app_length, le_length; reflexivity|symmetry; exact Hid].
  - specialize (IH (pre ++ le 4 h ++ id) post Hrs). unfold bytes, byte in *.
    rewrite !app_length, le_length, Hid in IH.
    replace (List.length pre + (4 + 7))%nat with (List.length pre + 11)%nat in IH by lia.
    etransitivity; [|exact IH]. f_equal. rewrite <- !app_assoc. reflexivity.
Qed.

Lemma leaf_body_length ty rs : Forall rec_wf rs -> List.length (leaf_body ty rs) = (6 + List.length rs * 11)%nat.
Proof. intro H. unfold leaf_body. rewrite !app_length, flat_enc_length by exact H. reflexivity. Qed.

Lemma encode_leaf_length s : Forall rec_wf (leaf_recs s) ->
  List.length (encode_leaf s) = (4 + 1 + 1 + List.length (leaf_recs s) * 11 + 4)%nat.
Proof. intro H. unfold encode_leaf. rewrite app_length, le_length, leaf_body_length by exact H. lia. Qed.

Lemma decode_encode_leaf ty rs : Forall rec_wf rs ->
  decode_leaf (List.length rs) (leaf_body ty rs ++ le 4 (crc32 (leaf_body ty rs))) = LOk (ty, rs).
Proof.
  intro H. unfold decode_leaf.
  pose proof (leaf_body_length ty rs H) as Hl.
  set (body := leaf_body ty rs) in *.
  replace (firstn (6 + List.length rs * 11) (body ++ le 4 (crc32 body))) with body
    by (rewrite <- Hl, firstn_app, firstn_all, Nat.sub_diag; cbn [firstn]; symmetry; apply app_nil_r).
  replace (slice (body ++ le 4 (crc32 body)) (6 + List.length rs * 11) 4) with (le 4 (crc32 body)).
  2:{ symmetry. rewrite <- (app_nil_r (le 4 (crc32 body))) at 1.
      apply slice_mid'; [symmetry; exact Hl|rewrite le_length; reflexivity]. }
  rewrite unle_le4 by apply crc32_lt. rewrite N.eqb_refl. cbn [negb].
  replace (dec_recs (List.length rs) (body ++ le 4 (crc32 body)) 6) with rs.
  2:{ symmetry. unfold body, leaf_body.
      change 6%nat with (List.length (sig_leaf ++ [0; ty])).
      rewrite (app_assoc sig_leaf), <- app_assoc. apply dec_recs_enc. exact H. }
  unfold body, leaf_body.
  cbn [sig_leaf app slice firstn skipn nth].
  change (bytes_eqb [66; 84; 76; 70] sig_leaf) with true. rewrite ?N.eqb_refl. reflexivity.
Qed.

(* ============================================================================================ *)
(* 3. LoadFromFile after WriteToFile / WriteAt                                                   *)

Definition cap_ok (ns : N) : Prop := 10 <= ns /\ ns < 4294967296 /\ max_records ns <= 65535.

Definition st_wf (s : bt2) : Prop :=
  let h := header s in
  h_type h = 5 /\ h_node_size h = node_size s /\ cap_ok (node_size s) /\
  h_rec_size h < 65536 /\ h_depth h = 0 /\ h_split h < 256 /\ h_merge h < 256 /\
  h_nroot h = N.of_nat (List.length (recs s)) /\ h_total h = N.of_nat (List.length (recs s)) /\
  N.of_nat (List.length (recs s)) <= max_records (node_size s) /\
  leaf_recs s = recs s /\ leaf_type s = 5 /\ Forall rec_wf (recs s).

Lemma max_records_eq ns : 10 <= ns -> ns < 4294967296 -> max_records ns = (ns - 10) / 11.
Proof.
  intros H1 H2. unfold max_records, sub32.
  replace (10 mod 4294967296) with 10 by reflexivity.
  replace ((ns + 4294967296 - 10) mod 4294967296) with (ns - 10); [reflexivity|].
  replace (ns + 4294967296 - 10) with ((ns - 10) + 1 * 4294967296) by lia.
  rewrite N.mod_add by lia. symmetry. apply N.mod_small. lia.
Qed.

Lemma cap_fits ns (n : nat) : cap_ok ns -> N.of_nat n <= max_records ns ->
  (4 + 1 + 1 + n * 11 + 4 <= N.to_nat ns)%nat.
Proof.
  intros (H1 & H2 & _) H. rewrite max_records_eq in H by assumption.
  assert (11 * N.of_nat n <= ns - 10).
  { etransitivity; [apply N.mul_le_mono_l; exact H|]. apply N.mul_div_le. lia. }
  lia.
Qed.

Lemma load_after_store osz s f la ha recv :
  osz_ok osz -> st_wf s -> la < 256 ^ N.of_nat osz -> la + node_size s <= ha ->
  load_from osz recv
    (write_at (write_at f la (encode_leaf s)) ha (encode_header osz (with_root s la))) ha
  = LOk (mkBT (node_size s) (set_root (header s) la) 5 (recs s) (recs s) ha la (lazy recv)).
Proof.
  intros Ho (W1 & W2 & W3 & W4 & W5 & W6 & W7 & W8 & W9 & W10 & W11 & W12 & W13) Hla Hd.
  pose proof W3 as (C1 & C2 & C3).
  unfold load_from.
  rewrite <- (encode_header_length osz (with_root s la) Ho).
  rewrite read_write_same.
  unfold encode_header at 1. cbn [with_root header].
  assert (Hn : N.of_nat (List.length (recs s)) < 65536) by lia.
  rewrite decode_encode_header.
  2: exact Ho.
  2:{ unfold hdr_fits, set_root. cbn [h_type h_node_size h_rec_size h_depth h_split h_merge h_root h_nroot h_total].
      rewrite W1, W2, W5, W8, W9. repeat split; try lia; try assumption. }
  unfold set_root at 1 2 3 4 5 6.
  cbn [h_type h_node_size h_rec_size h_depth h_split h_merge h_root h_nroot h_total].
  rewrite W1, W5, W8. change (5 =? 5) with true. change (0 =? 0) with true. cbn [negb].
  destruct (0 <? N.of_nat (List.length (recs s))) eqn:E.
  - rewrite Nat2N.id.
    assert (Hfit := cap_fits _ _ W3 W10).
    assert (Hll : List.length (encode_leaf s) = (4 + 1 + 1 + List.length (recs s) * 11 + 4)%nat).
    { rewrite encode_leaf_length; rewrite W11; [reflexivity|exact W13]. }
    rewrite read_write_below.
    2: lia.
    2:{ rewrite write_at_length. lia. }
    pose proof (read_write_same f la (encode_leaf s)) as R. apply read_at_some in R.
    rewrite Hll in R. rewrite <- R.
    unfold encode_leaf. rewrite W11, W12. rewrite decode_encode_leaf by exact W13.
    unfold set_root at 1 3. cbn [h_node_size h_root]. rewrite W2. reflexivity.
  - apply N.ltb_ge in E. assert (Hz : recs s = []) by (destruct (recs s); [reflexivity|cbn in E; lia]).
    rewrite Hz. unfold set_root at 1 3. cbn [h_node_size h_root]. rewrite W2. reflexivity.
Qed.
