(* C01 end to end, superblock and group stages: on image_v2 the reader programs return
     p_superblock            the superblock SB' (8-byte offsets, root object header at 2168)
     p_ohdr at 2168          the root header with the symbol table message (B-tree 1624, heap 48)
     p_local_heap at 48      the heap segment, in which the string at offset 0 is the link name
     p_group_btree at 1624   the single symbol table entry (name offset 0, the dataset's object header address) *)
From HV Require Import Base.Prelude Base.Outcome Base.Bytes Model.IOProg Proofs.IOProg Model.IOProgReader.
From HV Require Import Model.CodecSuper Model.CodecOhdr Model.CodecMsg Model.CodecType Model.CodecLink Model.GroupWire.
From HV Require Import Proofs.CodecSuper Proofs.CodecOhdr.
From HV Require Import Model.FileImage Proofs.FileImage Proofs.FileImageOhdr Proofs.FileImageData.

(* one symbol table entry with a symbolic object address *)
Lemma snod_entries_one (X : bytes) : length X = 8%nat ->
  snod_entries SB' 1 (le 8 0 ++ X ++ le 4 0 ++ le 4 0 ++ zeros 16) 0 = Ok [(0, unle X, 0, 0, 0)].
Proof.
  intros H. do 9 (destruct X as [|? X]; try discriminate). vm_compute. reflexivity.
Qed.

(* the superblock decoder looks at the first 44 bytes only *)
Lemma dec_sb_buf_v2 x (T : bytes) : wf_superblock x = true -> sp_version x = 2 -> blen T = 80 ->
  dec_sb_buf (enc_superblock x ++ T) 128 = Ok (proj_superblock x).
Proof.
  unfold wf_superblock. intros H Hv HT.
  apply andb_true_iff in H as [H Heof]. apply andb_true_iff in H as [H Hhp].
  apply andb_true_iff in H as [H Hbt]. apply andb_true_iff in H as [H Hext].
  apply andb_true_iff in H as [H Hroot]. apply andb_true_iff in H as [Hok Hbase].
  apply u64_lt in Heof, Hhp, Hbt, Hext, Hroot, Hbase.
  destruct x as [ver os ls base root ext bt hp eof]; cbn [sp_version sp_offsize sp_lensize sp_base sp_root
    sp_superext sp_rootbtree sp_rootheap sp_eof] in *. subst ver.
  unfold enc_superblock, proj_superblock. cbn [sp_version sp_offsize sp_lensize sp_base sp_root
    sp_superext sp_rootbtree sp_rootheap sp_eof].
  change (2 =? 0) with false. cbv iota.
  set (ext' := if ext =? 0 then UNDEF else ext).
  assert (Hext' : ext' < 256 ^ 8) by (subst ext'; destruct (ext =? 0); [reflexivity | exact Hext]).
  set (body := signature ++ [2; 8; 8; 0] ++ le 8 base ++ le 8 ext' ++ le 8 eof ++ le 8 root).
  set (crc := le 4 (crc32_ieee body)).
  assert (LBody : blen body = 44) by (subst body; unfold signature; rewrite !blen_app, !blen_le; reflexivity).
  assert (LE48 : blen (body ++ crc) = 48) by (subst crc; rewrite blen_app, LBody, blen_le; reflexivity).
  assert (LB : blen ((body ++ crc) ++ T) = 128) by (rewrite blen_app, LE48, HT; reflexivity).
  assert (EB : (body ++ crc) ++ T
             = signature ++ [2; 8; 8; 0] ++ le 8 base ++ le 8 ext' ++ le 8 eof ++ le 8 root ++ crc ++ T)
    by (subst body; rewrite <- !app_assoc; reflexivity).
  destruct (v2_head_reads 2 (le 8 base ++ le 8 ext' ++ le 8 eof ++ le 8 root ++ crc ++ T))
    as (R0 & R8 & R9 & R10).
  unfold dec_sb_buf. change (128 <? 48) with false. cbv iota.
  rewrite EB in *. rewrite R0. cbn [obind]. change (bytes_eqb signature signature) with true. cbn [negb].
  rewrite R8. cbn [obind]. change (2 =? 0) with false. change (2 =? 2) with true. cbn [orb negb andb].
  rewrite R9, R10. cbn [obind].
  change (spec_size 8) with true. cbn [andb]. cbn [obind]. cbv beta iota.
  change (8 =? 0) with false. cbv iota. change (valid_size 8) with true. cbn [andb negb].
  change (12 + 8) with 20. change (12 + 3 * 8) with 36.
  set (H12 := signature ++ [2; 8; 8; 0]).
  assert (L12 : blen H12 = 12) by reflexivity.
  assert (A0 : signature ++ [2; 8; 8; 0] ++ le 8 base ++ le 8 ext' ++ le 8 eof ++ le 8 root ++ crc ++ T
             = H12 ++ le 8 base ++ le 8 ext' ++ le 8 eof ++ le 8 root ++ crc ++ T)
    by (subst H12; rewrite <- !app_assoc; reflexivity).
  rewrite A0 in *.
  rewrite (read_value_le H12 base) by (auto; rewrite ?LB; auto; blia). cbn [obind].
  assert (A1 : H12 ++ le 8 base ++ le 8 ext' ++ le 8 eof ++ le 8 root ++ crc ++ T
             = (H12 ++ le 8 base) ++ le 8 ext' ++ le 8 eof ++ le 8 root ++ crc ++ T)
    by (rewrite <- !app_assoc; reflexivity).
  rewrite A1 in *.
  rewrite (read_value_le (H12 ++ le 8 base) ext')
    by (auto; rewrite ?LB, ?blen_app, ?L12, ?blen_le; auto; blia). cbn [obind].
  assert (A2 : (H12 ++ le 8 base) ++ le 8 ext' ++ le 8 eof ++ le 8 root ++ crc ++ T
             = ((H12 ++ le 8 base) ++ le 8 ext' ++ le 8 eof) ++ le 8 root ++ crc ++ T)
    by (rewrite <- !app_assoc; reflexivity).
  rewrite A2 in *.
  rewrite (read_value_le ((H12 ++ le 8 base) ++ le 8 ext' ++ le 8 eof) root)
    by (auto; rewrite ?LB, ?blen_app, ?L12, ?blen_le; auto; blia). cbn [obind].
  reflexivity.
Qed.

Section Image.
Variable name : bytes.
Variables class size cbf : N.
Variable dims : list N.
Variable data : bytes.
Hypothesis Hname : link_name_ok name = true.
Hypothesis Hdt : basic_dtype class size cbf = true.
Hypothesis Hdims : dims_ok dims = true.
Hypothesis Hlen : blen data = total_elems dims * size.
Hypothesis Hpos : 0 < blen data.
Hypothesis Hbound : blen data < 4294967296.

Local Notation f := (image_v2 name class size cbf dims data).
Local Notation da := (dset_addr data).
Local Notation seg := ((name ++ [0]) ++ zeros (N.to_nat (256 - (blen name + 1)))).

(* ------------------------------------------------------------------ superblock *)
Lemma image_len : blen f = eof_addr data.
Proof using Hname Hdt Hdims Hlen Hbound. clear - Hname Hdt Hdims Hlen Hbound.
  unfold image_v2, place_all, blocks_v2. cbn [concat]. rewrite !blen_app.
  rewrite sb_block_len, (heap_block_len name Hname), snod_block_len, bt_block_len, root_block_len.
  change (blen []) with 0.
  assert (Hd : blen (dset_block class size cbf dims) = OHDR_RESERVE).
  { unfold dset_block. rewrite blen_app, blen_zeros, Proofs.CodecOhdr.ohdr_v2_blen.
    pose proof (dso_chunk_bound class size cbf dims data Hdt Hdims Hlen Hbound). unfold size_ohdr_v2, OHDR_RESERVE in *. blia. }
  rewrite Hd. unfold eof_addr, dset_addr. change DATA_ADDR with 2195. blia.
Qed.

Lemma wf_final_sb : wf_superblock (final_sb data) = true.
Proof using Hbound. clear - Hbound.
  unfold wf_superblock, final_sb, encok_superblock. cbn [sp_version sp_offsize sp_lensize sp_base sp_root sp_superext sp_rootbtree sp_rootheap sp_eof].
  replace (CodecSuper.u64 (eof_addr data)) with true; [reflexivity|]. unfold CodecSuper.u64.
  symmetry. apply N.ltb_lt. unfold eof_addr, dset_addr, OHDR_RESERVE. change DATA_ADDR with 2195. blia.
Qed.

Theorem superblock_stage : run0 f p_superblock = Ok SB'.
Proof using Hname Hbound. clear - Hname Hbound.
  unfold p_superblock. rewrite run0_short.
  pose proof (P_sb_rest name class size cbf dims data) as HP. 
  destruct HP as (pre & suf & E & L). destruct pre; [|cbn in L; blia]. cbn [app] in E.
  set (R := concat (skipn 1 (blocks_v2 name class size cbf dims data))) in *.
  assert (HR : 80 <= blen R).
  { subst R. cbn [skipn blocks_v2 concat]. rewrite blen_app, (heap_block_len name Hname). blia. }
  assert (Hrd : rd f 0 128 = enc_superblock (final_sb data) ++ firstn 80 R).
  { rewrite E. unfold rd. change (N.to_nat 0) with 0%nat. change (N.to_nat 128) with 128%nat. cbn [skipn].
    rewrite <- app_assoc. rewrite firstn_app.
    pose proof (sb_block_len data) as L48. unfold blen in L48.
    rewrite firstn_all2 by blia. f_equal.
    replace (128 - length (enc_superblock (final_sb data)))%nat with 80%nat by blia.
    rewrite firstn_app. unfold blen in HR. replace (80 - length R)%nat with 0%nat by blia. cbn [firstn]. now rewrite app_nil_r. }
  assert (Hav : avail f 0 128 = 128).
  { unfold avail. rewrite Hrd, blen_app, sb_block_len. unfold blen. rewrite firstn_length. unfold blen in HR. blia. }
  unfold padded. rewrite Hav, Hrd. change (N.to_nat (128 - 128)) with 0%nat. cbn [zeros repeat]. rewrite app_nil_r.
  rewrite dec_sb_buf_v2; [reflexivity | exact wf_final_sb | reflexivity |].
  unfold blen. rewrite firstn_length. unfold blen in HR. blia.
Qed.

Lemma sig_read A (k : bytes -> prog A) : run0 f (ReadAt 0 8 k) = run0 f (k signature).
Proof using. clear Hname Hdt Hdims Hlen Hpos Hbound.
  apply run0_read_exact; [|reflexivity].
  pose proof (P_sb_rest name class size cbf dims data) as HP. 
  unfold enc_superblock in HP. cbn [sp_version final_sb] in HP. change (2 =? 0) with false in HP. cbv iota in HP.
  rewrite <- !app_assoc in HP. apply placed_head in HP. exact HP.
Qed.

(* ------------------------------------------------------------------ root object header *)
Lemma root_ok : ohdr_ok root_ohdr.
Proof using. clear Hname Hdt Hdims Hlen Hpos Hbound.
  unfold ohdr_ok. split; [reflexivity|]. split; [reflexivity|]. split; [vm_compute; discriminate|]. split; [discriminate|].
  repeat constructor; cbn; unfold MSG_CONT; try blia; try discriminate.
Qed.
Definition root_msgs : list hmsg' :=
  [ {| hmp_type := 17; hmp_offset := 2175; hmp_data := le 8 1624 ++ le 8 48 |} ].
Theorem root_header fuel : (1 < fuel)%nat ->
  run0 f (p_ohdr SB' fuel 2168) =
  Ok {| ohp_version := 2; ohp_flags := 0; ohp_refcount := 1; ohp_name := []; ohp_msgs := root_msgs |}.
Proof using Hname. clear - Hname.
  intros Hf.
  rewrite (p_ohdr_placed SB' fuel f 2168 root_ohdr (data ++ dset_block class size cbf dims) root_ok).
  - reflexivity.
  - exact (P_root_rest name class size cbf dims data Hname).
  - unfold dset_block, enc_ohdr_v2. rewrite !blen_app. change (blen [79; 72; 68; 82]) with 4. blia.
  - exact Hf.
  - reflexivity.
Qed.

(* ------------------------------------------------------------------ local heap *)
Lemma P_heap_hdr : placed f 48 (heap_header 256 1 80).
Proof using Hname. clear - Hname.
  pose proof (P_heap name class size cbf dims data) as H.  rewrite (heap_block_bytes name Hname) in H.
  apply placed_head in H. exact H.
Qed.
Lemma P_heap_seg : placed f 80 seg.
Proof using Hname. clear - Hname.
  pose proof (P_heap name class size cbf dims data) as H.  rewrite (heap_block_bytes name Hname) in H.
  apply placed_tail in H. exact H.
Qed.
Theorem heap_stage : run0 f (p_local_heap SB' 48) = Ok seg.
Proof using Hname. clear - Hname.
  unfold p_local_heap. cbn [SB' spp_offsize spp_lensize spp_bigendian]. change (8 + 2 * 8 + 8) with 32.
  rewrite (run0_read_exact _ f 48 (heap_header 256 1 80) 32 _ P_heap_hdr eq_refl).
  change (run0 f (p_read_bytes_at 80 256) = Ok seg).
  apply run0_read_bytes_at; [exact P_heap_seg | symmetry; exact (heap_seg_len name Hname) | blia | unfold MAXI64; blia].
Qed.

Lemma name_nonzero : forallb (fun b => negb (b =? 0)) name = true.
Proof using Hname. clear - Hname.
  unfold link_name_ok in Hname. apply andb_true_iff in Hname as [H _]. apply andb_true_iff in H as [H _].
  apply andb_true_iff in H as [_ H]. rewrite forallb_forall in *. intros x Hx. specialize (H x Hx).
  apply andb_true_iff in H as [H _]. exact H.
Qed.
Theorem heap_name : heap_string seg 0 = Ok name.
Proof using Hname. clear - Hname.
  destruct (name_len name Hname) as [N1 N2].
  unfold heap_string. rewrite (heap_seg_len name Hname). change (256 <=? 0) with false. cbv iota.
  assert (E : seg = name ++ 0 :: zeros (N.to_nat (256 - (blen name + 1))))
    by (symmetry; apply (app_assoc name [0])).
  brewrite E.
  pose proof (find0_app [] name (zeros (N.to_nat (256 - (blen name + 1)))) 0 eq_refl name_nonzero) as Q0.
  cbn [app] in Q0. brewrite Q0.
  replace (256 <=? 0 + blen name) with false by (symmetry; apply N.leb_gt; blia).
  apply (slice_app' [] name); [reflexivity | blia].
Qed.

(* ------------------------------------------------------------------ B-tree node and symbol table node *)
Lemma da_u64 : da < 256 ^ 8.
Proof using Hbound. clear - Hbound. unfold dset_addr. change DATA_ADDR with 2195. change (256 ^ 8) with 18446744073709551616. blia. Qed.

Theorem snod_stage : run0 f (p_snod SB' 336) = Ok [(0, da, 0, 0, 0)].
Proof using Hname Hbound. clear - Hname Hbound.
  pose proof (P_snod name class size cbf dims data Hname) as HP.  rewrite snod_block_bytes in HP.
  unfold p_snod. cbn [SB' spp_offsize spp_lensize spp_bigendian].
  rewrite (run0_read_exact _ f 336 [83; 78; 79; 68; 1; 0; 1; 0] 8 _ (placed_head _ _ _ _ HP) eq_refl).
  change (run0 f (ReadAt (336 + 8) 40 (fun d => lift (snod_entries SB' 1 d 0))) = Ok [(0, da, 0, 0, 0)]).
  assert (HP2 : placed f (336 + 8) (enc_sym 8 (final_sym data))).
  { apply (placed_sub f 336 [83; 78; 79; 68; 1; 0; 1; 0] _ (zeros 1240)). exact HP. }
  rewrite (run0_read_exact _ f (336 + 8) _ 40 _ HP2) by (symmetry; apply enc_sym_len).
  unfold enc_sym, write_address, final_sym. cbn [sy_name sy_obj sy_cache sy_res N.to_nat Pos.to_nat Pos.iter_op Nat.add].
  rewrite snod_entries_one by apply length_le.
  rewrite unle_le_small by exact da_u64. reflexivity.
Qed.

Theorem btree_stage : run0 f (p_group_btree SB' 1624) = Ok [(0, da, 0, 0, 0)].
Proof using Hname Hbound. clear - Hname Hbound.
  pose proof (P_bt name class size cbf dims data Hname) as HP.  rewrite bt_block_bytes in HP.
  unfold p_group_btree. cbn [SB' spp_offsize spp_lensize spp_bigendian]. change (8 + 2 * 8) with 24.
  assert (E : [84; 82; 69; 69; 0; 0; 1; 0] ++ le 8 UNDEF ++ le 8 UNDEF ++ (le 8 0 ++ le 8 336 ++ le 8 0) ++ zeros 496
             = ([84; 82; 69; 69; 0; 0; 1; 0] ++ le 8 UNDEF ++ le 8 UNDEF) ++ (le 8 0 ++ le 8 336 ++ le 8 0) ++ zeros 496)
    by reflexivity.
  rewrite E in HP.
  assert (HP1 : placed f 1624 ([84; 82; 69; 69; 0; 0; 1; 0] ++ le 8 UNDEF ++ le 8 UNDEF))
    by (apply (placed_head _ _ _ _ HP)).
  rewrite (run0_read_exact _ f 1624 _ 24 _ HP1 eq_refl).
  change (run0 f (ReadAt (1624 + 24) 24 (fun d => bind (lift (btree_children SB' 1 d 0)) (p_snods SB'))) = Ok [(0, da, 0, 0, 0)]).
  assert (HP2 : placed f (1624 + 24) (le 8 0 ++ le 8 336 ++ le 8 0)).
  { apply (placed_sub f 1624 ([84; 82; 69; 69; 0; 0; 1; 0] ++ le 8 UNDEF ++ le 8 UNDEF) _ (zeros 496)). exact HP. }
  rewrite (run0_read_exact _ f (1624 + 24) _ 24 _ HP2 eq_refl).
  change (run0 f (bind (p_snod SB' 336) (fun es => bind (Ret []) (fun rest => Ret (es ++ rest)))) = Ok [(0, da, 0, 0, 0)]).
  rewrite run0_bind, snod_stage. reflexivity.
Qed.

Lemma P_dset_sig : placed f da [79; 72; 68; 82].
Proof using Hname. clear - Hname.
  pose proof (P_dset name class size cbf dims data Hname) as H. 
  unfold dset_block, enc_ohdr_v2 in H. rewrite <- !app_assoc in H. apply placed_head in H. exact H.
Qed.
Lemma P_root_sig : placed f 2168 [79; 72; 68; 82].
Proof using Hname. clear - Hname.
  pose proof (P_root_rest name class size cbf dims data Hname) as H. 
  unfold enc_ohdr_v2 in H. rewrite <- !app_assoc in H. apply placed_head in H. exact H.
Qed.
Lemma P_bt_sig : placed f 1624 [84; 82; 69; 69].
Proof using Hname. clear - Hname.
  pose proof (P_bt name class size cbf dims data Hname) as H.  rewrite bt_block_bytes in H.
  change ([84; 82; 69; 69; 0; 0; 1; 0]) with ([84; 82; 69; 69] ++ [0; 0; 1; 0]) in H.
  rewrite <- !app_assoc in H. apply placed_head in H. exact H.
Qed.
End Image.
