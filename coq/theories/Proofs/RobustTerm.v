(* C07: the traversal models of Model/RobustTerm.v never run out of an explicitly given amount of fuel, for EVERY
   file graph (including cyclic and self-referential ones), and their step counts / recursion depths are bounded. *)
From HV Require Import Base.Prelude Base.Outcome Base.Bytes Model.RobustTerm.

Ltac dif := match goal with |- context [if ?c then _ else _] => let E := fresh "E" in destruct c eqn:E end.

(* ------------------------------------------------------------------ (a) version 1 continuation chain *)
Section V1.
  Variable blk : N -> option (N * list N).
  (* what parseV1MessagesInBlock guarantees: continuation messages are messages, and a block yields at most 65535 *)
  Hypothesis blk_ok : forall a k conts, blk a = Some (k, conts) -> N.of_nat (length conts) <= k /\ k <= 65535.

  Lemma v1_chain_bounded fuel : forall pending visited nmsgs steps,
    nmsgs <= 65535 ->
    (length pending + N.to_nat (65535 - nmsgs) < fuel)%nat ->
    v1_chain blk fuel pending visited nmsgs steps <> TOutOfFuel /\
    forall n s, v1_chain blk fuel pending visited nmsgs steps = TDone (n, s) ->
                n <= 65535 /\ s <= steps + N.of_nat (length pending) + (65535 - nmsgs).
  Proof.
    induction fuel as [|fuel IH]; intros pending visited nmsgs steps Hn Hf; [lia|].
    destruct pending as [|a rest]; cbn [v1_chain].
    - split; [discriminate|]. intros n s [= <- <-]. cbn [length]. lia.
    - dif; [split; [discriminate|discriminate]|].
      destruct (blk a) as [[k conts]|] eqn:Eb; [|split; discriminate].
      destruct (blk_ok _ _ _ Eb) as [Hc Hk].
      unfold maxV1. dif; [split; discriminate|].
      assert (Hn' : nmsgs + k <= 65535) by lia.
      cbn [length] in Hf.
      destruct (IH (rest ++ conts) (a :: visited) (nmsgs + k) (steps + 1) Hn') as [I1 I2].
      { rewrite app_length. lia. }
      split; [exact I1|]. intros n s Hd. destruct (I2 n s Hd) as [J1 J2]. split; [exact J1|].
      rewrite app_length in J2. cbn [length]. lia.
  Qed.

  (* the whole header: 65537 units of fuel are never exhausted; at most 65536 blocks are read; at most 65535 messages *)
  Lemma v1_header_terminates first :
    v1_header blk (N.to_nat 65537) first <> TOutOfFuel /\
    forall n s, v1_header blk (N.to_nat 65537) first = TDone (n, s) -> n <= 65535 /\ s <= 65535.
  Proof.
    unfold v1_header. destruct (blk first) as [[k conts]|] eqn:Eb; [|split; discriminate].
    destruct (blk_ok _ _ _ Eb) as [Hc Hk]. unfold maxV1.
    replace (N.min k 65535) with k by lia.
    destruct (v1_chain_bounded (N.to_nat 65537) conts [first] k 0 Hk) as [I1 I2]; [lia|].
    split; [exact I1|]. intros n s Hd. destruct (I2 n s Hd). split; lia.
  Qed.
End V1.

(* ------------------------------------------------------------------ (b) version 2 continuation chain *)
Section V2.
  Variable blk : N -> option (list N).

  Lemma v2_register_measure conts : forall pending visited p' v',
    (length visited <= 1024)%nat ->
    v2_register conts pending visited = Some (p', v') ->
    (length v' <= 1024)%nat /\ (length p' + (1024 - length v') = length pending + (1024 - length visited))%nat.
  Proof.
    induction conts as [|c r IH]; intros pending visited p' v' Hv; cbn [v2_register].
    - intros [= <- <-]. lia.
    - dif; [discriminate|]. intros H.
      assert (Hlt : (length visited < 1024)%nat) by lia.
      destruct (IH (pending ++ [c]) (c :: visited) p' v') as [J1 J2]; [cbn [length]; lia|exact H|].
      split; [exact J1|]. rewrite app_length in J2. cbn [length] in J2. lia.
  Qed.

  Lemma v2_chain_bounded fuel : forall pending visited steps,
    (length visited <= 1024)%nat ->
    (length pending + (1024 - length visited) < fuel)%nat ->
    v2_chain blk fuel pending visited steps <> TOutOfFuel /\
    forall s, v2_chain blk fuel pending visited steps = TDone s ->
              s <= steps + N.of_nat (length pending + (1024 - length visited)).
  Proof.
    induction fuel as [|fuel IH]; intros pending visited steps Hv Hf; [lia|].
    destruct pending as [|a rest]; cbn [v2_chain].
    - split; [discriminate|]. intros s [= <-]. lia.
    - destruct (blk a) as [conts|]; [|split; discriminate].
      destruct (v2_register conts rest visited) as [[p' v']|] eqn:Er; [|split; discriminate].
      destruct (v2_register_measure _ _ _ _ _ Hv Er) as [J1 J2]. cbn [length] in Hf.
      destruct (IH p' v' (steps + 1) J1) as [I1 I2]; [lia|].
      split; [exact I1|]. intros s Hd. specialize (I2 s Hd). cbn [length]. lia.
  Qed.

  (* parseV2Header starts with the first chunk pending and nothing visited: 1026 units of fuel suffice, <= 1025 chunks *)
  Lemma v2_header_terminates first :
    v2_chain blk 1026 [first] [] 0 <> TOutOfFuel /\
    forall s, v2_chain blk 1026 [first] [] 0 = TDone s -> s <= 1025.
  Proof.
    destruct (v2_chain_bounded 1026 [first] [] 0) as [I1 I2]; [cbn; lia|cbn; lia|].
    split; [exact I1|]. intros s Hd. specialize (I2 s Hd). cbn [length] in I2. lia.
  Qed.
End V2.

(* ------------------------------------------------------------------ (c) chunk B-tree descent *)
Section BTree.
  Variable node : N -> option (N * list N).

  (* recursion depth: the level strictly decreases, so level + 1 units of fuel are never exhausted (level is a uint8:
     256 suffice for every file) *)
  Lemma bt_collect_fuel fuel : forall level children visited,
    (N.to_nat level < fuel)%nat -> bt_collect node fuel level children visited <> TOutOfFuel.
  Proof.
    induction fuel as [|fuel IH]; intros level children visited Hf; [lia|].
    cbn [bt_collect]. dif; [discriminate|].
    generalize 0 as acc. revert visited.
    induction children as [|c r IHc]; intros visited acc; [discriminate|].
    dif; [discriminate|].
    destruct (node c) as [[lv kids]|]; [|discriminate].
    dif; [discriminate|].
    pose proof (IH lv kids (c :: visited)) as Hrec.
    destruct (bt_collect node fuel lv kids (c :: visited)) as [[n v']| |]; [apply IHc|discriminate|].
    exfalso. apply Hrec; [lia|reflexivity].
  Qed.

  Lemma bt_collect_256 level children visited :
    level <= 255 -> bt_collect node 256 level children visited <> TOutOfFuel.
  Proof. intros. apply bt_collect_fuel. lia. Qed.

  (* the visited set only grows, and every node that was parsed is in it: the number of nodes parsed is the growth *)
  Lemma bt_collect_visited fuel : forall level children visited n v',
    bt_collect node fuel level children visited = TDone (n, v') -> exists added, v' = added ++ visited.
  Proof.
    induction fuel as [|fuel IH]; intros level children visited n v'; [discriminate|].
    cbn [bt_collect]. dif; [intros [= <- <-]; exists []; reflexivity|].
    generalize 0 as acc. revert visited.
    induction children as [|c r IHc]; intros visited acc; [intros [= <- <-]; exists []; reflexivity|].
    dif; [discriminate|].
    destruct (node c) as [[lv kids]|]; [|discriminate].
    dif; [discriminate|].
    destruct (bt_collect node fuel lv kids (c :: visited)) as [[m v1]| |] eqn:Eb; try discriminate.
    intros H. destruct (IH _ _ _ _ _ Eb) as [a1 ->]. destruct (IHc _ _ H) as [a2 ->].
    exists (a2 ++ a1 ++ [c]). rewrite <- !app_assoc. reflexivity.
  Qed.
End BTree.

(* ------------------------------------------------------------------ (d) object tree load *)
Section Load.
  Variable links : N -> option (list N).

  (* recursion depth <= 1024 + 1 whatever the link graph: 1026 units of fuel are never exhausted *)
  Lemma load_fuel maxLoads fuel : forall a loading count,
    (1025 - length loading < fuel)%nat -> load links fuel maxLoads a loading count <> TOutOfFuel.
  Proof.
    induction fuel as [|fuel IH]; intros a loading count Hf; [lia|].
    cbn [load]. dif; [discriminate|]. unfold maxDepth. dif; [discriminate|]. dif; [discriminate|].
    destruct (links a) as [cs|]; [|discriminate].
    generalize (count + 1) as cnt.
    induction cs as [|c r IHc]; intros cnt; [discriminate|].
    pose proof (IH c (a :: loading) cnt) as Hrec.
    destruct (load links fuel maxLoads c (a :: loading) cnt) as [n| |]; [apply IHc|discriminate|].
    exfalso. apply Hrec; [cbn [length]; lia|reflexivity].
  Qed.

  Lemma load_terminates maxLoads root : load links 1026 maxLoads root [] 0 <> TOutOfFuel.
  Proof. apply load_fuel. cbn [length]. lia. Qed.

  (* the number of objects loaded never exceeds maxLoads (= filesize/8 + 1024 in Open) *)
  Lemma load_count maxLoads fuel : forall a loading count n,
    count <= maxLoads -> load links fuel maxLoads a loading count = TDone n -> count <= n /\ n <= maxLoads.
  Proof.
    induction fuel as [|fuel IH]; intros a loading count n Hc; [discriminate|].
    cbn [load]. dif; [intros [= <-]; lia|]. dif; [discriminate|]. dif; [discriminate|].
    destruct (links a) as [cs|]; [|discriminate].
    assert (Hc1 : count + 1 <= maxLoads) by lia.
    assert (G : forall cs cnt n, cnt <= maxLoads ->
      (fix each (cs : list N) (count : N) {struct cs} : tres N :=
         match cs with
         | [] => TDone count
         | c :: r => match load links fuel maxLoads c (a :: loading) count with
                     | TDone n => each r n | TErr => TErr | TOutOfFuel => TOutOfFuel end
         end) cs cnt = TDone n -> cnt <= n /\ n <= maxLoads).
    { clear cs. induction cs as [|c r IHc]; intros cnt m Hcnt; [intros [= <-]; lia|].
      destruct (load links fuel maxLoads c (a :: loading) cnt) as [k| |] eqn:El; try discriminate.
      destruct (IH _ _ _ _ Hcnt El) as [K1 K2]. intros H. destruct (IHc _ _ K2 H). lia. }
    intros H. destruct (G cs (count + 1) n Hc1 H). lia.
  Qed.
End Load.

(* ------------------------------------------------------------------ self-referential examples evaluate to errors, not to OutOfFuel *)
Example v1_self_cycle : v1_header (assoc [(100, (1, [100]))]) 10 100 = TErr.
Proof. vm_compute. reflexivity. Qed.
Example v1_two_cycle : v1_header (assoc [(100, (1, [200])); (200, (1, [100]))]) 10 100 = TErr.
Proof. vm_compute. reflexivity. Qed.
Example v2_self_cycle : v2_chain (assoc [(100, [100])]) 10 [100] [] 0 = TDone 2 \/ v2_chain (assoc [(100, [100])]) 10 [100] [] 0 = TErr.
Proof. vm_compute. auto. Qed.
Example bt_self_child : bt_collect (assoc [(100, (1, [100]))]) 256 1 [100] [] = TErr.
Proof. vm_compute. reflexivity. Qed.
Example bt_shared_child : bt_collect (assoc [(100, (0, [1; 2]))]) 256 1 [100; 100] [] = TErr.
Proof. vm_compute. reflexivity. Qed.
Example load_cycle_is_listed : load (assoc [(1, [2]); (2, [1])]) 1026 100 1 [] 0 = TDone 2.
Proof. vm_compute. reflexivity. Qed.
