(* C07: the datatype conversion loops of Model/RobustConv.v (convertToFloat64, convertToStrings, parseCompoundData),
   for ALL raw byte lists of a length a Go slice can have (len is an int: < 2^63), ALL numElements < 2^64 and all
   element sizes:
     - closed form of each loop (what it returns as a function of the sizes only);
     - never a run-time panic, never out of fuel with fuel S (N.to_nat numElements);
     - the make() of the result is at most 8 (16 for strings) bytes per byte of raw data;
     - an Ok result has all numElements elements, and numElements * size <= len(rawData);
     - the float64 loop agrees with the closed form RobustAlloc.convert_to_float64 as long as len(rawData) < 2^61;
       beyond that (not a length a process can hold) the closed form's  (n-1)*size  wraps and it is the LOOP that is Go.
   Loop invariant: i * size <= len(rawData) (the guard of iteration i-1), hence no uint64 operation of iteration i wraps
   and the slice  rawData[offset : offset+size]  is in range whenever the guard lets it be reached. *)
From HV Require Import Base.Prelude Base.Outcome Base.Bytes Model.RobustAlloc Proofs.RobustAlloc Model.RobustConv.

(* a Go slice length *)
Definition int63 (x : N) : Prop := x < 9223372036854775808.

(* ------------------------------------------------------------------ the element loop *)

(* body succeeds on every element: the loop ends with Ok exactly when all the elements fit *)
Lemma elem_loop_ok_body (body : bytes -> outcome unit) (raw : bytes) es n :
  int63 (blen raw) -> es < 4294967296 -> u64 n ->
  (forall s, blen s = es -> body s = Ok tt) ->
  forall fuel i, i <= n -> i * es <= blen raw -> (N.to_nat (n - i) < fuel)%nat ->
  elem_loop body fuel raw es n i = Some (if n * es <=? blen raw then Ok n else Err).
Proof.
  unfold int63, u64. intros Hraw Hes Hn Hbody.
  induction fuel as [|fuel IH]; intros i Hi Hinv Hf; [lia|].
  cbn [elem_loop]. cbv zeta. destruct (i <? n) eqn:Ein.
  - assert (W1 : wrap64 (i * es) = i * es) by (unfold wrap64; lia).
    rewrite W1.
    assert (W2 : wrap64 (i * es + es) = i * es + es) by (unfold wrap64; lia).
    rewrite W2.
    assert (Hmono : (i + 1) * es <= n * es) by (apply N.mul_le_mono_r; lia).
    destruct (blen raw <? i * es + es) eqn:Eg.
    + replace (n * es <=? blen raw) with false by lia. reflexivity.
    + destruct (slice_in_range raw (i * es) (i * es + es)) as (s & Hs & Hl); [lia|lia|].
      rewrite Hs. rewrite (Hbody s) by lia.
      assert (W3 : wrap64 (i + 1) = i + 1) by (unfold wrap64; lia).
      rewrite W3. apply IH; lia.
  - assert (i = n) by lia. subst i.
    replace (n * es <=? blen raw) with true by lia. reflexivity.
Qed.

(* body fails on every element: the first iteration (if there is one) returns the error *)
Lemma elem_loop_err_body (body : bytes -> outcome unit) (raw : bytes) es n :
  int63 (blen raw) -> es < 4294967296 ->
  (forall s, blen s = es -> body s = Err) ->
  forall fuel, elem_loop body (S fuel) raw es n 0 = Some (if 0 <? n then Err else Ok n).
Proof.
  unfold int63. intros Hraw Hes Hbody fuel.
  cbn [elem_loop]. cbv zeta. destruct (0 <? n) eqn:Ein; [|reflexivity].
  assert (W1 : wrap64 (0 * es) = 0) by (unfold wrap64; lia).
  rewrite W1.
  assert (W2 : wrap64 (0 + es) = es) by (unfold wrap64; lia).
  rewrite W2.
  destruct (blen raw <? es) eqn:Eg; [reflexivity|].
  destruct (slice_in_range raw 0 es) as (s & Hs & Hl); [lia|lia|].
  rewrite Hs. rewrite (Hbody s) by lia. reflexivity.
Qed.

(* ------------------------------------------------------------------ convertToFloat64 *)

Theorem conv_float64_closed (raw : bytes) es n :
  int63 (blen raw) -> u64 n ->
  conv_float64 raw es n =
    (Some (if blen raw <? n then Err
           else if negb ((es =? 8) || (es =? 4)) then Err
           else if n * es <=? blen raw then Ok n else Err),
     if blen raw <? n then [] else [8 * n]).
Proof.
  intros Hraw Hn. unfold conv_float64. cbv zeta.
  destruct (blen raw <? n) eqn:E1; [reflexivity|].
  destruct (negb ((es =? 8) || (es =? 4))) eqn:E2; [reflexivity|].
  unfold conv_fuel.
  assert (Hes : es < 4294967296) by lia.
  rewrite (elem_loop_ok_body no_body raw es n Hraw Hes Hn (fun s _ => eq_refl)) by lia.
  reflexivity.
Qed.

Theorem conv_float64_no_panic (raw : bytes) es n :
  int63 (blen raw) -> u64 n -> fst (conv_float64 raw es n) <> Some Panic.
Proof.
  intros Hraw Hn. rewrite conv_float64_closed by assumption. cbn [fst].
  repeat dif; discriminate.
Qed.

Theorem conv_float64_fuel (raw : bytes) es n :
  int63 (blen raw) -> u64 n -> fst (conv_float64 raw es n) <> None.
Proof. intros Hraw Hn. rewrite conv_float64_closed by assumption. cbn [fst]. discriminate. Qed.

Theorem conv_float64_alloc (raw : bytes) es n : alloc_bounded 8 0 raw (snd (conv_float64 raw es n)).
Proof.
  unfold conv_float64. cbv zeta. destruct (blen raw <? n) eqn:E1; [apply ab_nil|].
  destruct (negb ((es =? 8) || (es =? 4))); cbn [snd]; (apply ab_cons; [lia|apply ab_nil]).
Qed.

Theorem conv_float64_ok (raw : bytes) es n k :
  int63 (blen raw) -> u64 n ->
  fst (conv_float64 raw es n) = Some (Ok k) -> k = n /\ n * es <= blen raw /\ (es = 8 \/ es = 4).
Proof.
  intros Hraw Hn. rewrite conv_float64_closed by assumption. cbn [fst].
  repeat dif; try discriminate. intros [= <-]. repeat split; lia.
Qed.

(* agreement with the closed form that the tie compares with Go (RobustAlloc.convert_to_float64) *)
Theorem conv_float64_consistent (raw : bytes) es n :
  blen raw < 2305843009213693952 -> u64 n ->
  conv_float64 raw es n = (Some (fst (convert_to_float64 raw es n)), snd (convert_to_float64 raw es n)).
Proof.
  intros Hraw Hn. rewrite conv_float64_closed by (auto; unfold int63; lia).
  unfold convert_to_float64. cbv zeta.
  destruct (blen raw <? n) eqn:E1; [reflexivity|].
  destruct (negb ((es =? 8) || (es =? 4))) eqn:E2; [reflexivity|].
  assert (Hes : es = 8 \/ es = 4) by lia.
  unfold u64, wrap64 in *.
  destruct Hes; subst es.
  - destruct (n * 8 <=? blen raw) eqn:E3;
      destruct ((0 <? n) && (blen raw <? ((n - 1) * 8) mod 18446744073709551616 + 8)) eqn:E4;
      cbn [fst snd]; try reflexivity; exfalso; lia.
  - destruct (n * 4 <=? blen raw) eqn:E3;
      destruct ((0 <? n) && (blen raw <? ((n - 1) * 4) mod 18446744073709551616 + 4)) eqn:E4;
      cbn [fst snd]; try reflexivity; exfalso; lia.
Qed.

Corollary conv_float64_consistent_fst (raw : bytes) es n :
  blen raw < 2305843009213693952 -> u64 n ->
  fst (conv_float64 raw es n) = Some (fst (convert_to_float64 raw es n)).
Proof. intros. rewrite conv_float64_consistent by assumption. reflexivity. Qed.
Corollary conv_float64_consistent_snd (raw : bytes) es n :
  blen raw < 2305843009213693952 -> u64 n ->
  snd (conv_float64 raw es n) = snd (convert_to_float64 raw es n).
Proof. intros. rewrite conv_float64_consistent by assumption. reflexivity. Qed.

(* The bound 2^61 is needed: with 2^61 + 1 bytes and as many float64 elements, (n-1)*8 = 2^64 wraps to 0 in the closed
   form, which answers Ok; the loop (Go) stops with "data truncated" at the first element that does not fit.
   Such a slice cannot exist in a process (2 EiB): this is a limit of the closed form, not a defect of the Go code. *)
Theorem convert_to_float64_closed_form_wraps (raw : bytes) :
  blen raw = 2305843009213693953 ->
  fst (conv_float64 raw 8 (blen raw)) = Some Err /\ fst (convert_to_float64 raw 8 (blen raw)) = Ok (blen raw).
Proof.
  intros H. split.
  - rewrite conv_float64_closed by (unfold int63, u64; lia). cbn [fst]. rewrite H.
    vm_compute. reflexivity.
  - unfold convert_to_float64. rewrite H. vm_compute. reflexivity.
Qed.
Lemma bytes_of_any_length (m : N) : exists raw : bytes, blen raw = m.
Proof. exists (repeat 0 (N.to_nat m)). unfold blen. rewrite repeat_length. apply N2Nat.id. Qed.
Corollary conv_float64_consistent_needs_bound :
  exists raw : bytes, int63 (blen raw) /\
    fst (conv_float64 raw 8 (blen raw)) <> Some (fst (convert_to_float64 raw 8 (blen raw))).
Proof.
  destruct (bytes_of_any_length 2305843009213693953) as (raw & H). exists raw.
  destruct (convert_to_float64_closed_form_wraps raw H) as [H1 H2].
  split; [unfold int63; lia|]. rewrite H1, H2. discriminate.
Qed.

(* ------------------------------------------------------------------ convertToStrings (fixed strings) *)

Theorem conv_strings_closed (raw : bytes) ss n :
  int63 (blen raw) -> u64 n ->
  conv_strings raw ss n =
    (Some (if blen raw <? n then Err
           else if (ss =? 0) || (16777216 <? ss) then Err
           else if n * ss <=? blen raw then Ok n else Err),
     if blen raw <? n then [] else [16 * n]).
Proof.
  intros Hraw Hn. unfold conv_strings, validate_buffer_size, MaxStringSize. cbv zeta.
  destruct (blen raw <? n) eqn:E1; [reflexivity|].
  destruct (ss =? 0) eqn:E2; cbn [orb]; [reflexivity|].
  destruct (16777216 <? ss) eqn:E3; [reflexivity|].
  unfold conv_fuel.
  assert (Hss : ss < 4294967296) by lia.
  rewrite (elem_loop_ok_body no_body raw ss n Hraw Hss Hn (fun s _ => eq_refl)) by lia.
  reflexivity.
Qed.

Theorem conv_strings_no_panic (raw : bytes) ss n :
  int63 (blen raw) -> u64 n -> fst (conv_strings raw ss n) <> Some Panic.
Proof.
  intros Hraw Hn. rewrite conv_strings_closed by assumption. cbn [fst].
  repeat dif; discriminate.
Qed.

Theorem conv_strings_fuel (raw : bytes) ss n :
  int63 (blen raw) -> u64 n -> fst (conv_strings raw ss n) <> None.
Proof. intros Hraw Hn. rewrite conv_strings_closed by assumption. cbn [fst]. discriminate. Qed.

Theorem conv_strings_alloc (raw : bytes) ss n : alloc_bounded 16 0 raw (snd (conv_strings raw ss n)).
Proof.
  unfold conv_strings. cbv zeta. destruct (blen raw <? n) eqn:E1; [apply ab_nil|].
  destruct (validate_buffer_size ss MaxStringSize); cbn [snd]; (apply ab_cons; [lia|apply ab_nil]).
Qed.

Theorem conv_strings_ok (raw : bytes) ss n k :
  int63 (blen raw) -> u64 n ->
  fst (conv_strings raw ss n) = Some (Ok k) -> k = n /\ n * ss <= blen raw /\ 1 <= ss <= 16777216.
Proof.
  intros Hraw Hn. rewrite conv_strings_closed by assumption. cbn [fst].
  repeat dif; try discriminate. intros [= <-]. repeat split; lia.
Qed.

(* ------------------------------------------------------------------ parseCompoundData *)

(* the member loop looks only at the length of the struct slice, which is structSize *)
Lemma member_loop_len ss (members : list N) (sd : bytes) :
  blen sd = ss ->
  member_loop ss members sd = if forallb (fun off => off <=? ss) members then Ok tt else Err.
Proof.
  intros Hl. induction members as [|off rest IH]; cbn [member_loop forallb]; [reflexivity|].
  destruct (ss <? off) eqn:E.
  - replace (off <=? ss) with false by lia. reflexivity.
  - unfold slice_from. replace (off <=? blen sd) with true by lia.
    replace (off <=? ss) with true by lia. cbn [andb]. exact IH.
Qed.

(* after the guard  numElements > len/structSize  the in-loop "data truncated at element i" test never fires *)
Theorem conv_compound_closed (raw : bytes) ss (members : list N) n :
  int63 (blen raw) -> ss < 4294967296 -> u64 n ->
  conv_compound raw ss members n =
    (Some (if ss =? 0 then Err
           else if blen raw / ss <? n then Err
           else if (n =? 0) || forallb (fun off => off <=? ss) members then Ok n else Err),
     if (ss =? 0) || (blen raw / ss <? n) then [] else [8 * n]).
Proof.
  intros Hraw Hss Hn. unfold conv_compound.
  destruct (ss =? 0) eqn:E1; cbn [orb]; [reflexivity|].
  destruct (blen raw / ss <? n) eqn:E2; [reflexivity|].
  assert (Hfit : n * ss <= blen raw).
  { assert (ss * (blen raw / ss) <= blen raw) by (apply N.mul_div_le; lia).
    assert (n * ss <= (blen raw / ss) * ss) by (apply N.mul_le_mono_r; lia). lia. }
  unfold conv_fuel. f_equal.
  destruct (forallb (fun off => off <=? ss) members) eqn:Em.
  - assert (Hb : forall s, blen s = ss -> member_loop ss members s = Ok tt)
      by (intros s Hs; rewrite member_loop_len by exact Hs; rewrite Em; reflexivity).
    rewrite (elem_loop_ok_body (member_loop ss members) raw ss n Hraw Hss Hn Hb) by lia.
    replace (n * ss <=? blen raw) with true by lia. rewrite orb_true_r. reflexivity.
  - assert (Hb : forall s, blen s = ss -> member_loop ss members s = Err)
      by (intros s Hs; rewrite member_loop_len by exact Hs; rewrite Em; reflexivity).
    rewrite (elem_loop_err_body (member_loop ss members) raw ss n Hraw Hss Hb).
    rewrite orb_false_r. destruct (n =? 0) eqn:E3; destruct (0 <? n) eqn:E4; try reflexivity; exfalso; lia.
Qed.

Theorem conv_compound_no_panic (raw : bytes) ss (members : list N) n :
  int63 (blen raw) -> ss < 4294967296 -> u64 n -> fst (conv_compound raw ss members n) <> Some Panic.
Proof.
  intros Hraw Hss Hn. rewrite conv_compound_closed by assumption. cbn [fst].
  repeat dif; discriminate.
Qed.

Theorem conv_compound_fuel (raw : bytes) ss (members : list N) n :
  int63 (blen raw) -> ss < 4294967296 -> u64 n -> fst (conv_compound raw ss members n) <> None.
Proof. intros Hraw Hss Hn. rewrite conv_compound_closed by assumption. cbn [fst]. discriminate. Qed.

Theorem conv_compound_alloc (raw : bytes) ss (members : list N) n :
  alloc_bounded 8 0 raw (snd (conv_compound raw ss members n)).
Proof.
  unfold conv_compound. destruct (ss =? 0) eqn:E1; [apply ab_nil|].
  destruct (blen raw / ss <? n) eqn:E2; [apply ab_nil|]. cbn [snd].
  assert (blen raw / ss <= blen raw) by (apply N.div_le_upper_bound; nia).
  apply ab_cons; [lia|apply ab_nil].
Qed.

Theorem conv_compound_ok (raw : bytes) ss (members : list N) n k :
  int63 (blen raw) -> ss < 4294967296 -> u64 n ->
  fst (conv_compound raw ss members n) = Some (Ok k) -> k = n /\ n * ss <= blen raw /\ ss <> 0.
Proof.
  intros Hraw Hss Hn. rewrite conv_compound_closed by assumption. cbn [fst].
  destruct (ss =? 0) eqn:E1; [discriminate|].
  destruct (blen raw / ss <? n) eqn:E2; [discriminate|].
  dif; [|discriminate]. intros [= <-].
  assert (ss * (blen raw / ss) <= blen raw) by (apply N.mul_div_le; lia).
  assert (n * ss <= (blen raw / ss) * ss) by (apply N.mul_le_mono_r; lia).
  repeat split; lia.
Qed.

(* ------------------------------------------------------------------ examples *)

Example conv_float64_two : conv_float64 (repeat 0 16) 8 2 = (Some (Ok 2), [16]).
Proof. vm_compute. reflexivity. Qed.
Example conv_float64_truncated : conv_float64 (repeat 0 15) 8 2 = (Some Err, [16]).
Proof. vm_compute. reflexivity. Qed.
Example conv_float64_too_many : conv_float64 (repeat 0 15) 8 16 = (Some Err, []).
Proof. vm_compute. reflexivity. Qed.
Example conv_float32_four : conv_float64 (repeat 0 16) 4 4 = (Some (Ok 4), [32]).
Proof. vm_compute. reflexivity. Qed.
Example conv_float64_bad_type : conv_float64 (repeat 0 16) 2 2 = (Some Err, [16]).
Proof. vm_compute. reflexivity. Qed.
Example conv_strings_two : conv_strings [104; 105; 0; 104; 111; 0] 3 2 = (Some (Ok 2), [32]).
Proof. vm_compute. reflexivity. Qed.
Example conv_strings_truncated : conv_strings [104; 105; 0; 104; 111] 3 2 = (Some Err, [32]).
Proof. vm_compute. reflexivity. Qed.
Example conv_strings_zero_size : conv_strings [104; 105] 0 2 = (Some Err, [32]).
Proof. vm_compute. reflexivity. Qed.
Example conv_compound_two : conv_compound (repeat 0 8) 4 [0; 2] 2 = (Some (Ok 2), [16]).
Proof. vm_compute. reflexivity. Qed.
Example conv_compound_member_beyond : conv_compound (repeat 0 8) 4 [0; 5] 2 = (Some Err, [16]).
Proof. vm_compute. reflexivity. Qed.
Example conv_compound_truncated : conv_compound (repeat 0 7) 4 [0; 2] 2 = (Some Err, []).
Proof. vm_compute. reflexivity. Qed.
Example conv_fuel_is_tight : elem_loop no_body (N.to_nat 2) (repeat 0 16) 8 2 0 = None.
Proof. vm_compute. reflexivity. Qed.
