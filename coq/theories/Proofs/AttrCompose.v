(* C02 composition, part 5: one attribute call of the composed model (Model/AttrCompose.v: dispatch + detailed
   B-tree v2 + detailed fractal heap, both re-read from and written back to bytes on every call) is simulated by
   one call of the abstract model (Model/Attr.v); hence every history gives the same answers and the same
   listing.  No hypothesis on the name hash: the simulation holds with or without collisions. *)
From HV Require Import Base.Prelude Model.Attr Model.AttrCompose Proofs.AttrBase Proofs.AttrDense.
From HV Require Import Proofs.AttrComposeIdx Proofs.AttrComposeHeap Proofs.AttrComposeInv Proofs.AttrComposeBt.
From HV Require Model.BT2 Proofs.BT2 Model.FHeap Proofs.FHeap.

Section Main.
Variable P : params.
Variable enc : attr -> bytes.
Variables rebalance delay : bool.
Variable pick : FHeap.heap -> bytes -> nat.
Hypothesis PM : params_match P.
Hypothesis enc_len : forall a sz, encode_attr a = EncOk sz -> FHeap.len (enc a) = sz.

Notation HSim := (HSim enc).
Notation jh := BT2.jenkins.

(* ------------------------------------------------------------------ the simulation relation *)

(* the bytes of the two regions load into an index / a heap that stand for the abstract (ix, hp) *)
Definition DSim (bf : BT2.file) (bn ba : N) (hfs : FHeap.fstate) (ha : N) (ix : idx) (hp : heap) : Prop :=
  ha = 2048 /\ ba <> 0 /\
  exists s h,
    BT2.load_from OSZ (BT2.new_bt NODE) bf ba = BT2.LOk s /\ ISim s ix /\ WInv bf bn s /\ BT2.loaded_hdr s = ba /\
    FHeap.load BLOCK (FHeap.f_bytes hfs) 2048 = FHeap.Ok h /\ HSim h hfs hp /\
    (forall id a, id_live hp id a -> FHeap.core_read (FHeap.f_bytes hfs) 2048 (id7 id) = FHeap.Ok (enc a)) /\
    DInv ix hp.

Definition Sim (cst : cstate) (st : state) : Prop :=
  match cst, st with
  | CCompact l, Compact l' => l = l'
  | CDense bf bn ba hfs ha, Dense ix hp => DSim bf bn ba hfs ha ix hp
  | _, _ => False
  end.

Lemma keys_below_sim h fs hp : HSim h fs hp -> keys_below hp.
Proof. intros HS k HI. eapply (HSim_key_lt enc enc_len); eassumption. Qed.

Lemma idxcap bf bn s : WInv bf bn s -> p_idxcap P = BT2.max_records (BT2.node_size s).
Proof. intro W. rewrite (WInv_node _ _ _ W). destruct PM as (Pi & _). exact Pi. Qed.

(* ------------------------------------------------------------------ write-back *)

Lemma c_store_ok bf bn ba hfs bt h ix hp :
  ISim bt ix -> WInv bf bn bt -> BT2.loaded_hdr bt = ba -> ba <> 0 -> HSim h hfs hp -> DInv ix hp ->
  exists bf' hfs', c_store bf bn ba hfs 2048 bt h = (CDense bf' bn ba hfs' 2048, ROk) /\
                   DSim bf' bn ba hfs' 2048 ix hp.
Proof.
  intros HI HW Hl Hz HH HD.
  destruct (store_load_sim enc h hfs hp HH) as (fs' & Hst & Hld & HH' & Hcr).
  destruct (bt_store bf bn ba bt HW Hl Hz) as (f' & Hw & s' & Hlo & Hr & HW' & Hl').
  unfold c_store. rewrite Hst, Hw. cbn [BT2.fil BT2.next].
  eexists _, _. split; [reflexivity|].
  split; [reflexivity|]. split; [exact Hz|]. exists s', (FHeap.reloaded BLOCK h).
  split; [exact Hlo|]. split; [destruct HI as [E F]; split; [rewrite Hr; exact E | exact F]|].
  split; [exact HW'|]. split; [exact Hl'|]. split; [exact Hld|]. split; [exact HH'|]. split; [exact Hcr | exact HD].
Qed.

Lemma c_store_full bf bn ba hfs ha bt h : FHeap.h_ind h <> None ->
  c_store bf bn ba hfs ha bt h = (CDense bf bn ba hfs ha, RErr).
Proof. intro H. unfold c_store. rewrite (store_ind h hfs H). reflexivity. Qed.

(* ------------------------------------------------------------------ a new object + a new record *)

Lemma add_sim bf bn bt h fs ix hp a sz pk :
  ISim bt ix -> WInv bf bn bt -> HSim h fs hp -> DInv ix hp -> encode_attr a = EncOk sz ->
  match heap_insert P hp a with
  | HErr => FHeap.insert FHeap.cap_new h (enc a) pk = (h, FHeap.Err)
  | HFull => FHeap.h_ind (fst (FHeap.insert FHeap.cap_new h (enc a) pk)) <> None
  | HOk hp' id =>
    exists h', FHeap.insert FHeap.cap_new h (enc a) pk = (h', FHeap.Ok (id8 id)) /\ HSim h' fs hp' /\
      match idx_insert P (jh (aname a), id) ix with
      | None => BT2.insert_record bt (aname a) (unle (id8 id)) = (bt, false)
      | Some ix' => exists bt', BT2.insert_record bt (aname a) (unle (id8 id)) = (bt', true) /\
                      ISim bt' ix' /\ WInv bf bn bt' /\ BT2.loaded_hdr bt' = BT2.loaded_hdr bt /\ DInv ix' hp'
      end
  end.
Proof.
  intros HI HW HH HD He. destruct (heap_insert P hp a) as [hp' id| |] eqn:Hi.
  - destruct (insert_sim_ok enc enc_len P PM h fs hp a sz hp' id pk HH He Hi) as (h' & Hins & HH' & Hok & Eid & Eo & Ef).
    exists h'. split; [exact Hins|]. split; [exact HH'|].
    pose proof (insert_sim P bt ix (aname a) id HI Hok (idxcap _ _ _ HW)) as S.
    destruct (idx_insert P (jh (aname a), id) ix) as [ix'|] eqn:Ei; [|exact S].
    destruct S as (bt' & Hb & HI' & _). exists bt'. split; [exact Hb|]. split; [exact HI'|].
    destruct (winv_insert bf bn bt (aname a) (unle (id8 id)) HW) as [W' L']. rewrite Hb in W', L'. cbn [fst] in W', L'.
    split; [exact W'|]. split; [exact L'|].
    destruct hp' as [o f]. cbn [hobjs hfree] in Eo, Ef. subst o f id.
    rewrite <- (msg_size_enc _ _ He) in *.
    eapply dinv_insert; [exact HD | eapply keys_below_sim; exact HH | | exact Ei].
    pose proof (HSim_hfree _ _ _ _ HH). lia.
  - eapply (insert_sim_err enc enc_len P PM); eassumption.
  - eapply (insert_sim_full enc enc_len P); eassumption.
Qed.

(* ------------------------------------------------------------------ transition *)

Definition LoopInv (bt : BT2.bt2) (h : FHeap.heap) (ix : idx) (hp : heap) : Prop :=
  ISim bt ix /\ WInv [] 64 bt /\ HSim h FHeap.fs0 hp /\ DInv ix hp.

Lemma add_all_ind : forall l seen bt h, FHeap.h_ind h <> None ->
  match c_add_all enc pick seen bt h l with None => True | Some (_, h') => FHeap.h_ind h' <> None end.
Proof.
  induction l as [|a r IH]; intros seen bt h Hi; cbn [c_add_all]; [exact Hi|].
  unfold c_add. destruct (aname a); [exact I|]. destruct (existsb _ _); [exact I|].
  destruct (encode_attr a); [|exact I].
  pose proof (insert_ind FHeap.cap_new h (enc a) (pick h (enc a)) Hi) as Hi'.
  destruct (FHeap.insert FHeap.cap_new h (enc a) (pick h (enc a))) as [h1 [id|]]; [|exact I]. cbn [fst] in Hi'.
  destruct (negb _); [exact I|]. destruct (BT2.insert_record _ _ _) as [bt' [|]]; [|exact I].
  apply IH. exact Hi'.
Qed.

Lemma add_all_sim : forall l seen bt h ix hp, LoopInv bt h ix hp ->
  match daw_add_all jh P seen ix hp l with
  | TOk ix' hp' => exists bt' h', c_add_all enc pick seen bt h l = Some (bt', h') /\ LoopInv bt' h' ix' hp'
  | TErr => c_add_all enc pick seen bt h l = None
  | TFull => match c_add_all enc pick seen bt h l with None => True | Some (_, h') => FHeap.h_ind h' <> None end
  end.
Proof.
  induction l as [|a r IH]; intros seen bt h ix hp L; cbn [daw_add_all c_add_all].
  - exists bt, h. split; [reflexivity | exact L].
  - destruct L as (HI & HW & HH & HD). unfold c_add.
    destruct (aname a) as [|c0 nm] eqn:En; [reflexivity|]. rewrite <- En.
    destruct (existsb (bytes_eqb (aname a)) seen); [reflexivity|].
    destruct (encode_attr a) as [sz|] eqn:He; [|reflexivity].
    pose proof (add_sim [] 64 bt h FHeap.fs0 ix hp a sz (pick h (enc a)) HI HW HH HD He) as S.
    destruct (heap_insert P hp a) as [hp' id| |].
    + destruct S as (h' & -> & HH' & S). replace (FHeap.len (id8 id)) with 8 by reflexivity. cbn [N.eqb Pos.eqb negb].
      destruct (idx_insert P (jh (aname a), id) ix) as [ix'|].
      * destruct S as (bt' & -> & HI' & HW' & _ & HD'). apply IH. split; [exact HI'|]. split; [exact HW'|]. split; [exact HH' | exact HD'].
      * rewrite S. reflexivity.
    + rewrite S. reflexivity.
    + destruct (FHeap.insert FHeap.cap_new h (enc a) (pick h (enc a))) as [h1 [id|]]; [|exact I]. cbn [fst] in S.
      destruct (negb _); [exact I|]. destruct (BT2.insert_record _ _ _) as [bt' [|]]; [|exact I].
      apply add_all_ind. exact S.
Qed.

Lemma LoopInv_init : LoopInv (BT2.new_bt NODE) (FHeap.new_heap BLOCK) [] heap_empty.
Proof. split; [apply ISim_new|]. split; [apply WInv_new|]. split; [apply HSim_new | apply DInv_empty]. Qed.

Lemma transition_sim attrs a :
  exists cst, c_transition P enc pick attrs a = (cst, snd (transition jh P attrs a)) /\
              Sim cst (fst (transition jh P attrs a)).
Proof.
  unfold c_transition, transition.
  pose proof (add_all_sim (attrs ++ [a]) [] _ _ _ _ LoopInv_init) as S.
  destruct (daw_add_all jh P [] [] heap_empty (attrs ++ [a])) as [ix hp| |].
  - destruct S as (bt' & h' & -> & HI & HW & HH & HD).
    destruct (p_limit P <? p_base P + (4 + p_info P)).
    { exists (CCompact attrs). split; reflexivity. }
    destruct (store_load_sim enc h' FHeap.fs0 hp HH) as (fs' & Hst & Hld & HH' & Hcr). rewrite Hst.
    destruct (bt_store_fresh bt' HW) as (f' & nx & ba & Hw & Hz & s' & Hlo & Hr & HW' & Hl'). rewrite Hw.
    cbn [BT2.fil BT2.next]. eexists. split; [reflexivity|]. cbn [fst Sim].
    split; [reflexivity|]. split; [exact Hz|]. exists s', (FHeap.reloaded BLOCK h').
    split; [exact Hlo|]. split; [destruct HI as [E F]; split; [rewrite Hr; exact E | exact F]|].
    split; [exact HW'|]. split; [exact Hl'|]. split; [exact Hld|]. split; [exact HH'|]. split; [exact Hcr | exact HD].
  - rewrite S. exists (CCompact attrs). split; reflexivity.
  - destruct PM as (_ & _ & _ & Po). rewrite Po. exists (CCompact attrs). split; [|reflexivity]. cbn [snd].
    destruct (c_add_all enc pick [] (BT2.new_bt NODE) (FHeap.new_heap BLOCK) (attrs ++ [a])) as [[bt' h']|]; [|reflexivity].
    destruct (p_limit P <? p_base P + (4 + p_info P)); [reflexivity|].
    rewrite (store_ind h' FHeap.fs0 S). reflexivity.
Qed.

(* ------------------------------------------------------------------ WriteAttribute on dense storage *)

Lemma aname_nonempty a sz : encode_attr a = EncOk sz -> aname a <> [].
Proof. unfold encode_attr. destruct (aname a); [discriminate | discriminate]. Qed.

Lemma write_dense_sim bf bn ba hfs ha ix hp a : DSim bf bn ba hfs ha ix hp ->
  exists cst, c_write_dense enc pick bf bn ba hfs ha a = (cst, snd (write_dense jh P ix hp a)) /\
              Sim cst (fst (write_dense jh P ix hp a)).
Proof.
  intros D. pose proof D as (-> & Hz & s & h & Hlo & HI & HW & Hl & Hld & HH & Hcr & HD).
  assert (Same : Sim (CDense bf bn ba hfs 2048) (Dense ix hp)) by exact D.
  unfold c_write_dense, write_dense, c_load. rewrite Hld, Hlo.
  destruct (encode_attr a) as [sz|] eqn:He; [|eexists; split; [reflexivity | exact Same]].
  rewrite (search_sim s ix (aname a) HI).
  destruct (idx_search (jh (aname a)) ix) as [id|] eqn:Es; cbn [option_map].
  - (* the name hash is in the index: ModifyDenseAttribute *)
    destruct (dinv_found ix hp _ id HD Es) as [old L]. pose proof L as (G & Sz & Lt). rewrite G.
    unfold c_modify. destruct (aname a) as [|c0 nm] eqn:En; [exfalso; eapply aname_nonempty; eassumption|]. rewrite <- En in *.
    rewrite (search_sim s ix (aname a) HI), Es. cbn [option_map].
    rewrite (get_sim enc h hfs hp id old HH L). rewrite (enc_len _ _ He).
    assert (Hold : FHeap.len (enc old) = snd id).
    { destruct (id_live_enc enc h hfs hp id old HH L) as [so Ho]. rewrite (enc_len _ _ Ho), Sz. symmetry. apply msg_size_enc. exact Ho. }
    rewrite Hold.
    assert (Hsz0 : (sz =? 0) = false).
    { apply N.eqb_neq. intro Z. subst sz. unfold encode_attr in He. destruct (aname a); [discriminate|].
      destruct (65535 <=? _); [discriminate|]. destruct (dt_len _); [|discriminate]. destruct (ds_len _); [|discriminate].
      inversion He. lia. }
    rewrite Hsz0. destruct (sz =? snd id) eqn:Eq.
    + (* same size: OverwriteObject *)
      apply N.eqb_eq in Eq.
      destruct (assoc_set_some _ (hobjs hp) (fst id) a old G) as [l' El].
      assert (Ho : heap_overwrite hp id a = Some (mkHeap l' (hfree hp))) by (unfold heap_overwrite; rewrite El; reflexivity).
      rewrite Ho.
      destruct (overwrite_sim enc enc_len h hfs hp id old a sz _ HH L He Eq Ho) as (h' & -> & HH').
      assert (HD' : DInv ix (mkHeap l' (hfree hp))).
      { eapply dinv_overwrite; [exact HD | exact L | rewrite (msg_size_enc _ _ He); exact Eq | exact Ho]. }
      destruct (c_store_ok bf bn ba hfs s h' ix _ HI HW Hl Hz HH' HD') as (bf' & hfs' & -> & D').
      eexists. split; [reflexivity | exact D'].
    + (* different size: DeleteObject, InsertObject, UpdateRecord *)
      destruct (assoc_del_some _ (hobjs hp) (fst id) old G) as [l1 El].
      assert (Hd : heap_delete hp id = Some (mkHeap l1 (hfree hp))) by (unfold heap_delete; rewrite El; reflexivity).
      rewrite Hd. set (hp1 := mkHeap l1 (hfree hp)) in *.
      destruct (delete_sim enc h hfs hp id old hp1 HH L Hd) as (h1 & -> & HH1).
      pose proof (insert_sim_ok enc enc_len P PM h1 hfs hp1 a sz) as Sok.
      pose proof (insert_sim_err enc enc_len P PM h1 hp1 a sz (pick h1 (enc a)) He) as Serr.
      pose proof (insert_sim_full enc enc_len P h1 hfs hp1 a sz (pick h1 (enc a)) PM HH1 He) as Sfull.
      destruct (heap_insert P hp1 a) as [hp2 id2| |] eqn:Hi.
      * destruct (Sok hp2 id2 (pick h1 (enc a)) HH1 He eq_refl) as (h2 & -> & HH2 & Hok & Eid & Eo & Ef).
        replace (FHeap.len (id8 id2)) with 8 by reflexivity. cbn [N.eqb Pos.eqb negb].
        pose proof (update_sim s ix (aname a) id2 HI Hok) as U.
        destruct (idx_update (jh (aname a)) id2 ix) as [ix'|] eqn:Eu.
        -- destruct U as (s' & Hu & HI' & _). rewrite Hu.
           destruct (winv_update bf bn s (aname a) (unle (id8 id2)) HW) as [W' L']. rewrite Hu in W', L'. cbn [fst] in W', L'.
           assert (HD' : DInv ix' hp2).
           { destruct hp2 as [o f]. cbn [hobjs hfree] in Eo, Ef. subst o f id2.
             rewrite <- (msg_size_enc _ _ He) in *.
             eapply dinv_update; [exact HD | exact Es | exact Hd | eapply keys_below_sim; exact HH1 | | exact Eu].
             pose proof (HSim_hfree _ _ _ _ HH1). lia. }
           destruct (c_store_ok bf bn ba hfs s' h2 ix' hp2 HI' W' (eq_trans L' Hl) Hz HH2 HD') as (bf' & hfs' & -> & D').
           eexists. split; [reflexivity | exact D'].
        -- rewrite U. eexists. split; [reflexivity | exact Same].
      * rewrite (Serr eq_refl). eexists. split; [reflexivity | exact Same].
      * destruct PM as (_ & _ & _ & Po). rewrite Po.
        specialize (Sfull eq_refl).
        destruct (FHeap.insert FHeap.cap_new h1 (enc a) (pick h1 (enc a))) as [h2 [id2|]]; cbn [fst] in Sfull;
          [|eexists; split; [reflexivity | exact Same]].
        destruct (negb _); [eexists; split; [reflexivity | exact Same]|].
        destruct (BT2.update_record s (aname a) (unle id2)) as [s' [|]]; [|eexists; split; [reflexivity | exact Same]].
        rewrite (c_store_full bf bn ba hfs 2048 s' h2 Sfull). eexists. split; [reflexivity | exact Same].
  - (* a new name hash: InsertObject, InsertRecord *)
    pose proof (add_sim bf bn s h hfs ix hp a sz (pick h (enc a)) HI HW HH HD He) as S.
    destruct (heap_insert P hp a) as [hp' id| |].
    + destruct S as (h' & -> & HH' & S). replace (FHeap.len (id8 id)) with 8 by reflexivity. cbn [N.eqb Pos.eqb negb].
      destruct (idx_insert P (jh (aname a), id) ix) as [ix'|].
      * destruct S as (bt' & -> & HI' & HW' & L' & HD').
        destruct (c_store_ok bf bn ba hfs bt' h' ix' hp' HI' HW' (eq_trans L' Hl) Hz HH' HD') as (bf' & hfs' & -> & D').
        eexists. split; [reflexivity | exact D'].
      * rewrite S. eexists. split; [reflexivity | exact Same].
    + rewrite S. eexists. split; [reflexivity | exact Same].
    + destruct PM as (_ & _ & _ & Po). rewrite Po.
      destruct (FHeap.insert FHeap.cap_new h (enc a) (pick h (enc a))) as [h2 [id2|]]; cbn [fst] in S;
        [|eexists; split; [reflexivity | exact Same]].
      destruct (negb _); [eexists; split; [reflexivity | exact Same]|].
      destruct (BT2.insert_record s (aname a) (unle id2)) as [s' [|]]; [|eexists; split; [reflexivity | exact Same]].
      rewrite (c_store_full bf bn ba hfs 2048 s' h2 S). eexists. split; [reflexivity | exact Same].
Qed.

(* ------------------------------------------------------------------ DeleteAttribute on dense storage *)

Lemma delete_dense_sim bf bn ba hfs ha ix hp n : DSim bf bn ba hfs ha ix hp ->
  exists cst, c_delete_dense rebalance delay bf bn ba hfs ha n = (cst, snd (delete_attr jh (Dense ix hp) n)) /\
              Sim cst (fst (delete_attr jh (Dense ix hp) n)).
Proof.
  intros D. pose proof D as (-> & Hz & s & h & Hlo & HI & HW & Hl & Hld & HH & Hcr & HD).
  assert (Same : Sim (CDense bf bn ba hfs 2048) (Dense ix hp)) by exact D.
  unfold c_delete_dense, delete_attr, c_load. rewrite Hld, Hlo.
  destruct n as [|c0 nm] eqn:En; [eexists; split; [reflexivity | exact Same]|]. rewrite <- En. clear En.
  rewrite (search_sim s ix n HI).
  destruct (idx_search (jh n) ix) as [id|] eqn:Es; cbn [option_map]; [|eexists; split; [reflexivity | exact Same]].
  rewrite (WInv_lazy _ _ _ HW).
  replace (if rebalance then BT2.delete_with_rebalancing s n else BT2.delete_record s n)
    with (BT2.delete_with_rebalancing s n) by (destruct rebalance; reflexivity).
  pose proof (AttrComposeIdx.delete_sim s ix n HI) as U.
  destruct (idx_delete (jh n) ix) as [ix'|] eqn:Ed.
  - destruct U as (s' & Hu & HI'). rewrite Hu.
    destruct (winv_delete bf bn s n HW) as [W' L']. rewrite Hu in W', L'. cbn [fst] in W', L'.
    destruct (dinv_found ix hp _ id HD Es) as [old L]. pose proof L as (G & Sz & Lt).
    destruct (assoc_del_some _ (hobjs hp) (fst id) old G) as [l1 El].
    assert (Hd : heap_delete hp id = Some (mkHeap l1 (hfree hp))) by (unfold heap_delete; rewrite El; reflexivity).
    rewrite Hd.
    destruct (AttrComposeHeap.delete_sim enc h hfs hp id old _ HH L Hd) as (h1 & -> & HH1).
    assert (HD' : DInv ix' (mkHeap l1 (hfree hp))) by (eapply dinv_delete; eassumption).
    destruct (c_store_ok bf bn ba hfs s' h1 ix' _ HI' W' (eq_trans L' Hl) Hz HH1 HD') as (bf' & hfs' & -> & D').
    eexists. split; [reflexivity | exact D'].
  - rewrite U. eexists. split; [reflexivity | exact Same].
Qed.

(* ------------------------------------------------------------------ one call, histories, the listing *)

Notation c_step := (c_step P enc rebalance delay pick).
Notation c_run := (c_run P enc rebalance delay pick).

Lemma step_sim cst st o : Sim cst st ->
  exists cst', c_step cst o = (cst', snd (step jh P st o)) /\ Sim cst' (fst (step jh P st o)).
Proof.
  intro S. destruct cst as [l|bf bn ba hfs ha]; destruct st as [l'|ix hp|]; cbn [Sim] in S; try contradiction.
  - subst l'. destruct o as [n [v|]|n]; cbn [AttrCompose.c_step step c_write_attr write_attr c_delete_attr delete_attr].
    + destruct (N.of_nat (List.length l) <? p_maxc P).
      * unfold c_write_compact, write_compact. destruct (encode_attr (mkAttr n v)) as [sz|].
        -- destruct (replace_name (aname (mkAttr n v)) (mkAttr n v) l) as [l2|].
           ++ destruct (p_limit P <? hdr_size P l2); eexists; split; reflexivity.
           ++ destruct (p_limit P <? hdr_size P l + (4 + sz)); [apply transition_sim|]. eexists; split; reflexivity.
        -- eexists; split; reflexivity.
      * apply transition_sim.
    + eexists; split; reflexivity.
    + destruct (remove_name n l); eexists; split; reflexivity.
  - destruct o as [n [v|]|n]; cbn [AttrCompose.c_step step c_write_attr write_attr c_delete_attr].
    + apply write_dense_sim. exact S.
    + eexists; split; [reflexivity | exact S].
    + apply delete_dense_sim. exact S.
Qed.

Lemma run_sim : forall h cst st, Sim cst st ->
  exists cst', c_run cst h = (cst', snd (run jh P st h)) /\ Sim cst' (fst (run jh P st h)).
Proof.
  induction h as [|o r IH]; intros cst st S; cbn [AttrCompose.c_run run].
  - exists cst. split; [reflexivity | exact S].
  - destruct (step_sim cst st o S) as (cst1 & E1 & S1). rewrite E1.
    destruct (step jh P st o) as [st1 x] eqn:Es. cbn [fst snd] in *.
    destruct (IH cst1 st1 S1) as (cst2 & E2 & S2). rewrite E2.
    destruct (run jh P st1 r) as [st2 xs]. cbn [fst snd] in *. exists cst2. split; [reflexivity | exact S2].
Qed.

Lemma read_msgs_recs_sim f hp : (forall id a, id_live hp id a -> FHeap.core_read f 2048 (id7 id) = FHeap.Ok (enc a)) ->
  forall ix l, Forall2 (fun rc a => id_live hp (snd rc) a) ix l ->
  c_read_msgs_recs f 2048 (map conc_rec ix) = Some (map enc l).
Proof.
  intros Hcr ix l F. induction F as [|rc a ix l L F IH]; [reflexivity|].
  cbn [map c_read_msgs_recs conc_rec snd]. rewrite (Hcr _ _ L), IH. reflexivity.
Qed.

Lemma read_msgs_sim cst st : Sim cst st -> c_read_msgs enc cst = option_map (map enc) (read_attrs st).
Proof.
  intro S. destruct cst as [l|bf bn ba hfs ha]; destruct st as [l'|ix hp|]; cbn [Sim] in S; try contradiction.
  - subst. reflexivity.
  - destruct S as (-> & Hz & s & h & Hlo & HI & HW & Hl & Hld & HH & Hcr & HD).
    cbn [c_read_msgs read_attrs]. rewrite Hlo. destruct HI as [E _]. rewrite E.
    destruct (dinv_read ix hp (proj1 HD)) as (l & R & F2). rewrite R. cbn [option_map].
    eapply read_msgs_recs_sim; [exact Hcr | exact F2].
Qed.

(* ------------------------------------------------------------------ the composed theorems *)

Theorem compose_run_msgs h :
  exists cst, c_run cinit h = (cst, snd (run jh P init h)) /\ Sim cst (fst (run jh P init h)) /\
              c_read_msgs enc cst = option_map (map enc) (read_attrs (fst (run jh P init h))).
Proof.
  destruct (run_sim h cinit init eq_refl) as (cst & E & S). exists cst. split; [exact E|]. split; [exact S|].
  apply read_msgs_sim; exact S.
Qed.

Section Parsed.
Variable dec : bytes -> option attr.
Hypothesis dec_enc : forall a sz, encode_attr a = EncOk sz -> dec (enc a) = Some a.

Lemma read_recs_sim f hp : (forall id a, id_live hp id a -> FHeap.core_read f 2048 (id7 id) = FHeap.Ok (enc a)) ->
  (forall id a, id_live hp id a -> exists sz, encode_attr a = EncOk sz) ->
  forall ix l, Forall2 (fun rc a => id_live hp (snd rc) a) ix l ->
  c_read_recs dec f 2048 (map conc_rec ix) = Some l.
Proof.
  intros Hcr Henc ix l F. induction F as [|rc a ix l L F IH]; [reflexivity|].
  cbn [map c_read_recs conc_rec snd]. rewrite (Hcr _ _ L), IH. destruct (Henc _ _ L) as [sz He].
  rewrite (dec_enc _ _ He). reflexivity.
Qed.

Lemma read_sim cst st : Sim cst st -> c_read_attrs dec cst = read_attrs st.
Proof.
  intro S. destruct cst as [l|bf bn ba hfs ha]; destruct st as [l'|ix hp|]; cbn [Sim] in S; try contradiction.
  - subst. reflexivity.
  - destruct S as (-> & Hz & s & h & Hlo & HI & HW & Hl & Hld & HH & Hcr & HD).
    cbn [c_read_attrs read_attrs]. rewrite Hlo. destruct HI as [E _]. rewrite E.
    destruct (dinv_read ix hp (proj1 HD)) as (l & R & F2). rewrite R.
    eapply read_recs_sim; [exact Hcr | | exact F2].
    intros id a L. eapply id_live_enc; eassumption.
Qed.

Theorem compose_run h :
  exists cst, c_run cinit h = (cst, snd (run jh P init h)) /\ Sim cst (fst (run jh P init h)) /\
              c_read_attrs dec cst = read_attrs (fst (run jh P init h)) /\
              c_read_msgs enc cst = option_map (map enc) (read_attrs (fst (run jh P init h))).
Proof.
  destruct (run_sim h cinit init eq_refl) as (cst & E & S). exists cst. split; [exact E|]. split; [exact S|].
  split; [apply read_sim; exact S | apply read_msgs_sim; exact S].
Qed.

End Parsed.

End Main.

(* ------------------------------------------------------------------ consequences for the composed model *)
From HV Require Import Proofs.AttrStep Proofs.Attr.

Lemma params_match_go base : params_match (go_params base).
Proof. repeat split. Qed.

Lemma params_match_hcap P : params_match P -> p_hcap P <= 65536.
Proof. intros (_ & Ph & _). rewrite Ph, block_cap. lia. Qed.

(* answers and listing of the composed model = answers and listing of the abstract model, every history *)
Theorem compose_simulation P enc rebalance delay pick : params_match P ->
  (forall a sz, encode_attr a = EncOk sz -> FHeap.len (enc a) = sz) ->
  forall h cst rs, c_run P enc rebalance delay pick cinit h = (cst, rs) ->
  rs = snd (run BT2.jenkins P init h) /\
  c_read_msgs enc cst = option_map (map enc) (read_attrs (fst (run BT2.jenkins P init h))).
Proof.
  intros PM EL h cst rs Hr.
  destruct (compose_run_msgs P enc rebalance delay pick PM EL h) as (cst' & E & _ & R).
  rewrite E in Hr. inversion Hr; subst. split; [reflexivity | exact R].
Qed.

(* hence the composed model refines the finite map (C02_refines_map for the composed model) *)
Theorem compose_refines_map P enc rebalance delay pick : params_match P ->
  (forall a sz, encode_attr a = EncOk sz -> FHeap.len (enc a) = sz) ->
  forall h cst rs, NoHashCollision BT2.jenkins (names h) ->
  c_run P enc rebalance delay pick cinit h = (cst, rs) ->
  exists l, c_read_msgs enc cst = Some (map enc l) /\ NoDup (map aname l) /\
            (forall n, attr_get l n = sp_get (run_spec [] h rs) n) /\ results_ok [] h rs.
Proof.
  intros PM EL h cst rs NC Hr. destruct (compose_simulation P enc rebalance delay pick PM EL h cst rs Hr) as [-> R].
  destruct (run BT2.jenkins P init h) as [st rs0] eqn:Ea. cbn [fst snd] in *.
  destruct PM as (Pi & Ph & Pm & Po).
  destruct (refines_map_repaired BT2.jenkins P Po h st rs0) as (l & Hl & ND & G & RO); try assumption.
  { rewrite Ph, block_cap. lia. }
  exists l. rewrite R, Hl. repeat split; assumption.
Qed.

Theorem compose_refines_map_go base enc rebalance delay pick :
  (forall a sz, encode_attr a = EncOk sz -> FHeap.len (enc a) = sz) ->
  forall h cst rs, NoHashCollision BT2.jenkins (names h) ->
  c_run (go_params base) enc rebalance delay pick cinit h = (cst, rs) ->
  exists l, c_read_msgs enc cst = Some (map enc l) /\ NoDup (map aname l) /\
            (forall n, attr_get l n = sp_get (run_spec [] h rs) n) /\ results_ok [] h rs.
Proof. intros. eapply compose_refines_map; eauto using params_match_go. Qed.

(* with ParseAttributeMessage applied by the reader: the parsed listing, under the round trip of the message codec *)
Theorem compose_simulation_parsed P enc dec rebalance delay pick : params_match P ->
  (forall a sz, encode_attr a = EncOk sz -> FHeap.len (enc a) = sz) ->
  (forall a sz, encode_attr a = EncOk sz -> dec (enc a) = Some a) ->
  forall h cst rs, c_run P enc rebalance delay pick cinit h = (cst, rs) ->
  rs = snd (run BT2.jenkins P init h) /\ c_read_attrs dec cst = read_attrs (fst (run BT2.jenkins P init h)).
Proof.
  intros PM EL DE h cst rs Hr.
  destruct (compose_run P enc rebalance delay pick PM EL dec DE h) as (cst' & E & _ & R & _).
  rewrite E in Hr. inversion Hr; subst. split; [reflexivity | exact R].
Qed.

(* the hypothesis on the encoder is satisfiable (any encoder with the right lengths; the real one: C11) *)
Definition enc_zeros (a : attr) : bytes := FHeap.zeros (msg_size a).
Lemma enc_zeros_len : forall a sz, encode_attr a = EncOk sz -> FHeap.len (enc_zeros a) = sz.
Proof. intros a sz H. unfold enc_zeros. rewrite FHeap.len_zeros. apply msg_size_enc. exact H. Qed.
