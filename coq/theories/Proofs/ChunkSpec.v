(* Functional (block-structured) characterisation of the imperative chunk extraction and chunk
   placement models, and the refinement lemmas connecting them. *)
From HV Require Import Base.Prelude Model.Chunk Proofs.ChunkLists.

Local Open Scope N_scope.

Lemma vol_nil esz : vol [] esz = esz.
Proof. unfold vol. cbn [prodN fold_right]. lia. Qed.
Lemma vol_cons d r esz : vol (d :: r) esz = d * vol r esz.
Proof. unfold vol. cbn [prodN fold_right]. symmetry. apply N.mul_assoc. Qed.
Lemma vol_prod r esz : vol r esz = prodN r * esz.
Proof. reflexivity. Qed.

Section Spec.
Variable esz : N.

(* extraction of the chunk `coord` from src into a buffer whose previous content is old *)
Fixpoint ext_spec (dims cdims coord : list N) (src old : bytes) : bytes :=
  match dims, cdims, coord with
  | d :: dims', cd :: cdims', c :: coord' =>
      concat (map (fun i => if c * cd + i <? d
                            then ext_spec dims' cdims' coord'
                                          (blk (vol dims' esz) (c * cd + i) src) (blk (vol cdims' esz) i old)
                            else blk (vol cdims' esz) i old)
                  (rangeN cd))
  | _, _, _ => takeN esz src
  end.

(* placement of a chunk (full chunk extents cdims) at scaled coordinate coord into full *)
Fixpoint place_spec (dims cdims coord : list N) (chunk full : bytes) : bytes :=
  match dims, cdims, coord with
  | d :: dims', cd :: cdims', c :: coord' =>
      concat (map (fun k => if (c * cd <=? k) && (k <? c * cd + cd)
                            then place_spec dims' cdims' coord'
                                            (blk (vol cdims' esz) (k - c * cd) chunk) (blk (vol dims' esz) k full)
                            else blk (vol dims' esz) k full)
                  (rangeN d))
  | _, _, _ => takeN esz chunk
  end.

(* ---------------- lengths ---------------- *)
Lemma lenN_ext_spec dims : forall cdims coord src old,
  length cdims = length dims -> length coord = length dims ->
  lenN src = vol dims esz -> lenN old = vol cdims esz ->
  lenN (ext_spec dims cdims coord src old) = vol cdims esz.
Proof.
  induction dims as [|d dims' IH]; intros cdims coord src old Hc Hx Hs Ho;
    destruct cdims as [|cd cdims']; destruct coord as [|c coord']; try discriminate.
  - cbn [ext_spec]. rewrite lenN_takeN, Hs, !vol_nil. lia.
  - cbn [ext_spec]. rewrite vol_cons in *. cbn [length] in *.
    apply lenN_concat_range. intros k Hk.
    destruct (c * cd + k <? d) eqn:E.
    + apply IH; try lia; apply lenN_blk; nia.
    + apply lenN_blk. nia.
Qed.

Lemma lenN_place_spec dims : forall cdims coord chunk full,
  length cdims = length dims -> length coord = length dims ->
  lenN chunk = vol cdims esz -> lenN full = vol dims esz ->
  lenN (place_spec dims cdims coord chunk full) = vol dims esz.
Proof.
  induction dims as [|d dims' IH]; intros cdims coord chunk full Hc Hx Hs Ho;
    destruct cdims as [|cd cdims']; destruct coord as [|c coord']; try discriminate.
  - cbn [place_spec]. rewrite lenN_takeN, Hs, !vol_nil. lia.
  - cbn [place_spec]. rewrite vol_cons in *. cbn [length] in *.
    apply lenN_concat_range. intros k Hk.
    destruct ((c * cd <=? k) && (k <? c * cd + cd)) eqn:E.
    + apply IH; try lia; apply lenN_blk; nia.
    + apply lenN_blk. nia.
Qed.

(* ---------------- writer refinement ---------------- *)
Lemma concat_blocks_prefix B n l : n * B <= lenN l -> concat (map (fun k => blk B k l) (rangeN n)) = takeN (n * B) l.
Proof.
  intros. rewrite <- (concat_blocks B n (takeN (n * B) l)) by (rewrite lenN_takeN; lia).
  f_equal. apply map_ext_in. intros k Hk. apply in_rangeN in Hk.
  unfold blk. symmetry. apply slice_takeN. nia.
Qed.

Lemma extract_rec_spec dims : forall cdims coord,
  length cdims = length dims -> length coord = length dims ->
  forall src dst so do_,
    so + vol dims esz <= lenN src -> do_ + vol cdims esz <= lenN dst ->
    extract_rec dims cdims (chunk_size dims cdims coord) coord esz src dst so do_
    = blit dst do_ (ext_spec dims cdims coord (slice src so (vol dims esz)) (slice dst do_ (vol cdims esz))).
Proof.
  induction dims as [|d dims' IH]; intros cdims coord Hc Hx src dst so do_ Hs Hd;
    destruct cdims as [|cd cdims']; destruct coord as [|c coord']; try discriminate.
  - cbn [extract_rec ext_spec chunk_size]. rewrite vol_nil in *.
    f_equal. unfold slice. rewrite takeN_takeN. f_equal. lia.
  - cbn [length] in *.
    cbn [chunk_size extract_rec ext_spec].
    set (v := (if d <? c * cd + cd then d else c * cd + cd) - c * cd).
    set (S' := vol dims' esz) in *. set (CS' := vol cdims' esz) in *.
    rewrite !vol_cons in *. fold S' CS' in Hs, Hd |- *.
    assert (Hv : v <= cd) by (unfold v; destruct (d <? c * cd + cd) eqn:E; lia).
    assert (Hvd : forall i, i < v -> c * cd + i < d) by (unfold v; intros i; destruct (d <? c * cd + cd) eqn:E; lia).
    assert (Hvi : forall i, i < cd -> (c * cd + i <? d) = ((0 <=? i) && (i <? 0 + v)))
      by (unfold v; intros i; destruct (d <? c * cd + cd) eqn:E; lia).
    set (g := fun i => ext_spec dims' cdims' coord'
                                (blk S' (c * cd + i) (slice src so (d * S')))
                                (blk CS' i (slice dst do_ (cd * CS')))).
    assert (Hg : forall i, i < v -> lenN (g i) = CS').
    { intros i Hi. unfold g. apply lenN_ext_spec; try lia.
      - apply lenN_blk. rewrite lenN_slice by lia. specialize (Hvd i Hi). nia.
      - apply lenN_blk. rewrite lenN_slice by lia. nia. }
    transitivity (blit dst do_ (concat (map g (rangeN v)))).
    + apply (fold_blit_blocks v CS' do_ _ g dst Hg).
      * nia.
      * intros i dst' Hi Hl Hsl.
        assert (Hi' := Hvd i Hi).
        replace (esz * prodN dims') with S' by (unfold S', vol; lia).
        replace (esz * prodN cdims') with CS' by (unfold CS', vol; lia).
        rewrite IH; try lia; [| nia | rewrite Hl; nia].
        f_equal. unfold g. fold S' CS'. rewrite Hsl.
        rewrite !blk_slice by nia. f_equal; f_equal; lia.
    + (* reshape to the specification *)
      symmetry.
      rewrite (map_ext_in _ (fun k => if (0 <=? k) && (k <? 0 + v) then g (k - 0)
                                      else blk CS' k (slice dst do_ (cd * CS')))).
      2:{ intros k Hk. apply in_rangeN in Hk. cbv beta. rewrite Hvi by auto.
          destruct ((0 <=? k) && (k <? 0 + v)); auto. unfold g. rewrite N.sub_0_r. reflexivity. }
      rewrite (window_blit CS' cd 0 v g); [| apply lenN_slice; lia | lia | exact Hg].
      rewrite blit_blit_inner; [f_equal; lia | lia |].
      rewrite (lenN_concat_range g v CS' Hg). nia.
Qed.

Lemma extract_padded_spec dims cdims coord data :
  length cdims = length dims -> length coord = length dims -> lenN data = vol dims esz ->
  extract_padded dims cdims esz data coord
  = ext_spec dims cdims coord data (zerosN (vol cdims esz)).
Proof.
  intros Hc Hx Hl. unfold extract_padded. fold (vol cdims esz).
  rewrite extract_rec_spec by (auto; rewrite ?lenN_zerosN; lia).
  rewrite !slice_0_all by (rewrite ?lenN_zerosN; lia).
  set (E := ext_spec _ _ _ _ _).
  assert (HE : lenN E = vol cdims esz) by (apply lenN_ext_spec; auto; apply lenN_zerosN).
  unfold blit. rewrite takeN_0, HE. cbn [app].
  rewrite dropN_all by (rewrite lenN_zerosN; lia). apply app_nil_r.
Qed.

(* ---------------- reader refinement ---------------- *)
Lemma place_spec_outside dims : forall cdims coord chunk full,
  length cdims = length dims -> length coord = length dims ->
  lenN chunk = vol cdims esz -> lenN full = vol dims esz ->
  copy_dims coord cdims dims = None ->
  place_spec dims cdims coord chunk full = full.
Proof.
  induction dims as [|d dims' IH]; intros cdims coord chunk full Hc Hx Hch Hf Hn;
    destruct cdims as [|cd cdims']; destruct coord as [|c coord']; try discriminate.
  cbn [length] in *. cbn [copy_dims] in Hn. cbn [place_spec]. rewrite vol_cons in *.
  transitivity (concat (map (fun k => blk (vol dims' esz) k full) (rangeN d))); [| apply concat_blocks; auto].
  f_equal. apply map_ext_in. intros k Hk. apply in_rangeN in Hk.
  destruct (d <=? c * cd) eqn:E.
  - replace ((c * cd <=? k) && (k <? c * cd + cd)) with false by lia. reflexivity.
  - destruct (copy_dims coord' cdims' dims') eqn:E2; [discriminate|].
    destruct ((c * cd <=? k) && (k <? c * cd + cd)) eqn:E3; auto.
    apply IH; auto; try lia; apply lenN_blk; nia.
Qed.

Lemma copy_dims_cons c coord' cd cdims' d dims' cds :
  copy_dims (c :: coord') (cd :: cdims') (d :: dims') = Some cds ->
  exists cds', cds = (if d <? c * cd + cd then d - c * cd else cd) :: cds' /\
               c * cd < d /\ copy_dims coord' cdims' dims' = Some cds'.
Proof.
  cbn [copy_dims]. destruct (d <=? c * cd) eqn:E; [discriminate|].
  destruct (copy_dims coord' cdims' dims') eqn:E2; [|discriminate].
  intros H. inversion H. eexists. split; [reflexivity|]. split; [lia|reflexivity].
Qed.

Lemma copy_rec_cons2 n n' r cs cstr' ds dstr' chunk full coff doff :
  copy_rec (n :: n' :: r) (cs :: cstr') (ds :: dstr') chunk full coff doff esz
  = bind_fold (fun full i => copy_rec (n' :: r) cstr' dstr' chunk full (coff + i * cs) (doff + i * ds) esz)
              (rangeN n) full.
Proof. reflexivity. Qed.

Lemma copy_rec_spec dims : dims <> [] -> forall cdims coord cds,
  length cdims = length dims -> length coord = length dims ->
  copy_dims coord cdims dims = Some cds ->
  forall chunk full coff doff,
    coff * esz + vol cdims esz <= lenN chunk -> doff * esz + vol dims esz <= lenN full ->
    copy_rec cds (strides cdims) (strides dims) chunk full coff
             (doff + data_offset coord cdims (strides dims)) esz
    = Ok (blit full (doff * esz)
               (place_spec dims cdims coord (slice chunk (coff * esz) (vol cdims esz))
                           (slice full (doff * esz) (vol dims esz)))).
Proof.
  induction dims as [|d dims' IH]; [congruence|]. intros _ cdims coord cds Hc Hx Hcd chunk full coff doff Hch Hf.
  destruct cdims as [|cd cdims']; destruct coord as [|c coord']; try discriminate.
  cbn [length] in *.
  apply copy_dims_cons in Hcd. destruct Hcd as (cds' & -> & Hlt & Hcd').
  set (n := if d <? c * cd + cd then d - c * cd else cd).
  assert (Hn : n <= cd) by (unfold n; destruct (d <? c * cd + cd) eqn:E; lia).
  assert (Hnd : c * cd + n <= d) by (unfold n; destruct (d <? c * cd + cd) eqn:E; lia).
  assert (Hwin : forall k, k < d -> ((c * cd <=? k) && (k <? c * cd + cd)) = ((c * cd <=? k) && (k <? c * cd + n)))
    by (unfold n; intros k Hk; destruct (d <? c * cd + cd) eqn:E; lia).
  set (S' := vol dims' esz) in *. set (CS' := vol cdims' esz) in *.
  rewrite !vol_cons in *. fold S' CS' in Hch, Hf |- *.
  destruct dims' as [|d' dims''].
  - (* base case: one row *)
    destruct cdims' as [|? ?]; [|discriminate]. destruct coord' as [|? ?]; [|discriminate].
    cbn [copy_dims] in Hcd'. inversion Hcd'; subst cds'.
    cbn [strides prodN fold_right data_offset copy_rec place_spec].
    unfold S', CS' in *. rewrite !vol_nil in *.
    replace (lenN chunk <? coff * esz + n * esz) with false by nia.
    replace (lenN full <? (doff + (c * cd * 1 + 0)) * esz + n * esz) with false by nia.
    f_equal.
    set (ch := slice chunk (coff * esz) (cd * esz)). set (fl := slice full (doff * esz) (d * esz)).
    set (gb := fun i => blk esz i ch).
    rewrite (map_ext_in _ (fun k => if (c * cd <=? k) && (k <? c * cd + n) then gb (k - c * cd)
                                    else blk esz k fl)).
    2:{ intros k Hk. apply in_rangeN in Hk. cbv beta. rewrite Hwin by auto.
        destruct ((c * cd <=? k) && (k <? c * cd + n)); auto.
        unfold gb. apply takeN_all. unfold blk, slice. rewrite lenN_takeN. lia. }
    assert (Hlch : lenN ch = cd * esz) by (apply lenN_slice; lia).
    assert (Hlfl : lenN fl = d * esz) by (apply lenN_slice; lia).
    rewrite (window_blit esz d (c * cd) n gb fl); [| auto | lia | intros; apply lenN_blk; rewrite Hlch; nia].
    unfold gb. rewrite concat_blocks_prefix by (rewrite Hlch; nia).
    unfold fl. rewrite blit_blit_inner; [| lia | rewrite lenN_takeN, Hlch; nia].
    f_equal; [lia|]. unfold ch, slice. rewrite takeN_takeN. f_equal. nia.
  - (* recursive case *)
    destruct cdims' as [|cd' cdims'']; [discriminate|]. destruct coord' as [|c' coord'']; [discriminate|].
    destruct (copy_dims_cons _ _ _ _ _ _ _ Hcd') as (cds'' & Ecds' & _ & _).
    remember (d' :: dims'') as dims' eqn:Edims. remember (cd' :: cdims'') as cdims' eqn:Ecdims.
    remember (c' :: coord'') as coord' eqn:Ecoord.
    cbn [strides data_offset].
    set (Pd := prodN dims'). set (Pc := prodN cdims').
    assert (HS' : S' = Pd * esz) by reflexivity. assert (HCS' : CS' = Pc * esz) by reflexivity.
    set (DO := data_offset coord' cdims' (strides dims')).
    rewrite Ecds', copy_rec_cons2, <- Ecds'.
    set (ch := slice chunk (coff * esz) (cd * CS')). set (fl := slice full (doff * esz) (d * S')).
    assert (Hlch : lenN ch = cd * CS') by (apply lenN_slice; lia).
    assert (Hlfl : lenN fl = d * S') by (apply lenN_slice; lia).
    set (g := fun i => place_spec dims' cdims' coord' (blk CS' i ch) (blk S' (c * cd + i) fl)).
    assert (Hg : forall i, i < n -> lenN (g i) = S').
    { intros i Hi. unfold g. apply lenN_place_spec; try lia; apply lenN_blk; nia. }
    transitivity (Ok (blit full (doff * esz + c * cd * S') (concat (map g (rangeN n))))).
    + apply (bind_fold_blit_blocks n S' (doff * esz + c * cd * S') _ g full Hg).
      * nia.
      * intros i full' Hi Hl Hsl.
        replace (doff + (c * cd * Pd + DO) + i * Pd) with ((doff + (c * cd + i) * Pd) + DO) by lia.
        unfold DO.
        assert (Hoff : (doff + (c * cd + i) * Pd) * esz = doff * esz + c * cd * S' + i * S') by (rewrite HS'; lia).
        assert (Hb1 : (coff + i * Pc) * esz + CS' <= lenN chunk).
        { assert (i * CS' + CS' <= cd * CS') by nia.
          assert (E : (coff + i * Pc) * esz = coff * esz + i * CS') by (rewrite HCS'; lia).
          rewrite E. lia. }
        assert (Hb2 : (doff + (c * cd + i) * Pd) * esz + S' <= lenN full').
        { assert ((c * cd + i) * S' + S' <= d * S') by nia.
          rewrite Hoff, Hl. lia. }
        rewrite IH; try lia; [| subst dims'; discriminate | auto].
        rewrite Hoff. f_equal. f_equal. fold S' CS'. rewrite Hsl. unfold g, ch, fl.
        rewrite !blk_slice by nia. f_equal; f_equal; rewrite ?HCS', ?HS'; lia.
    + f_equal. symmetry. cbn [place_spec]. fold S' CS'. fold ch fl.
      rewrite (map_ext_in _ (fun k => if (c * cd <=? k) && (k <? c * cd + n) then g (k - c * cd) else blk S' k fl)).
      2:{ intros k Hk. apply in_rangeN in Hk. cbv beta. rewrite Hwin by auto.
          destruct ((c * cd <=? k) && (k <? c * cd + n)) eqn:E; auto.
          unfold g. f_equal. f_equal. lia. }
      rewrite (window_blit S' d (c * cd) n g fl Hlfl Hnd Hg).
      unfold fl. rewrite blit_blit_inner; [reflexivity | lia |].
      rewrite (lenN_concat_range g n S' Hg). nia.
Qed.

Lemma copy_nd_chunk_spec dims cdims coord chunk full :
  dims <> [] -> length cdims = length dims -> length coord = length dims ->
  lenN chunk = vol cdims esz -> lenN full = vol dims esz ->
  copy_chunk_to_array chunk full coord cdims dims esz
  = Ok (place_spec dims cdims coord chunk full).
Proof.
  intros Hne Hc Hx Hch Hf. unfold copy_chunk_to_array.
  rewrite Hx, Hc, !Nat.eqb_refl. cbn [andb negb].
  unfold copy_nd_chunk.
  destruct coord as [|c0 coord0] eqn:Ecoord; [destruct dims; [congruence|discriminate]|].
  rewrite <- Ecoord in *. clear Ecoord.
  destruct (copy_dims coord cdims dims) as [cds|] eqn:Ecd.
  - pose proof (copy_rec_spec dims Hne cdims coord cds Hc Hx Ecd chunk full 0 0) as H.
    rewrite !N.mul_0_l, !N.add_0_l in H.
    rewrite H by lia.
    rewrite !slice_0_all by lia.
    f_equal. unfold blit. rewrite takeN_0. cbn [app].
    rewrite lenN_place_spec by auto.
    rewrite dropN_all by lia. apply app_nil_r.
  - f_equal. symmetry. apply place_spec_outside; auto.
Qed.

End Spec.
