(* C01 end to end, base: blocks placed in a file image and what an intact run of a reader program reads from them.
     placed f a b            the bytes b sit in f at address a
     run0_read_placed        a ReadAt inside a placed block returns that block's slice
     run0_read_exact         a ReadAt of exactly a placed block returns the block
     run0_bind               run0 of a bind
     place_all_placed        every block of place_all sits at block_addr *)
From HV Require Import Base.Prelude Base.Outcome Base.Bytes Model.IOProg Proofs.IOProg Model.IOProgReader Model.FileImage.

Definition placed (f : bytes) (a : N) (b : bytes) : Prop :=
  exists pre suf, f = pre ++ b ++ suf /\ blen pre = a.

Lemma rd_app_mid (pre mid suf : bytes) : rd (pre ++ mid ++ suf) (blen pre) (blen mid) = mid.
Proof.
  unfold rd, blen. rewrite !Nat2N.id. bnorm.
  replace (length pre) with (length pre + 0)%nat by blia.
  rewrite skipn_app, skipn_all2 by blia.
  replace (length pre + 0 - length pre)%nat with 0%nat by blia. cbn [skipn app].
  replace (length mid) with (length mid + 0)%nat by blia.
  rewrite firstn_app_2. cbn [firstn]. apply app_nil_r.
Qed.

Lemma skipn_skipn' {A} (x y : nat) (l : list A) : skipn x (skipn y l) = skipn (y + x) l.
Proof.
  revert l. induction y as [|y IH]; intros l; [reflexivity|]. destruct l; [now rewrite !skipn_nil|]. cbn [skipn Nat.add]. apply IH.
Qed.

Lemma rd_split (b : bytes) off len : off + len <= blen b ->
  b = firstn (N.to_nat off) b ++ rd b off len ++ skipn (N.to_nat (off + len)) b.
Proof.
  intros H. unfold rd.
  rewrite <- (firstn_skipn (N.to_nat off) b) at 1. f_equal.
  rewrite <- (firstn_skipn (N.to_nat len) (skipn (N.to_nat off) b)) at 1. f_equal.
  rewrite skipn_skipn'. f_equal. blia.
Qed.

Lemma placed_sub f a x y z : placed f a (x ++ y ++ z) -> placed f (a + blen x) y.
Proof.
  intros (pre & suf & E & L). exists (pre ++ x), (z ++ suf). split.
  - rewrite E. rewrite <- !app_assoc. reflexivity.
  - rewrite blen_app. blia.
Qed.
Lemma placed_head f a y z : placed f a (y ++ z) -> placed f a y.
Proof.
  intros H. replace a with (a + blen (@nil N)) by (rewrite blen_nil; blia). apply (placed_sub f a [] y z). exact H.
Qed.
Lemma placed_tail f a x y : placed f a (x ++ y) -> placed f (a + blen x) y.
Proof. intros H. apply (placed_sub f a x y []). now rewrite app_nil_r. Qed.

Lemma placed_slice f a b off len : placed f a b -> off + len <= blen b -> placed f (a + off) (rd b off len).
Proof.
  intros H Hl. rewrite (rd_split b off len Hl) in H. apply placed_sub in H.
  replace (blen (firstn (N.to_nat off) b)) with off in H; [exact H|].
  unfold blen. rewrite firstn_length. unfold blen in Hl. blia.
Qed.

Lemma blen_rd (b : bytes) off len : off + len <= blen b -> blen (rd b off len) = len.
Proof. intros H. unfold rd, blen. rewrite firstn_length, skipn_length. unfold blen in H. blia. Qed.

Lemma placed_in_range f a b : placed f a b -> in_range f a (blen b) = true.
Proof. intros (pre & suf & E & L). unfold in_range. apply N.leb_le. rewrite E, !blen_app. blia. Qed.
Lemma placed_rd_exact f a b : placed f a b -> rd f a (blen b) = b.
Proof. intros (pre & suf & E & L). subst f a. apply rd_app_mid. Qed.
Lemma placed_bound f a b : placed f a b -> a + blen b <= blen f.
Proof. intros (pre & suf & E & L). rewrite E, !blen_app. blia. Qed.

(* reading exactly a placed block *)
Lemma run0_read_exact A f a b len (k : bytes -> prog A) :
  placed f a b -> len = blen b -> run0 f (ReadAt a len k) = run0 f (k b).
Proof.
  intros H ->. rewrite run0_read_in by (now apply placed_in_range). now rewrite placed_rd_exact.
Qed.
(* the key abstraction: a read inside a placed block returns the block's slice *)
Lemma run0_read_placed A f a b off len (k : bytes -> prog A) :
  placed f a b -> off + len <= blen b -> run0 f (ReadAt (a + off) len k) = run0 f (k (rd b off len)).
Proof.
  intros H Hl. apply run0_read_exact.
  - now apply placed_slice.
  - symmetry. now apply blen_rd.
Qed.

(* ------------------------------------------------------------------ bind *)
Lemma run_bind : forall A (p : prog A) B (g : A -> prog B) f fl c,
  run f fl c (bind p g) =
  match run f fl c p with (Ok a, c') => run f fl c' (g a) | (Err, c') => (Err, c') | (Panic, c') => (Panic, c') end.
Proof.
  intros A p. induction p as [A a|A|A|A off len k IH|A off len k IH|A B0 p IHp d k IHk] using prog_ind; intros B g f fl c.
  - reflexivity.
  - reflexivity.
  - reflexivity.
  - cbn [bind run]. destruct (fl c); [|reflexivity|]; (match goal with |- context [if ?x then _ else _] => destruct x end);
      [apply IH|reflexivity|apply IH|reflexivity].
  - cbn [bind run]. destruct (fl c); [apply IH|reflexivity|apply IH].
  - cbn [bind run]. destruct (run f fl c p) as [o c1]. destruct o; [apply IHk|apply IHk|reflexivity].
Qed.
Lemma run0_bind A B (p : prog A) (g : A -> prog B) f :
  run0 f (bind p g) = match run0 f p with Ok a => run0 f (g a) | Err => Err | Panic => Panic end.
Proof.
  unfold run0 at 1 2. rewrite run_bind. destruct (run f nofault 0 p) as [o c]. cbn [fst].
  destruct o; [apply run0_counter|reflexivity|reflexivity].
Qed.
Lemma run0_bind_ok A B (p : prog A) (g : A -> prog B) f a :
  run0 f p = Ok a -> run0 f (bind p g) = run0 f (g a).
Proof. intros H. now rewrite run0_bind, H. Qed.
Lemma run0_ret A (a : A) f : run0 f (Ret a) = Ok a.
Proof. reflexivity. Qed.
Lemma run0_lift_ok A B (o : outcome A) (g : A -> prog B) f a :
  o = Ok a -> run0 f (bind (lift o) g) = run0 f (g a).
Proof. intros ->. reflexivity. Qed.

(* ------------------------------------------------------------------ utils.ReadBytesAt on a placed block *)
Lemma run0_read_bytes_at f a b n : placed f a b -> n = blen b -> 0 < n -> a + n <= MAXI64 ->
  run0 f (p_read_bytes_at a n) = Ok b.
Proof.
  intros H -> Hn Hm. unfold p_read_bytes_at.
  replace (blen b =? 0) with false by (symmetry; apply N.eqb_neq; blia).
  replace (MAXI64 <? a + blen b) with false by (symmetry; apply N.ltb_ge; exact Hm).
  replace (a + blen b - 1) with (a + (blen b - 1)) by blia.
  rewrite (run0_read_placed _ f a b (blen b - 1) 1) by (auto; blia).
  rewrite (run0_read_exact _ f a b) by auto. reflexivity.
Qed.

(* ------------------------------------------------------------------ place_all *)
Lemma place_all_placed : forall blocks i b, nth_error blocks i = Some b ->
  placed (place_all blocks) (block_addr blocks i) b.
Proof.
  induction blocks as [|x r IH]; intros [|i] b H; cbn [nth_error] in H; try discriminate.
  - injection H as ->. exists [], (concat r). split; reflexivity.
  - destruct (IH i b H) as (pre & suf & E & L). exists (x ++ pre), suf. split.
    + unfold place_all in *. cbn [concat]. rewrite E. now rewrite <- app_assoc.
    + cbn [block_addr]. rewrite blen_app. blia.
Qed.
(* a block together with everything behind it *)
Lemma place_all_placed_rest : forall blocks i, (i <= length blocks)%nat ->
  placed (place_all blocks) (block_addr blocks i) (concat (skipn i blocks)).
Proof.
  induction blocks as [|x r IH]; intros [|i] H.
  - exists [], []. split; reflexivity.
  - cbn [length] in H. blia.
  - exists [], []. split; [cbn [skipn app]; now rewrite app_nil_r | reflexivity].
  - cbn [length] in H. destruct (IH i ltac:(blia)) as (pre & suf & E & L). exists (x ++ pre), suf. split.
    + unfold place_all in *. cbn [concat skipn]. rewrite E. now rewrite <- app_assoc.
    + cbn [block_addr]. rewrite blen_app. blia.
Qed.
