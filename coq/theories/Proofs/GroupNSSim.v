(* C03: one admissible API call keeps the writer state a representation of the specification tree and
   returns the same ok/err class as the specification (step_sim); lifted to histories (run_sim). *)
From HV Require Import Base.Prelude Model.GroupNS Proofs.GroupNSBase Proofs.GroupNSHeap Proofs.GroupNSPath
  Proofs.GroupNSInv Proofs.GroupNSSpec Proofs.GroupNSRefine.

Lemma path_ok_snoc : forall p, path_ok p = true ->
  exists pcs n, split_path p = Some (pcs ++ [n]) /\ p = render (pcs ++ [n]) /\ names_ok_l (pcs ++ [n]).
Proof.
  intros p H. destruct (path_ok_inv p H) as (m & cs & S & E & Hok).
  destruct (unsnoc_cons_some _ m cs) as (i & y & U). apply unsnoc_inv in U.
  exists i, y. rewrite <- U. auto.
Qed.

Lemma names_ok_snoc : forall pcs n, names_ok_l (pcs ++ [n]) -> names_ok_l pcs /\ name_ok n = true.
Proof. intros pcs n H. apply Forall_app in H. destruct H as [A B]. inversion B; subst. auto. Qed.

Lemma validate_group_render' : forall cs, cs <> [] -> names_ok_l cs -> validate_group_path (render cs) = true.
Proof. intros [|m cs] H Hok; [contradiction | apply validate_group_render; assumption]. Qed.
Lemma validate_link_render' : forall cs, cs <> [] -> names_ok_l cs -> validate_link_path (render cs) = true.
Proof. intros [|m cs] H Hok; [contradiction | apply validate_link_render; assumption]. Qed.
Lemma validate_dataset_render' : forall cs, cs <> [] -> validate_dataset_name (render cs) = true.
Proof. intros [|m cs] H; [contradiction | reflexivity]. Qed.
Lemma snoc_nonempty : forall A (l : list A) x, l ++ [x] <> [].
Proof. intros A [|y l] x; discriminate. Qed.

(* ---------------------------------------------------------------- the state a creating call links from *)
Definition fresh_obj (k : kind) : obj := {| o_kind := k; o_rcmsg := None |}.
Definition with_structs (c : cfg) (w : wstate) : wstate :=
  let id := clock w in
  let w1 := set_heaps w (aset id (snd (write_to (new_local_heap (heap_cap c)))) (heaps w)) in
  set_snods w1 (aset id (snod_write_at (new_snod (snod_cap c)) (snod_cap c)) (snods w1)).
Definition with_obj (w0 w : wstate) (k : kind) : wstate := set_objects w (aset (clock w0) (fresh_obj k) (objects w)).

Lemma pre_facts : forall c w wpre k, (wpre = with_obj w w k \/ wpre = with_obj w (with_structs c w) k) ->
  groups wpre = groups w /\ clock wpre = clock w /\
  (forall x, x <> clock w -> alookup x (heaps wpre) = alookup x (heaps w) /\ alookup x (snods wpre) = alookup x (snods w)) /\
  alookup (clock w) (objects wpre) = Some (fresh_obj k) /\
  (forall x, x <> clock w -> alookup x (objects wpre) = alookup x (objects w)).
Proof.
  intros c w wpre k [->| ->]; unfold with_obj, with_structs; cbn [groups clock heaps snods objects set_objects set_snods set_heaps].
  - repeat split; try reflexivity; [apply alookup_aset_eq | intros; apply alookup_aset_neq; congruence].
  - repeat split; try reflexivity; try (rewrite alookup_aset_neq by congruence; reflexivity);
      [apply alookup_aset_eq | intros; apply alookup_aset_neq; congruence].
Qed.

(* the successful creation of an object of kind (skind nd) named pcs/n *)
Lemma create_ok : forall c w t wpre w' nd pcs n g0 ch seg' ents',
  Rep c w t -> SInv t -> names_ok_l (pcs ++ [n]) ->
  sresolve (s_nodes t) 0 pcs = Some g0 -> alookup g0 (s_nodes t) = Some (SG ch) -> clookup n ch = None ->
  is_leaf_node nd ->
  match nd with SG _ => wpre = with_obj w (with_structs c w) KGroup | _ => wpre = with_obj w w (skind nd) end ->
  gwf seg' ents' (map fst (ch ++ [(n, clock w)])) -> map e_obj ents' = map snd (ch ++ [(n, clock w)]) ->
  match nd with
  | SG _ => w' = tick (set_groups (linked wpre g0 seg' ents') (pset (render (pcs ++ [n])) (clock w) (groups (linked wpre g0 seg' ents'))))
  | _ => w' = tick (linked wpre g0 seg' ents')
  end ->
  Inv1 c w' ->
  Rep c w' (s_tick t (aset (clock w) nd (aset g0 (SG (ch ++ [(n, clock w)])) (s_nodes t)))) /\
  SInv (s_tick t (aset (clock w) nd (aset g0 (SG (ch ++ [(n, clock w)])) (s_nodes t)))).
Proof.
  intros c w t wpre w' nd pcs n g0 ch seg' ents' R I Hok Sr L Hn Hleaf Hpre Hwf Ho Hw' I'.
  pose proof (r_clock _ _ _ R) as Hc. rewrite Hc.
  assert (Hg0 : g0 < clock w) by (rewrite Hc; apply (s_bound _ I); rewrite L; discriminate).
  assert (Hne : g0 <> s_clock t) by lia.
  assert (Hk : wpre = with_obj w w (skind nd) \/ wpre = with_obj w (with_structs c w) (skind nd)).
  { destruct nd; [right | left | left]; assumption. }
  destruct (pre_facts c w wpre (skind nd) Hk) as (P1 & P2 & P3 & P4 & P5).
  assert (U : upd (s_nodes t) (aset (s_clock t) nd (aset g0 (SG (ch ++ [(n, s_clock t)])) (s_nodes t))) g0 ch n (s_clock t) (Some (s_clock t, nd)))
    by (apply upd_aset_fresh; assumption).
  split.
  - assert (U' : upd (s_nodes t) (aset (clock w) nd (aset g0 (SG (ch ++ [(n, clock w)])) (s_nodes t))) g0 ch n (clock w) (Some (clock w, nd)))
      by (rewrite Hc; exact U).
    rewrite <- Hc.
    eapply (rep_link_ok c w t w' _ pcs n g0 ch (clock w) (Some (clock w, nd)) seg' ents'); try eassumption.
    + auto.
    + destruct nd; subst w'; cbn [clock tick set_groups linked set_snods set_heaps]; rewrite P2; reflexivity.
    + destruct nd; subst w'; cbn [heaps tick set_groups linked set_snods set_heaps]; apply alookup_aset_eq.
    + destruct nd; subst w'; cbn [snods tick set_groups linked set_snods set_heaps]; apply alookup_aset_eq.
    + intros k Hk1 Hk2. destruct (P3 k ltac:(lia)) as [A B].
      destruct nd; subst w'; cbn [heaps snods tick set_groups linked set_snods set_heaps]; rewrite !alookup_aset_neq by congruence; auto.
    + intros k o Hko. assert (k <> clock w).
      { intro. subst k. rewrite (i_fresh_o _ _ _ (r_inv _ _ _ R) (clock w)) in Hko by lia. discriminate. }
      exists o. split; [|reflexivity].
      destruct nd; subst w'; cbn [objects tick set_groups linked set_snods set_heaps]; rewrite P5 by assumption; assumption.
    + split.
      * exists (fresh_obj (skind nd)). split; [|reflexivity].
        destruct nd; subst w'; cbn [objects tick set_groups linked set_snods set_heaps]; assumption.
      * destruct nd as [chn| |].
        -- subst w'. cbn [groups heaps snods tick set_groups linked set_snods set_heaps]. rewrite P1.
           split; [reflexivity|]. rewrite !alookup_aset_neq by lia. subst wpre. unfold with_obj, with_structs.
           cbn [heaps snods set_objects set_snods set_heaps]. rewrite !alookup_aset_eq, new_heap_segment.
           unfold snod_write_at, new_snod. cbn [sn_entries]. rewrite firstn_nil. auto.
        -- subst w'. cbn [groups tick linked set_snods set_heaps]. assumption.
        -- subst w'. cbn [groups tick linked set_snods set_heaps]. assumption.
  - eapply sinv_upd; try eassumption. cbv beta iota. auto.
Qed.

(* ---------------------------------------------------------------- both sides fail *)
Lemma sim_err : forall c w t o, Rep c w t -> SInv t -> name_cond c (op_link_name c o) ->
  is_ok (snd (step c w o)) = false -> is_ok (snd (spec_step c t o)) = false ->
  is_ok (snd (step c w o)) = is_ok (snd (spec_step c t o)) /\ Rep c (fst (step c w o)) (fst (spec_step c t o)) /\ SInv (fst (spec_step c t o)).
Proof.
  intros c w t o R I Hn H1 H2. split; [congruence|].
  destruct (step c w o) as [w' r] eqn:S1. destruct (spec_step c t o) as [t' r'] eqn:S2. cbn [fst snd] in *.
  destruct r as [|e]; [discriminate|]. destruct r' as [|e']; [discriminate|].
  apply spec_err_unchanged in S2. subst t'. split; [eapply step_err_rep; eassumption | apply sinv_tick; assumption].
Qed.

(* ---------------------------------------------------------------- the common shape of a creating call *)
(* what a creation does once its own checks are passed: link from wpre, register if it is a group *)
Definition finish_create (c : cfg) (w wpre : wstate) (p parent : path) (nm : name) (isg : bool) : wstate * result :=
  match link_to_parent c wpre parent nm (clock w) with
  | (w4, Ok) => (if isg then set_groups w4 (pset p (clock w) (groups w4)) else w4, Ok)
  | (w4, Err e) => (w4, Err e)
  end.
Definition nd_is_group (nd : snode) : bool := match nd with SG _ => true | _ => false end.
Definition pre_of (c : cfg) (w : wstate) (nd : snode) : wstate :=
  match nd with SG _ => with_obj w (with_structs c w) KGroup | _ => with_obj w w (skind nd) end.

Lemma s_create_eq : forall c t pcs n nd, names_ok_l (pcs ++ [n]) ->
  s_create c t (render (pcs ++ [n])) nd =
  match s_link c (s_nodes t) (pcs ++ [n]) (s_clock t) with
  | (Some nodes, r) => (s_tick t (aset (s_clock t) nd nodes), r)
  | (None, r) => (s_tick t (s_nodes t), r)
  end.
Proof.
  intros c t pcs n nd H. unfold s_create. destruct (pcs ++ [n]) as [|m cs] eqn:E; [destruct pcs; discriminate|].
  rewrite split_path_render by assumption. reflexivity.
Qed.

Lemma noparent_spec_err : forall c w t pcs n nd, Rep c w t -> SInv t -> names_ok_l (pcs ++ [n]) ->
  parent_group w (render pcs) = None -> is_ok (snd (s_create c t (render (pcs ++ [n])) nd)) = false.
Proof.
  intros c w t pcs n nd R I Hok P. destruct (names_ok_snoc _ _ Hok) as [Hpcs Hn].
  rewrite s_create_eq by assumption. unfold s_link. rewrite unsnoc_snoc.
  pose proof (parent_agree c w t pcs R I Hpcs) as PA.
  destruct (sresolve (s_nodes t) 0 pcs) as [g0|]; [|reflexivity].
  destruct (alookup g0 (s_nodes t)) as [[ch| |]|]; try reflexivity. congruence.
Qed.

Lemma finish_sim : forall c w t nd pcs n, Rep c w t -> SInv t -> names_ok_l (pcs ++ [n]) -> is_leaf_node nd ->
  let mb := finish_create c w (pre_of c w nd) (render (pcs ++ [n])) (render pcs) n (nd_is_group nd) in
  let sb := s_create c t (render (pcs ++ [n])) nd in
  (is_ok (snd mb) = false /\ is_ok (snd sb) = false) \/
  (snd mb = Ok /\ snd sb = Ok /\ (Inv1 c (tick (fst mb)) -> Rep c (tick (fst mb)) (fst sb) /\ SInv (fst sb))).
Proof.
  intros c w t nd pcs n R I Hok Hleaf mb sb. destruct (names_ok_snoc _ _ Hok) as [Hpcs Hn].
  destruct (parent_group w (render pcs)) as [g|] eqn:PG.
  2:{ left. split; [|eapply noparent_spec_err; eassumption]. subst mb. unfold finish_create, link_to_parent.
      assert (X : parent_group (pre_of c w nd) (render pcs) = None).
      { rewrite <- PG. apply parent_group_groups. destruct nd; reflexivity. }
      rewrite X. destruct (strict_names c && negb (heap_name_ok n)); reflexivity. }
  pose proof (parent_agree c w t pcs R I Hpcs) as PA.
  destruct (sresolve (s_nodes t) 0 pcs) as [g0|] eqn:Sr; [|congruence].
  destruct (alookup g0 (s_nodes t)) as [[ch| |]|] eqn:L; try congruence.
  assert (Hk : pre_of c w nd = with_obj w w (skind nd) \/ pre_of c w nd = with_obj w (with_structs c w) (skind nd)).
  { destruct nd; [right | left | left]; reflexivity. }
  destruct (pre_facts c w _ (skind nd) Hk) as (P1 & P2 & P3 & _).
  destruct (link_agree c w t (pre_of c w nd) pcs n (clock w) g0 ch R I P1 P3 Hpcs Hn Sr L)
    as [(e & e' & E1 & E2)|(seg' & ents' & E1 & E2 & Hwf & Ho & Hcl)].
  - left. subst mb sb. unfold finish_create. rewrite E2. rewrite s_create_eq by assumption.
    rewrite <- (r_clock _ _ _ R), E1. auto.
  - right. subst mb sb. unfold finish_create. rewrite E2. rewrite s_create_eq by assumption.
    rewrite <- (r_clock _ _ _ R), E1. cbn [fst snd]. split; [reflexivity|]. split; [reflexivity|]. intro I'.
    eapply (create_ok c w t (pre_of c w nd) _ nd pcs n g0 ch seg' ents'); try eassumption.
    + destruct nd; reflexivity.
    + destruct nd; reflexivity.
Qed.

(* ---------------------------------------------------------------- per call *)
Definition SimGoal (c : cfg) (w : wstate) (t : stree) (o : op) : Prop :=
  is_ok (snd (step c w o)) = is_ok (snd (spec_step c t o)) /\
  Rep c (fst (step c w o)) (fst (spec_step c t o)) /\ SInv (fst (spec_step c t o)).

Lemma sim_from_body : forall c w t o mb, Rep c w t -> SInv t -> name_cond c (op_link_name c o) ->
  step_body c w o = mb ->
  ((is_ok (snd mb) = false /\ is_ok (snd (spec_step c t o)) = false) \/
   (snd mb = Ok /\ snd (spec_step c t o) = Ok /\
    (Inv1 c (tick (fst mb)) -> Rep c (tick (fst mb)) (fst (spec_step c t o)) /\ SInv (fst (spec_step c t o))))) ->
  SimGoal c w t o.
Proof.
  intros c w t o mb R I Hn B H.
  assert (S : step c w o = (tick (fst mb), snd mb)) by (unfold step; rewrite B; destruct mb; reflexivity).
  destruct H as [[H1 H2]|(H1 & H2 & H3)].
  - apply sim_err; try assumption. rewrite S. assumption.
  - pose proof (step_inv c w o (r_inv _ _ _ R) Hn) as I'. unfold SimGoal. rewrite S in *. cbn [fst snd] in *.
    rewrite H1, H2. split; [reflexivity|]. apply H3. assumption.
Qed.

Lemma link_name_render : forall pcs n, names_ok_l (pcs ++ [n]) -> snd (parse_path (render (pcs ++ [n]))) = n.
Proof. intros. rewrite parse_path_render by assumption. reflexivity. Qed.

Lemma trim_render : forall pcs n, names_ok_l (pcs ++ [n]) -> trim_suffix_slash (render (pcs ++ [n])) = render (pcs ++ [n]).
Proof.
  intros pcs n H. destruct (names_ok_snoc _ _ H) as [_ Hn]. apply name_ok_iff in Hn. destruct Hn as (A & _ & B).
  rewrite render_snoc. replace (render pcs ++ SL :: n) with ((render pcs ++ [SL]) ++ n) by (rewrite <- app_assoc; reflexivity).
  apply trim_suffix_nonslash; assumption.
Qed.
Lemma if_same : forall A (b : bool) (x : A), (if b then x else x) = x.
Proof. intros A [|] x; reflexivity. Qed.

Lemma step_mkgroup_eq : forall c w pcs n, names_ok_l (pcs ++ [n]) ->
  step_body c w (MkGroup (render (pcs ++ [n]))) =
  if negb (parent_registered w (render pcs)) then (w, Err ENoParent)
  else match precheck c w (render pcs) n with Some e => (w, Err e) | None =>
       finish_create c w (pre_of c w (SG [])) (render (pcs ++ [n])) (render pcs) n true end.
Proof.
  intros c w pcs n H. cbn [step_body]. unfold create_group.
  rewrite validate_group_render' by (assumption || apply snoc_nonempty). cbn [negb]. cbv zeta.
  rewrite trim_render by assumption. rewrite if_same. rewrite parse_path_render by assumption. reflexivity.
Qed.

Lemma step_mkdataset_eq : forall c w pcs n, names_ok_l (pcs ++ [n]) ->
  step_body c w (MkDataset (render (pcs ++ [n]))) =
  match precheck c w (render pcs) n with Some e => (w, Err e) | None =>
  finish_create c w (pre_of c w SD) (render (pcs ++ [n])) (render pcs) n false end.
Proof.
  intros c w pcs n H. cbn [step_body]. unfold create_dataset.
  rewrite validate_dataset_render' by apply snoc_nonempty. rewrite parse_path_render by assumption. cbn [negb].
  destruct (precheck c w (render pcs) n); [reflexivity|].
  unfold finish_create, pre_of, with_obj, fresh_obj. cbn [skind].
  destruct (link_to_parent c _ (render pcs) n (clock w)) as [w4 [|e]]; reflexivity.
Qed.

Lemma step_softlink_eq : forall c w pcs n q, names_ok_l (pcs ++ [n]) ->
  step_body c w (SoftLink (render (pcs ++ [n])) q) =
  if negb (validate_soft_target q) then (w, Err EInvalidPath) else
  if negb (parent_registered w (render pcs)) then (w, Err ENoParent) else
  if soft_max c <? blen n + blen q then (w, Err ETooLong) else
  match precheck c w (render pcs) n with Some e => (w, Err e) | None =>
  finish_create c w (pre_of c w (SS q)) (render (pcs ++ [n])) (render pcs) n false end.
Proof.
  intros c w pcs n q H. cbn [step_body]. unfold create_soft_link.
  rewrite validate_link_render' by (assumption || apply snoc_nonempty). cbn [negb].
  destruct (negb (validate_soft_target q)); [reflexivity|]. rewrite parse_path_render by assumption.
  destruct (negb (parent_registered w (render pcs))); [reflexivity|].
  destruct (soft_max c <? blen n + blen q); [reflexivity|].
  destruct (precheck c w (render pcs) n); [reflexivity|].
  unfold finish_create, pre_of, with_obj, fresh_obj. cbn [skind].
  destruct (link_to_parent c _ (render pcs) n (clock w)) as [w4 [|e]]; reflexivity.
Qed.

Lemma finish_noparent : forall c w wpre p parent nm isg, groups wpre = groups w -> parent_group w parent = None ->
  is_ok (snd (finish_create c w wpre p parent nm isg)) = false.
Proof.
  intros. unfold finish_create, link_to_parent. rewrite (parent_group_groups _ _ _ H), H0.
  destruct (strict_names c && negb (heap_name_ok nm)); reflexivity.
Qed.

Lemma noparent_slink_err : forall c w t pcs n child, Rep c w t -> SInv t -> names_ok_l (pcs ++ [n]) ->
  parent_group w (render pcs) = None -> exists e, s_link c (s_nodes t) (pcs ++ [n]) child = (None, Err e).
Proof.
  intros c w t pcs n child R I Hok P. destruct (names_ok_snoc _ _ Hok) as [Hpcs Hn].
  unfold s_link. rewrite unsnoc_snoc. pose proof (parent_agree c w t pcs R I Hpcs) as PA.
  destruct (sresolve (s_nodes t) 0 pcs) as [g0|]; [|eauto].
  destruct (alookup g0 (s_nodes t)) as [[ch| |]|]; eauto. congruence.
Qed.

Lemma s_link_child_class : forall c T cs a b0, is_ok (snd (s_link c T cs a)) = is_ok (snd (s_link c T cs b0)).
Proof.
  intros c T cs a b0. unfold s_link. destruct (unsnoc cs) as [[pcs n]|]; [|reflexivity].
  destruct (sresolve T 0 pcs) as [g|]; [|reflexivity]. destruct (alookup g T) as [[ch| |]|]; try reflexivity.
  destruct (clookup n ch); [reflexivity|]. destruct (_ <? _); [reflexivity|]. destruct (_ <=? _); reflexivity.
Qed.

(* checkLinkable refuses: so does the specification's insertion, whatever is inserted *)
Lemma precheck_some_slink : forall c w t pcs n e child, Rep c w t -> SInv t -> names_ok_l (pcs ++ [n]) ->
  precheck c w (render pcs) n = Some e -> is_ok (snd (s_link c (s_nodes t) (pcs ++ [n]) child)) = false.
Proof.
  intros c w t pcs n e child R I Hok PC. destruct (names_ok_snoc _ _ Hok) as [Hpcs Hn].
  unfold precheck in PC. destruct (check_first c); [|discriminate].
  destruct (parent_group w (render pcs)) as [g|] eqn:PG.
  2:{ destruct (noparent_slink_err c w t pcs n child R I Hok PG) as (e' & E). rewrite E. reflexivity. }
  pose proof (parent_agree c w t pcs R I Hpcs) as PA.
  destruct (sresolve (s_nodes t) 0 pcs) as [g0|] eqn:Sr; [|congruence].
  destruct (alookup g0 (s_nodes t)) as [[ch| |]|] eqn:L; try congruence.
  destruct (link_agree c w t w pcs n 0 g0 ch R I eq_refl (fun k _ => conj eq_refl eq_refl) Hpcs Hn Sr L)
    as [(e1 & e2 & E1 & E2)|(seg' & ents' & E1 & E2 & _)].
  - rewrite (s_link_child_class c _ _ child 0), E1. reflexivity.
  - rewrite E2 in PC. discriminate.
Qed.

Lemma precheck_some_create : forall c w t pcs n e nd, Rep c w t -> SInv t -> names_ok_l (pcs ++ [n]) ->
  precheck c w (render pcs) n = Some e -> is_ok (snd (s_create c t (render (pcs ++ [n])) nd)) = false.
Proof.
  intros c w t pcs n e nd R I Hok PC. rewrite s_create_eq by assumption.
  pose proof (precheck_some_slink c w t pcs n e (s_clock t) R I Hok PC) as X.
  destruct (s_link c (s_nodes t) (pcs ++ [n]) (s_clock t)) as [[T'|] r]; exact X.
Qed.

Lemma sim_mkgroup : forall c w t p, Rep c w t -> SInv t -> path_ok p = true -> SimGoal c w t (MkGroup p).
Proof.
  intros c w t p R I H. destruct (path_ok_snoc p H) as (pcs & n & Sp & -> & Hok).
  assert (Hnm : name_cond c (op_link_name c (MkGroup (render (pcs ++ [n]))))).
  { right. unfold op_link_name. cbn [op_path_eff]. rewrite ?trim_render by assumption. rewrite ?if_same. rewrite link_name_render by assumption. apply name_ok_hname. apply names_ok_snoc in Hok. tauto. }
  eapply sim_from_body; try eassumption; [apply step_mkgroup_eq; assumption|]. cbn [spec_step].
  rewrite parent_registered_eq. destruct (parent_group w (render pcs)) as [g|] eqn:PG; cbn [negb].
  - destruct (precheck c w (render pcs) n) as [e|] eqn:PC.
    + left. split; [reflexivity | eapply precheck_some_create; eassumption].
    + apply (finish_sim c w t (SG []) pcs n R I Hok). reflexivity.
  - left. split; [reflexivity | eapply noparent_spec_err; eassumption].
Qed.

Lemma sim_mkdataset : forall c w t p, Rep c w t -> SInv t -> path_ok p = true -> SimGoal c w t (MkDataset p).
Proof.
  intros c w t p R I H. destruct (path_ok_snoc p H) as (pcs & n & Sp & -> & Hok).
  assert (Hnm : name_cond c (op_link_name c (MkDataset (render (pcs ++ [n]))))).
  { right. unfold op_link_name. cbn [op_path_eff]. rewrite ?trim_render by assumption. rewrite ?if_same. rewrite link_name_render by assumption. apply name_ok_hname. apply names_ok_snoc in Hok. tauto. }
  eapply sim_from_body; try eassumption; [apply step_mkdataset_eq; assumption|]. cbn [spec_step].
  destruct (precheck c w (render pcs) n) as [e|] eqn:PC.
  - left. split; [reflexivity | eapply precheck_some_create; eassumption].
  - apply (finish_sim c w t SD pcs n R I Hok). exact Logic.I.
Qed.

Lemma sim_softlink : forall c w t p q, Rep c w t -> SInv t -> path_ok p = true -> SimGoal c w t (SoftLink p q).
Proof.
  intros c w t p q R I H. destruct (path_ok_snoc p H) as (pcs & n & Sp & -> & Hok).
  assert (Hnm : name_cond c (op_link_name c (SoftLink (render (pcs ++ [n])) q))).
  { right. unfold op_link_name. cbn [op_path_eff]. rewrite ?trim_render by assumption. rewrite ?if_same. rewrite link_name_render by assumption. apply name_ok_hname. apply names_ok_snoc in Hok. tauto. }
  eapply sim_from_body; try eassumption; [apply step_softlink_eq; assumption|]. cbn [spec_step].
  destruct (negb (validate_soft_target q)); [left; split; reflexivity|].
  rewrite Sp, unsnoc_snoc.
  rewrite parent_registered_eq. destruct (parent_group w (render pcs)) as [g|] eqn:PG; cbn [negb].
  - destruct (soft_max c <? blen n + blen q); [left; split; reflexivity|].
    destruct (precheck c w (render pcs) n) as [e|] eqn:PC.
    + left. split; [reflexivity | eapply precheck_some_create; eassumption].
    + apply (finish_sim c w t (SS q) pcs n R I Hok). exact Logic.I.
  - left. split; [reflexivity|]. destruct (soft_max c <? blen n + blen q); [reflexivity|].
    eapply noparent_spec_err; eassumption.
Qed.

(* ---------------------------------------------------------------- hard links to datasets *)

Lemma sim_hardlink : forall c w t p q, Rep c w t -> SInv t ->
  path_ok p = true -> path_ok q = true -> target_is_data t q = true -> SimGoal c w t (HardLink p q).
Proof.
  intros c w t p q R I Hp Hq Ht. destruct (path_ok_snoc p Hp) as (pcs & n & Sp & -> & Hok).
  destruct (path_ok_snoc q Hq) as (qp & qn & Sq & -> & Hqok). destruct (names_ok_snoc _ _ Hok) as [Hpcs Hn].
  assert (Hnm : name_cond c (op_link_name c (HardLink (render (pcs ++ [n])) (render (qp ++ [qn]))))).
  { right. unfold op_link_name. cbn [op_path_eff]. rewrite link_name_render by assumption. apply name_ok_hname. assumption. }
  eapply sim_from_body; try eassumption; [reflexivity|].
  cbn [step_body spec_step]. unfold create_hard_link.
  rewrite !validate_link_render' by (assumption || apply snoc_nonempty). cbn [negb].
  rewrite parse_path_render by assumption. rewrite Sp, Sq.
  rewrite (resolve_agree c w t qp qn R I Hqok).
  unfold target_is_data in Ht. rewrite Sq in Ht.
  rewrite parent_registered_eq.
  destruct (sresolve (s_nodes t) 0 (qp ++ [qn])) as [tid|] eqn:St.
  2:{ left. destruct (parent_group w (render pcs)); split; reflexivity. }
  destruct (alookup tid (s_nodes t)) as [[cht| |]|] eqn:Lt; try discriminate.
  destruct (r_kind _ _ _ R tid SD Lt) as (o & Ho & Hkd). cbn [skind] in Hkd.
  destruct (parent_group w (render pcs)) as [g|] eqn:PG; cbn [negb].
  2:{ left. split; [reflexivity|]. destruct (noparent_slink_err c w t pcs n tid R I Hok PG) as (e & E). rewrite E. reflexivity. }
  rewrite Ho.
  destruct (precheck c w (render pcs) n) as [e0|] eqn:PC.
  { left. split; [reflexivity|]. pose proof (precheck_some_slink c w t pcs n e0 tid R I Hok PC) as X.
    destruct (s_link c (s_nodes t) (pcs ++ [n]) tid) as [[T'|] r]; exact X. }
  set (o1 := write_refcount c o (wrap32 (refcount o + 1))). set (w1 := set_objects w (aset tid o1 (objects w))).
  pose proof (parent_agree c w t pcs R I Hpcs) as PA.
  destruct (sresolve (s_nodes t) 0 pcs) as [g0|] eqn:Sr; [|congruence].
  destruct (alookup g0 (s_nodes t)) as [[ch| |]|] eqn:L; try congruence.
  assert (P1 : groups w1 = groups w) by reflexivity.
  assert (P3 : forall k, k <> clock w -> alookup k (heaps w1) = alookup k (heaps w) /\ alookup k (snods w1) = alookup k (snods w)) by (intros; split; reflexivity).
  destruct (link_agree c w t w1 pcs n tid g0 ch R I P1 P3 Hpcs Hn Sr L)
    as [(e & e' & E1 & E2)|(seg' & ents' & E1 & E2 & Hwf & Hob & Hcl)].
  - left. rewrite E1, E2. split; reflexivity.
  - right. rewrite E1, E2. cbn [fst snd]. split; [reflexivity|]. split; [reflexivity|]. intro I'.
    assert (Hg0 : g0 < clock w) by (rewrite (r_clock _ _ _ R); apply (s_bound _ I); rewrite L; discriminate).
    split.
    + eapply (rep_link_ok c w t _ _ pcs n g0 ch tid None seg' ents'); try eassumption.
      * apply upd_aset.
      * reflexivity.
      * cbn [heaps tick linked set_snods set_heaps]. apply alookup_aset_eq.
      * cbn [snods tick linked set_snods set_heaps]. apply alookup_aset_eq.
      * intros k Hk1 Hk2. cbn [heaps snods tick linked set_snods set_heaps]. rewrite !alookup_aset_neq by congruence. auto.
      * intros k ok Hk. cbn [objects tick linked set_snods set_heaps]. unfold w1. cbn [objects set_objects].
        rewrite alookup_aset. destruct (tid =? k) eqn:E; [|eauto]. apply N.eqb_eq in E. subst k.
        exists o1. split; [reflexivity|]. rewrite Ho in Hk. inversion Hk; subst. reflexivity.
    + eapply sinv_upd; try eassumption; [apply upd_aset | assumption].
Qed.

Lemma step_sim : forall c w t o, Rep c w t -> SInv t -> adm_op t o = true -> SimGoal c w t o.
Proof.
  intros c w t o R I A. destruct o as [p|p|p q|p q]; cbn [adm_op] in A.
  - apply sim_mkgroup; assumption.
  - apply sim_mkdataset; assumption.
  - apply andb_true_iff in A. destruct A as [A A3]. apply andb_true_iff in A. destruct A as [A1 A2].
    apply sim_hardlink; assumption.
  - apply sim_softlink; assumption.
Qed.

Lemma run_sim : forall c h w t, Rep c w t -> SInv t -> adm c t h = true ->
  map is_ok (snd (run (step c) w h)) = map is_ok (snd (run (spec_step c) t h)) /\
  Rep c (fst (run (step c) w h)) (fst (run (spec_step c) t h)) /\ SInv (fst (run (spec_step c) t h)).
Proof.
  intros c h. induction h as [|o h IH]; intros w t R I A; [cbn; auto|].
  cbn [adm] in A. apply andb_true_iff in A. destruct A as [A1 A2].
  destruct (step_sim c w t o R I A1) as (S1 & S2 & S3). cbn [run].
  destruct (step c w o) as [w1 r1]. destruct (spec_step c t o) as [t1 r1']. cbn [fst snd] in *.
  specialize (IH w1 t1 S2 S3 A2).
  destruct (run (step c) w1 h) as [w2 rs]. destruct (run (spec_step c) t1 h) as [t2 rs']. cbn [fst snd map] in *.
  destruct IH as (J1 & J2 & J3). split; [congruence | auto].
Qed.
