(* C09: (1) the boolean validity predicate the tie evaluates reflects `valid`;
   (2) witnesses that the code BEFORE the repairs violated the property (one per defect class
       of D9), computed by vm_compute on the model of the original code;
   (3) non-vacuity examples for the theorems about the repaired code. *)
From HV Require Import Base.Prelude Model.Hyperslab Proofs.HyperslabBase Proofs.HyperslabValidate
  Proofs.HyperslabDispatch Proofs.HyperslabIter.

Lemma forall2b_spec {A B} (f : A -> B -> bool) (P : A -> B -> Prop) :
  (forall a b, f a b = true <-> P a b) -> forall l m, forall2b f l m = true <-> Forall2 P l m.
Proof.
  intros H. induction l as [|x l IH]; intros [|y m]; cbn [forall2b].
  - split; [constructor|reflexivity].
  - split; [discriminate|intros V; inversion V].
  - split; [discriminate|intros V; inversion V].
  - rewrite andb_true_iff, H, IH. split; [intros []; constructor; assumption|intros V; inversion V; auto].
Qed.

Lemma axis_validb_spec a d : axis_validb a d = true <-> axis_valid a d.
Proof.
  unfold axis_validb, axis_valid. rewrite !andb_true_iff, !N.ltb_lt, N.leb_le. tauto.
Qed.

Lemma validb_spec h dims : validb h dims = true <-> valid h dims.
Proof.
  unfold validb, valid, lens_okb, lens_ok, axes_valid.
  rewrite !andb_true_iff, !Nat.eqb_eq, (forall2b_spec _ _ axis_validb_spec). tauto.
Qed.

Lemma slice_validb_spec start count dims : slice_validb start count dims = true <-> slice_valid start count dims.
Proof.
  unfold slice_validb, slice_valid. rewrite !andb_true_iff, !Nat.eqb_eq.
  rewrite (forall2b_spec _ (fun sc d => fst sc + snd sc <= d)) by (intros; apply N.leb_le). tauto.
Qed.

(* ---------------------------------------------------------------- the code before the repairs *)
Definition H1 (s c : list N) (st b : option (list N)) := mkSel s c st b.

(* D9/overflow: start + (count-1)*stride wraps around uint64 and the selection is accepted *)
Lemma validate_orig_refuted :
  exists h dims, u64_sel h (length dims) /\ Forall u64 dims /\ validate_orig h dims = Ok /\ ~ valid h dims.
Proof.
  exists (H1 [18446744073709551615] [2] None None), [10].
  split; [|split; [|split]].
  - unfold u64_sel, u64; cbn; repeat split; repeat constructor; vm_compute; discriminate.
  - repeat constructor. vm_compute. discriminate.
  - vm_compute. reflexivity.
  - intros V. apply validb_spec in V. vm_compute in V. discriminate.
Qed.

Lemma slice_validate_orig_refuted :
  exists start count dims, Forall u64 start /\ Forall u64 count /\ Forall u64 dims /\
    slice_validate_orig start count dims = Ok /\ ~ slice_valid start count dims.
Proof.
  exists [9], [18446744073709551615], [10].
  split; [repeat constructor; vm_compute; discriminate|].
  split; [repeat constructor; vm_compute; discriminate|].
  split; [repeat constructor; vm_compute; discriminate|].
  split; [vm_compute; reflexivity|].
  intros V. apply slice_validb_spec in V. vm_compute in V. discriminate.
Qed.

Definition orig_wrong (lay : layout) (full dims : list N) (h : hsel) : Prop :=
  layout_ok lay full dims /\ valid h dims /\ validate_orig h dims = Ok /\
  read_hyperslab_orig lay full dims h <> Some (select full dims (axes_of h (length dims))).

Ltac orig_witness :=
  unfold orig_wrong; split; [|split; [|split]];
  [ split; [vm_compute; reflexivity|cbn; repeat split; repeat constructor]
  | apply validb_spec; vm_compute; reflexivity
  | vm_compute; reflexivity
  | vm_compute; discriminate ].

(* D9/1-D fast path: stride and block ignored *)
Lemma orig_1d_refuted : orig_wrong Contiguous (nrange 10) [10] (H1 [0] [3] (Some [2]) None).
Proof. orig_witness. Qed.

(* D9/N-D "contiguous" fast path: only the last dimension inspected *)
Lemma orig_nd_contiguous_refuted :
  orig_wrong Contiguous (nrange 20) [4; 5] (H1 [0; 0] [2; 5] (Some [2; 1]) None).
Proof. orig_witness. Qed.

(* D9/bounding box read as if it were contiguous (rank >= 3) *)
Lemma orig_bbox_refuted :
  orig_wrong Contiguous (nrange 60) [3; 4; 5] (H1 [1; 1; 1] [2; 2; 2] None None).
Proof. orig_witness. Qed.

(* D9/chunked: elements emitted chunk by chunk *)
Lemma orig_chunk_major_refuted :
  orig_wrong (Chunked [2; 3]) (nrange 24) [4; 6] (H1 [0; 0] [4; 6] None None).
Proof. orig_witness. Qed.

(* D9/chunked: early return loses elements when blocks overlap (stride < block) *)
Lemma orig_chunk_overlap_refuted :
  orig_wrong (Chunked [2]) (nrange 6) [6] (H1 [0] [2] (Some [1]) (Some [3])).
Proof. orig_witness. Qed.

(* ---------------------------------------------------------------- non-vacuity *)
(* a strided, blocked 3-D selection over a chunked dataset with partial edge chunks is valid,
   accepted, and read correctly; its result is not trivial *)
Definition ex_h := H1 [1; 0; 1] [2; 2; 2] (Some [1; 2; 2]) (Some [1; 1; 2]).
Definition ex_dims := [3; 4; 5].

Lemma nonvacuous_chunked :
  valid ex_h ex_dims /\ validate ex_h ex_dims = Ok /\
  read_hyperslab (Chunked [2; 3; 2]) (nrange 60) ex_dims ex_h
  = Some [21; 22; 23; 24; 31; 32; 33; 34; 41; 42; 43; 44; 51; 52; 53; 54].
Proof. split; [apply validb_spec; vm_compute; reflexivity|split; vm_compute; reflexivity]. Qed.

Lemma nonvacuous_paths :
  (* single read *)      is_contiguous_selection (axes_of (H1 [1; 0] [2; 5] None None) 2) [4; 5] = true /\
  (* 2-D element-wise *) is_contiguous_selection (axes_of (H1 [1; 1] [2; 2] None None) 2) [4; 5] = false /\
  (* selection run *)    is_contiguous_selection (axes_of ex_h 3) ex_dims = false /\
  read_hyperslab Contiguous (nrange 20) [4; 5] (H1 [1; 0] [2; 5] None None) = Some (nseq 5 10) /\
  read_hyperslab Contiguous (nrange 20) [4; 5] (H1 [1; 1] [2; 2] None None) = Some [6; 7; 11; 12] /\
  read_hyperslab Contiguous (nrange 60) ex_dims ex_h
  = Some [21; 22; 23; 24; 31; 32; 33; 34; 41; 42; 43; 44; 51; 52; 53; 54] /\
  read_hyperslab Compact (nrange 60) ex_dims ex_h
  = Some [21; 22; 23; 24; 31; 32; 33; 34; 41; 42; 43; 44; 51; 52; 53; 54].
Proof. repeat split; vm_compute; reflexivity. Qed.

Lemma nonvacuous_rejects :
  validate (H1 [18446744073709551615] [2] None None) [10] = Err /\
  validate (H1 [1] [1] None (Some [18446744073709551615])) [10] = Err /\
  validate (H1 [0] [4] (Some [3]) None) [10] = Ok /\
  validate (H1 [0] [4] (Some [3]) (Some [2])) [10] = Err /\
  slice_validate [9] [18446744073709551615] [10] = Err /\
  slice_validate [10] [0] [10] = Ok.
Proof. repeat split; vm_compute; reflexivity. Qed.

Lemma nonvacuous_iterator :
  chunk_iterator (nrange 24) [4; 6] [2; 4]
  = [([0; 0], Some [0; 1; 2; 3; 6; 7; 8; 9]); ([0; 1], Some [4; 5; 10; 11]);
     ([1; 0], Some [12; 13; 14; 15; 18; 19; 20; 21]); ([1; 1], Some [16; 17; 22; 23])].
Proof. vm_compute. reflexivity. Qed.
