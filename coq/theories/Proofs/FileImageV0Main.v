(* C01 end to end, superblock version 0: the composition, stated with the mathematical product of the extents, and a witness
   that the hypotheses are satisfiable. *)
From HV Require Import Base.Prelude Base.Outcome Base.Bytes Model.IOProg Proofs.IOProg Model.IOProgReader Model.IOProgOpen.
From HV Require Import Model.CodecSuper Model.CodecOhdr Model.CodecMsg Model.CodecType.
From HV Require Import Model.FileImage Proofs.FileImage Proofs.FileImageOhdr Proofs.FileImageData Proofs.FileImageProd
  Proofs.FileImageMain.
From HV Require Import Model.FileImageV0 Proofs.FileImageV0 Proofs.FileImageV0Group Proofs.FileImageV0Open.

Section Main.
Variable name : bytes.
Variables class size cbf : N.
Variable dims : list N.
Variable data : bytes.
Hypothesis Hname : link_name_ok name = true.
Hypothesis Hdt : basic_dtype class size cbf = true.
Hypothesis Hdims : dims_ok dims = true.
Hypothesis Hlen : blen data = product dims * size.
Hypothesis Hbound : blen data < 4294967296.
Local Notation f := (image_v0 name class size cbf dims data).

Theorem file_roundtrip0 fuel hfuel : (3 <= fuel)%nat -> (3 < hfuel)%nat ->
  run0 f (p_open true (blen f) fuel hfuel) = Ok (Grp [47] ROOT0_ADDR [Dset name (dset_addr0 data)]) /\
  run0 f p_superblock = Ok SB0' /\
  run0 f (api_read_raw SB0' hfuel (dset_addr0 data)) = Ok (RawBytes data) /\
  exists h, run0 f (p_ohdr SB0' hfuel (dset_addr0 data)) = Ok h /\ decoded_type_shape h = Ok (class, size, cbf, dims).
Proof.
  intros Hf Hh.
  pose proof (Hlen' class size cbf dims data Hdt Hdims Hlen Hbound) as HL.
  pose proof (Hpos' class size cbf dims data Hdt Hdims Hlen) as HP.
  split; [|split; [|split]].
  - destruct fuel as [|[|[|n]]]; try blia.
    apply (open_image0 name class size cbf dims data Hname Hdt Hdims HL HP Hbound (blen f / 8 + 1024)); auto. blia.
  - exact (superblock_stage0 name class size cbf dims data Hbound).
  - exact (dataset_read0 name class size cbf dims data Hname Hdt Hdims HL HP Hbound hfuel Hh).
  - exact (dataset_type_shape0 name class size cbf dims data Hname Hdt Hdims HL Hbound hfuel Hh).
Qed.

Lemma image0_length : blen f = eof_addr0 data.
Proof.
  exact (image0_len name class size cbf dims data Hname Hdt Hdims (Hlen' class size cbf dims data Hdt Hdims Hlen Hbound) Hbound).
Qed.
End Main.

Lemma file_roundtrip0_stmt : forall name class size cbf dims data fuel hfuel,
  link_name_ok name = true -> basic_dtype class size cbf = true -> dims_ok dims = true ->
  blen data = product dims * size -> blen data < 4294967296 -> (3 <= fuel)%nat -> (3 < hfuel)%nat ->
  let f := image_v0 name class size cbf dims data in
  run0 f (p_open true (blen f) fuel hfuel) = Ok (Grp [47] ROOT0_ADDR [Dset name (dset_addr0 data)]) /\
  run0 f p_superblock = Ok SB0' /\
  run0 f (api_read_raw SB0' hfuel (dset_addr0 data)) = Ok (RawBytes data) /\
  exists h, run0 f (p_ohdr SB0' hfuel (dset_addr0 data)) = Ok h /\ decoded_type_shape h = Ok (class, size, cbf, dims).
Proof. intros. now apply file_roundtrip0. Qed.

Lemma image0_length_stmt : forall name class size cbf dims data,
  link_name_ok name = true -> basic_dtype class size cbf = true -> dims_ok dims = true ->
  blen data = product dims * size -> blen data < 4294967296 ->
  blen (image_v0 name class size cbf dims data) = eof_addr0 data.
Proof. intros. now apply image0_length. Qed.

(* the superblock the reader returns is the projection of the one Close wrote; the cached root addresses in it are the ones the
   root header's symbol table message names *)
Lemma sb0_is_projection data : SB0' = proj_superblock (final_sb0 data).
Proof. reflexivity. Qed.

(* the hypotheses are satisfiable: "/d" = uint8 [1,2,3]; the image has 2033 bytes (the file the library writes, tools/props/c01filev0.py
   first case) *)
Example file_roundtrip0_witness :
  link_name_ok [100] = true /\ basic_dtype DT_FIXED 1 0 = true /\ dims_ok [3] = true /\
  blen [1; 2; 3] = product [3] * 1 /\ blen [1; 2; 3] < 4294967296 /\
  blen (image_v0 [100] DT_FIXED 1 0 [3] [1; 2; 3]) = 2033.
Proof. repeat split. Qed.
