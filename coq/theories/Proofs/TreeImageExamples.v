(* C03 end to end, evaluated instances (vm_compute): the hypotheses of the stage theorems are satisfiable, the byte-level step
   model specialises to the C01 image, and on a nested history with refused calls and hard links hdf5.Open's loader program run
   on the model's image returns the tree that was built. *)
From HV Require Import Base.Prelude Base.Outcome Base.Bytes Model.IOProg Model.IOProgReader Model.IOProgOpen.
From HV Require Import Model.CodecType Model.GroupWire Model.FileImage Model.TreeImage.
From HV Require Import Proofs.GroupWireSnod Proofs.FileImage Proofs.TreeImageLink.

Local Open Scope N_scope.

(* "/d", uint8, [3], 1 2 3 : the one-dataset history gives exactly the image of Props/C01File.v *)
Lemma one_dataset_is_image_v2 :
  tree_oks [TDataset [47; 100] 4 [3] [1; 2; 3]] = [true] /\
  tree_image [TDataset [47; 100] 4 [3] [1; 2; 3]] = image_v2 [100] DT_FIXED 1 0 [3] [1; 2; 3].
Proof. vm_compute. split; reflexivity. Qed.

(* CreateGroup /g; CreateDataset /g/d; the same again (refused: duplicate); CreateHardLink /x -> /g/d; CreateGroup /g/h;
   CreateHardLink /g/h/y -> /x; CreateGroup /q/r (refused: no parent); CreateHardLink /z -> /nothing (refused: no target) *)
Definition ex_hist : list top :=
  [TGroup [47; 103]; TDataset [47; 103; 47; 100] 4 [3] [1; 2; 3]; TDataset [47; 103; 47; 100] 4 [3] [1; 2; 3];
   THardLink [47; 120] [47; 103; 47; 100]; TGroup [47; 103; 47; 104]; THardLink [47; 103; 47; 104; 47; 121] [47; 120];
   TGroup [47; 113; 47; 114]; THardLink [47; 122] [47; 110]].

Lemma tree_example :
  forallb op_args_ok ex_hist = true /\
  tree_oks ex_hist = [true; true; false; true; true; true; false; false] /\
  blen (tree_image ex_hist) = 7224 /\
  run0 (tree_image ex_hist) (p_open true (blen (tree_image ex_hist)) 12 8) =
    Ok (Grp [47] 2168 [Grp [103] 4315 [Dset [100] 4580; Grp [104] 6962 [Dset [121] 4580]]; Dset [120] 4580]).
Proof. vm_compute. repeat split; reflexivity. Qed.

(* the root group of a fresh file is a group_file: the hypotheses of link_both_commutes are satisfiable, and on it the model's
   linkToParent is the composed rewrite *)
Lemma link_example :
  init_file = group_file (firstn 48 init_file) [] (skipn 1624 init_file) (zeros 256) (new_snode 32) /\
  snode_ok (new_snode 32) = true /\
  prepare_link t_init [] [100] 2195 = Ok (48, 336) /\
  link_to_parent t_init [] [100] 2195 = link_both init_file 48 336 [100] 2195.
Proof. vm_compute. repeat split; reflexivity. Qed.
