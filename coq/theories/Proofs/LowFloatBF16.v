(* C20, bfloat16 half: the bit trick of Float32ToBFloat16 is round-to-nearest-even on the bit
   pattern (rne16), and rounding the pattern is rounding the value because X32 is piecewise linear. *)
From HV Require Import Base.Prelude Model.LowFloat Model.LowFloatTie Proofs.LowFloatBase.

(* round the 32-bit pattern to the nearest multiple of 2^16, ties to the even quotient *)
Definition rne16 (x : N) : N :=
  let q := x / 65536 in let r := x mod 65536 in
  if r <? 32768 then q else if 32768 <? r then q + 1 else if N.even q then q else q + 1.

Lemma rne16_rne_shift x : rne16 x = rne_shift x 16.
Proof. reflexivity. Qed.

Lemma rne16_cases x :
  exists q r, x = 65536 * q + r /\ r < 65536 /\
    ((rne16 x = q /\ (r < 32768 \/ (r = 32768 /\ N.even q = true))) \/
     (rne16 x = q + 1 /\ (32768 < r \/ (r = 32768 /\ N.even q = false)))).
Proof.
  exists (x / 65536), (x mod 65536). unfold rne16.
  split; [apply N.div_mod; lia|]. split; [apply N.mod_lt; lia|].
  destruct (N.ltb_spec (x mod 65536) 32768); [left; split; [reflexivity|lia]|].
  destruct (N.ltb_spec 32768 (x mod 65536)); [right; split; [reflexivity|lia]|].
  destruct (N.even (x / 65536)); [left|right]; (split; [reflexivity|lia]).
Qed.

Lemma rne16_mono a b : a <= b -> rne16 a <= rne16 b.
Proof. rewrite !rne16_rne_shift. apply rne_shift_mono. Qed.

Lemma nan_test x : x < 4294967296 -> N.land x 2147483647 = f32_mag x.
Proof. intros _. change 2147483647 with (2 ^ 31 - 1). rewrite land_ones'. reflexivity. Qed.

(* the non-NaN branch: the bit trick is rne16 (spike_BF16.v) *)
Lemma bf16_enc_num x : x < 4294967296 -> f32_mag x <= 2139095040 -> bf16_enc x = rne16 x.
Proof.
  intros Hx Hm. unfold bf16_enc. rewrite nan_test by exact Hx.
  replace (2139095040 <? f32_mag x) with false by (symmetry; apply N.ltb_ge; exact Hm).
  unfold f32_mag in Hm. unfold rne16, wrap16, wrap32.
  change 32768 with (2 ^ 15). change 65536 with (2 ^ 16). change 32767 with (2 ^ 15 - 1).
  rewrite land_ones', !bit_test, !N.shiftr_div_pow2.
  change (2 ^ 16) with 65536 in *. change (2 ^ 15) with 32768 in *.
  destruct (even_cases (x / 32768)) as [[E1 [k Hk]]|[E1 [k Hk]]]; rewrite E1; cbn [negb].
  - replace (x mod 65536 <? 32768) with true by (symmetry; apply N.ltb_lt; lia). lia.
  - destruct (N.eqb_spec (x mod 32768) 0) as [E2|E2]; cbn [negb].
    + assert (x mod 65536 = 32768) by lia.
      replace (x mod 65536 <? 32768) with false by (symmetry; apply N.ltb_ge; lia).
      replace (32768 <? x mod 65536) with false by (symmetry; apply N.ltb_ge; lia).
      destruct (N.even (x / 65536)); cbn [negb]; lia.
    + replace (x mod 65536 <? 32768) with false by (symmetry; apply N.ltb_ge; lia).
      replace (32768 <? x mod 65536) with true by (symmetry; apply N.ltb_lt; lia). lia.
Qed.

(* the NaN branch: upper half with the quiet bit forced *)
Lemma bf16_enc_nan x : x < 4294967296 -> 2139095040 < f32_mag x ->
  bf16_enc x = if N.even (x / 65536 / 64) then x / 65536 + 64 else x / 65536.
Proof.
  intros Hx Hm. unfold bf16_enc. rewrite nan_test by exact Hx.
  replace (2139095040 <? f32_mag x) with true by (symmetry; apply N.ltb_lt; exact Hm).
  unfold wrap16. rewrite N.shiftr_div_pow2. change (2 ^ 16) with 65536.
  change 64 with (2 ^ 6) at 1. rewrite lor_pow2. change (2 ^ 6) with 64.
  unfold f32_mag in Hm.
  destruct (even_cases (x / 65536 / 64)) as [[E [k Hk]]|[E [k Hk]]]; rewrite E; lia.
Qed.

(* ------------------------------------------------------------------ monotone / run lifting *)
Lemma bf16_mono a b : a <= b -> b <= 2139095040 -> bf16_enc a <= bf16_enc b.
Proof.
  intros Hab Hb. rewrite !bf16_enc_num by (try rewrite mag_small; lia). apply rne16_mono, Hab.
Qed.

Lemma seg_cases x :
  (seg x = 0 /\ x <= 2139095040) \/ (seg x = 1 /\ 2139095040 < x < 2147483648) \/
  (seg x = 2 /\ 2147483648 <= x <= 4286578688) \/ (seg x = 3 /\ 4286578688 < x).
Proof.
  unfold seg.
  destruct (N.leb_spec x 2139095040); [lia|].
  destruct (N.ltb_spec x 2147483648); [lia|].
  destruct (N.leb_spec x 4286578688); lia.
Qed.

Lemma run_ok_inv enc s e c : run_ok enc (s, e, c) = true -> s <= e /\ seg s = seg e /\ enc s = c /\ enc e = c.
Proof.
  unfold run_ok. intro H. repeat (apply andb_prop in H; destruct H as [H ?]).
  repeat split; try apply N.eqb_eq; try apply N.leb_le; assumption.
Qed.

Lemma bf16_run_lifting s e c x :
  run_ok_bf16 (s, e, c) = true -> s <= x -> x <= e -> x < 4294967296 -> bf16_enc x = c.
Proof.
  unfold run_ok_bf16. intros H Hsx Hxe Hx. apply andb_prop in H. destruct H as [H Hblk].
  apply run_ok_inv in H. destruct H as (Hse & Hseg & Hs & He).
  destruct (seg_cases s) as [[S Rs]|[[S Rs]|[[S Rs]|[S Rs]]]], (seg_cases e) as [[S' Re]|[[S' Re]|[[S' Re]|[S' Re]]]];
    try (exfalso; lia); rewrite S in Hblk; cbn [N.even orb] in Hblk.
  - (* +numbers *)
    assert (bf16_enc s <= bf16_enc x) by (apply bf16_mono; lia).
    assert (bf16_enc x <= bf16_enc e) by (apply bf16_mono; lia). lia.
  - (* +NaN, one block *)
    apply N.eqb_eq in Hblk. rewrite <- Hs.
    rewrite !bf16_enc_nan by (try rewrite mag_small; lia).
    replace (x / 65536) with (s / 65536) by lia. reflexivity.
  - (* -numbers *)
    assert (Hmx : f32_mag x <= 2139095040) by (unfold f32_mag; lia).
    assert (Hms : f32_mag s <= 2139095040) by (unfold f32_mag; lia).
    assert (Hme : f32_mag e <= 2139095040) by (unfold f32_mag; lia).
    rewrite bf16_enc_num in * by lia.
    assert (rne16 s <= rne16 x) by (apply rne16_mono; lia).
    assert (rne16 x <= rne16 e) by (apply rne16_mono; lia). lia.
  - (* -NaN, one block *)
    apply N.eqb_eq in Hblk. rewrite <- Hs.
    rewrite !bf16_enc_nan by (unfold f32_mag; lia).
    replace (x / 65536) with (s / 65536) by lia. reflexivity.
Qed.

(* plain end-point agreement is enough on the number segments ... *)
Lemma bf16_run_lifting_num s e c x :
  run_ok bf16_enc (s, e, c) = true -> N.even (seg s) = true ->
  s <= x -> x <= e -> x < 4294967296 -> bf16_enc x = c.
Proof.
  intros H Ev. apply bf16_run_lifting. unfold run_ok_bf16. rewrite H, Ev. reflexivity.
Qed.

(* ... but not on the NaN segments: 0x7F800001 and 0x7FC0FFFF both give 0x7FC0, 0x7F810000 gives 0x7FC1 *)
Lemma bf16_run_lifting_plain_refuted :
  exists s e c x, run_ok bf16_enc (s, e, c) = true /\ s <= x /\ x <= e /\ x < 4294967296 /\ bf16_enc x <> c.
Proof.
  exists 2139095041, 2143354879, 32704, 2139160576.
  split; [vm_compute; reflexivity|]. repeat split; try lia. vm_compute. discriminate.
Qed.

(* ------------------------------------------------------------------ sign symmetry *)
Lemma bf16_sign x : x < 2147483648 -> f32_is_nan x = false ->
  bf16_enc (x + 2147483648) = bf16_enc x + 32768.
Proof.
  unfold f32_is_nan. intros Hx Hn. apply N.ltb_ge in Hn. rewrite mag_small in Hn by exact Hx.
  rewrite (bf16_enc_num x) by (try rewrite mag_small; lia).
  rewrite (bf16_enc_num (x + 2147483648)) by (try rewrite mag_neg; lia).
  destruct (rne16_cases x) as (q & r & Hq & Hr & C).
  destruct (rne16_cases (x + 2147483648)) as (q' & r' & Hq' & Hr' & C').
  assert (q' = q + 32768) by lia. subst q'. assert (r' = r) by lia. subst r'.
  assert (Hev : N.even (q + 32768) = N.even q).
  { replace (q + 32768) with (q + 2 * 16384) by lia. apply N.even_add_mul_2. }
  rewrite Hev in C'.
  destruct C as [[-> C]|[-> C]], C' as [[-> C']|[-> C']]; try lia;
    destruct C as [C|[C E]], C' as [C'|[C' E']]; try lia; congruence.
Qed.

(* ------------------------------------------------------------------ round trips, NaN *)
Lemma bf16_code_roundtrip c : c < 65536 -> c mod 32768 <= 32640 -> bf16_enc (bf16_dec c) = c.
Proof.
  intros Hc Hn. unfold bf16_dec. rewrite N.mod_small by lia.
  rewrite bf16_enc_num by (unfold f32_mag; lia).
  destruct (rne16_cases (c * 65536)) as (q & r & Hq & Hr & C).
  assert (q = c) by lia. subst q. assert (r = 0) by lia. subst r.
  destruct C as [[-> _]|[_ C]]; lia.
Qed.

Lemma bf16_nan_stays_nan x : x < 4294967296 -> f32_is_nan x = true -> 32640 < (bf16_enc x) mod 32768.
Proof.
  unfold f32_is_nan. intros Hx Hn. apply N.ltb_lt in Hn.
  rewrite bf16_enc_nan by assumption. unfold f32_mag in Hn.
  destruct (even_cases (x / 65536 / 64)) as [[E [k Hk]]|[E [k Hk]]]; rewrite E; lia.
Qed.

Lemma bf16_no_nan_confusion x : x < 4294967296 -> f32_is_nan x = false -> (bf16_enc x) mod 32768 <= 32640.
Proof.
  unfold f32_is_nan. intros Hx Hn. apply N.ltb_ge in Hn.
  rewrite bf16_enc_num by assumption. unfold f32_mag in Hn.
  destruct (rne16_cases x) as (q & r & Hq & Hr & C).
  assert (Hm : x mod 2147483648 = 65536 * (q mod 32768) + r).
  { symmetry. apply (N.mod_unique _ _ (q / 32768)); lia. }
  rewrite Hm in Hn. clear Hm.
  destruct C as [[-> _]|[-> C]]; [lia|].
  assert (q mod 32768 < 32640) by lia. lia.
Qed.

Lemma bf16_bytes_roundtrip c : c < 65536 -> bf16_unbytes (bf16_bytes c) = c.
Proof.
  intro Hc. unfold bf16_unbytes, bf16_bytes. cbn [le unle]. lia.
Qed.

(* ------------------------------------------------------------------ nearest-even in value *)
Definition Vbf (d : N) : N := X32 (d * 65536).

Lemma Vbf_mono infc : grid_mono Vbf infc.
Proof. intros i j Hij _. unfold Vbf. apply X32_mono_strict. lia. Qed.

Lemma bf16_rne mag : mag <= 2139095040 -> bf16_rne_ok mag (bf16_enc mag) = true.
Proof.
  intro Hm. unfold bf16_rne_ok. fold Vbf.
  rewrite bf16_enc_num by (try rewrite mag_small; lia).
  destruct (N.eq_dec mag 2139095040) as [->|Hne].
  { (* the infinity pattern itself *)
    replace (rne16 2139095040) with 32640 by (vm_compute; reflexivity).
    apply rne_spec_overflow; [apply Vbf_mono|lia|]. unfold Vbf. apply X32_mono. lia. }
  destruct (rne16_cases mag) as (q & r & Hq & Hr & C).
  assert (Hq0 : q < 32640) by lia.
  replace (rne16 mag) with (if 32640 <=? rne16 mag then 32640 else rne16 mag)
    by (destruct (N.leb_spec 32640 (rne16 mag)); lia).
  apply (rne_spec_bracket Vbf 32640 32640 (X32 mag) q (rne16 mag) (Vbf q) (ulp32 (q * 65536)) r 65536).
  - apply Vbf_mono.
  - reflexivity.
  - exact Hq0.
  - apply pow2_pos.
  - lia.
  - reflexivity.
  - unfold Vbf. replace ((q + 1) * 65536) with (q * 65536 + 65536) by lia. apply X32_lin. lia.
  - unfold Vbf. replace mag with (q * 65536 + r) by lia. apply X32_lin. lia.
  - destruct C as [[-> C]|[-> C]]; [left|right]; (split; [reflexivity|]);
      (destruct C as [C|[C E]]; [left; lia|right; split; [lia|exact E]]).
Qed.

(* ------------------------------------------------------------------ hypotheses are satisfiable *)
(* 1.00390625 = 0x3F808000 is a tie between 0x3F80 (even) and 0x3F81: goes down; 0x3F818000 goes up *)
Example bf16_tie_down : bf16_enc 1065385984 = 16256. Proof. vm_compute. reflexivity. Qed.
Example bf16_tie_up : bf16_enc 1065451520 = 16258. Proof. vm_compute. reflexivity. Qed.
(* carry through the whole mantissa into the exponent: 0x3FFFFFFF -> 0x4000 (2.0) *)
Example bf16_carry : bf16_enc 1073741823 = 16384. Proof. vm_compute. reflexivity. Qed.
(* largest finite float32 rounds to infinity 0x7F80, as IEEE demands *)
Example bf16_overflow : bf16_enc 2139095039 = 32640. Proof. vm_compute. reflexivity. Qed.
Example bf16_run_example : run_ok_bf16 (1065320449, 1065385984, 16256) = true. Proof. vm_compute. reflexivity. Qed.
Example bf16_nan_example : f32_is_nan 2139095041 = true /\ bf16_enc 2139095041 = 32704. Proof. vm_compute. auto. Qed.
