(* C09 at file level: the selection validation of Model/IOProgSlice.v (validate, validate_slice: boolean checks per
   dimension INDEX) computes the same verdict as the validation of Model/Hyperslab.v (Hs.validate, Hs.slice_validate:
   structural loops with SafeMultiply / wrap64 / sub64), and the selection it returns is the filled selection whose axes
   are Hs.axes_of.  Only the counts and the dataset extents have to be uint64 values (the hypotheses of the task,
   u64_sel and Forall u64 dims, imply that). *)
From HV Require Import Base.Prelude Base.Outcome Base.Bytes Model.IOProg Model.IOProgReader Model.IOProgSlice Model.SliceRefine.
From HV Require Proofs.HyperslabBase Proofs.HyperslabValidate.
Module HVa := HV.Proofs.HyperslabValidate.

Definition okb (r : Hs.vres) : bool := match r with Hs.Ok => true | Hs.Err => false end.

(* ------------------------------------------------------------------ 3. the filled selection *)
Lemma axes_of_fill s n : axes_of_sel (fill s n) = Hs.axes_of (hsel_of s) n.
Proof. reflexivity. Qed.

Lemma fill_lens s dims : validate s dims <> None -> sel_lens (fill s (length dims)) (length dims).
Proof.
  unfold validate, sel_lens, fill. destruct s as [st cn osr obl]; cbn [s_start s_count s_stride s_block start count stride block].
  destruct (Nat.eqb_spec (length st) (length dims)); cbn [andb negb]; [|congruence].
  destruct (Nat.eqb_spec (length cn) (length dims)); cbn [andb negb]; [|congruence].
  destruct osr as [sr|]; [destruct (Nat.eqb_spec (length sr) (length dims)); cbn [andb negb]; [|congruence]|];
  (destruct obl as [bl|]; [destruct (Nat.eqb_spec (length bl) (length dims)); cbn [andb negb]; [|congruence]|]);
  intros _; rewrite ?repeat_length; repeat split; assumption.
Qed.

(* ------------------------------------------------------------------ one dimension *)
Lemma safe_multiply_none a b : Hs.u64max < a * b -> Hs.safe_multiply a b = None.
Proof.
  intros H. destruct (Hs.safe_multiply a b) as [m|] eqn:E; [|reflexivity].
  apply HVa.safe_multiply_some in E. lia.
Qed.

Definition vhbB (s c sr d : N) : bool :=
  negb (c =? 0) && ((c - 1) * sr <? 18446744073709551616) && negb ((d <=? s) || (d - s <=? (c - 1) * sr)).
Definition vdbB (s c sr b d : N) : bool :=
  negb (c =? 0) && negb (sr =? 0) && negb (b =? 0) &&
  negb ((d <=? wrap64 (s + wrap64 ((c - 1) * sr))) || (d - wrap64 (s + wrap64 ((c - 1) * sr)) <? b)).
Definition slB (s c d : N) : bool := negb ((d <? c) || (d - c <? s)).

Lemma vhb_pt s c sr d : Hs.u64 c -> Hs.u64 d -> okb (Hs.vhb_dim true s c sr d) = vhbB s c sr d.
Proof.
  unfold Hs.vhb_dim, vhbB, Hs.u64. intros Hc Hd.
  destruct (N.eqb_spec c 0) as [|Hc0]; cbn [negb andb]; [reflexivity|].
  rewrite HVa.sub64_small by (try assumption; lia).
  destruct (N.ltb_spec ((c - 1) * sr) 18446744073709551616) as [Hlt|Hge]; cbn [andb].
  - rewrite HVa.safe_multiply_ok by (unfold Hs.u64max; lia).
    destruct (N.leb_spec d s); cbn [orb negb okb]; [reflexivity|].
    rewrite HVa.sub64_small by (try assumption; lia).
    destruct (N.leb_spec (d - s) ((c - 1) * sr)); reflexivity.
  - rewrite safe_multiply_none by (unfold Hs.u64max; lia). reflexivity.
Qed.

Lemma vdb_pt s c sr b d : Hs.u64 c -> Hs.u64 d -> okb (Hs.vdb_dim true (Hs.mkAxis s c sr b) d) = vdbB s c sr b d.
Proof.
  unfold Hs.vdb_dim, vdbB, Hs.u64. cbn [Hs.a_start Hs.a_count Hs.a_stride Hs.a_block]. intros Hc Hd.
  destruct (N.eqb_spec c 0) as [|Hc0]; cbn [negb andb]; [reflexivity|].
  destruct (N.eqb_spec sr 0) as [|Hsr]; cbn [negb andb]; [reflexivity|].
  destruct (N.eqb_spec b 0) as [|Hb]; cbn [negb andb]; [reflexivity|].
  rewrite (HVa.sub64_small c 1) by (try assumption; lia).
  destruct (N.leb_spec d (wrap64 (s + wrap64 ((c - 1) * sr)))); cbn [orb negb okb]; [reflexivity|].
  rewrite HVa.sub64_small by (try assumption; lia).
  destruct (N.ltb_spec (d - wrap64 (s + wrap64 ((c - 1) * sr))) b); reflexivity.
Qed.

Lemma slice_pt s c d : Hs.u64 d -> okb (Hs.slice_dim true s c d) = slB s c d.
Proof.
  unfold Hs.slice_dim, slB, Hs.u64. intros Hd.
  destruct (N.ltb_spec d c); cbn [orb negb okb]; [reflexivity|].
  rewrite HVa.sub64_small by (try assumption; lia).
  destruct (N.ltb_spec (d - c) s); reflexivity.
Qed.

(* ------------------------------------------------------------------ CalculateHyperslabElements *)
Definition che_step (t : option N) (c : N) : option N :=
  match t with
  | Some t => if (c =? 0) || (18446744073709551616 <=? t * c) then None else Some (t * c)
  | None => None
  end.

Lemma che_fold_none cs : fold_left che_step cs None = None.
Proof. induction cs; cbn [fold_left che_step]; [reflexivity|assumption]. Qed.

Lemma che_fold : forall cs t, fold_left che_step cs (Some t) = Hs.che_loop t cs.
Proof.
  induction cs as [|c r IH]; intros t; cbn [fold_left Hs.che_loop che_step]; [reflexivity|].
  destruct (N.eqb_spec c 0); cbn [orb]; [apply che_fold_none|].
  destruct (N.leb_spec 18446744073709551616 (t * c)).
  - rewrite safe_multiply_none by (unfold Hs.u64max; lia). apply che_fold_none.
  - rewrite HVa.safe_multiply_ok by (unfold Hs.u64max; lia). apply IH.
Qed.

Lemma che_refines cs : che cs = okb (Hs.calculate_hyperslab_elements cs).
Proof.
  unfold che, Hs.calculate_hyperslab_elements. destruct cs as [|c r]; [reflexivity|].
  change (fold_left _ (c :: r) (Some 1)) with (fold_left che_step (c :: r) (Some 1)).
  rewrite che_fold. destruct (Hs.che_loop 1 (c :: r)) as [t|]; [|reflexivity].
  unfold Hs.max_hyperslab_elements.
  destruct (N.eqb_spec t 0); cbn [orb negb andb okb]; [reflexivity|].
  destruct (N.ltb_spec 1000000000 t), (N.leb_spec t 1000000000); try reflexivity; lia.
Qed.

(* ------------------------------------------------------------------ index loops as structural loops *)
Fixpoint all5 (F : N -> N -> N -> N -> N -> bool) (a b c d e : list N) : bool :=
  match a, b, c, d, e with
  | a0 :: a', b0 :: b', c0 :: c', d0 :: d', e0 :: e' => F a0 b0 c0 d0 e0 && all5 F a' b' c' d' e'
  | _, _, _, _, _ => true
  end.

Lemma forallb_map' {A B} (f : B -> bool) (g : A -> B) (l : list A) :
  forallb f (map g l) = forallb (fun x => f (g x)) l.
Proof. induction l as [|x l IH]; cbn [map forallb]; [reflexivity|rewrite IH; reflexivity]. Qed.

Lemma forallb_seq5 F : forall e a b c d,
  length a = length e -> length b = length e -> length c = length e -> length d = length e ->
  forallb (fun i => F (nthN a i) (nthN b i) (nthN c i) (nthN d i) (nthN e i)) (seq 0 (length e)) = all5 F a b c d e.
Proof.
  induction e as [|e0 e IH]; intros [|a0 a] [|b0 b] [|c0 c] [|d0 d] La Lb Lc Ld;
    cbn [length] in *; try discriminate; [reflexivity|].
  cbn [seq forallb all5]. f_equal.
  rewrite <- seq_shift, forallb_map'. apply IH; lia.
Qed.

Lemma all5_vhb : forall e a b c d,
  length a = length e -> length b = length e -> length c = length e -> length d = length e ->
  Forall Hs.u64 b -> Forall Hs.u64 e ->
  all5 (fun s cn sr _ dm => vhbB s cn sr dm) a b c d e = okb (Hs.vhb_loop true a b c e).
Proof.
  induction e as [|e0 e IH]; intros [|a0 a] [|b0 b] [|c0 c] [|d0 d] La Lb Lc Ld Ub Ue;
    cbn [length] in *; try discriminate; [reflexivity|].
  inversion Ub; inversion Ue; subst. cbn [all5 Hs.vhb_loop].
  rewrite <- vhb_pt by assumption.
  destruct (Hs.vhb_dim true a0 b0 c0 e0); cbn [okb andb]; [apply IH; try assumption; lia|reflexivity].
Qed.

Lemma all5_vdb : forall e a b c d,
  length a = length e -> length b = length e -> length c = length e -> length d = length e ->
  Forall Hs.u64 b -> Forall Hs.u64 e ->
  all5 vdbB a b c d e = okb (Hs.vdb_loop true (Hs.zip4 a b c d) e).
Proof.
  induction e as [|e0 e IH]; intros [|a0 a] [|b0 b] [|c0 c] [|d0 d] La Lb Lc Ld Ub Ue;
    cbn [length] in *; try discriminate; [reflexivity|].
  inversion Ub; inversion Ue; subst. cbn [all5 Hs.vdb_loop Hs.zip4].
  rewrite <- vdb_pt by assumption.
  destruct (Hs.vdb_dim true _ e0); cbn [okb andb]; [apply IH; try assumption; lia|reflexivity].
Qed.

Lemma all5_slice : forall e a b c d,
  length a = length e -> length b = length e -> length c = length e -> length d = length e ->
  Forall Hs.u64 e ->
  all5 (fun s cn _ _ dm => slB s cn dm) a b c d e = okb (Hs.slice_loop true a b e).
Proof.
  induction e as [|e0 e IH]; intros [|a0 a] [|b0 b] [|c0 c] [|d0 d] La Lb Lc Ld Ue;
    cbn [length] in *; try discriminate; [reflexivity|].
  inversion Ue; subst. cbn [all5 Hs.slice_loop].
  rewrite <- slice_pt by assumption.
  destruct (Hs.slice_dim true a0 b0 e0); cbn [okb andb]; [apply IH; try assumption; lia|reflexivity].
Qed.

(* the three checks of validateHyperslabSelection after the length checks, on a filled selection *)
Lemma checks_refine st cn sr bl dims :
  length st = length dims -> length cn = length dims -> length sr = length dims -> length bl = length dims ->
  Forall Hs.u64 cn -> Forall Hs.u64 dims ->
  let f := {| start := st; count := cn; stride := sr; block := bl |} in
  forallb (vhb_dim f dims) (idxs dims) && che (count f) && forallb (vdb_dim f dims) (idxs dims) =
  okb (match Hs.vhb_loop true st cn sr dims with Hs.Err => Hs.Err | Hs.Ok =>
       match Hs.calculate_hyperslab_elements cn with Hs.Err => Hs.Err | Hs.Ok =>
       Hs.vdb_loop true (Hs.zip4 st cn sr bl) dims end end).
Proof.
  intros L1 L2 L3 L4 Uc Ud f. unfold idxs.
  change (forallb (vhb_dim f dims)) with
    (forallb (fun i => (fun s c r _ d => vhbB s c r d) (nthN st i) (nthN cn i) (nthN sr i) (nthN bl i) (nthN dims i))).
  change (forallb (vdb_dim f dims)) with
    (forallb (fun i => vdbB (nthN st i) (nthN cn i) (nthN sr i) (nthN bl i) (nthN dims i))).
  rewrite !forallb_seq5 by assumption.
  rewrite all5_vhb, all5_vdb by assumption. cbn [count f]. rewrite che_refines.
  destruct (Hs.vhb_loop true st cn sr dims); cbn [okb andb]; [|reflexivity].
  destruct (Hs.calculate_hyperslab_elements cn); cbn [okb andb]; reflexivity.
Qed.

Lemma after_lens st cn sr bl dims :
  length st = length dims -> length cn = length dims -> length sr = length dims -> length bl = length dims ->
  Forall Hs.u64 cn -> Forall Hs.u64 dims ->
  let f := {| start := st; count := cn; stride := sr; block := bl |} in
  (if forallb (vhb_dim f dims) (idxs dims) && che (count f) && forallb (vdb_dim f dims) (idxs dims)
   then Some f else None) =
  match (match Hs.validate_hyperslab_bounds true st cn sr dims with Hs.Err => Hs.Err | Hs.Ok =>
         match Hs.calculate_hyperslab_elements cn with Hs.Err => Hs.Err | Hs.Ok =>
         Hs.vdb_loop true (Hs.zip4 st cn sr bl) dims end end)
  with Hs.Ok => Some f | Hs.Err => None end.
Proof.
  intros L1 L2 L3 L4 Uc Ud f. subst f.
  rewrite (checks_refine st cn sr bl dims L1 L2 L3 L4 Uc Ud).
  unfold Hs.validate_hyperslab_bounds. rewrite L1, L2, L3, !Nat.eqb_refl. cbn [andb negb].
  destruct (Hs.vhb_loop true st cn sr dims); cbn [okb]; [|reflexivity].
  destruct (Hs.calculate_hyperslab_elements cn); cbn [okb]; [|reflexivity].
  destruct (Hs.vdb_loop true (Hs.zip4 st cn sr bl) dims); reflexivity.
Qed.

(* ------------------------------------------------------------------ 1. validateHyperslabSelection *)
Lemma validate_refines s dims :
  Forall Hs.u64 dims -> HVa.u64_sel (hsel_of s) (length dims) ->
  validate s dims = match Hs.validate (hsel_of s) dims with Hs.Ok => Some (fill s (length dims)) | Hs.Err => None end.
Proof.
  intros Ud (_ & Uc & _ & _).
  destruct s as [st cn osr obl]. unfold hsel_of in *. cbn [s_start s_count s_stride s_block Hs.h_count] in *.
  unfold validate, Hs.validate, Hs.validate_gen, Hs.validate_selection_dimensions.
  cbn [s_start s_count s_stride s_block Hs.h_start Hs.h_count Hs.h_stride Hs.h_block].
  destruct (Nat.eqb_spec (length st) (length dims)) as [L1|]; cbn [andb negb]; [|reflexivity].
  destruct (Nat.eqb_spec (length cn) (length dims)) as [L2|]; cbn [andb negb]; [|reflexivity].
  destruct osr as [sr|]; [destruct (Nat.eqb_spec (length sr) (length dims)) as [L3|]; cbn [andb negb]; [|reflexivity]|];
  (destruct obl as [bl|]; [destruct (Nat.eqb_spec (length bl) (length dims)) as [L4|]; cbn [andb negb]; [|reflexivity]|]).
  - exact (after_lens st cn sr bl dims L1 L2 L3 L4 Uc Ud).
  - exact (after_lens st cn sr (repeat 1 (length dims)) dims L1 L2 L3 (repeat_length _ _) Uc Ud).
  - exact (after_lens st cn (repeat 1 (length dims)) bl dims L1 L2 (repeat_length _ _) L4 Uc Ud).
  - exact (after_lens st cn (repeat 1 (length dims)) (repeat 1 (length dims)) dims L1 L2 (repeat_length _ _) (repeat_length _ _) Uc Ud).
Qed.

(* ------------------------------------------------------------------ 4. the second validation inside readHyperslab *)
Lemma validate_refill s dims :
  Forall Hs.u64 dims -> HVa.u64_sel (hsel_of s) (length dims) ->
  Hs.validate (hsel_of s) dims = Hs.Ok ->
  validate (refill (fill s (length dims))) dims = Some (fill s (length dims)).
Proof.
  intros Ud U V.
  assert (V' : Hs.validate (hsel_of (refill (fill s (length dims)))) dims = Hs.Ok).
  { unfold Hs.validate, Hs.validate_gen in *.
    destruct (Hs.validate_selection_dimensions (hsel_of s) (length dims)) eqn:E; [|discriminate].
    apply HVa.vsd_ok in E.
    assert (E' : Hs.validate_selection_dimensions (hsel_of (refill (fill s (length dims)))) (length dims) = Hs.Ok).
    { apply HVa.vsd_ok. destruct s as [st cn osr obl]. exact E. }
    rewrite E'. destruct s as [st cn osr obl]. exact V. }
  rewrite validate_refines; [rewrite V'; destruct s as [st cn osr obl]; reflexivity|assumption|].
  destruct s as [st cn osr obl]. exact U.
Qed.

(* ------------------------------------------------------------------ 2. the bounds loop of ReadSlice *)
Lemma validate_slice_refines st cn dims :
  Forall Hs.u64 dims -> Forall Hs.u64 st -> Forall Hs.u64 cn ->
  validate_slice st cn dims =
  match Hs.slice_validate st cn dims with
  | Hs.Ok => Some (fill {| s_start := st; s_count := cn; s_stride := None; s_block := None |} (length dims))
  | Hs.Err => None
  end.
Proof.
  intros Ud _ _. unfold validate_slice, Hs.slice_validate, Hs.slice_validate_gen.
  destruct (Nat.eqb_spec (length st) (length dims)) as [L1|]; cbn [andb negb]; [|reflexivity].
  destruct (Nat.eqb_spec (length cn) (length dims)) as [L2|]; cbn [andb negb]; [|reflexivity].
  unfold idxs. rewrite L1.
  change (forallb (fun i => negb ((nthN dims i <? nthN cn i) || (nthN dims i - nthN cn i <? nthN st i))))
    with (forallb (fun i => (fun s c _ _ d => slB s c d) (nthN st i) (nthN cn i) (nthN st i) (nthN st i) (nthN dims i))).
  rewrite forallb_seq5, all5_slice by assumption.
  destruct (Hs.slice_loop true st cn dims); reflexivity.
Qed.

Print Assumptions axes_of_fill.
Print Assumptions fill_lens.
Print Assumptions validate_refines.
Print Assumptions validate_refill.
Print Assumptions validate_slice_refines.
