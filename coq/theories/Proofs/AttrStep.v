(* One WriteAttribute / DeleteAttribute call of Model/Attr.v refines one step of a name -> value map:
   representation relation [Rep], abstract effect [eff], and the per-function refinement lemmas. *)
From HV Require Import Base.Prelude Model.Attr Proofs.AttrBase Proofs.AttrDense.
From Coq Require Import Permutation.

Section Step.
Variable name_hash : bytes -> N.
Variable P : params.
Hypothesis Hcap : p_hcap P <= 65536.

Notation dense_rep := (dense_rep name_hash P).
Notation rec_ok := (rec_ok name_hash).

(* [l] = the attribute list the reader returns for storage state [st] *)
Definition Rep (st : state) (l : list attr) : Prop :=
  match st with
  | Compact attrs => l = attrs
  | Dense ix hp => dense_rep ix hp l
  | Broken => False
  end.

Lemma rep_read : forall st l, Rep st l -> read_attrs st = Some l.
Proof.
  intros [attrs|ix hp|] l R; cbn [Rep read_attrs] in *.
  - congruence.
  - destruct R as [F _]. eapply read_dense_rep. exact F.
  - destruct R.
Qed.

(* every stored attribute is one EncodeAttributeMessage accepted *)
Definition EncAll (l : list attr) : Prop := forall x, In x l -> exists s, encode_attr x = EncOk s.

Lemma enc_ok_name : forall x s, encode_attr x = EncOk s -> aname x <> [] /\ blen (aname x) < 65535.
Proof.
  intros x s H. unfold encode_attr in H. destruct (aname x) as [|b t] eqn:E; [discriminate|].
  split; [discriminate|]. destruct (N.leb_spec 65535 (blen (b :: t))); [discriminate | assumption].
Qed.

Lemma EncAll_nonempty : forall l, EncAll l -> ~ In [] (map aname l).
Proof.
  intros l E HI. apply in_map_iff in HI. destruct HI as [x [Ex HI]]. destruct (E x HI) as [s Hs].
  apply enc_ok_name in Hs. tauto.
Qed.

Lemma EncAll_app : forall l1 l2, EncAll (l1 ++ l2) <-> EncAll l1 /\ EncAll l2.
Proof.
  intros l1 l2. unfold EncAll. split.
  - intro H. split; intros x HI; apply H; apply in_or_app; tauto.
  - intros [H1 H2] x HI. apply in_app_or in HI. destruct HI; [apply H1 | apply H2]; assumption.
Qed.

Lemma EncAll_cons : forall a l, EncAll (a :: l) <-> (exists s, encode_attr a = EncOk s) /\ EncAll l.
Proof.
  intros a l. unfold EncAll. split.
  - intro H. split; [apply H; left; reflexivity | intros x HI; apply H; right; assumption].
  - intros [H1 H2] x [<-|HI]; [exact H1 | apply H2; assumption].
Qed.

(* the abstract effect of a call with answer [r] on the listed attributes *)
Definition eff (l l' : list attr) (o : op) (r : res) : Prop :=
  match r with
  | ROk =>
    match o with
    | OWrite n (Some v) => forall m, attr_get l' m = if bytes_eqb n m then Some v else attr_get l m
    | OWrite n None => False
    | ODelete n => attr_get l n <> None /\ forall m, attr_get l' m = if bytes_eqb n m then None else attr_get l m
    end
  | RErr => l' = l /\ match o with ODelete n => attr_get l n = None | _ => True end
  end.

Definition post (l : list attr) (o : op) (st' : state) (r : res) : Prop :=
  exists l', Rep st' l' /\ NoDup (map aname l') /\ EncAll l' /\
             incl (map aname l') (op_name o :: map aname l) /\ eff l l' o r.

Ltac split4 := split; [|split; [|split]].
Ltac split5 := split; [|split; [|split; [|split]]].

Lemma post_same : forall st l o r, Rep st l -> NoDup (map aname l) -> EncAll l -> eff l l o r -> post l o st r.
Proof.
  intros st l o r R ND EA E. exists l. split5; try assumption. intros x HI. right. exact HI.
Qed.

(* ---- compact: replace in place / append ---- *)

Lemma replace_middle_post : forall l1 x l2 n v,
  NoDup (map aname (l1 ++ x :: l2)) -> EncAll (l1 ++ x :: l2) -> aname x = n ->
  (exists s, encode_attr (mkAttr n v) = EncOk s) ->
  NoDup (map aname (l1 ++ mkAttr n v :: l2)) /\ EncAll (l1 ++ mkAttr n v :: l2) /\
  incl (map aname (l1 ++ mkAttr n v :: l2)) (n :: map aname (l1 ++ x :: l2)) /\
  (forall m, attr_get (l1 ++ mkAttr n v :: l2) m = if bytes_eqb n m then Some v else attr_get (l1 ++ x :: l2) m).
Proof.
  intros l1 x l2 n v ND EA EN ES. repeat split.
  - eapply NoDup_names_replace_middle; [exact ND | cbn [aname]; congruence].
  - apply EncAll_app in EA. destruct EA as [E1 E2]. apply EncAll_cons in E2. destruct E2 as [_ E2].
    apply EncAll_app. split; [exact E1|]. apply EncAll_cons. split; assumption.
  - intros y HI. right. rewrite map_app in *. cbn [map aname] in *. rewrite EN. exact HI.
  - intro m. rewrite (attr_get_replace_middle l1 x (mkAttr n v) l2 m ND) by (cbn [aname]; congruence).
    cbn [aval]. rewrite EN. reflexivity.
Qed.

Lemma remove_middle_post : forall l1 x l2,
  NoDup (map aname (l1 ++ x :: l2)) -> EncAll (l1 ++ x :: l2) ->
  NoDup (map aname (l1 ++ l2)) /\ EncAll (l1 ++ l2) /\
  incl (map aname (l1 ++ l2)) (aname x :: map aname (l1 ++ x :: l2)) /\
  attr_get (l1 ++ x :: l2) (aname x) <> None /\
  (forall m, attr_get (l1 ++ l2) m = if bytes_eqb (aname x) m then None else attr_get (l1 ++ x :: l2) m).
Proof.
  intros l1 x l2 ND EA. destruct (NoDup_names_middle _ _ _ ND) as [NI ND']. repeat split.
  - exact ND'.
  - apply EncAll_app in EA. destruct EA as [E1 E2]. apply EncAll_cons in E2. destruct E2 as [_ E2].
    apply EncAll_app. split; assumption.
  - intros y HI. right. rewrite map_app in *. cbn [map]. apply in_app_or in HI. apply in_or_app.
    destruct HI; [left | right; right]; assumption.
  - intro H. apply attr_get_none_iff in H. apply H. rewrite map_app. cbn [map]. apply in_or_app. right. left. reflexivity.
  - intro m. apply attr_get_remove_middle. exact ND.
Qed.

Lemma insert_post : forall l1 l2 n v,
  NoDup (map aname (l1 ++ l2)) -> EncAll (l1 ++ l2) -> ~ In n (map aname (l1 ++ l2)) ->
  (exists s, encode_attr (mkAttr n v) = EncOk s) ->
  NoDup (map aname (l1 ++ mkAttr n v :: l2)) /\ EncAll (l1 ++ mkAttr n v :: l2) /\
  incl (map aname (l1 ++ mkAttr n v :: l2)) (n :: map aname (l1 ++ l2)) /\
  (forall m, attr_get (l1 ++ mkAttr n v :: l2) m = if bytes_eqb n m then Some v else attr_get (l1 ++ l2) m).
Proof.
  intros l1 l2 n v ND EA NI ES. repeat split.
  - apply NoDup_names_insert; [exact ND | exact NI].
  - apply EncAll_app in EA. destruct EA as [E1 E2]. apply EncAll_app. split; [exact E1|]. apply EncAll_cons. split; assumption.
  - intros y HI. rewrite map_app in *. cbn [map aname] in HI. apply in_app_or in HI.
    destruct HI as [HI|[HI|HI]]; [right; apply in_or_app; tauto | left; exact HI | right; apply in_or_app; tauto].
  - intro m. rewrite (attr_get_insert l1 l2 (mkAttr n v) m) by exact NI. reflexivity.
Qed.

(* ---- attr_get is a function of the set when names are unique ---- *)

Lemma attr_get_perm : forall l l' m, NoDup (map aname l) -> Permutation l l' -> attr_get l m = attr_get l' m.
Proof.
  intros l l' m ND PM.
  assert (ND' : NoDup (map aname l')) by (eapply Permutation_NoDup; [apply Permutation_map; exact PM | exact ND]).
  destruct (attr_get l m) as [v|] eqn:E.
  - symmetry. apply attr_get_in; [exact ND'|]. eapply Permutation_in; [exact PM|]. apply attr_get_some_in. exact E.
  - symmetry. apply attr_get_none_iff. apply attr_get_none_iff in E. intro HI. apply E.
    eapply Permutation_in; [apply Permutation_sym; apply Permutation_map; exact PM | exact HI].
Qed.

(* ---- transitionToDenseAttributes: the DenseAttributeWriter loop ---- *)

Lemma daw_ok : forall todo seen ix hp l ix' hp',
  dense_rep ix hp l -> (forall m, In m seen <-> In m (map aname l)) ->
  daw_add_all name_hash P seen ix hp todo = TOk ix' hp' ->
  exists l', dense_rep ix' hp' l' /\ Permutation l' (l ++ todo) /\
             (NoDup (map aname l) -> NoDup (map aname l')) /\ (EncAll l -> EncAll l').
Proof.
  induction todo as [|a r IH]; intros seen ix hp l ix' hp' R S H; cbn [daw_add_all] in H.
  - inversion H; subst. exists l. rewrite app_nil_r. split4; [exact R | apply Permutation_refl | tauto | tauto].
  - destruct (aname a) as [|b t] eqn:EN; [discriminate|]. rewrite <- EN in *.
    destruct (existsb (bytes_eqb (aname a)) seen) eqn:EX; [discriminate|].
    destruct (encode_attr a) as [sz|] eqn:EA; try discriminate.
    destruct (heap_insert P hp a) as [hp1 id| |] eqn:HI; try discriminate.
    destruct (idx_insert P (name_hash (aname a), id) ix) as [ix1|] eqn:II; [|discriminate].
    destruct (dense_insert name_hash P Hcap ix hp l a hp1 id ix1 R HI II) as [l1 [l2 [EL R1]]]. subst l.
    assert (NS : ~ In (aname a) (map aname (l1 ++ l2))).
    { intro HIn. apply S in HIn. apply existsb_bytes_in in HIn. congruence. }
    assert (S1 : forall m, In m (aname a :: seen) <-> In m (map aname (l1 ++ a :: l2))).
    { intro m. rewrite map_app. cbn [map In]. rewrite in_app_iff. cbn [In]. rewrite (S m), map_app, in_app_iff. tauto. }
    destruct (IH _ _ _ _ _ _ R1 S1 H) as [l' [R' [PM [ND' EA']]]].
    exists l'. split4.
    + exact R'.
    + eapply Permutation_trans; [exact PM|]. rewrite <- !app_assoc. apply Permutation_app_head. cbn [app].
      apply Permutation_middle.
    + intro ND. apply ND'. apply NoDup_names_insert; assumption.
    + intro E. apply EA'. apply EncAll_app in E. destruct E as [E1 E2]. apply EncAll_app. split; [exact E1|].
      apply EncAll_cons. split; [eexists; exact EA | exact E2].
Qed.

Lemma transition_post : forall attrs n v st' r,
  NoDup (map aname attrs) -> EncAll attrs ->
  transition name_hash P attrs (mkAttr n v) = (st', r) -> st' <> Broken ->
  post attrs (OWrite n (Some v)) st' r.
Proof.
  intros attrs n v st' r ND EA H NB. unfold transition in H.
  assert (SAME : forall r0, r0 = RErr -> post attrs (OWrite n (Some v)) (Compact attrs) r0).
  { intros r0 ->. apply post_same; try assumption; [reflexivity | cbn; tauto]. }
  destruct (daw_add_all name_hash P [] [] heap_empty (attrs ++ [mkAttr n v])) as [ix hp| |] eqn:D.
  - destruct (p_limit P <? p_base P + (4 + p_info P)); inversion H; subst; [apply SAME; reflexivity|].
    destruct (daw_ok _ _ _ _ [] _ _ (dense_rep_empty name_hash P Hcap) (fun m => conj (fun x => x) (fun x => x)) D)
      as [l' [R' [PM [ND' EA']]]]. cbn [app] in PM.
    assert (NDall : NoDup (map aname l')) by (apply ND'; constructor).
    assert (NDs : NoDup (map aname (attrs ++ [mkAttr n v]))).
    { eapply Permutation_NoDup; [apply Permutation_map; exact PM | exact NDall]. }
    assert (NI : ~ In n (map aname attrs)).
    { rewrite map_app in NDs. cbn [map aname] in NDs. apply NoDup_remove_2 in NDs. rewrite app_nil_r in NDs. exact NDs. }
    exists l'. split5.
    + exact R'.
    + exact NDall.
    + apply EA'. intros x [].
    + intros y HI. eapply Permutation_in in HI; [|apply Permutation_map; exact PM].
      rewrite map_app in HI. cbn [map aname] in HI. apply in_app_or in HI. cbn [op_name].
      destruct HI as [HI|[HI|[]]]; [right; exact HI | left; exact HI].
    + cbn [eff]. intro m. rewrite (attr_get_perm l' (attrs ++ [mkAttr n v]) m NDall PM).
      rewrite (attr_get_insert attrs [] (mkAttr n v) m) by (rewrite app_nil_r; exact NI). rewrite app_nil_r. reflexivity.
  - inversion H; subst. apply SAME; reflexivity.
  - destruct (p_ovf_err P); [inversion H; subst; apply SAME; reflexivity|].
    destruct (p_limit P <? p_base P + (4 + p_info P)); inversion H; subst; [apply SAME; reflexivity | congruence].
Qed.

Lemma write_compact_post : forall attrs n v st' r,
  NoDup (map aname attrs) -> EncAll attrs ->
  write_compact name_hash P attrs (mkAttr n v) = (st', r) -> st' <> Broken ->
  post attrs (OWrite n (Some v)) st' r.
Proof.
  intros attrs n v st' r ND EA H NB. unfold write_compact in H.
  destruct (encode_attr (mkAttr n v)) as [sz|] eqn:EN.
  - cbn [aname] in H. destruct (replace_name n (mkAttr n v) attrs) as [attrs'|] eqn:RN.
    + destruct (p_limit P <? hdr_size P attrs'); inversion H; subst.
      * apply post_same; try assumption; [reflexivity | cbn; tauto].
      * destruct (replace_name_split _ _ _ _ RN) as [l1 [x [l2 [E1 [E2 [E3 _]]]]]]. subst attrs attrs'.
        destruct (replace_middle_post l1 x l2 n v ND EA E2 (ex_intro _ sz EN)) as [A [B [C D]]].
        exists (l1 ++ mkAttr n v :: l2). split5; try assumption; reflexivity.
    + apply replace_name_none in RN.
      destruct (p_limit P <? hdr_size P attrs + (4 + sz)).
      * eapply transition_post; eassumption.
      * inversion H; subst.
        destruct (insert_post attrs [] n v) as [A [B [C D]]]; try (rewrite app_nil_r; assumption); [eexists; exact EN|].
        rewrite app_nil_r in *. exists (attrs ++ [mkAttr n v]). split5; try assumption; reflexivity.
  - inversion H; subst. apply post_same; try assumption; [reflexivity | cbn; tauto].
Qed.

(* ---- dense write ---- *)

Lemma write_dense_post : forall ix hp l n v st' r,
  dense_rep ix hp l -> NoDup (map aname l) -> EncAll l ->
  (forall m, In m (map aname l) -> name_hash m = name_hash n -> m = n) ->
  write_dense name_hash P ix hp (mkAttr n v) = (st', r) -> st' <> Broken ->
  post l (OWrite n (Some v)) st' r.
Proof.
  intros ix hp l n v st' r R ND EA Inj H NB. unfold write_dense in H.
  assert (SAME : forall r0, r0 = RErr -> post l (OWrite n (Some v)) (Dense ix hp) r0).
  { intros r0 ->. apply post_same; try assumption; cbn; tauto. }
  destruct (encode_attr (mkAttr n v)) as [sz|] eqn:EN.
  2:{ inversion H; subst. apply SAME; reflexivity. }
  cbn [aname] in H. destruct R as [F [N1 [N2 W]]].
  pose proof (search_split name_hash hp ix l n F Inj) as SS.
  destruct (idx_search (name_hash n) ix) as [id|] eqn:SE.
  - destruct SS as [ix1 [ix2 [l1 [l2 [a [E1 [E2 [E3 [F1 [F2 [G NI]]]]]]]]]]]. subst ix l. rewrite G in H.
    assert (HN : name_hash n = name_hash (aname a)) by congruence.
    rewrite HN in N1, N2.
    destruct (replace_middle_post l1 a l2 n v ND EA E3 (ex_intro _ sz EN)) as [A [B [C D]]].
    destruct (sz =? snd id).
    + destruct (heap_overwrite_ok P hp id (mkAttr n v) a W G) as [hp' [OV _]]. rewrite OV in H. inversion H; subst st' r.
      exists (l1 ++ mkAttr n v :: l2). split5; try assumption.
      cbn [Rep]. rewrite HN.
      eapply (dense_overwrite name_hash P ix1 ix2 l1 l2 id a (mkAttr n v) hp hp'); try eassumption. cbn [aname]. congruence.
    + destruct (heap_delete_ok P hp id a W G) as [hp1 [DL _]]. rewrite DL in H.
      destruct (heap_insert P hp1 (mkAttr n v)) as [hp2 id2| |] eqn:HI.
      * rewrite HN in H. rewrite (idx_update_split (name_hash (aname a)) id id2 ix1 ix2) in H by (rewrite <- HN; exact NI).
        inversion H; subst st' r.
        exists (l1 ++ mkAttr n v :: l2). split5; try assumption.
        cbn [Rep].
        eapply (dense_update name_hash P Hcap ix1 ix2 l1 l2 id a (mkAttr n v) hp hp1 hp2 id2); try eassumption. cbn [aname]. congruence.
      * inversion H; subst. apply SAME. reflexivity.
      * destruct (p_ovf_err P); inversion H; subst; [apply SAME; reflexivity | congruence].
  - destruct (heap_insert P hp (mkAttr n v)) as [hp' id| |] eqn:HI.
    + destruct (idx_insert P (name_hash n, id) ix) as [ix'|] eqn:II.
      * inversion H; subst st' r.
        destruct (dense_insert name_hash P Hcap ix hp l (mkAttr n v) hp' id ix' (conj F (conj N1 (conj N2 W))) HI II) as [l1 [l2 [EL R']]].
        subst l. destruct (insert_post l1 l2 n v ND EA SS (ex_intro _ sz EN)) as [A [B [C D]]].
        exists (l1 ++ mkAttr n v :: l2). split5; try assumption.
      * inversion H; subst. apply SAME; reflexivity.
    + inversion H; subst. apply SAME; reflexivity.
    + destruct (p_ovf_err P); inversion H; subst; [apply SAME; reflexivity | congruence].
Qed.

(* ---- delete ---- *)

Lemma delete_post : forall st l n st' r,
  Rep st l -> NoDup (map aname l) -> EncAll l ->
  (forall m, In m (map aname l) -> name_hash m = name_hash n -> m = n) ->
  delete_attr name_hash st n = (st', r) ->
  post l (ODelete n) st' r.
Proof.
  intros st l n st' r R ND EA Inj H. destruct st as [attrs|ix hp|]; cbn [Rep delete_attr] in *; [subst l| |destruct R].
  - destruct (remove_name n attrs) as [attrs'|] eqn:RM; inversion H; subst.
    + destruct (remove_name_split _ _ _ RM) as [l1 [x [l2 [E1 [E2 [E3 _]]]]]]. subst attrs attrs'.
      destruct (remove_middle_post l1 x l2 ND EA) as [A [B [C [D E]]]].
      exists (l1 ++ l2). rewrite E2 in *. split5; try assumption; [reflexivity | split; assumption].
    + apply remove_name_none in RM. apply post_same; try assumption; [reflexivity|]. cbn [eff]. split; [reflexivity|].
      apply attr_get_none_iff. exact RM.
  - assert (SAME : attr_get l n = None -> post l (ODelete n) (Dense ix hp) RErr).
    { intro G. apply post_same; try assumption. cbn [eff]. tauto. }
    destruct n as [|b t] eqn:En.
    + inversion H; subst. apply SAME. apply attr_get_none_iff. apply EncAll_nonempty. exact EA.
    + rewrite <- En in *. clear En. destruct R as [F [N1 [N2 W]]].
      pose proof (search_split name_hash hp ix l n F Inj) as SS.
      destruct (idx_search (name_hash n) ix) as [id|] eqn:SE.
      * destruct SS as [ix1 [ix2 [l1 [l2 [a [E1 [E2 [E3 [F1 [F2 [G NI]]]]]]]]]]]. subst ix l.
        rewrite (idx_delete_split (name_hash n) id ix1 ix2 NI) in H.
        destruct (heap_delete_ok P hp id a W G) as [hp' [DL _]]. rewrite DL in H. inversion H; subst st' r.
        destruct (remove_middle_post l1 a l2 ND EA) as [A [B [C [D E]]]]. rewrite E3 in *.
        exists (l1 ++ l2). split5; try assumption; [|split; assumption].
        cbn [Rep]. rewrite <- E3 in N1, N2.
        eapply (dense_delete name_hash P ix1 ix2 l1 l2 id a hp hp'); eassumption.
      * inversion H; subst. apply SAME. apply attr_get_none_iff. exact SS.
Qed.

(* ---- one call ---- *)

Lemma step_post : forall st l o st' r,
  Rep st l -> NoDup (map aname l) -> EncAll l ->
  (forall m, In m (map aname l) -> name_hash m = name_hash (op_name o) -> m = op_name o) ->
  step name_hash P st o = (st', r) -> st' <> Broken ->
  post l o st' r.
Proof.
  intros st l o st' r R ND EA Inj H NB. destruct o as [n [v|]|n]; cbn [step write_attr op_name] in *.
  - destruct st as [attrs|ix hp|]; cbn [Rep] in R; [subst l| |destruct R].
    + destruct (N.of_nat (List.length attrs) <? p_maxc P).
      * eapply write_compact_post; eassumption.
      * eapply transition_post; eassumption.
    + eapply write_dense_post; eassumption.
  - inversion H; subst. apply post_same; try assumption. cbn [eff]. tauto.
  - eapply delete_post; eassumption.
Qed.

(* a call that does not return success leaves the storage state as it was *)
Lemma step_err_unchanged : forall st o st' r, step name_hash P st o = (st', r) -> r <> ROk -> st' = st.
Proof.
  intros st o st' r H NR. destruct o as [n [v|]|n]; cbn [step write_attr delete_attr] in H.
  - destruct st as [attrs|ix hp|].
    + assert (T : forall st0 r0, transition name_hash P attrs (mkAttr n v) = (st0, r0) -> r0 <> ROk -> st0 = Compact attrs).
      { intros st0 r0 HT NR0. unfold transition in HT.
        destruct (daw_add_all name_hash P [] [] heap_empty (attrs ++ [mkAttr n v])); try (inversion HT; subst; reflexivity).
        - destruct (p_limit P <? p_base P + (4 + p_info P)); inversion HT; subst; [reflexivity | congruence].
        - destruct (p_ovf_err P); [inversion HT; subst; reflexivity|].
          destruct (p_limit P <? p_base P + (4 + p_info P)); inversion HT; subst; [reflexivity | congruence]. }
      destruct (N.of_nat (List.length attrs) <? p_maxc P); [|eapply T; eassumption].
      unfold write_compact in H. destruct (encode_attr (mkAttr n v)); try (inversion H; subst; reflexivity).
      destruct (replace_name (aname (mkAttr n v)) (mkAttr n v) attrs).
      * destruct (p_limit P <? hdr_size P l); inversion H; subst; [reflexivity | congruence].
      * destruct (p_limit P <? hdr_size P attrs + (4 + size)); [eapply T; eassumption | inversion H; subst; congruence].
    + unfold write_dense in H. destruct (encode_attr (mkAttr n v)); try (inversion H; subst; reflexivity).
      destruct (idx_search (name_hash (aname (mkAttr n v))) ix).
      * destruct (heap_get hp h); [|inversion H; subst; reflexivity].
        destruct (size =? snd h).
        -- destruct (heap_overwrite hp h (mkAttr n v)); inversion H; subst; [congruence | reflexivity].
        -- destruct (heap_delete hp h); [|inversion H; subst; reflexivity].
           destruct (heap_insert P h0 (mkAttr n v)).
           ++ destruct (idx_update (name_hash (aname (mkAttr n v))) id ix); inversion H; subst; [congruence | reflexivity].
           ++ inversion H; subst; reflexivity.
           ++ destruct (p_ovf_err P); inversion H; subst; [reflexivity | congruence].
      * destruct (heap_insert P hp (mkAttr n v)).
        -- destruct (idx_insert P (name_hash (aname (mkAttr n v)), id) ix); inversion H; subst; [congruence | reflexivity].
        -- inversion H; subst; reflexivity.
        -- destruct (p_ovf_err P); inversion H; subst; [reflexivity | congruence].
    + inversion H; subst; reflexivity.
  - inversion H; subst; reflexivity.
  - destruct st as [attrs|ix hp|]; cbn [delete_attr] in H.
    + destruct (remove_name n attrs); inversion H; subst; [exfalso; apply NR; reflexivity | reflexivity].
    + destruct n as [|b t]; [inversion H; subst; reflexivity|].
      destruct (idx_search (name_hash (b :: t)) ix) as [h|]; [|inversion H; subst; reflexivity].
      destruct (idx_delete (name_hash (b :: t)) ix); [|inversion H; subst; reflexivity].
      destruct (heap_delete hp h); inversion H; subst; [exfalso; apply NR; reflexivity | reflexivity].
    + inversion H; subst; reflexivity.
Qed.

End Step.
