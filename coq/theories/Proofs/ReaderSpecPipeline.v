(* C06, reader against specification: the filter pipeline message (0x000B), version 2 - REFUTATION, and the repair.
   A genuine version 2 message stores a name-length field and a name for user-defined filters (identifier >= 256) only.
   ParseFilterPipelineMessage before notes/fixes/c06-pipeline-v2-filter-name.patch (Model/CodecFilter.v dec_pipeline_gen false; the
   ties of C11/C07 compare the Go code with the variant the source tree implements) reads no name-length field
   for any filter outside the version 1 layout: for a user-defined filter it takes the name length as the flags, the flags
   as the number of client data values, and continues behind the wrong field.  Witness: one filter, identifier 32000 (LZF),
   name "lzf", one client data value 5 - the reader returns flags 4, no client data, no error.
   With notes/fixes/c06-pipeline-v2-filter-name.patch (dec_pipeline_gen true = dec_pipeline) the witness is
   decoded as the specification says. *)
From HV Require Import Base.Prelude Base.Outcome Base.Bytes Spec.Parse Spec.FormatMsg Model.CodecFilter.

Definition pipeline_v2_userfilter_witness : bytes := [2; 1; 0; 125; 4; 0; 0; 0; 1; 0; 108; 122; 102; 0; 5; 0; 0; 0].

Lemma pipeline_v2_userfilter_refuted :
  spec_dec_pipeline strict false pipeline_v2_userfilter_witness =
    Ok ([{| fl_id := 32000; fl_flags := 0; fl_name := [108; 122; 102; 0]; fl_cd := [5] |}], []) /\
  dec_pipeline_gen false pipeline_v2_userfilter_witness =
    Ok {| pl_version := 2; pl_nfilters := 1;
          pl_filters := [{| rf_id := 32000; rf_namelen := 0; rf_flags := 4; rf_ncd := 0; rf_name := []; rf_cd := None |}] |}.
Proof. split; vm_compute; reflexivity. Qed.

Lemma pipeline_v2_userfilter_repaired :
  dec_pipeline_gen true pipeline_v2_userfilter_witness =
    Ok {| pl_version := 2; pl_nfilters := 1;
          pl_filters := [{| rf_id := 32000; rf_namelen := 4; rf_flags := 0; rf_ncd := 1; rf_name := [108; 122; 102];
                            rf_cd := Some [5] |}] |}.
Proof. vm_compute; reflexivity. Qed.

(* predefined filters (identifier < 256) in a genuine version 2 message: shuffle(4) then deflate(6) - the reader agrees *)
Lemma pipeline_v2_predefined_control :
  spec_dec_pipeline strict false [2; 2; 2; 0; 0; 0; 1; 0; 4; 0; 0; 0; 1; 0; 0; 0; 1; 0; 6; 0; 0; 0] =
    Ok ([{| fl_id := 2; fl_flags := 0; fl_name := []; fl_cd := [4] |};
         {| fl_id := 1; fl_flags := 0; fl_name := []; fl_cd := [6] |}], []) /\
  (forall rep, dec_pipeline_gen rep [2; 2; 2; 0; 0; 0; 1; 0; 4; 0; 0; 0; 1; 0; 0; 0; 1; 0; 6; 0; 0; 0] =
    Ok {| pl_version := 2; pl_nfilters := 2;
          pl_filters := [{| rf_id := 2; rf_namelen := 0; rf_flags := 0; rf_ncd := 1; rf_name := []; rf_cd := Some [4] |};
                         {| rf_id := 1; rf_namelen := 0; rf_flags := 0; rf_ncd := 1; rf_name := []; rf_cd := Some [6] |}] |}).
Proof. split; [|intros []]; vm_compute; reflexivity. Qed.
