(* C01 end to end: where the blocks of image_v2 sit, and the DATASET stage: on the image, Dataset.Read's I/O program
   (api_read_raw) run on the dataset's object header returns exactly the bytes that were written, having decoded the
   datatype, dataspace and layout messages the writer encoded. *)
From HV Require Import Base.Prelude Base.Outcome Base.Bytes Model.IOProg Proofs.IOProg Model.IOProgReader.
From HV Require Import Model.CodecSuper Model.CodecOhdr Model.CodecMsg Model.CodecType Model.CodecLink Model.GroupWire.
From HV Require Import Proofs.CodecSuper Proofs.CodecOhdr Proofs.CodecMsg Proofs.CodecType.
From HV Require Import Model.FileImage Proofs.FileImage Proofs.FileImageOhdr.

(* what ReadSuperblock returns on every image: nothing in it depends on the inputs *)
Definition SB' : superblock' :=
  {| spp_version := 2; spp_offsize := 8; spp_lensize := 8; spp_bigendian := false; spp_base := 0; spp_root := 2168;
     spp_superext := UNDEF; spp_driverinfo := 0; spp_rootbtree := 0; spp_rootheap := 0 |}.

Lemma addrs : (HEAP_ADDR, SNOD_ADDR, BTREE_ADDR, ROOT_ADDR, DATA_ADDR) = (48, 336, 1624, 2168, 2195).
Proof. reflexivity. Qed.

(* ------------------------------------------------------------------ the blocks, spelled out *)
Lemma snod_one e :
  snod_write_at {| stn_version := 1; stn_num := 1; stn_entries := [e]; stn_cap := SNOD_CAP |} 8 SNOD_CAP
  = Ok ([83; 78; 79; 68; 1; 0; 1; 0] ++ enc_sym 8 e ++ zeros 1240).
Proof. destruct e. vm_compute. reflexivity. Qed.

Lemma bt_block_bytes :
  bt_write_at (final_btnode) 8 GROUP_K
  = [84; 82; 69; 69; 0; 0; 1; 0] ++ le 8 UNDEF ++ le 8 UNDEF ++ (le 8 0 ++ le 8 336 ++ le 8 0) ++ zeros 496.
Proof. vm_compute. reflexivity. Qed.

Lemma root_block_bytes :
  enc_ohdr_v2 root_ohdr = [79; 72; 68; 82; 2; 0; 20; 17; 16; 0; 0] ++ le 8 1624 ++ le 8 48.
Proof. vm_compute. reflexivity. Qed.

Section Image.
Variable name : bytes.
Variables class size cbf : N.
Variable dims : list N.
Variable data : bytes.
Hypothesis Hname : link_name_ok name = true.
Hypothesis Hdt : basic_dtype class size cbf = true.
Hypothesis Hdims : dims_ok dims = true.
(* the data Write accepts: exactly product(dims) * size bytes (uint64 product as calculateTotalElements computes it),
   not empty, less than 4 GiB *)
Hypothesis Hlen : blen data = total_elems dims * size.
Hypothesis Hpos : 0 < blen data.
Hypothesis Hbound : blen data < 4294967296.

Local Notation f := (image_v2 name class size cbf dims data).
Local Notation da := (dset_addr data).
Local Notation dso := (dset_ohdr class size cbf dims).
Local Notation dsb := (dset_block class size cbf dims).

Lemma name_len : 1 <= blen name /\ blen name < 256.
Proof using Hname. clear - Hname.
  unfold link_name_ok in Hname. apply andb_true_iff in Hname as [H H4]. apply andb_true_iff in H as [H _].
  apply andb_true_iff in H as [H1 _]. apply N.ltb_lt in H4. split; [|exact H4].
  unfold blen. destruct name; [discriminate|]. cbn [length]. blia.
Qed.

Lemma heap_block_bytes :
  heap_image (final_heap name) HEAP_ADDR
  = heap_header 256 1 80 ++ (name ++ [0]) ++ zeros (N.to_nat (256 - (blen name + 1))).
Proof using Hname. clear - Hname.
  destruct name_len as [H1 H2].
  unfold heap_image, heap_write_to, final_heap. cbn [hw_strings hw_dss hw_free hw_daddr].
  change (wrap64 (HEAP_ADDR + 32)) with 80. change HEAP_INIT with 256.
  rewrite blen_app. change (blen [0]) with 1.
  destruct (blen name + 1 <? 256) eqn:E; [reflexivity|]. apply N.ltb_ge in E.
  replace (256 - (blen name + 1)) with 0 by blia. cbn [N.to_nat zeros repeat]. now rewrite app_nil_r.
Qed.
Lemma heap_seg_len : blen ((name ++ [0]) ++ zeros (N.to_nat (256 - (blen name + 1)))) = 256.
Proof using Hname. clear - Hname. destruct name_len. rewrite !blen_app, blen_zeros. change (blen [0]) with 1. blia. Qed.
Lemma heap_block_len : blen (heap_image (final_heap name) HEAP_ADDR) = 288.
Proof using Hname. clear - Hname. rewrite heap_block_bytes, blen_app, heap_seg_len. reflexivity. Qed.

Lemma snod_block_bytes :
  snod_block data = [83; 78; 79; 68; 1; 0; 1; 0] ++ enc_sym 8 (final_sym data) ++ zeros 1240.
Proof. unfold snod_block, final_snode. now rewrite snod_one. Qed.
Lemma enc_sym_len e : blen (enc_sym 8 e) = 40.
Proof. unfold enc_sym, write_address. rewrite !blen_app, !blen_le, blen_zeros. reflexivity. Qed.
Lemma snod_block_len : blen (snod_block data) = 1288.
Proof. rewrite snod_block_bytes, !blen_app, enc_sym_len, blen_zeros. reflexivity. Qed.

Lemma sb_block_len : blen (enc_superblock (final_sb data)) = 48.
Proof. rewrite superblock_blen. reflexivity. Qed.
Lemma bt_block_len : blen (bt_write_at final_btnode 8 GROUP_K) = 544.
Proof. vm_compute. reflexivity. Qed.
Lemma root_block_len : blen (enc_ohdr_v2 root_ohdr) = 27.
Proof. reflexivity. Qed.

Local Notation blocks := (blocks_v2 name class size cbf dims data).

Lemma P_sb_rest : placed f 0 (enc_superblock (final_sb data) ++ concat (skipn 1 blocks)).
Proof using. clear Hname Hdt Hdims Hlen Hpos Hbound. exact (place_all_placed_rest (blocks_v2 name class size cbf dims data) 0 ltac:(cbn; blia)). Qed.
Lemma P_heap : placed f 48 (heap_image (final_heap name) HEAP_ADDR).
Proof using. clear Hname Hdt Hdims Hlen Hpos Hbound.
  pose proof (place_all_placed (blocks_v2 name class size cbf dims data) 1 _ eq_refl) as H. cbn [block_addr blocks_v2] in H.
  rewrite sb_block_len in H. exact H.
Qed.
Lemma P_snod : placed f 336 (snod_block data).
Proof using Hname. clear - Hname.
  pose proof (place_all_placed (blocks_v2 name class size cbf dims data) 2 _ eq_refl) as H. cbn [block_addr blocks_v2] in H.
  rewrite sb_block_len, heap_block_len in H. exact H.
Qed.
Lemma P_bt : placed f 1624 (bt_write_at final_btnode 8 GROUP_K).
Proof using Hname. clear - Hname.
  pose proof (place_all_placed (blocks_v2 name class size cbf dims data) 3 _ eq_refl) as H. cbn [block_addr blocks_v2] in H.
  rewrite sb_block_len, heap_block_len, snod_block_len in H. exact H.
Qed.
Lemma P_root_rest : placed f 2168 (enc_ohdr_v2 root_ohdr ++ (data ++ dsb)).
Proof using Hname. clear - Hname.
  pose proof (place_all_placed_rest (blocks_v2 name class size cbf dims data) 4 ltac:(cbn; blia)) as H.
  cbn [block_addr blocks_v2 skipn concat] in H.
  rewrite sb_block_len, heap_block_len, snod_block_len, bt_block_len in H. rewrite app_nil_r in H. exact H.
Qed.
Lemma P_data : placed f 2195 data.
Proof using Hname. clear - Hname.
  pose proof (place_all_placed (blocks_v2 name class size cbf dims data) 5 _ eq_refl) as H. cbn [block_addr blocks_v2] in H.
  rewrite sb_block_len, heap_block_len, snod_block_len, bt_block_len, root_block_len in H. exact H.
Qed.
Lemma P_dset : placed f da dsb.
Proof using Hname. clear - Hname.
  pose proof (place_all_placed (blocks_v2 name class size cbf dims data) 6 _ eq_refl) as H. cbn [block_addr blocks_v2] in H.
  rewrite sb_block_len, heap_block_len, snod_block_len, bt_block_len, root_block_len in H.
  match type of H with placed _ ?X _ => replace da with X by (unfold da, dset_addr; change DATA_ADDR with 2195; blia) end.
  exact H.
Qed.

(* ------------------------------------------------------------------ the dataset's header *)
Lemma rank_bounds : (1 <= length dims <= 24)%nat.
Proof using Hdims. clear - Hdims.
  unfold dims_ok in Hdims. apply andb_true_iff in Hdims as [H _]. apply andb_true_iff in H as [H1 H2].
  apply Nat.leb_le in H2. destruct dims; [discriminate|]. cbn [length] in *. blia.
Qed.
Lemma dims_u64 : u64_ok dims = true.
Proof using Hdims. clear - Hdims.
  unfold dims_ok in Hdims. apply andb_true_iff in Hdims as [_ H]. unfold u64_ok.
  rewrite forallb_forall in *. intros x Hx. specialize (H x Hx). apply andb_true_iff in H as [_ H]. exact H.
Qed.
Lemma wf_ds : wf_dataspace {| ds_dims := dims; ds_maxdims := [] |} = true.
Proof using Hdims. clear - Hdims.
  destruct rank_bounds as [R1 R2]. unfold wf_dataspace, encok_dataspace. cbn [ds_dims ds_maxdims length].
  rewrite dims_u64. cbn [u64_ok forallb andb orb Nat.eqb].
  replace (length dims =? 0)%nat with false by (symmetry; apply Nat.eqb_neq; blia).
  replace (length dims <=? 255)%nat with true by (symmetry; apply Nat.leb_le; blia). reflexivity.
Qed.
Lemma dtype_cases :
  (class = DT_FIXED /\ (size = 1 \/ size = 2 \/ size = 4 \/ size = 8) /\ (cbf = 0 \/ cbf = 8)) \/
  (class = DT_FLOAT /\ (size = 4 \/ size = 8) /\ cbf = 0).
Proof using Hdt. clear - Hdt.
  unfold basic_dtype in Hdt. apply orb_true_iff in Hdt as [H|H]; [left|right];
    apply andb_true_iff in H as [H H3]; apply andb_true_iff in H as [H1 H2]; apply N.eqb_eq in H1;
    repeat (apply orb_true_iff in H2 as [H2|H2]); repeat (apply orb_true_iff in H3 as [H3|H3]);
    apply N.eqb_eq in H2; apply N.eqb_eq in H3; auto 10.
Qed.
Lemma wf_dt : wf_datatype (dtype_msg class size cbf) = true.
Proof using Hdt. clear - Hdt.
  destruct dtype_cases as [(-> & Hs & Hc)|(-> & Hs & ->)];
    repeat (destruct Hs as [->|Hs]); try subst size; try (destruct Hc as [->| ->]); reflexivity.
Qed.
Lemma dt_msg_len : blen (enc_datatype (dtype_msg class size cbf)) = if class =? DT_FIXED then 12 else 20.
Proof using Hdt. clear - Hdt.
  rewrite datatype_blen by exact wf_dt.
  destruct dtype_cases as [(-> & _)|(-> & _)]; reflexivity.
Qed.
Lemma size_pos : 1 <= size <= 8.
Proof using Hdt. clear - Hdt.
  destruct dtype_cases as [(_ & Hs & _)|(_ & Hs & _)]; repeat (destruct Hs as [->|Hs]); try subst size; blia.
Qed.

Lemma data_size_eq : data_size size dims = blen data.
Proof using Hlen Hbound. clear - Hlen Hbound. unfold data_size. rewrite <- Hlen. apply wrap64_small. blia. Qed.
Lemma wf_ly : wf_layout SBP (LContig (data_size size dims) DATA_ADDR) = true.
Proof using Hlen Hbound. clear - Hlen Hbound.
  rewrite data_size_eq. unfold wf_layout. cbn [sb_ok SBP sb_offsize sb_lensize sb_version encok_layout].
  change (DATA_ADDR <? 256 ^ 8) with true.
  replace (blen data <? 256 ^ 8) with true by (symmetry; apply N.ltb_lt; change (256 ^ 8) with 18446744073709551616; blia).
  reflexivity.
Qed.
Lemma ds_msg_len : blen (enc_dataspace {| ds_dims := dims; ds_maxdims := [] |}) = 8 + 8 * blen dims.
Proof using. clear Hname Hdt Hdims Hlen Hpos Hbound. rewrite dataspace_blen. unfold size_dataspace. cbn [ds_dims ds_maxdims]. change (blen []) with 0. blia. Qed.
Lemma ly_msg_len : blen (enc_layout SBP (LContig (data_size size dims) DATA_ADDR)) = 18.
Proof using Hlen Hbound. clear - Hlen Hbound. rewrite layout_blen by exact wf_ly. reflexivity. Qed.

Lemma dso_chunk : chunk_size_v2 (oh_msgs dso) = (if class =? DT_FIXED then 12 else 20) + 8 * blen dims + 38.
Proof using Hdt Hlen Hbound. clear - Hdt Hlen Hbound.
  unfold dso, dset_ohdr. cbn [oh_msgs chunk_size_v2 fold_right hm_data].
  rewrite dt_msg_len, ds_msg_len, ly_msg_len. blia.
Qed.
Lemma dso_chunk_bound : chunk_size_v2 (oh_msgs dso) <= 250.
Proof using Hdt Hdims Hlen Hbound. clear - Hdt Hdims Hlen Hbound.
  rewrite dso_chunk. destruct rank_bounds as [_ R]. unfold blen. destruct (class =? DT_FIXED); blia.
Qed.
Lemma dso_ok : ohdr_ok dso.
Proof using Hdt Hdims Hlen Hbound. clear - Hdt Hdims Hlen Hbound.
  unfold ohdr_ok. split; [reflexivity|]. split; [reflexivity|]. split; [pose proof dso_chunk_bound; blia|].
  split; [discriminate|].
  unfold dso, dset_ohdr. cbn [oh_msgs]. repeat constructor; cbn [hm_type hm_data]; unfold MSG_CONT; try blia; try discriminate.
  1: (rewrite dt_msg_len; destruct (class =? DT_FIXED); blia).
  rewrite ds_msg_len; blia.
Qed.
Lemma dsb_split : dsb = enc_ohdr_v2 dso ++ zeros (N.to_nat (OHDR_RESERVE - size_ohdr_v2 dso)).
Proof using. clear Hname Hdt Hdims Hlen Hpos Hbound. reflexivity. Qed.
Lemma dsb_tail : 2 <= blen (zeros (N.to_nat (OHDR_RESERVE - size_ohdr_v2 dso))).
Proof using Hdt Hdims Hlen Hbound. clear - Hdt Hdims Hlen Hbound.
  rewrite blen_zeros. unfold size_ohdr_v2, OHDR_RESERVE. pose proof dso_chunk_bound. blia.
Qed.
Lemma da_bound : da + 600 < B63.
Proof using Hbound. clear - Hbound. unfold da, dset_addr, B63. change DATA_ADDR with 2195. blia. Qed.

Lemma dset_header fuel : (3 < fuel)%nat ->
  run0 f (p_ohdr SB' fuel da) = Ok (proj_ohdr_v2 false dso da).
Proof.
  intros Hf. apply (p_ohdr_placed SB' fuel f da dso (zeros (N.to_nat (OHDR_RESERVE - size_ohdr_v2 dso))) dso_ok).
  - rewrite <- dsb_split. exact P_dset.
  - exact dsb_tail.
  - exact Hf.
  - exact da_bound.
Qed.

(* ------------------------------------------------------------------ Dataset.Read *)
Theorem dataset_read fuel : (3 < fuel)%nat ->
  run0 f (api_read_raw SB' fuel da) = Ok (RawBytes data).
Proof.
  intros Hf. unfold api_read_raw. rewrite run0_bind, (dset_header fuel Hf).
  rewrite run0_swallow.
  unfold proj_ohdr_v2, dso, dset_ohdr. cbn [oh_msgs oh_flags msgs_at_v2 ohp_msgs hm_type hm_data].
  assert (Hattrs : forall m3 m1 m8 o3 o1 o8,
    p_attrs SB' [ {| hmp_type := 3; hmp_offset := o3; hmp_data := m3 |}; {| hmp_type := 1; hmp_offset := o1; hmp_data := m1 |};
                  {| hmp_type := 8; hmp_offset := o8; hmp_data := m8 |} ] = Ret []) by reflexivity.
  rewrite Hattrs. cbn [bind]. rewrite run0_ret.
  unfold p_dataset_raw.
  cbn [find_msg fold_left hmp_type hmp_data N.eqb Pos.eqb].
  rewrite (datatype_roundtrip _ wf_dt), (dataspace_roundtrip _ wf_ds).
  change (sbp SB') with SBP. rewrite (layout_roundtrip _ _ wf_ly).
  cbn [obind lift bind fst snd proj_dataspace proj_layout dsp_type dsp_dims ds_dims ly_class ly_addr ly_compact ly_chunk N.eqb Pos.eqb].
  fold (total_elems dims).
  assert (Hsz : dt_size (proj_datatype (dtype_msg class size cbf)) = size).
  { unfold proj_datatype, dtype_msg. cbn [dt_class dt_size]. destruct dtype_cases as [(-> & _)|(-> & _)]; reflexivity. }
  rewrite Hsz. rewrite <- Hlen.
  replace (total_elems dims =? 0) with false
    by (symmetry; apply N.eqb_neq; intros E; rewrite E in Hlen; blia).
  replace (18446744073709551616 <=? blen data) with false by (symmetry; apply N.leb_gt; blia).
  rewrite run0_bind.
  rewrite (run0_read_bytes_at f DATA_ADDR data (blen data) P_data eq_refl Hpos)
    by (unfold MAXI64; change DATA_ADDR with 2195; blia).
  reflexivity.
Qed.

(* what the reader decodes from the header: the datatype and the shape that were given to CreateDataset *)
Theorem dataset_type_shape fuel : (3 < fuel)%nat ->
  exists h, run0 f (p_ohdr SB' fuel da) = Ok h /\
    (d <- match find_msg 3 (ohp_msgs h) with Some b => dec_datatype b | None => Err end;;
     s <- match find_msg 1 (ohp_msgs h) with Some b => dec_dataspace b | None => Err end;;
     Ok (dt_class d, dt_size d, dt_cbf d, dsp_dims s)) = Ok (class, size, cbf, dims).
Proof.
  intros Hf. eexists. split; [exact (dset_header fuel Hf)|].
  unfold proj_ohdr_v2, dso, dset_ohdr. cbn [oh_msgs oh_flags msgs_at_v2 ohp_msgs hm_type hm_data].
  cbn [find_msg fold_left hmp_type hmp_data N.eqb Pos.eqb].
  rewrite (datatype_roundtrip _ wf_dt), (dataspace_roundtrip _ wf_ds). cbn [obind proj_dataspace dsp_dims ds_dims].
  unfold proj_datatype, dtype_msg. cbn [dt_class dt_size dt_cbf].
  destruct dtype_cases as [(-> & _)|(-> & _)]; reflexivity.
Qed.
End Image.
