(* C06, reader against specification: the attribute message (0x000C) - REFUTATION for version 2.
   The specification pads name, datatype and dataspace to multiples of 8 bytes in version 1 only.  ParseAttributeMessage
   before notes/fixes/c06-attribute-v2-padding.patch (Model/CodecAttr.v dec_attribute_gen false: [adv s = if version <? 3 then
   align8 s else s]; the ties of C11/C07 compare the Go code with the variant the source tree implements) also pads in version 2.  A version 2 attribute whose name / datatype / dataspace sizes are not multiples of 8 is
   therefore decoded from the wrong offsets: usually an error, but not always.  Witness: attribute "a", 1-byte unsigned
   integer, simple dataspace [16] (4-byte lengths), 16 data bytes - accepted by the strict specification decoder; the
   reader returns, without error, a datatype of size 16908296 (version 0), a SCALAR dataspace and 6 data bytes. *)
From HV Require Import Base.Prelude Base.Outcome Base.Bytes Spec.Parse Spec.FormatMsg
  Model.CodecMsg Model.CodecType Model.CodecAttr.

Definition attr_v2_witness : bytes :=
  [2; 0; 2; 0; 12; 0; 8; 0] ++ [97; 0] ++ [16; 0; 0; 0; 1; 0; 0; 0; 0; 0; 8; 0] ++ [2; 1; 0; 1; 16; 0; 0; 0]
  ++ [7; 7; 2; 0; 0; 0; 0; 0; 0; 0; 1; 2; 3; 4; 5; 6].

Lemma attribute_v2_padding_refuted :
  spec_dec_attribute strict 4 false attr_v2_witness =
    Ok ({| as_version := 2; as_cset := 0; as_name := [97]; as_dtype := DFixed 1 1 0 0 0 false 0 8;
           as_space := {| dss_version := 2; dss_type := 1; dss_dims := [16]; dss_maxdims := None |};
           as_data := [7; 7; 2; 0; 0; 0; 0; 0; 0; 0; 1; 2; 3; 4; 5; 6] |}, []) /\
  dec_attribute_gen false false attr_v2_witness =
    Ok {| atp_name := [97];
          atp_dt := {| dt_class := 0; dt_version := 0; dt_size := 16908296; dt_cbf := 0; dt_props := [0; 1; 16; 0] |};
          atp_ds := {| dsp_version := 2; dsp_type := 0; dsp_dims := [1]; dsp_maxdims := None |};
          atp_data := Some [1; 2; 3; 4; 5; 6] |}.
Proof. split; vm_compute; reflexivity. Qed.

(* the same attribute in version 3 (one character-set byte after the sizes, no padding): the reader agrees *)
Definition attr_v3_control : bytes :=
  [3; 0; 2; 0; 12; 0; 8; 0; 0] ++ [97; 0] ++ [16; 0; 0; 0; 1; 0; 0; 0; 0; 0; 8; 0] ++ [2; 1; 0; 1; 16; 0; 0; 0]
  ++ [7; 7; 2; 0; 0; 0; 0; 0; 0; 0; 1; 2; 3; 4; 5; 6].
Lemma attribute_v3_control :
  dec_attribute false attr_v3_control =
    Ok {| atp_name := [97];
          atp_dt := {| dt_class := 0; dt_version := 1; dt_size := 1; dt_cbf := 0; dt_props := [0; 0; 8; 0] |};
          atp_ds := {| dsp_version := 2; dsp_type := 1; dsp_dims := [16]; dsp_maxdims := None |};
          atp_data := Some [7; 7; 2; 0; 0; 0; 0; 0; 0; 0; 1; 2; 3; 4; 5; 6] |}.
Proof. vm_compute; reflexivity. Qed.
