(* C05 - lemmas about the whole-file walker Spec/Walk.v.
   1. [good]: every step of the walk keeps "all recorded extents are non-empty and end inside the file" (the only
      way an extent enters the state is [add_ext], which checks it) -> [walk_extents_in_file].
   2. [walk_never_panics]: by construction of the walk monad.
   3. [mle]: every step is monotone in the fuel -> [walk_fuel_mono]: more fuel never changes an accepted answer.
   4. [walk_ok_sound]: the boolean of the tie composed with the proved [extents_ok_sound]. *)
From HV Require Import Base.Prelude Base.Outcome Base.Bytes Spec.Parse Spec.Format Spec.FormatMsg Spec.FormatNode
  Spec.FormatRef Model.Wellformed Proofs.Wellformed Spec.Walk.

(* ================================================================== 1. extents stay inside the file *)
Section Good.
Variable flen : N.

Definition ext_good (x : xext) : Prop := fst (fst x) < snd (fst x) /\ snd (fst x) <= flen.
Definition inv (st : wstate) : Prop := Forall ext_good (ws_ext st).
Definition good {A} (m : W A) : Prop := forall st a st', m st = WOk (a, st') -> inv st -> inv st'.

Lemma good_ret {A} (a : A) : good (wret a).
Proof. intros st a' st' H I. inversion H; subst; auto. Qed.
Lemma good_err {A} c : good (@wfail A c).
Proof. intros st a st' H; discriminate. Qed.
Lemma good_bind {A B} (m : W A) (k : A -> W B) : good m -> (forall a, good (k a)) -> good (wbind m k).
Proof.
  intros Hm Hk st b st' H I. unfold wbind in H. destruct (m st) as [[a st1]|c] eqn:E; try discriminate.
  eapply Hk; eauto.
Qed.
Lemma good_wl {A} k (o : outcome A) : good (wlc k o).
Proof. intros st a st' H I. unfold wlc in H. destruct o; inversion H; subst; auto. Qed.
Lemma good_wguard k c : good (wguardc k c).
Proof. unfold wguardc. destruct c; [apply good_ret | apply good_err]. Qed.
Lemma good_wget {A} (g : wrest -> A) : good (wget g).
Proof. intros st a st' H I. inversion H; subst; auto. Qed.
Lemma good_wupd g : good (wupd g).
Proof. intros st a st' H I. inversion H; subst. exact I. Qed.
Lemma good_wexts : good wexts.
Proof. intros st a st' H I. inversion H; subst; auto. Qed.
Lemma good_add_ext s e k : good (add_ext flen s e k).
Proof.
  intros st a st' H I. unfold add_ext in H. destruct ((s <? e) && (e <=? flen)) eqn:E; inversion H; subst.
  unfold inv; cbn [ws_ext set_ext]. constructor; auto. split; cbn [fst snd]; lia.
Qed.
Lemma good_wmapM {A B} (g : A -> W B) l : (forall x, good (g x)) -> good (wmapM g l).
Proof.
  intros Hg. induction l as [|x l IH]; cbn [wmapM]. apply good_ret.
  apply good_bind; auto. intros y. apply good_bind; auto. intros ys. apply good_ret.
Qed.
Lemma good_wforM {A} (g : A -> W unit) l : (forall x, good (g x)) -> good (wforM g l).
Proof.
  intros Hg. induction l as [|x l IH]; cbn [wforM]. apply good_ret. apply good_bind; auto.
Qed.

Lemma good_add_soft s e k x : good (add_soft s e k x). Proof. apply good_wupd. Qed.
Lemma good_add_wtags l : good (add_wtags l). Proof. apply good_wupd. Qed.
Lemma good_add_stags l : good (add_stags l). Proof. apply good_wupd. Qed.
Lemma good_add_sum o : good (add_sum o). Proof. apply good_wupd. Qed.
Lemma good_mark_seen a : good (mark_seen a). Proof. apply good_wupd. Qed.
Lemma good_add_link a : good (add_link a). Proof. apply good_wupd. Qed.
Lemma good_add_ref a r : good (add_ref a r). Proof. apply good_wupd. Qed.
Lemma good_add_stab a b h : good (add_stab a b h). Proof. apply good_wupd. Qed.
Lemma good_add_dlink a : good (add_dlink a). Proof. apply good_wupd. Qed.
Lemma good_sdev tol t : good (sdev tol t).
Proof. unfold sdev. destruct (tol (WS t)); [apply good_wupd | apply good_err]. Qed.
Lemma good_xdev tol x : good (xdev tol x).
Proof. unfold xdev. destruct (tol (WX x)); [apply good_wupd | apply good_err]. Qed.
Lemma good_xdevif tol c x : good (xdevif tol c x).
Proof. unfold xdevif. destruct c; [apply good_xdev | apply good_ret]. Qed.

Hint Resolve good_add_soft good_add_wtags good_add_stags good_add_sum good_mark_seen good_add_link good_add_ref good_add_stab good_add_dlink
  good_sdev good_xdev good_xdevif good_add_ext good_ret good_err good_wl good_wguard good_wget good_wupd good_wexts : gooddb.

(* structural descent through a walker body *)
Ltac gd :=
  repeat (cbv beta zeta;
          match goal with
          | |- good (wbind _ _) => apply good_bind; [|intros ?]
          | |- good (wmapM _ _) => apply good_wmapM; intros ?
          | |- good (wforM _ _) => apply good_wforM; intros ?
          | |- good (wret _) => apply good_ret
          | |- good (wfail _) => apply good_err
          | |- good (wlc _ _) => apply good_wl
          | |- good (wguardc _ _) => apply good_wguard
          | |- good (match ?x with _ => _ end) => destruct x
          | |- good _ => solve [auto with gooddb]
          end).

Section G.
Variable f : bytes.
Variable tol : wtolerance.

Lemma good_walk_superblock : good (walk_superblock f flen tol).
Proof. unfold walk_superblock. gd. Qed.

Variable c : wctx.

Lemma good_cont1_body rec : (forall ms, good (rec ms)) -> forall ms, good (cont1_body f flen c rec ms).
Proof. intros Hr ms. unfold cont1_body. gd. Qed.
Lemma good_cont1 fuel : forall ms, good (cont1 f flen c fuel ms).
Proof. induction fuel; cbn [cont1]; intros. apply good_err. apply good_cont1_body; auto. Qed.
Lemma good_cont2_body co rec : (forall ms, good (rec ms)) -> forall ms, good (cont2_body f flen tol c co rec ms).
Proof. intros Hr ms. unfold cont2_body. gd. Qed.
Lemma good_cont2 co fuel : forall ms, good (cont2 f flen tol c co fuel ms).
Proof. induction fuel; cbn [cont2]; intros. apply good_err. apply good_cont2_body; auto. Qed.
Hint Resolve good_cont1 good_cont2 : gooddb.

Lemma good_ohdr_walk fuel addr : good (ohdr_walk f flen tol c fuel addr).
Proof. unfold ohdr_walk. gd. Qed.
Lemma good_local_heap addr : good (local_heap f flen c addr).
Proof. unfold local_heap. gd. Qed.
Lemma good_snod_walk seg addr : good (snod_walk f flen tol c seg addr).
Proof. unfold snod_walk. gd. Qed.
Lemma good_btree1_node nt nd K kind addr top level : good (btree1_node f flen tol c nt nd K kind addr top level).
Proof. unfold btree1_node. gd. Qed.
Hint Resolve good_ohdr_walk good_local_heap good_snod_walk good_btree1_node : gooddb.

Lemma good_gbtree_body seg rec : (forall a t l, good (rec a t l)) -> forall a t l, good (gbtree_body f flen tol c seg rec a t l).
Proof. intros Hr a t l. unfold gbtree_body. gd. Qed.
Lemma good_gbtree seg fuel : forall a t l, good (gbtree f flen tol c seg fuel a t l).
Proof. induction fuel; cbn [gbtree]; intros. apply good_err. apply good_gbtree_body; auto. Qed.
Lemma good_cbtree_body nd rec : (forall a t l, good (rec a t l)) -> forall a t l, good (cbtree_body f flen tol c nd rec a t l).
Proof. intros Hr a t l. unfold cbtree_body. gd. Qed.
Lemma good_cbtree nd fuel : forall a t l, good (cbtree f flen tol c nd fuel a t l).
Proof. induction fuel; cbn [cbtree]; intros. apply good_err. apply good_cbtree_body; auto. Qed.
Hint Resolve good_gbtree good_cbtree : gooddb.

Lemma good_dblock h ha os a ho sz : good (dblock f flen tol c h ha os a ho sz).
Proof. unfold dblock. gd. Qed.
Hint Resolve good_dblock : gooddb.
Lemma good_fheap_walk addr : good (fheap_walk f flen tol c addr).
Proof. unfold fheap_walk. gd. Qed.
Lemma good_btree2_walk addr : good (btree2_walk f flen tol c addr).
Proof. unfold btree2_walk. gd. Qed.
Hint Resolve good_fheap_walk good_btree2_walk : gooddb.
Lemma good_dense_attrs d : good (dense_attrs f flen tol c d).
Proof. unfold dense_attrs. gd. Qed.
Lemma good_dense_links pad d : good (dense_links f flen tol c pad d).
Proof. unfold dense_links. gd. Qed.
Hint Resolve good_dense_links : gooddb.
Lemma good_dataset_data cb lay esz dims total fl :
  (forall nd a t l, good (cb nd a t l)) -> good (dataset_data flen tol c cb lay esz dims total fl).
Proof. intros Hc. unfold dataset_data. gd. Qed.
Hint Resolve good_dense_attrs : gooddb.

Lemma good_obj_body fuel rec : (forall a p, good (rec a p)) -> forall a p, good (obj_body f flen tol c fuel rec a p).
Proof.
  intros Hr a p. unfold obj_body. gd.
  all: try (apply good_dataset_data; intros; apply good_cbtree).
Qed.
Lemma good_walk_obj fuel : forall a p, good (walk_obj f flen tol c fuel a p).
Proof. induction fuel; cbn [walk_obj]; intros. apply good_err. apply good_obj_body; auto. Qed.
End G.

Lemma good_finish tol sb : good (finish flen tol sb).
Proof. unfold finish. gd. Qed.

Lemma good_walk_all f tol fuel : good (walk_all f flen tol fuel).
Proof.
  unfold walk_all. apply good_bind. apply good_walk_superblock. intros sb. cbv zeta.
  apply good_bind. { gd. apply good_ohdr_walk. } intros ks. cbv zeta.
  apply good_bind. apply good_walk_obj. intros _. apply good_bind. apply good_add_link. intros _.
  apply good_bind. apply good_finish. intros _. apply good_ret.
Qed.
End Good.

Lemma walk_extents_in_file : forall tol fuel f r, walk tol fuel f = Ok r ->
  Forall (fun x : xext => fst (fst x) < snd (fst x) /\ snd (fst x) <= blen f) (wr_extents r).
Proof.
  intros tol fuel f r H. unfold walk, walk_run in H.
  destruct (walk_all f (blen f) tol fuel st0) as [[sb st]|c] eqn:E; try discriminate.
  inversion H; subst; cbn [wr_extents].
  apply (good_walk_all (blen f) f tol fuel st0 sb st E). constructor.
Qed.

(* ================================================================== 2. never Panic *)
Lemma walk_never_panics : forall tol fuel f, walk tol fuel f <> Panic.
Proof.
  intros tol fuel f. unfold walk, walk_run. destruct (walk_all f (blen f) tol fuel st0) as [[sb st]|c]; discriminate.
Qed.

(* ================================================================== 4. the boolean of the tie *)
Lemma plain_in : forall (l : list xext) (P : ext -> Prop), Forall (fun x => P (fst x)) l -> Forall P (plain l).
Proof. intros l P H. unfold plain. induction H; cbn [map]; constructor; auto. Qed.

Lemma walk_ok_sound : forall fuel f, walk_ok fuel f = true ->
  exists r, walk wtolerant fuel f = Ok r /\
    Forall (fun e => fst e < snd e /\ snd e <= blen f /\ snd e <= wr_eof r) (plain (wr_extents r)) /\
    ForallOrdPairs disjoint (plain (wr_extents r)).
Proof.
  intros fuel f H. unfold walk_ok in H. destruct (walk wtolerant fuel f) as [r| |]; try discriminate.
  exists r. split; [reflexivity|]. apply extents_ok_sound. exact H.
Qed.

(* the boolean, given the result of the tolerant walk (Model/WalkJudgeTie.v evaluates the right-hand side) *)
Lemma walk_ok_of_result : forall fuel f r, walk wtolerant fuel f = Ok r ->
  walk_ok fuel f = extents_ok (blen f) (wr_eof r) (plain (wr_extents r)).
Proof. intros fuel f r H. unfold walk_ok. rewrite H. reflexivity. Qed.

(* ================================================================== 3. more fuel never changes an accepted answer *)
Definition mle {A} (m1 m2 : W A) : Prop := forall st r, m1 st = WOk r -> m2 st = WOk r.

Lemma mle_refl {A} (m : W A) : mle m m.
Proof. intros st r H; exact H. Qed.
Lemma mle_bind {A B} (m1 m2 : W A) (k1 k2 : A -> W B) :
  mle m1 m2 -> (forall a, mle (k1 a) (k2 a)) -> mle (wbind m1 k1) (wbind m2 k2).
Proof.
  intros Hm Hk st r H. unfold wbind in *. destruct (m1 st) as [[a st1]|c] eqn:E; try discriminate.
  rewrite (Hm _ _ E). apply Hk. exact H.
Qed.
Lemma mle_wmapM {A B} (g1 g2 : A -> W B) l : (forall x, mle (g1 x) (g2 x)) -> mle (wmapM g1 l) (wmapM g2 l).
Proof.
  intros Hg. induction l as [|x l IH]; cbn [wmapM]. apply mle_refl.
  apply mle_bind; auto. intros y. apply mle_bind; auto. intros ys. apply mle_refl.
Qed.
Lemma mle_wforM {A} (g1 g2 : A -> W unit) l : (forall x, mle (g1 x) (g2 x)) -> mle (wforM g1 l) (wforM g2 l).
Proof.
  intros Hg. induction l as [|x l IH]; cbn [wforM]. apply mle_refl. apply mle_bind; auto.
Qed.
Lemma mle_err {A} c (m : W A) : mle (wfail c) m.
Proof. intros st r H; discriminate. Qed.

Create HintDb mledb.
Ltac mn :=
  repeat (cbv beta zeta;
          match goal with
          | |- mle ?x ?x => apply mle_refl
          | |- mle (wbind _ _) (wbind _ _) => apply mle_bind; [|intros ?]
          | |- mle (wmapM _ _) (wmapM _ _) => apply mle_wmapM; intros ?
          | |- mle (wforM _ _) (wforM _ _) => apply mle_wforM; intros ?
          | |- mle (match ?x with _ => _ end) (match ?x with _ => _ end) => destruct x
          | |- mle _ _ => solve [auto with mledb]
          end).

Section Mono.
Variable f : bytes.
Variable flen : N.
Variable tol : wtolerance.
Variable c : wctx.

Lemma mle_cont1_body r1 r2 : (forall ms, mle (r1 ms) (r2 ms)) -> forall ms, mle (cont1_body f flen c r1 ms) (cont1_body f flen c r2 ms).
Proof. intros Hr ms. unfold cont1_body. mn. Qed.
Lemma mle_cont1 n : forall ms, mle (cont1 f flen c n ms) (cont1 f flen c (S n) ms).
Proof. induction n; intros ms. apply mle_err. cbn [cont1] in *. apply mle_cont1_body; auto. Qed.
Lemma mle_cont2_body co r1 r2 : (forall ms, mle (r1 ms) (r2 ms)) ->
  forall ms, mle (cont2_body f flen tol c co r1 ms) (cont2_body f flen tol c co r2 ms).
Proof. intros Hr ms. unfold cont2_body. mn. Qed.
Lemma mle_cont2 co n : forall ms, mle (cont2 f flen tol c co n ms) (cont2 f flen tol c co (S n) ms).
Proof. induction n; intros ms. apply mle_err. cbn [cont2] in *. apply mle_cont2_body; auto. Qed.
Hint Resolve mle_cont1 mle_cont2 : mledb.

Lemma mle_ohdr_walk n addr : mle (ohdr_walk f flen tol c n addr) (ohdr_walk f flen tol c (S n) addr).
Proof. unfold ohdr_walk. mn. Qed.

Lemma mle_gbtree_body seg r1 r2 : (forall a t l, mle (r1 a t l) (r2 a t l)) ->
  forall a t l, mle (gbtree_body f flen tol c seg r1 a t l) (gbtree_body f flen tol c seg r2 a t l).
Proof. intros Hr a t l. unfold gbtree_body. mn. Qed.
Lemma mle_gbtree seg n : forall a t l, mle (gbtree f flen tol c seg n a t l) (gbtree f flen tol c seg (S n) a t l).
Proof. induction n; intros a t l. apply mle_err. cbn [gbtree] in *. apply mle_gbtree_body; auto. Qed.
Lemma mle_cbtree_body nd r1 r2 : (forall a t l, mle (r1 a t l) (r2 a t l)) ->
  forall a t l, mle (cbtree_body f flen tol c nd r1 a t l) (cbtree_body f flen tol c nd r2 a t l).
Proof. intros Hr a t l. unfold cbtree_body. mn. Qed.
Lemma mle_cbtree nd n : forall a t l, mle (cbtree f flen tol c nd n a t l) (cbtree f flen tol c nd (S n) a t l).
Proof. induction n; intros a t l. apply mle_err. cbn [cbtree] in *. apply mle_cbtree_body; auto. Qed.
Hint Resolve mle_ohdr_walk mle_gbtree mle_cbtree : mledb.

Lemma mle_dataset_data cb1 cb2 lay esz dims total fl : (forall nd a t l, mle (cb1 nd a t l) (cb2 nd a t l)) ->
  mle (dataset_data flen tol c cb1 lay esz dims total fl) (dataset_data flen tol c cb2 lay esz dims total fl).
Proof. intros Hc. unfold dataset_data. mn. Qed.

Lemma mle_obj_body n r1 r2 : (forall a p, mle (r1 a p) (r2 a p)) ->
  forall a p, mle (obj_body f flen tol c n r1 a p) (obj_body f flen tol c (S n) r2 a p).
Proof.
  intros Hr a p. unfold obj_body. mn.
  all: try (apply mle_dataset_data; intros; apply mle_cbtree).
Qed.
Lemma mle_walk_obj n : forall a p, mle (walk_obj f flen tol c n a p) (walk_obj f flen tol c (S n) a p).
Proof. induction n; intros a p. apply mle_err. cbn [walk_obj] in *. apply mle_obj_body; auto. Qed.
End Mono.

Lemma mle_walk_all f flen tol n : mle (walk_all f flen tol n) (walk_all f flen tol (S n)).
Proof.
  unfold walk_all. apply mle_bind. apply mle_refl. intros sb. cbv zeta.
  apply mle_bind. { mn. apply mle_ohdr_walk. } intros ks. cbv zeta.
  apply mle_bind. apply mle_walk_obj. intros _. apply mle_refl.
Qed.

Lemma walk_fuel_step : forall tol fuel f r, walk tol fuel f = Ok r -> walk tol (S fuel) f = Ok r.
Proof.
  intros tol fuel f r H. unfold walk, walk_run in *.
  destruct (walk_all f (blen f) tol fuel st0) as [[sb st]|c] eqn:E; try discriminate.
  rewrite (mle_walk_all f (blen f) tol fuel st0 _ E). exact H.
Qed.

Lemma walk_fuel_mono : forall tol fuel fuel' f r, (fuel <= fuel')%nat -> walk tol fuel f = Ok r -> walk tol fuel' f = Ok r.
Proof.
  intros tol fuel fuel' f r Hle H. induction Hle; auto. apply walk_fuel_step; auto.
Qed.

(* the boolean of the tie is monotone in the fuel as well *)
Lemma walk_ok_fuel_mono : forall fuel fuel' f, (fuel <= fuel')%nat -> walk_ok fuel f = true -> walk_ok fuel' f = true.
Proof.
  intros fuel fuel' f Hle H. unfold walk_ok in *. destruct (walk wtolerant fuel f) as [r| |] eqn:E; try discriminate.
  rewrite (walk_fuel_mono _ _ _ _ _ Hle E). exact H.
Qed.
