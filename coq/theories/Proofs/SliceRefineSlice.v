(* C09 at file level: Dataset.ReadSlice(start, count) as an I/O program on the whole-file image of a contiguous dataset:
   the selection of the written data when the request lies inside the dataset and has at most 10^9 elements (a count of 0:
   the empty result without I/O), an error otherwise. *)
From HV Require Import Base.Prelude Base.Outcome Base.Bytes Model.IOProg Proofs.IOProg Model.IOProgReader Model.IOProgSlice.
From HV Require Import Model.CodecSuper Model.CodecType Model.FileImage Proofs.FileImage Proofs.FileImageOhdr Proofs.FileImageData
  Proofs.FileImageProd Proofs.FileImageMain.
From HV Require Import Model.SliceRefine Proofs.SliceRefineBytes Proofs.SliceRefineArith Proofs.SliceRefineValidate
  Proofs.SliceRefineMain Proofs.SliceRefineFile Proofs.SliceRefineTop.
From HV Require Proofs.HyperslabBase Proofs.HyperslabValidate Proofs.HyperslabRefuted Proofs.SliceRefineSliceH Proofs.SliceRefineFit.
Module SH := HV.Proofs.SliceRefineSliceH.

Lemma wrap64_0 : wrap64 0 = 0.
Proof. apply wrap64_small. lia. Qed.

(* calculateHyperslabOutputSize is 0 as soon as one count is 0, whatever wrapped before *)
Lemma osz_fold_from_zero cn bl : forall l,
  fold_left (fun t i => let b := nthN bl i in wrap64 (t * wrap64 (nthN cn i * (if b =? 0 then 1 else b)))) l 0 = 0.
Proof. induction l as [|i l IH]; cbn [fold_left]; [reflexivity|]. cbv zeta. rewrite N.mul_0_l, wrap64_0. exact IH. Qed.
Lemma osz_fold_zero cn bl : forall l t, (exists i, In i l /\ nthN cn i = 0) ->
  fold_left (fun t i => let b := nthN bl i in wrap64 (t * wrap64 (nthN cn i * (if b =? 0 then 1 else b)))) l t = 0.
Proof.
  induction l as [|j l IH]; intros t (i & Hi & Hz); [destruct Hi|]. cbn [fold_left]. destruct Hi as [->|Hi].
  - cbv zeta. rewrite Hz, N.mul_0_l, wrap64_0, N.mul_0_r, wrap64_0. apply osz_fold_from_zero.
  - apply IH. eauto.
Qed.
Lemma out_size_zero_count s : Exists (eq 0) (count s) -> out_size s = 0.
Proof.
  intros H. unfold out_size. destruct (count s) as [|c0 cr] eqn:Ec; [reflexivity|].
  apply osz_fold_zero. apply Exists_exists in H. destruct H as (x & Hx & <-).
  destruct (In_nth _ _ 0 Hx) as (k & Hk & Hn). exists k. split; [|exact Hn].
  unfold idxs. apply in_seq. lia.
Qed.

Section Slice.
Variable name : bytes.
Variables class size cbf : N.
Variable dims : list N.
Variable data : bytes.
Hypothesis Hname : link_name_ok name = true.
Hypothesis Hdt : basic_dtype class size cbf = true.
Hypothesis Hdims : dims_ok dims = true.
Hypothesis Hlen : blen data = product dims * size.
Hypothesis Hbound : blen data < 4294967296.
Local Notation f := (image_v2 name class size cbf dims data).
Local Notation da := (dset_addr data).

Let HL' := Hlen' class size cbf dims data Hdt Hdims Hlen Hbound.

Lemma gate_ok : size = 4 \/ size = 8 -> negb (((class =? 1) || (class =? 0)) && ((size =? 4) || (size =? 8))) = false.
Proof. intros Hsz. destruct (dtype_cases class size cbf Hdt) as [(-> & _)|(-> & _)]; destruct Hsz; subst; reflexivity. Qed.

Theorem file_read_slice_contiguous st cn hfuel : (3 < hfuel)%nat -> size = 4 \/ size = 8 ->
  Forall Hs.u64 st -> Forall Hs.u64 cn ->
  (Hs.slice_valid st cn dims -> Hs.prodN cn <= Hs.max_hyperslab_elements ->
   exists sd, run0 f (api_read_slice SB' hfuel da st cn) = Ok sd /\
     slice_value size dims [] (Hs.slice_axes st cn) sd = Hs.select (evals size data) dims (Hs.slice_axes st cn)) /\
  (~ Hs.slice_valid st cn dims -> run0 f (api_read_slice SB' hfuel da st cn) = Err) /\
  (Hs.slice_valid st cn dims -> Hs.max_hyperslab_elements < Hs.prodN cn -> run0 f (api_read_slice SB' hfuel da st cn) = Err).
Proof.
  intros Hf Hsz U1 U2. pose proof (dims_ok_u64 _ Hdims) as Ud. pose proof (dims_ok_ne _ Hdims) as Dne.
  unfold api_read_slice. rewrite (slice_head name class size cbf dims data Hname Hdt Hdims HL' Hbound hfuel _ Hf).
  rewrite (validate_slice_refines st cn dims Ud U1 U2).
  set (s0 := {| s_start := st; s_count := cn; s_stride := None; s_block := None |}).
  pose proof (SH.u64_sel_slice st cn (length dims) U1 U2) as HU.
  change (Hs.mkSel st cn None None) with (hsel_of s0) in HU.
  split; [|split].
  - intros SV Hlim. rewrite (proj2 (HyperslabValidate.slice_validate_ok st cn dims Ud) SV).
    pose proof SV as (L1 & L2 & _).
    destruct (SH.zero_or_pos cn) as [Z|P].
    + exists SlEmpty. split.
      * unfold after_decode. rewrite (gate_ok Hsz).
        rewrite (out_size_zero_count (fill s0 (length dims))) by exact Z. cbn [N.eqb].
        cbn [fill count s_count s0]. rewrite L2, Nat.ltb_irrefl. reflexivity.
      * cbn [slice_value]. symmetry. apply SH.select_zero_count. apply SH.slice_axes_zero_count; [congruence|exact Z].
    + pose proof (SH.slice_valid_valid st cn dims SV P) as HVd.
      change (Hs.mkSel st cn None None) with (hsel_of s0) in HVd.
      destruct (after_decode_valid name class size cbf dims data Hname Hdt Hdims Hlen Hbound s0 Hsz HU HVd Hlim) as (sd & R & Vl).
      exists sd. split; [exact R|].
      change (hsel_of s0) with (Hs.mkSel st cn None None) in Vl. rewrite (SH.axes_of_slice st cn _ L1) in Vl. exact Vl.
  - intros NV. destruct (Hs.slice_validate st cn dims) eqn:E; [|reflexivity].
    exfalso. apply NV. apply (HyperslabValidate.slice_validate_ok st cn dims Ud). exact E.
  - intros SV Hbig. rewrite (proj2 (HyperslabValidate.slice_validate_ok st cn dims Ud) SV).
    pose proof SV as (L1 & L2 & _).
    assert (P : Forall (fun c => 0 < c) cn) by (apply SH.prod_pos_counts; unfold Hs.max_hyperslab_elements in Hbig; lia).
    pose proof (SH.slice_valid_valid st cn dims SV P) as HVd.
    change (Hs.mkSel st cn None None) with (hsel_of s0) in HVd.
    assert (Hes : 0 < size) by (destruct Hsz; subst; lia).
    assert (HP : Hs.prodN dims < 4294967296) by (rewrite <- product_eq; nia).
    assert (HLs : sel_lens (fill s0 (length dims)) (length dims)).
    { unfold sel_lens. cbn [fill start count stride block s_start s_count s_stride s_block s0]. rewrite !repeat_length. auto. }
    assert (HVa' : Hs.axes_valid (axes_of_sel (fill s0 (length dims))) dims) by (rewrite axes_of_fill; apply HVd).
    pose proof (out_size_eq _ _ HLs HVa' HP Dne) as Eo.
    assert (Axne : axes_of_sel (fill s0 (length dims)) <> []).
    { intros E. pose proof (axes_of_sel_length _ _ HLs) as L. rewrite E in L. destruct dims; [congruence|discriminate]. }
    pose proof (SliceRefineFit.out_elems_pos _ _ HVa' Axne) as Hn.
    unfold after_decode. rewrite (gate_ok Hsz).
    replace (out_size (fill s0 (length dims)) =? 0) with false by (symmetry; apply N.eqb_neq; lia).
    set (s1 := refill (fill s0 (length dims))).
    assert (HU1 : HyperslabValidate.u64_sel (hsel_of s1) (length dims)).
    { destruct HU as (A & B & C & D). unfold HyperslabValidate.u64_sel. repeat split; assumption. }
    rewrite (validate_refines s1 dims Ud HU1).
    destruct (Hs.validate (hsel_of s1) dims) eqn:E; [|reflexivity].
    exfalso. apply SH.validate_count_bound in E. cbn in E. lia.
Qed.
End Slice.

(* ------------------------------------------------------------------ the hypotheses are satisfiable *)
Lemma forallb_u64 l : forallb (fun x => x <=? Hs.u64max) l = true -> Forall Hs.u64 l.
Proof. intros H. apply Forall_forall. intros x Hx. rewrite forallb_forall in H. apply N.leb_le. now apply H. Qed.

Definition wit_sel : selection := {| s_start := [0; 1]; s_count := [2; 2]; s_stride := Some [2; 3]; s_block := Some [2; 2] |}.
Definition wit_data : bytes := flat_map (fun i => [i; 0; 0; 0]) (Hs.nrange 24).

(* int32 [4,6] = 0..23, ReadHyperslab(start [0,1], count [2,2], stride [2,3], block [2,2]); ReadSlice([1,2], [2,3]) *)
Example file_slice_witness :
  link_name_ok [100] = true /\ basic_dtype 0 4 8 = true /\ dims_ok [4; 6] = true /\
  blen wit_data = product [4; 6] * 4 /\ blen wit_data < 4294967296 /\
  HyperslabValidate.u64_sel (hsel_of wit_sel) (length [4; 6]) /\ Hs.valid (hsel_of wit_sel) [4; 6] /\
  Hs.prodN (s_count wit_sel) <= Hs.max_hyperslab_elements /\
  Forall Hs.u64 [1; 2] /\ Forall Hs.u64 [2; 3] /\ Hs.slice_valid [1; 2] [2; 3] [4; 6] /\ Hs.prodN [2; 3] <= Hs.max_hyperslab_elements.
Proof.
  split; [vm_compute; reflexivity|]. split; [vm_compute; reflexivity|]. split; [vm_compute; reflexivity|].
  split; [vm_compute; reflexivity|]. split; [vm_compute; reflexivity|].
  split.
  { unfold HyperslabValidate.u64_sel. split; [|split; [|split]]; apply forallb_u64; vm_compute; reflexivity. }
  split; [apply HyperslabRefuted.validb_spec; vm_compute; reflexivity|].
  split; [vm_compute; discriminate|].
  split; [apply forallb_u64; vm_compute; reflexivity|]. split; [apply forallb_u64; vm_compute; reflexivity|].
  split; [|vm_compute; discriminate].
  apply (HyperslabValidate.slice_validate_ok [1; 2] [2; 3] [4; 6]); [apply forallb_u64|]; vm_compute; reflexivity.
Qed.
