(* C05, node level: the writer's global heap collection encoder (Model/GHeap.v encode_collection, the transcription of
   global_heap_write.go encodeHeapCollection that C12 ties on every run) against the format SPECIFICATION decoder
   Spec/FormatNode.v spec_dec_gcol (III.E).

   For every well-formed collection builder (Proofs/GHeap.v wfc: the invariant of every reachable writer state) of at least
   4096 bytes the specification decoder returns the declared size and exactly the objects the builder holds; the only
   departure is the size field of the free-space object (listed: C05-gcol-free-size), present iff the collection has at
   least 16 free bytes.  Composed with the writer's invariant: after ANY history of WriteToGlobalHeap calls and other
   allocations followed by Flush, every collection on disk decodes that way and every written datum is an object of the
   collection its heap id names. *)
From HV Require Import Base.Prelude Base.Outcome Base.Bytes Spec.Parse Spec.Format Spec.FormatNode.
From HV Require Model.GHeap Proofs.GHeap.
Module MG := HV.Model.GHeap.
Module PG := HV.Proofs.GHeap.

(* the logical content of a builder's object, in the specification's vocabulary *)
Definition spec_obj (o : MG.gobj) : gobj_spec :=
  {| go_index := MG.o_index o; go_refcount := MG.o_ref o; go_data := MG.o_data o |}.

(* the deviations of one collection *)
Definition gcol_tags (c : MG.coll) : list tag := if 16 <=? MG.c_free c then [T_gcol_free_size] else [].

Lemma pow256_8 : 256 ^ N.of_nat 8 = PG.W64.
Proof. reflexivity. Qed.
Lemma pow256_2 : 256 ^ N.of_nat 2 = 65536.
Proof. reflexivity. Qed.

Lemma up8_align8 n : up8 n = MG.align8 n.
Proof. unfold up8, MG.align8. destruct (n mod 8 =? 0) eqn:E; lia. Qed.

Lemma length_mzeros n : length (MG.zeros n) = N.to_nat n.
Proof. unfold MG.zeros. apply repeat_length. Qed.

Lemma all_zero_mzeros n : all_zero (MG.zeros n) = true.
Proof. unfold MG.zeros. induction (N.to_nat n); cbn [repeat all_zero forallb]; auto. Qed.

(* the free-space object (or the few bytes left when there is no room for one) ends the object list *)
Definition tail_res (tol : tolerance) (free : N) : outcome (list gobj_spec * list tag) :=
  if 16 <=? free then (tg <- dev tol T_gcol_free_size;; Ok ([], tg)) else Ok ([], []).

Lemma p_gobjs_tail tol free f seen :
  (1 <= f)%nat -> free < PG.W64 ->
  p_gobjs tol 8 f seen
    ((if 16 <=? free then le 2 0 ++ le 2 0 ++ [0; 0; 0; 0] ++ le 8 (free - 16) else [])
     ++ MG.zeros (if 16 <=? free then free - 16 else free)) = tail_res tol free.
Proof.
  intros Hf Hfree. unfold tail_res. destruct f as [|f]; [lia|].
  destruct (16 <=? free) eqn:E.
  - rewrite <- !app_assoc. cbn [p_gobjs]. change (8 + 8)%nat with 16%nat.
    match goal with |- context [Nat.ltb ?a 16] => replace (Nat.ltb a 16) with false end.
    2:{ symmetry. apply Nat.ltb_ge. bnorm. rewrite !app_length, !length_le. cbn [length]. lia. }
    rewrite p_u_le by (rewrite pow256_2; lia). cbn [obind].
    rewrite p_u_le by (rewrite pow256_2; lia). cbn [obind].
    change [0; 0; 0; 0] with (zeros 4). rewrite p_zeros_app. cbn [obind].
    rewrite p_u_le by (rewrite pow256_8; unfold PG.W64 in *; lia). cbn [obind].
    cbn [N.eqb].
    match goal with |- context [if free - 16 =? ?a then Ok ([], []) else _] => replace (free - 16 =? a) with false end.
    2:{ symmetry. apply N.eqb_neq. unfold blen. bnorm. rewrite !app_length, !length_le, length_zeros, length_mzeros. lia. }
    cbv iota.
    match goal with |- context [if free - 16 =? ?a then _ else _] => replace (free - 16 =? a) with true end.
    2:{ symmetry. apply N.eqb_eq. unfold blen. rewrite length_mzeros. lia. }
    reflexivity.
  - cbn [app p_gobjs]. change (8 + 8)%nat with 16%nat.
    match goal with |- context [Nat.ltb ?a 16] => replace (Nat.ltb a 16) with true end; [reflexivity|].
    symmetry. apply Nat.ltb_lt. rewrite length_mzeros. lia.
Qed.

(* the objects of a builder, one after the other, then a tail [T] whose decoding does not depend on fuel or indices seen *)
Lemma p_gobjs_enc tol (T : bytes) (R : outcome (list gobj_spec * list tag)) :
  (forall f seen, (1 <= f)%nat -> p_gobjs tol 8 f seen T = R) ->
  forall objs k seen fuel,
  PG.objs_from k objs -> 0 < k -> k + N.of_nat (length objs) <= 65536 ->
  PG.total_of objs < PG.W64 ->
  (forall x, In x seen -> x < k) ->
  (length objs < fuel)%nat ->
  p_gobjs tol 8 fuel seen (flat_map MG.enc_obj objs ++ T) =
    ('(rest, tg) <- R;; Ok (map spec_obj objs ++ rest, tg)).
Proof.
  intros HT. induction objs as [|o objs IH]; intros k seen fuel Hf Hk Hn Ht Hseen Hfuel.
  - cbn [flat_map app map]. rewrite HT by (cbn [length] in Hfuel; lia).
    destruct R as [[rest tg]| |]; reflexivity.
  - destruct fuel as [|fuel]; [cbn [length] in Hfuel; lia|].
    cbn [PG.objs_from] in Hf. destruct Hf as (Hi & Hr & Hf).
    cbn [flat_map PG.total_of length map] in *.
    destruct o as [i r d]. cbn [MG.o_index MG.o_ref MG.o_data] in *. subst i r.
    rewrite (PG.enc_obj_unfold k 1 d). rewrite <- !app_assoc.
    pose proof (PG.obj_total_ge (MG.blen d)) as (Ho1 & Ho2 & _).
    assert (Hd : MG.blen d < PG.W64) by lia.
    set (pad := MG.zeros (MG.align8 (MG.blen d) - MG.blen d)).
    set (rest := flat_map MG.enc_obj objs ++ T).
    cbn [p_gobjs]. change (8 + 8)%nat with 16%nat.
    match goal with |- context [Nat.ltb ?a 16] => replace (Nat.ltb a 16) with false end.
    2:{ symmetry. apply Nat.ltb_ge. bnorm. rewrite !app_length, !length_le. cbn [length]. lia. }
    rewrite p_u_le by (rewrite pow256_2; lia). cbn [obind].
    rewrite p_u_le by (rewrite pow256_2; lia). cbn [obind].
    change [0; 0; 0; 0] with (zeros 4). rewrite p_zeros_app. cbn [obind].
    rewrite p_u_le by (rewrite pow256_8; exact Hd). cbn [obind].
    replace (k =? 0) with false by (symmetry; apply N.eqb_neq; lia).
    rewrite (PG.existsb_fresh k seen Hseen). cbn [negb guard obind].
    rewrite p_take_app by (unfold MG.blen; symmetry; apply Nat2N.id). cbn [obind].
    rewrite up8_align8.
    rewrite p_take_app by (unfold pad; rewrite length_mzeros; reflexivity). cbn [obind].
    unfold rest. rewrite (IH (k + 1) (k :: seen) fuel); try assumption; try lia.
    + destruct R as [[rs tg]| |]; reflexivity.
    + intros x [<- | Hx]; [lia|]. specialize (Hseen x Hx). lia.
Qed.

(* ------------------------------------------------------------------ one collection, any tolerance *)
Theorem spec_gcol_encoded tol c b :
  PG.wfc c -> 4096 <= MG.c_size c -> MG.encode_collection c = Some b ->
  spec_dec_gcol tol 8 b =
    (tg <- devif (16 <=? MG.c_free c) tol T_gcol_free_size;;
     Ok (MG.c_size c, map spec_obj (MG.c_objs c), tg, [])).
Proof.
  intros Hw Hsz He.
  destruct (PG.encode_wfc c Hw) as (He' & Hlen).
  assert (b = MG.coll_content c ++ MG.zeros (PG.tail_zeros c)) by congruence. subst b. clear He He'.
  pose proof (PG.wfc_bounds c Hw) as (Hfree & Htot & _ & Hcnt).
  destruct Hw as [[Hs Hu Hi Hn Hc Hm] Hl].
  rewrite PG.content_shape in *.
  set (body := flat_map MG.enc_obj (MG.c_objs c) ++ MG.enc_free c ++ MG.zeros (PG.tail_zeros c)) in *.
  assert (Hbody : length body = N.to_nat (MG.c_size c - 16)).
  { unfold MG.blen in Hlen. rewrite !app_length, length_le in Hlen. cbn [length MG.sig_gcol] in Hlen. lia. }
  rewrite <- !app_assoc.
  unfold spec_dec_gcol. change MG.sig_gcol with gcol_sig.
  rewrite p_expect_app. cbn [obind app p_byte N.eqb Pos.eqb guard].
  change (0 :: 0 :: 0 :: le 8 (MG.c_size c) ++ body) with (zeros 3 ++ le 8 (MG.c_size c) ++ body).
  rewrite p_zeros_app. cbn [obind].
  rewrite p_u_le by (rewrite pow256_8; exact Hl). cbn [obind].
  replace (4096 <=? MG.c_size c) with true by (symmetry; apply N.leb_le; exact Hsz). cbn [guard obind].
  change (8 + N.of_nat 8) with 16.
  rewrite p_take_all by exact Hbody. cbn [obind].
  unfold body at 2.
  rewrite (p_gobjs_enc tol (MG.enc_free c ++ MG.zeros (PG.tail_zeros c)) (tail_res tol (MG.c_free c))) with (k := 1).
  - unfold tail_res, devif. destruct (16 <=? MG.c_free c); cbn [obind]; [|now rewrite app_nil_r].
    destruct (dev tol T_gcol_free_size); cbn [obind]; [now rewrite app_nil_r | reflexivity | reflexivity].
  - intros f seen Hf1. unfold MG.enc_free, PG.tail_zeros. now apply p_gobjs_tail.
  - exact Hi.
  - lia.
  - lia.
  - exact Htot.
  - intros x [].
  - assert (Hb2 : N.of_nat (length (MG.c_objs c)) * 16 <= MG.c_size c - 16).
    { pose proof (PG.total_of_count (MG.c_objs c)). lia. }
    rewrite Hbody. lia.
Qed.

Corollary spec_gcol_tolerant c b :
  PG.wfc c -> 4096 <= MG.c_size c -> MG.encode_collection c = Some b ->
  spec_dec_gcol tolerant 8 b = Ok (MG.c_size c, map spec_obj (MG.c_objs c), gcol_tags c, []).
Proof.
  intros Hw Hsz He. rewrite (spec_gcol_encoded tolerant c b Hw Hsz He). unfold devif, gcol_tags, dev, tolerant.
  destruct (16 <=? MG.c_free c); reflexivity.
Qed.

(* strict accepts exactly when the tag set is empty *)
Corollary spec_gcol_strict c b :
  PG.wfc c -> 4096 <= MG.c_size c -> MG.encode_collection c = Some b ->
  spec_dec_gcol strict 8 b =
    match gcol_tags c with [] => Ok (MG.c_size c, map spec_obj (MG.c_objs c), [], []) | _ => Err end.
Proof.
  intros Hw Hsz He. rewrite (spec_gcol_encoded strict c b Hw Hsz He). unfold devif, gcol_tags, dev, strict.
  destruct (16 <=? MG.c_free c); reflexivity.
Qed.

(* the listed finding, universally: whenever a free-space object is written the strict decoder rejects the collection *)
Corollary gcol_free_size_refuted c b :
  PG.wfc c -> 4096 <= MG.c_size c -> MG.encode_collection c = Some b -> 16 <= MG.c_free c ->
  spec_dec_gcol strict 8 b = Err /\
  spec_dec_gcol tolerant 8 b = Ok (MG.c_size c, map spec_obj (MG.c_objs c), [T_gcol_free_size], []).
Proof.
  intros Hw Hsz He Hfree. rewrite (spec_gcol_strict c b Hw Hsz He), (spec_gcol_tolerant c b Hw Hsz He).
  unfold gcol_tags. replace (16 <=? MG.c_free c) with true by (symmetry; apply N.leb_le; exact Hfree). auto.
Qed.

(* ------------------------------------------------------------------ composition with the writer's invariant *)
Lemma encode_collection_len c b : MG.encode_collection c = Some b -> MG.blen b = MG.c_size c.
Proof.
  unfold MG.encode_collection. destruct (MG.blen (MG.coll_content c) <=? MG.c_size c) eqn:E; [|discriminate].
  apply N.leb_le in E. intros H.
  assert (Hb : b = MG.coll_content c ++ MG.zeros (MG.c_size c - MG.blen (MG.coll_content c))) by congruence.
  rewrite Hb, PG.blen_app, PG.blen_zeros. lia.
Qed.

Section History.
Variables minsz blk : N.
Hypothesis Hblk : 0 < blk.

(* every collection, open or written, has at least the minimum collection size *)
Definition big (st : MG.gstate) : Prop :=
  (forall c, MG.cur st = Some c -> minsz <= MG.c_size c) /\
  (forall a b, In (a, b) (MG.disk st) -> minsz <= MG.blen b).

Lemma new_size_ge tot : minsz <= MG.new_size minsz blk tot.
Proof.
  unfold MG.new_size. cbv zeta. destruct (minsz <? 16 + tot + 16) eqn:E; [|lia].
  set (needed := 16 + tot + 16) in *. nia.
Qed.

Lemma big_write st d st' id : big st -> MG.write_obj minsz blk st d = Some (st', id) -> big st'.
Proof.
  intros [Hc Hd]. unfold MG.write_obj.
  destruct (MG.cur st) as [c|] eqn:Ecur.
  - destruct (MG.has_space c (MG.obj_total (MG.blen d))); cbn [negb].
    + rewrite Ecur. unfold MG.add_object. intros H. inversion H; subst st' id. clear H.
      split; cbn [MG.cur MG.disk].
      * intros c0 E. inversion E; subst c0. cbn [MG.c_size]. now apply Hc.
      * exact Hd.
    + unfold MG.flush. rewrite Ecur. destruct (MG.encode_collection c) as [b|] eqn:Ee; [|discriminate].
      unfold MG.create_heap. cbn [MG.cur MG.eof MG.disk]. unfold MG.add_object.
      intros H. inversion H; subst st' id. clear H.
      split; cbn [MG.cur MG.disk].
      * intros c0 E. inversion E; subst c0. cbn [MG.c_size]. apply new_size_ge.
      * intros a b0 [E | Hin]; [|now apply (Hd a)].
        inversion E; subst a b0. rewrite (encode_collection_len c b Ee). now apply Hc.
  - unfold MG.flush. rewrite Ecur. unfold MG.create_heap. cbn [MG.cur MG.eof MG.disk]. unfold MG.add_object.
    intros H. inversion H; subst st' id. clear H.
    split; cbn [MG.cur MG.disk].
    + intros c0 E. inversion E; subst c0. cbn [MG.c_size]. apply new_size_ge.
    + exact Hd.
Qed.

Lemma big_run ops : forall st st' ids, big st -> MG.run minsz blk st ops = Some (st', ids) -> big st'.
Proof.
  induction ops as [|o r IH]; intros st st' ids Hb; cbn [MG.run].
  - intros H. inversion H; subst. exact Hb.
  - destruct o as [d | n].
    + destruct (MG.write_obj minsz blk st d) as [[st1 id]|] eqn:Ew; [|discriminate].
      destruct (MG.run minsz blk st1 r) as [[st2 ids2]|] eqn:Er; [|discriminate].
      intros H. inversion H; subst. eapply IH; [|exact Er]. eapply big_write; eauto.
    + intros H. eapply IH; [|exact H]. destruct Hb as [Hc Hd]. split; cbn [MG.cur MG.disk]; auto.
Qed.

Lemma big_flush st fin : big st -> MG.flush st = Some fin -> big fin.
Proof.
  intros [Hc Hd]. unfold MG.flush. destruct (MG.cur st) as [c|] eqn:Ecur.
  - destruct (MG.encode_collection c) as [b|] eqn:Ee; [|discriminate].
    intros H. inversion H; subst fin. split; cbn [MG.cur MG.disk].
    + exact Hc.
    + intros a b0 [E | Hin]; [|now apply (Hd a)].
      inversion E; subst a b0. rewrite (encode_collection_len c b Ee). now apply Hc.
  - intros H. inversion H; subst fin. split; [|exact Hd].
    intros c0 E. rewrite Ecur in E. discriminate.
Qed.
End History.

(* After ANY history of vlen writes and other allocations, then Flush (Close):
   (a) every collection on disk is the encoding of a well-formed builder, the specification decoder accepts it with that
       builder's size and objects and the tag set of gcol_tags, and the strict decoder accepts iff that set is empty;
   (b) every datum written is an object (index = the issued heap id's index, reference count 1, the data) of the decoded
       collection stored at the heap id's address. *)
Theorem spec_gcol_history minsz blk e0 ops fin ids :
  PG.params_ok minsz blk -> 4096 <= minsz ->
  MG.run_close minsz blk e0 ops = Some (fin, ids) -> MG.eof fin < PG.W64 ->
  (forall a b, In (a, b) (MG.disk fin) ->
     exists c, PG.wfc c /\ MG.c_addr c = a /\ MG.encode_collection c = Some b /\
       spec_dec_gcol tolerant 8 b = Ok (MG.c_size c, map spec_obj (MG.c_objs c), gcol_tags c, []) /\
       spec_dec_gcol strict 8 b =
         match gcol_tags c with [] => Ok (MG.c_size c, map spec_obj (MG.c_objs c), [], []) | _ => Err end) /\
  length ids = length (MG.writes ops) /\
  (forall i d, nth_error (MG.writes ops) i = Some d ->
     exists id b sz objs tg,
       nth_error ids i = Some id /\ In (MG.h_addr id, b) (MG.disk fin) /\
       spec_dec_gcol tolerant 8 b = Ok (sz, objs, tg, []) /\
       In {| go_index := MG.h_idx id; go_refcount := 1; go_data := d |} objs).
Proof.
  intros Hp Hmin Hrun Hlim. unfold MG.run_close in Hrun.
  destruct (PG.run_inv minsz blk Hp ops _ (PG.Inv_init minsz blk e0)) as (st & ids' & Hr & HI & _ & Hlen & _ & Hnth).
  rewrite Hr in Hrun.
  destruct (PG.flush_final minsz blk st HI) as (fin' & Hf & Heof & Hd & Hcl & Hon). rewrite Hf in Hrun.
  inversion Hrun; subst fin' ids'. clear Hrun.
  assert (Hbig : big minsz fin).
  { eapply big_flush; [|exact Hf]. eapply big_run; [| |exact Hr].
    - destruct Hp as (Hb & _). exact Hb.
    - split; cbn [MG.cur MG.disk]; [discriminate | intros a b []]. }
  assert (Hcoll : forall c b, PG.wfc0 c -> MG.encode_collection c = Some b -> In (MG.c_addr c, b) (MG.disk fin) ->
                    PG.wfc c /\ 4096 <= MG.c_size c).
  { intros c b Hw He Hin.
    destruct (PG.disk_ok_in _ _ _ _ Hd Hin) as (_ & Hb2).
    pose proof (encode_collection_len c b He) as Hb.
    destruct Hbig as (_ & Hbd). specialize (Hbd _ _ Hin).
    split; [split; [exact Hw | lia] | lia]. }
  split; [|split; [exact Hlen|]].
  - intros a b Hin. destruct (Hcl a b Hin) as (c & Hw & Ha & He). subst a.
    destruct (Hcoll c b Hw He Hin) as (Hwc & Hsz).
    exists c. split; [exact Hwc|]. split; [reflexivity|]. split; [exact He|]. split.
    + now apply spec_gcol_tolerant.
    + now apply spec_gcol_strict.
  - intros i d Hi. destruct (Hnth i d Hi) as (id & Hid & Hh).
    destruct (Hon id d Hh) as (c & b & Hw & Ha & He & Hin & Ho).
    destruct (Hcoll c b Hw He Hin) as (Hwc & Hsz).
    exists id, b, (MG.c_size c), (map spec_obj (MG.c_objs c)), (gcol_tags c).
    split; [exact Hid|]. split; [now rewrite <- Ha|]. split; [now apply spec_gcol_tolerant|].
    change {| go_index := MG.h_idx id; go_refcount := 1; go_data := d |} with (spec_obj (MG.mkobj (MG.h_idx id) 1 d)).
    now apply in_map.
Qed.

(* with the shipped parameters (minCollectionSize 4096, 4096-byte rounding) *)
Corollary spec_gcol_history_shipped e0 ops fin ids :
  MG.run_close 4096 4096 e0 ops = Some (fin, ids) -> MG.eof fin < PG.W64 ->
  (forall a b, In (a, b) (MG.disk fin) ->
     exists c, PG.wfc c /\ MG.c_addr c = a /\ MG.encode_collection c = Some b /\
       spec_dec_gcol tolerant 8 b = Ok (MG.c_size c, map spec_obj (MG.c_objs c), gcol_tags c, []) /\
       spec_dec_gcol strict 8 b =
         match gcol_tags c with [] => Ok (MG.c_size c, map spec_obj (MG.c_objs c), [], []) | _ => Err end) /\
  length ids = length (MG.writes ops) /\
  (forall i d, nth_error (MG.writes ops) i = Some d ->
     exists id b sz objs tg,
       nth_error ids i = Some id /\ In (MG.h_addr id, b) (MG.disk fin) /\
       spec_dec_gcol tolerant 8 b = Ok (sz, objs, tg, []) /\
       In {| go_index := MG.h_idx id; go_refcount := 1; go_data := d |} objs).
Proof. intros. eapply spec_gcol_history; eauto; [apply PG.params_shipped | lia]. Qed.

(* ------------------------------------------------------------------ the hypotheses are satisfiable; both tag sets occur *)
(* one 3-byte object in a fresh 4096-byte collection: 4056 free bytes, the free-space object is written *)
Definition ex_coll_free : MG.coll := MG.mkcoll 2048 4096 [MG.mkobj 1 1 [97; 98; 99]] 2 40 4056.
(* a collection filled to the last byte (4080 bytes of data in one object): no free-space object, conformant *)
Definition ex_coll_full : MG.coll := MG.mkcoll 2048 4112 [MG.mkobj 1 1 (MG.zeros 4080)] 2 4112 0.

Lemma ex_coll_free_wfc : PG.wfc ex_coll_free /\ 4096 <= MG.c_size ex_coll_free /\ gcol_tags ex_coll_free = [T_gcol_free_size].
Proof.
  split; [|split; [cbn; lia | reflexivity]].
  split; [constructor|]; cbn; repeat split; try reflexivity; lia.
Qed.

Lemma ex_coll_full_wfc : PG.wfc ex_coll_full /\ 4096 <= MG.c_size ex_coll_full /\ gcol_tags ex_coll_full = [].
Proof.
  split; [|split; [cbn; lia | reflexivity]].
  split; [constructor|]; try (vm_compute; reflexivity); cbn [ex_coll_full MG.c_objs MG.c_next MG.c_size PG.objs_from MG.o_index MG.o_ref];
    repeat split; try reflexivity; unfold PG.W64; lia.
Qed.

Lemma gcol_examples :
  (exists b, MG.encode_collection ex_coll_free = Some b /\ spec_dec_gcol strict 8 b = Err /\
     spec_dec_gcol tolerant 8 b =
       Ok (4096, [{| go_index := 1; go_refcount := 1; go_data := [97; 98; 99] |}], [T_gcol_free_size], [])) /\
  (exists b, MG.encode_collection ex_coll_full = Some b /\
     spec_dec_gcol strict 8 b = Ok (4112, [{| go_index := 1; go_refcount := 1; go_data := MG.zeros 4080 |}], [], [])).
Proof.
  split.
  - destruct ex_coll_free_wfc as (Hw & Hs & Ht).
    destruct (PG.encode_wfc _ Hw) as (He & _). eexists. split; [exact He|].
    rewrite (spec_gcol_strict _ _ Hw Hs He), (spec_gcol_tolerant _ _ Hw Hs He), Ht. split; reflexivity.
  - destruct ex_coll_full_wfc as (Hw & Hs & Ht).
    destruct (PG.encode_wfc _ Hw) as (He & _). eexists. split; [exact He|].
    rewrite (spec_gcol_strict _ _ Hw Hs He), Ht. reflexivity.
Qed.
