(* Lemmas for C11, group 7b: compound datatypes as trees, part 2: structural induction over the tree. *)
From HV Require Import Base.Prelude Base.Outcome Base.Bytes Model.CodecType Model.CodecCompound
  Model.CodecCompoundTree Proofs.CodecType Proofs.CodecCompoundTree.

Scheme ctype_mind := Induction for ctype Sort Prop
  with cfields_mind := Induction for cfields Sort Prop.
Combined Scheme ctree_mutind from ctype_mind, cfields_mind.

(* ---- leaves ---- *)

Lemma hdr_ok_inv d : hdr_ok d = true ->
  dt_class d < 16 /\ dt_version d < 16 /\ dt_cbf d < 16777216 /\ dt_size d < 4294967296.
Proof.
  unfold hdr_ok. intros H. apply andb_true_iff in H as [H H4]. apply andb_true_iff in H as [H H3].
  apply andb_true_iff in H as [H1 H2]. apply N.ltb_lt in H1, H2, H3, H4. auto.
Qed.

Lemma fixed_plen_some fuel c v P n : fixed_plen c = Some n -> plen fuel c v P = Ok n /\ c <> DT_COMPOUND.
Proof.
  unfold fixed_plen, plen, DT_FIXED, DT_FLOAT, DT_BITFIELD, DT_TIME, DT_COMPOUND.
  destruct (N.eqb_spec c 0); [intros [= <-]; split; [reflexivity|lia]|].
  destruct (N.eqb_spec c 1); [intros [= <-]; split; [reflexivity|lia]|].
  destruct (N.eqb_spec c 4); [intros [= <-]; split; [reflexivity|lia]|].
  destruct (N.eqb_spec c 2); [intros [= <-]; split; [reflexivity|lia]|]. discriminate.
Qed.

Lemma fixed_plen_none fuel c v P : fixed_plen c = None -> c <> DT_COMPOUND -> plen fuel c v P = Ok (blen P).
Proof.
  unfold fixed_plen, plen, DT_FIXED, DT_FLOAT, DT_BITFIELD, DT_TIME, DT_COMPOUND. intros H Hc.
  destruct (c =? 0); [discriminate|]. destruct (c =? 1); [discriminate|].
  destruct (c =? 4); [discriminate|]. destruct (c =? 2); [discriminate|].
  destruct (N.eqb_spec c 6); [contradiction|]. reflexivity.
Qed.

Lemma firstn_app_exact (P rest : bytes) : firstn (N.to_nat (blen P)) (P ++ rest) = P.
Proof.
  unfold blen. rewrite Nat2N.id, firstn_app, Nat.sub_diag, firstn_all. cbn [firstn]. apply app_nil_r.
Qed.

Lemma datatype_eta d :
  {| dt_class := dt_class d; dt_version := dt_version d; dt_size := dt_size d; dt_cbf := dt_cbf d;
     dt_props := dt_props d |} = d.
Proof. destruct d; reflexivity. Qed.

Lemma leaf_sd_dec d fuel rest : leaf_sd d = true -> dec_dt (S fuel) (member_hdr d ++ rest) = Ok d.
Proof.
  unfold leaf_sd. intros H. apply andb_true_iff in H as [Hh Hp].
  apply hdr_ok_inv in Hh as (H1 & H2 & H3 & H4).
  rewrite member_hdr_eq, <- app_assoc, dec_dt_header by auto.
  destruct (fixed_plen (dt_class d)) as [n|] eqn:E; [|discriminate]. apply N.eqb_eq in Hp.
  destruct (fixed_plen_some fuel _ (dt_version d) (dt_props d ++ rest) _ E) as [-> _]. cbn [obind].
  replace (blen (dt_props d ++ rest) <? n) with false by (symmetry; apply N.ltb_ge; rewrite blen_app; blia).
  rewrite <- Hp, firstn_app_exact. now rewrite datatype_eta.
Qed.

Lemma leaf_ok_dec d fuel : leaf_ok d = true -> dec_dt (S fuel) (member_hdr d) = Ok d.
Proof.
  unfold leaf_ok. intros H. apply andb_true_iff in H as [H Hp]. apply andb_true_iff in H as [Hh Hc].
  apply hdr_ok_inv in Hh as (H1 & H2 & H3 & H4). apply negb_true_iff, N.eqb_neq in Hc.
  rewrite member_hdr_eq, dec_dt_header by auto.
  destruct (fixed_plen (dt_class d)) as [n|] eqn:E.
  - apply N.eqb_eq in Hp. destruct (fixed_plen_some fuel _ (dt_version d) (dt_props d) _ E) as [-> _]. cbn [obind].
    rewrite <- Hp, N.ltb_irrefl, firstn_blen. now rewrite datatype_eta.
  - rewrite fixed_plen_none by auto. cbn [obind]. rewrite N.ltb_irrefl, firstn_blen. now rewrite datatype_eta.
Qed.

Lemma esize_fixed d : match fixed_plen (dt_class d) with Some n => blen (dt_props d) =? n | None => true end = true ->
  encoded_size d = 8 + blen (dt_props d).
Proof.
  unfold fixed_plen, encoded_size, DT_FIXED, DT_FLOAT, DT_BITFIELD, DT_TIME.
  destruct (dt_class d =? 0); [intros H; apply N.eqb_eq in H; blia|].
  destruct (dt_class d =? 1); [intros H; apply N.eqb_eq in H; blia|].
  destruct (dt_class d =? 4); [intros H; apply N.eqb_eq in H; blia|].
  destruct (dt_class d =? 2); [intros H; apply N.eqb_eq in H; blia|]. reflexivity.
Qed.

Lemma sd_esize t : sd t = true -> encoded_size (flat t) = 8 + blen (dt_props (flat t)).
Proof.
  destruct t as [d|v s fs]; cbn [sd flat]; intros H; [|reflexivity].
  unfold leaf_sd in H. apply andb_true_iff in H as [_ H]. apply esize_fixed.
  destruct (fixed_plen (dt_class d)); [exact H|discriminate].
Qed.

Lemma wf_esize t : wf_ctype t = true -> encoded_size (flat t) = 8 + blen (dt_props (flat t)).
Proof.
  destruct t as [d|v s fs]; cbn [wf_ctype flat]; intros H; [|reflexivity].
  unfold leaf_ok in H. apply andb_true_iff in H as [_ H]. now apply esize_fixed.
Qed.

(* ---- depth is bounded by the encoded length (every level costs 8 header bytes) ---- *)

Lemma length_member_hdr t : length (member_hdr t) = (8 + length (dt_props t))%nat.
Proof. unfold member_hdr. rewrite !app_length, !length_le. reflexivity. Qed.

Lemma depth_le_mut :
  (forall t, (depth t <= length (member_hdr (flat t)))%nat) /\
  (forall fs, forall v, (depth_fields fs <= length (comp_props v (flat_fields fs)))%nat).
Proof.
  apply ctree_mutind.
  - intros d. cbn [depth]. lia.
  - intros v s fs IH. cbn [depth flat]. rewrite length_member_hdr. cbn [dt_props]. specialize (IH v). lia.
  - intros v. cbn [depth_fields]. lia.
  - intros n o t IHt r IHr v. specialize (IHr v). cbn [depth_fields flat_fields].
    unfold comp_props in *. destruct (v =? 1); cbn [map concat length].
    + rewrite app_length. unfold enc_field_v1 at 1. cbn [fd_type]. rewrite !app_length. lia.
    + rewrite !app_length in *. rewrite !length_le in *. unfold enc_field_v3 at 1. cbn [fd_type]. rewrite !app_length. lia.
Qed.

Lemma depth_le t : (depth t <= length (member_hdr (flat t)))%nat.
Proof. apply depth_le_mut. Qed.

(* ---- member lists: per-member fuel ---- *)

Fixpoint decsF (ef : field -> bytes) (fs : cfields) (rest : bytes) : Prop :=
  match fs with
  | CNil => True
  | CCons _ _ t r =>
      (forall fuel, (depth t < fuel)%nat ->
         dec_dt fuel (member_hdr (flat t) ++ concat (map ef (flat_fields r)) ++ rest) = Ok (flat t)) /\
      encoded_size (flat t) = 8 + blen (dt_props (flat t)) /\
      decsF ef r rest
  end.

Lemma decsF_fuel ef fs rest fuel : decsF ef fs rest -> (depth_fields fs < fuel)%nat -> decsP ef (dec_dt fuel) fs rest.
Proof.
  induction fs as [|n o t r IH] using cfields_ind; cbn [decsF decsP depth_fields]; auto.
  intros (H1 & H2 & H3) Hf. repeat split; auto; [apply H1|apply IH; auto]; lia.
Qed.

Lemma decsF_datatype ef fs rest : decsF ef fs rest -> decsP ef dec_datatype fs rest.
Proof.
  induction fs as [|n o t r IH] using cfields_ind; cbn [decsF decsP]; auto.
  intros (H1 & H2 & H3). repeat split; auto.
  unfold dec_datatype. apply H1. pose proof (depth_le t). rewrite app_length. lia.
Qed.

(* ---- compound headers ---- *)

Lemma length_fields_le_v3 (l : list field) : (length l <= length (concat (map enc_field_v3 l)))%nat.
Proof.
  induction l as [|f l IH]; cbn [map concat length]; [lia|]. rewrite app_length.
  unfold enc_field_v3 at 1. rewrite !app_length. cbn [length]. lia.
Qed.
Lemma length_fields_le_v1 (l : list field) : (length l <= length (concat (map enc_field_v1 l)))%nat.
Proof.
  induction l as [|f l IH]; cbn [map concat length]; [lia|]. rewrite app_length.
  unfold enc_field_v1 at 1. rewrite !app_length, !length_le. lia.
Qed.

Lemma dec_dt_comp3 fuel s fs rest :
  s < 4294967296 -> nfs fs < 4294967296 -> names_ok fs = true ->
  decsP enc_field_v3 (dec_dt fuel) fs rest ->
  dec_dt (S fuel) (member_hdr (flat (CComp 3 s fs)) ++ rest) = Ok (flat (CComp 3 s fs)).
Proof.
  intros Hs Hn Hnm Hd.
  rewrite member_hdr_eq, <- app_assoc. cbn [flat dt_class dt_version dt_cbf dt_size dt_props].
  unfold comp_cbf, comp_props. cbn [N.eqb Pos.eqb].
  rewrite dec_dt_header by (unfold DT_COMPOUND; lia).
  set (l := flat_fields fs). set (body := concat (map enc_field_v3 l)).
  assert (Hw : wrap32 (N.of_nat (length l)) = nfs fs).
  { subst l. rewrite <- nfs_length. unfold wrap32. apply N.mod_small. lia. }
  rewrite Hw.
  unfold plen. cbv [DT_COMPOUND DT_FIXED DT_FLOAT DT_BITFIELD DT_TIME]. cbn [N.eqb Pos.eqb].
  unfold compound_props_len. cbn [N.eqb Pos.eqb negb].
  replace (blen ((le 4 (nfs fs) ++ body) ++ rest) <? 4) with false
    by (symmetry; apply N.ltb_ge; rewrite !blen_app, blen_le; blia).
  rewrite <- app_assoc.
  rewrite (rd_le_head 4 4) by (auto; lia). cbn [obind].
  pose proof (cpl_loop_ok (dec_dt fuel) fs (le 4 (nfs fs)) rest (S (length (le 4 (nfs fs) ++ body ++ rest))) Hnm Hd) as HC.
  rewrite blen_le in HC. change (N.of_nat 4) with 4 in HC. fold l in HC. fold body in HC.
  rewrite HC.
  2:{ pose proof (length_fields_le_v3 l). fold body in H. rewrite !app_length. lia. }
  cbn [obind].
  replace (blen (le 4 (nfs fs) ++ body ++ rest) <? 4 + blen body) with false
    by (symmetry; apply N.ltb_ge; rewrite !blen_app, blen_le; blia).
  replace (4 + blen body) with (blen (le 4 (nfs fs) ++ body)) by (rewrite blen_app, blen_le; blia).
  rewrite app_assoc, firstn_app_exact. reflexivity.
Qed.

Lemma dec_dt_comp1 fuel s fs :
  s < 4294967296 -> nfs fs <= 65535 ->
  dec_dt (S fuel) (member_hdr (flat (CComp 1 s fs))) = Ok (flat (CComp 1 s fs)).
Proof.
  intros Hs Hn.
  rewrite member_hdr_eq. cbn [flat dt_class dt_version dt_cbf dt_size dt_props].
  unfold comp_cbf, comp_props. cbn [N.eqb Pos.eqb].
  assert (Hw : wrap16 (N.of_nat (length (flat_fields fs))) = nfs fs).
  { rewrite <- nfs_length. unfold wrap16. apply N.mod_small. lia. }
  rewrite Hw.
  rewrite dec_dt_header by (unfold DT_COMPOUND; lia).
  unfold plen. cbv [DT_COMPOUND DT_FIXED DT_FLOAT DT_BITFIELD DT_TIME]. cbn [N.eqb Pos.eqb].
  unfold compound_props_len. cbn [N.eqb Pos.eqb negb obind].
  rewrite N.ltb_irrefl, firstn_blen. reflexivity.
Qed.

(* ---- self-delimiting trees are parsed back whatever follows them ---- *)

Lemma size_ok_inv s : size_ok s = true -> s <> 0 /\ s < 4294967296.
Proof. unfold size_ok. intros H. apply andb_true_iff in H as [H1 H2]. apply negb_true_iff, N.eqb_neq in H1. apply N.ltb_lt in H2. auto. Qed.

Lemma sd_dec_mut :
  (forall t, sd t = true -> forall fuel rest, (depth t < fuel)%nat ->
     dec_dt fuel (member_hdr (flat t) ++ rest) = Ok (flat t)) /\
  (forall fs, sd_fields fs = true -> names_ok fs = true /\ forall ef rest, decsF ef fs rest).
Proof.
  apply ctree_mutind.
  - intros d H fuel rest Hf. destruct fuel; [lia|]. now apply leaf_sd_dec.
  - intros v s fs IH H fuel rest Hf. cbn [sd] in H.
    apply andb_true_iff in H as [H Hsd]. apply andb_true_iff in H as [H Hne].
    apply andb_true_iff in H as [H Hn]. apply andb_true_iff in H as [Hv Hs].
    apply N.eqb_eq in Hv. subst v. apply N.ltb_lt in Hn. apply size_ok_inv in Hs as [_ Hs].
    destruct (IH Hsd) as [Hnm HF].
    cbn [depth] in Hf. destruct fuel as [|fuel]; [lia|].
    apply dec_dt_comp3; auto. apply decsF_fuel; [apply HF|lia].
  - intros _. split; [reflexivity|]. intros; exact I.
  - intros n o t IHt r IHr H. cbn [sd_fields] in H.
    apply andb_true_iff in H as [H Hr]. apply andb_true_iff in H as [H Ht]. apply andb_true_iff in H as [Hn Ho].
    destruct (IHr Hr) as [Hnm HF]. split.
    + cbn [names_ok]. rewrite Hn, Ho, Hnm. reflexivity.
    + intros ef rest. cbn [decsF]. repeat split; [|now apply sd_esize|apply HF].
      intros fuel Hf. now apply IHt.
Qed.

Lemma sd_dec t fuel rest : sd t = true -> (depth t < fuel)%nat -> dec_dt fuel (member_hdr (flat t) ++ rest) = Ok (flat t).
Proof. intros H Hf. now apply (proj1 sd_dec_mut). Qed.

(* ---- well-formed trees are parsed back when nothing follows them ---- *)

Lemma wf_dec_mut :
  (forall t, wf_ctype t = true -> forall fuel, (depth t < fuel)%nat ->
     dec_dt fuel (member_hdr (flat t)) = Ok (flat t)) /\
  (forall fs, wf_fields fs = true -> names_ok fs = true /\ forall ef, decsF ef fs []).
Proof.
  apply ctree_mutind.
  - intros d H fuel Hf. destruct fuel; [lia|]. now apply leaf_ok_dec.
  - intros v s fs IH H fuel Hf. cbn [wf_ctype] in H.
    apply andb_true_iff in H as [H Hwf]. apply andb_true_iff in H as [H Hne].
    apply andb_true_iff in H as [H Hn]. apply andb_true_iff in H as [Hv Hs].
    apply size_ok_inv in Hs as [_ Hs]. destruct (IH Hwf) as [Hnm HF].
    cbn [depth] in Hf. destruct fuel as [|fuel]; [lia|].
    apply orb_true_iff in Hv as [Hv|Hv]; apply N.eqb_eq in Hv; subst v; cbn [N.eqb Pos.eqb] in Hn.
    + apply N.leb_le in Hn. now apply dec_dt_comp1.
    + apply N.ltb_lt in Hn. rewrite <- (app_nil_r (member_hdr _)).
      apply dec_dt_comp3; auto. apply decsF_fuel; [apply HF|lia].
  - intros _. split; [reflexivity|]. intros; exact I.
  - intros n o t IHt r IHr H. cbn [wf_fields] in H.
    apply andb_true_iff in H as [H Hr]. apply andb_true_iff in H as [H Ht]. apply andb_true_iff in H as [Hn Ho].
    destruct (IHr Hr) as [Hnm HF]. split.
    + cbn [names_ok]. rewrite Hn, Ho, Hnm. reflexivity.
    + intros ef. cbn [decsF]. destruct r as [|n2 o2 t2 r2].
      * cbn iota in Ht. split; [|split]; [|now apply wf_esize|exact I].
        intros fuel Hf. cbn [flat_fields map concat app]. rewrite app_nil_r. now apply IHt.
      * cbn iota in Ht. split; [|split]; [|now apply sd_esize|apply HF].
        intros fuel Hf. now apply sd_dec.
Qed.

Lemma wf_dec t : wf_ctype t = true -> dec_datatype (member_hdr (flat t)) = Ok (flat t).
Proof.
  intros H. unfold dec_datatype. apply (proj1 wf_dec_mut); auto. pose proof (depth_le t). lia.
Qed.

Lemma sd_wf_mut : (forall t, sd t = true -> wf_ctype t = true) /\ (forall fs, sd_fields fs = true -> wf_fields fs = true).
Proof.
  apply ctree_mutind.
  - intros d. cbn [sd wf_ctype]. unfold leaf_sd, leaf_ok. intros H. apply andb_true_iff in H as [Hh Hp].
    rewrite Hh. destruct (fixed_plen (dt_class d)) as [n|] eqn:E; [|discriminate].
    destruct (fixed_plen_some O _ 0 [] _ E) as [_ Hc]. apply N.eqb_neq in Hc. rewrite Hc, Hp. reflexivity.
  - intros v s fs IH H. cbn [sd] in H. cbn [wf_ctype].
    apply andb_true_iff in H as [H Hsd]. apply andb_true_iff in H as [H Hne].
    apply andb_true_iff in H as [H Hn]. apply andb_true_iff in H as [Hv Hs].
    apply N.eqb_eq in Hv. subst v. cbn [N.eqb Pos.eqb orb]. rewrite Hs, Hn, Hne, (IH Hsd). reflexivity.
  - reflexivity.
  - intros n o t IHt r IHr H. cbn [sd_fields] in H. cbn [wf_fields].
    apply andb_true_iff in H as [H Hr]. apply andb_true_iff in H as [H Ht]. apply andb_true_iff in H as [Hn Ho].
    rewrite Hn, Ho, (IHr Hr). destruct r; [rewrite (IHt Ht)|rewrite Ht]; reflexivity.
Qed.
