(* Lemmas shared by the bfloat16 and FP8 proofs of C20: bit tests as arithmetic, rne_shift,
   the float32 value function X32, and the generic "bracket" lemma for rne_spec. *)
From HV Require Import Base.Prelude Model.LowFloat Model.LowFloatTie.

(* ------------------------------------------------------------------ bits as arithmetic *)
Lemma land_ones' x k : N.land x (2 ^ k - 1) = x mod 2 ^ k.
Proof. replace (2 ^ k - 1) with (N.ones k). apply N.land_ones. rewrite N.ones_equiv. lia. Qed.

Lemma tb x k : N.testbit x k = N.odd (x / 2 ^ k).
Proof. rewrite <- N.shiftr_div_pow2, <- N.bit0_odd, N.shiftr_spec by lia. reflexivity. Qed.

Lemma land_pow2_cases x k :
  (N.even (x / 2 ^ k) = true /\ N.land x (2 ^ k) = 0) \/
  (N.even (x / 2 ^ k) = false /\ N.land x (2 ^ k) = 2 ^ k).
Proof.
  rewrite <- N.negb_odd, <- tb.
  destruct (N.testbit x k) eqn:T; cbn [negb]; [right|left]; split; auto.
  - apply N.bits_inj; intro n. rewrite N.land_spec.
    destruct (N.eq_dec n k) as [->|Hn].
    + rewrite T, N.pow2_bits_true. reflexivity.
    + rewrite N.pow2_bits_false by auto. apply andb_false_r.
  - apply N.bits_inj; intro n. rewrite N.land_spec, N.bits_0.
    destruct (N.eq_dec n k) as [->|Hn].
    + rewrite T. reflexivity.
    + rewrite N.pow2_bits_false by auto. apply andb_false_r.
Qed.

Lemma bit_test x k : (N.land x (2 ^ k) =? 0) = N.even (x / 2 ^ k).
Proof.
  destruct (land_pow2_cases x k) as [[E H]|[E H]]; rewrite E, H; [reflexivity|].
  apply N.eqb_neq, N.pow_nonzero. lia.
Qed.

(* x | 2^k sets bit k *)
Lemma lor_pow2 x k : N.lor x (2 ^ k) = if N.even (x / 2 ^ k) then x + 2 ^ k else x.
Proof.
  destruct (land_pow2_cases x k) as [[E H]|[E H]]; rewrite E.
  - rewrite <- N.lxor_lor by exact H. symmetry. apply N.add_nocarry_lxor. exact H.
  - apply N.bits_inj; intro n. rewrite N.lor_spec.
    destruct (N.eq_dec n k) as [->|Hn].
    + rewrite N.pow2_bits_true, orb_true_r.
      assert (T : N.testbit (N.land x (2 ^ k)) k = true) by (rewrite H; apply N.pow2_bits_true).
      rewrite N.land_spec in T. apply andb_prop in T. symmetry. apply T.
    + rewrite N.pow2_bits_false by auto. apply orb_false_r.
Qed.

Lemma even_cases q : (N.even q = true /\ exists k, q = 2 * k) \/ (N.even q = false /\ exists k, q = 2 * k + 1).
Proof.
  destruct (N.even q) eqn:E.
  - left. split; auto. apply N.even_spec. exact E.
  - right. split; auto. apply N.odd_spec. rewrite <- N.negb_even, E. reflexivity.
Qed.

(* destruct every N.even in sight into its arithmetic meaning *)
Ltac evens :=
  repeat match goal with
  | |- context [N.even ?q] =>
      let E := fresh "E" in let k := fresh "k" in let Hk := fresh "Hk" in
      destruct (even_cases q) as [[E [k Hk]]|[E [k Hk]]]; rewrite ?E in *
  | H : context [N.even ?q] |- _ =>
      let E := fresh "E" in let k := fresh "k" in let Hk := fresh "Hk" in
      destruct (even_cases q) as [[E [k Hk]]|[E [k Hk]]]; rewrite ?E in *
  end.

(* ------------------------------------------------------------------ rne_shift *)
(* arithmetic characterisation: the result is q or q+1 where x = q*2^k + r *)
Lemma rne_shift_spec x k : 0 < k ->
  exists q r h, x = q * (2 * h) + r /\ r < 2 * h /\ 2 ^ k = 2 * h /\ 0 < h /\
    ((rne_shift x k = q /\ (r < h \/ (r = h /\ N.even q = true))) \/
     (rne_shift x k = q + 1 /\ (h < r \/ (r = h /\ N.even q = false)))).
Proof.
  intro Hk. unfold rne_shift.
  assert (Hp : 2 ^ k = 2 * 2 ^ (k - 1)).
  { rewrite <- N.pow_succ_r by lia. f_equal. lia. }
  assert (Hh : 0 < 2 ^ (k - 1)) by (apply N.neq_0_lt_0, N.pow_nonzero; lia).
  exists (x / 2 ^ k), (x mod 2 ^ k), (2 ^ (k - 1)).
  replace (k =? 0) with false by (symmetry; apply N.eqb_neq; lia).
  assert (Hdm := N.div_mod x (2 ^ k)). assert (Hlt := N.mod_lt x (2 ^ k)).
  rewrite Hp in *. set (h := 2 ^ (k - 1)) in *. clearbody h.
  set (q := x / (2 * h)) in *. set (r := x mod (2 * h)) in *. clearbody q r.
  replace (2 * h / 2) with h by (symmetry; rewrite N.mul_comm; apply N.div_mul; lia).
  repeat split; try lia.
  destruct (r <? h) eqn:E1; [left; split; [reflexivity|lia]|].
  destruct (h <? r) eqn:E2; [right; split; [reflexivity|lia]|].
  destruct (N.even q) eqn:E3; [left|right]; (split; [reflexivity|lia]).
Qed.

Lemma rne_shift_0 x : rne_shift x 0 = x.
Proof. reflexivity. Qed.

Lemma rne_shift_mono k a b : a <= b -> rne_shift a k <= rne_shift b k.
Proof.
  intro Hab. destruct (N.eq_dec k 0) as [->|Hk]; [rewrite !rne_shift_0; exact Hab|].
  destruct (rne_shift_spec a k) as (qa & ra & h & Ha & Hra & Hp & Hh & Ca); [lia|].
  destruct (rne_shift_spec b k) as (qb & rb & h' & Hb & Hrb & Hp' & _ & Cb); [lia|].
  assert (h' = h) by lia. subst h'.
  assert (Hq : qa <= qb) by nia.
  destruct (N.eq_dec qa qb) as [->|Hne].
  - assert (ra <= rb) by lia.
    destruct Ca as [[-> Ca]|[-> Ca]], Cb as [[-> Cb]|[-> Cb]]; try lia.
    destruct Ca as [Ca|[Ca Ea]], Cb as [Cb|[Cb Eb]]; try lia. congruence.
  - destruct Ca as [[-> _]|[-> _]], Cb as [[-> _]|[-> _]]; lia.
Qed.

(* exact on multiples *)
Lemma rne_shift_mul k c : rne_shift (c * 2 ^ k) k = c.
Proof.
  destruct (N.eq_dec k 0) as [->|Hk]; [rewrite rne_shift_0; change (2 ^ 0) with 1; lia|].
  destruct (rne_shift_spec (c * 2 ^ k) k) as (q & r & h & Hx & Hr & Hp & Hh & C); [lia|].
  rewrite Hp in Hx.
  assert (Hq : q = c).
  { rewrite <- (N.div_mul c (2 * h)) by lia. apply (N.div_unique _ _ q r); lia. }
  subst q. assert (r = 0) by lia. subst r.
  destruct C as [[-> _]|[_ C]]; lia.
Qed.

Lemma rne_shift_lo k x c : c * 2 ^ k <= x -> c <= rne_shift x k.
Proof. intro H. apply (rne_shift_mono k) in H. rewrite rne_shift_mul in H. exact H. Qed.
Lemma rne_shift_hi k x c : x <= c * 2 ^ k -> rne_shift x k <= c.
Proof. intro H. apply (rne_shift_mono k) in H. rewrite rne_shift_mul in H. exact H. Qed.

(* ------------------------------------------------------------------ float32 magnitude tests *)
Lemma mag_small x : x < 2147483648 -> f32_mag x = x.
Proof. intro H. unfold f32_mag. apply N.mod_small, H. Qed.
Lemma mag_neg x : x < 2147483648 -> f32_mag (x + 2147483648) = x.
Proof. intro H. unfold f32_mag. lia. Qed.
Lemma sign_small x : x < 2147483648 -> f32_sign x = 0.
Proof. intro H. unfold f32_sign. apply N.div_small, H. Qed.
Lemma sign_neg x : x < 2147483648 -> f32_sign (x + 2147483648) = 1.
Proof. intro H. unfold f32_sign. lia. Qed.

(* ------------------------------------------------------------------ X32 *)
Lemma pow2_pos n : 0 < 2 ^ n.
Proof. apply N.neq_0_lt_0, N.pow_nonzero. lia. Qed.

(* float32 ulp of the binade of mag, times 2^149 *)
Definition ulp32 (mag : N) : N := 2 ^ (mag / 8388608 - 1).

(* X32 is linear inside a binade and continuous into the start of the next one *)
Lemma X32_lin m j :
  m + j <= (m / 8388608 + 1) * 8388608 -> X32 (m + j) = X32 m + j * ulp32 m.
Proof.
  intro H. unfold X32, ulp32.
  set (e := m / 8388608) in *.
  assert (Hm : m = 8388608 * e + m mod 8388608) by (apply N.div_mod; lia).
  assert (Hf : m mod 8388608 < 8388608) by (apply N.mod_lt; lia).
  set (f := m mod 8388608) in *. clearbody e f. subst m.
  destruct (N.eq_dec (8388608 * e + f + j) ((e + 1) * 8388608)) as [Heq|Hne].
  - rewrite Heq. replace ((e + 1) * 8388608 / 8388608) with (e + 1) by (symmetry; apply N.div_mul; lia).
    replace ((e + 1) * 8388608 mod 8388608) with 0 by (symmetry; apply N.mod_mul; lia).
    replace (e + 1 =? 0) with false by (symmetry; apply N.eqb_neq; lia).
    replace (e + 1 - 1) with e by lia.
    destruct (N.eqb_spec e 0) as [->|He].
    + change (2 ^ (0 - 1)) with 1. change (2 ^ 0) with 1. lia.
    + replace (2 ^ e) with (2 * 2 ^ (e - 1)) by (rewrite <- N.pow_succ_r by lia; f_equal; lia).
      nia.
  - assert (Hd : (8388608 * e + f + j) / 8388608 = e) by lia.
    assert (Hr : (8388608 * e + f + j) mod 8388608 = f + j) by lia.
    rewrite Hd, Hr. destruct (e =? 0) eqn:He.
    + apply N.eqb_eq in He. subst e. change (2 ^ (0 - 1)) with 1. lia.
    + nia.
Qed.

Lemma X32_mono_strict a b : a < b -> X32 a < X32 b.
Proof.
  intro Hab.
  (* b = a + j; walk binade by binade is avoided: compare through the binade start of b *)
  unfold X32.
  assert (Ha := N.div_mod a 8388608). assert (Hb := N.div_mod b 8388608).
  assert (Hfa := N.mod_lt a 8388608). assert (Hfb := N.mod_lt b 8388608).
  set (ea := a / 8388608) in *. set (eb := b / 8388608) in *.
  set (fa := a mod 8388608) in *. set (fb := b mod 8388608) in *. clearbody ea eb fa fb.
  assert (ea <= eb) by nia.
  destruct (N.eq_dec ea eb) as [->|Hne].
  - assert (fa < fb) by lia. destruct (eb =? 0); [lia|].
    assert (0 < 2 ^ (eb - 1)) by apply pow2_pos. nia.
  - assert (Hlt : ea < eb) by lia.
    replace (eb =? 0) with false by (symmetry; apply N.eqb_neq; lia).
    assert (Hpb := pow2_pos (eb - 1)).
    destruct (N.eqb_spec ea 0) as [->|Hea].
    + nia.
    + assert (2 * 2 ^ (ea - 1) <= 2 ^ (eb - 1)).
      { rewrite <- N.pow_succ_r by lia. apply N.pow_le_mono_r; lia. }
      assert (Hpa := pow2_pos (ea - 1)). nia.
Qed.

Lemma X32_mono a b : a <= b -> X32 a <= X32 b.
Proof.
  intro H. destruct (N.eq_dec a b) as [->|]; [lia|].
  apply N.lt_le_incl, X32_mono_strict. lia.
Qed.

(* ------------------------------------------------------------------ rne_spec: the bracket lemma *)
Lemma In_codes_below d n : In d (codes_below n) -> d < n.
Proof.
  unfold codes_below. intro H. apply in_map_iff in H. destruct H as (i & <- & Hi).
  apply in_seq in Hi. lia.
Qed.

Definition grid_mono (V : N -> N) (infc : N) : Prop := forall i j, i < j -> j <= infc -> V i < V j.

Lemma grid_mono_le V infc i j : grid_mono V infc -> i <= j -> j <= infc -> V i <= V j.
Proof.
  intros HV Hij Hj. destruct (N.eq_dec i j) as [->|]; [lia|].
  apply N.lt_le_incl, HV; lia.
Qed.

(* X lies at or beyond the first non-finite grid point: IEEE overflow *)
Lemma rne_spec_overflow V infc infcode X :
  grid_mono V infc -> 0 < infc -> V infc <= X -> rne_spec V infc infcode X infcode = true.
Proof.
  intros HV Hi HX. unfold rne_spec.
  assert (V (infc - 1) < V infc) by (apply HV; lia).
  replace (V (infc - 1) + V infc <=? 2 * X) with true by (symmetry; apply N.leb_le; lia).
  apply N.eqb_refl.
Qed.

(* X = A + r*P lies between V c0 = A and V (c0+1) = A + u*P; c is the nearer of c0 / c0+1, the even
   one on a tie; a result that reaches infc is reported as infcode. *)
Lemma rne_spec_bracket V infc infcode X c0 c A P r u :
  grid_mono V infc -> N.even infc = true ->
  c0 < infc -> 0 < P -> r <= u ->
  V c0 = A -> V (c0 + 1) = A + u * P -> X = A + r * P ->
  (c = c0 /\ (2 * r < u \/ (2 * r = u /\ N.even c0 = true))) \/
  (c = c0 + 1 /\ (u < 2 * r \/ (2 * r = u /\ N.even c0 = false))) ->
  rne_spec V infc infcode X (if infc <=? c then infcode else c) = true.
Proof.
  intros HV Hev Hc0 HP Hru H0 H1 HX Hc. unfold rne_spec.
  assert (HrP : r * P <= u * P) by nia.
  assert (Hlo : V c0 <= X) by lia. assert (Hhi : X <= V (c0 + 1)) by lia.
  destruct (N.leb_spec infc c) as [Hinf|Hfin].
  - (* reached infc: c = c0+1 = infc *)
    assert (c = c0 + 1 /\ c0 + 1 = infc) as [-> Hcc] by lia.
    destruct Hc as [[? _]|[_ Hc]]; [lia|].
    replace (infc - 1) with c0 by lia. rewrite <- Hcc.
    replace (V c0 + V (c0 + 1) <=? 2 * X) with true. { apply N.eqb_refl. }
    symmetry. apply N.leb_le. rewrite H0, H1, HX. nia.
  - assert (Hno : V (infc - 1) + V infc <=? 2 * X = false).
    { apply N.leb_gt.
      destruct (N.eq_dec (c0 + 1) infc) as [Hcc|Hcc].
      - (* c = c0 = infc - 1, and infc is even so c0 is odd: no tie *)
        replace (infc - 1) with c0 by lia. rewrite <- Hcc, H0, H1, HX.
        destruct Hc as [[-> Hc]|[-> _]]; [|lia].
        destruct Hc as [Hc|[Hc Ec]]; [nia|].
        exfalso. rewrite <- Hcc, N.add_1_r, N.even_succ, <- N.negb_even, Ec in Hev. discriminate.
      - assert (V (c0 + 1) <= V (infc - 1)) by (apply (grid_mono_le V infc); auto; lia).
        assert (V (infc - 1) < V infc) by (apply HV; lia). lia. }
    rewrite Hno.
    assert (Hdc : dist X (V c) <= X - V c0 /\ dist X (V c) <= V (c0 + 1) - X).
    { destruct Hc as [[-> Hc]|[-> Hc]]; unfold dist.
      - destruct (N.ltb_spec X (V c0)); [lia|]. rewrite H0, H1, HX. nia.
      - destruct (N.ltb_spec X (V (c0 + 1))); [|lia]. rewrite H0, H1, HX. nia. }
    destruct Hdc as [Hd0 Hd1].
    apply andb_true_intro; split; [apply andb_true_intro; split|].
    + apply N.ltb_lt, Hfin.
    + apply forallb_forall. intros d Hd. apply In_codes_below in Hd. apply N.leb_le.
      destruct (N.le_gt_cases d c0) as [Hle|Hgt].
      * assert (V d <= V c0) by (apply (grid_mono_le V infc); auto; lia).
        unfold dist at 2. destruct (N.ltb_spec X (V d)); lia.
      * assert (V (c0 + 1) <= V d) by (apply (grid_mono_le V infc); auto; lia).
        unfold dist at 2. destruct (N.ltb_spec X (V d)); lia.
    + apply forallb_forall. intros d Hd. apply In_codes_below in Hd.
      destruct (N.eqb_spec d c) as [|Hdc]; [reflexivity|]. cbn [orb].
      destruct (N.eqb_spec (dist X (V c)) (dist X (V d))) as [Heq|]; [|reflexivity]. cbn [negb orb].
      destruct (N.le_gt_cases d c0) as [Hle|Hgt].
      * (* d <= c0: then d = c0, c = c0+1 and it is a tie *)
        assert (V d <= V c0) by (apply (grid_mono_le V infc); auto; lia).
        assert (Hdd : dist X (V d) = X - V d) by (unfold dist; destruct (N.ltb_spec X (V d)); lia).
        assert (d = c0).
        { destruct (N.eq_dec d c0); auto. assert (V d < V c0) by (apply HV; lia). lia. }
        subst d. destruct Hc as [[-> _]|[-> Hc]]; [lia|].
        assert (Hd' : dist X (V (c0 + 1)) = V (c0 + 1) - X) by (unfold dist; destruct (N.ltb_spec X (V (c0 + 1))); lia).
        destruct Hc as [Hc|[_ Ec]]; [rewrite Hdd, Hd', H0, H1, HX in Heq; nia|].
        rewrite N.add_1_r, N.even_succ, <- N.negb_even, Ec. reflexivity.
      * assert (V (c0 + 1) <= V d) by (apply (grid_mono_le V infc); auto; lia).
        assert (Hdd : dist X (V d) = V d - X) by (unfold dist; destruct (N.ltb_spec X (V d)); lia).
        assert (d = c0 + 1).
        { destruct (N.eq_dec d (c0 + 1)); auto. assert (V (c0 + 1) < V d) by (apply HV; lia). lia. }
        subst d. destruct Hc as [[-> Hc]|[-> _]]; [|lia].
        assert (Hd' : dist X (V c0) = X - V c0) by (unfold dist; destruct (N.ltb_spec X (V c0)); lia).
        destruct Hc as [Hc|[_ Ec]]; [rewrite Hdd, Hd', H0, H1, HX in Heq; nia|].
        exact Ec.
Qed.
