(* C03: generic lemmas (association lists, byte-string equality, lengths). *)
From HV Require Import Base.Prelude Model.GroupNS.

Lemma list_eqb_N_eq : forall a b : list N, list_eqb N.eqb a b = true <-> a = b.
Proof.
  induction a as [|x a IH]; destruct b as [|y b]; cbn [list_eqb]; split; intro H; try congruence; try discriminate.
  - apply andb_true_iff in H. destruct H as [H1 H2]. apply N.eqb_eq in H1. apply IH in H2. congruence.
  - inversion H; subst. apply andb_true_iff. split; [apply N.eqb_refl | apply IH; reflexivity].
Qed.

Lemma bytes_eqb_eq : forall a b, bytes_eqb a b = true <-> a = b.
Proof. exact list_eqb_N_eq. Qed.
Lemma bytes_eqb_refl : forall a, bytes_eqb a a = true.
Proof. intro a. apply bytes_eqb_eq. reflexivity. Qed.
Lemma bytes_eqb_neq : forall a b, bytes_eqb a b = false <-> a <> b.
Proof.
  intros a b. split.
  - intros H E. apply bytes_eqb_eq in E. congruence.
  - intro H. destruct (bytes_eqb a b) eqn:E; [apply bytes_eqb_eq in E; contradiction | reflexivity].
Qed.

(* lia treats @blen byte l and @blen N l as different atoms: normalise the aliases first *)
Ltac nlia := unfold name, path, bytes, byte in *; lia.

(* ---------------------------------------------------------------- blen *)
Lemma blen_nil : forall A, @blen A [] = 0. Proof. reflexivity. Qed.
Lemma blen_cons : forall A (x : A) l, blen (x :: l) = blen l + 1.
Proof. intros. unfold blen. cbn [length]. lia. Qed.
Lemma blen_app : forall A (a b : list A), blen (a ++ b) = blen a + blen b.
Proof. intros. unfold blen. rewrite app_length. lia. Qed.
Lemma blen_zeros : forall k, blen (zeros k) = k.
Proof. intro k. unfold blen, zeros. rewrite repeat_length. lia. Qed.
Lemma blen_map : forall A B (f : A -> B) l, blen (map f l) = blen l.
Proof. intros. unfold blen. rewrite map_length. reflexivity. Qed.
Lemma to_nat_blen : forall A (l : list A), N.to_nat (blen l) = length l.
Proof. intros. unfold blen. lia. Qed.
Lemma blen_eq_length : forall A B (a : list A) (b : list B), length a = length b -> blen a = blen b.
Proof. intros. unfold blen. congruence. Qed.

(* ---------------------------------------------------------------- alookup / aset *)
Lemma alookup_aset_eq : forall A k (v : A) l, alookup k (aset k v l) = Some v.
Proof.
  induction l as [|[k' v'] l IH]; cbn [aset alookup].
  - rewrite N.eqb_refl. reflexivity.
  - destruct (k' =? k) eqn:E; cbn [alookup]; [rewrite N.eqb_refl | rewrite E]; auto.
Qed.
Lemma alookup_aset_neq : forall A k k' (v : A) l, k <> k' -> alookup k' (aset k v l) = alookup k' l.
Proof.
  induction l as [|[k0 v0] l IH]; intro H; cbn [aset alookup].
  - destruct (k =? k') eqn:E; [apply N.eqb_eq in E; contradiction | reflexivity].
  - destruct (k0 =? k) eqn:E; cbn [alookup].
    + apply N.eqb_eq in E. subst k0. destruct (k =? k') eqn:E2; [apply N.eqb_eq in E2; contradiction | reflexivity].
    + destruct (k0 =? k'); auto.
Qed.
Lemma alookup_aset : forall A k k' (v : A) l,
  alookup k' (aset k v l) = if k =? k' then Some v else alookup k' l.
Proof.
  intros. destruct (k =? k') eqn:E.
  - apply N.eqb_eq in E. subst. apply alookup_aset_eq.
  - apply N.eqb_neq in E. apply alookup_aset_neq. assumption.
Qed.

Lemma plookup_pset_eq : forall A p (v : A) l, plookup p (pset p v l) = Some v.
Proof.
  induction l as [|[p' v'] l IH]; cbn [pset plookup].
  - rewrite bytes_eqb_refl. reflexivity.
  - destruct (bytes_eqb p' p) eqn:E; cbn [plookup]; [rewrite bytes_eqb_refl | rewrite E]; auto.
Qed.
Lemma plookup_pset_neq : forall A p p' (v : A) l, p <> p' -> plookup p' (pset p v l) = plookup p' l.
Proof.
  induction l as [|[p0 v0] l IH]; intro H; cbn [pset plookup].
  - destruct (bytes_eqb p p') eqn:E; [apply bytes_eqb_eq in E; contradiction | reflexivity].
  - destruct (bytes_eqb p0 p) eqn:E; cbn [plookup].
    + apply bytes_eqb_eq in E. subst p0.
      destruct (bytes_eqb p p') eqn:E2; [apply bytes_eqb_eq in E2; contradiction | reflexivity].
    + destruct (bytes_eqb p0 p'); auto.
Qed.

Lemma nmem_In : forall k l, nmem k l = true <-> In k l.
Proof.
  induction l as [|x l IH]; cbn [nmem In]; split; intro H; try discriminate; try contradiction.
  - apply orb_true_iff in H. destruct H as [H|H]; [left; apply N.eqb_eq; assumption | right; apply IH; assumption].
  - apply orb_true_iff. destruct H as [H|H]; [left; apply N.eqb_eq; assumption | right; apply IH; assumption].
Qed.
Lemma nmem_false : forall k l, nmem k l = false <-> ~ In k l.
Proof.
  intros. split.
  - intros H I. apply nmem_In in I. congruence.
  - intro H. destruct (nmem k l) eqn:E; [apply nmem_In in E; contradiction | reflexivity].
Qed.

Lemma clookup_app : forall n ch ch',
  clookup n (ch ++ ch') = match clookup n ch with Some c => Some c | None => clookup n ch' end.
Proof.
  induction ch as [|[n' c] ch IH]; intro ch'; cbn [clookup app]; [reflexivity|].
  destruct (bytes_eqb n' n); auto.
Qed.
Lemma clookup_In : forall n ch c, clookup n ch = Some c -> In (n, c) ch.
Proof.
  induction ch as [|[n' c'] ch IH]; intros c H; cbn [clookup] in H; [discriminate|].
  destruct (bytes_eqb n' n) eqn:E.
  - apply bytes_eqb_eq in E. inversion H; subst. left. reflexivity.
  - right. apply IH. assumption.
Qed.
Lemma clookup_None : forall n ch, clookup n ch = None <-> ~ In n (map fst ch).
Proof.
  induction ch as [|[n' c'] ch IH]; cbn [clookup map fst In]; split; intro H; auto.
  - destruct (bytes_eqb n' n) eqn:E; [discriminate|]. apply bytes_eqb_neq in E.
    intros [X|X]; [contradiction | apply IH in H; contradiction].
  - destruct (bytes_eqb n' n) eqn:E.
    + apply bytes_eqb_eq in E. exfalso. apply H. left. assumption.
    + apply IH. intro X. apply H. right. assumption.
Qed.
