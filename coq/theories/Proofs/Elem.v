(* Element encoders / decoders: round trips. *)
From HV Require Import Base.Prelude Model.Elem.

Local Open Scope N_scope.

Lemma length_le n v : length (le n v) = n.
Proof. revert v. induction n; intros; cbn [le length]; auto. Qed.

Lemma unle_le n : forall v, unle (le n v) = v mod 2 ^ (8 * N.of_nat n).
Proof.
  induction n; intros v.
  - cbn [le unle]. change (2 ^ (8 * N.of_nat 0)) with 1. rewrite N.mod_1_r. reflexivity.
  - cbn [le unle]. rewrite IHn.
    replace (2 ^ (8 * N.of_nat (S n))) with (256 * 2 ^ (8 * N.of_nat n)).
    + rewrite N.mod_mul_r; [reflexivity | lia |]. apply N.pow_nonzero. lia.
    + replace (8 * N.of_nat (S n)) with (8 + 8 * N.of_nat n) by lia.
      rewrite N.pow_add_r. reflexivity.
Qed.

Lemma wbits_pow w : (2 ^ wbits w = Z.of_N (2 ^ (8 * N.of_nat w)))%Z.
Proof. unfold wbits. rewrite N2Z.inj_pow. f_equal. lia. Qed.

Lemma dec_enc_raw w v :
  Z.of_N (unle (firstn w (enc_int w v))) = (v mod 2 ^ wbits w)%Z.
Proof.
  unfold enc_int. rewrite firstn_all2 by (rewrite length_le; lia).
  rewrite unle_le.
  assert (H : (0 < 2 ^ wbits w)%Z) by (apply Z.pow_pos_nonneg; unfold wbits; lia).
  pose proof (Z.mod_pos_bound v _ H) as B.
  rewrite wbits_pow in *.
  set (M := 2 ^ (8 * N.of_nat w)) in *.
  rewrite N.mod_small by lia. lia.
Qed.

Lemma int_roundtrip w signed v : (0 < w)%nat -> in_range w signed v ->
  dec_int w signed (enc_int w v) = v.
Proof.
  intros Hw Hr. unfold dec_int. rewrite dec_enc_raw.
  assert (HM : (2 ^ wbits w = 2 * 2 ^ (wbits w - 1))%Z).
  { rewrite <- Z.pow_succ_r by (unfold wbits; lia). f_equal. lia. }
  assert (HH : (0 < 2 ^ (wbits w - 1))%Z) by (apply Z.pow_pos_nonneg; unfold wbits; lia).
  set (M := (2 ^ wbits w)%Z) in *. set (H := (2 ^ (wbits w - 1))%Z) in *.
  unfold in_range in Hr. destruct signed; cbn [andb].
  - destruct (Z_lt_le_dec v 0).
    + assert (E : (v mod M = v + M)%Z) by (symmetry; apply (Z.mod_unique v M (-1)); lia).
      rewrite E. replace (H <=? v + M)%Z with true by lia. lia.
    + rewrite Z.mod_small by lia. replace (H <=? v)%Z with false by lia. reflexivity.
  - apply Z.mod_small. lia.
Qed.

(* unsigned values with the top bit set are not read as negative *)
Lemma unsigned_nonneg w v : (0 < w)%nat -> in_range w false v -> (0 <= dec_int w false (enc_int w v))%Z.
Proof. intros. rewrite int_roundtrip by auto. unfold in_range in *. lia. Qed.

(* the same bytes read with the wrong signedness differ exactly when the top bit is set *)
Lemma signed_read_of_unsigned w v : (0 < w)%nat -> in_range w false v ->
  dec_int w true (enc_int w v) = if (2 ^ (wbits w - 1) <=? v)%Z then (v - 2 ^ wbits w)%Z else v.
Proof.
  intros Hw Hr. unfold dec_int. rewrite dec_enc_raw. unfold in_range in Hr.
  rewrite Z.mod_small by lia. reflexivity.
Qed.

(* ---- floats: bit patterns survive ---- *)
Lemma f64_roundtrip bits : bits < 2 ^ 64 -> to_f64_f64 (enc_f64 bits) = bits.
Proof.
  intros. unfold to_f64_f64, enc_f64. rewrite firstn_all2 by (rewrite length_le; lia).
  rewrite unle_le. apply N.mod_small. exact H.
Qed.
Lemma f32_bits_roundtrip bits : bits < 2 ^ 32 -> unle (firstn 4 (enc_f32 bits)) = bits.
Proof.
  intros. unfold enc_f32. rewrite firstn_all2 by (rewrite length_le; lia).
  rewrite unle_le. apply N.mod_small. exact H.
Qed.

(* ---- strings ---- *)
Lemma until_nul_app_zeros s k : until_nul (s ++ repeat 0 k) = until_nul s.
Proof.
  induction s; cbn [app until_nul].
  - destruct k; reflexivity.
  - destruct (a =? 0); auto. f_equal. auto.
Qed.

Lemma string_roundtrip n s : dec_string n (enc_string n s) = until_nul (firstn n s).
Proof.
  unfold dec_string, enc_string. destruct (Nat.leb n (length s)) eqn:E.
  - apply Nat.leb_le in E. rewrite firstn_firstn, Nat.min_id. reflexivity.
  - apply Nat.leb_gt in E.
    rewrite firstn_all2 by (rewrite app_length, repeat_length; lia).
    rewrite until_nul_app_zeros. rewrite firstn_all2 by lia. reflexivity.
Qed.

Lemma length_enc_string n s : length (enc_string n s) = n.
Proof.
  unfold enc_string. destruct (Nat.leb n (length s)) eqn:E.
  - apply Nat.leb_le in E. rewrite firstn_length. lia.
  - apply Nat.leb_gt in E. rewrite app_length, repeat_length. lia.
Qed.

(* a string without NUL that fits is read back unchanged *)
Lemma string_roundtrip_exact n s : (length s <= n)%nat -> Forall (fun b => b <> 0) s ->
  dec_string n (enc_string n s) = s.
Proof.
  intros Hl Hs. rewrite string_roundtrip. unfold bytes, byte in *. rewrite firstn_all2 by lia.
  induction Hs; cbn [until_nul]; auto.
  replace (x =? 0) with false by lia. f_equal. apply IHHs. cbn [length] in Hl. lia.
Qed.

(* ---- the documented widening is exact up to 2^53 ---- *)
Lemma f64_of_N_exact m : 0 < m < 2 ^ 53 ->
  f64_fields (f64_of_N m) = (false, m * 2 ^ (52 - N.log2 m), (Z.of_N (N.log2 m) - 52)%Z).
Proof.
  intros [Hm0 Hm]. unfold f64_of_N.
  replace (m =? 0) with false by lia.
  pose proof (N.log2_spec m Hm0) as [Hlo Hhi].
  set (l := N.log2 m) in *.
  assert (Hl : l <= 52).
  { destruct (N.le_gt_cases l 52); auto. exfalso.
    assert (2 ^ 53 <= 2 ^ l) by (apply N.pow_le_mono_r; lia). lia. }
  replace (l <=? 52) with true by lia.
  assert (HP : 2 ^ l * 2 ^ (52 - l) = 2 ^ 52) by (rewrite <- N.pow_add_r; f_equal; lia).
  assert (HS : 2 ^ N.succ l = 2 * 2 ^ l) by apply N.pow_succ_r'.
  assert (Hq : 0 < 2 ^ (52 - l)) by (apply N.neq_0_lt_0, N.pow_nonzero; lia).
  set (q := 2 ^ (52 - l)) in *. set (pl := 2 ^ l) in *.
  assert (H1 : 2 ^ 52 <= m * q) by nia.
  assert (H2 : m * q < 2 * 2 ^ 52) by nia.
  set (P := 2 ^ 52) in *.
  unfold f64_fields.
  set (bits := (1023 + l) * P + (m * q - P)).
  assert (Hdiv : bits / P = 1023 + l).
  { unfold bits. rewrite N.add_comm. rewrite N.div_add by lia. rewrite N.div_small by lia. lia. }
  assert (Hmod : bits mod P = m * q - P).
  { unfold bits. rewrite N.add_comm. rewrite N.mod_add by lia. apply N.mod_small. lia. }
  assert (H63 : bits / 2 ^ 63 = 0).
  { apply N.div_small. change (2 ^ 63) with (2048 * 2 ^ 52). fold P. unfold bits. nia. }
  change (2 ^ 52) with P.
  rewrite H63, Hdiv, Hmod. cbn [N.eqb negb].
  rewrite N.mod_small by lia.
  replace (1023 + l =? 0) with false by lia.
  f_equal; [f_equal; lia | lia].
Qed.

Lemma f64_of_Z_exact z : (0 < Z.abs z < 2 ^ 53)%Z ->
  f64_fields (f64_of_Z z)
  = ((z <? 0)%Z, Z.to_N (Z.abs z) * 2 ^ (52 - N.log2 (Z.to_N (Z.abs z))),
     (Z.of_N (N.log2 (Z.to_N (Z.abs z))) - 52)%Z).
Proof.
  intros H. unfold f64_of_Z.
  assert (Hm : 0 < Z.to_N (Z.abs z) < 2 ^ 53).
  { change (2 ^ 53) with (Z.to_N (2 ^ 53)). lia. }
  pose proof (f64_of_N_exact _ Hm) as E.
  destruct (z <? 0)%Z eqn:Ez.
  - replace (Z.to_N (- z)) with (Z.to_N (Z.abs z)) by lia.
    (* adding the sign bit only changes the sign field *)
    revert E. set (m := Z.to_N (Z.abs z)). intros E.
    assert (Hb : f64_of_N m < 2 ^ 63).
    { clear E. unfold f64_of_N. replace (m =? 0) with false by lia.
      pose proof (N.log2_spec m ltac:(lia)) as [Hlo Hhi].
      set (l := N.log2 m) in *.
      assert (Hl : l <= 52).
      { destruct (N.le_gt_cases l 52); auto. exfalso.
        assert (2 ^ 53 <= 2 ^ l) by (apply N.pow_le_mono_r; lia). lia. }
      replace (l <=? 52) with true by lia.
      assert (HP : 2 ^ l * 2 ^ (52 - l) = 2 ^ 52) by (rewrite <- N.pow_add_r; f_equal; lia).
      assert (HS : 2 ^ N.succ l = 2 * 2 ^ l) by apply N.pow_succ_r'.
      set (q := 2 ^ (52 - l)) in *. set (pl := 2 ^ l) in *.
      change (2 ^ 63) with (2048 * 2 ^ 52). set (P := 2 ^ 52) in *. nia. }
    unfold f64_fields in *.
    set (b := f64_of_N m) in *.
    assert (E63 : (2 ^ 63 + b) / 2 ^ 63 = 1).
    { replace (2 ^ 63 + b) with (b + 1 * 2 ^ 63) by lia. rewrite N.div_add by (apply N.pow_nonzero; lia).
      rewrite N.div_small by lia. reflexivity. }
    assert (E63' : b / 2 ^ 63 = 0) by (apply N.div_small; lia).
    assert (E52 : (2 ^ 63 + b) / 2 ^ 52 = 2048 + b / 2 ^ 52).
    { change (2 ^ 63) with (2048 * 2 ^ 52). rewrite N.add_comm, N.div_add by (apply N.pow_nonzero; lia). lia. }
    assert (Em : (2 ^ 63 + b) mod 2 ^ 52 = b mod 2 ^ 52).
    { change (2 ^ 63) with (2048 * 2 ^ 52). rewrite N.add_comm, N.mod_add by (apply N.pow_nonzero; lia). reflexivity. }
    rewrite E63, E52, Em. rewrite E63' in E.
    replace ((2048 + b / 2 ^ 52) mod 2048) with ((b / 2 ^ 52) mod 2048).
    2:{ replace (2048 + b / 2 ^ 52) with (b / 2 ^ 52 + 1 * 2048) by lia. rewrite N.mod_add by lia. reflexivity. }
    cbn [N.eqb negb] in *.
    destruct ((b / 2 ^ 52) mod 2048 =? 0); inversion E; subst; reflexivity.
  - replace (Z.to_N z) with (Z.to_N (Z.abs z)) by lia. exact E.
Qed.
