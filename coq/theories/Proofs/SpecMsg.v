(* C05: the writer's message encoders (Model/Codec*.v, tied byte for byte to the Go code by C11) against the
   specification decoders of Spec/FormatMsg.v.  For every encoder: what the strict / tolerant specification decoder
   makes of its output, for all well-formed inputs. *)
From HV Require Import Base.Prelude Base.Outcome Base.Bytes Spec.Parse Spec.Format Spec.FormatMsg
  Model.CodecMsg Model.CodecType Model.CodecLink Model.CodecAttr Model.CodecFilter Proofs.SpecSuper.

Ltac gd := cbn [guard obind].
Ltac pul := let Q := fresh "Q" in pose proof p_u_le as Q; bnorm; rewrite Q by assumption; clear Q; cbn [obind].
Ltac pue := let Q := fresh "Q" in pose proof p_u_le_end as Q; bnorm; rewrite Q by assumption; clear Q; cbn [obind p_end].

Lemma wrap8_small n : n <= 255 -> wrap8 n = n.
Proof. intros. unfold wrap8. apply N.mod_small. lia. Qed.
Lemma wrap16_small n : n <= 65535 -> wrap16 n = n.
Proof. intros. unfold wrap16. apply N.mod_small. lia. Qed.
Lemma wrap32_small n : n < 4294967296 -> wrap32 n = n.
Proof. intros. unfold wrap32. apply N.mod_small. lia. Qed.

Lemma u64_ok_Forall l : u64_ok l = true -> Forall (fun v => v < 256 ^ N.of_nat 8) l.
Proof. intros H. apply forallb_Forall_lt in H. exact H. Qed.

(* ------------------------------------------------------------------ dataspace *)
Definition logical_dataspace (x : dataspace) : dataspace_spec :=
  {| dss_version := 1; dss_type := 1; dss_dims := ds_dims x;
     dss_maxdims := match ds_maxdims x with [] => None | m => Some m end |}.

(* the specification's own condition the encoder does not check: a maximum is not below the current size *)
Definition maxdims_ok (x : dataspace) : bool :=
  match ds_maxdims x with [] => true | m => forall2b (fun d y => d <=? y) (ds_dims x) m end.

Lemma spec_dataspace x : wf_dataspace x = true -> maxdims_ok x = true ->
  spec_dec_dataspace 8 false (enc_dataspace x) = Ok (logical_dataspace x).
Proof.
  unfold wf_dataspace, encok_dataspace, maxdims_ok. intros W M.
  repeat (apply andb_true_iff in W as [W ?]).
  destruct x as [dims maxd]; cbn [ds_dims ds_maxdims] in *.
  assert (Hn : (length dims <> 0)%nat) by (destruct dims; [discriminate | cbn [length]; lia]).
  assert (Hl : (length dims <= 255)%nat) by (apply Nat.leb_le; assumption).
  assert (Hr : wrap8 (blen dims) = blen dims) by (apply wrap8_small; unfold blen; lia).
  unfold enc_dataspace, logical_dataspace. cbn [ds_dims ds_maxdims]. rewrite Hr.
  unfold spec_dec_dataspace. cbn [app p_byte obind].
  assert (Hfl : (match maxd with [] => 0 | _ => 1 end <? 2) = true) by (destruct maxd; reflexivity).
  rewrite Hfl. gd. change (1 =? 1) with true. cbv iota.
  change [0; 0; 0; 0; 0] with (zeros 5). rewrite (p_zeros_app 5). gd.
  assert (Hk : (blen dims =? 0) = false) by (apply N.eqb_neq; unfold blen; lia).
  rewrite Hk. change (1 =? 1) with true. cbv iota. gd.
  assert (Hrk : N.to_nat (blen dims) = length dims) by (unfold blen; lia).
  rewrite Hrk. unfold enc_dims8.
  rewrite p_us_app by (apply u64_ok_Forall; assumption). gd.
  destruct maxd as [|m0 maxd'].
  - cbn [map concat N.eqb]. gd. reflexivity.
  - change ((1 =? 1)) with true. cbv iota.
    assert (Hml : length (m0 :: maxd') = length dims).
    { apply orb_true_iff in H2 as [E|E]; [discriminate|]. apply Nat.eqb_eq in E. exact E. }
    rewrite <- Hml. rewrite <- (app_nil_r (concat _)).
    rewrite p_us_app by (apply u64_ok_Forall; assumption). gd.
    rewrite M. gd. reflexivity.
Qed.

(* the encoder does not check the maximum against the current size: a dataspace the specification decoder rejects *)
Definition dataspace_maxdims_witness : dataspace := {| ds_dims := [2]; ds_maxdims := [1] |}.
Lemma dataspace_maxdims_unchecked :
  wf_dataspace dataspace_maxdims_witness = true /\
  spec_dec_dataspace 8 false (enc_dataspace dataspace_maxdims_witness) = Err.
Proof. split; vm_compute; reflexivity. Qed.

(* ------------------------------------------------------------------ data layout, symbol table *)
(* the superblock parameters the writer uses: 8-byte offsets and lengths, little-endian *)
Definition sb8 (v : N) : sbparams := {| sb_version := v; sb_offsize := 8; sb_lensize := 8; sb_bigendian := false |}.

Definition logical_layout (x : layout) : layout_spec :=
  match x with
  | LContig size addr => LyContiguous addr size
  | LChunked cd addr => LyChunked addr cd
  end.

Definition chunkdims_positive (x : layout) : bool :=
  match x with LContig _ _ => true | LChunked cd _ => forallb (fun d => 0 <? d) cd end.

Lemma map_le4_wrap32 cd : u32_ok cd = true ->
  concat (map (fun d => le 4 (wrap32 d)) cd) = concat (map (le 4) cd).
Proof.
  intros H. f_equal. apply map_ext_in. intros d Hd. unfold u32_ok in H. rewrite forallb_forall in H.
  specialize (H d Hd). apply N.ltb_lt in H. now rewrite wrap32_small.
Qed.

Lemma pow8 : 256 ^ 8 = 256 ^ N.of_nat 8.  Proof. reflexivity. Qed.
Lemma pow4 : 4294967296 = 256 ^ N.of_nat 4.  Proof. reflexivity. Qed.

(* As a message the layout is specification-conformant (the listed deviation chunk-dims-no-elem-dim is about WHICH numbers the
   writer passes: the dataset's rank instead of rank+1 dimensions; see the object-level check of the tie). *)
Lemma spec_layout v x : wf_layout (sb8 v) x = true -> chunkdims_positive x = true ->
  spec_dec_layout 8 8 false (enc_layout (sb8 v) x) = Ok (logical_layout x).
Proof.
  unfold wf_layout. intros W P. apply andb_true_iff in W as [W B]. apply andb_true_iff in W as [_ E].
  destruct x as [size addr | cd addr]; cbn [sb8 sb_offsize sb_lensize sb_bigendian enc_layout logical_layout] in *.
  - apply andb_true_iff in B as [Ba Bs]. apply N.ltb_lt in Ba, Bs. rewrite pow8 in Ba, Bs.
    unfold write_uint. cbn [N.eqb Pos.eqb orb]. change (N.to_nat 8) with 8%nat.
    unfold spec_dec_layout. cbn [app p_byte obind N.eqb Pos.eqb guard].
    rewrite p_u_le by assumption. cbn [obind]. rewrite p_u_le_end by assumption. cbn [obind p_end]. reflexivity.
  - apply N.ltb_lt in B. rewrite pow8 in B.
    unfold encok_layout in E. apply andb_true_iff in E as [E U]. apply andb_true_iff in E as [E1 E2].
    assert (Hn : (length cd <> 0)%nat) by (destruct cd; [discriminate | cbn [length]; lia]).
    apply Nat.leb_le in E2.
    unfold write_uint. cbn [N.eqb Pos.eqb orb]. change (N.to_nat 8) with 8%nat.
    rewrite wrap8_small by (unfold blen; lia). rewrite map_le4_wrap32 by assumption.
    unfold spec_dec_layout. cbn [app p_byte obind N.eqb Pos.eqb guard].
    assert (H0 : (0 <? blen cd) = true) by (apply N.ltb_lt; unfold blen; lia).
    rewrite H0. gd. rewrite p_u_le by assumption. cbn [obind].
    replace (N.to_nat (blen cd)) with (length cd) by (unfold blen; lia).
    rewrite <- (app_nil_r (concat _)). rewrite p_us_app.
    + gd. cbn [chunkdims_positive] in P. rewrite P. gd. cbn [p_end obind]. reflexivity.
    + unfold u32_ok in U. apply forallb_Forall_lt in U. rewrite pow4 in U. exact U.
Qed.

Lemma spec_symtab x : wf_symtab x = true ->
  spec_dec_symtab 8 false (enc_symtab 8 x) = Ok (st_btree x, st_heap x).
Proof.
  unfold wf_symtab. intros W. apply andb_true_iff in W as [A B]. apply N.ltb_lt in A, B.
  unfold enc_symtab, write_uint. cbn [N.eqb Pos.eqb orb]. change (N.to_nat 8) with 8%nat.
  unfold spec_dec_symtab. rewrite p_u_le by exact A. cbn [obind]. rewrite p_u_le_end by exact B. reflexivity.
Qed.

(* ------------------------------------------------------------------ attribute info, link info *)
Definition logical_attrinfo (x : attrinfo) : attrinfo_spec :=
  {| ais_flags := ai_flags x; ais_maxcidx := if N.testbit (ai_flags x) 0 then Some (ai_maxcidx x) else None;
     ais_heap := ai_heap x; ais_btname := ai_btname x;
     ais_btorder := if N.testbit (ai_flags x) 1 then Some (ai_btorder x) else None |}.

(* the writer's message also carries 2 zero bytes after the maximum creation index when flag bit 0 is set (wr16 0), which the
   specification does not have: conformant exactly when creation order is not tracked (the writer always passes flags 0) *)
Lemma spec_attrinfo v x : wf_attrinfo (sb8 v) x = true -> ai_version x = 0 -> ai_flags x < 4 -> N.testbit (ai_flags x) 0 = false ->
  spec_dec_attrinfo 8 false (enc_attrinfo (sb8 v) x) = Ok (logical_attrinfo x).
Proof.
  unfold wf_attrinfo. intros W V F T0. repeat (apply andb_true_iff in W as [W ?]).
  cbn [sb8 sb_offsize sb_bigendian] in *.
  repeat match goal with H : (_ <? 256 ^ 8) = true |- _ => apply N.ltb_lt in H; rewrite pow8 in H end.
  unfold enc_attrinfo, logical_attrinfo, write_addr. cbn [sb8 sb_offsize sb_bigendian N.eqb Pos.eqb orb]. rewrite V, T0.
  change (N.to_nat 8) with 8%nat. unfold spec_dec_attrinfo. cbn [app p_byte obind N.eqb guard].
  assert (F' : (ai_flags x <? 4) = true) by (apply N.ltb_lt; exact F). rewrite F'. gd. rewrite T0. cbn [obind].
  pul.
  destruct (N.testbit (ai_flags x) 1).
  - pul. pue. reflexivity.
  - rewrite app_nil_r. pue. reflexivity.
Qed.

(* with creation-order tracking the encoder inserts two bytes the specification does not have *)
Definition attrinfo_corder_witness : attrinfo :=
  {| ai_version := 0; ai_flags := 1; ai_heap := 0; ai_btname := 0; ai_maxcidx := 0; ai_btorder := 0 |}.
Lemma attrinfo_corder_refuted :
  wf_attrinfo (sb8 2) attrinfo_corder_witness = true /\
  spec_dec_attrinfo 8 false (enc_attrinfo (sb8 2) attrinfo_corder_witness) = Err.
Proof. split; vm_compute; reflexivity. Qed.

Definition logical_linkinfo (x : linkinfo) : linkinfo_spec :=
  {| lis_flags := li_flags x; lis_maxcidx := if N.testbit (li_flags x) 0 then Some (li_maxcorder x) else None;
     lis_heap := li_heap x; lis_btname := li_btname x;
     lis_btorder := if N.testbit (li_flags x) 1 then Some (li_btorder x) else None |}.

Lemma spec_linkinfo v x : wf_linkinfo (sb8 v) x = true ->
  spec_dec_linkinfo 8 false (enc_linkinfo (sb8 v) x) = Ok (logical_linkinfo x).
Proof.
  unfold wf_linkinfo, encok_linkinfo. intros W. repeat (apply andb_true_iff in W as [W ?]).
  cbn [sb8 sb_offsize sb_bigendian] in *.
  repeat match goal with H : (_ <? 256 ^ 8) = true |- _ => apply N.ltb_lt in H; rewrite pow8 in H end.
  match goal with H : (li_version x =? 0) = true |- _ => apply N.eqb_eq in H; rename H into V end.
  match goal with H : (li_flags x <? 4) = true |- _ => rename H into F end.
  match goal with H : (li_maxcorder x <? _) = true |- _ => apply N.ltb_lt in H; rename H into M end.
  unfold enc_linkinfo, logical_linkinfo, write_uint. cbn [sb8 sb_offsize sb_bigendian N.eqb Pos.eqb orb]. rewrite V.
  change (N.to_nat 8) with 8%nat. unfold spec_dec_linkinfo. cbn [app p_byte obind N.eqb guard].
  rewrite F. gd.
  assert (M8 : li_maxcorder x < 256 ^ N.of_nat 8) by (eapply N.lt_trans; [exact M | reflexivity]).
  destruct (N.testbit (li_flags x) 0); cbn [app].
  - pul. pul.
    destruct (N.testbit (li_flags x) 1).
    + pul. pue. reflexivity.
    + rewrite app_nil_r. pue. reflexivity.
  - cbn [obind]. pul.
    destruct (N.testbit (li_flags x) 1).
    + pul. pue. reflexivity.
    + rewrite app_nil_r. pue. reflexivity.
Qed.
